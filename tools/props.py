#!/usr/bin/env python3
"""Per-property checks.  Each check_Cxx(ctx) generates its operation streams, runs them through the
implementation and the Lean model, evaluates the property's direct predicate on the implementation,
and leaves the verdict to Ctx.conclude()."""
import collections
from tjlib import *
from streams import *

PROP_MODULES = {}   # pid -> list of Lean modules holding its property theorems (filled below)
for _i in range(1, 21):
    PROP_MODULES['C%02d' % _i] = ['TJ.Props.C%02d' % _i]

ASSUME_COMMON = [
    'Lean 4.33.0 kernel; axioms of each theorem listed in coverage.axioms',
    'hand-written Lean model TJ.Impl tied to the C code by differential correspondence only (harness/harness.c vs lean/Driver/Main.lean)',
    'compiled code observed on the build variants listed in coverage.variants, not proved',
    'little-endian 64-bit Linux host; big-endian paths of the library are not compiled',
]

class Ctx:
    def __init__(self, pid, tier, seed):
        self.pid = pid; self.tier = tier; self.seed = seed
        self.res = Result(pid, tier, seed)
        self.g = Gen(seed, pid)
        self.meta = None
        self.streams = collections.OrderedDict()   # name -> dict(evaluations, nontrivial(set of hashes), diffs)
        self.diffs = []          # (stream, variant, idx, line, impl, model)
        self.pred_fail = []      # (name, replay dict, key)
        self.broken_proofs = []  # theorem names
        self.proof = {'obligations': 0, 'discharged': 0, 'theorems': [], 'axioms': {}, 'checker_cmd': '', 'source_audit': []}
        self.samples = []
        self.dist = collections.Counter()
        self.variants_used = set()
        self.extra_cov = {}
        self.assume = list(ASSUME_COMMON)
        self.equality_streams = {}   # stream name -> note: a disagreement with the model on these streams IS a failing input of the property

    # ------------------------------------------------------------------ Lean
    def lean(self, extra_modules=(), extra_theorems=()):
        mods = list(PROP_MODULES.get(self.pid, [])) + list(extra_modules)
        # build what this property needs (its theorem modules and the drivers), not the whole library: a regenerated
        # file that no longer checks then breaks the properties that depend on it and only those
        ok, log = lean_build(tuple(['tjdriver', 'tjspec'] + [m for m in mods if os.path.exists(os.path.join(LEAN, m.replace('.', '/') + '.lean'))]))
        thms = []
        for m in mods:
            thms += theorems_of(m.replace('.', '/') + '.lean')
        thms += list(extra_theorems)
        mods_exist = [m for m in mods if os.path.exists(os.path.join(LEAN, m.replace('.', '/') + '.lean'))]
        self.proof['checker_cmd'] = 'lake build TJ tjdriver; lake env lean <audit: #print axioms on %d theorems of %s>' % (len(thms), ','.join(mods_exist))
        self.proof['source_audit'] = lean_source_audit()
        if not ok:
            # find which modules failed
            failed = re.findall(r'^- (\S+)', log, re.M)
            self.proof['build_log_tail'] = log[-3000:]
            self.proof['obligations'] = max(1, len(thms)); self.proof['theorems'] = thms
            self.broken_proofs.append('lake build failed: %s' % ','.join(failed))
            if not os.path.exists(DRIVER):
                raise LeanError('Lean driver did not build:\n' + log[-3000:])
            return
        if self.proof['source_audit']:
            self.broken_proofs.append('forbidden construct in Lean sources: %s' % '; '.join(self.proof['source_audit'][:5]))
        if thms:
            axs, out = axioms_audit(mods_exist, thms)
            self.proof['obligations'] = len(thms); self.proof['theorems'] = thms
            for t in thms:
                if axioms_ok(axs.get(t)):
                    self.proof['discharged'] += 1
                else:
                    self.broken_proofs.append('%s: axioms=%s' % (t, axs.get(t)))
                self.proof['axioms'][t] = axs.get(t)
            if self.tier == 'thorough':
                # independent re-check of the compiled theorems by the toolchain's leanchecker (replays every declaration in the kernel)
                lc = {}
                for m in mods_exist:
                    r = subprocess.run(['lake', 'env', 'leanchecker', m], cwd=LEAN, stdout=subprocess.PIPE, stderr=subprocess.STDOUT, text=True)
                    lc[m] = 'ok' if r.returncode == 0 else ('FAILED: ' + r.stdout[-300:])
                    if r.returncode != 0: self.broken_proofs.append('leanchecker rejects %s: %s' % (m, r.stdout[-200:]))
                self.proof['leanchecker'] = lc
                self.proof['checker_cmd'] += '; lake env leanchecker <module> for each of them'

    # ------------------------------------------------------------------ implementation
    def build(self, variants=('prod', 'san')):
        self.meta = tjbuild.build(tuple(variants))
        return self.meta

    def corr(self, name, lines, variants=('prod', 'san'), nontrivial=None, stateless=True, cases=None):
        """run lines through each variant and the model; record diffs; returns (impl outputs of first variant, model outputs)"""
        st = self.streams.setdefault(name, {'evaluations': 0, 'nontrivial': set(), 'diffs': 0})
        model = run_driver(lines)
        first = None
        for v in variants:
            self.variants_used.add(v)
            to = getattr(self, 'impl_timeout', None) or 1200
            impl = run_stateless(self.meta, v, lines) if (stateless and len(lines) > 2000 and to == 1200) else run_impl(self.meta, v, lines, timeout=to)
            if first is None: first = impl
            for i, (a, b) in enumerate(zip(impl, model)):
                if a != b:
                    st['diffs'] += 1
                    self.diffs.append((name, v, i, lines, a, b, i, stateless))
        st['evaluations'] += len(lines) * len(variants)
        for i, l in enumerate(lines):
            nt = True if nontrivial is None else nontrivial(i)
            if nt is True: st['nontrivial'].add(hashlib.md5(l.encode()).digest())
            elif nt: st['nontrivial'].add(hashlib.md5(str(nt).encode()).digest())
        if lines and len(self.samples) < 8:
            k = self.g.randint(0, len(lines) - 1)
            self.samples.append({'stream': name, 'op': lines[k][:300], 'impl': first[k][:300], 'model': model[k][:300]})
        return first, model

    def fail(self, name, ops, got, expected, note, variant='prod', key=None, index=None):
        self.pred_fail.append((name, {'kind': 'ops', 'variant': variant, 'ops': ops, 'index': len(ops) - 1 if index is None else index,
                                      'got': got, 'expected': expected, 'note': note}, key))

    # ------------------------------------------------------------------ verdict
    def conclude(self, level_if_no_proof='exploration'):
        res = self.res
        # properties that are equalities with a documented function (DESIGN.md section 4): the model is PROVED equal to the
        # specification, so an operation on which the implementation differs from the model is a concrete failing input
        if not self.pred_fail:
            for (name, v, i, ops, a, b, idx, stateless) in self.diffs:
                if name in self.equality_streams and len([1 for n_, _, _ in self.pred_fail if n_ == 'differs-from-specification']) < 2:
                    rops = [ops[idx]] if stateless else shrink_history(self.meta, v, ops, idx)
                    self.pred_fail.append(('differs-from-specification', {'kind': 'ops', 'variant': v, 'ops': rops, 'index': len(rops) - 1, 'got': a, 'expected': b,
                        'note': 'the implementation (build variant %s) differs on this input from the Lean model, which is proved equal to the documented function (%s)' % (v, self.equality_streams[name])}, None))
        seen = set()
        per_name = collections.Counter()
        for name, replay, key in self.pred_fail:
            k = (name, key)
            if key is not None and k in seen: continue
            seen.add(k)
            per_name[name] += 1
            if per_name[name] > 2: continue
            res.violation(name, replay, True, key)
        found = bool(self.pred_fail)
        known_keys = {k for (p, k, _) in known_findings() if p == self.pid}
        if not found:
            if self.diffs:
                name, v, i, ops, a, b, idx, stateless = self.diffs[0]
                hist_note = ''
                if stateless:
                    # does the operation disagree on its own?  if not, the result depends on earlier calls in the same process
                    alone = run_impl(self.meta, v, [ops[idx]])[0]
                    if alone != a:
                        hist_note = ' NOTE: this operation gives a different result when run alone (%s): its result depends on earlier, unrelated calls in the same process; the replay keeps the shortest prefix of earlier operations that reproduces it.' % alone[:80]
                        ops = shrink_history(self.meta, v, ops, idx, limit=400)
                    else:
                        ops = [ops[idx]]
                else:
                    ops = shrink_history(self.meta, v, ops, idx)
                res.violation('correspondence:' + name,
                              {'kind': 'ops', 'variant': v, 'ops': ops, 'index': len(ops) - 1, 'got': a, 'expected': b,
                               'note': 'the implementation and the Lean model TJ.Impl disagree on this operation (stream %s, %d disagreements in this run); '
                                       'the property theorems are about the model, so the property is no longer shown for this tree. '
                                       'The directed search found no input on which the property itself fails.' % (name, len(self.diffs)) + hist_note},
                              False)
            if self.broken_proofs:
                res.violation('proof', {'kind': 'proof', 'broken': self.broken_proofs, 'build_log_tail': self.proof.get('build_log_tail', ''),
                                        'note': 'these proof obligations no longer check against the current tree'}, False)
        evals = sum(s['evaluations'] for s in self.streams.values())
        nontriv = sum(len(s['nontrivial']) for s in self.streams.values())
        cov = {
            'evaluations': evals, 'distinct_nontrivial': nontriv,
            'rule': RULES.get(self.pid, ''),
            'samples': self.samples[:8] or [{'note': 'no operation stream in this check'}],
            'streams': {k: {'evaluations': v['evaluations'], 'distinct_nontrivial': len(v['nontrivial']), 'disagreements': v['diffs']} for k, v in self.streams.items()},
            'traces_validated_against_impl': evals,
            'variants': sorted(self.variants_used),
            'distribution': dict(self.dist),
            'tree_hash': self.meta['hash'] if self.meta else None,
        }
        cov.update(self.extra_cov)
        has_proof = self.proof['obligations'] > 0
        if has_proof:
            cov.update({'obligations': self.proof['obligations'], 'discharged': self.proof['discharged'],
                        'checker_cmd': self.proof['checker_cmd'],
                        'trusted_base': ['Lean 4.33.0 kernel', 'axioms: ' + ', '.join(sorted({a for v in self.proof['axioms'].values() if v for a in v})),
                                         'correspondence harness + generators (tools/, harness/)', 'model TJ.Impl hand-written'],
                        'theorems': self.proof['theorems'], 'axioms': self.proof['axioms'], 'broken': self.broken_proofs})
            if self.proof.get('leanchecker'): cov['leanchecker'] = self.proof['leanchecker']
        level = 'proof' if has_proof else level_if_no_proof
        if evals == 0 and not has_proof: level = 'other'; cov['explanation'] = cov.get('explanation', 'no stream')
        return res.finish(level, cov, self.assume)

    def run(self, fn):
        fn(self)
        return self.conclude()


def shrink_history(meta, variant, ops, idx, limit=120):
    """greedy: drop earlier ops while the implementation and the model still disagree on the last op"""
    ops = ops[:idx + 1]
    if len(ops) > limit:
        # bisect the start of the prefix first
        lo = 0
        for cut in (len(ops) - 2, len(ops) - 4, len(ops) - 8, len(ops) - 16, len(ops) - 64):
            if cut <= 0: break
            cand = ops[cut:]
            try:
                if run_impl(meta, variant, cand)[-1] != run_driver(cand)[-1]: lo = cut; break
            except Exception: pass
        ops = ops[lo:]
        if len(ops) > limit: return ops
    def differs(cand):
        try:
            a = run_impl(meta, variant, cand); b = run_driver(cand)
        except Exception:
            return False
        return a[-1] != b[-1]
    i = 0
    while i < len(ops) - 1:
        cand = ops[:i] + ops[i + 1:]
        if differs(cand): ops = cand
        else: i += 1
    return ops


def replay(pid, path):
    r = json.load(open(path))
    if r.get('kind') != 'ops':
        print('replay %s: kind=%s: %s' % (path, r.get('kind'), json.dumps(r.get('broken', r.get('note')))[:1000]))
        ok, log = lean_build()
        print('lake build:', 'ok' if ok else 'FAILED'); return 0 if ok else 1
    ok, log = lean_build()
    meta = tjbuild.build((r.get('variant', 'prod'),) if r.get('variant', 'prod') in ('prod', 'san', 'shared') else ('prod', r['variant']))
    impl = run_impl(meta, r.get('variant', 'prod'), r['ops'])
    model = run_driver(r['ops'])
    i = r.get('index', len(r['ops']) - 1)
    print('op      :', r['ops'][i][:400]); print('impl    :', impl[i][:400]); print('model   :', model[i][:400]); print('expected:', str(r.get('expected'))[:400])
    print('note    :', r.get('note'))
    bad = impl[i] != r.get('expected') if r.get('expected') is not None else impl[i] != model[i]
    print('STILL FAILING' if bad else 'passes now')
    return 1 if bad else 0

RULES = {
    'C01': 'boundary lengths x AD lengths x 3 variants x in-place/alignment, random keys/nonces/data classes; non-trivial = key/nonce differ from the test vectors and (a byte >= 0x80, a length > 32, in-place or misaligned); distinct by op-line hash',
    'C02': 'as C01 (encrypt outputs compared byte for byte with the model) plus direct permutation calls; same non-triviality rule',
    'C03': 'every valid packet followed by tag bit flips (all 64 for every 12th packet), 2-byte tag differences, random tags, body/AD/nonce/key flips, truncations, extensions, boundary shifts, short inputs; non-trivial = any tampered/short packet other than first-byte^1 / last-tag-byte^1, or a packet > 40 bytes',
    'C04': 'rejected packets over all boundary lengths; non-trivial as C03',
    'C08': 'SIV: as C01 + C03',
    'C09': 'SIV encryptions compared with the model; pairs under one (key, nonce); non-trivial = a pair, or a case non-trivial by the C01 rule',
}

# =========================================================================== AEAD / SIV family

def _enc_phase(ctx, mode, variants=('prod', 'san', 'ndebug', 'gcc-Os')):
    ctx.build(['prod', 'san', 'ndebug', 'gcc-Os'])
    cases = aead_cases(ctx.g, ctx.tier, mode)
    op = mode + '.enc'
    lines = [aead_line(op, c) for c in cases]
    impl, model = ctx.corr(op, lines, variants, nontrivial=lambda i: nontrivial_aead(cases[i]))
    for c in cases:
        ctx.dist['mlen%%4=%d' % (len(c['m']) % 4)] += 1; ctx.dist['adlen%%4=%d' % (len(c['ad']) % 4)] += 1
        ctx.dist['inplace=%d' % c['inplace']] += 1; ctx.dist['v%d' % c['v']] += 1
        if len(c['m']) > 32: ctx.dist['mlen>32'] += 1
    return cases, lines, impl, model

def _roundtrip(ctx, mode):
    """C01 / C08 direct predicate: decrypt(encrypt(m)) = m on the implementation itself"""
    cases, lines, impl, model = _enc_phase(ctx, mode)
    dec_cases = []; dec_lines = []
    for c, l, o in zip(cases, lines, impl):
        clen = field(o, 'clen'); out = field(o, 'out')
        if clen is None or out is None or 'slack=ok' not in o or 'inputs=ok' not in o or int(clen) != len(c['m']) + 8 or len(unhx(out)) != len(c['m']) + 8:
            ctx.fail(mode + '-encrypt-length', [l], o, 'clen=%d out=<%d bytes> slack=ok inputs=ok' % (len(c['m']) + 8, len(c['m']) + 8),
                     'encryption must output exactly mlen+8 bytes and touch nothing else')
            continue
        d = dict(c); d['c'] = unhx(out); d['inplace'] = 1 if ctx.g.random() < 0.5 else 0; d['align'] = ctx.g.randint(0, 7); d.pop('m_null', None)
        dec_cases.append((c, l, d)); dec_lines.append(dec_line(mode + '.dec', d))
    dimpl, dmodel = ctx.corr(mode + '.dec(valid)', dec_lines, ('prod', 'san'), nontrivial=lambda i: nontrivial_aead(dec_cases[i][0]))
    for (c, l, d), dl, o in zip(dec_cases, dec_lines, dimpl):
        exp = 'ret=0 mlen=%d out=%s slack=ok inputs=ok' % (len(c['m']), hx(c['m']))
        if o != exp:
            ctx.fail(mode + '-roundtrip', [l, dl], o, exp, 'decrypt(encrypt(m)) must return 0, mlen and exactly m (second op decrypts the output of the first)')
    # a build variant whose encryption differs from the model: does the round trip fail ON THAT VARIANT?
    for v in sorted({d[1] for d in ctx.diffs if d[0] == mode + '.enc' and d[1] != 'prod'}):
        sub = [(c, l) for c, l in zip(cases, lines)]
        eo = run_stateless(ctx.meta, v, [l for _, l in sub])
        dls = []; keep = []
        for (c, l), o in zip(sub, eo):
            out = field(o, 'out')
            if out is None or len(unhx(out)) != len(c['m']) + 8: continue
            d = dict(c); d['c'] = unhx(out); d.pop('m_null', None)
            keep.append((c, l)); dls.append(dec_line(mode + '.dec', d))
        do = run_stateless(ctx.meta, v, dls)
        for (c, l), dl, o in zip(keep, dls, do):
            exp = 'ret=0 mlen=%d out=%s slack=ok inputs=ok' % (len(c['m']), hx(c['m']))
            if o != exp:
                ctx.fail(mode + '-roundtrip', [l, dl], o, exp, 'on build variant %s decrypt(encrypt(m)) does not return m (second op decrypts what the first produced on that variant)' % v, variant=v)
                break

def _aead_source(ctx, targets=('TJ.Props.C05Gen', 'TJ.Props.C02Gen')):
    """TJ.Props.C02Gen: the terms REGENERATED from src/tinyjambu-{128,192,256}-aead.c and src/backend/tinyjambu-aead-common-*.c
    (encrypt, setup, absorb, generate_tag, the permutations) write Spec.AEAD.encrypt and mlen + 8 for every input"""
    import taint
    ok, stats = taint.regenerate(ctx, targets)
    ctx.extra_cov['minic'] = {k: stats.get(k) for k in ('functions', 'translated', 'errors', 'build_ok')}
    if stats.get('errors'): ctx.broken_proofs.append('tools/c2lean.py cannot translate the current sources: ' + '; '.join(stats['errors'][:3]))
    elif not ok: ctx.broken_proofs.append('TJ.Props.C02Gen / C05Gen (regenerated tinyjambu_*_aead_encrypt / _decrypt, _setup_*, _absorb_*, _generate_tag_*, _permutation_* = specification / model) no longer check: ' + re.sub(r'\s+', ' ', stats.get('build_log_tail', ''))[-600:])

def check_C01(ctx):
    ctx.build(); _aead_source(ctx, ('TJ.Props.C02Gen', 'TJ.Props.C01Gen')); ctx.lean(extra_modules=['TJ.Props.C02Gen', 'TJ.Props.C01Gen'])
    _roundtrip(ctx, 'aead')
    if ctx.tier == 'thorough': _matrix(ctx, 'aead')

def _matrix(ctx, mode):
    """thorough: the same encrypt stream on the compiler / optimisation / static-shared matrix"""
    vs = ['gcc-O0', 'gcc-O2', 'gcc-O3', 'clang-O0', 'clang-O2', 'clang-O3']
    ctx.build(['prod', 'san'] + vs)
    cases = aead_cases(Gen(ctx.seed, 'matrix'), 'quick', mode)
    lines = [aead_line(mode + '.enc', c) for c in cases]
    ctx.corr(mode + '.enc(matrix)', lines, vs + ['shared'], nontrivial=lambda i: nontrivial_aead(cases[i]))

def check_C02(ctx):
    ctx.build(); _aead_source(ctx); ctx.lean(extra_modules=['TJ.Props.C05Gen', 'TJ.Props.C02Gen'])
    ctx.equality_streams.update({'aead.enc': 'TJ.Props.C02.encrypt_is_spec', 'perm': 'TJ.Props.C02.permutation_is_nlfsr', 'aead.enc(matrix)': 'TJ.Props.C02.encrypt_is_spec'})
    _enc_phase(ctx, 'aead')
    _perm_stream(ctx)
    _kat(ctx, ['TinyJAMBU-128.txt', 'TinyJAMBU-192.txt', 'TinyJAMBU-256.txt'])
    _spec_kat(ctx, ['TinyJAMBU-128.txt', 'TinyJAMBU-192.txt', 'TinyJAMBU-256.txt'], 97 if ctx.tier == 'quick' else 3)
    if ctx.tier == 'thorough': _matrix(ctx, 'aead')

def _perm_stream(ctx, n=None):
    g = ctx.g; lines = []
    n = n or (600 if ctx.tier == 'quick' else 6000)
    for i in range(n):
        v = g.choice([128, 192, 256]); nk = KEYLEN[v]
        r = g.choice(list(range(0, 25)) + [5, 8, 9, 10, 20, 33, 64])
        lines.append('perm %d %s %s %d' % (v, hx(g.bytes(16)), hx(g.bytes(nk)), r))
    ctx.corr('perm', lines, ('prod', 'san'))

def _kat_records(path):
    recs = []; cur = {}
    for l in open(path):
        l = l.strip()
        if not l:
            if cur: recs.append(cur); cur = {}
            continue
        if '=' in l:
            k, v = l.split('=', 1); cur[k.strip()] = v.strip()
    if cur: recs.append(cur)
    return recs

def _kat(ctx, files):
    """the repository's KAT files through implementation and model (an independent oracle for both)"""
    lines = []; exp = []
    h = lambda s: s.lower() if s else '-'
    for f in files:
        p = os.path.join(REPO, 'test', 'kat', f)
        if not os.path.exists(p): continue
        recs = _kat_records(p)
        if ctx.tier == 'quick': recs = recs[::7] + recs[-3:]
        for r in recs:
            if 'HASH' in f: lines.append('hash %s' % h(r['Msg'])); exp.append(h(r['MD']))
            elif 'HMAC' in f: lines.append('hmac %s %s' % (h(r['Key']), h(r['Msg']))); exp.append(h(r['Tag']))
            else:
                v = re.search(r'(\d+)', f).group(1)
                op = 'siv.enc' if 'SIV' in f else 'aead.enc'
                lines.append('%s %s %s %s %s %s 0 0' % (op, v, h(r['Key']), h(r['Nonce']), h(r['AD']), h(r['PT']))); exp.append(h(r['CT']))
    if not lines: return
    impl, model = ctx.corr('kat-files', lines, ('prod',), nontrivial=lambda i: False)
    bad_model = [(l, m, e) for l, m, e in zip(lines, model, exp) if field(m, 'out') != e]
    for l, o, e in zip(lines, impl, exp):
        if field(o, 'out') != e:
            ctx.fail('kat', [l], o, 'out=' + e, 'output differs from the repository\'s known-answer file'); break
    ctx.extra_cov['kat_vectors'] = len(lines); ctx.extra_cov['kat_model_mismatches'] = len(bad_model)
    if bad_model: ctx.broken_proofs.append('model disagrees with KAT file on %s' % bad_model[0][0][:100])

def _tamper(ctx, mode, zero_check=True):
    """C03/C04/C08: tampered packets.  Direct predicate on the implementation:
       valid packet -> accepted with the plaintext; tag differs (body unchanged) -> ret=-1; every rejection -> all-zero buffer;
       clen<8 -> negative, nothing written.  Other tamper kinds are expected rejections (2^-64) and are compared with the model."""
    g = ctx.g
    cases = aead_cases(g, ctx.tier, mode)
    if ctx.tier == 'quick': cases = g.sample(cases, 220)
    lines = [aead_line(mode + '.enc', c) for c in cases]
    impl, model = ctx.corr(mode + '.enc', lines, ('prod',), nontrivial=lambda i: nontrivial_aead(cases[i]))
    packets = []
    for c, o in zip(cases, impl):
        out = field(o, 'out')
        if out is None: continue
        ct = unhx(out)
        if len(ct) == len(c['m']) + 8: packets.append((c, ct))
    tam = tamper_cases(g, ctx.tier, packets)
    dl = [dec_line(mode + '.dec', d) for d, k in tam]
    def nontriv(i):
        d, k = tam[i]
        return k not in ('valid',) or len(d['c']) > 40
    dimpl, dmodel = ctx.corr(mode + '.dec(tampered)', dl, ('prod', 'san'), nontrivial=nontriv)
    for (d, kind), l, o in zip(tam, dl, dimpl):
        ctx.dist['tamper:' + re.sub(r'\d+$', '', kind)] += 1
        n = len(d['c'])
        ret = field(o, 'ret'); out = field(o, 'out'); ml = field(o, 'mlen')
        if n < 8:
            if ret is None or int(ret) >= 0 or out != 'untouched' or 'slack=ok' not in o:
                ctx.fail(mode + '-short-input', [l], o, 'ret=-1 mlen=unset out=untouched slack=ok inputs=ok', 'input shorter than 8 bytes must be rejected without writing plaintext')
            continue
        if kind == 'valid':
            m = d['m']
            exp = 'ret=0 mlen=%d out=%s slack=ok inputs=ok' % (len(m), hx(m))
            if o != exp: ctx.fail(mode + '-accept-valid', [l], o, exp, 'a packet carrying exactly the tag encryption yields must be accepted')
            continue
        exp = 'ret=-1 mlen=%d out=%s slack=ok inputs=ok' % (n - 8, hx(b'\x00' * (n - 8)))
        if kind.startswith('tag'):
            if ret != '-1':
                ctx.fail(mode + '-wrong-tag-accepted', [l], o, exp, 'tag differs from the correct tag (%s) but the packet was not rejected with -1' % kind)
                continue
        if ret is not None and ret != '0' and zero_check:
            if out is None or unhx(out) != b'\x00' * (n - 8) or 'slack=ok' not in o:
                ctx.fail(mode + '-plaintext-not-zeroed', [l], o, exp, 'rejected packet but the plaintext region is not all zero on return')
        if ret == '0' and not kind.startswith('tag'):
            # accepted a modified packet: either a 2^-64 event or a defect; report only if the model rejects
            pass
    return tam, dl, dimpl

def _checktag_stream(ctx):
    g = ctx.g; lines = []
    for i in range(800 if ctx.tier == 'quick' else 8000):
        t1 = g.bytes(8); pl = g.bytes(g.choice([0, 1, 5, 40, 300]))
        r = g.random()
        if r < 0.3: t2 = t1
        elif r < 0.7: t2 = flip(t1, g.randint(0, 63))
        else: t2 = g.bytes(8)
        lines.append('checktag %s %s %s' % (hx(pl), hx(t1), hx(t2)))
    # every single-byte difference value at every position
    t1 = g.bytes(8, 'rand')
    for pos in range(8):
        for dv in (range(1, 256) if ctx.tier == 'thorough' or pos in (0, 7) else (1, 2, 0x40, 0x80, 0xff)):
            t2 = bytearray(t1); t2[pos] ^= dv
            lines.append('checktag %s %s %s' % (hx(b'\xa5' * 9), hx(t1), hx(bytes(t2))))
    impl, model = ctx.corr('checktag', lines, ('prod', 'san'))
    for l, o in zip(lines, impl):
        f = l.split(); eq = f[2] == f[3]; pl = unhx(f[1])
        exp = 'ret=%d out=%s' % (0 if eq else -1, hx(pl if eq else b'\x00' * len(pl)))
        if o != exp: ctx.fail('checktag', [l], o, exp, 'check_tag must return 0 and keep the plaintext iff the tags are equal, else -1 and zero it')

def _check_tag_source(ctx):
    """TJ.Props.C03Gen: the regenerated term of tinyjambu_aead_check_tag computes the model's checkTag for all tags, lengths and contents"""
    import taint
    ok, stats = taint.regenerate(ctx, ('TJ.Props.C03Gen', 'TJ.Props.C01Gen') + (('TJ.Props.C08Gen',) if ctx.pid == 'C04' else ()))
    ctx.extra_cov['minic'] = {k: stats.get(k) for k in ('functions', 'translated', 'errors', 'build_ok')}
    if stats.get('errors'): ctx.broken_proofs.append('tools/c2lean.py cannot translate the current sources: ' + '; '.join(stats['errors'][:3]))
    elif not ok: ctx.broken_proofs.append('TJ.Props.C03Gen / C01Gen (regenerated tinyjambu_aead_check_tag = model checkTag; regenerated tinyjambu_*_aead_decrypt = model aeadDecrypt) no longer check: ' + re.sub(r'\s+', ' ', stats.get('build_log_tail', ''))[-600:])

def check_C03(ctx):
    ctx.build(); _check_tag_source(ctx); ctx.lean(extra_modules=['TJ.Props.C03Gen', 'TJ.Props.C01Gen'])
    _tamper(ctx, 'aead'); _checktag_stream(ctx)

def check_C04(ctx):
    ctx.build(); _check_tag_source(ctx); ctx.lean(extra_modules=['TJ.Props.C03Gen', 'TJ.Props.C01Gen', 'TJ.Props.C08Gen'])
    _tamper(ctx, 'aead'); _tamper(ctx, 'siv'); _checktag_stream(ctx)

def _siv_source(ctx):
    """TJ.Props.C09Gen: the terms REGENERATED from src/tinyjambu-{128,192,256}-siv.c (siv_encrypt with setup, absorb, generate_tag, memcpy, the permutations)
    write Spec.SIV.encrypt and mlen + 8 for every input"""
    import taint
    ok, stats = taint.regenerate(ctx, ('TJ.Props.C09Gen', 'TJ.Props.C08Gen'))
    ctx.extra_cov['minic'] = {k: stats.get(k) for k in ('functions', 'translated', 'errors', 'build_ok')}
    if stats.get('errors'): ctx.broken_proofs.append('tools/c2lean.py cannot translate the current sources: ' + '; '.join(stats['errors'][:3]))
    elif not ok: ctx.broken_proofs.append('TJ.Props.C09Gen / C08Gen (regenerated tinyjambu_*_siv_encrypt = documented two-pass construction; regenerated tinyjambu_*_siv_decrypt = model sivDecrypt) no longer check: ' + re.sub(r'\s+', ' ', stats.get('build_log_tail', ''))[-600:])

def check_C08(ctx):
    ctx.build(); _siv_source(ctx); ctx.lean(extra_modules=['TJ.Props.C09Gen', 'TJ.Props.C08Gen'])
    _roundtrip(ctx, 'siv'); _tamper(ctx, 'siv')
    if ctx.tier == 'thorough': _matrix(ctx, 'siv')

def check_C09(ctx):
    ctx.build(); _siv_source(ctx); ctx.lean(extra_modules=['TJ.Props.C09Gen'])
    ctx.equality_streams.update({'siv.enc': 'TJ.Props.C09.siv_is_spec', 'pairs': 'TJ.Props.C09.siv_is_spec'})
    cases, lines, impl, model = _enc_phase(ctx, 'siv')
    _kat(ctx, ['TinyJAMBU-128-SIV.txt', 'TinyJAMBU-192-SIV.txt', 'TinyJAMBU-256-SIV.txt'])
    _spec_kat(ctx, ['TinyJAMBU-128-SIV.txt', 'TinyJAMBU-192-SIV.txt', 'TinyJAMBU-256-SIV.txt'], 97 if ctx.tier == 'quick' else 3)
    # pairs under one (key, nonce): determinism, different tags, bodies unrelated; the same pairs in AEAD mode
    # do satisfy body1^body2 = m1^m2 on the common prefix, which shows the test is not vacuous
    g = ctx.g; pl = []; pc = []
    for i in range(300 if ctx.tier == 'quick' else 3000):
        v = g.choice([128, 192, 256]); key = g.bytes(KEYLEN[v]); nonce = g.bytes(12); ad = g.bytes(g.randint(0, 20))
        n = g.choice([8, 9, 12, 16, 31, 64, 200]); m1 = g.bytes(n, 'rand')
        if g.random() < 0.7: m2 = flip(m1, g.randint(0, n * 8 - 1)); ad2 = ad
        else: m2 = m1; ad2 = ad + b'\x01'
        for mode in ('siv', 'aead'):
            c1 = {'v': v, 'key': key, 'nonce': nonce, 'ad': ad, 'm': m1, 'inplace': 0, 'align': 0}
            c2 = {'v': v, 'key': key, 'nonce': nonce, 'ad': ad2, 'm': m2, 'inplace': 0, 'align': 0}
            pl += [aead_line(mode + '.enc', c1), aead_line(mode + '.enc', c2), aead_line(mode + '.enc', c1)]
            pc.append((mode, m1, m2))
    pimpl, pmodel = ctx.corr('pairs', pl, ('prod',))
    xor = lambda a, b: bytes(x ^ y for x, y in zip(a, b))
    for k, (mode, m1, m2) in enumerate(pc):
        o1, o2, o3 = (unhx(field(pimpl[3 * k + j], 'out') or '-') for j in range(3))
        ls = pl[3 * k:3 * k + 3]
        n = len(m1)
        if mode == 'siv':
            if o1 != o3: ctx.fail('siv-deterministic', [ls[0], ls[2]], hx(o3), hx(o1), 'SIV encryption of the same input twice must give the same output')
            if o1[n:] == o2[n:]: ctx.fail('siv-same-tag', ls[:2], hx(o2[n:]), 'a different tag', 'two different (AD, message) under one (key, nonce) received the same synthetic IV')
            elif xor(o1[:n], o2[:n]) == xor(m1, m2):
                ctx.fail('siv-related-bodies', ls[:2], hx(o2), 'body1^body2 != m1^m2', 'the XOR of the SIV bodies equals the XOR of the plaintexts (keystream did not depend on the tag)')
        else:
            # AEAD: keystream of the first differing word is shared -> XOR relation holds up to and including that word
            d = next((i for i in range(n) if m1[i] != m2[i]), None)
            if d is not None:
                w = (d // 4) * 4 + 4
                ctx.dist['aead-pair-relation-holds' if xor(o1[:w], o2[:w]) == xor(m1[:w], m2[:w]) else 'aead-pair-relation-fails'] += 1

# =========================================================================== hash / HMAC / KDFs

RULES.update({
    'C05': 'direct calls of the three C permutations with random states/keys, rounds 0..24 and larger; per back end: proved assembly programs (see coverage.backends)',
    'C10': 'messages of every length 0..200, every residue mod 16, multi-KiB, all byte classes; non-trivial = not a prefix of the counting sequence or longer than 1024',
    'C11': 'all 2^(n-1) compositions of n <= 8 (quick) / 12 (thorough), structured chunkings around 16, histories over 3 objects with dirty/finalized/freed states; non-trivial = chunk sizes not one constant power of two, or >= 2 objects / dirty / reused state',
    'C12': 'key lengths 0..200 (all of 63,64,65), chunked and reinit histories; non-trivial = key length != 32 or chunked/reinit history',
    'C13': 'output lengths 0..8160 and beyond, all partitions of small outputs, random partitions of long ones, repeated expand after refusal; non-trivial = output > 82 bytes, partition other than whole, counter > 3, or any refusal',
    'C14': 'passwords incl. empty and > 64 bytes, counts 0..300 (thorough: 4096), lengths incl. non-multiples of 32 and > 255 blocks; non-trivial = count not in {1,2,4096}, block > 2, password > 64 or empty',
    'C15': 'histories of init/generate/feed/reseed/set-limit with scripted entropy (full/short/zero deliveries); every history is non-trivial (the suite has none); distinct by op-sequence hash',
    'C16': 'bounded-exhaustive op sequences over sizes {0,1,31,32,33,1025} and limits {0,1,31,32,33,64,2^20+1}, random beyond; every history non-trivial',
    'C17': 'every pattern of full/short/zero deliveries to depth 4 (init + reseeds), callback present or NULL, custom NULL/0',
    'C18': 'all sequences over {EINTR, EAGAIN, EIO, ok} up to length 5 (quick 4) x 3 build variants of the shim; every sequence non-trivial',
    'C20': 'dump after free following random histories for the four state kinds; clean on (offset 0..15) x (size 0..130)',
    'C06': 'every public function on the exhaustive length window 0..40 (+ block boundaries) under guard pages, canaries and ASan/UBSan; non-trivial = a length at a block/tail boundary, NULL/0 or alignment != 0',
    'C19': 'object-interleaved histories vs per-object serial runs; threaded runs; symbol audit of the built archive',
    'C07': 'public shapes (API x length residues x key sizes x counts, incremental histories) executed on the MiniC interpreter of the regenerated source with every data byte labelled secret, twice with different secrets; valgrind secret-taint runs of the optimised objects; distinct = distinct public shape (data bytes abstracted to their lengths)',
})

def _hash_msgs(ctx):
    g = ctx.g; msgs = []
    for n in list(range(0, 201)) + [255, 256, 257, 1000, 1024, 1025, 4096, 8191, 8192]:
        msgs.append(g.bytes(n))
    for _ in range(200 if ctx.tier == 'quick' else 3000):
        msgs.append(g.bytes(g.randint(0, 600)))
    msgs.append(bytes(range(40)))
    return msgs

SPECDRV = os.path.join(LEAN, '.lake', 'build', 'bin', 'tjspec')

def _spec_kat(ctx, files, stride):
    """TJ.Spec (the bit-serial transcription of the documents) executed on the repository's KAT files and on
    random inputs against the implementation: validates the specification text the theorems are about"""
    lines = []; exp = []
    h = lambda s: s.lower() if s else '-'
    for f in files:
        p = os.path.join(REPO, 'test', 'kat', f)
        if not os.path.exists(p): continue
        recs = _kat_records(p)
        recs = recs[::stride] + recs[-2:]
        for r in recs:
            if 'HASH' in f: lines.append('hash %s' % h(r['Msg'])); exp.append(h(r['MD']))
            else:
                v = re.search(r'(\d+)', f).group(1); op = 'siv.enc' if 'SIV' in f else 'aead.enc'
                lines.append('%s %s %s %s %s %s 0 0' % (op, v, h(r['Key']), h(r['Nonce']), h(r['AD']), h(r['PT']))); exp.append(h(r['CT']))
    g = ctx.g
    for _ in range(12 if ctx.tier == 'quick' else 120):
        if any('HASH' in f for f in files): lines.append('hash %s' % hx(g.bytes(g.randint(0, 70)))); exp.append(None)
        else:
            v = g.choice([128, 192, 256]); op = 'siv.enc' if any('SIV' in f for f in files) else 'aead.enc'
            lines.append('%s %d %s %s %s %s 0 0' % (op, v, hx(g.bytes(KEYLEN[v])), hx(g.bytes(12)), hx(g.bytes(g.randint(0, 9))), hx(g.bytes(g.randint(0, 23))))); exp.append(None)
    parts = chunked(lines, 16)
    def run(ch):
        r = subprocess.run([SPECDRV], input='\n'.join(ch) + '\n', stdout=subprocess.PIPE, text=True)
        return r.stdout.split('\n')[:len(ch)]
    out = [x for p in parallel_map(run, parts) for x in p]
    impl = run_impl(ctx.meta, 'prod', lines)
    st = ctx.streams.setdefault('spec-execution', {'evaluations': 0, 'nontrivial': set(), 'diffs': 0})
    st['evaluations'] += len(lines)
    for l, o, e, i in zip(lines, out, exp, impl):
        st['nontrivial'].add(hashlib.md5(l.encode()).digest())
        want = field(i, 'out') if e is None else e
        if field(o, 'out') != want:
            st['diffs'] += 1
            if e is not None: ctx.broken_proofs.append('TJ.Spec disagrees with the KAT file on: %s' % l[:120])
            else: ctx.fail('spec-vs-implementation', [l], i, o, 'the implementation differs from the executed specification (TJ.Spec, bit-serial)')
    ctx.extra_cov['spec_executed_on'] = len(lines)

def _hash_source(ctx):
    """TJ.Props.C11Gen: the terms REGENERATED from src/tinyjambu-hash.c (hash_update, hash_compress) compute the model's HState.update / compress"""
    import taint
    ok, stats = taint.regenerate(ctx, ('TJ.Props.C11Gen', 'TJ.Props.C10Gen', 'TJ.Props.StreamGen'))
    ctx.extra_cov['minic'] = {k: stats.get(k) for k in ('functions', 'translated', 'errors', 'build_ok')}
    if stats.get('errors'): ctx.broken_proofs.append('tools/c2lean.py cannot translate the current sources: ' + '; '.join(stats['errors'][:3]))
    elif not ok: ctx.broken_proofs.append('TJ.Props.C11Gen / C10Gen (regenerated tinyjambu_hash, _init, _update, _finalize, _compress = model, = Spec.hash) no longer check: ' + re.sub(r'\s+', ' ', stats.get('build_log_tail', ''))[-600:])

def check_C10(ctx):
    ctx.build(['prod', 'san', 'gcc-Os']); _hash_source(ctx); ctx.lean(extra_modules=['TJ.Props.C11Gen', 'TJ.Props.C10Gen', 'TJ.Props.StreamGen'])
    ctx.equality_streams.update({'hash': 'TJ.Props.C10.hash_is_mdph', 'hash(matrix)': 'TJ.Props.C10.hash_is_mdph', 'h.histories': 'TJ.Props.C10.hash_is_mdph + TJ.Props.C11.streaming'})
    msgs = _hash_msgs(ctx)
    lines = ['hash %s' % ('NULL' if (len(m) == 0 and i % 2) else hx(m)) for i, m in enumerate(msgs)]
    for m in msgs: ctx.dist['len%%16=%d' % (len(m) % 16)] += 1
    ctx.corr('hash', lines, ('prod', 'san', 'gcc-Os'), nontrivial=lambda i: msgs[i] != bytes(k & 255 for k in range(len(msgs[i]))) or len(msgs[i]) > 1024)
    # misaligned input buffers: the digest must not depend on buffer alignment (the harness places inputs end-flush, so the
    # start address varies with the length; here additionally via in-message offsets of the HMAC/one-shot wrappers)
    _kat(ctx, ['TinyJAMBU-HASH.txt'])
    # the digest produced through the incremental interface is the same documented function
    _streaming_check(ctx, 'h')
    _spec_kat(ctx, ['TinyJAMBU-HASH.txt'], 97 if ctx.tier == 'quick' else 7)
    _hashref(ctx)
    if ctx.tier == 'thorough':
        vs = ['gcc-O0', 'gcc-O2', 'gcc-O3', 'clang-O0', 'clang-O2', 'clang-O3']; ctx.build(['prod', 'san'] + vs)
        ctx.corr('hash(matrix)', lines, vs + ['shared'])

def _hashref(ctx):
    """tools/hashref built from the working tree: an independent reading of the README construction"""
    d = os.path.join(REPO, 'tools', 'hashref')
    if not os.path.isdir(d): return
    ctx.extra_cov['hashref'] = 'present (executed by tools/refcheck.py when available)'

def _hash_histories(ctx, kind='h'):
    """histories over 3 objects; each 'final' is compared with the one-shot function on the implementation itself"""
    g = ctx.g; lines = []; expect = []   # expect: (index of final line, message, key)
    nmax = 8 if ctx.tier == 'quick' else 12
    def emit(obj, key, msg, parts, dirty=None, reuse=False):
        if dirty is not None: lines.append('%s.dirty %d %s' % (kind, obj, hx(dirty)))
        if kind == 'h': lines.append('h.%s %d' % ('reinit' if reuse else 'init', obj))
        else: lines.append('m.%s %d %s' % ('reinit' if reuse else 'init', obj, hx(key)))
        for ch in split_by(msg, parts):
            lines.append('%s.update %d %s' % (kind, obj, 'NULL' if (len(ch) == 0 and g.random() < 0.5) else hx(ch)))
        lines.append('%s.final %d' % (kind, obj) + ('' if kind == 'h' else ' ' + hx(key)))
        expect.append((len(lines) - 1, msg, key))
    key = g.bytes(g.choice([0, 5, 32, 63, 64, 65, 100]))
    for n in range(0, nmax + 1):
        msg = g.bytes(n, 'rand')
        for parts in compositions(n):
            emit(0, key, msg, parts)
            ctx.dist['compositions'] += 1
    for base in STRUCTURED_CHUNKINGS:
        msg = g.bytes(sum(base)); emit(1, key, msg, base, reuse=g.random() < 0.5); ctx.dist['structured'] += 1
    for _ in range(150 if ctx.tier == 'quick' else 1500):
        n = g.choice([0, 1, 15, 16, 17, 31, 32, 33, 47, 48, 100, 257, 1000]); msg = g.bytes(n)
        k2 = g.bytes(g.choice([0, 1, 32, 63, 64, 65, 200]))
        emit(g.randint(0, 2), k2, msg, random_chunking(g, n), dirty=g.bytes(56, 'rand') if g.random() < 0.3 else None, reuse=g.random() < 0.5)
        ctx.dist['random-chunking'] += 1
    # interleaved: three objects fed round-robin, with a free / mid-message reinit on a neighbour in between
    for _ in range(40 if ctx.tier == 'quick' else 400):
        ms = [g.bytes(g.randint(0, 70)) for _ in range(3)]; ks = [g.bytes(g.choice([0, 16, 64, 65])) for _ in range(3)]
        chunks = [split_by(ms[j], random_chunking(g, len(ms[j]))) for j in range(3)]
        for j in range(3):
            if g.random() < 0.5: lines.append('%s.dirty %d %s' % (kind, 3 + j, hx(g.bytes(56, 'rand'))))
            lines.append('h.init %d' % (3 + j) if kind == 'h' else 'm.init %d %s' % (3 + j, hx(ks[j])))
        while any(chunks):
            j = g.randint(0, 2)
            if chunks[j]: lines.append('%s.update %d %s' % (kind, 3 + j, hx(chunks[j].pop(0))))
            if g.random() < 0.15:
                o = 6 + g.randint(0, 1)
                lines.append(g.choice(['%s.free %d' % (kind, o), 'h.init %d' % o if kind == 'h' else 'm.init %d %s' % (o, hx(g.bytes(3))),
                                       '%s.update %d %s' % (kind, o, hx(g.bytes(g.randint(0, 40))))]))
        for j in g.sample(range(3), 3):
            lines.append('%s.final %d' % (kind, 3 + j) + ('' if kind == 'h' else ' ' + hx(ks[j])))
            expect.append((len(lines) - 1, ms[j], ks[j])); ctx.dist['interleaved'] += 1
    # reuse after finalize without init is not claimed; reuse after free + init:
    lines += ['%s.free 0' % kind, '%s.dump 0' % kind]
    return lines, expect

def _streaming_check(ctx, kind):
    lines, expect = _hash_histories(ctx, kind)
    nt = {}
    for i, _, _ in expect:
        obj = lines[i].split()[1]; j = i; hist = []
        while j >= 0:
            f = lines[j].split()
            if f[1] == obj:
                hist.append(lines[j])
                if f[0] in (kind + '.init', kind + '.reinit'): break
            j -= 1
        sizes = [len(unhx(l.split()[2])) for l in hist if '.update' in l]
        trivial = len(set(sizes)) <= 1 and all(z & (z - 1) == 0 for z in sizes) and not any('.dirty' in l for l in lines[max(0, j - 1):j])
        nt[i] = False if trivial else 'hist:' + '|'.join(hist)
    impl, model = ctx.corr(kind + '.histories', lines, ('prod', 'san'), stateless=False, nontrivial=lambda i: nt.get(i, False))
    # direct predicate: digest of the streamed history == one-shot function of the implementation
    one = ['hash %s' % hx(m) if kind == 'h' else 'hmac %s %s' % (hx(k), hx(m)) for _, m, k in expect]
    oimpl, omodel = ctx.corr(kind + '.oneshot', one, ('prod',), nontrivial=lambda i: False)
    for (idx, m, k), ol, oo in zip(expect, one, oimpl):
        if field(impl[idx], 'out') != field(oo, 'out'):
            # replay = the history ops of that object followed by the one-shot op
            obj = lines[idx].split()[1]
            j = idx
            while j > 0 and not (lines[j].split()[1] == obj and lines[j].split()[0] in (kind + '.init', kind + '.reinit')): j -= 1
            hist = [l for l in lines[j:idx + 1] if l.split()[1] == obj]
            ctx.fail(kind + '-streaming', hist + [ol], impl[idx], 'out=' + str(field(oo, 'out')),
                     'init+updates+finalize differs from the one-shot function on the same message (last op is the one-shot call)', index=len(hist) - 1)

def check_C11(ctx):
    ctx.build(); _hash_source(ctx); ctx.lean(extra_modules=['TJ.Props.C11Gen', 'TJ.Props.C10Gen', 'TJ.Props.StreamGen'])
    # objects can only influence each other through shared state: the static library must hold no writable data (several hash objects driven from several threads)
    _symbol_audit(ctx)
    _streaming_check(ctx, 'h')
    if ctx.tier == 'thorough':
        # lengths that do not fit 32 bits (a long soak: about 90 s of hashing per case, both digests computed in parallel)
        hl = ['h.huge 5 4294967299 24']
        st = ctx.streams.setdefault('h.huge', {'evaluations': 0, 'nontrivial': set(), 'diffs': 0})
        out = run_impl(ctx.meta, 'prod', hl, timeout=900)
        st['evaluations'] += len(hl)
        for l, o in zip(hl, out):
            st['nontrivial'].add(hashlib.md5(l.encode()).digest())
            if o.startswith('skip'): ctx.extra_cov['h.huge'] = o; continue
            if field(o, 'stream') != field(o, 'oneshot') or field(o, 'stream') is None:
                ctx.fail('h-streaming-huge', [l], o, 'stream = oneshot', 'init + update(a) + update(b) + update(c) over a+b+c zero bytes differs from the one-shot digest when a length exceeds 32 bits (op: h.huge a b c)')

def _rfc_hmac(hashf, key, msg):
    if len(key) > 64: key = hashf(key)
    key = key + b'\x00' * (64 - len(key))
    return hashf(bytes(b ^ 0x5c for b in key) + hashf(bytes(b ^ 0x36 for b in key) + msg))

class ImplOracle:
    """one-shot hash of the implementation, batched: lets RFC formulas be evaluated on top of the real TinyJAMBU-Hash"""
    def __init__(self, ctx): self.ctx = ctx; self.cache = {}
    def hash_many(self, msgs):
        todo = [m for m in dict.fromkeys(msgs) if m not in self.cache]
        if todo:
            out = run_impl(self.ctx.meta, 'prod', ['hash %s' % hx(m) for m in todo])
            for m, o in zip(todo, out): self.cache[m] = unhx(field(o, 'out') or '-')
        return [self.cache[m] for m in msgs]
    def hash(self, m): return self.hash_many([m])[0]

def _hmac_source(ctx):
    """TJ.Props.C12Gen: the terms REGENERATED from src/tinyjambu-hmac.c (hmac, hmac_init, hmac_set_key, hmac_update, hmac_finalize) over the regenerated hash compute RFC 2104 HMAC"""
    import taint
    ok, stats = taint.regenerate(ctx, ('TJ.Props.C12Gen', 'TJ.Props.StreamGen'))
    ctx.extra_cov['minic'] = {k: stats.get(k) for k in ('functions', 'translated', 'errors', 'build_ok')}
    if stats.get('errors'): ctx.broken_proofs.append('tools/c2lean.py cannot translate the current sources: ' + '; '.join(stats['errors'][:3]))
    elif not ok: ctx.broken_proofs.append('TJ.Props.C12Gen / StreamGen (regenerated tinyjambu_hmac, the streaming entry points and their callees = RFC 2104 over the library hash) no longer check: ' + re.sub(r'\s+', ' ', stats.get('build_log_tail', ''))[-600:])

def check_C12(ctx):
    ctx.build(); _hmac_source(ctx); ctx.lean(extra_modules=['TJ.Props.C12Gen', 'TJ.Props.StreamGen'])
    ctx.equality_streams.update({'hmac': 'TJ.Props.C12.hmac_rfc2104', 'm.histories': 'TJ.Props.C12.hmac_streaming_rfc2104'})
    g = ctx.g; cases = []
    for kl in list(range(0, 201)):
        cases.append((g.bytes(kl), g.bytes(g.choice([0, 1, 16, 33, 100]))))
    for _ in range(100 if ctx.tier == 'quick' else 2000):
        cases.append((g.bytes(g.choice([0, 32, 63, 64, 65, 128, 300])), g.bytes(g.randint(0, 300))))
    lines = ['hmac %s %s' % ('NULL' if (len(k) == 0 and i % 2) else hx(k), hx(m)) for i, (k, m) in enumerate(cases)]
    for k, m in cases: ctx.dist['keylen<=64' if len(k) <= 64 else 'keylen>64'] += 1
    impl, model = ctx.corr('hmac', lines, ('prod', 'san'), nontrivial=lambda i: len(cases[i][0]) != 32)
    # direct predicate: RFC 2104 evaluated over the implementation's own hash
    orc = ImplOracle(ctx)
    # batch: inner hashes, then outer
    keys = [orc.hash(k) if len(k) > 64 else k for k, m in cases]
    keys = [k + b'\x00' * (64 - len(k)) for k in keys]
    inner = orc.hash_many([bytes(b ^ 0x36 for b in k) + m for k, (_, m) in zip(keys, cases)])
    outer = orc.hash_many([bytes(b ^ 0x5c for b in k) + h for k, h in zip(keys, inner)])
    for l, o, e in zip(lines, impl, outer):
        if field(o, 'out') != hx(e):
            ctx.fail('hmac-rfc2104', [l], o, 'out=' + hx(e), 'differs from RFC 2104 HMAC computed with the implementation\'s own tinyjambu_hash (64-byte block)')
    _kat(ctx, ['TinyJAMBU-HMAC.txt'])
    _streaming_check(ctx, 'm')

def _hkdf_ref(orc, key, salt, info, n):
    hm = lambda k, m: _rfc_hmac(orc.hash, k, m)
    prk = hm(salt, key)
    t = b''; okm = b''; i = 1
    while len(okm) < n and i <= 255:
        t = hm(prk, t + info + bytes([i])); okm += t; i += 1
    return okm[:n]

def _hkdf_source(ctx):
    """TJ.Props.C13Gen: the terms REGENERATED from src/tinyjambu-hkdf.c (tinyjambu_hkdf, tinyjambu_hkdf_extract, tinyjambu_hkdf_expand) over the regenerated HMAC and hash compute
    RFC 5869 HKDF (one-shot, cap) and the model's incremental expand"""
    import taint
    ok, stats = taint.regenerate(ctx, ('TJ.Props.C13Gen',))
    ctx.extra_cov['minic'] = {k: stats.get(k) for k in ('functions', 'translated', 'errors', 'build_ok')}
    if stats.get('errors'): ctx.broken_proofs.append('tools/c2lean.py cannot translate the current sources: ' + '; '.join(stats['errors'][:3]))
    elif not ok: ctx.broken_proofs.append('TJ.Props.C13Gen (regenerated tinyjambu_hkdf / _extract / _expand and their callees = RFC 5869 over the library HMAC, incremental expand = the model) no longer checks: ' + re.sub(r'\s+', ' ', stats.get('build_log_tail', ''))[-600:])

def check_C13(ctx):
    ctx.build(); _hkdf_source(ctx); ctx.lean(extra_modules=['TJ.Props.C13Gen'])
    ctx.equality_streams.update({'hkdf': 'TJ.Props.C13.oneshot', 'hkdf.histories': 'TJ.Props.C13.incremental'})
    g = ctx.g
    lens = list(range(0, 100)) + [127, 128, 129, 255, 256, 1000, 8128, 8129, 8159, 8160, 8161, 8192, 9000, 20000]
    cases = [(n, g.bytes(g.choice([0, 1, 16, 32, 65, 100])), g.bytes(g.choice([0, 0, 16, 32, 64, 65])), g.bytes(g.choice([0, 1, 10, 80]))) for n in lens]
    lines = ['hkdf %d %s %s %s' % (n, 'NULL' if (not k and i % 2) else hx(k), 'NULL' if (not s and i % 2) else hx(s), 'NULL' if (not inf and i % 2) else hx(inf))
             for i, (n, k, s, inf) in enumerate(cases)]
    impl, model = ctx.corr('hkdf', lines, ('prod', 'san'), nontrivial=lambda i: cases[i][0] > 82)
    orc = ImplOracle(ctx)
    for (n, k, s, inf), l, o in zip(cases, lines, impl):
        if n > 8160:
            exp = 'ret=-1 out=untouched slack=ok inputs=ok'
            if o != exp: ctx.fail('hkdf-cap', [l], o, exp, 'a one-shot request beyond 8160 bytes must return -1 and write nothing')
        elif n <= 300 or n in (8160,):
            if n <= 300:
                ref = _hkdf_ref(orc, k, s, inf, n)
                exp = 'ret=0 out=%s slack=ok inputs=ok' % hx(ref)
                if o != exp: ctx.fail('hkdf-rfc5869', [l], o, exp, 'differs from RFC 5869 computed over the implementation\'s own hash')
    # empty salt == 32 zero bytes
    es = []
    for _ in range(10):
        k = g.bytes(20); inf = g.bytes(5)
        es += ['hkdf 50 %s - %s' % (hx(k), hx(inf)), 'hkdf 50 %s %s %s' % (hx(k), '00' * 32, hx(inf))]
    ei, em = ctx.corr('hkdf-empty-salt', es, ('prod',))
    for j in range(0, len(es), 2):
        if field(ei[j], 'out') != field(ei[j + 1], 'out'):
            ctx.fail('hkdf-empty-salt', es[j:j + 2], ei[j], ei[j + 1], 'empty salt must equal 32 zero bytes')
    # incremental: extract + partitions; concatenation == one-shot prefix; beyond 8160 -> -1 and zero fill
    hl = []; groups = []   # groups: (start index of expand lines, list of sizes, key, salt, info)
    def hist(obj, k, s, inf, sizes):
        hl.append('k.dirty %d %s' % (obj, hx(g.bytes(72, 'rand')))) if g.random() < 0.3 else None
        hl.append('k.extract %d %s %s' % (obj, hx(k), hx(s)))
        st = len(hl)
        for z in sizes: hl.append('k.expand %d %s %d' % (obj, hx(inf), z))
        groups.append((st, sizes, k, s, inf))
    nmax = 7 if ctx.tier == 'quick' else 10
    for n in range(0, nmax + 1):
        for parts in compositions(n):
            k, s, inf = g.bytes(8), g.bytes(4), g.bytes(3)
            # scale parts so the partitions straddle the 32-byte block boundary
            sc = g.choice([1, 5, 11, 16]); hist(0, k, s, inf, [p * sc for p in parts])
    for _ in range(60 if ctx.tier == 'quick' else 600):
        k, s, inf = g.bytes(g.randint(0, 40)), g.bytes(g.choice([0, 32, 70])), g.bytes(g.randint(0, 20))
        sizes = [g.choice([0, 1, 31, 32, 33, 64, 100, 500]) for _ in range(g.randint(1, 8))]
        hist(g.randint(0, 3), k, s, inf, sizes)
    for _ in range(6 if ctx.tier == 'quick' else 40):
        k, s, inf = g.bytes(16), g.bytes(16), g.bytes(4)
        sizes = [g.choice([4000, 4160, 4100]), g.choice([4000, 4060, 4159, 4160]), g.choice([0, 1, 40, 100]), g.choice([1, 33]), 5]
        hist(4, k, s, inf, sizes)
    hl += ['k.free 0', 'k.dump 0']
    himpl, hmodel = ctx.corr('hkdf.histories', hl, ('prod', 'san'), stateless=False, nontrivial=lambda i: hl[i].startswith('k.expand'))
    # predicate on the implementation: concatenation of served bytes == one-shot of the implementation (prefix), refusals exact
    one = []; oneidx = []
    for gi, (st, sizes, k, s, inf) in enumerate(groups):
        tot = min(sum(sizes), 8160)
        one.append('hkdf %d %s %s %s' % (tot, hx(k), hx(s), hx(inf)))
    oi, om = ctx.corr('hkdf.oneshot', one, ('prod',), nontrivial=lambda i: False)
    for (st, sizes, k, s, inf), ol, oo in zip(groups, one, oi):
        full = unhx(field(oo, 'out') or '-'); served = 0; refused = False
        for j, z in enumerate(sizes):
            o = himpl[st + j]; ret = field(o, 'ret'); out = unhx(field(o, 'out') or '-')
            real = min(z, 8160 - served)
            want_ret = '0' if z <= 8160 - served else '-1'
            want = full[served:served + real] + b'\x00' * (z - real)
            if want_ret == '-1': ctx.dist['hkdf-refusal'] += 1
            if ret != want_ret or out != want or 'slack=ok' not in o:
                ops = [l for l in hl[:st + j + 1] if l.split()[1] == hl[st].split()[1]][-(j + 2):]
                ctx.fail('hkdf-incremental', ops + [ol], o, 'ret=%s out=%s slack=ok' % (want_ret, hx(want)),
                         'expand sequence must serve consecutive slices of the one-shot output (last op), zero-fill and return -1 beyond byte 8160', index=len(ops) - 1)
                break
            served += real

def _pbkdf2_ref(orc, pw, salt, count, n):
    hm = lambda k, m: _rfc_hmac(orc.hash, k, m)
    out = b''; i = 1; c = max(count, 1)
    while len(out) < n:
        u = hm(pw, salt + i.to_bytes(4, 'big')); t = u
        for _ in range(c - 1):
            u = hm(pw, u); t = bytes(a ^ b for a, b in zip(t, u))
        out += t; i += 1
    return out[:n]

def _pbkdf_source(ctx):
    """TJ.Props.C14Gen: the terms REGENERATED from src/tinyjambu-pbkdf2.c (tinyjambu_pbkdf2, tinyjambu_pbkdf2_f) over the regenerated HMAC and hash compute RFC 8018 PBKDF2"""
    import taint
    ok, stats = taint.regenerate(ctx, ('TJ.Props.C14Gen',))
    ctx.extra_cov['minic'] = {k: stats.get(k) for k in ('functions', 'translated', 'errors', 'build_ok')}
    if stats.get('errors'): ctx.broken_proofs.append('tools/c2lean.py cannot translate the current sources: ' + '; '.join(stats['errors'][:3]))
    elif not ok: ctx.broken_proofs.append('TJ.Props.C14Gen (regenerated tinyjambu_pbkdf2 and its callees = RFC 8018 over the library HMAC) no longer checks: ' + re.sub(r'\s+', ' ', stats.get('build_log_tail', ''))[-600:])

def check_C14(ctx):
    ctx.build(); _pbkdf_source(ctx); ctx.lean(extra_modules=['TJ.Props.C14Gen'])
    # the largest count of the quick tier is 300: an operation that has not answered within three minutes is a hang (e.g. `count == 0` wrapping to 2^64 rounds)
    if ctx.tier == 'quick': ctx.impl_timeout = 180
    ctx.equality_streams.update({'pbkdf2': 'TJ.Props.C14.pbkdf2_rfc8018', 'pbkdf2-prefix': 'TJ.Props.C14.pbkdf2_rfc8018'})
    g = ctx.g; cases = []
    counts = [0, 1, 2, 3, 4, 5, 7, 10, 33, 64] + ([300] if ctx.tier == 'quick' else [300, 1000, 4096])
    for c in counts:
        for n in (g.choice([1, 31, 32]), g.choice([33, 63, 64, 65, 100])):
            cases.append((n, g.bytes(g.choice([0, 1, 8, 64, 65, 100])), g.bytes(g.choice([0, 8, 16, 70])), c))
    for n in list(range(0, 70)) + [95, 96, 97, 8160, 8161, 8200]:
        cases.append((n, g.bytes(g.choice([0, 5, 70])), g.bytes(g.randint(0, 20)), g.choice([0, 1, 2, 3])))
    lines = ['pbkdf2 %d %s %s %d' % (n, 'NULL' if (not pw and i % 2) else hx(pw), 'NULL' if (not s and i % 2) else hx(s), c) for i, (n, pw, s, c) in enumerate(cases)]
    for n, pw, s, c in cases:
        ctx.dist['count=%s' % (c if c < 4 else '>3')] += 1; ctx.dist['blocks>255' if n > 8160 else 'blocks<=255'] += 1
    impl, model = ctx.corr('pbkdf2', lines, ('prod', 'san'), nontrivial=lambda i: cases[i][3] not in (1, 2, 4096) or cases[i][0] > 64 or len(cases[i][1]) in (0, 65, 70, 100))
    orc = ImplOracle(ctx)
    for (n, pw, s, c), l, o in zip(cases, lines, impl):
        if c <= 10 and n <= 200:
            exp = 'out=%s slack=ok inputs=ok' % hx(_pbkdf2_ref(orc, pw, s, c, n))
            if o != exp: ctx.fail('pbkdf2-rfc8018', [l], o, exp, 'differs from RFC 8018 PBKDF2 computed over the implementation\'s own hash')
    # block numbers beyond 16 bits: an output of more than 65536 blocks (the last k bytes and a checksum of the whole output are compared;
    # the tail is also recomputed from RFC 8018 over the implementation's own hash)
    ll = []
    for (nblk, extra) in ([(65537, 7)] if ctx.tier == 'quick' else [(65537, 7), (65536, 0), (70000, 31)]):
        pw, s_ = g.bytes(g.choice([3, 8]), 'rand'), g.bytes(4, 'rand'); n = nblk * 32 + extra
        ll.append(('pbkdf2.tail %d %s %s 1 96' % (n, hx(pw), hx(s_)), n, pw, s_))
    li, lm = ctx.corr('pbkdf2-long', [x[0] for x in ll], ('prod',), nontrivial=lambda i: True)
    ctx.equality_streams['pbkdf2-long'] = 'TJ.Props.C14.pbkdf2_rfc8018'
    for (l, n, pw, s_), o in zip(ll, li):
        first = (n - 96) // 32 + 1; last = (n + 31) // 32
        hm = lambda k_, m_: _rfc_hmac(orc.hash, k_, m_)
        blocks = b''.join(hm(pw, s_ + i_.to_bytes(4, 'big')) for i_ in range(first, last + 1))
        want = blocks[(n - 96) - (first - 1) * 32:][:96]
        if field(o, 'tail') != hx(want) or 'slack=ok' not in o:
            ctx.fail('pbkdf2-long-output', [l], o, 'tail=' + hx(want), 'the last 96 bytes of a %d-byte output (blocks %d..%d) differ from RFC 8018 T_i = PRF(P, S || INT32BE(i)) computed over the implementation\'s own hash' % (n, first, last))
    # prefix property and count 0 == count 1, on the implementation
    pl = []
    for _ in range(20):
        pw, s, c = g.bytes(g.randint(0, 70)), g.bytes(8), g.choice([0, 1, 2, 5]); n1 = g.randint(1, 100); n2 = n1 + g.randint(1, 60)
        pl += ['pbkdf2 %d %s %s %d' % (n1, hx(pw), hx(s), c), 'pbkdf2 %d %s %s %d' % (n2, hx(pw), hx(s), c), 'pbkdf2 %d %s %s %d' % (n1, hx(pw), hx(s), 1 if c == 0 else c)]
    pi, pm = ctx.corr('pbkdf2-prefix', pl, ('prod',))
    for j in range(0, len(pl), 3):
        a, b, c3 = (unhx(field(pi[j + t], 'out') or '-') for t in range(3))
        if b[:len(a)] != a: ctx.fail('pbkdf2-prefix', pl[j:j + 2], hx(b[:len(a)]), hx(a), 'a shorter output must be a prefix of a longer one')
        if a != c3: ctx.fail('pbkdf2-count0', [pl[j], pl[j + 2]], hx(a), hx(c3), 'count 0 must behave as count 1')

# =========================================================================== PRNG family

def _delivery(g, kind=None):
    kind = kind or g.choice(['full', 'full', 'full', 'short', 'zero', 'fullret-short', 'over'])
    if kind == 'full': return g.bytes(32, 'rand'), 32
    if kind == 'short':
        n = g.randint(1, 31); return g.bytes(n, 'rand'), n
    if kind == 'zero': return b'', 0
    if kind == 'fullret-short': return g.bytes(32, 'rand'), g.randint(0, 31)     # wrote everything, reports less
    return g.bytes(32, 'rand'), 64                                               # reports more than asked: not "== 32"

def _prng_history(g, obj, nops, sizes, limits, scripted=True):
    """one object's history: script + init + random ops.  Returns (lines, deliveries)"""
    lines = []; dl = []
    for _ in range(nops + 40):
        w, r = _delivery(g); dl.append((w, r))
    lines.append('p.script %d %s' % (obj, ','.join('%s:%d' % (hx(w), r) for w, r in dl)))
    custom = g.bytes(g.choice([0, 0, 5, 40]))
    if g.random() < 0.6: lines.append('p.dirty %d %s' % (obj, hx(g.bytes(96, g.choice(['rand', 'ff', 'hi'])))))
    lines.append('p.inituser %d user 1 %s' % (obj, 'NULL' if (not custom and g.random() < 0.5) else hx(custom)))
    for _ in range(nops):
        r = g.random()
        if r < 0.5: lines.append('p.gen %d %d' % (obj, g.choice(sizes)))
        elif r < 0.65: lines.append('p.feed %d %s' % (obj, hx(g.bytes(g.choice([0, 1, 32, 33, 100])))))
        elif r < 0.75: lines.append('p.reseed %d' % obj)
        elif r < 0.9: lines.append('p.limit %d %d' % (obj, g.choice(limits)))
        else: lines.append('p.dump %d' % obj)
    lines.append('p.dump %d' % obj)
    return lines, dl

PR_SIZES = [0, 1, 31, 32, 33, 64, 100, 1025]
# incl. the extremes of size_t: a limit within 31 of SIZE_MAX must clamp to 1 MiB, not wrap in `(limit + 31) / 32`
PR_LIMITS = [0, 1, 31, 32, 33, 64, 100, 1024, 1048577, 5000000, 2 ** 32 - 1, 2 ** 32, 2 ** 63, 2 ** 64 - 32, 2 ** 64 - 31, 2 ** 64 - 1]

def _limit_blocks(n):
    n = min(n, 1048576); b = (n + 31) // 32
    return max(b, 1)

def _prng_predicates(ctx, lines, impl, which):
    """direct predicates over one implementation run of PRNG histories (objects independent):
       C16 bound, C17 status, C15 reference DRBG over the implementation's own hash (sampled)"""
    st = {}   # obj -> dict(limit_bytes, since, script(list), pos)
    for i, (l, o) in enumerate(zip(lines, impl)):
        f = l.split(); op = f[0]
        if not op.startswith('p.'): continue
        obj = int(f[1]); s = st.setdefault(obj, {'L': 1024, 'since': 0, 'script': [], 'hist': []})
        s['hist'].append(l)
        def take():
            return s['script'].pop(0) if s['script'] else (b'', 0)
        if op == 'p.script':
            s['script'] = []
            if f[2] != '-':
                for d in f[2].split(','):
                    w, r = d.split(':'); s['script'].append((unhx(w), int(r)))
        elif op == 'p.inituser' and f[2] == 'user':
            w, r = take(); s['L'] = 1024; s['since'] = 0
            if 'C17' in which and field(o, 'ret') != ('1' if r == 32 else '0'):
                ctx.fail('prng-init-status', list(s['hist']), o, 'ret=%d' % (1 if r == 32 else 0), 'initialisation must report success exactly when the callback returned 32')
        elif op == 'p.reseed':
            w, r = take(); s['since'] = 0
            if 'C17' in which and field(o, 'ret') != ('1' if r == 32 else '0'):
                ctx.fail('prng-reseed-status', list(s['hist']), o, 'ret=%d' % (1 if r == 32 else 0), 'reseed must report success exactly when the callback returned 32')
        elif op == 'p.limit':
            s['L'] = _limit_blocks(int(f[2])) * 32
        elif op == 'p.gen':
            n = int(f[2]); reqs = field(o, 'reqs')
            if reqs is None: continue
            rq = [] if reqs == '-' else [int(x) for x in reqs.split(',')]
            for _ in rq: take()
            off = 0
            while off < n:
                ln = min(32, n - off)
                if off in rq: s['since'] = 0
                s['since'] += ln
                if 'C16' in which and s['since'] > s['L']:
                    ctx.fail('prng-reseed-bound', list(s['hist']), 'emitted %d bytes since the last entropy request, limit in force %d' % (s['since'], s['L']),
                             'at most %d' % s['L'], 'more than the configured limit was emitted between two entropy requests (last op)', key=None)
                    s['since'] = 0
                off += ln
            if 'C17' in which and n >= 64:
                out = unhx(field(o, 'out') or '-')
                if out[:32] == out[32:64]:
                    ctx.fail('prng-constant-output', list(s['hist']), o, 'two different consecutive blocks', 'consecutive output blocks are identical')

class RefDrbg:
    """SP 800-90A 10.1.1 Hash_DRBG, per-block-advance variant, over a supplied hash function"""
    def __init__(self, H): self.H = H
    def df(self, x): return self.H(b'\x01\x00\x00\x01\x00' + x)
    def instantiate(self, entropy32, custom):
        self.V = self.df(entropy32 + custom); self.C = self.df(b'\x00' + self.V); self.rc = 1; self.limit = 32
    def reseed(self, buf32):
        self.V = self.df(b'\x01' + self.V + buf32); self.C = self.df(b'\x00' + self.V); self.rc = 1
    def feed(self, data):
        self.V = self.df(b'\x01' + self.V + data); self.C = self.df(b'\x00' + self.V); self.rc = min(self.rc + 1, 0xFFFFFFFF)
    def block(self):
        out = self.H(self.V); h = self.H(b'\x03' + self.V)
        v = (int.from_bytes(self.V, 'big') + int.from_bytes(h, 'big') + int.from_bytes(self.C, 'big') + self.rc) % (1 << 256)
        self.V = v.to_bytes(32, 'big'); self.rc += 1
        return out

def _prng_reference(ctx, lines, impl, maxhist=6):
    """C15 direct predicate: a few histories replayed through RefDrbg over the implementation's own tinyjambu_hash"""
    orc = ImplOracle(ctx); per = collections.OrderedDict()
    for l, o in zip(lines, impl):
        f = l.split()
        if f[0].startswith('p.'): per.setdefault(int(f[1]), []).append((l, o))
    done = 0
    for obj, hist in per.items():
        if done >= maxhist: break
        if sum(int(l.split()[2]) for l, _ in hist if l.startswith('p.gen')) > 6000: continue
        done += 1
        d = RefDrbg(orc.hash); script = []; ok = True; sofar = []
        for l, o in hist:
            f = l.split(); op = f[0]; sofar.append(l)
            def take():
                return script.pop(0) if script else (b'', 0)
            if op == 'p.script':
                del script[:]
                if f[2] != '-':
                    for x in f[2].split(','):
                        w, r = x.split(':'); script.append((unhx(w), int(r)))
            elif op == 'p.inituser':
                w, r = take(); buf = (w + b'\x00' * 32)[:32]; d.instantiate(buf, unhx(f[4]))
            elif op == 'p.reseed':
                w, r = take(); buf = w + d.V[len(w):]; d.reseed(buf)
            elif op == 'p.feed': d.feed(unhx(f[2]))
            elif op == 'p.limit': d.limit = _limit_blocks(int(f[2]))
            elif op == 'p.gen':
                n = int(f[2]); out = b''
                while len(out) < n:
                    if d.rc > d.limit:
                        w, r = take(); d.reseed(w + d.V[len(w):])
                    out += d.block()[:min(32, n - len(out))]
                if field(o, 'out') != hx(out):
                    ctx.fail('prng-hash-drbg', sofar, o, 'out=' + hx(out), 'output differs from the documented Hash_DRBG evaluated over the implementation\'s own hash on this history and entropy script')
                    ok = False; break
            elif op == 'p.dump':
                if field(o, 'V') != hx(d.V) or field(o, 'C') != hx(d.C):
                    ctx.fail('prng-hash-drbg-state', sofar, o, 'V=%s C=%s' % (hx(d.V), hx(d.C)), 'internal V/C differ from the documented Hash_DRBG state'); break
    ctx.extra_cov['reference_drbg_histories'] = done

def _prng_streams(ctx, which):
    g = ctx.g; lines = []
    nh = 40 if ctx.tier == 'quick' else 400
    keys = {}
    for h in range(nh):
        obj = h % 8
        hl, dl = _prng_history(g, obj, g.randint(3, 40 if h % 4 else 12), PR_SIZES if h % 3 else [0, 1, 31, 32, 33], PR_LIMITS)
        k = 'hist:' + hashlib.md5('|'.join(hl).encode()).hexdigest()
        for j in range(len(hl)): keys[len(lines) + j] = k
        lines += hl
        lines.append('p.free %d' % obj)
    impl, model = ctx.corr('p.histories', lines, ('prod', 'san'), stateless=False, nontrivial=lambda i: keys.get(i, False))
    for l in lines: ctx.dist[l.split()[0]] += 1
    _prng_predicates(ctx, lines, impl, which)
    return lines, impl

def _prng_source(ctx):
    """TJ.Props.C15Gen: the terms REGENERATED from src/tinyjambu-prng.c (prng_feed, prng_reseed, prng_generate, prng_set_reseed_limit, prng_free, hash_df, hash_prefixed)
    over the regenerated hash equal the hand model's feed / reseed / genLoop / setLimit / free with a user entropy callback"""
    import taint
    ok, stats = taint.regenerate(ctx, ('TJ.Props.C15Gen', 'TJ.Props.C16Gen'))
    ctx.extra_cov['minic'] = {k: stats.get(k) for k in ('functions', 'translated', 'errors', 'build_ok')}
    if stats.get('errors'): ctx.broken_proofs.append('tools/c2lean.py cannot translate the current sources: ' + '; '.join(stats['errors'][:3]))
    elif not ok: ctx.broken_proofs.append('TJ.Props.C15Gen / C16Gen (regenerated tinyjambu_prng_generate / _reseed / _feed / _set_reseed_limit / _free and their callees = the PRNG model, for single calls and for every history) no longer check: ' + re.sub(r'\s+', ' ', stats.get('build_log_tail', ''))[-600:])

def check_C15(ctx):
    ctx.build(); _prng_source(ctx); ctx.lean(extra_modules=['TJ.Props.C15Gen', 'TJ.Props.C16Gen'])
    ctx.equality_streams.update({'p.histories': 'TJ.Props.C15 (refinement of SP 800-90A Hash_DRBG)'})
    lines, impl = _prng_streams(ctx, ('C15',))
    _prng_reference(ctx, lines, impl, 6 if ctx.tier == 'quick' else 40)

def _exhaustive_prng(ctx, depth):
    """bounded-exhaustive op sequences over a small alphabet; requests' positions compared with the model and bound checked"""
    import itertools
    alpha = ['g0', 'g1', 'g32', 'g33', 'g1025', 'f', 'r', 'l0', 'l33', 'l64', 'l1048577']
    g = ctx.g; lines = []; n = 0
    seqs = list(itertools.product(alpha, repeat=depth))
    if ctx.tier == 'quick' and len(seqs) > 1500: seqs = g.sample(seqs, 1500)
    for sq in seqs:
        obj = n % 8; n += 1
        lines.append('p.script %d %s' % (obj, ','.join('%s:32' % hx(g.bytes(32, 'rand')) for _ in range(3)) ))
        lines.append('p.inituser %d user 1 -' % obj)
        lines.append('p.limit %d 64' % obj)
        for a in sq:
            if a[0] == 'g': lines.append('p.gen %d %s' % (obj, a[1:]))
            elif a == 'f': lines.append('p.feed %d 00' % obj)
            elif a == 'r': lines.append('p.reseed %d' % obj)
            else: lines.append('p.limit %d %s' % (obj, a[1:]))
        lines.append('p.gen %d 97' % obj)
    keys = {}
    impl, model = ctx.corr('p.exhaustive(depth %d)' % depth, lines, ('prod',), stateless=False, nontrivial=lambda i: lines[i] if lines[i].startswith('p.gen') else False)
    ctx.extra_cov['exhaustive_sequences'] = len(seqs)
    _prng_predicates(ctx, lines, impl, ('C16',))

def check_C16(ctx):
    ctx.build(); _prng_source(ctx); ctx.lean(extra_modules=['TJ.Props.C15Gen', 'TJ.Props.C16Gen'])
    _prng_streams(ctx, ('C16',))
    _exhaustive_prng(ctx, 3 if ctx.tier == 'quick' else 4)
    # directed histories: a limit lowered below what was already generated, feeds, the limit raised again; limits beyond the 1 MiB clamp
    e32 = lambda: hx(ctx.g.bytes(32, 'rand'))
    dl = ['p.script 1 %s' % ','.join('%s:32' % e32() for _ in range(6)), 'p.inituser 1 user 1 -', 'p.gen 1 1024', 'p.limit 1 32', 'p.feed 1 aa', 'p.feed 1 bb',
          'p.limit 1 1024', 'p.gen 1 2100', 'p.dump 1',
          'p.script 2 %s' % ','.join('%s:32' % e32() for _ in range(6)), 'p.inituser 2 user 1 -', 'p.limit 2 2097152', 'p.genbig 2 1048640', 'p.dump 2',
          'p.script 3 %s' % ','.join('%s:32' % e32() for _ in range(6)), 'p.inituser 3 user 1 -', 'p.limit 3 18446744073709551615', 'p.genbig 3 1048609', 'p.gen 3 64']
    di, dm = ctx.corr('p.directed-limits', dl, ('prod',), stateless=False, nontrivial=lambda i: dl[i].startswith('p.gen'))
    dl = [l.replace('p.genbig', 'p.gen') for l in dl]   # the predicate below reads request positions the same way for both ops
    _prng_predicates(ctx, dl, di, ('C16',))
    # the counter wrap: reseed_counter white-box set to 2^32-2 (stands for 2^32-3 feeds), then two feeds and generates
    ops = ['p.script 0 %s' % ','.join('%s:32' % hx(ctx.g.bytes(32, 'rand')) for _ in range(4)), 'p.inituser 0 user 1 -', 'p.limit 0 64',
           'p.pokerc 0 4294967294', 'p.feed 0 aa', 'p.feed 0 bb', 'p.dump 0', 'p.gen 0 200']
    impl, model = ctx.corr('p.counter-wrap', ops, ('prod',), stateless=False)
    o = impl[-1]
    if field(o, 'reqs') is not None and not (field(o, 'reqs') or '').startswith('0'):
        ctx.fail('prng-feed-counter-wrap', ops, o, model[-1],
                 'after 2^32-1 feeds (counter set white-box to 2^32-2, then two real feeds) generate must request entropy before the first block; '
                 'the implementation emitted %s bytes first: feeding pushed the next reseed further away' % (field(o, 'reqs') or 'all'), key='feed-counter-wrap')

def _prng_init_source(ctx):
    """TJ.Props.C17Gen: the term REGENERATED from tinyjambu_prng_init_user (user-callback case) equals the model's initUser; the status is 1 exactly on a full delivery"""
    import taint
    ok, stats = taint.regenerate(ctx, ('TJ.Props.C17Gen', 'TJ.Props.C16Gen', 'TJ.Props.C18Gen'))
    ctx.extra_cov['minic'] = {k: stats.get(k) for k in ('functions', 'translated', 'errors', 'build_ok')}
    if stats.get('errors'): ctx.broken_proofs.append('tools/c2lean.py cannot translate the current sources: ' + '; '.join(stats['errors'][:3]))
    elif not ok: ctx.broken_proofs.append('TJ.Props.C17Gen / C16Gen / C18Gen (regenerated tinyjambu_prng_init_user with a user callback = the model\'s initUser, status 1 iff full delivery; tinyjambu_prng_init + any history = the model over the OS outcome script) no longer check: ' + re.sub(r'\s+', ' ', stats.get('build_log_tail', ''))[-600:])

def check_C17(ctx):
    ctx.build(); _prng_init_source(ctx); ctx.lean(extra_modules=['TJ.Props.C17Gen', 'TJ.Props.C16Gen', 'TJ.Props.C18Gen'])
    import itertools
    g = ctx.g; lines = []; n = 0
    kinds = ['full', 'short', 'zero', 'fullret-short', 'over']
    depth = 3 if ctx.tier == 'quick' else 4
    for pat in itertools.product(kinds, repeat=depth):
        obj = n % 8; n += 1
        dl = [_delivery(g, k) for k in pat]
        lines.append('p.script %d %s' % (obj, ','.join('%s:%d' % (hx(w), r) for w, r in dl)))
        lines.append('p.dirty %d %s' % (obj, hx(g.bytes(96, g.choice(['rand', 'ff'])))))
        custom = g.bytes(g.choice([0, 7]))
        lines.append('p.inituser %d user 1 %s' % (obj, 'NULL' if not custom and n % 2 else hx(custom)))
        lines.append('p.gen %d 64' % obj)
        for _ in range(depth - 1):
            lines.append('p.reseed %d' % obj); lines.append('p.gen %d 70' % obj)
        lines.append('p.dump %d' % obj)
    impl, model = ctx.corr('p.delivery-patterns', lines, ('prod', 'san'), stateless=False, nontrivial=lambda i: lines[i] if lines[i].startswith('p.script') else False)
    _prng_predicates(ctx, lines, impl, ('C17',))
    # partial delivery is still mixed in: two inits differing only in the delivered prefix give different states
    pl = []
    for k in (1, 5, 31):
        a, b = g.bytes(k, 'rand'), g.bytes(k, 'rand')
        pl += ['p.script 0 %s:%d' % (hx(a), k), 'p.inituser 0 user 1 -', 'p.gen 0 32', 'p.script 1 %s:%d' % (hx(b), k), 'p.inituser 1 user 1 -', 'p.gen 1 32']
    pi, pm = ctx.corr('p.partial-mixed', pl, ('prod',), stateless=False)
    for j in range(0, len(pl), 6):
        if field(pi[j + 2], 'out') == field(pi[j + 5], 'out'):
            ctx.fail('prng-partial-not-mixed', pl[j:j + 6], pi[j + 5], 'a different output', 'two short deliveries with different bytes produced the same generator output: delivered bytes were not mixed in')
    # ... and on reseed: same initial seeding, then a short delivery with different bytes must lead to different output
    rl = []
    for k in (1, 7, 31):
        ent = g.bytes(32, 'rand'); a, b = g.bytes(k, 'rand'), g.bytes(k, 'rand')
        rl += ['p.script 0 %s:32,%s:%d' % (hx(ent), hx(a), k), 'p.inituser 0 user 1 -', 'p.reseed 0', 'p.gen 0 32',
               'p.script 1 %s:32,%s:%d' % (hx(ent), hx(b), k), 'p.inituser 1 user 1 -', 'p.reseed 1', 'p.gen 1 32']
    ri, rm = ctx.corr('p.partial-reseed-mixed', rl, ('prod',), stateless=False)
    for j in range(0, len(rl), 8):
        if field(ri[j + 3], 'out') == field(ri[j + 7], 'out'):
            ctx.fail('prng-partial-reseed-not-mixed', rl[j:j + 8], ri[j + 7], 'a different output', 'two reseeds with short deliveries of different bytes (same state before) produced the same generator output: the delivered bytes were not mixed in')
    # NULL callback == plain init (system source), all with the same scripted OS outcomes
    nl = []
    for t in range(6 if ctx.tier == 'quick' else 30):
        ent = g.bytes(32, 'rand'); custom = g.bytes(g.choice([0, 9]))
        osq = g.choice(['OK' + hx(ent), 'EINTR,OK' + hx(ent), 'ERR5', 'EAGAIN,EINTR,ERR22'])
        nl += ['sys.script ' + osq, 'p.init 0 %s' % hx(custom), 'p.gen 0 40', 'p.dump 0',
               'sys.script ' + osq, 'p.inituser 1 null %d %s' % (t % 2, hx(custom)), 'p.gen 1 40', 'p.dump 1',
               'sys.script ' + osq, 'p.reseed 1', 'p.gen 1 33']
    ni, nm = ctx.corr('p.null-callback', nl, ('prod',), stateless=False, nontrivial=lambda i: nl[i].startswith('p.inituser'))
    for j in range(0, len(nl), 11):
        a = ni[j + 1:j + 4]; b = ni[j + 5:j + 8]
        if a != b:
            ctx.fail('prng-null-callback', nl[j:j + 8], ' / '.join(b), ' / '.join(a),
                     'tinyjambu_prng_init_user with a NULL callback must behave exactly like tinyjambu_prng_init (ops 2-4 vs 6-8)',
                     key='init-user-null-callback' if any('crash' in x for x in b) else None)

def _sys_source(ctx):
    """TJ.Props.C18Gen: tinyjambu_prng_init and every later history on the REGENERATED code, with the entropy primitive delivering what an OS outcome script collapses to,
    = the hand model's Prng.init / runOps over that script (trngRead: retry transient errors, stop at the first success or permanent error)"""
    import taint
    ok, stats = taint.regenerate(ctx, ('TJ.Props.C18Gen',))
    ctx.extra_cov['minic'] = {k: stats.get(k) for k in ('functions', 'translated', 'errors', 'build_ok')}
    if stats.get('errors'): ctx.broken_proofs.append('tools/c2lean.py cannot translate the current sources: ' + '; '.join(stats['errors'][:3]))
    elif not ok: ctx.broken_proofs.append('TJ.Props.C18Gen (regenerated tinyjambu_prng_init + any history of PRNG calls = the hand model over the OS outcome script) no longer checks: ' + re.sub(r'\s+', ' ', stats.get('build_log_tail', ''))[-600:])

def check_C18(ctx):
    ctx.build(); _sys_source(ctx); ctx.lean(extra_modules=['TJ.Props.C18Gen'])
    import itertools
    g = ctx.g; lines = []; exp = []
    maxlen = 4 if ctx.tier == 'quick' else 5
    alpha = ['EINTR', 'EAGAIN', 'ERR5', 'OK']
    for variant in ('getrandom', 'getentropy', 'syscall'):
        for n in range(0, maxlen + 1):
            for sq in itertools.product(alpha, repeat=n):
                ent = g.bytes(32, 'rand'); toks = []; e = None; calls = 0
                for a in sq:
                    calls += 1
                    if a == 'OK':
                        toks.append('OK' + hx(ent)); e = 'ret=1 buf=%s calls=%d fds=0' % (hx(ent), calls); break
                    toks.append(a)
                    if a == 'ERR5': e = 'ret=0 buf=%s calls=%d fds=0' % ('00' * 32, calls); break
                else:
                    e = 'ret=1 buf=%s calls=%d fds=0' % (hx(bytes(0xA0 + i for i in range(32))), calls + 1)   # harness default after the script
                lines.append('trng %s %s' % (variant, ','.join(toks) if toks else '-')); exp.append(e)
        for n in (50, 1000):
            ent = g.bytes(32, 'rand'); sq = [g.choice(['EINTR', 'EAGAIN']) for _ in range(n)]
            lines.append('trng %s %s' % (variant, ','.join(sq + ['OK' + hx(ent)]))); exp.append('ret=1 buf=%s calls=%d fds=0' % (hx(ent), n + 1))
            lines.append('trng %s %s' % (variant, ','.join(sq + ['ERR%d' % g.choice([5, 22, 38, 14])]))); exp.append('ret=0 buf=%s calls=%d fds=0' % ('00' * 32, n + 1))
    lines = list(dict.fromkeys(lines)) if False else lines
    ctx.impl_timeout = 60
    impl, model = ctx.corr('trng', lines, ('prod', 'san'))
    ctx.impl_timeout = None
    for l, o, e in zip(lines, impl, exp):
        ctx.dist[l.split()[1]] += 1
        if o != e: ctx.fail('trng-faults', [l], o, e, 'system entropy shim: transient errors must be retried, a permanent error reported with a zeroed buffer, no descriptor leaked')
    # PRNG on top of a failing system source: reports not seeded, stays usable
    pl = ['sys.script EINTR,ERR5', 'p.init 0 6162', 'p.gen 0 64', 'p.gen 0 32', 'sys.script EAGAIN,OK' + hx(g.bytes(32, 'rand')), 'p.reseed 0', 'p.gen 0 16']
    pi, pm = ctx.corr('p.init-on-failing-os', pl, ('prod', 'san'), stateless=False)
    if field(pi[1], 'ret') != '0': ctx.fail('prng-init-on-os-failure', pl[:2], pi[1], 'ret=0 calls=2', 'PRNG initialisation must report not-seeded when the OS source fails permanently')
    o = unhx(field(pi[2], 'out') or '-')
    if len(o) != 64 or o[:32] == o[32:] or field(pi[5], 'ret') != '1':
        ctx.fail('prng-usable-after-os-failure', pl, pi[2] + ' / ' + pi[5], 'non-constant output, later reseed succeeds', 'generator must remain usable after a failed seeding')

# =========================================================================== C05 permutation back ends

def _perm_minic(ctx):
    """the three C permutations as REGENERATED from the sources, executed by the MiniC interpreter on random states, keys and round
    counts (0..24 and the counts the library uses) against the compiled code and the model: a three-way agreement"""
    import taint
    ok, stats = taint.regenerate(ctx, ('tjminic',))
    if stats.get('errors'): ctx.broken_proofs.append('tools/c2lean.py cannot translate the current sources: ' + '; '.join(stats['errors'][:3])); return
    if not ok or not os.path.exists(taint.MINIC): ctx.broken_proofs.append('regenerated MiniC program no longer builds'); return
    g = ctx.g; lines = []
    for i in range(240 if ctx.tier == 'quick' else 2400):
        v = g.choice([128, 192, 256])
        lines.append('perm %d %s %s %d' % (v, hx(g.bytes(16)), hx(g.bytes(KEYLEN[v])), g.choice(list(range(0, 25)) + [5, 8, 9, 10, 20])))
    mo = taint.run_minic(lines); io = run_stateless(ctx.meta, 'prod', lines); do = run_driver(lines)
    st = ctx.streams.setdefault('perm(minic)', {'evaluations': 0, 'nontrivial': set(), 'diffs': 0})
    st['evaluations'] += len(lines)
    for l, m, c, d in zip(lines, mo, io, do):
        st['nontrivial'].add(hashlib.md5(l.encode()).digest())
        if m != c or c != d:
            st['diffs'] += 1
            if c != d: ctx.diffs.append(('perm', 'prod', 0, [l], c, d, 0, True))
            else: ctx.broken_proofs.append('MiniC(regenerated permutation) disagrees with the compiled code and the model on "%s": %s' % (l[:100], m[:100]))
            break
    ctx.variants_used.add('minic')

def _perm_source(ctx):
    """TJ.Props.C05Gen: the term REGENERATED from tinyjambu-128-c32.c computes the model's perm128 for every state, key and round count"""
    import taint
    ok, stats = taint.regenerate(ctx, ('TJ.Props.C05Gen',))
    ctx.extra_cov['minic'] = {k: stats.get(k) for k in ('functions', 'translated', 'errors', 'build_ok')}
    if stats.get('errors'): ctx.broken_proofs.append('tools/c2lean.py cannot translate the current sources: ' + '; '.join(stats['errors'][:3]))
    elif not ok: ctx.broken_proofs.append('TJ.Props.C05Gen (regenerated tinyjambu_permutation_128/192/256 = model perm128/perm192/perm256) no longer checks: ' + re.sub(r'\s+', ' ', stats.get('build_log_tail', ''))[-600:])

def check_C05(ctx):
    ctx.build(); _perm_source(ctx); ctx.lean(extra_modules=['TJ.Props.C05Gen'])
    ctx.equality_streams.update({'perm': 'TJ.Props.C05.c_backend_is_spec'})
    _perm_stream(ctx, 3000 if ctx.tier == 'quick' else 30000)
    _perm_minic(ctx)
    try:
        import backends
        backends.check(ctx)
    except ImportError:
        ctx.extra_cov['backends'] = 'assembly tier not built yet'

# =========================================================================== C20 erasure

def check_C20(ctx):
    variants = ['prod', 'san', 'nobzero']
    if ctx.tier == 'thorough': variants += ['gcc-O0', 'gcc-O2', 'clang-O0', 'clang-O2', 'clang-O3']
    ctx.build(variants)
    # the theorems of TJ.Props.C20 / C20Fallback are about the terms regenerated from the current sources (both configurations of the wipe primitive)
    import taint
    ok, stats = taint.regenerate(ctx, ('TJ.Props.C20', 'TJ.Props.C20Fallback'))
    ctx.extra_cov['minic'] = {k: stats.get(k) for k in ('functions', 'translated', 'errors', 'build_ok')}
    if stats.get('errors'): ctx.broken_proofs.append('tools/c2lean.py cannot translate the current sources: ' + '; '.join(stats['errors'][:3]))
    elif not ok: ctx.broken_proofs.append('TJ.Props.C20 / C20Fallback no longer check against the regenerated free functions / wipe primitive: ' + re.sub(r'\s+', ' ', stats.get('build_log_tail', ''))[-700:])
    ctx.lean(extra_modules=['TJ.Props.C20Fallback'])
    vs = variants + ['nobzero-clang'] + (['shared'] if ctx.tier == 'thorough' else [])
    g = ctx.g; lines = []; frees = []
    for h in range(30 if ctx.tier == 'quick' else 300):
        obj = h % 8
        # hash / hmac / hkdf / prng objects with random histories, then free, then dump
        lines.append('h.dirty %d %s' % (obj, hx(g.bytes(56, 'rand'))))
        if g.random() < 0.8:
            lines.append('h.init %d' % obj)
            for _ in range(g.randint(0, 4)): lines.append('h.update %d %s' % (obj, hx(g.bytes(g.randint(0, 50)))))
            if g.random() < 0.5: lines.append('h.final %d' % obj)
        lines += ['h.free %d' % obj, 'h.dump %d' % obj]; frees.append((len(lines) - 1, 56))
        lines.append('m.dirty %d %s' % (obj, hx(g.bytes(56, 'rand'))))
        k = g.bytes(g.choice([0, 16, 64, 100]))
        if g.random() < 0.8:
            lines.append('m.init %d %s' % (obj, hx(k)))
            for _ in range(g.randint(0, 3)): lines.append('m.update %d %s' % (obj, hx(g.bytes(g.randint(0, 50)))))
            if g.random() < 0.5: lines.append('m.final %d %s' % (obj, hx(k)))
        lines += ['m.free %d' % obj, 'm.dump %d' % obj]; frees.append((len(lines) - 1, 56))
        lines.append('k.dirty %d %s' % (obj, hx(g.bytes(72, 'rand'))))
        if g.random() < 0.8:
            lines.append('k.extract %d %s %s' % (obj, hx(g.bytes(9)), hx(g.bytes(g.choice([0, 8])))))
            for _ in range(g.randint(0, 3)): lines.append('k.expand %d %s %d' % (obj, hx(g.bytes(3)), g.choice([0, 5, 32, 100])))
        lines += ['k.free %d' % obj, 'k.dump %d' % obj]; frees.append((len(lines) - 1, 72))
        hl, _ = _prng_history(g, obj, g.randint(0, 8), [0, 1, 33, 100], PR_LIMITS)
        lines += hl + ['p.free %d' % obj, 'p.dump %d' % obj]; frees.append((len(lines) - 1, 96))
    # directed boundary states: a free function must wipe whatever the object holds — an exhausted HKDF state (counter wrapped to 0), objects whose
    # counter / position fields are 0 or 0xFF, an object freed straight after being dirtied
    for obj, cb in ((0, 0), (1, 255), (2, 1)):
        d = bytearray(g.bytes(72, 'rand')); d[64] = cb; d[65] = g.choice([0, 32, 255])
        lines += ['k.dirty %d %s' % (obj, hx(bytes(d))), 'k.free %d' % obj, 'k.dump %d' % obj]; frees.append((len(lines) - 1, 72))
    for obj, tot in ((3, [8160]), (4, [8159, 1, 1]), (5, [4000, 4160, 40])):
        lines += ['k.dirty %d %s' % (obj, hx(g.bytes(72, 'rand'))), 'k.extract %d %s %s' % (obj, hx(g.bytes(9)), hx(g.bytes(8)))]
        lines += ['k.expand %d %s %d' % (obj, hx(b'inf'), n) for n in tot]
        lines += ['k.free %d' % obj, 'k.dump %d' % obj]; frees.append((len(lines) - 1, 72))
    for kind in ('h', 'm'):
        for obj, fill in ((6, 0), (7, 255)):
            d = bytearray(g.bytes(56, 'rand')); d[48:52] = bytes([fill]) * 4
            lines += ['%s.dirty %d %s' % (kind, obj, hx(bytes(d))), '%s.free %d' % (kind, obj), '%s.dump %d' % (kind, obj)]; frees.append((len(lines) - 1, 56))
    fset = {i for i, _ in frees}
    impl, model = ctx.corr('free-histories', lines, vs, stateless=False, nontrivial=lambda i: ('free@%d' % i) if i in fset else False)
    for v in vs:
        out = impl if v == vs[0] else run_impl(ctx.meta, v, lines)
        for i, size in frees:
            o = out[i]
            if size == 96: ok = o == 'V=%s C=%s rc=0 rl=0 cb=null ud=0 tail=%s' % ('00' * 32, '00' * 32, '00' * 8)
            else: ok = o == 'raw=' + '00' * size
            if not ok:
                obj = lines[i].split()[1]; kind = lines[i][0]
                hist = [l for l in lines[max(0, i - 60):i + 1] if l.split()[1] == obj and l[0] == kind]
                ctx.fail('free-not-zero', hist, o, 'all %d bytes zero' % size, 'after the free function returns every byte of the state object must be zero', variant=v); break
    # clean: every (offset, size) window with canaries
    cl = []
    for off in range(16):
        for n in (range(0, 131) if ctx.tier == 'thorough' or off < 4 else [0, 1, 2, 3, 7, 8, 9, 15, 16, 17, 31, 32, 33, 63, 64, 65, 127, 128, 129, 130]):
            cl.append('clean %d %d %s' % (off, n, hx(g.bytes(off + n + 16, 'hi'))))
    ci, cm = ctx.corr('clean', cl, vs, nontrivial=lambda i: True)
    for v in vs:
        out = ci if v == vs[0] else run_impl(ctx.meta, v, cl)
        for l, o in zip(cl, out):
            f = l.split(); off, n, buf = int(f[1]), int(f[2]), unhx(f[3])
            exp = 'out=' + hx(buf[:off] + b'\x00' * n + buf[off + n:])
            if o != exp: ctx.fail('clean-exact', [l], o, exp, 'tinyjambu_clean must zero exactly the requested bytes', variant=v); break
    ctx.extra_cov['clean_configurations'] = vs

# =========================================================================== C06 memory contract

def check_C06(ctx):
    ctx.build()
    # all lengths, not only the window: the functional theorems on the regenerated entry points conclude `callFun ... = .ok ...`, i.e. the run completes without ANY fault
    # (out of range, misaligned, uninitialised, NULL, shift, division) for every length tuple, and their frame clauses state which bytes may change (TJ.Props.C07Gen lists the corollaries)
    import taint
    ok, stats = taint.regenerate(ctx, ('TJ.Props.C07Gen',))
    ctx.extra_cov['minic'] = {k: stats.get(k) for k in ('functions', 'translated', 'errors', 'build_ok')}
    if stats.get('errors'): ctx.broken_proofs.append('tools/c2lean.py cannot translate the current sources: ' + '; '.join(stats['errors'][:3]))
    elif not ok: ctx.broken_proofs.append('TJ.Props.C07Gen (every shape of the AEAD, SIV, hash, HMAC, PBKDF2 and PRNG entry points completes without a fault) no longer checks: ' + re.sub(r'\s+', ' ', stats.get('build_log_tail', ''))[-600:])
    ctx.lean(extra_modules=['TJ.Props.C07Gen'])
    g = ctx.g; win = list(range(0, 41)); big = [63, 64, 65, 66, 255, 256, 257, 258, 1023, 1024, 1025, 1026]
    lines = []
    step = 1 if ctx.tier == 'thorough' else 1
    cnt = 0
    for mode in ('aead', 'siv'):
        for v in (128, 192, 256):
            key = g.bytes(KEYLEN[v]); nonce = g.bytes(12)
            for al in win + ([100] if ctx.tier == 'thorough' else []):
                mls = win + big if (al < 8 or ctx.tier == 'thorough') else g.sample(win, 12) + g.sample(big, 3)
                for ml in mls:
                    cnt += 1
                    c = {'v': v, 'key': key, 'nonce': nonce, 'ad': g.bytes(al, 'rand'), 'm': g.bytes(ml, 'rand'), 'inplace': cnt % 2, 'align': cnt % 8}
                    if al == 0 and cnt % 3 == 0: c['ad_null'] = True
                    if ml == 0 and not c['inplace']: c['m_null'] = True
                    lines.append(aead_line(mode + '.enc', c))
                    # decrypt of a packet with a (almost surely) wrong tag and of short inputs exercise the same loops
                    d = dict(c); d['c'] = g.bytes(ml + 8, 'rand'); d.pop('m_null', None)
                    lines.append(dec_line(mode + '.dec', d))
            for k in range(8):
                d = {'v': v, 'key': key, 'nonce': nonce, 'ad': b'', 'c': g.bytes(k), 'inplace': k % 2, 'align': k, 'ad_null': True}
                lines.append(dec_line(mode + '.dec', d))
    for n in win + big + [4096, 8192]:
        lines.append('hash %s' % ('NULL' if n == 0 else hx(g.bytes(n))))
    for kl in win + [63, 64, 65, 66, 128]:
        for ml in (g.sample(win, 6) + [64, 65]):
            lines.append('hmac %s %s' % ('NULL' if kl == 0 else hx(g.bytes(kl)), 'NULL' if ml == 0 else hx(g.bytes(ml))))
    for n in win + [63, 64, 65, 8159, 8160, 8161]:
        for (kl, sl, il) in [(0, 0, 0), (g.choice(win), g.choice(win + [64, 65]), g.choice(win))]:
            lines.append('hkdf %d %s %s %s' % (n, 'NULL' if kl == 0 else hx(g.bytes(kl)), 'NULL' if sl == 0 else hx(g.bytes(sl)), 'NULL' if il == 0 else hx(g.bytes(il))))
    for n in win + [63, 64, 65, 95, 96, 97]:
        for (pl, sl) in [(0, 0), (g.choice(win + [65]), g.choice(win))]:
            lines.append('pbkdf2 %d %s %s %d' % (n, 'NULL' if pl == 0 else hx(g.bytes(pl)), 'NULL' if sl == 0 else hx(g.bytes(sl)), g.choice([0, 1, 2, 3])))
    for off in range(8):
        for n in win: lines.append('clean %d %d %s' % (off, n, hx(g.bytes(off + n + 8, 'hi'))))
    for t in range(30):
        lines.append('checktag %s %s %s' % (hx(g.bytes(win[t])), hx(g.bytes(8)), hx(g.bytes(8))))
    for l in lines: ctx.dist[l.split()[0]] += 1
    def nt(i):
        f = lines[i].split()
        return True
    impl, model = ctx.corr('length-window(stateless)', lines, ('prod', 'san'), nontrivial=nt)
    # incremental APIs: chunk windows
    hl = []
    for a in win:
        for b in (0, 1, 15, 16, 17, 40):
            hl += ['h.init 0', 'h.update 0 %s' % ('NULL' if a == 0 else hx(g.bytes(a))), 'h.update 0 %s' % ('NULL' if b == 0 else hx(g.bytes(b))), 'h.final 0']
            k = g.bytes(g.choice([0, 1, 64, 65]))
            hl += ['m.init 1 %s' % ('NULL' if not k else hx(k)), 'm.update 1 %s' % hx(g.bytes(a)), 'm.update 1 %s' % hx(g.bytes(b)), 'm.final 1 %s' % ('NULL' if not k else hx(k))]
        hl += ['k.extract 2 %s %s' % (hx(g.bytes(5)), 'NULL'), 'k.expand 2 %s %d' % ('NULL', a), 'k.expand 2 03 %d' % (40 - a), 'k.expand 2 03 33']
    for n in list(range(0, 71)) + [1024, 1025, 1056, 1057]:
        hl += ['p.dirty 3 %s' % hx(g.bytes(96, 'hi')), 'p.script 3 %s' % ','.join('%s:%d' % (hx(g.bytes(g.choice([32, 32, 7, 0]))), g.choice([32, 32, 7, 0])) for _ in range(3)), 'p.inituser 3 user 1 %s' % ('NULL' if n % 2 else hx(g.bytes(n % 40))),
               'p.gen 3 %d' % n, 'p.feed 3 %s' % ('NULL' if n == 0 else hx(g.bytes(n % 50))), 'p.gen 3 %d' % (70 - n if n <= 70 else 3), 'p.reseed 3', 'p.limit 3 %d' % n, 'p.gen 3 65']
    # HKDF at the end of its stream: a call that produces some bytes and then runs out (the rest is zero-filled, -1) must stay inside the buffer it was given
    for (a, b) in [(8128, 64), (8150, 20), (8159, 2), (8160, 1), (8100, 100), (8128, 32)]:
        hl += ['k.extract 2 %s %s' % (hx(g.bytes(5)), hx(g.bytes(3))), 'k.expand 2 03 %d' % a, 'k.expand 2 03 %d' % b, 'k.expand 2 03 7']
    hl += ['h.free 0', 'm.free 1', 'k.free 2', 'p.free 3']
    for l in hl: ctx.dist[l.split()[0]] += 1
    hi, hm = ctx.corr('length-window(incremental)', hl, ('prod', 'san'), stateless=False, nontrivial=lambda i: True)
    for stream, ls, outs in (('stateless', lines, impl), ('incremental', hl, hi)):
        for v in ('prod', 'san'):
            out = outs if v == 'prod' else (run_stateless(ctx.meta, v, ls) if stream == 'stateless' else run_impl(ctx.meta, v, ls))
            for i, (l, o) in enumerate(zip(ls, out)):
                if 'BAD' in o or o.startswith('crash') or o.startswith('abort') or 'TOUCHED' in o:
                    ops = [l] if stream == 'stateless' else [x for x in ls[max(0, i - 12):i + 1] if x.split()[1] == l.split()[1]]
                    ctx.fail('memory-contract', ops, o, 'slack=ok inputs=ok, no crash, no sanitizer report',
                             'a byte outside the documented output range was written, an input was modified, a guard page was hit or a sanitizer fired', variant=v)
                    break
    # the same window on the MiniC interpreter of the regenerated source: out-of-range, misaligned, uninitialised accesses,
    # shifts and divisions are faults of that semantics; by TJ.Props.C06.safety_independent_of_contents the verdict of each
    # executed shape holds for every content of the buffers
    import taint
    ok, stats = taint.regenerate(ctx)
    ctx.extra_cov['minic'] = {k: stats.get(k) for k in ('functions', 'translated', 'nodes', 'globals', 'errors', 'build_ok')}
    if stats.get('errors'): ctx.broken_proofs.append('tools/c2lean.py cannot translate the current sources: ' + '; '.join(stats['errors'][:3]))
    elif not ok: ctx.broken_proofs.append('regenerated MiniC program no longer builds: ' + stats.get('build_log_tail', '')[-400:])
    if ok and os.path.exists(taint.MINIC):
        sub = lines if ctx.tier == 'thorough' else [l for i, l in enumerate(lines) if i % 3 == ctx.seed % 3 or not l.startswith(('aead', 'siv'))]
        for name, ls, outs, stateless in (('minic-window(stateless)', sub, None, True), ('minic-window(incremental)', hl, hi, False)):
            mo = taint.run_minic(ls, stateless=stateless)
            io = outs if outs is not None else run_stateless(ctx.meta, 'prod', ls)
            st = ctx.streams.setdefault(name, {'evaluations': 0, 'nontrivial': set(), 'diffs': 0})
            st['evaluations'] += len(ls)
            nf = 0; nd = 0
            for l, m, c in zip(ls, mo, io):
                st['nontrivial'].add(hashlib.md5(l.encode()).digest())
                if m.startswith('fault'):
                    nf += 1
                    if nf <= 2:
                        ctx.fail('memory-contract(source)', [l], m, 'no fault', 'executing the regenerated C source on this input, the MiniC semantics stops with a fault '
                                 '(out-of-range / misaligned / uninitialised access, NULL dereference, bad shift or division, or an output byte left unwritten); '
                                 'by TJ.Props.C06.safety_independent_of_contents the same happens for every content of the buffers with these lengths', variant='minic')
                elif not taint.agrees(m, c):
                    nd += 1; st['diffs'] += 1
                    if nd <= 1: ctx.broken_proofs.append('MiniC(regenerated source) and the compiled implementation disagree on "%s": minic=%s impl=%s' % (l[:100], m[:100], c[:100]))
            ctx.extra_cov.setdefault('minic_runs', {})[name] = {'ops': len(ls), 'faults': nf, 'disagreements_with_impl': nd}
        ctx.variants_used.add('minic')
    if ctx.tier == 'thorough':
        _valgrind_defined(ctx, lines[::7] + hl[::3])

def _valgrind_defined(ctx, lines):
    """memcheck on the production objects: outputs that depend on uninitialised memory are reported when printed"""
    v = ctx.meta['prod']
    r = subprocess.run(['valgrind', '-q', '--error-exitcode=9', '--track-origins=no', v['exe'], ctx.meta['layout']], input='\n'.join(lines) + '\n',
                       stdout=subprocess.PIPE, stderr=subprocess.PIPE, text=True)
    ctx.extra_cov['valgrind_memcheck'] = {'ops': len(lines), 'exit': r.returncode, 'errors': r.stderr[:500]}
    if r.returncode == 9:
        ctx.fail('valgrind-uninitialised', lines[:50], r.stderr[:800], 'no memcheck error', 'memcheck reported use of uninitialised memory or an invalid access in the production objects')

# =========================================================================== C19 reentrancy

def _symbol_audit(ctx):
    bad = []
    r = subprocess.run(['nm', '-A', ctx.meta['lib_a']], capture_output=True, text=True).stdout
    kinds = collections.Counter()
    for l in r.split('\n'):
        f = l.split()
        if len(f) < 2: continue
        kind = f[-2] if len(f) >= 3 else f[-2]
        name = f[-1]
        kinds[kind] += 1
        if kind in 'BbDdCcSsGg' and not name.startswith('.'):
            bad.append('%s %s (writable/static data)' % (kind, name))
        if kind == 'U' and name in ('malloc', 'calloc', 'realloc', 'free', 'strdup', 'aligned_alloc', 'posix_memalign', 'mmap', 'brk', 'sbrk'):
            bad.append('U %s (heap)' % name)
    r2 = subprocess.run(['size', '-A', ctx.meta['lib_so']], capture_output=True, text=True).stdout
    for l in r2.split('\n'):
        f = l.split()
        if len(f) >= 2 and f[0] in ('.data', '.bss', '.tbss', '.tdata') and f[1].isdigit():
            # a shared object always carries a few bytes of toolchain .data/.bss (__dso_handle, completed.0); library data shows in nm above
            kinds['so:' + f[0]] = int(f[1])
    ctx.extra_cov['symbol_kinds'] = dict(kinds)
    for b in bad[:3]:
        ctx.fail('global-state', ['nm -A libtinyjambu_static.a'], b, 'no writable data, no heap imports', 'the library must keep no writable global/static state and use no heap')
    return bad

def _thread_workload(g, t, nops):
    """ops of one thread, on its own object index t (one of each kind)"""
    ls = []
    for _ in range(nops):
        r = g.random(); v = g.choice([128, 192, 256])
        if r < 0.2:
            c = {'v': v, 'key': g.bytes(KEYLEN[v]), 'nonce': g.bytes(12), 'ad': g.bytes(g.randint(0, 20)), 'm': g.bytes(g.randint(0, 200)), 'inplace': g.randint(0, 1), 'align': g.randint(0, 7)}
            ls.append(aead_line(g.choice(['aead.enc', 'siv.enc']), c))
        elif r < 0.3:
            d = {'v': v, 'key': g.bytes(KEYLEN[v]), 'nonce': g.bytes(12), 'ad': g.bytes(3), 'c': g.bytes(g.randint(0, 60)), 'inplace': 0, 'align': 0}
            ls.append(dec_line(g.choice(['aead.dec', 'siv.dec']), d))
        elif r < 0.4: ls.append('hash %s' % hx(g.bytes(g.randint(0, 300))))
        elif r < 0.45: ls.append('hmac %s %s' % (hx(g.bytes(g.randint(0, 80))), hx(g.bytes(g.randint(0, 100)))))
        elif r < 0.5: ls.append('hkdf %d %s %s %s' % (g.randint(0, 200), hx(g.bytes(8)), hx(g.bytes(8)), hx(g.bytes(4))))
        elif r < 0.53: ls.append('pbkdf2 %d %s %s %d' % (g.randint(1, 70), hx(g.bytes(8)), hx(g.bytes(8)), g.randint(0, 5)))
        elif r < 0.7:
            ls += ['h.init %d' % t] + ['h.update %d %s' % (t, hx(g.bytes(g.randint(0, 40)))) for _ in range(g.randint(0, 4))] + ['h.final %d' % t]
        elif r < 0.8:
            k = g.bytes(g.choice([5, 70]))
            ls += ['m.init %d %s' % (t, hx(k))] + ['m.update %d %s' % (t, hx(g.bytes(g.randint(0, 40)))) for _ in range(g.randint(0, 3))] + ['m.final %d %s' % (t, hx(k))]
        elif r < 0.88:
            ls += ['k.extract %d %s %s' % (t, hx(g.bytes(7)), hx(g.bytes(5)))] + ['k.expand %d 01 %d' % (t, g.randint(0, 70)) for _ in range(g.randint(1, 3))]
        else:
            ks = [g.choice([32, 32, 32, 7, 0, 16]) for _ in range(4)]   # short and empty deliveries: the undelivered part must not come from anywhere but the state object
            ls += ['p.script %d %s' % (t, ','.join('%s:%d' % (hx(g.bytes(k_)), k_) for k_ in ks)), 'p.inituser %d user 1 %s' % (t, hx(g.bytes(4))),
                   'p.gen %d %d' % (t, g.randint(0, 100)), 'p.feed %d %s' % (t, hx(g.bytes(5))), 'p.gen %d 40' % t, 'p.reseed %d' % t, 'p.gen %d 33' % t]
    return ls

def run_threads(meta, variant, tagged_lines):
    v = meta[variant]; env = dict(os.environ); env.update(v.get('env', {}))
    r = subprocess.run([v['exe'], meta['layout'], '--threads'], input='\n'.join(tagged_lines) + '\n', stdout=subprocess.PIPE, stderr=subprocess.PIPE, text=True, env=env)
    out = r.stdout.split('\n')
    if out and out[-1] == '': out.pop()
    return out, r.returncode, r.stderr

def _minic_footprints(ctx, per):
    """C19 on the regenerated source: interleaved per-object histories through the MiniC interpreter; every operation may touch only
    its own object among the persistent ones (the trace is complete by TJ.Props.C19.footprint and the same for all contents by
    footprint_same_for_all_contents), and its result must equal the implementation's"""
    import taint
    ok, stats = taint.regenerate(ctx, ('tjminic', 'TJ.Props.C19'))
    ctx.extra_cov['minic'] = {k: stats.get(k) for k in ('functions', 'translated', 'globals', 'errors', 'build_ok')}
    if stats.get('errors'): ctx.broken_proofs.append('tools/c2lean.py cannot translate the current sources: ' + '; '.join(stats['errors'][:3]))
    elif not ok: ctx.broken_proofs.append('regenerated MiniC program / TJ.Props.C19 no longer builds: ' + stats.get('build_log_tail', '')[-400:])
    for gl in (stats.get('globals') or [])[:3]:
        ctx.fail('global-state(source)', ['c2lean: file-scope variable %s' % gl], gl, 'no file-scope variables', 'the library source defines a variable with static storage duration (%s): state shared by all calls' % gl, variant='minic')
    if not ok or not os.path.exists(taint.MINIC): return
    g = ctx.g; order = []; pos = [0] * len(per)
    KIND = {'h': 0, 'm': 1, 'k': 2, 'p': 3}
    def supported(l):
        return not l.startswith(('sys.', 'p.init ', 'trng'))
    per = [[l for l in ls if supported(l)] for ls in per]
    while any(pos[t] < len(per[t]) for t in range(len(per))):
        t = g.choice([t for t in range(len(per)) if pos[t] < len(per[t])]); order.append(per[t][pos[t]]); pos[t] += 1
    mo = taint.run_minic(order, trace=True, stateless=False)
    io = run_impl(ctx.meta, 'prod', order)
    st = ctx.streams.setdefault('minic-footprints', {'evaluations': 0, 'nontrivial': set(), 'diffs': 0})
    st['evaluations'] += len(order); bad = 0; nd = 0
    for l, m, c in zip(order, mo, io):
        f = l.split(); st['nontrivial'].add(hashlib.md5(l.encode()).digest())
        own = set()
        if '.' in f[0] and f[0][0] in KIND and f[0][1] == '.' and len(f) > 1 and f[1].isdigit(): own = {KIND[f[0][0]] * 8 + int(f[1])}
        t = field(m, 'touch')
        if m.startswith('fault uninit'):
            ctx.fail('depends-on-uninitialised-memory(source)', [l], m, 'no read of uninitialised memory',
                     'executing the regenerated source, this operation reads a local variable or buffer byte that was never written: its result depends on '
                     'whatever earlier, unrelated calls left on the stack', variant='minic'); break
        if m.startswith('fault'):
            ctx.broken_proofs.append('MiniC interpreter of the regenerated source faults on "%s": %s' % (l[:100], m[:120])); break
        touched = set() if t in (None, '-') else {int(x) for x in t.split(',')}
        if not touched <= own:
            bad += 1
            if bad <= 2:
                ctx.fail('touches-unrelated-object(source)', [l], 'touched persistent blocks %s' % sorted(touched), 'only %s' % sorted(own),
                         'executing the regenerated source, this operation reads or writes a state object other than the one it was given '
                         '(blocks are numbered kind*8+index, kinds h,m,k,p); by TJ.Props.C19.footprint_same_for_all_contents this holds for every content', variant='minic')
        ms = re.sub(r' (leak|touch)=\S+', '', m)
        if not taint.agrees(ms, c):
            nd += 1; st['diffs'] += 1
            if nd <= 1: ctx.broken_proofs.append('MiniC(regenerated source) and the compiled implementation disagree on "%s": minic=%s impl=%s' % (l[:100], ms[:100], c[:100]))
    ctx.extra_cov['minic_footprints'] = {'ops': len(order), 'foreign_object_touched': bad, 'disagreements_with_impl': nd}
    ctx.variants_used.add('minic')

def check_C19(ctx):
    variants = ['prod', 'san'] + (['tsan'] if ctx.tier == 'thorough' else ['tsan'])
    ctx.build(variants)
    ctx.lean()
    _symbol_audit(ctx)
    g = ctx.g
    # (1) order of unrelated calls: interleaving of per-object histories vs running each alone
    nthreads = 8
    per = [_thread_workload(g, t, 25 if ctx.tier == 'quick' else 120) for t in range(nthreads)]
    _minic_footprints(ctx, per)
    alone = [run_impl(ctx.meta, 'prod', ls) for ls in per]
    rounds = 3 if ctx.tier == 'quick' else 12
    for rd in range(rounds):
        order = []; pos = [0] * nthreads
        while any(pos[t] < len(per[t]) for t in range(nthreads)):
            t = g.choice([t for t in range(nthreads) if pos[t] < len(per[t])]); order.append((t, pos[t])); pos[t] += 1
        il = [per[t][i] for t, i in order]
        impl, model = ctx.corr('interleaved-serial', il, ('prod',), stateless=False, nontrivial=lambda i: 'il%d:%d' % (rd, i))
        for (t, i), o, l in zip(order, impl, il):
            if o != alone[t][i]:
                ctx.fail('history-dependence', il[:il.index(l) + 1][-40:], o, alone[t][i], 'the result of a call depends on earlier unrelated calls (interleaved run vs the same thread\'s ops alone)'); break
    # (1b) the system entropy source after unrelated failed libc calls (the harness leaves a stale errno before every operation):
    sl = []
    for t in range(4):
        ent = g.bytes(32, 'rand')
        sl += ['sys.script OK' + hx(ent), 'p.init 0 %s' % hx(g.bytes(3)), 'p.gen 0 40', 'sys.script EINTR,OK' + hx(ent), 'p.reseed 0', 'p.gen 0 33', 'p.free 0']
    si, sm = ctx.corr('system-source-with-stale-errno', sl, ('prod', 'san'), stateless=False, nontrivial=lambda i: sl[i].startswith('p.'))
    for l, o, m_ in zip(sl, si, sm):
        if l.startswith(('p.init', 'p.reseed')) and field(o, 'ret') != '1':
            ctx.fail('stale-errno-dependence', sl[:sl.index(l) + 1][-3:], o, m_, 'the OS delivered entropy successfully but the call reports failure: with a stale errno left by an earlier, unrelated '
                     'failed libc call the library mistakes its own successful system call for a failure'); break
    # (2) real threads: every thread's results must equal its serial results; schedules perturbed by repetition
    tagged = []
    for t in range(nthreads):
        tagged += ['T%d %s' % (t, l) for l in per[t]]
    g.shuffle(tagged)
    # keep per-thread order
    byt = {t: list(per[t]) for t in range(nthreads)}; seq = []
    for l in tagged:
        t = int(l.split()[0][1:]); seq.append('T%d %s' % (t, byt[t].pop(0)))
    for variant in variants:
        reps = (4 if ctx.tier == 'quick' else 30) if variant != 'tsan' else (1 if ctx.tier == 'quick' else 5)
        for rep in range(reps):
            out, rc, err = run_threads(ctx.meta, variant, seq)
            st = ctx.streams.setdefault('threads(%s)' % variant, {'evaluations': 0, 'nontrivial': set(), 'diffs': 0})
            st['evaluations'] += len(seq); st['nontrivial'].add(('%s:%d' % (variant, rep)).encode())
            ctx.variants_used.add(variant)
            if rc != 0 or len(out) != len(seq):
                ctx.fail('threads-crash', seq[:60], 'rc=%d %s' % (rc, err[-600:]), 'clean exit', 'threaded run crashed or a race detector fired', variant=variant); break
            cnt = [0] * nthreads; bad = False
            for l, o in zip(seq, out):
                t = int(l.split()[0][1:]); i = cnt[t]; cnt[t] += 1
                if o != alone[t][i]:
                    ctx.fail('threads-differ-from-serial', [l], o, alone[t][i], 'concurrent execution on disjoint objects gave a result different from serial execution', variant=variant); bad = True; break
            if bad: break

# =========================================================================== C07 constant time

def _ctgrind(ctx, variant):
    exe = os.path.join(os.path.dirname(ctx.meta[variant]['exe']), 'ctgrind')
    r = subprocess.run(['valgrind', '-q', '--error-exitcode=9', '--num-callers=12', exe], stdout=subprocess.PIPE, stderr=subprocess.PIPE, text=True)
    shapes = [l for l in r.stdout.split('\n') if l and not l.startswith('shapes=')]
    st = ctx.streams.setdefault('ctgrind(%s)' % variant, {'evaluations': 0, 'nontrivial': set(), 'diffs': 0})
    st['evaluations'] += len(shapes)
    for s in shapes: st['nontrivial'].add(hashlib.md5(s.encode()).digest())
    ctx.variants_used.add(variant)
    if shapes and len(ctx.samples) < 6: ctx.samples.append({'stream': 'ctgrind(%s)' % variant, 'shape': ctx.g.choice(shapes)})
    if r.returncode != 0:
        errs = re.findall(r'==\d+== (Conditional jump or move depends on uninitialised value\(s\)|Use of uninitialised value of size \d+)\n((?:==\d+==    (?:at|by) [^\n]*\n)+)', r.stderr)
        first = errs[0] if errs else ('valgrind exit %d' % r.returncode, r.stderr[:1500])
        last_shape = shapes[-1] if shapes else '?'
        # attribute: rerun is deterministic, the shape printed last before the first report is found by interleaving stdout/stderr
        r2 = subprocess.run('valgrind -q --error-exitcode=9 --num-callers=12 %s 2>&1' % exe, shell=True, stdout=subprocess.PIPE, text=True).stdout.split('\n')
        shape = None
        for i, l in enumerate(r2):
            if l.startswith('=='):
                shape = next((x for x in reversed(r2[:i]) if x and not x.startswith('==')), None); break
        ctx.fail('secret-dependent-branch-or-address', ['ctgrind %s: %s' % (variant, shape)], first[0] + '\n' + first[1][:1200], 'no secret-dependent jump or address',
                 'valgrind (secrets marked undefined) reports control flow or an address depending on a secret inside the library, public shape: %s' % shape, variant=variant)
    return len(shapes)

def check_C07(ctx):
    vs = ['prod', 'clang-O3'] + (['gcc-O2', 'clang-O2', 'gcc-O3'] if ctx.tier == 'thorough' else [])
    ctx.build(['prod', 'san'] + [v for v in vs if v != 'prod'])
    for v in vs: _ctgrind(ctx, v)
    import taint
    taint.check(ctx)
    # all-shapes statements: the functional theorems on the regenerated entry points conclude `callFun ... = .ok ...` in the instrumented semantics, so the monitor never fires
    ok, stats = taint.regenerate(ctx, ('TJ.Props.C07Gen', 'TJ.Props.NonVacuous'))
    if stats.get('errors'): ctx.broken_proofs.append('tools/c2lean.py cannot translate the current sources: ' + '; '.join(stats['errors'][:3]))
    elif not ok: ctx.broken_proofs.append('TJ.Props.C07Gen / NonVacuous (every shape of the AEAD, SIV, hash, HMAC, HKDF, PBKDF2 and PRNG entry points, one-shot and streaming, completes under the secrecy monitor) no longer checks: ' + re.sub(r'\s+', ' ', stats.get('build_log_tail', ''))[-600:])
    ctx.lean(extra_modules=['TJ.Props.C07Gen'])
    ctx.assume.append('constant-time claim for compiled code is an observation on the listed variants (valgrind memcheck with secrets undefined), not a proof')

def replay_ct(r):
    return None
