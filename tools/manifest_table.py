# The per-property claims.  Updated as theorems land.  Read by tools/mkmanifest.py.
# "proof" = Lean 4 theorems in lean/TJ/Props/<id>.lean (and regenerated-term theorems where named) decide the property on the
# model for all inputs/histories; the tie of the model to /repo is named in each entry.
NOT_APPLICABLE = []
_P = 'proof'
_TIE = (' Tie to the code: differential correspondence of the executable model TJ.Impl (compiled lean_exe) with objects built from '
        'the working tree (prod = CMake Release, san = clang ASan+UBSan) on generated operation lines, plus the property\'s direct predicate '
        'on the implementation\'s own outputs; a broken proof or correspondence triggers a directed search for a failing input.')

add('C01', _P, 'Lean 4 theorem (induction over the message loop, generic in the keyed permutation) + model/code correspondence',
    'TJ.Props.C01: for every keyed permutation, nonce, AD and plaintext of any length, encryption has length |m|+8 and decrypt(encrypt(m)) = (0, |m|, m); '
    'instantiated for the three library variants; TJ.Props.C01Mem (when present) covers in-place use at byte-memory level.' + _TIE,
    'Bounds of the tie only: lengths <= 4100, sampled keys/nonces, 8 alignments, in-place and separate buffers; compiler matrix in the thorough tier.', '5 C01')
add('C02', _P, 'Lean 4 refinement proof Impl = bit-serial specification + correspondence + KAT execution of the specification',
    'TJ.Props.C02: permC (word-sliced model of the three C back ends) equals the bit-serial NLFSR of the NIST document for every state, key and round count; '
    'aeadEncrypt/aeadDecrypt equal Spec.AEAD for all inputs with a 12-byte nonce.  TJ.Spec is executed on the repository KAT files.' + _TIE,
    'The specification transcription TJ.Spec is trusted as a reading of the NIST document (validated on KAT files).', '5 C02')
add('C03', _P, 'Lean 4 theorem accept <-> recomputed tag equal (all 2^64 tags) + tamper-stream correspondence',
    'TJ.Props.C03: check_tag returns 0 iff the tags are equal; decrypt returns 0 iff the packet equals encrypt(candidate plaintext); every wrong tag is rejected with -1; '
    'short input rejected without writes; result in {0,-1}.  TJ.Props.C03Gen: the term REGENERATED from src/backend/tinyjambu-util.c computes exactly the model\'s checkTag (verdict and wipe) for every tag length, tag pair, plaintext length and content, buffers possibly sharing a block (loop inductions on the MiniC semantics).  The 2^-64 forgery bound is cryptographic and not claimed.' + _TIE, '', '5 C03')
add('C04', _P, 'Lean 4 theorem reject => all-zero buffer / accept => plaintext (AEAD and SIV) + tamper-stream correspondence',
    'TJ.Props.C04: on rejection the plaintext region is all zero, on acceptance it holds the plaintext, for AEAD and SIV, every length and every permutation; TJ.Props.C03Gen ties the wipe loop of the regenerated tinyjambu_aead_check_tag to the model for all lengths and contents.' + _TIE, '', '5 C04')
add('C05', _P, 'Lean 4 theorems on REGENERATED assembly programs (translator asm2lean.py; symbolic block execution by simp + bv_decide; loop induction) + generator byte-identity + selection table',
    'Per back end a regenerated theorem TJ.Gen.Asm.<program>.correct: for every machine state and every round count 1 <= r < 2^32 the call returns, the four state words become the '
    'specification permutation of the old ones, no other memory word changes, callee-saved registers and stack are restored.  24 of 27 assembly programs are covered '
    '(RV32I, RV32E, ARMv6, ARMv6-M, ARMv7-M, Xtensa windowed and call0, each x 128/192/256; RV64I x 128/192/256 on its 32-bit projection, see lean/TJ/Asm/RV64.lean); AVR5 is listed as not proved in the evidence.  The C back ends: TJ.Props.C05.c_backend_is_spec '
    '(hand model tied by direct permutation calls).  Generated .S files are compared byte for byte with the bundled generators\' output; back-end selection is unique per target (decided by execution).',
    'Partial: 3 of 27 assembly programs (AVR5) have no theorem yet; the three RV64I theorems are about the 32-bit projection of the programs (per-instruction projection lemmas proved, lifting assumed).  The ISA semantics (TJ.Asm.*) are this project\'s reading of the manuals, not validated by execution (no emulator in the sandbox). bv_decide axioms are enumerated in the evidence.', '5 C05')
add('C06', _P, 'Lean 4 theorem (fault verdict of the regenerated source is independent of buffer contents) + exhaustive length window executed on the MiniC interpreter + guard pages, canaries, ASan/UBSan on the compiled code',
    'TJ.Props.C06: in the MiniC semantics of the regenerated C source every out-of-range, misaligned or uninitialised access, NULL dereference, over-wide shift and division by zero is a fault, and whether a call '
    'completes or faults (kind and position) is the same for ALL contents of the caller\'s buffers and state objects once lengths, pointers and alignments are fixed (safety_independent_of_contents, an instance of the '
    'non-interference theorem).  The check executes every public function, including the incremental ones, on an exhaustive window of length tuples (each length 0..40 plus block boundaries, NULL with length 0, alignments) '
    'on the MiniC interpreter with exact-size output blocks, so each executed shape is settled for every byte content; the same window runs on the compiled code (CMake Release and ASan/UBSan builds) under guard pages and canaries and is compared with the model.',
    'Partial: universal in contents (theorem), bounded in lengths (window). Machine-code behaviour (optimised objects) is observed, not proved; signed overflow is left to UBSan (MiniC wraps).', '5 C06')
add('C07', _P, 'Lean 4 non-interference theorem for the leakage semantics of the REGENERATED C source (translator c2lean.py) + per-shape execution of the secrecy monitor + valgrind on the optimised objects',
    'TJ.MiniC.NI.exec_rel / TJ.Props.C07: for the program regenerated from every function of src/*.c and src/backend/*.c, two calls whose inputs agree on everything public have the same leakage trace '
    '(every branch outcome, every address and size, every memcpy/memset triple, every indirect call target), the same outcome and publicly-equal results - for all arguments, memories, lengths and fuel. '
    'Corollary used by the check: whether the secrecy monitor stops with `taint` on a public shape is independent of the secret bytes, so executing each public shape once on the regenerated program '
    '(all data bytes labelled secret) decides it for all keys, messages, tags, passwords and entropy of that shape.  The check executes a family of shapes (API x length residues x key sizes x counts, incremental histories), '
    'requires agreement of the MiniC run with the compiled code on the same lines, and additionally runs valgrind with secrets undefined on the -O3 objects (gcc, clang).',
    'Universal over secrets (theorem); over public shapes the monitor verdict is established only for the shapes executed. Trusted: MiniC semantics and translator (validated by three-way execution C = MiniC = Impl, not proved against the C standard); '
    'compiled code is observed with valgrind, not proved.', '5 C07')
add('C08', _P, 'Lean 4 theorems (SIV round-trip, accept <-> tag, short input) + correspondence with tamper stream',
    'TJ.Props.C08: SIV decrypt(encrypt(m)) = (0,|m|,m), length |m|+8, accept iff the received tag equals the tag of the recovered plaintext, short input rejected without writes; for every permutation.' + _TIE, '', '5 C08')
add('C09', _P, 'Lean 4 refinement proof Impl.siv = documented two-pass construction + correspondence + KAT execution',
    'TJ.Props.C09: sivEncrypt equals the README two-pass construction over the bit-serial specification; the body keystream is a function of (key, nonce[0..3], tag, length) only; determinism.  '
    '"Unrelated bodies for different tags" is a PRF statement and is only sampled (pair test).' + _TIE, '', '5 C09')
add('C10', _P, 'Lean 4 refinement proof Impl.hash = MDPH specification + correspondence + KAT execution',
    'TJ.Props.C10: hash m = Spec.hash m (pad 10*, MDPH compression over the 256-bit-key permutation, domain 2 on the last block) for every message; digest length 32.' + _TIE, '', '5 C10')
add('C11', _P, 'Lean 4 theorem (invariant over update calls, any chunking, any prior state, several objects) + histories correspondence',
    'TJ.Props.C11: finalize after any list of update chunks from any prior state equals the one-shot hash of the concatenation; init resets every private field; objects are independent.' + _TIE,
    'Tie bounds: all compositions of n <= 8 (quick) / 12 (thorough), structured chunkings, 3 objects.', '5 C11')
add('C12', _P, 'Lean 4 theorem HMAC = RFC 2104 for every key length, streaming = one-shot + correspondence',
    'TJ.Props.C12: hmac key m = RFC 2104 over TinyJAMBU-Hash with B = 64 for every key (<= 64 zero-padded, > 64 hashed first); streaming/reinit equal one-shot.' + _TIE, '', '5 C12')
add('C13', _P, 'Lean 4 theorem HKDF = RFC 5869 incl. incremental expand sequences and the 8160-byte cap + correspondence',
    'TJ.Props.C13: extract = RFC 5869; any sequence of expand sizes returns consecutive slices of T(1)..T(255) then zeros with -1; one-shot; cap.' + _TIE, '', '5 C13')
add('C14', _P, 'Lean 4 theorem PBKDF2 = RFC 8018 (count 0 -> 1, exact length, prefix) + correspondence',
    'TJ.Props.C14: pbkdf2 = take n (T_1 || T_2 || ...) per RFC 8018 for every password, salt, count and n <= (2^32-1)*32.' + _TIE, '', '5 C14')
add('C15', _P, 'Lean 4 refinement of SP 800-90A Hash_DRBG (instantiate, block, reseed, feed; carry loop = addition mod 2^256) + scripted-entropy histories',
    'TJ.Props.C15: each operation of the model refines the documented Hash_DRBG step for every state and entropy delivery.' + _TIE, '', '5 C15')
add('C16', _P, 'Lean 4 invariant over all operation histories (trace semantics, faithful UInt32 counter) + bounded-exhaustive sequences',
    'TJ.Props.C16: after any initialisation and any history of generate/feed/reseed/set-limit the event trace never emits more than 32*(limit in force) bytes between two entropy requests; limit rounding; feed never decreases the counter.' + _TIE, '', '5 C16')
add('C17', _P, 'Lean 4 theorems (status <-> full delivery, NULL callback = system source, usable after failure) + delivery patterns',
    'TJ.Props.C17: init/reseed return 1 iff the callback returned 32; NULL callback equals tinyjambu_prng_init; every history after any initialisation runs without fault and returns exact lengths.  '
    '"Output not constant after failed seeding" needs hash properties and is only sampled.' + _TIE, '', '5 C17')
add('C18', _P, 'Lean 4 theorems over all finite OS fault sequences (induction on the number of transient errors) + interposed libc on 3 builds',
    'TJ.Props.C18: n transient errors then success -> 1, the OS bytes, n+1 calls; then a permanent error -> 0, zeroed buffer, n+1 calls; PRNG init on top.' + _TIE,
    'Tie: all sequences over {EINTR,EAGAIN,EIO,ok} to length 4/5 on getrandom / getentropy / raw syscall builds.', '5 C18')
add('C19', _P, 'Lean 4 frame theorem + non-interference for the REGENERATED source (footprint = leakage trace, same for all contents) + per-operation footprint check on interleaved objects + symbol audit, threads and TSan on the compiled code',
    'TJ.MiniC.Frame.exec_frame / TJ.Props.C19: in the semantics of the program regenerated from the C sources (which has no global component; the translator rejects file-scope variables) a completed call leaves the number of blocks unchanged, '
    'only extends the trace, and leaves every block that no write event names untouched; the trace, hence the set of blocks read and written, is the same for all contents of all objects (non-interference), and public results do not depend on them.  '
    'The check runs interleaved per-object histories of every incremental API and the one-shot functions through the interpreter and verifies per operation that no state object other than its own is touched (for all contents, by the theorem) '
    'and that the result equals the compiled implementation\'s; on the compiled code: no writable data/bss symbols, no heap imports, interleaved-vs-alone results, 8 real threads on disjoint objects vs serial results, ThreadSanitizer.',
    'Partial: independence of a result from the contents of untouched blocks is proved only for public data (non-interference), not as a full frame-independence / commutation theorem; data races in compiled code are observed (TSan on the schedules run), not proved.', '5 C19')
add('C20', _P, 'Lean 4 theorems on the REGENERATED free functions and wipe primitive (symbolic execution of the MiniC terms; loop induction for the volatile fallback) + dumps after free and clean windows on the compiled code',
    'TJ.Props.C20: for the terms regenerated from the current C sources, calling tinyjambu_{hash,hmac,hkdf,prng}_free on a state object of the public size completes and leaves every byte of the object zero, whatever it held (any history), '
    'and changes no other block; tinyjambu_clean zeroes exactly the bytes [off, off+n) for every offset and size (explicit_bzero configuration).  TJ.Props.C20Fallback: the same for the volatile byte loop, regenerated from '
    'tinyjambu-clean.c with HAVE_EXPLICIT_BZERO / HAVE_MEMSET_S off (induction over the loop, any n < 2^32).  On the compiled code: dumps after free following random histories for the four state kinds, clean on every (offset, size) window with canaries, '
    'both configurations of the primitive, gcc/clang and optimisation levels in the thorough tier.',
    'That a compiler keeps the stores is observed (memory read back after the call on the build matrix), not proved; explicit_bzero is libc (modelled as a store of n zero bytes).', '5 C20')
