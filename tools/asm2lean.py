#!/usr/bin/env python3
"""asm2lean.py — translate the assembly back ends of /repo into Lean data and proof obligations
(lean/TJ/Gen/Asm/*.lean), regenerated on every run.

For each back-end file and each configuration it supports, the file is run through `cpp -P` with the
target's predefined macros (so that tinyjambu-backend-select.h makes the choice it makes on that target),
and every remaining line is parsed into one constructor of the ISA's instruction type (TJ.Asm.RiscV.I, ...).
Unknown mnemonics or operand forms make the translation fail loudly.  What the instructions mean is
defined in Lean (TJ.Asm.<ISA>.lower); this script also computes the lowered program, but Lean re-checks
`lowerAll isa = some prog` by kernel evaluation, so that computation is not trusted.

The proof script emitted for each program is a fixed template instantiated with facts read off the
program text (which registers receive the state words, where the loop and its exits are); every step of
it is checked by Lean, so a wrong guess makes the proof fail, it cannot make a wrong program pass."""
import os, re, subprocess, sys, json, hashlib

REPO = os.environ.get('VERIF_REPO', '/repo')
BACKEND = os.path.join(REPO, 'src', 'backend')
VERIF = os.path.dirname(os.path.dirname(os.path.abspath(__file__)))
GEN = os.path.join(VERIF, 'lean', 'TJ', 'Gen', 'Asm')

class TranslateError(Exception):
    pass

def lit32(n): return '0x%08X#32' % (n & 0xFFFFFFFF)
def reg(n): return '.x%d' % n

def cpp(path, defines):
    cmd = ['cpp', '-P', '-undef', '-nostdinc', '-I', BACKEND] + ['-D%s' % d for d in defines] + [path]
    r = subprocess.run(cmd, capture_output=True, text=True)
    if r.returncode != 0: raise TranslateError('cpp failed on %s: %s' % (path, r.stderr[:300]))
    return r.stdout

def clean_lines(text):
    out = []
    for raw in text.split('\n'):
        l = raw.split('//')[0].split('@')[0].strip() if False else raw.split('//')[0].strip()
        if l: out.append(l)
    return out

def parse_int(s): return int(s.strip().lstrip('#'), 0)

# ----------------------------------------------------------------------------------------- RISC-V
RV_REGS = {'zero': 0, 'ra': 1, 'sp': 2, 'gp': 3, 'tp': 4, 't0': 5, 't1': 6, 't2': 7, 's0': 8, 'fp': 8, 's1': 9}
for i in range(8): RV_REGS['a%d' % i] = 10 + i
for i in range(2, 12): RV_REGS['s%d' % i] = 16 + i
for i in range(3, 7): RV_REGS['t%d' % i] = 25 + i

def riscv_parse(l, labels):
    """one source line -> (lean ISA term, micro tuple) or None for a directive"""
    if l.startswith('.') and not l.endswith(':'): return None
    m = re.match(r'^([.\w$]+):$', l)
    if m:
        n = labels.setdefault(m.group(1), len(labels)); return ('.label %d' % n, [('label', n)])
    parts = l.split(None, 1)
    mn = parts[0]; ops = [o.strip() for o in parts[1].split(',')] if len(parts) > 1 else []
    def R(x):
        if x not in RV_REGS: raise TranslateError('unknown register %r in %r' % (x, l))
        return RV_REGS[x]
    def memop(x):
        m = re.match(r'^(-?\w*)\((\w+)\)$', x)
        if not m: raise TranslateError('bad memory operand %r in %r' % (x, l))
        return (parse_int(m.group(1)) if m.group(1) else 0), R(m.group(2))
    def lab(x): return labels.setdefault(x, len(labels))
    if mn == 'lw':
        off, b = memop(ops[1]); rd = R(ops[0])
        return ('.lw %s (%s) %s' % (reg(rd), lit32(off), reg(b)), [('ldr', rd, b, off, 'stk' if b == 2 else 'mem')])
    if mn == 'sw':
        off, b = memop(ops[1]); rs = R(ops[0])
        return ('.sw %s (%s) %s' % (reg(rs), lit32(off), reg(b)), [('str', rs, b, off, 'stk' if b == 2 else 'mem')])
    if mn in ('ld', 'sd'):
        # RV64 only, and only for saving/restoring callee-saved registers on the stack (8-byte slots); see TJ.Asm.RV64
        off, b = memop(ops[1]); r = R(ops[0])
        if b != 2 or off % 8 != 0: raise TranslateError('ld/sd outside the stack frame not covered: %r' % l)
        return ('.%s %s (%s) %s' % (mn, reg(r), lit32(off), reg(b)), [('ldr' if mn == 'ld' else 'str', r, b, off, 'stk')])
    if mn in ('srliw', 'slliw'):
        rd, rs, k = R(ops[0]), R(ops[1]), parse_int(ops[2])
        if not 0 <= k < 32: raise TranslateError('shift amount out of range in %r' % l)
        return ('.%s %s %s %d' % (mn, reg(rd), reg(rs), k), [('alu', 'mov', False, rd, rd, ('lsr' if mn == 'srliw' else 'lsl', rs, k))])
    if mn in ('srli', 'slli'):
        rd, rs, k = R(ops[0]), R(ops[1]), parse_int(ops[2])
        if not 0 <= k < 32: raise TranslateError('shift amount out of range in %r' % l)
        return ('.%s %s %s %d' % (mn, reg(rd), reg(rs), k), [('alu', 'mov', False, rd, rd, ('lsr' if mn == 'srli' else 'lsl', rs, k))])
    if mn in ('xor', 'and'):
        rd, rs, rt = R(ops[0]), R(ops[1]), R(ops[2])
        return ('.%s %s %s %s' % (mn, reg(rd), reg(rs), reg(rt)), [('alu', mn, False, rd, rs, ('reg', rt))])
    if mn == 'addi':
        rd, rs, imm = R(ops[0]), R(ops[1]), parse_int(ops[2])
        if not -2048 <= imm < 2048: raise TranslateError('immediate out of range in %r' % l)
        return ('.addi %s %s (%d)' % (reg(rd), reg(rs), imm), [('alu', 'sub', False, rd, rs, ('imm', -imm)) if imm < 0 else ('alu', 'add', False, rd, rs, ('imm', imm))])
    if mn in ('bne', 'beq'):
        rs, rt, lb = R(ops[0]), R(ops[1]), lab(ops[2])
        if rt != 0: raise TranslateError('branch against a non-zero register not covered: %r' % l)
        return ('.%s %s %s %d' % (mn, reg(rs), reg(rt), lb), [('bnz' if mn == 'bne' else 'bz', rs, lb)])
    if mn == 'ret' and not ops: return ('.ret', [('ret',)])
    raise TranslateError('unknown instruction %r' % l)


# ----------------------------------------------------------------------------------------- ARM / Thumb
ARM_REGS = {'r%d' % i: i for i in range(16)}
ARM_REGS.update({'sb': 9, 'sl': 10, 'fp': 11, 'ip': 12, 'sp': 13, 'lr': 14, 'pc': 15})

def arm_parse(l, labels):
    if l.startswith('.') and not l.endswith(':'): return None
    m = re.match(r'^([.\w$]+):$', l)
    if m:
        n = labels.setdefault(m.group(1), len(labels)); return ('.label %d' % n, [('label', n)])
    parts = l.split(None, 1)
    mn = parts[0]; rest = parts[1].strip() if len(parts) > 1 else ''
    def R(x):
        x = x.strip()
        if x not in ARM_REGS: raise TranslateError('unknown register %r in %r' % (x, l))
        return ARM_REGS[x]
    def lab(x): return labels.setdefault(x.strip(), len(labels))
    def sp_space(b): return 'stk' if b == 13 else 'mem'
    if mn in ('push', 'pop'):
        m = re.match(r'^\{(.*)\}$', rest)
        if not m: raise TranslateError('bad register list in %r' % l)
        regs = [R(x) for x in m.group(1).split(',')]
        if regs != sorted(regs): raise TranslateError('register list not ascending in %r' % l)
        n = len(regs)
        term = '.%s [%s]' % (mn, ', '.join(reg(r) for r in regs))
        if mn == 'push':
            mic = [('alu', 'sub', False, 13, 13, ('imm', 4 * n))] + [('str', r, 13, 4 * i, 'stk') for i, r in enumerate(regs)]
        else:
            mic = [('ldr', r, 13, 4 * i, 'stk') for i, r in enumerate(regs)] + [('alu', 'add', False, 13, 13, ('imm', 4 * n))] + ([('ret',)] if 15 in regs else [])
        return (term, mic)
    if mn in ('ldr', 'str'):
        m = re.match(r'^(\w+)\s*,\s*\[(\w+)(?:\s*,\s*#(-?\w+))?\]$', rest)
        if not m: raise TranslateError('bad memory operand in %r' % l)
        rt, rn = R(m.group(1)), R(m.group(2)); off = parse_int(m.group(3)) if m.group(3) else 0
        if off < 0: raise TranslateError('negative offset in %r' % l)
        return ('.%s %s %s %d' % (mn, reg(rt), reg(rn), off), [(mn, rt, rn, off, sp_space(rn))])
    ops = [o.strip() for o in rest.split(',')] if rest else []
    sflag = mn.endswith('s') and mn not in ('subs',) and mn[:-1] in ('eor', 'and', 'lsr', 'lsl')
    base = mn[:-1] if sflag else mn
    S = 'true' if sflag else 'false'
    if base == 'eor':
        if len(ops) == 2: rd, rn, rm, sh = R(ops[0]), R(ops[0]), R(ops[1]), None
        elif len(ops) == 3: rd, rn, rm, sh = R(ops[0]), R(ops[1]), R(ops[2]), None
        elif len(ops) == 4:
            rd, rn, rm = R(ops[0]), R(ops[1]), R(ops[2])
            m = re.match(r'^(lsl|lsr)\s+#(\d+)$', ops[3])
            if not m: raise TranslateError('bad shift in %r' % l)
            sh = (m.group(1), int(m.group(2)))
        else: raise TranslateError('bad operands in %r' % l)
        if sh and not 0 < sh[1] < 32: raise TranslateError('shift amount out of range in %r' % l)
        sht = '.none' if sh is None else '(.%s %d)' % sh
        o2 = ('reg', rm) if sh is None else (sh[0], rm, sh[1])
        return ('.eor %s %s %s %s %s' % (S, reg(rd), reg(rn), reg(rm), sht), [('alu', 'xor', sflag, rd, rn, o2)])
    if base == 'and':
        if len(ops) == 2: rd, rn, rm = R(ops[0]), R(ops[0]), R(ops[1])
        elif len(ops) == 3: rd, rn, rm = R(ops[0]), R(ops[1]), R(ops[2])
        else: raise TranslateError('bad operands in %r' % l)
        return ('.and %s %s %s %s' % (S, reg(rd), reg(rn), reg(rm)), [('alu', 'and', sflag, rd, rn, ('reg', rm))])
    if base in ('lsr', 'lsl'):
        if len(ops) != 3: raise TranslateError('bad operands in %r' % l)
        rd, rm, k = R(ops[0]), R(ops[1]), parse_int(ops[2])
        if not 0 < k < 32: raise TranslateError('shift amount out of range in %r' % l)
        return ('.%s %s %s %s %d' % (base, S, reg(rd), reg(rm), k), [('alu', 'mov', sflag, rd, rd, (base, rm, k))])
    if mn == 'mov' and len(ops) == 2:
        rd, rm = R(ops[0]), R(ops[1])
        return ('.mov %s %s' % (reg(rd), reg(rm)), [('alu', 'mov', False, rd, rd, ('reg', rm))])
    if mn == 'subs' and len(ops) == 3:
        rd, rn, imm = R(ops[0]), R(ops[1]), parse_int(ops[2])
        if not 0 <= imm < 256: raise TranslateError('immediate out of range in %r' % l)
        return ('.subs %s %s %d' % (reg(rd), reg(rn), imm), [('alu', 'sub', True, rd, rn, ('imm', imm))])
    if mn in ('bne', 'beq', 'b') and len(ops) == 1:
        lb = lab(ops[0]); return ('.%s %d' % (mn, lb), [(mn, lb)])
    if mn == 'bx' and ops == ['lr']: return ('.bxlr', [('ret',)])
    raise TranslateError('unknown instruction %r' % l)


# ----------------------------------------------------------------------------------------- Xtensa
def xtensa_parse(l, labels):
    if l.startswith('.') and not l.endswith(':'): return None
    m = re.match(r'^([.\w$]+):$', l)
    if m:
        n = labels.setdefault(m.group(1), len(labels)); return ('.label %d' % n, [('label', n)])
    parts = l.split(None, 1)
    mn = parts[0]; ops = [o.strip() for o in parts[1].split(',')] if len(parts) > 1 else []
    def R(x):
        if x == 'sp': return 1
        m = re.match(r'^a(\d+)$', x)
        if not m or int(m.group(1)) > 15: raise TranslateError('unknown register %r in %r' % (x, l))
        return int(m.group(1))
    def lab(x): return labels.setdefault(x, len(labels))
    def spc(b): return 'stk' if b == 1 else 'mem'
    if mn == 'entry' and len(ops) == 2 and R(ops[0]) == 1:
        n = parse_int(ops[1]); return ('.entry %d' % n, [('alu', 'sub', False, 1, 1, ('imm', n))])
    if mn == 'addi':
        rd, rs, imm = R(ops[0]), R(ops[1]), parse_int(ops[2])
        if not -128 <= imm < 128: raise TranslateError('immediate out of range in %r' % l)
        return ('.addi %s %s (%d)' % (reg(rd), reg(rs), imm), [('alu', 'sub', False, rd, rs, ('imm', -imm)) if imm < 0 else ('alu', 'add', False, rd, rs, ('imm', imm))])
    if mn in ('s32i.n', 's32i', 'l32i.n', 'l32i'):
        rt, b, off = R(ops[0]), R(ops[1]), parse_int(ops[2])
        if off < 0 or off % 4: raise TranslateError('bad offset in %r' % l)
        k = 'str' if mn.startswith('s') else 'ldr'
        return ('.%s %s %s %d' % ('s32i' if k == 'str' else 'l32i', reg(rt), reg(b), off), [(k, rt, b, off, spc(b))])
    if mn == 'ssai':
        k = parse_int(ops[0])
        if not 0 <= k < 32: raise TranslateError('shift amount out of range in %r' % l)
        return ('.ssai %d' % k, [('ssai', k)])
    if mn == 'src':
        rd, rs, rt = R(ops[0]), R(ops[1]), R(ops[2]); return ('.src %s %s %s' % (reg(rd), reg(rs), reg(rt)), [('src', rd, rs, rt)])
    if mn in ('xor', 'and'):
        rd, rs, rt = R(ops[0]), R(ops[1]), R(ops[2]); return ('.%s %s %s %s' % (mn, reg(rd), reg(rs), reg(rt)), [('alu', mn, False, rd, rs, ('reg', rt))])
    if mn in ('beqi', 'bnei'):
        rs, imm, lb = R(ops[0]), parse_int(ops[1]), lab(ops[2])
        if imm != 0: raise TranslateError('comparison with a non-zero immediate not covered: %r' % l)
        return ('.%s %s (%d) %d' % (mn, reg(rs), imm, lb), [('bz' if mn == 'beqi' else 'bnz', rs, lb)])
    if mn == 'retw.n' and not ops: return ('.retw', [('ret',)])
    if mn == 'ret.n' and not ops: return ('.ret', [('ret',)])
    raise TranslateError('unknown instruction %r' % l)

# ----------------------------------------------------------------------------------------- micro -> Lean
def micro_lean(m):
    k = m[0]
    if k == 'label': return '.label %d' % m[1]
    if k == 'alu':
        _, op, sf, rd, rn, o = m
        if o[0] == 'reg': os_ = '(.reg %s)' % reg(o[1])
        elif o[0] == 'imm': os_ = '(.imm %s)' % lit32(o[1])
        else: os_ = '(.%s %s %d)' % (o[0], reg(o[1]), o[2])
        return '.alu .%s %s %s %s %s' % (op, 'true' if sf else 'false', reg(rd), reg(rn), os_)
    if k in ('ldr', 'str'): return '.%s %s %s (%s) .%s' % (k, reg(m[1]), reg(m[2]), lit32(m[3]), m[4])
    if k == 'ssai': return '.ssai %d' % m[1]
    if k == 'src': return '.src %s %s %s' % (reg(m[1]), reg(m[2]), reg(m[3]))
    if k in ('bnz', 'bz'): return '.%s %s %d' % (k, reg(m[1]), m[2])
    if k in ('bne', 'beq', 'b'): return '.%s %d' % (k, m[1])
    if k == 'ret': return '.ret'
    raise TranslateError('micro %r' % (m,))

def writes(m):
    if m[0] == 'alu': return m[3]
    if m[0] in ('ldr', 'src'): return m[1]
    return None

def is_ctl(m): return m[0] in ('bnz', 'bz', 'bne', 'beq', 'b', 'ret')

# ----------------------------------------------------------------------------------------- configurations
CONFIGS = {
    # name: (file tag, cpp defines, parser, Lean ISA namespace, arg0 reg, arg1 reg, sp reg, callee-saved regs)
    'rv32i': ('riscv32i', ['__riscv', '__riscv_xlen=32'], riscv_parse, 'RiscV', 10, 11, 2, [1, 2, 8, 9] + list(range(18, 28))),
    'rv32e': ('riscv32e', ['__riscv', '__riscv_xlen=32', '__riscv_32e'], riscv_parse, 'RiscV', 10, 11, 2, [1, 2, 8, 9]),
    # RV64I: verified on its 32-bit projection (W-form shifts, lw/sw, bitwise ops; 8-byte stack slots): see lean/TJ/Asm/RV64.lean
    'rv64i': ('riscv64i', ['__riscv', '__riscv_xlen=64'], riscv_parse, 'RiscV', 10, 11, 2, [1, 2, 8, 9] + list(range(18, 28))),
    # ARM: r4-r11 and sp are callee-saved; the return goes to the caller's lr (checked separately)
    'armv6': ('armv6', ['__ARM_ARCH=6', '__arm__'], arm_parse, 'Arm', 0, 1, 13, [4, 5, 6, 7, 8, 9, 10, 11, 13]),
    'armv6m': ('armv6m', ['__ARM_ARCH=6', '__ARM_ARCH_6M__', '__ARM_ARCH_ISA_THUMB=1', '__arm__', '__thumb__'], arm_parse, 'Arm', 0, 1, 13, [4, 5, 6, 7, 8, 9, 10, 11, 13]),
    # Xtensa: windowed ABI (nothing to restore: register window) and CALL0 ABI (a12-a15, sp, a0)
    'xtensa_w': ('xtensa', ['__XTENSA__', '__XTENSA_WINDOWED_ABI__'], xtensa_parse, 'Xtensa', 2, 3, 1, []),
    'xtensa_c0': ('xtensa', ['__XTENSA__', '__XTENSA_CALL0_ABI__'], xtensa_parse, 'Xtensa', 2, 3, 1, [0, 1, 12, 13, 14, 15]),
    'armv7m': ('armv7m', ['__ARM_ARCH=7', '__ARM_ARCH_7M__', '__ARM_ARCH_ISA_THUMB=2', '__arm__', '__thumb__'], arm_parse, 'Arm', 0, 1, 13, [4, 5, 6, 7, 8, 9, 10, 11, 13]),
}
NK = {128: 4, 192: 6, 256: 8}

def translate(config, bits):
    tag, defines, parser, ns, a0, a1, sp, cs = CONFIGS[config]
    path = os.path.join(BACKEND, 'tinyjambu-%d-asm-%s.S' % (bits, tag))
    labels = {}; isa = []; micro = []; src = []
    for l in clean_lines(cpp(path, defines)):
        t = parser(l, labels)
        if t is None: continue
        isa.append(t[0]); micro.extend(t[1]); src.append(l)
    if not micro: raise TranslateError('%s: nothing selected under %s' % (path, defines))
    return {'config': config, 'bits': bits, 'path': path, 'isa': isa, 'micro': micro, 'src': src, 'ns': ns,
            'a0': a0, 'a1': a1, 'sp': sp, 'cs': cs}

def analyse(t):
    """read the loop structure off the lowered program"""
    mi = t['micro']; nk = NK[t['bits']]
    lab_idx = {m[1]: i for i, m in enumerate(mi) if m[0] == 'label'}
    conds = [i for i, m in enumerate(mi) if m[0] in ('bnz', 'bz', 'bne', 'beq')]
    if not conds: raise TranslateError('no loop found')
    def target(i): return lab_idx[mi[i][-1]]
    # the loop head: the only label that is the target of a backward jump
    backs = sorted(set(target(i) for i, m in enumerate(mi) if m[0] in ('bnz', 'bz', 'bne', 'beq', 'b') and target(i) < i))
    if len(backs) != 1: raise TranslateError('expected exactly one loop head, found %d' % len(backs))
    head = backs[0]
    ret = len(mi) - 1
    if mi[ret][0] != 'ret': raise TranslateError('program does not end in a return')
    def follow(pc, zero):
        """execute control instructions from pc with the counter test outcome `zero`; returns (landing pc, list of (pc, instr, taken))"""
        path = []
        while is_ctl(mi[pc]) and mi[pc][0] != 'ret':
            m = mi[pc]
            if m[0] in ('bnz', 'bne'): taken = not zero
            elif m[0] in ('bz', 'beq'): taken = zero
            else: taken = True
            path.append((pc, m, taken))
            pc = target(pc) if taken else pc + 1
            if len(path) > 3: raise TranslateError('branch group too long')
        return pc, path
    segs = []; groups = []; start = head; exit_pc = None
    guard = 0
    while True:
        guard += 1
        if guard > 8: raise TranslateError('loop structure not recognised')
        e = start
        while not is_ctl(mi[e]): e += 1
        if mi[e][0] not in ('bnz', 'bz', 'bne', 'beq'): raise TranslateError('segment does not end in a conditional branch')
        zpc, zpath = follow(e, True); npc, npath = follow(e, False)
        if exit_pc is None: exit_pc = zpc
        if zpc != exit_pc: raise TranslateError('loop exits differ')
        segs.append((start, e)); groups.append({'zero': zpath, 'nonzero': npath, 'next': npc})
        if npc == head: break
        if npc <= e: raise TranslateError('unexpected backward continuation')
        start = npc
    for i in range(0, head):
        if is_ctl(mi[i]): raise TranslateError('control instruction in the prologue')
    for i in range(exit_pc, ret):
        if is_ctl(mi[i]): raise TranslateError('control instruction in the epilogue')
    pre = (0, head); post = (exit_pc, ret)
    a0 = t['a0']
    st = {}
    for i in range(0, head):
        m = mi[i]
        if m[0] == 'ldr' and m[2] == a0 and m[4] == 'mem' and m[3] in (0, 4, 8, 12): st[m[3] // 4] = m[1]
    if sorted(st) != [0, 1, 2, 3]: raise TranslateError('state words are not loaded into registers in the prologue')
    last = segs[-1][1]
    loopw = set(w for (lo, hi) in segs for i in range(lo, hi) for w in [writes(mi[i])] if w is not None)
    keysrc = {}
    for i in range(0, head):
        m = mi[i]
        if m[0] == 'ldr' and m[2] == a0 and m[4] == 'mem' and m[3] >= 16 and (m[3] - 16) // 4 < nk and m[1] not in loopw:
            keysrc[(m[3] - 16) // 4] = ('reg', m[1])
    for k in range(nk): keysrc.setdefault(k, ('mem', 16 + 4 * k))
    bm = mi[last]
    if bm[0] in ('bnz', 'bz'): cnt = bm[1]; flags = False
    else:
        flags = True; cnt = None
        for i in range(last - 1, head, -1):
            if mi[i][0] == 'alu' and mi[i][2]: cnt = mi[i][3]; break
        if cnt is None: raise TranslateError('no flag-setting instruction before the loop branch')
    return {'head': head, 'exit': exit_pc, 'segs': segs, 'groups': groups, 'pre': pre, 'post': post, 'ret': ret, 'state': [st[i] for i in range(4)],
            'keysrc': keysrc, 'cnt': cnt, 'flags': flags, 'loopw': loopw, 'nk': nk, 'n': len(segs), 'lab_idx': lab_idx}

def key_expr(a, t, k, d):
    s = a['keysrc'][k]
    if s[0] == 'reg': return '%s.r.x%d' % (d, s[1])
    return '(%s.mem (%s.r.x%d + %s))' % (d, d, t['a0'], lit32(s[1]))

def lst(items, indent='  '):
    return '[\n' + ',\n'.join(indent + '  ' + x for x in items) + ']'

UNFOLD = 'List.foldl, execD, Space.sel_mem, Space.sel_stk, Regs.get, Regs.set, Op2.val, Alu.eval'

def emit(t):
    a = analyse(t); mi = t['micro']; nk = a['nk']; n = a['n']
    name = '%s_%d' % (t['config'], t['bits'])
    S = a['state']; cnt = a['cnt']; a0 = t['a0']; sp = t['sp']
    frame = [r for r in range(32) if r not in a['loopw']]
    prew = set(w for m in mi[a['pre'][0]:a['pre'][1]] for w in [writes(m)] if w is not None)
    postw = set(w for m in mi[a['post'][0]:a['post'][1]] for w in [writes(m)] if w is not None)
    o = []
    o.append('/- GENERATED by tools/asm2lean.py from %s (configuration %s); do not edit. -/' % (os.path.relpath(t['path'], REPO), t['config']))
    o.append('import TJ.Asm.%s\nimport TJ.Asm.Loop\nset_option maxRecDepth 100000\nset_option maxHeartbeats 2000000\nnamespace TJ.Gen.Asm.%s\nopen TJ TJ.Asm\n' % (t['ns'], name))
    o.append('/-- the source lines, one constructor each -/\ndef isa : List %s.I := %s\n' % (t['ns'], lst(t['isa'])))
    o.append('/-- the program on TJ.Asm.Machine -/\ndef prog : Prog := %s\n' % lst([micro_lean(m) for m in mi]))
    o.append('theorem lowered : %s.lowerAll isa = some prog := by decide +kernel\n' % t['ns'])
    def blockdef(nm, lo, hi):
        o.append('def %s : List Instr := %s' % (nm, lst([micro_lean(m) for m in mi[lo:hi]])))
        o.append('theorem %s_slice : (prog.drop %d).take %s.length = %s := by decide +kernel' % (nm, lo, nm, nm))
        o.append('theorem %s_noctl : %s.all (fun i => !i.isCtl) = true := by decide +kernel\n' % (nm, nm))
    blockdef('pre', *a['pre'])
    for j, (lo, hi) in enumerate(a['segs']): blockdef('seg%d' % j, lo, hi)
    blockdef('post', *a['post'])
    for lb, idx in sorted(a['lab_idx'].items()):
        o.append('theorem lab_%d : findLabel prog %d = %d := by decide +kernel' % (lb, lb, idx))
    o.append('attribute [irreducible] prog\n')
    o.append('/-- key word `k` (pre-inverted) as the loop sees it: a register loaded by the prologue, or memory -/')
    o.append('def key (d1 : D) : Nat → BitVec 32\n' + '\n'.join('  | %d => %s' % (k, key_expr(a, t, k, 'd1')) for k in range(nk)) + '\n  | _ => 0\n')
    for j, (lo, hi) in enumerate(a['segs']):
        ks = [key_expr(a, t, (4 * j + q) % nk, 'd') for q in range(4)]
        rb = '(roundBV ⟨d.r.x%d, d.r.x%d, d.r.x%d, d.r.x%d⟩ %s %s %s %s)' % (S[0], S[1], S[2], S[3], ks[0], ks[1], ks[2], ks[3])
        for q, f in enumerate('abcd'):
            o.append('theorem seg%d_%s (d : D) : (seg%d.foldl execD d).r.x%d = %s.%s := by' % (j, f, j, S[q], rb, f))
            o.append('  simp only [seg%d, %s, roundBV, wordFormula]' % (j, UNFOLD))
            o.append('  bv_decide')
        o.append('theorem seg%d_cnt (d : D) : (seg%d.foldl execD d).r.x%d = d.r.x%d - 1#32 := by' % (j, j, cnt, cnt))
        o.append('  simp only [seg%d, %s]' % (j, UNFOLD))
        o.append('  first | done | bv_decide | rfl')
        o.append('theorem seg%d_mem (d : D) : (seg%d.foldl execD d).mem = d.mem := fold_mem_unchanged _ _ (by decide +kernel)' % (j, j))
        o.append('theorem seg%d_stk (d : D) : (seg%d.foldl execD d).stk = d.stk := fold_stk_unchanged _ _ (by decide +kernel)\n' % (j, j))
    o.append('/-- loop invariant at the start of a segment: `d1` is the state after the prologue -/')
    o.append('structure Inv (d1 : D) (d : D) (s : S4) (m : Nat) : Prop where')
    for q, f in enumerate('abcd'): o.append('  s%s : d.r.x%d = s.%s' % (f, S[q], f))
    o.append('  cnt : d.r.x%d = BitVec.ofNat 32 m' % cnt)
    o.append('  lt : m < 2 ^ 32')
    o.append('  mem : d.mem = d1.mem')
    o.append('  stk : d.stk = d1.stk')
    for r in frame: o.append('  f%d : d.r.x%d = d1.r.x%d' % (r, r, r))
    o.append('')
    pcs = [lo for lo, hi in a['segs']]
    o.append('def pcs : Nat → Nat\n' + '\n'.join('  | %d => %d' % (j, pc) for j, pc in enumerate(pcs)) + '\n  | _ => %d\n' % pcs[0])
    keyregs = sorted(set(a['keysrc'][k][1] for k in range(nk) if a['keysrc'][k][0] == 'reg'))
    STEP = {'bnz': 'step_bnz', 'bz': 'step_bz', 'bne': 'step_bne', 'beq': 'step_beq', 'b': 'step_b'}
    fetched = set()
    for j, (lo, hi) in enumerate(a['segs']):
        grp = a['groups'][j]; nxt = (j + 1) % n
        ks = [key_expr(a, t, (4 * j + q) % nk, 'd') for q in range(4)]
        for (pc, m, taken) in grp['zero'] + grp['nonzero']:
            if pc not in fetched:
                fetched.add(pc)
                o.append('theorem fetch_%d : prog[%d]? = some (%s) := by decide +kernel' % (pc, pc, micro_lean(m)))
        o.append('theorem seg%d_end : %d + seg%d.length = %d := by decide' % (j, lo, j, hi))
        if a['flags']:
            o.append('theorem seg%d_z (d : D) : (seg%d.foldl execD d).z = decide ((seg%d.foldl execD d).r.x%d = 0) := by' % (j, j, j, cnt))
            lastm = mi[hi - 1]
            if not (lastm[0] == 'alu' and lastm[2] and lastm[3] == cnt): raise TranslateError('segment does not end with the flag-setting decrement')
            o.append('  have h : seg%d = seg%d.dropLast ++ [%s] := by decide +kernel' % (j, j, micro_lean(lastm)))
            o.append('  rw [h, List.foldl_append]')
            o.append('  generalize (seg%d.dropLast).foldl execD d = d2' % j)
            o.append('  simp only [%s, ↓reduceIte]' % UNFOLD)
            o.append('  all_goals (first | rfl | (congr 1))')
        o.append('theorem H%d (d1 : D) (d : D) (s : S4) (m : Nat) (hi : Inv d1 d s m) (hm : 1 ≤ m) :' % j)
        o.append('    ∃ k d\', run prog k ⟨d, pcs %d, false⟩ = ⟨d\', if m = 1 then %d else pcs ((%d + 1) %% %d), false⟩ ∧' % (j, a['exit'], j, n))
        o.append('      Inv d1 d\' (roundAtBV %d (key d1) %d s) (m - 1) := by' % (nk, j))
        o.append('  show ∃ k d\', run prog k ⟨d, %d, false⟩ = ⟨d\', if m = 1 then %d else %d, false⟩ ∧ _' % (lo, a['exit'], pcs[nxt]))
        o.append('  have ea := seg%d_a d; have eb := seg%d_b d; have ec := seg%d_c d; have ed := seg%d_d d' % (j, j, j, j))
        o.append('  have ecnt := seg%d_cnt d; have emem := seg%d_mem d; have estk := seg%d_stk d' % (j, j, j))
        if a['flags']: o.append('  have ez := seg%d_z d' % j)
        for r in frame:
            o.append('  have ef%d : (seg%d.foldl execD d).r.x%d = d.r.x%d := fold_get_unwritten seg%d d .x%d (by decide +kernel)' % (r, j, r, r, j, r))
        o.append('  have hk : roundAtBV %d (key d1) %d s = roundBV ⟨d.r.x%d, d.r.x%d, d.r.x%d, d.r.x%d⟩ %s %s %s %s := by' % (nk, j, S[0], S[1], S[2], S[3], ks[0], ks[1], ks[2], ks[3]))
        rew = ['hi.sa', 'hi.sb', 'hi.sc', 'hi.sd', 'hi.mem', 'hi.f%d' % a0] + ['hi.f%d' % r for r in keyregs]
        o.append('    simp only [%s]; rfl' % ', '.join(dict.fromkeys(rew)))
        o.append('  have hrunseg : run prog seg%d.length ⟨d, %d, false⟩ = ⟨seg%d.foldl execD d, %d, false⟩ := by' % (j, lo, j, hi))
        o.append('    rw [run_slice prog seg%d d %d seg%d_slice seg%d_noctl, seg%d_end]' % (j, lo, j, j, j))
        o.append('  generalize seg%d.foldl execD d = d\' at *' % j)
        o.append('  have hcv : d\'.r.x%d = BitVec.ofNat 32 (m - 1) := by rw [ecnt, hi.cnt, ofNat_pred1 m hm]' % cnt)
        o.append('  have hz0 := ofNat_pred_eq_zero m hm hi.lt')
        o.append('  have hinv\' : Inv d1 d\' (roundAtBV %d (key d1) %d s) (m - 1) := {' % (nk, j))
        for f, e in zip('abcd', ['ea', 'eb', 'ec', 'ed']): o.append('      s%s := by rw [hk, %s]' % (f, e))
        o.append('      cnt := hcv')
        o.append('      lt := by have := hi.lt; omega')
        o.append('      mem := by rw [emem, hi.mem]')
        o.append('      stk := by rw [estk, hi.stk]')
        for r in frame: o.append('      f%d := by rw [ef%d, hi.f%d]' % (r, r, r))
        o.append('    }')
        o.append('  by_cases h1 : m = 1')
        for case, path, land in (('zero', grp['zero'], a['exit']), ('nonzero', grp['nonzero'], pcs[nxt])):
            zero = case == 'zero'
            o.append('  · refine ⟨seg%d.length + %d, d\', ?_, hinv\'⟩' % (j, len(path)))
            o.append('    rw [%s h1, run_add, hrunseg]' % ('if_pos' if zero else 'if_neg'))
            if a['flags']:
                if zero: o.append('    have hzf : d\'.z = true := by rw [ez, hcv]; exact decide_eq_true (hz0.2 h1)')
                else: o.append('    have hzf : d\'.z = false := by rw [ez, hcv]; exact decide_eq_false (fun e => h1 (hz0.1 e))')
            else:
                if zero: o.append('    have hzr : d\'.r.get .x%d = 0 := by show d\'.r.x%d = 0; rw [hcv]; exact hz0.2 h1' % (cnt, cnt))
                else: o.append('    have hzr : ¬ d\'.r.get .x%d = 0 := by show ¬ d\'.r.x%d = 0; rw [hcv]; exact fun e => h1 (hz0.1 e)' % (cnt, cnt))
            for (pc, m, taken) in path:
                o.append('    rw [run_succ, %s _ _ _ %s fetch_%d]' % (STEP[m[0]], '_ _' if m[0] in ('bnz', 'bz') else ('_' if m[0] != 'b' else '_'), pc))
                if m[0] in ('bnz', 'bz'):
                    o.append('    rw [%s hzr]' % ('if_pos' if zero else 'if_neg'))
                elif m[0] in ('bne', 'beq'):
                    o.append('    simp only [hzf, ↓reduceIte, Bool.false_eq_true]')
                if taken: o.append('    rw [lab_%d]' % m[-1])
            o.append('    rfl')
        o.append('')
    # the loop
    o.append('theorem loop (d1 : D) (m : Nat) (hm : 1 ≤ m) (j : Nat) (hj : j < %d) (d : D) (s : S4) (hi : Inv d1 d s m) :' % n)
    o.append('    ∃ k d\', run prog k ⟨d, pcs j, false⟩ = ⟨d\', %d, false⟩ ∧ Inv d1 d\' (permBV %d (key d1) j m s) 0 := by' % (a['exit'], nk))
    o.append('  have := loop_correct prog %d %d (by decide) (by decide) (key d1) pcs %d (fun _ d s m => Inv d1 d s m)' % (nk, n, a['exit']))
    o.append('    (by')
    o.append('      intro j hj d s m hi hm')
    o.append('      match j, hj with')
    for j in range(n): o.append('      | %d, _ => exact H%d d1 d s m hi hm' % (j, j))
    o.append('    ) m hm j hj d s hi')
    o.append('  obtain ⟨k, d\', _, h1, _, h2⟩ := this')
    o.append('  exact ⟨k, d\', h1, h2⟩\n')
    # prologue facts
    o.append('/-! prologue: what the registers hold when the loop is entered -/')
    for q in range(4):
        o.append('theorem pre_s%d (d0 : D) : (pre.foldl execD d0).r.x%d = d0.mem (d0.r.x%d + %s) := by' % (q, S[q], a0, lit32(4 * q)))
        o.append('  simp only [pre, %s]' % UNFOLD)
    for k in range(nk):
        o.append('theorem pre_key%d (d0 : D) : key (pre.foldl execD d0) %d = d0.mem (d0.r.x%d + %s) := by' % (k, k, a0, lit32(16 + 4 * k)))
        o.append('  simp only [key, pre, %s]' % UNFOLD)
    o.append('theorem pre_cnt (d0 : D) : (pre.foldl execD d0).r.x%d = d0.r.x%d := fold_get_unwritten pre d0 .x%d (by decide +kernel)' % (cnt, cnt, cnt))
    o.append('theorem pre_mem (d0 : D) : (pre.foldl execD d0).mem = d0.mem := fold_mem_unchanged _ _ (by decide +kernel)\n')
    # epilogue facts
    o.append('/-! epilogue: the four state words are stored back, nothing else in memory changes -/')
    o.append('theorem post_mem (d : D) (x : BitVec 32) : (post.foldl execD d).mem x =')
    o.append('    if x = d.r.x%d + %s then d.r.x%d else if x = d.r.x%d + %s then d.r.x%d else' % (a0, lit32(0), S[0], a0, lit32(4), S[1]))
    o.append('    if x = d.r.x%d + %s then d.r.x%d else if x = d.r.x%d + %s then d.r.x%d else d.mem x := by' % (a0, lit32(8), S[2], a0, lit32(12), S[3]))
    o.append('  simp only [post, %s, upd_apply]' % UNFOLD)
    o.append('  first | done | bv_decide | rfl\n')
    o.append('theorem post_mem_eval (d : D) :')
    o.append('    (post.foldl execD d).mem (d.r.x%d + %s) = d.r.x%d ∧ (post.foldl execD d).mem (d.r.x%d + %s) = d.r.x%d ∧' % (a0, lit32(0), S[0], a0, lit32(4), S[1]))
    o.append('    (post.foldl execD d).mem (d.r.x%d + %s) = d.r.x%d ∧ (post.foldl execD d).mem (d.r.x%d + %s) = d.r.x%d ∧' % (a0, lit32(8), S[2], a0, lit32(12), S[3]))
    o.append('    (∀ x, x ≠ d.r.x%d + %s → x ≠ d.r.x%d + %s → x ≠ d.r.x%d + %s → x ≠ d.r.x%d + %s → (post.foldl execD d).mem x = d.mem x) := by' % (a0, lit32(0), a0, lit32(4), a0, lit32(8), a0, lit32(12)))
    o.append('  refine ⟨?_, ?_, ?_, ?_, ?_⟩')
    o.append('  · rw [post_mem]; bv_decide')
    o.append('  · rw [post_mem]; bv_decide')
    o.append('  · rw [post_mem]; bv_decide')
    o.append('  · rw [post_mem]; bv_decide')
    o.append('  · intro x h0 h1 h2 h3; rw [post_mem, if_neg h0, if_neg h1, if_neg h2, if_neg h3]\n')
    # callee-saved
    cs_lemmas = []
    cs_pairs = [(r, r) for r in t['cs']]
    if t['ns'] == 'Arm':
        # the return address: `pop {…, pc}` must load the caller's lr, `bx lr` needs lr preserved
        cs_pairs.append((15, 14) if any(m[0] == 'ldr' and m[1] == 15 for m in mi[a['post'][0]:a['post'][1]]) else (14, 14))
    for (r, r0) in cs_pairs:
        o.append('theorem cs_x%d (d0 dE : D) (hstk : dE.stk = (pre.foldl execD d0).stk)' % r)
        o.append('    (hfr : ∀ r : Reg, (%s).all (fun i => decide (i.writes ≠ some r)) = true → dE.r.get r = (pre.foldl execD d0).r.get r) :' % ' ++ '.join('seg%d' % j for j in range(n)))
        o.append('    (post.foldl execD dE).r.x%d = d0.r.x%d := by' % (r, r0))
        hyps = []
        for q in sorted(set([sp, r])):
            if q in a['loopw']: continue    # saved on the stack by the prologue and restored by the epilogue
            o.append('  have h%d : dE.r.x%d = (pre.foldl execD d0).r.x%d := hfr .x%d (by decide +kernel)' % (q, q, q, q)); hyps.append('h%d' % q)
        o.append('  simp only [post, pre, %s] at *' % UNFOLD)
        o.append('  simp only [hstk, %s, upd_apply]' % ', '.join(hyps))
        o.append('  first | done | bv_decide | rfl')
        cs_lemmas.append(r)
    o.append('')
    # main theorem
    o.append('/-- %s: for every machine state, every round count 1 ≤ r < 2^32 in the second argument register:' % name)
    o.append('    the call returns; the four state words at the pointer in the first argument register become')
    o.append('    `permBV` of the old ones under the key words stored after them; no other memory word changes;')
    o.append('    callee-saved registers (stack pointer included) are restored. -/')
    o.append('theorem correct (d0 : D) (r : Nat) (hr1 : 1 ≤ r) (hr2 : r < 2 ^ 32) (harg : d0.r.x%d = BitVec.ofNat 32 r) :' % t['a1'])
    o.append('    ∃ fuel dF, run prog fuel ⟨d0, 0, false⟩ = ⟨dF, %d, true⟩ ∧' % a['ret'])
    o.append('      (let p := d0.r.x%d' % a0)
    o.append('       let out := permBV %d (fun k => d0.mem (p + BitVec.ofNat 32 (16 + 4 * k))) 0 r ⟨d0.mem (p + %s), d0.mem (p + %s), d0.mem (p + %s), d0.mem (p + %s)⟩' % (nk, lit32(0), lit32(4), lit32(8), lit32(12)))
    o.append('       dF.mem (p + %s) = out.a ∧ dF.mem (p + %s) = out.b ∧ dF.mem (p + %s) = out.c ∧ dF.mem (p + %s) = out.d ∧' % (lit32(0), lit32(4), lit32(8), lit32(12)))
    o.append('       (∀ x, x ≠ p + %s → x ≠ p + %s → x ≠ p + %s → x ≠ p + %s → dF.mem x = d0.mem x)) ∧' % (lit32(0), lit32(4), lit32(8), lit32(12)))
    o.append('      ' + (' ∧ '.join('dF.r.x%d = d0.r.x%d' % (r, r0) for (r, r0) in cs_pairs) if cs_pairs else 'True') + ' := by')
    o.append('  obtain ⟨d1, hd1⟩ : ∃ d1, d1 = pre.foldl execD d0 := ⟨_, rfl⟩')
    for q in range(4):
        o.append('  have ps%d : d1.r.x%d = d0.mem (d0.r.x%d + %s) := by rw [hd1]; exact pre_s%d d0' % (q, S[q], a0, lit32(4 * q), q))
    o.append('  have hkey : ∀ k, k < %d → key d1 k = d0.mem (d0.r.x%d + BitVec.ofNat 32 (16 + 4 * k)) := by' % (nk, a0))
    o.append('    intro k hk')
    o.append('    rw [hd1]')
    o.append('    match k, hk with')
    for k in range(nk): o.append('    | %d, _ => exact pre_key%d d0' % (k, k))
    o.append('  have pcnt : d1.r.x%d = d0.r.x%d := by rw [hd1]; exact pre_cnt d0' % (cnt, cnt))
    o.append('  have pmem : d1.mem = d0.mem := by rw [hd1]; exact pre_mem d0')
    o.append('  have pa0 : d1.r.x%d = d0.r.x%d := by rw [hd1]; exact fold_get_unwritten pre d0 .x%d (by decide +kernel)' % (a0, a0, a0))
    o.append('  have hrun0 : run prog pre.length ⟨d0, 0, false⟩ = ⟨d1, pcs 0, false⟩ := by')
    o.append('    rw [hd1, run_slice prog pre d0 0 pre_slice pre_noctl]; rfl')
    o.append('  have hinv : Inv d1 d1 ⟨d1.r.x%d, d1.r.x%d, d1.r.x%d, d1.r.x%d⟩ r :=' % tuple(S))
    o.append('    { sa := rfl, sb := rfl, sc := rfl, sd := rfl, cnt := by rw [pcnt, harg], lt := hr2, mem := rfl, stk := rfl,')
    o.append('      ' + ', '.join('f%d := rfl' % r for r in frame) + ' }')
    o.append('  obtain ⟨k, dE, hrun, hE⟩ := loop d1 r hr1 0 (by decide) d1 _ hinv')
    o.append('  have hrunP : run prog (post.length + 1) ⟨dE, %d, false⟩ = ⟨post.foldl execD dE, %d, true⟩ := by' % (a['exit'], a['ret']))
    o.append('    rw [run_slice_then prog post dE %d post_slice post_noctl, step_ret _ _ _ (by decide +kernel)]; try rfl' % a['exit'])
    o.append('  refine ⟨pre.length + (k + (post.length + 1)), post.foldl execD dE, ?_, ?_, ?_⟩')
    o.append('  · rw [run_add, hrun0, run_add, hrun, hrunP]')
    S0, S1, S2, S3 = S
    allsegs = ' ++ '.join('seg%d' % j for j in range(n))
    o.append('  · have ha0 : dE.r.x%d = d0.r.x%d := by rw [hE.f%d, pa0]' % (a0, a0, a0))
    o.append('    have hperm : permBV %d (key d1) 0 r ⟨d1.r.x%d, d1.r.x%d, d1.r.x%d, d1.r.x%d⟩ =' % (nk, S0, S1, S2, S3))
    o.append('        permBV %d (fun k => d0.mem (d0.r.x%d + BitVec.ofNat 32 (16 + 4 * k))) 0 r ⟨d0.mem (d0.r.x%d + %s), d0.mem (d0.r.x%d + %s), d0.mem (d0.r.x%d + %s), d0.mem (d0.r.x%d + %s)⟩ := by' % (nk, a0, a0, lit32(0), a0, lit32(4), a0, lit32(8), a0, lit32(12)))
    o.append('      rw [permBV_congr %d (by decide) _ _ hkey, ps0, ps1, ps2, ps3]' % nk)
    o.append('    obtain ⟨m0, m1, m2, m3, mo⟩ := post_mem_eval dE')
    o.append('    simp only [ha0] at m0 m1 m2 m3 mo')
    o.append('    refine ⟨by rw [m0, hE.sa, hperm], by rw [m1, hE.sb, hperm], by rw [m2, hE.sc, hperm], by rw [m3, hE.sd, hperm], ?_⟩')
    o.append('    intro x h0 h1 h2 h3')
    o.append('    rw [mo x h0 h1 h2 h3, hE.mem, pmem]')
    o.append('  · have hstk : dE.stk = (pre.foldl execD d0).stk := by rw [← hd1]; exact hE.stk')
    o.append('    have hfr : ∀ r : Reg, (%s).all (fun i => decide (i.writes ≠ some r)) = true → dE.r.get r = (pre.foldl execD d0).r.get r := by' % allsegs)
    o.append('      intro r hr')
    o.append('      rw [← hd1]')
    o.append('      cases r with')
    for r in range(32):
        if r in frame: o.append('      | x%d => exact hE.f%d' % (r, r))
        else: o.append('      | x%d => exact absurd hr (by decide +kernel)' % r)
    o.append(('    exact ⟨' + ', '.join('cs_x%d d0 dE hstk hfr' % r for (r, r0) in cs_pairs) + '⟩') if len(cs_pairs) > 1 else ('    exact cs_x%d d0 dE hstk hfr' % cs_pairs[0][0] if cs_pairs else '    trivial'))
    o.append('\nend TJ.Gen.Asm.%s' % name)
    return name, '\n'.join(o) + '\n', a

if __name__ == '__main__':
    t = translate(sys.argv[1], int(sys.argv[2]))
    name, text, a = emit(t)
    os.makedirs(GEN, exist_ok=True)
    open(os.path.join(GEN, name + '.lean'), 'w').write(text)
    print(name, 'segments', a['segs'], 'state', a['state'], 'cnt', a['cnt'], 'keys', a['keysrc'])
