#!/usr/bin/env python3
"""seedtest.py confirm <out-dir> <worktree>   : confirm a seeded change (tests pass with it, demo fails with it, demo passes without)
   seedtest.py run <seeded-dir> [ids...]     : apply seeded/<id>/patch.diff to /repo, run the given checks (default: the property it targets), undo
Results are appended to seeded/<id>/meta.json under 'verif_runs'."""
import sys, os, json, subprocess, shutil, glob, time
VERIF = os.path.dirname(os.path.dirname(os.path.abspath(__file__)))

def sh(cmd, cwd=None, timeout=1800):
    r = subprocess.run(cmd, shell=True, cwd=cwd, stdout=subprocess.PIPE, stderr=subprocess.STDOUT, text=True, timeout=timeout)
    return r.returncode, r.stdout

def demo_cmd(out, wt, bd, exe):
    if os.path.exists(os.path.join(out, 'demo.sh')):
        return 'ROOT=%s BUILD=%s sh %s/demo.sh %s %s' % (wt, bd, out, wt, bd), True
    src = ' '.join(glob.glob(wt + '/src/*.c') + glob.glob(wt + '/src/backend/*.c') + [wt + '/src/random/tinyjambu-trng-dev-random.c'])
    return 'gcc -O1 -I%s/src -I%s -DHAVE_CONFIG_H %s/demo.c %s -lpthread -o %s && %s' % (wt, bd, out, src, exe, exe), False

def confirm(out, wt):
    res = {}
    bd = wt + '/_b'
    sh('git checkout -- . && rm -rf _b', wt)
    rc, o = sh('git apply %s/patch.diff' % out, wt); res['patch_applies'] = rc == 0
    rc, o = sh('cmake -G Ninja -S %s -B %s >/dev/null && cmake --build %s >/dev/null 2>&1 && ctest --test-dir %s -j8 2>&1 | tail -3' % (wt, bd, bd, bd))
    res['tests_pass_with_change'] = rc == 0 and '100% tests passed' in o
    cmd, _ = demo_cmd(out, wt, bd, '/tmp/mut/demo_mut')
    rc, o = sh(cmd); res['demo_fails_with_change'] = rc != 0; res['demo_output_with_change'] = o[-400:]
    sh('git checkout -- .', wt)
    rc, o = sh('cmake --build %s >/dev/null 2>&1' % bd)
    cmd, _ = demo_cmd(out, wt, bd, '/tmp/mut/demo_clean')
    rc, o = sh(cmd); res['demo_passes_without_change'] = rc == 0
    sh('git checkout -- . && rm -rf _b', wt)
    return res

def run(seed_dir, ids):
    seed_dir = os.path.abspath(seed_dir)
    meta_p = os.path.join(seed_dir, 'meta.json'); meta = json.load(open(meta_p))
    ids = ids or [meta['property']]
    rc, o = sh('git -C /repo status --porcelain --untracked-files=no')
    if o.strip(): print('/repo not clean:', o); sys.exit(2)
    rc, o = sh('git -C /repo apply %s/patch.diff' % seed_dir)
    if rc != 0: print('patch does not apply', o); sys.exit(2)
    runs = meta.setdefault('verif_runs', {})
    try:
        for pid in ids:
            t = time.time()
            rc, o = sh('python3 check.py %s --tier quick' % pid, VERIF)
            viol = [l for l in o.split('\n') if l.startswith('VIOLATION')]
            runs[pid] = {'exit': rc, 'violations': [v[:200] for v in viol[:3]], 'wall_s': round(time.time() - t, 1)}
            note = ''
            if viol:
                try:
                    rp = viol[0].split('replay=')[1].split()[0]; r = json.load(open(rp)); note = (r.get('check', '') + ': ' + str(r.get('note', ''))[:100])
                except Exception: pass
            print('%s on %s: exit=%d %s %s' % (pid, os.path.basename(seed_dir), rc, 'DETECTED' if rc == 1 else ('MISSED' if rc == 0 else 'ERROR'), note))
            if rc not in (0, 1): print(o[-1500:])
    finally:
        sh('git -C /repo checkout -- .')
        shutil.rmtree(os.path.join(VERIF, 'replays'), ignore_errors=True)
        sh('git -C %s checkout -- evidence lean/TJ/Gen' % VERIF)
    json.dump(meta, open(meta_p, 'w'), indent=1)

def store(out, wt, pid, k):
    res = confirm(out, wt)
    ok = all(res[x] for x in ['patch_applies', 'tests_pass_with_change', 'demo_fails_with_change', 'demo_passes_without_change'])
    if not ok: print(pid, k, 'NOT confirmed', res); return
    d = os.path.join(VERIF, 'seeded', '%s-m%s' % (pid, k)); os.makedirs(d, exist_ok=True)
    shutil.copy(out + '/patch.diff', d)
    for f in glob.glob(out + '/*'):
        if os.path.isfile(f) and os.path.basename(f) not in ('patch.diff', 'meta.json') and os.path.getsize(f) < 200000 and not os.access(f, os.X_OK): shutil.copy(f, d)
    m = json.load(open(out + '/meta.json')); m['property'] = pid
    m['confirmed'] = {'by': 'tools/seedtest.py confirm (scratch worktree, repo ctest + demo with and without the change)', **res}
    json.dump(m, open(d + '/meta.json', 'w'), indent=1)
    print(pid, 'm%s' % k, 'stored')

if __name__ == '__main__':
    if sys.argv[1] == 'confirm':
        print(json.dumps(confirm(sys.argv[2], sys.argv[3]), indent=1))
    elif sys.argv[1] == 'store':
        store(sys.argv[2], sys.argv[3], sys.argv[4], sys.argv[5])
    else:
        run(sys.argv[2], sys.argv[3:])

