#!/usr/bin/env python3
"""C05: every permutation back end.  Regenerates lean/TJ/Gen/Asm from /repo's assembly files, rebuilds the
per-program theorems, audits their axioms; checks that the generated .S files are byte-identical to the
bundled generators' output and that back-end selection is unique per target; on a broken proof searches
for a concrete (program, state, key, rounds) on which the program differs from the specification."""
import os, sys, subprocess, tempfile, shutil, hashlib, json, random
from tjlib import *
import asm2lean
import avr2lean

CONFIG_ORDER = ['rv32i', 'rv32e', 'rv64i', 'armv6', 'armv6m', 'armv7m', 'xtensa_w', 'xtensa_c0']
NOT_PROVED = {}
MASK = 0xFFFFFFFF

# ------------------------------------------------------------------ reference permutation (word level, = TJ.Impl.permC, proved = Spec)
def steps32(s0, s1, s2, s3, kw):
    t1 = (s1 >> 15) | (s2 << 17); t2 = (s2 >> 6) | (s3 << 26); t3 = (s2 >> 21) | (s3 << 11); t4 = (s2 >> 27) | (s3 << 5)
    return (s0 ^ t1 ^ (t2 & t3) ^ t4 ^ kw) & MASK

def perm_ref(nk, key, s, rounds):
    s = list(s)
    for i in range(rounds):
        for q in range(4):
            s[q] = steps32(s[q], s[(q + 1) % 4], s[(q + 2) % 4], s[(q + 3) % 4], key[(4 * i + q) % nk])
    return s

# ------------------------------------------------------------------ micro-op interpreter (mirrors TJ.Asm.Machine.execD / step)
def run_micro(mi, regs, mem, stk, fuel=10 ** 7):
    lab = {m[1]: i for i, m in enumerate(mi) if m[0] == 'label'}
    pc = 0; z = False; sar = 0
    def op2(o):
        if o[0] == 'reg': return regs[o[1]]
        if o[0] == 'imm': return o[1] & MASK
        if o[0] == 'lsl': return (regs[o[1]] << o[2]) & MASK
        return regs[o[1]] >> o[2]
    while fuel > 0:
        fuel -= 1
        m = mi[pc]; k = m[0]
        if k == 'alu':
            _, op, sf, rd, rn, o = m; a = regs[rn]; b = op2(o)
            v = {'xor': a ^ b, 'and': a & b, 'or': a | b, 'add': a + b, 'sub': a - b, 'mov': b, 'mvn': ~b}[op] & MASK
            regs[rd] = v
            if sf: z = v == 0
        elif k == 'ldr':
            sp_ = mem if m[4] == 'mem' else stk; regs[m[1]] = sp_.get((regs[m[2]] + m[3]) & MASK, 0)
        elif k == 'str':
            sp_ = mem if m[4] == 'mem' else stk; sp_[(regs[m[2]] + m[3]) & MASK] = regs[m[1]]
        elif k == 'ssai': sar = m[1]
        elif k == 'src': regs[m[1]] = (((regs[m[2]] << 32) | regs[m[3]]) >> sar) & MASK
        elif k == 'bnz':
            if regs[m[1]] != 0: pc = lab[m[2]]; continue
        elif k == 'bz':
            if regs[m[1]] == 0: pc = lab[m[2]]; continue
        elif k == 'bne':
            if not z: pc = lab[m[1]]; continue
        elif k == 'beq':
            if z: pc = lab[m[1]]; continue
        elif k == 'b': pc = lab[m[1]]; continue
        elif k == 'ret': return True
        pc += 1
    return False

def search_counterexample(t, rng, tries=400):
    """random states/keys/round counts through the micro-op interpreter vs the reference permutation"""
    nk = asm2lean.NK[t['bits']]; mi = t['micro']; a0 = t['a0']; a1 = t['a1']; sp = t['sp']
    for n in range(tries):
        rounds = rng.choice(list(range(1, 25)) + [5, 8, 9, 10, 20])
        st = [rng.getrandbits(32) for _ in range(4)]; key = [rng.getrandbits(32) for _ in range(nk)]
        regs = [rng.getrandbits(32) for _ in range(32)]
        p = 0x10000; regs[a0] = p; regs[a1] = rounds; regs[sp] = 0x80000
        mem = {p + 4 * i: st[i] for i in range(4)}; mem.update({p + 16 + 4 * i: key[i] for i in range(nk)})
        mem0 = dict(mem); regs0 = list(regs); stk = {}
        try:
            ok = run_micro(mi, regs, mem, stk)
        except Exception as e:
            return {'rounds': rounds, 'state': st, 'key': key, 'error': 'interpreter: %r' % e}
        want = perm_ref(nk, key, st, rounds)
        got = [mem.get(p + 4 * i) for i in range(4)]
        if not ok or got != want:
            return {'rounds': rounds, 'state': ['%08x' % x for x in st], 'key_preinverted': ['%08x' % x for x in key], 'got': ['%08x' % (x or 0) for x in got],
                    'expected': ['%08x' % x for x in want], 'returned': ok}
        for adr in mem:
            if adr not in (p, p + 4, p + 8, p + 12) and mem[adr] != mem0.get(adr):
                return {'rounds': rounds, 'state': ['%08x' % x for x in st], 'memory_clobbered_at': hex(adr)}
        for r in t['cs']:
            if regs[r] != regs0[r]:
                return {'rounds': rounds, 'callee_saved_register_clobbered': 'x%d' % r, 'before': '%08x' % regs0[r], 'after': '%08x' % regs[r]}
    return None

# ------------------------------------------------------------------ AVR5: interpreter (mirrors TJ.Asm.Avr.execD / step) and search
def run_avr(mi, regs, mem, stk, fuel=10 ** 7):
    lab = {m[1]: i for i, m in enumerate(mi) if m[0] == 'label'}
    pc = 0; c = False; z = False
    def zp(): return ((regs[31] << 8) | regs[30]) & 0xFFFF
    while fuel > 0:
        fuel -= 1
        m = mi[pc]; k = m[0]
        if k == 'mov': regs[m[1]] = regs[m[2]]
        elif k == 'movw': regs[m[1]] = regs[m[2]]; regs[(m[1] + 1) % 32] = regs[(m[2] + 1) % 32]
        elif k == 'eor': regs[m[1]] ^= regs[m[2]]; z = regs[m[1]] == 0
        elif k == 'and': regs[m[1]] &= regs[m[2]]; z = regs[m[1]] == 0
        elif k == 'lsl': v = regs[m[1]]; c = bool(v & 0x80); regs[m[1]] = (v << 1) & 0xFF; z = regs[m[1]] == 0
        elif k == 'lsr': v = regs[m[1]]; c = bool(v & 1); regs[m[1]] = v >> 1; z = regs[m[1]] == 0
        elif k == 'rol': v = regs[m[1]]; nc = bool(v & 0x80); regs[m[1]] = ((v << 1) & 0xFF) | (1 if c else 0); c = nc; z = regs[m[1]] == 0
        elif k == 'ror': v = regs[m[1]]; nc = bool(v & 1); regs[m[1]] = (v >> 1) | (0x80 if c else 0); c = nc; z = regs[m[1]] == 0
        elif k == 'dec': regs[m[1]] = (regs[m[1]] - 1) & 0xFF; z = regs[m[1]] == 0
        elif k == 'ldz': regs[m[1]] = mem.get((zp() + m[2]) & 0xFFFF, 0)
        elif k == 'stz': mem[(zp() + m[1]) & 0xFFFF] = regs[m[2]]
        elif k == 'push': stk.append(regs[m[1]])
        elif k == 'pop': regs[m[1]] = stk.pop() if stk else 0
        elif k == 'breq':
            if z: pc = lab[m[1]]; continue
        elif k == 'brne':
            if not z: pc = lab[m[1]]; continue
        elif k == 'rjmp': pc = lab[m[1]]; continue
        elif k == 'ret': return True
        pc += 1
    return False

def search_counterexample_avr(t, rng, tries=400):
    """random states/keys/round counts through the AVR interpreter vs the reference permutation"""
    nk = avr2lean.NK[t['bits']]; mi = t['micro']
    for n in range(tries):
        rounds = rng.choice(list(range(1, 25)) + [5, 8, 9, 10, 20, 255, 256])
        st = [rng.getrandbits(32) for _ in range(4)]; key = [rng.getrandbits(32) for _ in range(nk)]
        regs = [rng.getrandbits(8) for _ in range(32)]
        p = 0x0200; regs[24] = p & 0xFF; regs[25] = p >> 8; regs[22] = rounds & 0xFF
        mem = {}
        for i, w in enumerate(st + key):
            for b in range(4): mem[p + 4 * i + b] = (w >> (8 * b)) & 0xFF
        mem0 = dict(mem); regs0 = list(regs); stk = [rng.getrandbits(8) for _ in range(4)]; stk0 = list(stk)
        try:
            ok = run_avr(mi, regs, mem, stk)
        except Exception as e:
            return {'rounds': rounds, 'state': st, 'key': key, 'error': 'interpreter: %r' % e}
        want = perm_ref(nk, key, st, rounds)
        got = [sum(mem.get(p + 4 * i + b, 0) << (8 * b) for b in range(4)) for i in range(4)]
        if not ok or got != want:
            return {'rounds': rounds, 'state': ['%08x' % x for x in st], 'key_preinverted': ['%08x' % x for x in key], 'got': ['%08x' % x for x in got],
                    'expected': ['%08x' % x for x in want], 'returned': ok}
        for adr in mem:
            if not (p <= adr < p + 16) and mem[adr] != mem0.get(adr): return {'rounds': rounds, 'memory_clobbered_at': hex(adr)}
        if stk != stk0: return {'rounds': rounds, 'stack_not_restored': True}
        for r in list(range(2, 18)) + [28, 29]:
            if regs[r] != regs0[r]: return {'rounds': rounds, 'callee_saved_register_clobbered': 'r%d' % r, 'before': '%02x' % regs0[r], 'after': '%02x' % regs[r]}
    return None

# ------------------------------------------------------------------ generators and selection
GENERATORS = [
    ('genriscv', 'tinyjambu_riscv32e', 'riscv32e'), ('genriscv', 'tinyjambu_riscv32i', 'riscv32i'), ('genriscv', 'tinyjambu_riscv64i', 'riscv64i'),
    ('genarm', 'tinyjambu_armv6', 'armv6'), ('genarm', 'tinyjambu_armv6m', 'armv6m'), ('genarm', 'tinyjambu_armv7m', 'armv7m'),
    ('genxtensa', 'tinyjambu_xtensa', 'xtensa'),
]

def generator_check(ctx):
    """build the bundled generators from the working tree in scratch and compare their output with the checked-in files"""
    scratch = tempfile.mkdtemp(prefix='tjgen-', dir='/var/tmp')
    res = {'identical': [], 'different': [], 'errors': []}
    try:
        shutil.copytree(os.path.join(REPO, 'tools'), os.path.join(scratch, 'tools'))
        for d in sorted(set(g[0] for g in GENERATORS)):
            r = subprocess.run(['make', '-s', 'all'], cwd=os.path.join(scratch, 'tools', d), capture_output=True, text=True)
            if r.returncode != 0: res['errors'].append('%s: make failed: %s' % (d, r.stderr[-300:]))
        for d, exe, tag in GENERATORS:
            p = os.path.join(scratch, 'tools', d, 'bin', exe)
            if not os.path.exists(p): res['errors'].append('%s: generator binary missing' % exe); continue
            for bits in (128, 192, 256):
                out = subprocess.run([p, str(bits)], capture_output=True).stdout
                f = os.path.join(REPO, 'src', 'backend', 'tinyjambu-%d-asm-%s.S' % (bits, tag))
                cur = open(f, 'rb').read()
                (res['identical'] if out == cur else res['different']).append(os.path.basename(f))
    finally:
        shutil.rmtree(scratch, ignore_errors=True)
    return res

TARGETS = {
    'avr5': ['__AVR__', '__AVR_ARCH__=5'], 'armv8m': ['__ARM_ARCH_ISA_THUMB=2', '__ARM_ARCH=8', '__ARM_ARCH_8M__'],
    'armv7m': ['__ARM_ARCH_ISA_THUMB=2', '__ARM_ARCH=7'], 'armv6m': ['__ARM_ARCH_ISA_THUMB=1', '__ARM_ARCH=6', '__ARM_ARCH_6M__'],
    'armv6': ['__ARM_ARCH=6'], 'rv64': ['__riscv', '__riscv_xlen=64'], 'rv32e': ['__riscv', '__riscv_xlen=32', '__riscv_32e'],
    'rv32i': ['__riscv', '__riscv_xlen=32'], 'xtensa': ['__XTENSA__'], 'x86_64': ['__x86_64__'], 'forced-c32': ['__riscv', '__riscv_xlen=32', 'TINYJAMBU_FORCE_C32'],
}

def selection_check(ctx):
    """for every documented target macro set exactly one translation unit defines each permutation:
    tinyjambu-backend-select.h is preprocessed under the target's macros to see which TINYJAMBU_BACKEND_* it defines,
    and every back-end file is guarded by exactly one of those macros"""
    bad = []; table = {}
    bdir = os.path.join(REPO, 'src', 'backend')
    files = sorted(f for f in os.listdir(bdir) if (f.endswith('.S') and '-asm-' in f) or f.endswith('-c32.c'))
    guard = {}
    for f in files:
        m = re.search(r'^#if defined\((TINYJAMBU_BACKEND_\w+)\)', open(os.path.join(bdir, f)).read(), re.M)
        if not m: bad.append('%s: no back-end guard found' % f); continue
        guard[f] = m.group(1)
    macros = sorted(set(guard.values()))
    probe = '#include "tinyjambu-backend-select.h"\n' + ''.join('#ifdef %s\nSEL sel_%s\n#endif\n' % (m, m.replace('TINYJAMBU_BACKEND_', '')) for m in macros)
    for tgt, defs in TARGETS.items():
        r = subprocess.run(['cpp', '-P', '-undef', '-nostdinc', '-I', bdir] + ['-D%s' % d for d in defs] + ['-'], input=probe, capture_output=True, text=True)
        sel = ['TINYJAMBU_BACKEND_' + x for x in re.findall(r'SEL sel_(\w+)', r.stdout)]
        if len(sel) != 1: bad.append('%s: select.h defines %s' % (tgt, sel))
        for bits in (128, 192, 256):
            defining = [f for f in files if f.startswith('tinyjambu-%d-' % bits) and guard.get(f) in sel]
            table['%s/%d' % (tgt, bits)] = defining
            if len(defining) != 1: bad.append('%s/%d: %s' % (tgt, bits, defining))
    return table, bad

# ------------------------------------------------------------------ the check
def regenerate():
    """(re)write lean/TJ/Gen/Asm/*.lean and lean/TJ/Gen/AsmAll.lean; returns dict name -> translation or error string"""
    os.makedirs(asm2lean.GEN, exist_ok=True)
    out = {}; names = []
    for cfg in CONFIG_ORDER:
        for bits in (128, 192, 256):
            name = '%s_%d' % (cfg, bits)
            try:
                t = asm2lean.translate(cfg, bits)
                nm, text, a = asm2lean.emit(t)
                path = os.path.join(asm2lean.GEN, nm + '.lean')
                if not os.path.exists(path) or open(path).read() != text:
                    open(path, 'w').write(text)
                out[name] = t; names.append(name)
            except asm2lean.TranslateError as e:
                out[name] = 'translation failed: %s' % e
                path = os.path.join(asm2lean.GEN, name + '.lean')
                if os.path.exists(path): os.unlink(path)
    for bits in (128, 192, 256):
        name = 'avr5_%d' % bits
        try:
            t = avr2lean.translate(bits); t['avr'] = True
            avr2lean.emit(t)
            out[name] = t; names.append(name)
        except avr2lean.TranslateError as e:
            out[name] = 'translation failed: %s' % e
            path = os.path.join(asm2lean.GEN, name + '.lean')
            if os.path.exists(path): os.unlink(path)
    root = ''.join('import TJ.Gen.Asm.%s\n' % n for n in names)
    rp = os.path.join(LEAN, 'TJ', 'Gen', 'AsmAll.lean')
    if not os.path.exists(rp) or open(rp).read() != root: open(rp, 'w').write(root)
    return out

def check(ctx):
    lock = open(os.path.join(LEAN, '.gen.lock'), 'w'); fcntl.flock(lock, fcntl.LOCK_EX)
    try:
        progs = regenerate()
        names = [n for n, t in progs.items() if not isinstance(t, str)]
        r = subprocess.run(['lake', 'build'] + ['TJ.Gen.Asm.%s' % n for n in names], cwd=LEAN, stdout=subprocess.PIPE, stderr=subprocess.STDOUT, text=True)
        built = {n: os.path.exists(os.path.join(LEAN, '.lake', 'build', 'lib', 'lean', 'TJ', 'Gen', 'Asm', n + '.olean')) and ('TJ.Gen.Asm.%s\n' % n) not in
                 ''.join(l + '\n' for l in re.findall(r'^- (\S+)', r.stdout, re.M)) for n in names}
        axs = {}
        ok_names = [n for n in names if built[n]]
        if ok_names:
            axs, _ = axioms_audit(['TJ.Gen.Asm.%s' % n for n in ok_names], ['TJ.Gen.Asm.%s.correct' % n for n in ok_names])
        # RV64I: the 64-bit lifting of the data path (TJ.Asm.RV64Lift.data_block) and its applicability to the regenerated programs (TJ.Asm.RV64Programs)
        rv_thms = ['TJ.Asm.RV64.data_step', 'TJ.Asm.RV64.data_block', 'TJ.Asm.RV64.data_block_low', 'TJ.Asm.RV64.sub_block_lifts', 'TJ.Asm.RV64.counter_lift'] + \
                  ['TJ.Asm.RV64.rv64i_%s_%s' % (v, k) for v in ('128', '192', '256') for k in ('shape', 'data')]
        rv_axs = {}
        if all(built.get('rv64i_%s' % v) for v in ('128', '192', '256')):
            r2 = subprocess.run(['lake', 'build', 'TJ.Asm.RV64Programs'], cwd=LEAN, stdout=subprocess.PIPE, stderr=subprocess.STDOUT, text=True)
            if r2.returncode == 0: rv_axs, _ = axioms_audit(['TJ.Asm.RV64Programs'], rv_thms)
            rv_log = r2.stdout[-400:]
        else: rv_log = 'an rv64i program no longer builds'
    finally:
        fcntl.flock(lock, fcntl.LOCK_UN); lock.close()
    proved = []; failed = []
    bad = [t for t in rv_thms if not axioms_ok(rv_axs.get(t))]
    if bad: ctx.broken_proofs.append('RV64I lifting (TJ.Asm.RV64Lift / RV64Programs: the regenerated rv64i programs use only W-form shifts below 32, xor, and as data instructions, and every such block lifts from the 32-bit projection to sign-extended 64-bit registers) no longer checks: %s %s' % (', '.join(bad[:4]), re.sub(r'\s+', ' ', rv_log)[-300:]))
    else:
        for t in rv_thms: ctx.proof['axioms'][t] = rv_axs.get(t)
    rng = random.Random('%s/asm' % ctx.seed)
    for n, t in progs.items():
        if isinstance(t, str):
            failed.append(n); ctx.broken_proofs.append('%s: %s' % (n, t)); continue
        thm = 'TJ.Gen.Asm.%s.correct' % n
        if built.get(n) and axioms_ok(axs.get(thm)):
            proved.append(n); ctx.proof['axioms'][thm] = axs.get(thm)
        else:
            failed.append(n)
            cex = (search_counterexample_avr if t.get('avr') else search_counterexample)(t, rng, 2000)
            if cex is not None:
                ctx.fail('backend-differs-from-spec', ['asm.run %s' % n], json.dumps(cex), 'state words = specification permutation, frame and callee-saved registers preserved',
                         'program %s (%s) differs from the specification on this input; replayed on the micro-op interpreter of tools/backends.py '
                         '(mirror of TJ.Asm.Machine / TJ.Asm.Avr; no hardware or emulator for this ISA exists in the sandbox)' % (n, os.path.basename(t['path'])), variant='asm')
            else:
                ctx.broken_proofs.append('%s: theorem TJ.Gen.Asm.%s.correct no longer checks (%s)' % (n, n, 'axioms=%s' % axs.get(thm) if built.get(n) else 'build failed'))
    # every proved program also runs through the interpreter (validates the interpreter used for counterexample search)
    sanity = 0
    for n in proved[:]:
        if (search_counterexample_avr if progs[n].get('avr') else search_counterexample)(progs[n], rng, 20 if ctx.tier == 'quick' else 300) is not None:
            ctx.broken_proofs.append('%s: micro-op interpreter disagrees with a proved program (interpreter bug?)' % n)
        sanity += 1
    ctx.proof['obligations'] += len(progs); ctx.proof['discharged'] += len(proved)
    ctx.proof['theorems'] += ['TJ.Gen.Asm.%s.correct' % n for n in progs]
    ctx.proof['checker_cmd'] += '; tools/asm2lean.py + tools/avr2lean.py (regenerate) + lake build TJ.Gen.Asm.* + #print axioms'
    gen = generator_check(ctx)
    for f in gen['different'][:3]:
        ctx.fail('generated-file-differs', ['generator-diff %s' % f], 'checked-in file differs from generator output', 'byte-identical', 'the checked-in %s is not what the bundled generator emits' % f, variant='asm')
    if gen['errors']: ctx.broken_proofs.append('generator check: ' + '; '.join(gen['errors'][:3]))
    table, bad = selection_check(ctx)
    for b in bad[:3]:
        ctx.fail('backend-selection', ['selection %s' % b], b, 'exactly one back end per target and key size', 'back-end selection is not unique for this target', variant='asm')
    ctx.extra_cov['backends'] = {'proved': proved, 'failed': failed, 'not_proved': NOT_PROVED, 'c_backends': 'TJ.Props.C02.permutation_is_nlfsr (hand model of the 3 C files, tied by the perm stream)',
                                 'generator_identical': len(gen['identical']), 'generator_different': gen['different'], 'selection_targets': len(table), 'interpreter_sanity_runs': sanity}
    ctx.extra_cov['exhaustive'] = False
    ctx.assume += ['TJ.Asm.{RiscV,Arm,Xtensa,Avr}: this project\'s reading of the instruction semantics and calling conventions (not validated by execution: no emulator exists here)',
                   'memory idealisation of TJ.Asm.Machine (word-granular, stack disjoint from the state object)',
                   'RV64I back ends (rv64i_*) are proved on their 32-bit projection: the W-form shifts, lw/sw and bitwise operations act on the low words exactly as the RV32 forms (per-instruction lemmas in lean/TJ/Asm/RV64.lean); the lifting to whole executions, 64-bit address arithmetic and the 64-bit compare of the round counter (exact for counts below 2^31) are assumptions, not theorems',
                   'AVR5 back ends (avr5_*): 8-bit machine TJ.Asm.Avr (byte memory through Z + displacement, stack as a separate list); the round count is the low byte of the second argument (1..256, 256 = byte 0), which covers every count the library passes']
