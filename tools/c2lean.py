#!/usr/bin/env python3
"""c2lean.py — regenerates the MiniC model of /repo's C sources.

For every C file of the library (src/*.c, src/backend/*.c) clang-14 dumps the typed, macro-expanded AST
as JSON; every function defined in the library is translated to a TJ.MiniC.FunDecl term
(lean/TJ/MiniC/Syntax.lean).  Record layouts (offsetof / sizeof) are obtained by compiling and running a
generated C program against the same sources and config.h.

The translator fails loudly (TranslateError) on any construct outside the subset: the tie is then broken
for the properties that depend on the regenerated model (DESIGN.md section 4).

Output: lean/TJ/Gen/MiniC/Prog.lean  (def prog : Program, def funIndex, per-function defs)
        and a JSON side file with statistics (functions, nodes, unsupported)."""
import json, os, re, subprocess, sys, tempfile, hashlib, shutil, glob

TOOLS = os.path.dirname(os.path.abspath(__file__))
VERIF = os.path.dirname(TOOLS)
GEN = os.path.join(VERIF, 'lean', 'TJ', 'Gen', 'MiniC')

class TranslateError(Exception):
    pass

# ----------------------------------------------------------------------------- C types
INT_TYPES = {
    'unsigned char': 'u8', 'uint8_t': 'u8', '_Bool': 'u8',
    'unsigned short': 'u16', 'uint16_t': 'u16',
    'unsigned int': 'u32', 'uint32_t': 'u32', 'unsigned': 'u32',
    'unsigned long': 'u64', 'size_t': 'u64', 'uint64_t': 'u64', 'unsigned long long': 'u64', 'uintptr_t': 'u64',
    'int': 'i32', 'int32_t': 'i32',
    'long': 'i64', 'ssize_t': 'i64', 'long long': 'i64', 'int64_t': 'i64', 'ptrdiff_t': 'i64',
    'char': 'i8', 'signed char': 'i8', 'int8_t': 'i8',
    'short': 'i16', 'int16_t': 'i16',
}
TY_BYTES = {'u8': 1, 'u16': 2, 'u32': 4, 'u64': 8, 'i8': 1, 'i16': 2, 'i32': 4, 'i64': 8}

def strip_quals(t):
    t = re.sub(r'\b(const|volatile|restrict|__restrict)\b', '', t)
    return re.sub(r'\s+', ' ', t).strip()

class Types:
    """sizes and layouts; record information comes from the layout probe"""
    def __init__(self, layouts, typedefs):
        self.layouts = layouts      # record name -> {'size': n, 'fields': {name: (offset, size)}}
        self.typedefs = typedefs    # typedef name -> underlying type string

    def canon(self, t):
        t = strip_quals(t)
        seen = 0
        while t in self.typedefs and t not in INT_TYPES and t not in self.layouts and seen < 20:
            t = strip_quals(self.typedefs[t]); seen += 1
        return t

    def is_ptr(self, t):
        t = self.canon(t)
        return t.endswith('*') or '(*)' in t

    def is_array(self, t):
        return bool(re.search(r'\[\d*\]$', self.canon(t)))

    def elem(self, t):
        """element type of an array or pointee of a pointer"""
        t = self.canon(t)
        m = re.match(r'^(.*?)\s*\[(\d+)\]((?:\[\d+\])*)$', t)
        if m: return (m.group(1) + m.group(3)).strip()
        if '(*)' in t: raise TranslateError('pointee of function pointer: ' + t)
        if t.endswith('*'): return t[:-1].strip()
        raise TranslateError('not a pointer/array type: ' + t)

    def ity(self, t):
        """MiniC integer type of a scalar C type (pointers are u64)"""
        c = self.canon(t)
        if c in INT_TYPES: return INT_TYPES[c]
        if self.is_ptr(c): return 'u64'
        raise TranslateError('not a scalar type: %s (%s)' % (t, c))

    def is_scalar(self, t):
        c = self.canon(t)
        return c in INT_TYPES or self.is_ptr(c)

    def sizeof(self, t):
        c = self.canon(t)
        if c in INT_TYPES: return TY_BYTES[INT_TYPES[c]]
        if self.is_ptr(c): return 8
        m = re.match(r'^(.*?)\s*\[(\d+)\]((?:\[\d+\])*)$', c)
        if m: return int(m.group(2)) * self.sizeof((m.group(1) + m.group(3)).strip())
        if c == 'void': return 1
        r = self.record(c)
        return r['size']

    def record(self, t):
        c = self.canon(t)
        c = re.sub(r'^(struct|union)\s+', '', c)
        if c in self.layouts: return self.layouts[c]
        raise TranslateError('unknown record type: %s' % t)

# ----------------------------------------------------------------------------- clang
def clang_ast(path, incs, defs):
    cmd = ['clang-14', '-fsyntax-only', '-Xclang', '-ast-dump=json', '-Wno-everything'] + ['-I' + i for i in incs] + ['-D' + d for d in defs] + [path]
    r = subprocess.run(cmd, capture_output=True, text=True)
    if r.returncode != 0: raise TranslateError('clang failed on %s: %s' % (path, r.stderr[-400:]))
    return json.loads(r.stdout)

def qt(node):
    t = node.get('type', {})
    return t.get('desugaredQualType', t.get('qualType', ''))

def qt_raw(node):
    return node.get('type', {}).get('qualType', '')

def probe_layouts(files, incs, defs, records):
    """sizeof / offsetof of the given records {file: [(recname, [fields])]}, evaluated by clang itself: an enum whose
    constants are the sizeof/offsetof expressions is appended to the translation unit and the folded values are read from the AST"""
    out = {}
    scratch = tempfile.mkdtemp(prefix='tjlay-', dir='/var/tmp')
    try:
        for f, recs in records.items():
            if not recs: continue
            src = '#include <stddef.h>\n#include "%s"\nenum tj_layout_probe {\n' % f
            for ri, (name, fields) in enumerate(recs):
                src += ' TJL_R_%d = sizeof(%s),\n' % (ri, name)
                for fi, fl in enumerate(fields):
                    src += ' TJL_O_%d_%d = offsetof(%s, %s), TJL_S_%d_%d = sizeof(((%s*)0)->%s),\n' % (ri, fi, name, fl, ri, fi, name, fl)
            src += ' TJL_END = 0 };\n'
            c = os.path.join(scratch, 'p.c'); open(c, 'w').write(src)
            ast = clang_ast(c, incs, defs)
            vals = {}
            for d in ast.get('inner', []):
                if d.get('kind') == 'EnumDecl' and d.get('name') == 'tj_layout_probe':
                    for ec in d.get('inner', []):
                        if ec.get('kind') != 'EnumConstantDecl': continue
                        n = ec
                        while 'value' not in n and n.get('inner'): n = n['inner'][0]
                        if 'value' in n: vals[ec['name']] = int(n['value'])
            for ri, (name, fields) in enumerate(recs):
                r = out.setdefault(name, {'size': 0, 'fields': {}})
                r['size'] = vals['TJL_R_%d' % ri]
                for fi, fl in enumerate(fields):
                    r['fields'][fl] = (vals['TJL_O_%d_%d' % (ri, fi)], vals['TJL_S_%d_%d' % (ri, fi)])
    finally:
        shutil.rmtree(scratch, ignore_errors=True)
    return out

# ----------------------------------------------------------------------------- MiniC term construction (python tuples)
def norm_lit(n, ty):
    return n % (1 << (8 * TY_BYTES[ty]))

class FunTranslator:
    SPECIAL = {'memcpy', 'memset', 'explicit_bzero', 'tinyjambu_trng_generate', 'memmove'}

    def __init__(self, types, fun_index, fdecl, fields_by_id):
        self.T = types; self.fun_index = fun_index; self.fd = fdecl; self.fields_by_id = fields_by_id
        self.vars = {}        # decl id -> dict(idx, ctype, mem(bool))
        self.nvars = 0
        self.allocs = []      # (var idx, size)
        self.prologue = []
        self.nodes = 0

    # ---- variables
    def new_var(self):
        i = self.nvars; self.nvars += 1; return i

    def err(self, node, msg):
        loc = node.get('range', {}).get('begin', {})
        line = loc.get('line') or loc.get('expansionLoc', {}).get('line') or loc.get('spellingLoc', {}).get('line')
        raise TranslateError('%s: %s (node %s, line %s)' % (self.fd['name'], msg, node.get('kind'), line))

    def addr_taken(self, node, acc):
        if node.get('kind') == 'UnaryOperator' and node.get('opcode') == '&':
            s = node['inner'][0]
            while s.get('kind') == 'ParenExpr': s = s['inner'][0]
            if s.get('kind') == 'DeclRefExpr': acc.add(s['referencedDecl']['id'])
        for c in node.get('inner', []):
            if isinstance(c, dict): self.addr_taken(c, acc)

    def declare(self, d, taken, is_param=False):
        ct = qt(d)
        mem = self.T.is_array(ct) or (not self.T.is_scalar(ct)) or d['id'] in taken
        if is_param and self.T.is_array(ct): mem = False   # array parameters are pointers
        idx = self.new_var()
        info = {'idx': idx, 'ctype': ct, 'mem': mem, 'name': d.get('name', '?')}
        if mem:
            if is_param:
                # address-taken parameter: copy into a block
                pv = self.new_var(); info['idx'] = pv
                self.allocs.append((pv, self.T.sizeof(ct)))
                self.prologue.append(('store', self.T.ity(ct), ('var', pv), ('var', idx)))
            else:
                self.allocs.append((idx, self.T.sizeof(ct)))
        self.vars[d['id']] = info
        return info

    # ---- expressions: return (pre-statements, expr) ; lvalues: (pre, ('v', idx, cty) | ('m', addr_expr, cty))
    def tmp_load(self, pre, addr, cty):
        t = self.new_var()
        pre.append(('load', t, self.T.ity(cty), addr))
        return ('var', t)

    def rv(self, n):
        self.nodes += 1
        k = n.get('kind')
        if k in ('ParenExpr', 'ConstantExpr'): return self.rv(n['inner'][0])
        if k == 'IntegerLiteral':
            return [], ('lit', norm_lit(int(n['value']), self.T.ity(qt(n))))
        if k == 'CharacterLiteral':
            return [], ('lit', norm_lit(int(n['value']), self.T.ity(qt(n))))
        if k in ('ImplicitCastExpr', 'CStyleCastExpr'):
            ck = n.get('castKind'); sub = n['inner'][0]
            if ck == 'LValueToRValue':
                pre, lv = self.lv(sub)
                if lv[0] == 'v': return pre, ('var', lv[1])
                if not self.T.is_scalar(lv[2]): self.err(n, 'rvalue of aggregate type')
                return pre, self.tmp_load(pre, lv[1], lv[2])
            if ck == 'IntegralCast':
                pre, e = self.rv(sub)
                to, fr = self.T.ity(qt(n)), self.T.ity(qt(sub))
                if to == fr: return pre, e
                if e[0] == 'lit' and not fr.startswith('i'): return pre, ('lit', norm_lit(e[1], to))
                return pre, ('cast', to, fr, e)
            if ck == 'ArrayToPointerDecay':
                pre, lv = self.lv(sub)
                if lv[0] != 'm': self.err(n, 'decay of non-memory array')
                return pre, lv[1]
            if ck == 'FunctionToPointerDecay':
                s = sub
                while s.get('kind') == 'ParenExpr': s = s['inner'][0]
                if s.get('kind') == 'UnaryOperator' and s.get('opcode') == '*':   # (*fp) decays back to fp
                    return self.rv(s['inner'][0])
                if s.get('kind') != 'DeclRefExpr': self.err(n, 'function designator')
                name = s['referencedDecl']['name']
                if name not in self.fun_index: self.err(n, 'address of external function %s' % name)
                return [], ('fn', self.fun_index[name])
            if ck in ('BitCast', 'NoOp', 'LValueBitCast'):
                return self.rv(sub)
            if ck == 'NullToPointer': return [], ('lit', 0)
            if ck == 'IntegralToPointer':
                pre, e = self.rv(sub); fr = self.T.ity(qt(sub))
                return pre, (e if fr == 'u64' else ('cast', 'u64', fr, e))
            if ck == 'PointerToIntegral':
                pre, e = self.rv(sub); to = self.T.ity(qt(n))
                return pre, (e if to == 'u64' else ('cast', to, 'u64', e))
            if ck in ('IntegralToBoolean', 'PointerToBoolean'):
                pre, e = self.rv(sub); fr = self.T.ity(qt(sub))
                return pre, ('bin', 'ne', fr, e, ('lit', 0))
            if ck == 'ToVoid':
                pre, e = self.rv_or_void(sub)
                return pre, None
            self.err(n, 'cast kind %s' % ck)
        if k == 'DeclRefExpr':
            pre, lv = self.lv(n)
            if lv[0] == 'v': return pre, ('var', lv[1])
            return pre, self.tmp_load(pre, lv[1], lv[2])
        if k == 'UnaryExprOrTypeTraitExpr':
            if n.get('name') != 'sizeof': self.err(n, 'type trait %s' % n.get('name'))
            if 'argType' in n: sz = self.T.sizeof(n['argType'].get('desugaredQualType', n['argType']['qualType']))
            else: sz = self.T.sizeof(qt(n['inner'][0]))
            return [], ('lit', sz)
        if k == 'UnaryOperator':
            op = n['opcode']; sub = n['inner'][0]
            if op == '&':
                pre, lv = self.lv(sub)
                if lv[0] != 'm': self.err(n, 'address of a register variable')
                return pre, lv[1]
            if op == '*':
                pre, lv = self.lv(n)
                if not self.T.is_scalar(lv[2]): self.err(n, 'rvalue of aggregate')
                return pre, self.tmp_load(pre, lv[1], lv[2])
            if op in ('~', '-', '!', '+'):
                pre, e = self.rv(sub); t = self.T.ity(qt(sub))
                if op == '+': return pre, e
                if op == '!': return pre, ('un', 'lnot', t, e)
                return pre, ('un', {'~': 'bnot', '-': 'neg'}[op], t, e)
            if op in ('++', '--'):
                pre, lv = self.lv(sub)
                cty = lv[2]; t = self.T.ity(cty)
                step = ('lit', self.T.sizeof(self.T.elem(cty)) if self.T.is_ptr(cty) else 1)
                if lv[0] == 'm':
                    a = self.new_var(); pre.append(('assign', a, lv[1])); lv = ('m', ('var', a), cty)
                old = ('var', lv[1]) if lv[0] == 'v' else self.tmp_load(pre, lv[1], cty)
                if n.get('isPostfix'):
                    keep = self.new_var(); pre.append(('assign', keep, old)); res = ('var', keep)
                else: res = None
                new = ('bin', 'add' if op == '++' else 'sub', t, old, step)
                self.emit_assign(pre, lv, new)
                if res is None: res = ('var', lv[1]) if lv[0] == 'v' else self.tmp_load(pre, lv[1], cty)
                return pre, res
            self.err(n, 'unary operator %s' % op)
        if k == 'BinaryOperator':
            return self.binop(n)
        if k == 'CompoundAssignOperator':
            return self.compound(n)
        if k == 'CallExpr':
            return self.call(n, want_value=True)
        if k in ('ArraySubscriptExpr', 'MemberExpr'):
            pre, lv = self.lv(n)
            if not self.T.is_scalar(lv[2]): self.err(n, 'rvalue of aggregate')
            return pre, self.tmp_load(pre, lv[1], lv[2])
        if k == 'ConditionalOperator':
            c, a, b = n['inner']
            pc, ec = self.rv(c); pa, ea = self.rv(a); pb, eb = self.rv(b)
            r = self.new_var()
            pc.append(('ite', ec, self.seq(pa + [('assign', r, ea)]), self.seq(pb + [('assign', r, eb)])))
            return pc, ('var', r)
        self.err(n, 'expression kind')

    def rv_or_void(self, n):
        k = n.get('kind')
        while k == 'ParenExpr': n = n['inner'][0]; k = n.get('kind')
        if k == 'CallExpr': return self.call(n, want_value=False)
        return self.rv(n)

    def lv(self, n):
        self.nodes += 1
        k = n.get('kind')
        if k == 'ParenExpr': return self.lv(n['inner'][0])
        if k == 'DeclRefExpr':
            d = n['referencedDecl']
            if d['id'] not in self.vars: self.err(n, 'reference to non-local %s' % d.get('name'))
            v = self.vars[d['id']]
            if v['mem']: return [], ('m', ('var', v['idx']), v['ctype'])
            return [], ('v', v['idx'], v['ctype'])
        if k == 'UnaryOperator' and n['opcode'] == '*':
            pre, e = self.rv(n['inner'][0])
            return pre, ('m', e, qt(n))
        if k == 'ArraySubscriptExpr':
            b, i = n['inner']
            pb, eb = self.rv(b); pi, ei = self.rv(i)
            it = self.T.ity(qt(i)); sz = self.T.sizeof(qt(n))
            return pb + pi, ('m', self.padd(eb, ei, it, sz), qt(n))
        if k == 'MemberExpr':
            b = n['inner'][0]
            fid = n.get('referencedMemberDecl')
            if fid not in self.fields_by_id: self.err(n, 'unknown field')
            rec, fname = self.fields_by_id[fid]
            off = self.T.record(rec)['fields'][fname][0]
            if n.get('isArrow'): pre, base = self.rv(b)
            else:
                pre, lvb = self.lv(b)
                if lvb[0] != 'm': self.err(n, 'member of non-memory object')
                base = lvb[1]
            return pre, ('m', self.addc(base, off), qt(n))
        if k in ('ImplicitCastExpr', 'CStyleCastExpr') and n.get('castKind') in ('NoOp', 'LValueBitCast'):
            return self.lv(n['inner'][0])
        self.err(n, 'lvalue kind')

    def addc(self, base, off):
        if off == 0: return base
        if base[0] == 'bin' and base[1] == 'add' and base[2] == 'u64' and base[4][0] == 'lit':
            return ('bin', 'add', 'u64', base[3], ('lit', base[4][1] + off))
        return ('bin', 'add', 'u64', base, ('lit', off))

    def padd(self, p, i, ity, scale, sub=False):
        """pointer +/- integer*scale in u64 arithmetic"""
        if i[0] == 'lit' and not sub and not ity.startswith('i'): return self.addc(p, i[1] * scale)
        if i[0] == 'lit' and not sub and i[1] < (1 << (8 * TY_BYTES[ity] - 1)): return self.addc(p, i[1] * scale)
        e = i if ity == 'u64' else ('cast', 'u64', ity, i)
        if scale != 1: e = ('bin', 'mul', 'u64', e, ('lit', scale))
        return ('bin', 'sub' if sub else 'add', 'u64', p, e)

    def emit_assign(self, pre, lv, e):
        if lv[0] == 'v': pre.append(('assign', lv[1], e))
        else:
            if not self.T.is_scalar(lv[2]): raise TranslateError('%s: assignment of aggregate' % self.fd['name'])
            pre.append(('store', self.T.ity(lv[2]), lv[1], e))

    BIN = {'+': 'add', '-': 'sub', '*': 'mul', '/': 'div', '%': 'rem', '&': 'band', '|': 'bor', '^': 'bxor', '<<': 'shl', '>>': 'shr',
           '==': 'eq', '!=': 'ne', '<': 'lt', '<=': 'le', '>': 'gt', '>=': 'ge'}

    def arith(self, n, op, l, r, el, er, restype):
        """build the MiniC expression for C `l op r` given translated operands"""
        tl, tr = qt(l), qt(r)
        if op in ('+', '-') and (self.T.is_ptr(tl) or self.T.is_array(tl)) and not (self.T.is_ptr(tr) or self.T.is_array(tr)):
            return self.padd(el, er, self.T.ity(tr), self.T.sizeof(self.T.elem(tl)), sub=(op == '-'))
        if op == '+' and (self.T.is_ptr(tr) or self.T.is_array(tr)):
            return self.padd(er, el, self.T.ity(tl), self.T.sizeof(self.T.elem(tr)))
        if op == '-' and self.T.is_ptr(tl) and self.T.is_ptr(tr): self.err(n, 'pointer difference')
        if op in ('==', '!=', '<', '<=', '>', '>='):
            return ('bin', self.BIN[op], self.T.ity(tl), el, er)
        if op in ('<<', '>>'):
            return ('bin', self.BIN[op], self.T.ity(tl), el, er)
        if op in ('/', '%') and el[0] == 'lit' and er[0] == 'lit' and er[1] != 0 and max(el[1], er[1]) < (1 << 31):
            return ('lit', el[1] // er[1] if op == '/' else el[1] % er[1])
        if op in ('/', '%') and self.T.ity(restype).startswith('i'): self.err(n, 'signed division')
        return ('bin', self.BIN[op], self.T.ity(restype), el, er)

    def binop(self, n):
        op = n['opcode']; l, r = n['inner']
        if op == '=':
            pl, lv = self.lv(l)
            if lv[0] == 'm':
                a = self.new_var(); pl.append(('assign', a, lv[1])); lv = ('m', ('var', a), lv[2])
            pr, er = self.rv(r)
            pre = pl + pr
            self.emit_assign(pre, lv, er)
            return pre, er
        if op == ',':
            pl, _ = self.rv_or_void(l); pr, er = self.rv(r); return pl + pr, er
        if op in ('&&', '||'):
            pl, el = self.rv(l); pr, er = self.rv(r)
            t = self.new_var()
            tl, tr = self.T.ity(qt(l)), self.T.ity(qt(r))
            pl.append(('assign', t, ('bin', 'ne', tl, el, ('lit', 0))))
            inner = self.seq(pr + [('assign', t, ('bin', 'ne', tr, er, ('lit', 0)))])
            if op == '&&': pl.append(('ite', ('var', t), inner, ('skip',)))
            else: pl.append(('ite', ('var', t), ('skip',), inner))
            return pl, ('var', t)
        if op not in self.BIN: self.err(n, 'binary operator %s' % op)
        pl, el = self.rv(l); pr, er = self.rv(r)
        return pl + pr, self.arith(n, op, l, r, el, er, qt(n))

    def compound(self, n):
        op = n['opcode'][:-1]; l, r = n['inner']
        pl, lv = self.lv(l)
        cty = lv[2]
        if lv[0] == 'm':
            a = self.new_var(); pl.append(('assign', a, lv[1])); lv = ('m', ('var', a), cty)
        pr, er = self.rv(r)
        pre = pl + pr
        old = ('var', lv[1]) if lv[0] == 'v' else self.tmp_load(pre, lv[1], cty)
        if self.T.is_ptr(cty):
            if op not in ('+', '-'): self.err(n, 'compound pointer op')
            new = self.padd(old, er, self.T.ity(qt(r)), self.T.sizeof(self.T.elem(cty)), sub=(op == '-'))
        else:
            lt = self.T.ity(cty)
            ct = n.get('computeLHSType', {}); ct = self.T.ity(ct.get('desugaredQualType', ct.get('qualType', cty))) if ct else lt
            rt = n.get('computeResultType', {}); rt = self.T.ity(rt.get('desugaredQualType', rt.get('qualType', cty))) if rt else ct
            lhs = old if ct == lt else ('cast', ct, lt, old)
            if op in ('<<', '>>'): val = ('bin', self.BIN[op], ct, lhs, er)
            elif op in ('/', '%') and rt.startswith('i'): self.err(n, 'signed division')
            else: val = ('bin', self.BIN[op], rt, lhs, er)
            new = val if rt == lt else ('cast', lt, rt, val)
        self.emit_assign(pre, lv, new)
        res = ('var', lv[1]) if lv[0] == 'v' else None
        return pre, res

    def call(self, n, want_value):
        callee = n['inner'][0]; args = n['inner'][1:]
        c = callee
        while c.get('kind') in ('ParenExpr', 'ImplicitCastExpr') and c.get('castKind', 'x') in ('x', 'FunctionToPointerDecay', 'NoOp'):
            c = c['inner'][0]
        pre = []; eargs = []
        for a in args:
            pa, ea = self.rv(a); pre += pa; eargs.append(ea)
        rt = qt(n)
        has_val = strip_quals(rt) != 'void'
        dst = self.new_var() if has_val else None
        if c.get('kind') == 'DeclRefExpr' and c['referencedDecl'].get('kind') == 'FunctionDecl':
            name = c['referencedDecl']['name']
            if name in ('memcpy', 'memmove'):
                pre.append(('memcpy', eargs[0], eargs[1], eargs[2]))
                if dst is not None: pre.append(('assign', dst, eargs[0]))
            elif name == 'memset':
                pre.append(('memset', eargs[0], eargs[1], eargs[2]))
                if dst is not None: pre.append(('assign', dst, eargs[0]))
            elif name == 'explicit_bzero':
                pre.append(('memset', eargs[0], ('lit', 0), eargs[1]))
            elif name == 'tinyjambu_trng_generate':
                pre.append(('entropy', dst, eargs[0]))
            elif name in self.fun_index:
                pre.append(('call', dst, self.fun_index[name], eargs))
            else:
                self.err(n, 'call of external function %s' % name)
        else:
            pf, ef = self.rv(callee)
            pre += pf
            pre.append(('calli', dst, ef, eargs))
        return pre, (('var', dst) if dst is not None else None)

    # ---- statements
    def seq(self, ss):
        ss = [s for s in ss if s != ('skip',)]
        if not ss: return ('skip',)
        if len(ss) == 1: return ss[0]
        return ('seqs', ss)

    def has_break(self, n):
        """a break that belongs to this statement (not to a nested loop)"""
        k = n.get('kind')
        if k == 'BreakStmt': return True
        if k in ('WhileStmt', 'DoStmt', 'ForStmt', 'SwitchStmt'): return False
        return any(self.has_break(c) for c in n.get('inner', []) if isinstance(c, dict))

    def cond(self, n):
        pre, e = self.rv(n)
        return pre, e

    def stmt(self, n, taken):
        k = n.get('kind')
        if k == 'CompoundStmt':
            return self.seq([self.stmt(c, taken) for c in n.get('inner', [])])
        if k == 'NullStmt': return ('skip',)
        if k == 'DeclStmt':
            out = []
            for d in n.get('inner', []):
                if d.get('kind') != 'VarDecl':
                    if d.get('kind') in ('TypedefDecl', 'RecordDecl'): continue
                    self.err(d, 'declaration kind')
                if d.get('storageClass') == 'static': self.err(d, 'static local variable %s' % d.get('name'))
                info = self.declare(d, taken)
                init = [c for c in d.get('inner', []) if isinstance(c, dict) and c.get('kind', '').endswith(('Expr', 'Literal', 'Operator'))]
                if init:
                    i = init[0]
                    if i.get('kind') == 'InitListExpr':
                        if not self.T.is_array(info['ctype']): self.err(d, 'initialiser list for non-array')
                        et = self.T.elem(info['ctype']); esz = self.T.sizeof(et); cnt = self.T.sizeof(info['ctype']) // esz
                        elems = [c for c in i.get('inner', [])]
                        if 'array_filler' in i: elems = [c for c in i['array_filler'] if c.get('kind') != 'ImplicitValueInitExpr']
                        for j in range(cnt):
                            if j < len(elems):
                                pe, ee = self.rv(elems[j]); out += pe
                            else: ee = ('lit', 0)
                            out.append(('store', self.T.ity(et), self.addc(('var', info['idx']), j * esz), ee))
                    else:
                        pe, ee = self.rv(i); out += pe
                        if info['mem']: out.append(('store', self.T.ity(info['ctype']), ('var', info['idx']), ee))
                        else: out.append(('assign', info['idx'], ee))
            return self.seq(out)
        if k == 'IfStmt':
            inner = n['inner']
            pc, ec = self.cond(inner[0])
            a = self.stmt(inner[1], taken); b = self.stmt(inner[2], taken) if len(inner) > 2 else ('skip',)
            return self.seq(pc + [('ite', ec, a, b)])
        if k == 'WhileStmt':
            c, body = n['inner'][-2], n['inner'][-1]
            pc, ec = self.cond(c)
            return ('loop', self.seq(pc + [('ite', ec, self.stmt(body, taken), ('brk',))]))
        if k == 'DoStmt':
            body, c = n['inner']
            cc = c
            while cc.get('kind') in ('ParenExpr', 'ImplicitCastExpr'): cc = cc['inner'][0]
            if cc.get('kind') == 'IntegerLiteral' and int(cc['value']) == 0 and not self.has_break(body):
                return self.stmt(body, taken)
            pc, ec = self.cond(c)
            return ('loop', self.seq([self.stmt(body, taken)] + pc + [('ite', ec, ('skip',), ('brk',))]))
        if k == 'ForStmt':
            init, condvar, c, inc, body = n['inner']
            out = []
            if init.get('kind'): out.append(self.stmt(init, taken))
            if condvar.get('kind'): self.err(n, 'condition variable')
            if c.get('kind'): pc, ec = self.cond(c)
            else: pc, ec = [], ('lit', 1)
            b = self.stmt(body, taken)
            if inc.get('kind'):
                pi, _ = self.rv_or_void(inc); b = self.seq([b] + pi)
            out.append(('loop', self.seq(pc + [('ite', ec, b, ('brk',))])))
            return self.seq(out)
        if k == 'BreakStmt': return ('brk',)
        if k == 'ContinueStmt': self.err(n, 'continue')
        if k == 'ReturnStmt':
            if n.get('inner'):
                pe, ee = self.rv(n['inner'][0])
                return self.seq(pe + [('ret', ee)])
            return ('ret', None)
        if k in ('SwitchStmt', 'GotoStmt', 'LabelStmt', 'CaseStmt'): self.err(n, 'statement kind')
        # expression statement
        pe, _ = self.rv_or_void(n)
        return self.seq(pe)

    def translate(self):
        fd = self.fd
        params = [c for c in fd.get('inner', []) if c.get('kind') == 'ParmVarDecl']
        body = [c for c in fd.get('inner', []) if c.get('kind') == 'CompoundStmt'][0]
        taken = set(); self.addr_taken(body, taken)
        # parameters get indices 0..n-1 first
        pinfo = []
        for p in params:
            idx = self.new_var(); pinfo.append((p, idx))
        for p, idx in pinfo:
            ct = qt(p)
            if p['id'] in taken and self.T.is_scalar(ct) and not self.T.is_array(ct):
                pv = self.new_var()
                self.allocs.append((pv, self.T.sizeof(ct)))
                self.prologue.append(('store', self.T.ity(ct), ('var', pv), ('var', idx)))
                self.vars[p['id']] = {'idx': pv, 'ctype': ct, 'mem': True, 'name': p.get('name', '?')}
            else:
                if self.T.is_array(ct): ct = self.T.elem(ct) + ' *'
                if not self.T.is_scalar(ct): self.err(p, 'aggregate parameter')
                self.vars[p['id']] = {'idx': idx, 'ctype': ct, 'mem': False, 'name': p.get('name', '?')}
        b = self.stmt(body, taken)
        b = self.seq(self.prologue + [b])
        return {'name': fd['name'], 'nparams': len(params), 'nvars': self.nvars, 'allocs': self.allocs, 'body': b,
                'ret': strip_quals(re.sub(r'\(.*$', '', qt(fd))).strip() != 'void', 'nodes': self.nodes,
                'params': [(p.get('name', '?'), qt(p)) for p in params]}

# ----------------------------------------------------------------------------- Lean emission
def lean_expr(e):
    k = e[0]
    if k == 'lit': return '(.lit %d)' % e[1]
    if k == 'var': return '(.var %d)' % e[1]
    if k == 'fn': return '(.lit (fnBase + %d))' % e[1]
    if k == 'bin': return '(.bin .%s .%s %s %s)' % (e[1], e[2], lean_expr(e[3]), lean_expr(e[4]))
    if k == 'un': return '(.un .%s .%s %s)' % (e[1], e[2], lean_expr(e[3]))
    if k == 'cast': return '(.cast .%s .%s %s)' % (e[1], e[2], lean_expr(e[3]))
    raise TranslateError('emit expr %r' % (e,))

def lean_opt(v): return 'none' if v is None else '(some %d)' % v

def lean_stmt(s, ind=2):
    k = s[0]; sp = ' ' * ind
    if k == 'skip': return '.skip'
    if k == 'assign': return '(.assign %d %s)' % (s[1], lean_expr(s[2]))
    if k == 'load': return '(.load %d .%s %s)' % (s[1], s[2], lean_expr(s[3]))
    if k == 'store': return '(.store .%s %s %s)' % (s[1], lean_expr(s[2]), lean_expr(s[3]))
    if k == 'seqs': return '(seqs [\n' + ',\n'.join(sp + lean_stmt(x, ind + 2) for x in s[1]) + '])'
    if k == 'ite': return '(.ite %s\n%s%s\n%s%s)' % (lean_expr(s[1]), sp, lean_stmt(s[2], ind + 2), sp, lean_stmt(s[3], ind + 2))
    if k == 'loop': return '(.loop\n%s%s)' % (sp, lean_stmt(s[1], ind + 2))
    if k == 'brk': return '.brk'
    if k == 'ret': return '(.ret none)' if s[1] is None else '(.ret (some %s))' % lean_expr(s[1])
    if k == 'call': return '(.call %s %d [%s])' % (lean_opt(s[1]), s[2], ', '.join(lean_expr(a) for a in s[3]))
    if k == 'calli': return '(.calli %s %s [%s])' % (lean_opt(s[1]), lean_expr(s[2]), ', '.join(lean_expr(a) for a in s[3]))
    if k == 'memcpy': return '(.memcpy %s %s %s)' % tuple(lean_expr(x) for x in s[1:4])
    if k == 'memset': return '(.memset %s %s %s)' % tuple(lean_expr(x) for x in s[1:4])
    if k == 'entropy': return '(.entropy %s %s)' % (lean_opt(s[1]), lean_expr(s[2]))
    raise TranslateError('emit stmt %r' % (s[0],))

def lean_name(n): return 'f_' + re.sub(r'\W', '_', n)

# ----------------------------------------------------------------------------- driver
def library_files(repo):
    fs = sorted(glob.glob(os.path.join(repo, 'src', '*.c')) + glob.glob(os.path.join(repo, 'src', 'backend', '*.c')))
    return fs

def find_config(repo):
    for d in (os.environ.get('VERIF_CONFIG_DIR'), os.path.join(repo, '_build'), repo):
        if d and os.path.exists(os.path.join(d, 'config.h')): return d
    return None

def translate_repo(repo, config_dir=None, extra_defs=(), only=None):
    """returns (functions: list of dicts in program order, stats)"""
    config_dir = config_dir or find_config(repo)
    incs = [os.path.join(repo, 'src')] + ([config_dir] if config_dir else [])
    defs = (['HAVE_CONFIG_H'] if config_dir else []) + list(extra_defs)
    files = library_files(repo)
    if only: files = [f for f in files if os.path.basename(f) in only]
    asts = {}; typedefs = {}; records = {}; fields_by_id = {}; fundecls = {}
    for f in files:
        ast = clang_ast(f, incs, defs); asts[f] = ast
        recs = []
        anon = {}   # record id -> record node (anonymous, named by a following typedef)
        curfile = ''
        for d in ast.get('inner', []):
            k = d.get('kind')
            loc = d.get('loc', {})
            nf = loc.get('file') or loc.get('spellingLoc', {}).get('file') or loc.get('expansionLoc', {}).get('file')
            if nf: curfile = nf
            d['_file'] = curfile
            if k in ('RecordDecl', 'TypedefDecl') and not curfile.startswith(repo):
                if k == 'TypedefDecl': typedefs.setdefault(d['name'], qt(d))
                continue
            if k == 'RecordDecl' and d.get('completeDefinition'):
                fl = [c for c in d.get('inner', []) if c.get('kind') == 'FieldDecl']
                name = d.get('name')
                if name:
                    key = ('struct ' if d.get('tagUsed') == 'struct' else 'union ') + name
                    recs.append((key, key, fl))
                else: anon[d['id']] = fl
            elif k == 'TypedefDecl':
                name = d['name']; under = qt(d)
                typedefs.setdefault(name, under)
                # typedef of an anonymous record: owned tag decl id
                for c in d.get('inner', []):
                    oid = c.get('ownedTagDecl', {}).get('id') if c.get('kind') == 'ElaboratedType' else None
                    if oid in anon: recs.append((name, name, anon.pop(oid)))
            elif k == 'VarDecl':
                loc = d.get('loc', {})
                if d.get('storageClass') != 'extern' and not loc.get('includedFrom') and 'src' in (loc.get('file') or f):
                    if 'inner' in d or d.get('init'):   # file-scope variable with storage in the library
                        pass
            elif k == 'FunctionDecl' and any(c.get('kind') == 'CompoundStmt' for c in d.get('inner', [])):
                if d['name'] not in fundecls: fundecls[d['name']] = (f, d)
        lst = []
        for key, cname, fl in recs:
            for x in fl: fields_by_id[x['id']] = (re.sub(r'^(struct|union)\s+', '', key), x['name'])
            lst.append((cname, [x['name'] for x in fl]))
        records[f] = lst
    # file-scope variables with static storage defined by the library are outside the subset (and would break C19)
    globals_ = []
    for f, ast in asts.items():
        for d in ast.get('inner', []):
            if d.get('kind') == 'VarDecl' and d.get('storageClass') != 'extern':
                rng = d.get('range', {}).get('begin', {})
                src = rng.get('file') or rng.get('expansionLoc', {}).get('file') or d.get('loc', {}).get('file') or ''
                inc = d.get('loc', {}).get('includedFrom', {}).get('file', '')
                if (repo in src) or (not src and not inc):
                    globals_.append('%s:%s' % (os.path.basename(f), d.get('name')))
    layouts = probe_layouts(files, incs, defs, records)
    types = Types({re.sub(r'^(struct|union)\s+', '', k): v for k, v in layouts.items()}, typedefs)
    # only functions whose body lives in the library sources (skip libc inline helpers)
    names = []
    for name, (f, d) in fundecls.items():
        loc = d.get('loc', {})
        file_ = loc.get('file') or loc.get('spellingLoc', {}).get('file') or loc.get('expansionLoc', {}).get('file') or ''
        inc = loc.get('includedFrom', {}).get('file', '')
        if file_.startswith('/usr') or inc.startswith('/usr') or '/lib/clang' in file_: continue
        names.append(name)
    names.sort()
    fun_index = {n: i for i, n in enumerate(names)}
    funs = []; errors = []
    for n in names:
        f, d = fundecls[n]
        try:
            ft = FunTranslator(types, fun_index, d, fields_by_id)
            r = ft.translate(); r['file'] = os.path.relpath(f, repo); funs.append(r)
        except TranslateError as e:
            errors.append(str(e)); funs.append({'name': n, 'error': str(e), 'file': os.path.relpath(f, repo)})
    stats = {'functions': len(names), 'translated': sum(1 for x in funs if 'error' not in x), 'errors': errors, 'globals': sorted(set(globals_)),
             'nodes': sum(x.get('nodes', 0) for x in funs), 'layouts': {k: v for k, v in layouts.items()}}
    return funs, stats

def emit(funs, stats, repo):
    lines = ['/-  REGENERATED by tools/c2lean.py from the C sources of the repository under verification — do not edit.  -/',
             'import TJ.MiniC.Sem', 'namespace TJ.Gen.MiniC', 'open TJ.MiniC', '',
             'def seqs : List Stmt → Stmt', '  | [] => .skip', '  | [s] => s', '  | s :: r => .seq s (seqs r)', '']
    for f in funs:
        if 'error' in f:
            lines += ['/-- NOT TRANSLATED: %s -/' % f['error'].replace('-/', '- /'),
                      'def %s : FunDecl := { name := "%s", nparams := 0, nvars := 1, allocs := [], body := .load 0 .u8 (.lit 0) }' % (lean_name(f['name']), f['name']), '']
            continue
        lines.append('/-- %s (%s): %s -/' % (f['name'], f['file'], ', '.join('%s : %s' % p for p in f['params'])))
        lines.append('def %s : FunDecl :=' % lean_name(f['name']))
        lines.append('  { name := "%s", nparams := %d, nvars := %d, allocs := [%s],' % (f['name'], f['nparams'], f['nvars'], ', '.join('(%d, %d)' % a for a in f['allocs'])))
        lines.append('    body := ' + lean_stmt(f['body'], 6) + ' }')
        lines.append('')
    for i, f in enumerate(funs):
        lines.append('def idx_%s : Nat := %d' % (re.sub(r'\W', '_', f['name']), i))
    lines.append('')
    lines.append('def prog : Program := [' + ', '.join(lean_name(f['name']) for f in funs) + ']')
    lines.append('')
    lines.append('def funNames : List String := [' + ', '.join('"%s"' % f['name'] for f in funs) + ']')
    lines.append('def funHasRet : List Bool := [' + ', '.join('true' if f.get('ret') else 'false' for f in funs) + ']')
    lines.append('def untranslated : List String := [' + ', '.join('"%s"' % f['name'] for f in funs if 'error' in f) + ']')
    lines.append('')
    lines.append('end TJ.Gen.MiniC')
    return '\n'.join(lines) + '\n'

def regenerate_clean_fallback(repo='/repo', config_dir=None):
    """tinyjambu-clean.c translated under a config.h with HAVE_EXPLICIT_BZERO / HAVE_MEMSET_S switched off:
    the volatile byte loop.  Output: lean/TJ/Gen/MiniC/CleanFallback.lean"""
    config_dir = config_dir or find_config(repo)
    scratch = tempfile.mkdtemp(prefix='tjcfg-', dir='/var/tmp')
    try:
        txt = open(os.path.join(config_dir, 'config.h')).read() if config_dir else ''
        txt = re.sub(r'#define\s+HAVE_EXPLICIT_BZERO\b[^\n]*', '/* #undef HAVE_EXPLICIT_BZERO */', txt)
        txt = re.sub(r'#define\s+HAVE_MEMSET_S\b[^\n]*', '/* #undef HAVE_MEMSET_S */', txt)
        open(os.path.join(scratch, 'config.h'), 'w').write(txt)
        funs, stats = translate_repo(repo, scratch, (), only=('tinyjambu-clean.c',))
    finally:
        shutil.rmtree(scratch, ignore_errors=True)
    lines = ['/-  REGENERATED by tools/c2lean.py: src/backend/tinyjambu-clean.c with HAVE_EXPLICIT_BZERO and HAVE_MEMSET_S off — do not edit.  -/',
             'import TJ.MiniC.Sem', 'namespace TJ.Gen.MiniC.Fallback', 'open TJ.MiniC', '',
             'def seqs : List Stmt → Stmt', '  | [] => .skip', '  | [s] => s', '  | s :: r => .seq s (seqs r)', '']
    for f in funs:
        if 'error' in f: raise TranslateError(f['error'])
        lines.append('def %s : FunDecl :=' % lean_name(f['name']))
        lines.append('  { name := "%s", nparams := %d, nvars := %d, allocs := [%s],' % (f['name'], f['nparams'], f['nvars'], ', '.join('(%d, %d)' % a for a in f['allocs'])))
        lines.append('    body := ' + lean_stmt(f['body'], 6) + ' }')
        lines.append('')
    lines.append('end TJ.Gen.MiniC.Fallback')
    text = '\n'.join(lines) + '\n'
    os.makedirs(GEN, exist_ok=True)
    p = os.path.join(GEN, 'CleanFallback.lean')
    if not os.path.exists(p) or open(p).read() != text: open(p, 'w').write(text)
    return funs

def regenerate(repo='/repo', config_dir=None, extra_defs=()):
    funs, stats = translate_repo(repo, config_dir, extra_defs)
    text = emit(funs, stats, repo)
    os.makedirs(GEN, exist_ok=True)
    p = os.path.join(GEN, 'Prog.lean')
    if not os.path.exists(p) or open(p).read() != text: open(p, 'w').write(text)
    json.dump({k: v for k, v in stats.items() if k != 'layouts'}, open(os.path.join(GEN, 'stats.json'), 'w'), indent=1)
    return funs, stats

if __name__ == '__main__':
    repo = sys.argv[1] if len(sys.argv) > 1 else '/repo'
    funs, stats = regenerate(repo, sys.argv[2] if len(sys.argv) > 2 else None)
    regenerate_clean_fallback(repo, sys.argv[2] if len(sys.argv) > 2 else None)
    print('functions %d translated %d nodes %d' % (stats['functions'], stats['translated'], stats['nodes']))
    for e in stats['errors']: print('ERROR', e)
    if stats['globals']: print('file-scope variables:', stats['globals'])
