#!/usr/bin/env python3
"""Shared machinery for the TinyJAMBU checks: running the implementation harness and the
Lean driver on the same operation lines, the Lean build + axiom audit, evidence, replays,
known findings."""
import os, sys, re, json, time, subprocess, fcntl, hashlib, random, shutil

TOOLS = os.path.dirname(os.path.abspath(__file__))
VERIF = os.path.dirname(TOOLS)
REPO = os.environ.get('VERIF_REPO', '/repo')
LEAN = os.path.join(VERIF, 'lean')
DRIVER = os.path.join(LEAN, '.lake', 'build', 'bin', 'tjdriver')
EVID = os.path.join(VERIF, 'evidence')
REPLAYS = os.path.join(VERIF, 'replays')
sys.path.insert(0, TOOLS)
import build as tjbuild

STD_AXIOMS = {'propext', 'Classical.choice', 'Quot.sound'}

# ----------------------------------------------------------------------------- hex helpers

def hx(b):
    return b.hex() if len(b) else '-'

def unhx(s):
    return b'' if s in ('-', 'NULL', 'untouched') else bytes.fromhex(s)

def field(line, key):
    m = re.search(r'(?:^| )' + re.escape(key) + r'=(\S+)', line)
    return m.group(1) if m else None

# ----------------------------------------------------------------------------- Lean side

class LeanError(Exception):
    pass

_lean_built = False

def lean_build(targets=('TJ', 'tjdriver', 'tjspec')):
    """lake build under a file lock; returns (ok, log)"""
    global _lean_built
    lock = open(os.path.join(LEAN, '.build.lock'), 'w')
    fcntl.flock(lock, fcntl.LOCK_EX)
    try:
        r = subprocess.run(['lake', 'build', *targets], cwd=LEAN, stdout=subprocess.PIPE, stderr=subprocess.STDOUT, text=True)
        _lean_built = r.returncode == 0
        return r.returncode == 0, r.stdout
    finally:
        fcntl.flock(lock, fcntl.LOCK_UN); lock.close()

def strip_comments(src):
    """remove Lean block comments (nested) and line comments"""
    out = []; i = 0; depth = 0; n = len(src)
    while i < n:
        if src.startswith('/-', i): depth += 1; i += 2; continue
        if depth and src.startswith('-/', i): depth -= 1; i += 2; continue
        if depth: i += 1; continue
        if src.startswith('--', i):
            j = src.find('\n', i); i = n if j < 0 else j; continue
        out.append(src[i]); i += 1
    return ''.join(out)

FORBIDDEN = re.compile(r'\b(sorry|admit|native_decide|implemented_by|unsafe|maxHeartbeats\s+0)\b|^\s*axiom\s', re.M)

def lean_source_audit():
    """grep every .lean file of the library for forbidden constructs outside comments"""
    hits = []
    for root, dirs, files in os.walk(LEAN):
        dirs[:] = [d for d in dirs if d != '.lake']
        for f in files:
            if not f.endswith('.lean'): continue
            p = os.path.join(root, f)
            s = strip_comments(open(p).read())
            for m in FORBIDDEN.finditer(s):
                hits.append('%s: %s' % (os.path.relpath(p, LEAN), m.group(0).strip()))
    return hits

def theorems_of(module_path):
    """names of the theorems declared in a Props file (fully qualified using its namespace lines)"""
    p = os.path.join(LEAN, module_path)
    if not os.path.exists(p): return []
    s = strip_comments(open(p).read())
    ns = []; names = []
    for line in s.split('\n'):
        m = re.match(r'\s*namespace\s+(\S+)', line)
        if m: ns.append(m.group(1)); continue
        m = re.match(r'\s*end\s+(\S+)', line)
        if m and ns and ns[-1] == m.group(1): ns.pop(); continue
        m = re.match(r'\s*(?:@\[[^\]]*\]\s*)?(?:protected\s+)?theorem\s+(\S+)', line)
        if m: names.append('.'.join(ns + [m.group(1)]))
    return names

def axioms_audit(modules, theorems, allow_extra=()):
    """#print axioms on each theorem; returns dict name -> list of axioms (None if the theorem does not check)"""
    if not theorems: return {}
    src = ''.join('import %s\n' % m for m in modules) + ''.join('#print axioms %s\n' % t for t in theorems)
    tmp = os.path.join(LEAN, '.lake', 'audit_%d.lean' % os.getpid())
    open(tmp, 'w').write(src)
    try:
        r = subprocess.run(['lake', 'env', 'lean', tmp], cwd=LEAN, stdout=subprocess.PIPE, stderr=subprocess.STDOUT, text=True)
    finally:
        os.unlink(tmp)
    out = r.stdout
    res = {t: None for t in theorems}
    for m in re.finditer(r"'(\S+)' depends on axioms: \[([^\]]*)\]", out, re.S):
        res[m.group(1)] = [a.strip() for a in m.group(2).replace('\n', ' ').split(',') if a.strip()]
    for m in re.finditer(r"'(\S+)' does not depend on any axioms", out):
        res[m.group(1)] = []
    return res, out

def axioms_ok(axs, allow_bv=True):
    if axs is None: return False
    for a in axs:
        if a in STD_AXIOMS: continue
        if allow_bv and '._native.bv_decide.ax_' in a: continue
        return False
    return True

# ----------------------------------------------------------------------------- running ops

def run_driver(lines):
    r = subprocess.run([DRIVER], input='\n'.join(lines) + '\n', stdout=subprocess.PIPE, stderr=subprocess.PIPE, text=True)
    out = r.stdout.split('\n')
    if out and out[-1] == '': out.pop()
    if len(out) != len(lines):
        raise LeanError('driver produced %d lines for %d ops (rc=%d) %s' % (len(out), len(lines), r.returncode, r.stderr[-500:]))
    return out

def run_impl(meta, variant, lines, timeout=1200, op_timeout=None):
    """run the harness of a build variant; a process abort (sanitizer report, crash outside an op)
    is turned into result lines: the op at which it died gets 'abort <reason>', later ops 'not-run';
    a run that does not finish within `timeout` seconds gets 'hang ...' at the op it was executing"""
    v = meta[variant]
    env = dict(os.environ); env.update(v.get('env', {}))
    p = subprocess.Popen([v['exe'], meta['layout']], stdin=subprocess.PIPE, stdout=subprocess.PIPE, stderr=subprocess.PIPE, text=True, env=env)
    hung = False
    try:
        so, se = p.communicate('\n'.join(lines) + '\n', timeout=timeout)
    except subprocess.TimeoutExpired:
        hung = True
        p.kill()
        # children of the forking harness may still hold the pipes: kill the process group members we can see
        subprocess.run(['pkill', '-9', '-P', str(p.pid)], stdout=subprocess.DEVNULL, stderr=subprocess.DEVNULL)
        try: so, se = p.communicate(timeout=10)
        except Exception: so, se = '', ''
    out = (so or '').split('\n')
    if out and out[-1] == '': out.pop()
    if len(out) < len(lines):
        if hung: reason = 'hang no-result-within-%ds' % timeout
        else:
            reason = 'abort rc=%d' % p.returncode
            m = re.search(r'(ERROR: AddressSanitizer: [\w-]+|runtime error: [^\n]*|ERROR: \w+Sanitizer[^\n]*)', se or '')
            if m: reason = 'abort ' + m.group(1).replace(' ', '_')
        out = out + [reason] + ['not-run'] * (len(lines) - len(out) - 1)
    return out[:len(lines)]

def parallel_map(fn, chunks, workers=16):
    from concurrent.futures import ThreadPoolExecutor
    with ThreadPoolExecutor(max_workers=workers) as ex:
        return list(ex.map(fn, chunks))

def chunked(lines, n):
    k = max(1, (len(lines) + n - 1) // n)
    return [lines[i:i + k] for i in range(0, len(lines), k)]

def run_stateless(meta, variant, lines, workers=16):
    """stateless op lines can be split over several harness/driver processes"""
    parts = chunked(lines, workers)
    res = parallel_map(lambda ch: run_impl(meta, variant, ch), parts, workers)
    return [x for p in res for x in p]

def run_driver_stateless(lines, workers=16):
    parts = chunked(lines, workers)
    res = parallel_map(run_driver, parts, workers)
    return [x for p in res for x in p]

# ----------------------------------------------------------------------------- known findings

def known_findings():
    """lines 'known: property=<id> key=<key> <text>' suppress; 'fixed: ...' lines suppress nothing"""
    p = os.path.join(VERIF, 'known_findings.txt')
    out = []
    if os.path.exists(p):
        for l in open(p):
            l = l.strip()
            m = re.match(r'known:\s+property=(\S+)\s+key=(\S+)\s+(.*)', l)
            if m: out.append((m.group(1), m.group(2), m.group(3)))
    return out

# ----------------------------------------------------------------------------- result bookkeeping

class Result:
    def __init__(self, pid, tier, seed):
        self.pid = pid; self.tier = tier; self.seed = seed
        self.t0 = time.time()
        self.violations = []      # (replay_path, suffix)
        self.known_hits = []
        self.coverage = {}
        self.assumptions = []
        self.notes = []

    def violation(self, name, replay, found_input=True, key=None):
        """record a violation; `replay` is a dict written to /verif/replays"""
        if key is not None:
            for (pid, k, text) in known_findings():
                if pid == self.pid and k == key:
                    self.known_hits.append((k, text)); return
        os.makedirs(REPLAYS, exist_ok=True)
        replay = dict(replay); replay['property'] = self.pid; replay['check'] = name
        replay['failing_input_found'] = bool(found_input)
        h = hashlib.sha1(json.dumps(replay, sort_keys=True).encode()).hexdigest()[:10]
        path = os.path.join(REPLAYS, '%s-%s-%s.json' % (self.pid, re.sub(r'\W+', '_', name)[:40], h))
        json.dump(replay, open(path, 'w'), indent=1)
        self.violations.append((path, '' if found_input else ' no-failing-input-found'))

    def finish(self, level, coverage, assumptions):
        cov = dict(coverage)
        ev = {'property_id': self.pid, 'tier': self.tier, 'seed': self.seed, 'level': level,
              'coverage': cov, 'assumptions': assumptions, 'wall_s': round(time.time() - self.t0, 2),
              'violations': len(self.violations)}
        if self.notes: ev['coverage']['notes'] = self.notes
        os.makedirs(EVID, exist_ok=True)
        json.dump(ev, open(os.path.join(EVID, self.pid + '.json'), 'w'), indent=1)
        for k, text in self.known_hits:
            print('KNOWN-FINDING: property=%s %s' % (self.pid, text))
        seen = set()
        for path, suffix in self.violations:
            if path in seen: continue
            seen.add(path)
            print('VIOLATION property=%s replay=%s%s' % (self.pid, path, suffix))
        sys.stdout.flush()
        return 1 if self.violations else 0

# ----------------------------------------------------------------------------- random data

class Gen:
    """all random choices derive from one seed"""
    def __init__(self, seed, salt=''):
        self.r = random.Random('%s/%s' % (seed, salt))
    def bytes(self, n, cls=None):
        r = self.r
        if cls is None: cls = r.choice(['rand', 'rand', 'rand', 'ff', 'hi', 'zero', 'count', 'lowhi'])
        if cls == 'rand': return bytes(r.getrandbits(8) for _ in range(n))
        if cls == 'ff': return b'\xff' * n
        if cls == 'hi': return bytes(0x80 | r.getrandbits(7) for _ in range(n))
        if cls == 'zero': return b'\x00' * n
        if cls == 'count': return bytes((i * 1) & 0xff for i in range(n))
        if cls == 'lowhi': return bytes(r.choice([0, 1, 0x7f, 0x80, 0xfe, 0xff]) for _ in range(n))
        return bytes(r.getrandbits(8) for _ in range(n))
    def choice(self, xs): return self.r.choice(xs)
    def randint(self, a, b): return self.r.randint(a, b)
    def random(self): return self.r.random()
    def sample(self, xs, k): return self.r.sample(xs, k)
    def shuffle(self, xs): self.r.shuffle(xs)

KEYLEN = {128: 16, 192: 24, 256: 32}
