#!/usr/bin/env python3
"""Build the implementation under test from /repo's current working tree.

Variants (DESIGN.md 3.1):
  prod    the repository's own CMake Release build (static archive + shared object + config.h)
  san     clang -O1 ASan+UBSan direct compilation with the same config.h
  extra   gcc/clang x -O0/-O2/-O3 direct compilations (thorough tier)
Results are cached under /var/tmp/tjverif-cache/<hash of the tree> so that the 20
checks of one run build once; the hash covers every file the build reads, so any
edit to /repo gives a new build.  At most two cache entries are kept.
"""
import hashlib, os, subprocess, sys, shutil, fcntl, json, time

REPO = os.environ.get('VERIF_REPO', '/repo')
VERIF = os.path.dirname(os.path.dirname(os.path.abspath(__file__)))
CACHE = '/var/tmp/tjverif-cache'
GUARD = 'TINYJAMBU_VERIF'

LIB_C = ['tinyjambu-128-aead.c', 'tinyjambu-128-siv.c', 'tinyjambu-192-aead.c', 'tinyjambu-192-siv.c',
         'tinyjambu-256-aead.c', 'tinyjambu-256-siv.c', 'tinyjambu-hash.c', 'tinyjambu-hkdf.c',
         'tinyjambu-hmac.c', 'tinyjambu-pbkdf2.c', 'tinyjambu-prng.c',
         'backend/tinyjambu-128-c32.c', 'backend/tinyjambu-192-c32.c', 'backend/tinyjambu-256-c32.c',
         'backend/tinyjambu-aead-common-128.c', 'backend/tinyjambu-aead-common-192.c',
         'backend/tinyjambu-aead-common-256.c', 'backend/tinyjambu-clean.c', 'backend/tinyjambu-util.c',
         'random/tinyjambu-trng-dev-random.c']

def tree_files():
    out = []
    for root, dirs, files in os.walk(REPO):
        dirs[:] = [d for d in dirs if d not in ('.git', '_build')]
        for f in files:
            out.append(os.path.join(root, f))
    return sorted(out)

def tree_hash():
    h = hashlib.sha256()
    for p in tree_files():
        h.update(p.encode()); h.update(b'\0')
        try:
            with open(p, 'rb') as f: h.update(f.read())
        except OSError: pass
        h.update(b'\0')
    for p in (os.path.join(VERIF, 'harness', 'harness.c'), os.path.join(VERIF, 'harness', 'layout_prng.c'),
              os.path.join(VERIF, 'harness', 'ctgrind.c'), os.path.abspath(__file__)):
        with open(p, 'rb') as f: h.update(f.read())
    return h.hexdigest()[:20]

def run(cmd, cwd=None, log=None, check=True):
    r = subprocess.run(cmd, cwd=cwd, stdout=subprocess.PIPE, stderr=subprocess.STDOUT, text=True)
    if log is not None: log.append((' '.join(cmd), r.returncode, r.stdout[-4000:]))
    if check and r.returncode != 0:
        raise RuntimeError('build step failed: %s\n%s' % (' '.join(cmd), r.stdout[-4000:]))
    return r

def compile_variant(d, name, cc, flags, cfgdir, log, link_flags=()):
    """direct compilation of the library sources + harness with the given compiler flags"""
    od = os.path.join(d, name); os.makedirs(od, exist_ok=True)
    src = os.path.join(REPO, 'src')
    inc = ['-I', src, '-I', cfgdir, '-DHAVE_CONFIG_H', '-D' + GUARD]
    objs = []
    procs = []
    for c in LIB_C:
        o = os.path.join(od, c.replace('/', '_')[:-2] + '.o')
        procs.append((subprocess.Popen([cc, '-std=gnu99', '-c', *flags, *inc, os.path.join(src, c), '-o', o],
                                       stdout=subprocess.PIPE, stderr=subprocess.STDOUT, text=True), c))
        objs.append(o)
    for p, c in procs:
        out, _ = p.communicate()
        if p.returncode != 0:
            raise RuntimeError('compile failed (%s, %s):\n%s' % (name, c, out[-3000:]))
    exe = os.path.join(od, 'harness')
    link_harness(d, exe, cc, flags, objs, log, link_flags)
    if not any(f.startswith('-fsanitize') for f in flags):
        run([cc, '-std=gnu99', '-O1', '-I', src, os.path.join(VERIF, 'harness', 'ctgrind.c'), *objs, '-o', os.path.join(od, 'ctgrind')], log=log)
    return exe

def trng_variants(d, cc, flags, log):
    """tinyjambu-trng-dev-random.c compiled three times: getrandom, getentropy, raw syscall"""
    src = os.path.join(REPO, 'src')
    objs = []
    for nm, defs in (('getrandom', ['-DHAVE_GETRANDOM', '-DHAVE_SYS_RANDOM_H']),
                     ('getentropy', ['-DHAVE_GETENTROPY', '-DHAVE_SYS_RANDOM_H']),
                     ('syscall', ['-DHAVE_SYS_SYSCALL_H'])):
        o = os.path.join(d, 'trng_%s_%s.o' % (nm, hashlib.md5(' '.join([cc] + list(flags)).encode()).hexdigest()[:6]))
        if not os.path.exists(o):
            run([cc, '-std=gnu99', '-c', *flags, '-I', src, '-I', os.path.join(src, 'random'), *defs,
                 '-Dtinyjambu_trng_generate=trng_gen_' + nm,
                 os.path.join(src, 'random', 'tinyjambu-trng-dev-random.c'), '-o', o], log=log)
        objs.append(o)
    return objs

def link_harness(d, exe, cc, flags, libobjs, log, link_flags=()):
    tr = trng_variants(d, cc, [f for f in flags if not f.startswith('-fsanitize') and f != '-fno-sanitize-recover=all'] if False else flags, log)
    run([cc, '-std=gnu99', *flags, '-I', os.path.join(REPO, 'src'), os.path.join(VERIF, 'harness', 'harness.c'),
         *tr, *libobjs, *link_flags, '-ldl', '-lpthread', '-o', exe], log=log)

def build(variants=('prod', 'san'), verbose=False):
    """returns dict: name -> {'exe': path, 'env': {...}}, plus 'dir', 'config_h', 'layout', 'log'"""
    os.makedirs(CACHE, exist_ok=True)
    lock = open(os.path.join(CACHE, '.lock'), 'w')
    fcntl.flock(lock, fcntl.LOCK_EX)
    try:
        th = tree_hash()
        d = os.path.join(CACHE, th)
        meta_p = os.path.join(d, 'meta.json')
        meta = {}
        if os.path.exists(meta_p):
            meta = json.load(open(meta_p))
        else:
            # evict old entries (keep one other)
            ents = sorted((e for e in os.listdir(CACHE) if os.path.isdir(os.path.join(CACHE, e))),
                          key=lambda e: os.path.getmtime(os.path.join(CACHE, e)))
            for e in ents[:-1]:
                shutil.rmtree(os.path.join(CACHE, e), ignore_errors=True)
            os.makedirs(d, exist_ok=True)
        log = []
        changed = False
        if 'prod' not in meta:
            t0 = time.time()
            srcd = os.path.join(d, 'src'); bd = os.path.join(d, 'cmake')
            shutil.rmtree(srcd, ignore_errors=True); shutil.rmtree(bd, ignore_errors=True)
            run(['rsync', '-a', '--exclude', '.git', '--exclude', '_build', REPO + '/', srcd + '/'], log=log)
            run(['cmake', '-G', 'Ninja', '-S', srcd, '-B', bd, '-DCMAKE_C_FLAGS=-D' + GUARD], log=log)
            run(['cmake', '--build', bd, '--target', 'tinyjambu_static', 'tinyjambu'], log=log)
            cfg = os.path.join(d, 'cfg'); os.makedirs(cfg, exist_ok=True)
            shutil.copy(os.path.join(bd, 'config.h'), os.path.join(cfg, 'config.h'))
            lib_a = os.path.join(d, 'libtinyjambu_static.a'); lib_so = os.path.join(d, 'libtinyjambu.so.0')
            shutil.copy(os.path.join(bd, 'src', 'libtinyjambu_static.a'), lib_a)
            so = [f for f in os.listdir(os.path.join(bd, 'src')) if f.startswith('libtinyjambu.so.') and f.count('.') > 3]
            shutil.copy(os.path.join(bd, 'src', so[0]), lib_so)
            shutil.rmtree(srcd, ignore_errors=True); shutil.rmtree(bd, ignore_errors=True)
            # layout probe
            lay = os.path.join(d, 'layout')
            run(['gcc', '-std=gnu99', '-I', os.path.join(REPO, 'src'), '-I', cfg, '-DHAVE_CONFIG_H', '-D' + GUARD,
                 os.path.join(VERIF, 'harness', 'layout_prng.c'), lib_a, '-Wl,--allow-multiple-definition', '-o', lay], log=log)
            layout = subprocess.run([lay], capture_output=True, text=True).stdout.strip()
            os.makedirs(os.path.join(d, 'prod'), exist_ok=True)
            exe = os.path.join(d, 'prod', 'harness')
            link_harness(d, exe, 'gcc', ['-O2'], [lib_a], log)
            exe_sh = os.path.join(d, 'prod', 'harness_shared')
            os.symlink('libtinyjambu.so.0', os.path.join(d, 'libtinyjambu.so')) if not os.path.exists(os.path.join(d, 'libtinyjambu.so')) else None
            link_harness(d, exe_sh, 'gcc', ['-O2'], [], log, ['-L', d, '-ltinyjambu', '-Wl,-rpath,' + d])
            run(['gcc', '-std=gnu99', '-O1', '-I', os.path.join(REPO, 'src'), os.path.join(VERIF, 'harness', 'ctgrind.c'), lib_a,
                 '-o', os.path.join(d, 'prod', 'ctgrind')], log=log)
            meta['prod'] = {'exe': exe, 'env': {}}
            meta['shared'] = {'exe': exe_sh, 'env': {}}
            meta['layout'] = layout; meta['config_h'] = os.path.join(cfg, 'config.h')
            meta['lib_a'] = lib_a; meta['lib_so'] = lib_so
            meta['t_prod'] = round(time.time() - t0, 1)
            changed = True
        cfg = os.path.dirname(meta['config_h'])
        san_env = {'ASAN_OPTIONS': 'handle_segv=0:handle_sigbus=0:handle_sigfpe=0:detect_leaks=0:allocator_may_return_null=1',
                   'UBSAN_OPTIONS': 'print_stacktrace=1:halt_on_error=1'}
        specs = {
            'san': ('clang', ['-O1', '-g', '-fsanitize=address,undefined', '-fno-sanitize=nonnull-attribute',
                              '-fno-sanitize-recover=all', '-fno-omit-frame-pointer'], san_env),
            'gcc-O0': ('gcc', ['-O0'], {}), 'gcc-O2': ('gcc', ['-O2'], {}), 'gcc-O3': ('gcc', ['-O3'], {}),
            'clang-O0': ('clang', ['-O0'], {}), 'clang-O2': ('clang', ['-O2'], {}), 'clang-O3': ('clang', ['-O3'], {}),
            'nobzero': ('gcc', ['-O3', '-DVERIF_NO_BZERO'], {}),
            'ndebug': ('gcc', ['-O2', '-DNDEBUG'], {}),
            'gcc-Os': ('gcc', ['-Os'], {}), 'clang-Os': ('clang', ['-Os'], {}),   # size-optimised builds (MinSizeRel, Arduino-style toolchains)   # what CMake's RelWithDebInfo / MinSizeRel define
            'tsan': ('clang', ['-O1', '-g', '-fsanitize=thread'], {'TSAN_OPTIONS': 'halt_on_error=1:exitcode=66'}),
        }
        for v in variants:
            if v in meta: continue
            if v == 'nobzero':
                # config.h with HAVE_EXPLICIT_BZERO / HAVE_MEMSET_S switched off: the volatile fallback of tinyjambu_clean
                cfg2 = os.path.join(d, 'cfg_nobzero'); os.makedirs(cfg2, exist_ok=True)
                txt = open(meta['config_h']).read().replace('#define HAVE_EXPLICIT_BZERO', '/* #undef HAVE_EXPLICIT_BZERO */') \
                                                .replace('#define HAVE_MEMSET_S', '/* #undef HAVE_MEMSET_S */')
                open(os.path.join(cfg2, 'config.h'), 'w').write(txt)
                exe = compile_variant(d, v, 'gcc', ['-O3'], cfg2, log)
                exe2 = compile_variant(d, v + '-clang', 'clang', ['-O3'], cfg2, log)
                meta[v] = {'exe': exe, 'env': {}}; meta[v + '-clang'] = {'exe': exe2, 'env': {}}
            else:
                cc, flags, env = specs[v]
                exe = compile_variant(d, v, cc, flags, cfg, log)
                meta[v] = {'exe': exe, 'env': env}
            changed = True
        if changed:
            json.dump(meta, open(meta_p, 'w'), indent=1)
        meta['dir'] = d; meta['log'] = log; meta['hash'] = th
        os.utime(d)
        return meta
    finally:
        fcntl.flock(lock, fcntl.LOCK_UN); lock.close()

if __name__ == '__main__':
    vs = sys.argv[1:] or ['prod', 'san']
    t = time.time()
    try:
        m = build(vs)
    except RuntimeError as e:
        print(e); sys.exit(1)
    print(json.dumps({k: v for k, v in m.items() if k != 'log'}, indent=1))
    print('t=%.1f' % (time.time() - t))
