#!/usr/bin/env python3
"""Operation-stream generators (DESIGN.md 3.1): structured, mostly valid inputs built from the
API's own shapes, always including what the pinned tests never reach."""
from tjlib import *

BOUNDARY_LENS = list(range(0, 41)) + [63, 64, 65, 66, 255, 256, 257, 258, 1023, 1024, 1025, 1026] + list(range(4093, 4101))
AD_LENS = list(range(0, 10)) + [15, 16, 17, 31, 32, 33, 100]

def flip(b, bit):
    b = bytearray(b); b[bit // 8] ^= 1 << (bit % 8); return bytes(b)

def aead_line(op, c):
    return '%s %d %s %s %s %s %d %d' % (op, c['v'], hx(c['key']), hx(c['nonce']),
                                        'NULL' if c.get('ad_null') else hx(c['ad']),
                                        'NULL' if c.get('m_null') else hx(c['m']), c['inplace'], c['align'])

def aead_cases(g, tier, mode):
    """mode: 'aead' or 'siv'.  Every message length of BOUNDARY_LENS x two AD lengths x 3 variants,
    plus every AD length x two message lengths, plus random shapes."""
    cases = []
    reps = 1 if tier == 'quick' else 6
    for _ in range(reps):
        for v in (128, 192, 256):
            for ml in BOUNDARY_LENS:
                for al in g.sample(AD_LENS, 2):
                    cases.append((v, al, ml))
            for al in AD_LENS:
                for ml in g.sample(BOUNDARY_LENS, 2):
                    cases.append((v, al, ml))
        for _ in range(300):
            cases.append((g.choice([128, 192, 256]), g.randint(0, 70), g.randint(0, 300)))
    out = []
    lastkey = {}; lastnonce = None
    for (v, al, ml) in cases:
        key = g.bytes(KEYLEN[v]); nonce = g.bytes(12)
        # related keys / nonces across consecutive calls in one process (same key again, shared prefix or suffix,
        # one bit apart): any cached or leftover per-key state would show up as a difference from the model
        r = g.random()
        if v in lastkey and r < 0.35:
            k0 = lastkey[v]; h = KEYLEN[v] // 2
            rel = g.choice(['same', 'prefix', 'suffix', 'bit', 'prefix16'])
            if rel == 'same': key = k0
            elif rel == 'prefix': key = k0[:h] + g.bytes(KEYLEN[v] - h, 'rand')
            elif rel == 'prefix16': key = k0[:16] + g.bytes(KEYLEN[v] - 16, 'rand')
            elif rel == 'suffix': key = g.bytes(h, 'rand') + k0[h:]
            else: key = flip(k0, g.randint(0, KEYLEN[v] * 8 - 1))
            if lastnonce is not None and g.random() < 0.5: nonce = lastnonce
        lastkey[v] = key; lastnonce = nonce
        c = {'mode': mode, 'v': v, 'key': key, 'nonce': nonce, 'ad': g.bytes(al), 'm': g.bytes(ml),
             'inplace': 1 if g.random() < 0.4 else 0, 'align': g.randint(0, 7)}
        if al == 0 and g.random() < 0.5: c['ad_null'] = True
        if ml == 0 and not c['inplace'] and g.random() < 0.3: c['m_null'] = True
        out.append(c)
    # the pinned suite's own shape (test key/nonce, counting bytes) so that the trivial class is present too
    for v in (128, 192, 256):
        out.append({'mode': mode, 'v': v, 'key': bytes(range(KEYLEN[v])), 'nonce': bytes(range(12)), 'ad': bytes(range(5)),
                    'm': bytes(range(9)), 'inplace': 0, 'align': 0})
    return out

def nontrivial_aead(c):
    std = c['key'] == bytes(range(len(c['key']))) and c['nonce'] == bytes(range(12))
    special = any(b >= 0x80 for b in c['m'] + c['ad']) or len(c['m']) > 32 or len(c['ad']) > 32 or c['inplace'] or c['align']
    return (not std) and bool(special)

def tamper_cases(g, tier, packets):
    """packets: list of (case, ciphertext bytes).  Returns list of (case-for-dec, kind) where the dec case has field 'c'."""
    out = []
    for idx, (c, ct) in enumerate(packets):
        n = len(ct)
        base = dict(c); base['c'] = ct; base['inplace'] = 1 if g.random() < 0.4 else 0; base['align'] = g.randint(0, 7)
        base.pop('m_null', None)
        out.append((dict(base), 'valid'))
        # tag-only packets (empty message) always get the full set: with SIV the tag is also the IV, so a structured tag difference reaches the comparison unchanged only there
        full = (idx % 12 == 0) or tier == 'thorough' or n == 8
        bits = range(64) if full else g.sample(range(64), 3)
        for bit in bits:
            d = dict(base); d['c'] = ct[:n - 8] + flip(ct[n - 8:], bit); out.append((d, 'tagbit%d' % bit))
        if full:
            for _ in range(6):
                i, j = g.sample(range(8), 2)
                t = bytearray(ct[n - 8:]); t[i] ^= g.randint(1, 255); t[j] ^= g.randint(1, 255)
                d = dict(base); d['c'] = ct[:n - 8] + bytes(t); out.append((d, 'tag2byte'))
            # the same difference in two bytes (cancels in XOR-folded or word-wise comparisons), all 28 position pairs
            for i in range(8):
                for j in range(i + 1, 8):
                    x = g.choice([1, 0x80, 0xff, g.randint(1, 255)])
                    t = bytearray(ct[n - 8:]); t[i] ^= x; t[j] ^= x
                    d = dict(base); d['c'] = ct[:n - 8] + bytes(t); out.append((d, 'tagpair'))
        d = dict(base); d['c'] = ct[:n - 8] + g.bytes(8, 'rand'); out.append((d, 'tagrand'))
        if n > 8:
            for bit in g.sample(range((n - 8) * 8), min(3, (n - 8) * 8)):
                d = dict(base); d['c'] = flip(ct, bit); out.append((d, 'bodybit'))
            d = dict(base); d['c'] = ct[:n - 1]; out.append((d, 'trunc1'))
            d = dict(base); d['c'] = ct[1:]; out.append((d, 'dropfirst'))
        d = dict(base); d['c'] = ct + g.bytes(1); out.append((d, 'extend'))
        if len(c['ad']) > 0:
            d = dict(base); d['ad'] = flip(c['ad'], g.randint(0, len(c['ad']) * 8 - 1)); out.append((d, 'adbit'))
            # AD/message boundary shift: last AD byte moved to the front of the body
            d = dict(base); d['ad'] = c['ad'][:-1]; d['c'] = c['ad'][-1:] + ct; out.append((d, 'shift-ad-to-msg'))
        if n > 8:
            d = dict(base); d['ad'] = c['ad'] + ct[:1]; d['c'] = ct[1:]; d.pop('ad_null', None); out.append((d, 'shift-msg-to-ad'))
        d = dict(base); d['ad'] = c['ad'] + b'\x00'; d.pop('ad_null', None); out.append((d, 'adextend'))
        d = dict(base); d['nonce'] = flip(c['nonce'], g.randint(0, 95)); out.append((d, 'noncebit'))
        d = dict(base); d['key'] = flip(c['key'], g.randint(0, len(c['key']) * 8 - 1)); out.append((d, 'keybit'))
        if idx % 6 == 0:
            for k in range(0, 8):
                d = dict(base); d['c'] = ct[max(0, n - k):] if k else b''; out.append((d, 'short%d' % k))
    return out

def dec_line(op, d):
    return '%s %d %s %s %s %s %d %d' % (op, d['v'], hx(d['key']), hx(d['nonce']),
                                        'NULL' if d.get('ad_null') else hx(d['ad']), hx(d['c']), d['inplace'], d['align'])

def compositions(n):
    """all 2^(n-1) compositions of n"""
    if n == 0: return [[]]
    out = []
    for mask in range(1 << (n - 1)):
        parts = []; cur = 1
        for i in range(n - 1):
            if mask >> i & 1: parts.append(cur); cur = 1
            else: cur += 1
        parts.append(cur); out.append(parts)
    return out

def split_by(data, parts):
    out = []; i = 0
    for p in parts:
        out.append(data[i:i + p]); i += p
    return out

def random_chunking(g, n):
    parts = []
    while n > 0:
        k = g.choice([1, 2, 3, 5, 11, 15, 16, 17, 31, 32, 33, 64, 100, 0, 0])
        k = min(k, n)
        parts.append(k); n -= k
    return parts

STRUCTURED_CHUNKINGS = [[5, 11, 16], [15, 1, 16, 17], [1, 15, 16], [16, 16], [17, 15], [3, 13, 1, 15, 32, 1], [31, 1, 1, 31],
                        [0, 7, 0, 9, 0, 16, 0], [16, 0, 1], [8, 8, 8, 8, 8], [1] * 33, [47, 1, 16]]
