#!/usr/bin/env python3
"""gen_c07gen.py - writes lean/TJ/Props/C07Gen.lean: for each functional theorem on a regenerated entry point, the corollary that the instrumented run completes
(the secrecy monitor never fires) for every shape.  Run from /verif/lean; the output is committed and re-checked by Lean on every run."""
import re
SRC = [('C02Gen','encrypt_source_is_spec'),('C01Gen','decrypt_source_is_model'),('C01Gen','decrypt_short_source'),('C09Gen','siv_encrypt_source_is_spec'),('C08Gen','siv_decrypt_source_is_model'),
       ('C08Gen','siv_decrypt_short_source'),('C10Gen','hash_source_is_spec'),('C12Gen','hmac_source_is_rfc2104'),('StreamGen','hash_init_source'),('StreamGen','hash_reinit_source'),('StreamGen','hash_update_source'),('StreamGen','hash_finalize_source'),('StreamGen','hmac_init_source'),('StreamGen','hmac_reinit_source'),('StreamGen','hmac_update_source'),('StreamGen','hmac_finalize_source'),('C13Gen','hkdf_source_is_rfc5869'),('C13Gen','hkdf_source_cap'),('C13Gen','expand_source_is_model'),('C13Gen','extract_source_is_model'),('C14Gen','pbkdf2_source_is_rfc8018'),
       ('C15Gen','feed_source_is_model'),('C15Gen','set_limit_source_is_model'),('C15Gen','free_source_is_model'),('C15Gen','reseed_source_is_model'),('C15Gen','generate_source_is_model'),
       ('C15Gen','generate_source_system'),('C17Gen','init_user_source_is_model'),('C17Gen','init_source'),('C17Gen','init_user_null_source')]
out=[]
for mod,name in SRC:
    txt=open('TJ/Props/%s.lean'%mod).read()
    i=txt.index('theorem %s '%name)
    j=txt.index(':= by', i)
    stmt=txt[i:j]
    # split binders / conclusion at the line that starts the existential
    k=stmt.index('∃ fuel')
    binders=stmt[len('theorem %s '%name):k].rstrip()
    assert binders.endswith(':'), (name, binders[-40:])
    binders=binders[:-1].rstrip()
    concl=stmt[k:]
    m=re.match(r'∃ ([^,]+),', concl); exn=m.group(1).split()
    cf=re.search(r'(callFun prog fuel [\s\S]*?) st =', concl).group(1)
    first_is_model = not concl[m.end():].lstrip().startswith('callFun')
    # explicit binder names
    names=[]
    for grp in re.findall(r'\(([^():]+):', binders): names += grp.split()
    out.append((mod,name,binders,exn,cf,first_is_model,names))
L=['''/-
  C07 on the REGENERATED source, for ALL shapes: the functional theorems of TJ.Props.C0xGen / C1xGen conclude `callFun … = .ok …` in the INSTRUMENTED semantics
  `TJ.MiniC.exec`, whose secrecy monitor stops with the fault `taint` as soon as a secret-labelled value reaches a branch condition, an address, a length, a
  shift amount or a divisor.  So each of them also says: for EVERY input shape that meets the API contract (every message, AD, key, password, salt and data
  length, every count and round number, every placement of the buffers, every labelling of the data bytes — all of them may be secret), the run COMPLETES,
  i.e. the monitor never fires.  Together with `TJ.Props.C07.noninterference` (equal leakage traces for inputs that agree on everything public) this is the
  constant-time statement without the restriction to the shapes the check executes, for these entry points and all their callees:
    tinyjambu_{128,192,256}_aead_encrypt / _decrypt, tinyjambu_{128,192,256}_siv_encrypt / _decrypt, tinyjambu_hash, tinyjambu_hmac, tinyjambu_hkdf / _hkdf_extract / _hkdf_expand, tinyjambu_pbkdf2,
    tinyjambu_prng_init_user / _reseed / _generate / _feed / _set_reseed_limit / _free (user entropy callback), tinyjambu_prng_init, tinyjambu_prng_init_user with a NULL
    callback and tinyjambu_prng_generate with the system source (`tinyjambu_prng_system`; the OS shim below it is a primitive of the semantics).
  The streaming entry points tinyjambu_hash_init / _reinit / _update / _finalize and tinyjambu_hmac_init / _reinit / _update / _finalize are covered as top-level calls too (TJ.Props.StreamGen).
  (generated once by a script from the statements of those theorems; checked by Lean like everything else)
-/
import TJ.Props.C02Gen
import TJ.Props.C01Gen
import TJ.Props.C09Gen
import TJ.Props.C08Gen
import TJ.Props.C10Gen
import TJ.Props.C12Gen
import TJ.Props.StreamGen
import TJ.Props.C13Gen
import TJ.Props.C14Gen
import TJ.Props.C15Gen
import TJ.Props.C17Gen
namespace TJ.Props.C07Gen
open TJ TJ.MiniC TJ.MiniC.Hoare TJ.Gen.MiniC
''']
for mod,name,binders,exn,cf,fim,names in out:
    L.append('open TJ.Props.C15Gen TJ.Props.%s in'%mod)
    L.append('/-- every shape completes under the secrecy monitor (corollary of `TJ.Props.%s.%s`) -/'%(mod,name))
    L.append('theorem %s_never_taints %s :\n    ∃ fuel sig e st\', %s st = .ok sig e st\' := by'%(name, binders, cf))
    pat = ', '.join(exn + (['_', 'h', '_'] if fim else ['h', '_']))
    L.append('  obtain ⟨%s⟩ := %s %s'%(pat, name, ' '.join(names)))
    L.append('  exact ⟨fuel, _, _, _, h⟩\n')
L.append('end TJ.Props.C07Gen')
open('TJ/Props/C07Gen.lean','w').write('\n'.join(L)+'\n')
print(len(out))
