#!/usr/bin/env python3-vt
import json, jsonschema, glob, sys, os
V = os.path.dirname(os.path.dirname(os.path.abspath(__file__)))
jsonschema.validate(json.load(open(V + '/MANIFEST.json')), json.load(open('/root/.vp/MANIFEST.schema.json'))); print('manifest valid')
s = json.load(open('/root/.vp/EVIDENCE.schema.json')); bad = 0
for f in sorted(glob.glob(V + '/evidence/*.json')):
    try: jsonschema.validate(json.load(open(f)), s)
    except Exception as e: print(f, 'INVALID', str(e)[:300]); bad += 1
print('evidence files checked, invalid:', bad)
