#!/usr/bin/env python3
"""Generates the text of TJ.MiniC.Hoare.compress_body (lean/TJ/Proofs/HashC.lean) from a symbolic simulation of the 28 load/store groups
and the two permutation calls of tinyjambu_hash_compress.  The output is proof text only: Lean checks it against the term regenerated
from the C source, so a wrong simulation cannot prove anything.  Usage: python3 tools/gen_compress_proof.py > /tmp/compress_body.txt"""
# generates the main proof of the regenerated tinyjambu_hash_compress from a symbolic simulation
S=['s0','s1','s2','s3','k0','k1','k2','k3','m0','m1','m2','m3']
A=[None]*4; B=[None]*4
def L(xs): return '['+', '.join('none' if x is None else 'some (%s)'%x for x in xs)+']'
def W(): return 'mkW %s %s %s'%(L(S),L(A),L(B))
blk={'S':S,'A':A,'B':B}
class _L(list):
    def append(self,x): list.append(self,(x,W()))
steps=_L()
EV="evalE, hx, reduceCtorEq, if_false"
BIN="BinOp.needsPub2, BinOp.needsPub1, Bool.false_and, Bool.or_self, Bool.false_eq_true, Lab.join_sec_left, Lab.join_sec_right"
def step1(d,jd,l,il,t,x,r,inplace,valtac):
    v=blk[l][il]
    hla = 'Or.inr ⟨rfl, rfl, rfl⟩' if inplace else 'Or.inl rfl'
    blk[d][jd]=r
    return ("step1 CI_ .%s .%s %d %d %d %d _ _ (%s) (%s) (by decide) (by decide) (by decide) (by decide) (by decide) (%s) rfl\n      (fun e' h1 hx => by %s)"%(d,l,jd,il,t,x,v,r,hla,valtac))
def step2(d,jd,l1,i1,l2,i2,t,x,y,r,valtac):
    v1=blk[l1][i1]; v2=blk[l2][i2]
    blk[d][jd]=r
    return ("step2 CI_ .%s .%s .%s %d %d %d %d %d %d _ (%s) (%s) (%s) (by decide) (by decide) (by decide) (by decide) (by decide) (by decide) (by decide) (by decide) (by decide) rfl rfl\n      (fun e' hx hy => by %s)"%(d,l1,l2,jd,i1,i2,t,x,y,v1,v2,r,valtac))
def perm():
    key='[%s]'%', '.join(S[4:12]); st='⟨%s⟩'%', '.join(S[0:4])
    p='(perm256 %s 20 %s)'%(key,st)
    call="stepPerm CI_ idx_tinyjambu_permutation_256 hperm %s rfl"%' '.join('(%s)'%x for x in S)
    for i,f in enumerate('abcd'): S[i]='%s.%s'%(p,f)
    return call
# 1-4
for i in range(4):
    steps.append(step1('S',8+i,'S',8+i,4+2*i,5+2*i,'~~~ %s'%S[8+i],False,"simp only [%s, unVal_bnot_u32]"%EV))
# 5
steps.append(step1('S',0,'S',0,12,13,'%s ^^^ d32'%S[0],True,"simp only [evalE, hx, h1, reduceCtorEq, if_false, %s, hd, castVal_u32_u8 _ hd8, binVal_bxor_u32]"%BIN))
# 6-9
for i in range(4):
    steps.append(step1('A',i,'S',i,14+2*i,15+2*i,S[i],False,"simp only [%s]"%EV))
steps.append(perm())
for i in range(4):
    steps.append(step2('B',i,'A',i,'S',i,22+3*i,23+3*i,24+3*i,'(%s) ^^^ (%s)'%(A[i],S[i]),"simp only [evalE, hx, hy, reduceCtorEq, if_false, %s, binVal_bxor_u32]"%BIN))
steps.append(step1('A',0,'A',0,34,35,'(%s) ^^^ 1'%A[0],True,"simp only [%s, %s, castVal_u32_i32_one, binVal_bxor_u32_one]"%(EV,BIN)))
for i in range(4):
    steps.append(step1('S',i,'A',i,36+2*i,37+2*i,A[i],False,"simp only [%s]"%EV))
steps.append(perm())
for i in range(4):
    steps.append(step2('S',4+i,'S',i,'A',i,44+3*i,45+3*i,46+3*i,'~~~ ((%s) ^^^ (%s))'%(S[i],A[i]),"simp only [evalE, hx, hy, reduceCtorEq, if_false, %s, binVal_bxor_u32, unVal_bnot_u32]"%BIN))
for i in range(4):
    steps.append(step1('S',i,'B',i,56+2*i,57+2*i,B[i],False,"simp only [%s]"%EV))

out=[]
out.append("set_option linter.unusedSimpArgs false in\ntheorem compress_body (prog : Program) (hperm : prog[idx_tinyjambu_permutation_256]? = some f_tinyjambu_permutation_256) (g : Geo)\n"
 "    (d32 : UInt32) (hd : g.dom = d32.toNat) (hd8 : d32.toNat < 256) (env : Env) (st : St) (s0 s1 s2 s3 k0 k1 k2 k3 m0 m1 m2 m3 : UInt32)\n"
 "    (ci : CI g env st (mkW [some s0, some s1, some s2, some s3, some k0, some k1, some k2, some k3, some m0, some m1, some m2, some m3]\n"
 "      [none, none, none, none] [none, none, none, none])) :\n"
 "    RunsTo prog f_tinyjambu_hash_compress.body env st (fun sig e s => sig = .normal ∧ CI g e s (%s)) := by\n  simp only [f_tinyjambu_hash_compress]" % steps[-1][1])
prev='ci'
for i,(call,w) in enumerate(steps):
    c=call.replace('CI_',prev)
    isperm=c.startswith('stepPerm')
    hp="(fun s' h => ⟨rfl, h.congr (fun k => by cases k <;> rfl)⟩)" if isperm else "(fun e' s' h => ⟨rfl, h.congr (fun k => by cases k <;> rfl)⟩)"
    if i<len(steps)-1:
        out.append("  refine runs_seq (Q := fun e s => CI g e s (%s)) ?_ ?_"%w)
        out.append("  · exact %s\n      %s"%(c,hp))
        out.append("  intro e%d t%d c%d"%(i+1,i+1,i+1))
        prev='c%d'%(i+1)
    else:
        out.append("  exact %s\n      %s"%(c,hp))
print('\n'.join(out))
