#!/usr/bin/env python3
"""MiniC tier of the checks (C07, and the UB-fault oracle for C06).

  regenerate()      tools/c2lean.py on /repo's current sources -> lean/TJ/Gen/MiniC/Prog.lean, rebuild tjminic + TJ.Props.C07
  run_minic(lines)  the operation lines through the MiniC interpreter of the regenerated program (parallel for stateless streams)
  check(ctx)        C07: three-way agreement C = MiniC(regenerated source) on a family of public shapes with every data byte
                    labelled secret; no `taint` fault; identical leakage traces for two different choices of secrets.
                    By TJ.Props.C07.fault_verdict_independent_of_secrets one execution per shape decides all secrets."""
import os, sys, subprocess, json, hashlib, re, fcntl
from tjlib import *
from streams import *
import c2lean

MINIC = os.path.join(LEAN, '.lake', 'build', 'bin', 'tjminic')

def regenerate(ctx, targets=('tjminic', 'TJ.Props.C07')):
    """returns (ok, stats).  Holds the generator lock while writing and building."""
    lock = open(os.path.join(LEAN, '.gen.lock'), 'w'); fcntl.flock(lock, fcntl.LOCK_EX)
    try:
        cfg = os.path.dirname(ctx.meta['config_h']) if ctx.meta else None
        try:
            funs, stats = c2lean.regenerate(REPO, cfg)
            c2lean.regenerate_clean_fallback(REPO, cfg)
        except c2lean.TranslateError as e:
            return False, {'errors': [str(e)], 'functions': 0, 'translated': 0, 'globals': []}
        r = subprocess.run(['lake', 'build'] + list(targets), cwd=LEAN, stdout=subprocess.PIPE, stderr=subprocess.STDOUT, text=True)
        stats['build_ok'] = r.returncode == 0
        if r.returncode != 0: stats['build_log_tail'] = r.stdout[-2000:]
        return r.returncode == 0, stats
    finally:
        fcntl.flock(lock, fcntl.LOCK_UN); lock.close()

def run_minic(lines, trace=False, stateless=True, workers=16):
    def run(ch):
        r = subprocess.run([MINIC] + (['--trace'] if trace else []), input='\n'.join(ch) + '\n', stdout=subprocess.PIPE, stderr=subprocess.PIPE, text=True)
        out = r.stdout.split('\n')
        if out and out[-1] == '': out.pop()
        if len(out) != len(ch): out = out + ['fault driver-died rc=%d %s' % (r.returncode, r.stderr[-200:].replace('\n', ' '))] * (len(ch) - len(out))
        return out
    if not stateless: return run(lines)
    parts = chunked(lines, workers)
    return [x for p in parallel_map(run, parts, workers) for x in p]

def agrees(minic, impl):
    """every key=value token the MiniC driver prints must appear in the implementation's line"""
    if minic == impl: return True
    if minic in ('skip',): return True
    it = set(impl.split())
    return all(t in it for t in minic.split() if not t.startswith(('leak=', 'touch=')))

def resecret(line, g):
    """same public shape, different secret bytes: every data field is replaced by random bytes of the same length"""
    f = line.split(); op = f[0]; out = [op]
    for i, t in enumerate(f[1:], 1):
        if _is_count(op, i): out.append(t)
        elif op == 'p.script' and i == 2 and t != '-':
            out.append(','.join('%s:%s' % (hx(g.bytes(len(unhx(d.split(':')[0])), 'rand')), d.split(':')[1]) for d in t.split(',')))
        elif re.fullmatch(r'(?:[0-9a-f]{2})+', t): out.append(g.bytes(len(t) // 2, 'rand').hex())
        else: out.append(t)
    return ' '.join(out)

COUNT_FIELDS = {'perm': (1, 4), 'aead.enc': (1, 6, 7), 'aead.dec': (1, 6, 7), 'siv.enc': (1, 6, 7), 'siv.dec': (1, 6, 7), 'hkdf': (1,), 'pbkdf2': (1, 4),
                'clean': (1, 2), 'k.expand': (1, 3), 'p.gen': (1, 2), 'p.limit': (1, 2), 'p.inituser': (1, 2, 3), 'p.pokerc': (1, 2)}
def _is_count(op, i):
    if i == 1 and '.' in op and op.split('.')[0] in ('h', 'm', 'k', 'p'): return True
    return i in COUNT_FIELDS.get(op, ())

def shapes(ctx):
    """operation lines covering API x length residues x key sizes x counts; stateless and stateful parts"""
    g = ctx.g; st = []
    q = ctx.tier == 'quick'
    lens = [0, 1, 2, 3, 4, 5, 7, 8, 9, 15, 16, 17, 31, 33] + ([] if q else [63, 64, 65, 100, 255, 256, 257])
    for mode in ('aead', 'siv'):
        for v in (128, 192, 256):
            for al in ([0, 1, 2, 3, 4, 5, 9] if q else lens):
                for ml in (lens if al < 4 or not q else [0, 1, 6, 16]):
                    c = {'v': v, 'key': g.bytes(KEYLEN[v], 'rand'), 'nonce': g.bytes(12, 'rand'), 'ad': g.bytes(al, 'rand'), 'm': g.bytes(ml, 'rand'),
                         'inplace': (al + ml) % 2, 'align': (al * 3 + ml) % 8}
                    st.append(aead_line(mode + '.enc', c))
                    d = dict(c); d['c'] = g.bytes(ml + 8, 'rand'); st.append(dec_line(mode + '.dec', d))
            for k in (0, 3, 7):
                st.append(dec_line(mode + '.dec', {'v': v, 'key': g.bytes(KEYLEN[v]), 'nonce': g.bytes(12), 'ad': b'', 'c': g.bytes(k), 'inplace': 0, 'align': k}))
    for n in list(range(0, 40)) + [47, 48, 49, 63, 64, 65, 100, 200]:
        st.append('hash %s' % hx(g.bytes(n, 'rand')))
    for kl in [0, 1, 16, 32, 63, 64, 65, 100]:
        for ml in [0, 1, 15, 16, 17, 40]:
            st.append('hmac %s %s' % (hx(g.bytes(kl, 'rand')), hx(g.bytes(ml, 'rand'))))
    for n in [0, 1, 31, 32, 33, 64, 65, 100] + ([] if q else [255 * 32, 255 * 32 + 1]):
        st.append('hkdf %d %s %s %s' % (n, hx(g.bytes(g.choice([0, 16, 70]), 'rand')), hx(g.bytes(g.choice([0, 16, 65]), 'rand')), hx(g.bytes(g.choice([0, 5]), 'rand'))))
    for n in [0, 1, 31, 32, 33, 65]:
        for c in [0, 1, 2, 3]:
            st.append('pbkdf2 %d %s %s %d' % (n, hx(g.bytes(g.choice([0, 8, 64, 65]), 'rand')), hx(g.bytes(g.choice([0, 8]), 'rand')), c))
    for t in range(12):
        t1 = g.bytes(8, 'rand'); t2 = t1 if t % 3 == 0 else flip(t1, g.randint(0, 63))
        st.append('checktag %s %s %s' % (hx(g.bytes([0, 1, 5, 40][t % 4], 'rand')), hx(t1), hx(t2)))
    for off in range(4):
        for n in (0, 1, 7, 8, 33): st.append('clean %d %d %s' % (off, n, hx(g.bytes(off + n + 4, 'rand'))))
    for v in (128, 192, 256):
        for r in (0, 1, 2, 3, 5, 8, 9, 10, 20): st.append('perm %d %s %s %d' % (v, hx(g.bytes(16, 'rand')), hx(g.bytes(KEYLEN[v], 'rand')), r))
    # incremental interfaces: histories over objects (state objects persist across lines)
    hist = []
    for a in [0, 1, 15, 16, 17, 33]:
        for b in [0, 1, 15, 16, 31]:
            hist += ['h.init 0', 'h.update 0 %s' % hx(g.bytes(a, 'rand')), 'h.update 0 %s' % hx(g.bytes(b, 'rand')), 'h.final 0']
            k = g.bytes(g.choice([0, 1, 64, 65]), 'rand')
            hist += ['m.init 1 %s' % hx(k), 'm.update 1 %s' % hx(g.bytes(a, 'rand')), 'm.update 1 %s' % hx(g.bytes(b, 'rand')), 'm.final 1 %s' % hx(k)]
        hist += ['k.extract 2 %s %s' % (hx(g.bytes(5, 'rand')), hx(g.bytes(a, 'rand'))), 'k.expand 2 %s %d' % (hx(g.bytes(3, 'rand')), a), 'k.expand 2 03 %d' % (40 - a), 'k.expand 2 03 33']
    hist += ['m.reinit 1 %s' % hx(g.bytes(70, 'rand')), 'm.update 1 00', 'm.final 1 %s' % hx(g.bytes(70, 'rand'))]
    for n in [0, 1, 31, 32, 33, 64, 100] + ([] if q else [1025, 1100]):
        hist += ['p.script 3 %s' % ','.join('%s:%d' % (hx(g.bytes(k, 'rand')), k) for k in (32, 32, 7, 0, 32)),
                 'p.inituser 3 user 1 %s' % hx(g.bytes(n % 40, 'rand')), 'p.gen 3 %d' % n, 'p.feed 3 %s' % hx(g.bytes(n % 50, 'rand')),
                 'p.gen 3 %d' % (70 - n if n <= 70 else 3), 'p.reseed 3', 'p.limit 3 %d' % n, 'p.gen 3 65', 'p.dump 3']
    hist += ['h.free 0', 'm.free 1', 'k.free 2', 'p.free 3', 'h.dump 0', 'p.dump 3']
    return st, hist

def check(ctx):
    ok, stats = regenerate(ctx)
    ctx.extra_cov['minic'] = {k: stats.get(k) for k in ('functions', 'translated', 'nodes', 'globals', 'errors', 'build_ok')}
    if stats.get('errors'):
        ctx.broken_proofs.append('tools/c2lean.py cannot translate the current sources into the MiniC subset: ' + '; '.join(stats['errors'][:3]))
    if stats.get('globals'):
        ctx.broken_proofs.append('file-scope variable(s) in the library, outside the model: ' + ', '.join(stats['globals'][:5]))
    if not ok and not stats.get('errors'):
        ctx.broken_proofs.append('regenerated MiniC program or TJ.Props.C07 no longer builds: ' + stats.get('build_log_tail', '')[-600:])
    if not os.path.exists(MINIC) or not stats.get('build_ok'):
        return
    st, hist = shapes(ctx)
    g2 = Gen(ctx.seed, 'resecret')
    for name, lines, stateless in (('minic-shapes(stateless)', st, True), ('minic-shapes(histories)', hist, False)):
        lines2 = [resecret(l, g2) for l in lines]
        a = run_minic(lines, trace=True, stateless=stateless)
        b = run_minic(lines2, trace=True, stateless=stateless)
        impl = run_impl(ctx.meta, 'prod', lines)
        s = ctx.streams.setdefault(name, {'evaluations': 0, 'nontrivial': set(), 'diffs': 0})
        s['evaluations'] += 2 * len(lines)
        nt = 0; taints = 0; faults = 0; mism = 0; leakdiff = 0
        for l, l2, x, y, c in zip(lines, lines2, a, b, impl):
            s['nontrivial'].add(hashlib.md5(re.sub(r'[0-9a-f]{6,}', lambda m: 'H%d' % (len(m.group(0)) // 2), l).encode()).digest())
            ctx.dist['minic:' + l.split()[0]] += 1
            for which, line, res in (('first', l, x), ('second', l2, y)):
                if res.startswith('fault taint'):
                    taints += 1
                    if taints <= 2:
                        ctx.fail('secret-dependent-branch-or-address(source)', [line], res, 'no taint fault',
                                 'executing the regenerated C source on this public shape, a value derived from secret bytes reaches a branch condition, an address, a length, '
                                 'a shift amount or a division (%s); by TJ.Props.C07.fault_verdict_independent_of_secrets this happens for every choice of the secret bytes of this shape. '
                                 'Replay: tjminic on this line.' % res, variant='minic')
                elif res.startswith('fault'):
                    faults += 1
                    if faults <= 1: ctx.broken_proofs.append('MiniC interpreter of the regenerated source faults on "%s": %s' % (line[:120], res[:160]))
            xs = re.sub(r' (leak|touch)=\S+', '', x)
            if not x.startswith('fault') and not agrees(xs, c):
                mism += 1; s['diffs'] += 1
                if mism <= 1: ctx.broken_proofs.append('MiniC(regenerated source) and the compiled implementation disagree on "%s": minic=%s impl=%s' % (l[:120], xs[:120], c[:120]))
            lx, ly = field(x, 'leak'), field(y, 'leak')
            if lx is not None and ly is not None and lx != ly and not x.startswith('fault') and not y.startswith('fault'):
                leakdiff += 1
                ctx.broken_proofs.append('leakage traces differ between two choices of secrets on "%s" (%s vs %s): contradicts TJ.Props.C07.leak_independent_of_secrets, interpreter/driver bug' % (l[:100], lx, ly))
        if lines and len(ctx.samples) < 8:
            k = ctx.g.randint(0, len(lines) - 1)
            ctx.samples.append({'stream': name, 'op': lines[k][:200], 'same_shape_other_secrets': lines2[k][:200], 'minic': a[k][:200], 'minic_other_secrets': b[k][:200], 'impl': impl[k][:200]})
        ctx.extra_cov.setdefault('minic_runs', {})[name] = {'shapes': len(lines), 'taint_faults': taints, 'other_faults': faults, 'disagreements_with_impl': mism, 'leak_trace_differences': leakdiff}
    ctx.variants_used.add('minic')
    ctx.assume += ['MiniC semantics (lean/TJ/MiniC/Sem.lean) and the translator tools/c2lean.py are this project\'s reading of C for the subset the library uses; validated by executing the regenerated program against the compiled code on the shapes listed, not proved against a C standard',
                   'taint-freedom is established per executed public shape (for all secrets of that shape, by theorem); shapes not executed are not covered']
