#!/usr/bin/env python3
"""avr2lean.py — translate the AVR5 assembly back ends of /repo (tinyjambu-{128,192,256}-asm-avr5.S) into Lean data and proof obligations
(lean/TJ/Gen/Asm/avr5_*.lean), regenerated on every run.  Same discipline as asm2lean.py: the file is run through `cpp -P` under the target's
predefined macros, every remaining line must parse into one constructor of TJ.Asm.Avr.Instr (unknown mnemonics or operand forms fail loudly), and the
emitted proof script is a fixed template instantiated with facts read off the program text; every step is checked by Lean."""
import os, re, subprocess, sys, json

REPO = os.environ.get('VERIF_REPO', '/repo')
BACKEND = os.path.join(REPO, 'src', 'backend')
VERIF = os.path.dirname(os.path.dirname(os.path.abspath(__file__)))
GEN = os.path.join(VERIF, 'lean', 'TJ', 'Gen', 'Asm')
INC = os.path.join(VERIF, 'tools', 'avrinc')      # an empty <avr/io.h>
NK = {128: 4, 192: 6, 256: 8}

class TranslateError(Exception):
    pass

def cpp(path):
    cmd = ['cpp', '-P', '-undef', '-nostdinc', '-I', BACKEND, '-I', INC, '-D__AVR__', '-D__AVR_ARCH__=5', path]
    r = subprocess.run(cmd, capture_output=True, text=True)
    if r.returncode != 0: raise TranslateError('cpp failed on %s: %s' % (path, r.stderr[:300]))
    return r.stdout

def R(x, l):
    m = re.match(r'^r(\d+)$', x.strip())
    if not m or not (0 <= int(m.group(1)) < 32): raise TranslateError('bad register %r in %r' % (x, l))
    return int(m.group(1))

def parse(lines):
    """-> list of micro tuples; numeric local labels are resolved to the next (f) / previous (b) definition"""
    items = []
    for l in lines:
        l = l.split(';')[0].strip()
        if not l: continue
        if re.match(r'^\.L\w+\s*=', l): continue                 # .L__stack_usage = 18
        if l.startswith('.') and not l.endswith(':'): continue   # directives
        m = re.match(r'^([.\w$]+):$', l)
        if m: items.append(('labeldef', m.group(1))); continue
        parts = l.split(None, 1); mn = parts[0]; ops = [o.strip() for o in parts[1].split(',')] if len(parts) > 1 else []
        if mn in ('mov', 'movw', 'eor', 'and') and len(ops) == 2: items.append((mn, R(ops[0], l), R(ops[1], l)))
        elif mn in ('lsl', 'lsr', 'rol', 'ror', 'dec', 'push', 'pop') and len(ops) == 1: items.append((mn, R(ops[0], l)))
        elif mn in ('ld', 'ldd') and len(ops) == 2:
            m2 = re.match(r'^Z(?:\+(\d+))?$', ops[1])
            if not m2: raise TranslateError('unsupported load operand in %r' % l)
            items.append(('ldz', R(ops[0], l), int(m2.group(1) or 0)))
        elif mn in ('st', 'std') and len(ops) == 2:
            m2 = re.match(r'^Z(?:\+(\d+))?$', ops[0])
            if not m2: raise TranslateError('unsupported store operand in %r' % l)
            items.append(('stz', int(m2.group(1) or 0), R(ops[1], l)))
        elif mn in ('breq', 'brne', 'rjmp') and len(ops) == 1: items.append((mn, ops[0]))
        elif mn == 'ret' and not ops: items.append(('ret',))
        else: raise TranslateError('unsupported instruction %r' % l)
    # resolve labels: every definition gets a fresh number; references pick the nearest definition in their direction
    defs = [(i, it[1]) for i, it in enumerate(items) if it[0] == 'labeldef']
    num = {i: k for k, (i, _) in enumerate(defs)}
    out = []
    for i, it in enumerate(items):
        if it[0] == 'labeldef': out.append(('label', num[i])); continue
        if it[0] in ('breq', 'brne', 'rjmp'):
            ref = it[1]
            m = re.match(r'^(\d+)([fb])$', ref)
            if m:
                name, dirn = m.group(1), m.group(2)
                cands = [j for j, n in defs if n == name and (j > i if dirn == 'f' else j < i)]
                if not cands: raise TranslateError('unresolved label %r' % ref)
                j = min(cands) if dirn == 'f' else max(cands)
            else:
                cands = [j for j, n in defs if n == ref]
                if len(cands) != 1: raise TranslateError('unresolved label %r' % ref)
                j = cands[0]
            out.append((it[0], num[j])); continue
        out.append(it)
    return out

def lean(m):
    k = m[0]
    if k in ('mov', 'movw', 'eor', 'and'): return '.%s .r%d .r%d' % (k, m[1], m[2])
    if k in ('lsl', 'lsr', 'rol', 'ror', 'dec', 'push', 'pop'): return '.%s .r%d' % (k, m[1])
    if k == 'ldz': return '.ldz .r%d %d#16' % (m[1], m[2])
    if k == 'stz': return '.stz %d#16 .r%d' % (m[1], m[2])
    if k in ('breq', 'brne', 'rjmp', 'label'): return '.%s %d' % (k, m[1])
    if k == 'ret': return '.ret'
    raise TranslateError('cannot emit %r' % (m,))

def translate(bits):
    path = os.path.join(BACKEND, 'tinyjambu-%d-asm-avr5.S' % bits)
    micro = parse(cpp(path).split('\n'))
    if not micro: raise TranslateError('%s: nothing selected' % path)
    return {'bits': bits, 'path': path, 'micro': micro}

if __name__ == '__main__':
    for b in (128, 192, 256):
        t = translate(b)
        print(b, len(t['micro']), [m for m in t['micro'] if m[0] in ('label', 'breq', 'brne', 'rjmp', 'ret', 'dec')])

# ----------------------------------------------------------------------------------------- analysis and emission
def analyse(t):
    mi = t['micro']; bits = t['bits']; nk = NK[bits]
    labs = {m[1]: i for i, m in enumerate(mi) if m[0] == 'label'}
    if mi[0] != ('label', 0): raise TranslateError('program does not start with its entry label')
    l1 = labs[1]
    pre = mi[1:l1]
    if any(m[0] in ('breq', 'brne', 'rjmp', 'ret', 'label') for m in pre): raise TranslateError('control flow in the prologue')
    if ('movw', 30, 24) not in pre: raise TranslateError('prologue does not move the state pointer to Z')
    byte_reg = {}
    for m in pre:
        if m[0] == 'ldz': byte_reg[m[2]] = m[1]
    if sorted(byte_reg) != list(range(16)): raise TranslateError('prologue does not load the 16 state bytes')
    W = [[byte_reg[4 * w + b] for b in range(4)] for w in range(4)]
    # segments: label, body, dec r22, branch form
    segs = []; pc = l1
    while True:
        if mi[pc][0] != 'label': raise TranslateError('segment does not start at a label (pc %d)' % pc)
        start = pc; pc += 1; body = []
        while mi[pc][0] not in ('dec', 'breq', 'brne', 'rjmp', 'ret', 'label'):
            body.append(mi[pc]); pc += 1
        if mi[pc] != ('dec', 22): raise TranslateError('segment does not end with dec r22 (pc %d)' % pc)
        decpc = pc; pc += 1
        b1, b2 = mi[pc], mi[pc + 1]
        if b1[0] == 'brne' and b2[0] == 'rjmp':      # continue with the next segment, or leave
            form = 'A'; nxt = labs[b1[1]]; ext = labs[b2[1]]
            if nxt != pc + 2: raise TranslateError('brne target is not the next line')
        elif b1[0] == 'breq' and b2[0] == 'rjmp':    # last segment: leave, or back to the loop head
            form = 'B'; ext = labs[b1[1]]; nxt = labs[b2[1]]
            if nxt != l1: raise TranslateError('back edge does not go to the loop head')
        else: raise TranslateError('unrecognised loop control at pc %d: %r %r' % (pc, b1, b2))
        # split the body into four word updates: each ends with the fourth `eor rX, r0`
        subs = []; cur = []; cnt = 0
        for m in body:
            cur.append(m)
            if m[0] == 'eor' and m[2] == 0:
                cnt += 1
                if cnt == 4: subs.append(cur); cur = []; cnt = 0
        if cur or len(subs) != 4: raise TranslateError('segment at pc %d is not four word updates' % start)
        keys = []
        for sb in subs:
            ks = [m[2] for m in sb if m[0] == 'ldz']
            if len(ks) != 4 or ks != list(range(ks[0], ks[0] + 4)) or (ks[0] - 16) % 4 or not (0 <= (ks[0] - 16) // 4 < nk): raise TranslateError('unexpected key loads %r' % ks)
            keys.append((ks[0] - 16) // 4)
        segs.append({'start': start, 'subs': subs, 'keys': keys, 'decpc': decpc, 'form': form, 'next': nxt, 'exit': ext, 'brpc': pc})
        pc += 2
        if form == 'B': break
    n = len(segs)
    for j, sg in enumerate(segs):
        exp = [(4 * j + w) % nk for w in range(4)]
        if sg['keys'] != exp: raise TranslateError('segment %d uses key words %r, expected %r' % (j, sg['keys'], exp))
    if (4 * n) % nk: raise TranslateError('loop period does not match the key length')
    # exits: form B jumps to a label that is followed by further labels up to the common exit
    exit_pc = max(sg['exit'] for sg in segs)
    while mi[exit_pc + 1][0] == 'label': exit_pc += 1
    for sg in segs:
        for q in range(sg['exit'], exit_pc):
            if mi[q][0] != 'label': raise TranslateError('exit paths do not meet')
    if mi[exit_pc][0] != 'label': raise TranslateError('exit is not a label')
    post = mi[exit_pc + 1:-1]
    if mi[-1] != ('ret',) or any(m[0] in ('breq', 'brne', 'rjmp', 'ret', 'label') for m in post): raise TranslateError('unexpected epilogue')
    st = {m[1]: m[2] for m in post if m[0] == 'stz'}
    if sorted(st) != list(range(16)) or any(st[q] != byte_reg[q] for q in range(16)): raise TranslateError('epilogue does not store the 16 state bytes back')
    pushes = [m[1] for m in pre if m[0] == 'push']; pops = [m[1] for m in post if m[0] == 'pop']
    if pops != pushes[::-1]: raise TranslateError('pops do not mirror pushes')
    return {'l1': l1, 'pre': pre, 'W': W, 'segs': segs, 'n': n, 'nk': nk, 'exit_pc': exit_pc, 'post': post, 'pushes': pushes, 'labs': labs}

WN = ['Wa', 'Wb', 'Wc', 'Wd']

def lst(items):
    return '[\n' + ',\n'.join('  ' + x for x in items) + ']'

def emit(t):
    a = analyse(t); mi = t['micro']; bits = t['bits']; W = a['W']; n = a['n']; nk = a['nk']; segs = a['segs']
    name = 'avr5_%d' % bits
    endpc = len(mi) - 1
    L = []
    L.append('/- GENERATED by tools/avr2lean.py from src/backend/%s — do not edit.  %d instructions, %d round segment(s) per loop traversal, %d key words. -/' % (os.path.basename(t['path']), len(mi), n, nk))
    L += ['import TJ.Asm.Avr', 'set_option maxRecDepth 100000', 'set_option maxHeartbeats 1000000', 'namespace TJ.Gen.Asm.%s' % name, 'open TJ.Asm.Avr',
          'open TJ.Asm (roundBV roundAtBV S4 permBV permBV_congr)', 'open TJ (wordFormula)', '']
    L.append('def prog : Prog := ' + lst([lean(m) for m in mi])); L.append('')
    def block(nm, lo, items):
        L.append('def %s : List Instr := %s' % (nm, lst([lean(m) for m in items])))
        L.append('theorem %s_slice : (prog.drop %d).take %s.length = %s := by decide +kernel' % (nm, lo, nm, nm))
        L.append('theorem %s_noctl : %s.all (fun i => !i.isCtl) = true := by decide +kernel' % (nm, nm)); L.append('')
    block('pre', 1, a['pre'])
    for j, sg in enumerate(segs):
        pc = sg['start'] + 1
        for w, sb in enumerate(sg['subs']):
            block('s%d_%d' % (j, w), pc, sb); sg.setdefault('subpc', []).append(pc); pc += len(sb)
        assert pc == sg['decpc']
    block('post', a['exit_pc'] + 1, a['post'])
    for k, i in sorted(a['labs'].items()):
        L.append('theorem lab_%d : findLabel prog %d = %d := by decide +kernel' % (k, k, i))
    fetch = set()
    for sg in segs:
        fetch.update([sg['start'], sg['decpc'], sg['brpc'], sg['brpc'] + 1])
        for q in range(sg['exit'], a['exit_pc'] + 1): fetch.add(q)
    fetch.update([0, endpc])
    for q in sorted(fetch):
        L.append('theorem fetch_%d : prog[%d]? = some (%s) := by decide +kernel' % (q, q, lean(mi[q])))
    L.append(''); L.append('attribute [irreducible] prog'); L.append('')
    for w in range(4):
        L.append('def %s (d : D) : BitVec 32 := cat4 d.r.r%d d.r.r%d d.r.r%d d.r.r%d' % (WN[w], W[w][0], W[w][1], W[w][2], W[w][3]))
    L.append('/-- key word `k` (pre-inverted), read through the Z pointer -/')
    L.append('def K (d : D) : Nat → BitVec 32')
    for k in range(nk):
        L.append('  | %d => cat4 %s' % (k, ' '.join('(d.mem (zptr d + %d#16))' % (16 + 4 * k + b) for b in range(4))))
    L.append('  | _ => 0'); L.append('')
    L.append('theorem K_congr (d\' d : D) (hm : d\'.mem = d.mem) (h30 : d\'.r.r30 = d.r.r30) (h31 : d\'.r.r31 = d.r.r31) (k : Nat) : K d\' k = K d k := by')
    L.append('  unfold K; split <;> simp only [zptr, hm, h30, h31]'); L.append('')
    FR = [30, 31, 22, 28, 29]
    for j, sg in enumerate(segs):
        for w in range(4):
            nm = 's%d_%d' % (j, w); o = [WN[(w + i) % 4] for i in range(4)]
            L.append('theorem %s_word (d : D) : %s (%s.foldl execD d) = wordFormula (%s d) (%s d) (%s d) (%s d) (K d %d) := by' % (nm, WN[w], nm, o[0], o[1], o[2], o[3], sg['keys'][w]))
            L.append('  simp only [%s, List.foldl, execD, Regs.get, Regs.set, R.next, zptr, wordFormula, cat4, Wa, Wb, Wc, Wd, K]' % nm)
            L.append('  sorry' if os.environ.get('AVR_DEBUG') else '  bv_decide')
            others = [v for v in range(4) if v != w]
            L.append('theorem %s_frame (d : D) : %s ∧ %s ∧ (%s.foldl execD d).mem = d.mem ∧ (%s.foldl execD d).stk = d.stk := by' % (
                nm, ' ∧ '.join('%s (%s.foldl execD d) = %s d' % (WN[v], nm, WN[v]) for v in others),
                ' ∧ '.join('(%s.foldl execD d).r.r%d = d.r.r%d' % (nm, r, r) for r in FR), nm, nm))
            L.append('  have g : ∀ r, %s.all (fun i => decide (r ∉ i.writes)) = true → (%s.foldl execD d).r.get r = d.r.get r := fun r h => fold_get_unwritten _ _ r h' % (nm, nm))
            L.append('  refine ⟨%s, %s, fold_mem_unchanged _ _ (by decide +kernel), fold_stk_unchanged _ _ (by decide +kernel)⟩' % (
                ', '.join('?_' for _ in others), ', '.join('g .r%d (by decide +kernel)' % r for r in FR)))
            for v in others:
                L.append('  · simp only [%s]' % WN[v])
                L.append('    rw [%s]' % ', '.join('show (%s.foldl execD d).r.r%d = d.r.r%d from g .r%d (by decide +kernel)' % (nm, r, r, r) for r in W[v]))
        # the whole round
        ks = sg['keys']
        L.append('def seg%d_run (d : D) : D := s%d_3.foldl execD (s%d_2.foldl execD (s%d_1.foldl execD (s%d_0.foldl execD d)))' % (j, j, j, j, j))
        L.append('theorem seg%d_round (d : D) :' % j)
        L.append('    (⟨Wa (seg%d_run d), Wb (seg%d_run d), Wc (seg%d_run d), Wd (seg%d_run d)⟩ : S4) = roundBV ⟨Wa d, Wb d, Wc d, Wd d⟩ (K d %d) (K d %d) (K d %d) (K d %d) ∧' % ((j, j, j, j) + tuple(ks)))
        L.append('    %s ∧ (seg%d_run d).mem = d.mem ∧ (seg%d_run d).stk = d.stk := by' % (' ∧ '.join('(seg%d_run d).r.r%d = d.r.r%d' % (j, r, r) for r in FR), j, j))
        L.append('  unfold seg%d_run' % j)
        L.append('  have w0 := s%d_0_word d; obtain ⟨a0b, a0c, a0d, a0r30, a0r31, a0r22, a0r28, a0r29, a0m, a0s⟩ := s%d_0_frame d' % (j, j))
        L.append('  generalize hd1 : s%d_0.foldl execD d = d1 at *' % j)
        L.append('  have w1 := s%d_1_word d1; obtain ⟨a1a, a1c, a1d, a1r30, a1r31, a1r22, a1r28, a1r29, a1m, a1s⟩ := s%d_1_frame d1' % (j, j))
        L.append('  generalize hd2 : s%d_1.foldl execD d1 = d2 at *' % j)
        L.append('  have w2 := s%d_2_word d2; obtain ⟨a2a, a2b, a2d, a2r30, a2r31, a2r22, a2r28, a2r29, a2m, a2s⟩ := s%d_2_frame d2' % (j, j))
        L.append('  generalize hd3 : s%d_2.foldl execD d2 = d3 at *' % j)
        L.append('  have w3 := s%d_3_word d3; obtain ⟨a3a, a3b, a3c, a3r30, a3r31, a3r22, a3r28, a3r29, a3m, a3s⟩ := s%d_3_frame d3' % (j, j))
        L.append('  generalize hd4 : s%d_3.foldl execD d3 = d4 at *' % j)
        L.append('  have k1 : K d1 %d = K d %d := K_congr d1 d a0m a0r30 a0r31 _' % (ks[1], ks[1]))
        L.append('  have k2 : K d2 %d = K d %d := by rw [K_congr d2 d1 a1m a1r30 a1r31, K_congr d1 d a0m a0r30 a0r31]' % (ks[2], ks[2]))
        L.append('  have k3 : K d3 %d = K d %d := by rw [K_congr d3 d2 a2m a2r30 a2r31, K_congr d2 d1 a1m a1r30 a1r31, K_congr d1 d a0m a0r30 a0r31]' % (ks[3], ks[3]))
        L.append('  refine ⟨?_, by rw [a3r30, a2r30, a1r30, a0r30], by rw [a3r31, a2r31, a1r31, a0r31], by rw [a3r22, a2r22, a1r22, a0r22], by rw [a3r28, a2r28, a1r28, a0r28], by rw [a3r29, a2r29, a1r29, a0r29],')
        L.append('    by rw [a3m, a2m, a1m, a0m], by rw [a3s, a2s, a1s, a0s]⟩')
        L.append('  simp only [roundBV]')
        L.append('  rw [a3a, a2a, a1a, w0, a3b, a2b, w1, a0b, a0c, a0d, w0, k1, a3c, w2, a1c, a1d, a1a, w0, a0c, a0d, w1, a0b, a0c, a0d, w0, k1, k2, w3, a2d, a2a, a2b, a1d, a0d, a1a, w0, w1, a0b, a0c, a0d, w0, k1, w2, a1c, a1d, a1a, a0c, a0d, w0, w1, a0b, a0c, a0d, w0, k1, k2, k3]')
        L.append('')

    # ---------------------------------------------------------------- loop invariant and the per-segment step
    L.append('/-- loop invariant at the head of a round segment; `d1` is the state after the prologue -/')
    L.append('structure Inv (d1 : D) (d : D) (s : S4) (m : Nat) : Prop where')
    L += ['  sa : Wa d = s.a', '  sb : Wb d = s.b', '  sc : Wc d = s.c', '  sd : Wd d = s.d', '  cnt : d.r.r22 = BitVec.ofNat 8 m', '  le : m ≤ 256',
          '  mem : d.mem = d1.mem', '  stk : d.stk = d1.stk', '  f30 : d.r.r30 = d1.r.r30', '  f31 : d.r.r31 = d1.r.r31', '  f28 : d.r.r28 = d1.r.r28', '  f29 : d.r.r29 = d1.r.r29', '']
    L.append('def decb : List Instr := [.dec .r22]')
    L.append('def pcs : Nat → Nat')
    for j, sg in enumerate(segs[1:], 1): L.append('  | %d => %d' % (j, sg['start']))
    L.append('  | _ => %d' % segs[0]['start']); L.append('')
    EXIT = a['exit_pc']
    for j, sg in enumerate(segs):
        ks = sg['keys']; sp = sg['subpc']; lens = [len(x) for x in sg['subs']]
        L.append('theorem dec%d_slice : (prog.drop %d).take decb.length = decb := by decide +kernel' % (j, sg['decpc']))
        L.append('theorem H%d (d1 : D) (d : D) (s : S4) (m : Nat) (hi : Inv d1 d s m) (hm : 1 ≤ m) :' % j)
        L.append('    ∃ k d\', run prog k ⟨d, %d, false⟩ = ⟨d\', if m = 1 then %d else %d, false⟩ ∧ Inv d1 d\' (roundAtBV %d (K d1) %d s) (m - 1) := by' % (sg['start'], EXIT, segs[(j + 1) % n]['start'], nk, j))
        L.append('  have hra : roundAtBV %d (K d1) %d s = roundBV s (K d1 %d) (K d1 %d) (K d1 %d) (K d1 %d) := rfl' % ((nk, j) + tuple(ks)))
        L.append('  obtain ⟨hw, h30, h31, h22, h28, h29, hmem, hstk⟩ := seg%d_round d' % j)
        L.append('  have hK : ∀ k, K d k = K d1 k := K_congr d d1 hi.mem hi.f30 hi.f31')
        L.append('  rw [hi.sa, hi.sb, hi.sc, hi.sd, hK, hK, hK, hK, ← hra] at hw')
        L.append('  have hw\' := S4.mk.inj hw')
        L.append('  generalize hd4 : seg%d_run d = d4 at *' % j)
        L.append('  have hrun4 : run prog (1 + (s%d_0.length + (s%d_1.length + (s%d_2.length + (s%d_3.length + decb.length))))) ⟨d, %d, false⟩ = ⟨decb.foldl execD d4, %d, false⟩ := by' % (j, j, j, j, sg['start'], sg['brpc']))
        L.append('    have h0 : run prog 1 ⟨d, %d, false⟩ = ⟨d, %d, false⟩ := by simp only [run]; exact step_label prog d %d _ fetch_%d' % (sg['start'], sp[0], sg['start'], sg['start']))
        for w in range(4):
            L.append('    have e%d : %d + s%d_%d.length = %d := by decide' % (w, sp[w], j, w, sp[w] + lens[w]))
        L.append('    have e4 : %d + decb.length = %d := by decide' % (sg['decpc'], sg['brpc']))
        L.append('    rw [run_add, h0, run_add, run_slice prog s%d_0 d %d s%d_0_slice s%d_0_noctl, e0, run_add, run_slice prog s%d_1 _ %d s%d_1_slice s%d_1_noctl, e1, run_add, run_slice prog s%d_2 _ %d s%d_2_slice s%d_2_noctl, e2,' % (j, sp[0], j, j, j, sp[1], j, j, j, sp[2], j, j))
        L.append('      run_add, run_slice prog s%d_3 _ %d s%d_3_slice s%d_3_noctl, e3, run_slice prog decb _ %d dec%d_slice (by decide), e4]' % (j, sp[3], j, j, sg['decpc'], j))
        L.append('    rw [← hd4]; rfl')
        L.append('  generalize hd5 : decb.foldl execD d4 = d5 at hrun4')
        L.append('  have h5r : d5.r.r22 = BitVec.ofNat 8 (m - 1) := by rw [← hd5]; show d4.r.r22 - 1#8 = _; rw [h22, hi.cnt, cnt_pred m hm]')
        L.append('  have h5z : d5.z = decide (BitVec.ofNat 8 (m - 1) = 0) := by rw [← hd5]; show decide (d4.r.r22 - 1#8 = 0) = _; rw [h22, hi.cnt, cnt_pred m hm]')
        L.append('  have hinv : Inv d1 d5 (roundAtBV %d (K d1) %d s) (m - 1) := by' % (nk, j))
        L.append('    refine ⟨?_, ?_, ?_, ?_, h5r, by have := hi.le; omega, ?_, ?_, ?_, ?_, ?_, ?_⟩')
        L.append('    · rw [← hd5]; exact hw\'.1')
        L.append('    · rw [← hd5]; exact hw\'.2.1')
        L.append('    · rw [← hd5]; exact hw\'.2.2.1')
        L.append('    · rw [← hd5]; exact hw\'.2.2.2')
        L.append('    · rw [← hd5]; show d4.mem = _; rw [hmem, hi.mem]')
        L.append('    · rw [← hd5]; show d4.stk = _; rw [hstk, hi.stk]')
        L.append('    · rw [← hd5]; show d4.r.r30 = _; rw [h30, hi.f30]')
        L.append('    · rw [← hd5]; show d4.r.r31 = _; rw [h31, hi.f31]')
        L.append('    · rw [← hd5]; show d4.r.r28 = _; rw [h28, hi.f28]')
        L.append('    · rw [← hd5]; show d4.r.r29 = _; rw [h29, hi.f29]')
        L.append('  have hz : d5.z = true ↔ m = 1 := by rw [h5z, decide_eq_true_iff]; exact cnt_zero_iff m hm hi.le')
        nsteps = '(1 + (s%d_0.length + (s%d_1.length + (s%d_2.length + (s%d_3.length + decb.length)))))' % (j, j, j, j)
        L.append('  by_cases h1 : m = 1')
        if sg['form'] == 'A':
            L.append('  · refine ⟨%s + 2, d5, ?_, hinv⟩' % nsteps)
            L.append('    rw [if_pos h1, run_add, hrun4]')
            L.append('    simp only [run]')
            L.append('    rw [step_brne prog d5 %d _ fetch_%d, if_pos (hz.mpr h1), step_rjmp prog d5 %d _ fetch_%d, lab_%d]' % (sg['brpc'], sg['brpc'], sg['brpc'] + 1, sg['brpc'] + 1, mi[sg['brpc'] + 1][1]))
            L.append('  · refine ⟨%s + 1, d5, ?_, hinv⟩' % nsteps)
            L.append('    rw [if_neg h1, run_add, hrun4]')
            L.append('    simp only [run]')
            L.append('    rw [step_brne prog d5 %d _ fetch_%d, if_neg (fun h => h1 (hz.mp h)), lab_%d]' % (sg['brpc'], sg['brpc'], mi[sg['brpc']][1]))
        else:
            extra = EXIT - sg['exit']
            L.append('  · refine ⟨%s + %d, d5, ?_, hinv⟩' % (nsteps, 1 + extra))
            L.append('    rw [if_pos h1, run_add, hrun4]')
            L.append('    simp only [run]')
            rw = ['step_breq prog d5 %d _ fetch_%d' % (sg['brpc'], sg['brpc']), 'if_pos (hz.mpr h1)', 'lab_%d' % mi[sg['brpc']][1]]
            for q in range(sg['exit'], EXIT): rw.append('step_label prog d5 %d _ fetch_%d' % (q, q))
            L.append('    rw [%s]' % ', '.join(rw))
            L.append('  · refine ⟨%s + 2, d5, ?_, hinv⟩' % nsteps)
            L.append('    rw [if_neg h1, run_add, hrun4]')
            L.append('    simp only [run]')
            L.append('    rw [step_breq prog d5 %d _ fetch_%d, if_neg (fun h => h1 (hz.mp h)), step_rjmp prog d5 %d _ fetch_%d, lab_%d]' % (sg['brpc'], sg['brpc'], sg['brpc'] + 1, sg['brpc'] + 1, mi[sg['brpc'] + 1][1]))
        L.append('')
    L.append('theorem loop (d1 : D) (m : Nat) (hm : 1 ≤ m) (d : D) (s : S4) (hi : Inv d1 d s m) :')
    L.append('    ∃ k d\', run prog k ⟨d, %d, false⟩ = ⟨d\', %d, false⟩ ∧ Inv d1 d\' (permBV %d (K d1) 0 m s) 0 := by' % (segs[0]['start'], EXIT, nk))
    L.append('  have h := loop_correct prog %d %d (by decide) (by decide) (K d1) pcs %d (Inv d1) (by' % (nk, n, EXIT))
    L.append('    intro j hj d s m hi hm')
    L.append('    match j, hj with')
    for j in range(n): L.append('    | %d, _ => exact H%d d1 d s m hi hm' % (j, j))
    L.append('    ) m hm 0 (by decide) d s hi')
    L.append('  exact h'); L.append('')

    # ---------------------------------------------------------------- prologue, epilogue, the call
    pushes = a['pushes']
    def sw(d, w): return 'cat4 ' + ' '.join('(%s.mem (%s.r.r25 ++ %s.r.r24 + %d#16))' % (d, d, d, 4 * w + b) for b in range(4))
    L.append('/-- key word `k` as stored after the state words at the pointer in r25:r24 -/')
    L.append('def Kp (d : D) : Nat → BitVec 32')
    for k in range(nk):
        L.append('  | %d => cat4 %s' % (k, ' '.join('(d.mem (d.r.r25 ++ d.r.r24 + %d#16))' % (16 + 4 * k + b) for b in range(4))))
    L.append('  | _ => 0'); L.append('')
    stk1 = ' :: '.join('d0.r.r%d' % r for r in pushes[::-1]) + ' :: d0.stk'
    L.append('theorem pre_obs (d0 : D) : %s ∧' % ' ∧ '.join('%s (pre.foldl execD d0) = %s' % (WN[w], sw('d0', w)) for w in range(4)))
    L.append('    (pre.foldl execD d0).r.r30 = d0.r.r24 ∧ (pre.foldl execD d0).r.r31 = d0.r.r25 ∧ (pre.foldl execD d0).r.r22 = d0.r.r22 ∧ (pre.foldl execD d0).r.r28 = d0.r.r28 ∧')
    L.append('    (pre.foldl execD d0).r.r29 = d0.r.r29 ∧ (pre.foldl execD d0).mem = d0.mem ∧ (pre.foldl execD d0).stk = %s := by' % stk1)
    L.append('  simp only [pre, List.foldl, execD, Regs.get, Regs.set, R.next, zptr, Wa, Wb, Wc, Wd]')
    L.append('  first | exact ⟨rfl, rfl, rfl, rfl, rfl, rfl, rfl, rfl, rfl, rfl, rfl⟩ | exact ⟨trivial, trivial, trivial, trivial, trivial, trivial, trivial, trivial, trivial, trivial, trivial⟩ | simp'); L.append('')
    L.append('theorem K_pre (d1 d0 : D) (hm : d1.mem = d0.mem) (h30 : d1.r.r30 = d0.r.r24) (h31 : d1.r.r31 = d0.r.r25) (k : Nat) : K d1 k = Kp d0 k := by')
    L.append('  unfold K Kp; split <;> simp only [zptr, hm, h30, h31]'); L.append('')
    def fm(d, q): return '((post.foldl execD %s).mem (zptr %s + %d#16))' % (d, d, q)
    L.append('theorem post_words (d : D) : %s := by' % ' ∧ '.join('cat4 %s = %s d' % (' '.join(fm('d', 4 * w + b) for b in range(4)), WN[w]) for w in range(4)))
    L.append('  simp only [post, List.foldl, execD, Regs.get, Regs.set, R.next, zptr, upd, Wa, Wb, Wc, Wd, cat4]')
    L.append('  refine ⟨?_, ?_, ?_, ?_⟩ <;> bv_decide')
    L.append('theorem post_other (d : D) (x : BitVec 16) %s : (post.foldl execD d).mem x = d.mem x := by' % ' '.join('(h%d : x ≠ zptr d + %d#16)' % (q, q) for q in range(16)))
    L.append('  simp only [post, List.foldl, execD, Regs.get, Regs.set, R.next, zptr, upd] at *')
    L.append('  simp only [%s, if_false]' % ', '.join('h%d' % q for q in range(16)))
    vs = ['v%d' % r for r in pushes[::-1]]
    L.append('theorem post_regs (d : D) (%s : BitVec 8) (rest : List (BitVec 8)) (hstk : d.stk = %s :: rest) :' % (' '.join(vs), ' :: '.join(vs)))
    L.append('    %s ∧ (post.foldl execD d).stk = rest ∧ (post.foldl execD d).r.r28 = d.r.r28 ∧ (post.foldl execD d).r.r29 = d.r.r29 := by' % ' ∧ '.join('(post.foldl execD d).r.r%d = v%d' % (r, r) for r in pushes))
    L.append('  simp only [post, List.foldl, execD, Regs.get, Regs.set, R.next, hstk, List.headD_cons, List.tail_cons]')
    L.append('  first | exact ⟨%s⟩ | exact ⟨%s⟩ | simp' % (', '.join(['rfl'] * (len(pushes) + 3)), ', '.join(['trivial'] * (len(pushes) + 3)))); L.append('')
    L.append('/-- %s: for every machine state and every round count 1 ≤ r ≤ 256 in r22 (the count is the low byte of the second argument; 256 is the byte 0): the call' % name)
    L.append('    returns; the four state words at the pointer in r25:r24 become `permBV` of the old ones under the %d key words stored after them; no other byte of' % nk)
    L.append('    memory changes; the stack and the callee-saved registers r2–r17, r28, r29 are restored. -/')
    L.append('theorem correct (d0 : D) (r : Nat) (hr1 : 1 ≤ r) (hr2 : r ≤ 256) (harg : d0.r.r22 = BitVec.ofNat 8 r) :')
    L.append('    ∃ fuel dF, run prog fuel ⟨d0, 0, false⟩ = ⟨dF, %d, true⟩ ∧' % endpc)
    L.append('      (⟨%s⟩ : S4) = permBV %d (Kp d0) 0 r ⟨%s⟩ ∧' % (', '.join('cat4 ' + ' '.join('(dF.mem (d0.r.r25 ++ d0.r.r24 + %d#16))' % (4 * w + b) for b in range(4)) for w in range(4)), nk, ', '.join(sw('d0', w) for w in range(4))))
    L.append('      (∀ x : BitVec 16, %s → dF.mem x = d0.mem x) ∧' % ' → '.join('x ≠ d0.r.r25 ++ d0.r.r24 + %d#16' % q for q in range(16)))
    L.append('      dF.stk = d0.stk ∧ %s := by' % ' ∧ '.join('dF.r.r%d = d0.r.r%d' % (r, r) for r in pushes + [28, 29]))
    L.append('  obtain ⟨pa, pb, pc, pd, p30, p31, p22, p28, p29, pmem, pstk⟩ := pre_obs d0')
    L.append('  generalize hd1 : pre.foldl execD d0 = d1 at *')
    L.append('  have hrun0 : run prog (1 + pre.length) ⟨d0, 0, false⟩ = ⟨d1, %d, false⟩ := by' % a['l1'])
    L.append('    have h0 : run prog 1 ⟨d0, 0, false⟩ = ⟨d0, 1, false⟩ := by simp only [run]; exact step_label prog d0 0 _ fetch_0')
    L.append('    have e : 1 + pre.length = %d := by decide' % a['l1'])
    L.append('    rw [run_add, h0, run_slice prog pre d0 1 pre_slice pre_noctl, hd1, e]')
    L.append('  have hinv : Inv d1 d1 ⟨Wa d1, Wb d1, Wc d1, Wd d1⟩ r := ⟨rfl, rfl, rfl, rfl, by rw [p22, harg], hr2, rfl, rfl, rfl, rfl, rfl, rfl⟩')
    L.append('  obtain ⟨k, dE, hrun, hE⟩ := loop d1 r hr1 d1 _ hinv')
    L.append('  have hrunP : run prog (1 + (post.length + 1)) ⟨dE, %d, false⟩ = ⟨post.foldl execD dE, %d, true⟩ := by' % (EXIT, endpc))
    L.append('    have h0 : run prog 1 ⟨dE, %d, false⟩ = ⟨dE, %d, false⟩ := by simp only [run]; exact step_label prog dE %d _ fetch_%d' % (EXIT, EXIT + 1, EXIT, EXIT))
    L.append('    have e : %d + post.length = %d := by decide' % (EXIT + 1, endpc))
    L.append('    rw [run_add, h0, run_add, run_slice prog post dE %d post_slice post_noctl, e]' % (EXIT + 1))
    L.append('    simp only [run]; exact step_ret prog _ %d fetch_%d' % (endpc, endpc))
    L.append('  have hz : zptr dE = d0.r.r25 ++ d0.r.r24 := by unfold zptr; rw [hE.f30, hE.f31, p30, p31]')
    L.append('  refine ⟨(1 + pre.length) + (k + (1 + (post.length + 1))), post.foldl execD dE, by rw [run_add, hrun0, run_add, hrun, hrunP], ?_, ?_, ?_⟩')
    L.append('  · obtain ⟨qa, qb, qc, qd⟩ := post_words dE')
    L.append('    rw [hz] at qa qb qc qd')
    L.append('    rw [qa, qb, qc, qd, hE.sa, hE.sb, hE.sc, hE.sd, permBV_congr %d (by decide) (K d1) (Kp d0) (fun k _ => K_pre d1 d0 pmem p30 p31 k), pa, pb, pc, pd]' % nk)
    L.append('  · intro x %s' % ' '.join('h%d' % q for q in range(16)))
    L.append('    rw [post_other dE x %s, hE.mem, pmem]' % ' '.join('(by rw [hz]; exact h%d)' % q for q in range(16)))
    L.append('  · obtain ⟨%s, qs, q28, q29⟩ := post_regs dE %s d0.stk (by rw [hE.stk, pstk])' % (', '.join('q%d' % r for r in pushes), ' '.join('d0.r.r%d' % r for r in pushes[::-1])))
    L.append('    exact ⟨qs, %s, by rw [q28, hE.f28, p28], by rw [q29, hE.f29, p29]⟩' % ', '.join('q%d' % r for r in pushes))
    L.append('')
    text = '\n'.join(L) + '\nend TJ.Gen.Asm.%s\n' % name
    path = os.path.join(GEN, name + '.lean')
    if not os.path.exists(path) or open(path).read() != text: open(path, 'w').write(text)
    return name
