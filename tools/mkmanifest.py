#!/usr/bin/env python3
"""writes /verif/MANIFEST.json from the table below (kept in one place so that levels are stated once)"""
import json, os
VERIF = os.path.dirname(os.path.dirname(os.path.abspath(__file__)))

# id -> (category, technique, text, note, design_ref)
T = {}
def add(pid, cat, tech, text, note, ref):
    T[pid] = (cat, tech, text, note, ref)

COMMON_NOTE = ('Trusted: Lean 4.33 kernel and the axioms listed per theorem in the evidence file (propext, Classical.choice, Quot.sound; '
               'bv_decide axioms where named); the hand-written model TJ.Impl and its tie to the C code, which is a differential correspondence '
               'run (harness/harness.c linked to objects built from the working tree vs the compiled Lean driver) on generated operation lines, '
               'not a proof; compilers, sanitizers, valgrind. ')

exec(open(os.path.join(VERIF, 'tools', 'manifest_table.py')).read())

checks = []
for pid in sorted(T):
    cat, tech, text, note, ref = T[pid]
    checks.append({
        'property_id': pid,
        'quick_cmd': 'python3 check.py %s --tier quick' % pid,
        'thorough_cmd': 'python3 check.py %s --tier thorough' % pid,
        'evidence_file': 'evidence/%s.json' % pid,
        'replay_cmd_template': 'python3 check.py %s --replay {path}' % pid,
        'engine': 'lean4-proof+correspondence',
        'level_claimed': {'category': cat, 'text': text, 'design_ref': ref},
        'level_note': COMMON_NOTE + note,
        'technique': tech,
    })
m = {
    'version': 1,
    'setup_cmd': 'cd lean && lake build TJ tjdriver tjspec tjminic && cd .. && python3 tools/build.py prod san',
    'hooks': {'guard': 'TINYJAMBU_VERIF', 'enable': 'no source hooks are needed: white-box access is by #include of the .c file in the harness and link-time interposition of libc; every build of /repo passes -DTINYJAMBU_VERIF, which no source file tests',
              'baseline_off_cmd': 'cmake -G Ninja -S /repo -B /repo/_build && cmake --build /repo/_build && ctest --test-dir /repo/_build -j8 --timeout 900',
              'source_commits': [], 'add_only': True},
    'engines': [{'name': 'lean4-proof+correspondence', 'path': 'check.py', 'serves_properties': sorted(T),
                 'kind_free_text': 'Lean 4 theorems about executable models (lean/TJ), tied to /repo by regenerated terms and by differential correspondence against objects built from the working tree'}],
    'checks': checks,
    'notes': 'Two genuine defects of the pinned tree were repaired by fix: commits in /repo (see known_findings.txt).',
    'not_applicable': NOT_APPLICABLE,
}
json.dump(m, open(os.path.join(VERIF, 'MANIFEST.json'), 'w'), indent=1)
print('wrote MANIFEST.json with', len(checks), 'checks')
