#!/usr/bin/env python3
"""check.py <property id> [--tier quick|thorough] [--replay <file>]

Decides one property of /verif/properties.jsonl for /repo's current working tree:
 1. Lean: (re)build the library, audit sources and the axioms of every theorem in TJ.Props.<id>;
 2. build the implementation variants from the working tree;
 3. correspondence: the same operation lines through the implementation and the Lean model, diffed;
 4. the property's direct predicate on the implementation's own outputs;
 5. evidence file, VIOLATION / KNOWN-FINDING lines, exit status.
See DESIGN.md section 4."""
import sys, os, argparse
sys.path.insert(0, os.path.join(os.path.dirname(os.path.abspath(__file__)), 'tools'))
from tjlib import *
from streams import *
import props

def main():
    ap = argparse.ArgumentParser()
    ap.add_argument('pid')
    ap.add_argument('--tier', default=os.environ.get('VERIF_TIER', 'quick'))
    ap.add_argument('--replay')
    a = ap.parse_args()
    seed = int(os.environ.get('VERIF_SEED', '1'))
    tier = 'thorough' if a.tier.startswith('t') else 'quick'
    if a.replay:
        sys.exit(props.replay(a.pid, a.replay))
    fn = getattr(props, 'check_' + a.pid, None)
    if fn is None:
        print('unknown property', a.pid); sys.exit(2)
    ctx = props.Ctx(a.pid, tier, seed)
    try:
        rc = ctx.run(fn)
    except Exception as e:
        import traceback; traceback.print_exc()
        print('check infrastructure error: %s' % e)
        sys.exit(2)
    sys.exit(rc)

if __name__ == '__main__':
    main()
