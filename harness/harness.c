/*
 * harness.c — correspondence harness for rweather/TinyJAMBU.
 *
 * Reads one operation per line on stdin (the protocol of DESIGN.md section 11),
 * executes it against the library objects built from /repo's working tree and
 * prints one canonical result line.  The Lean driver (lean/Driver/Main.lean)
 * prints what the model predicts for the same lines; the two streams are diffed.
 *
 *  - every input buffer is placed end-flush against a PROT_NONE page (over-read =>
 *    SIGSEGV => reported as a result line "crash SIGSEGV");
 *  - every output buffer lies inside a pre-filled arena; after the call every byte
 *    outside the documented output range must still hold the pre-fill ("slack=ok");
 *  - inputs are compared with a copy taken before the call ("inputs=ok");
 *  - getrandom/getentropy/syscall(SYS_getrandom) are interposed and scripted.
 */
#define _GNU_SOURCE
#include <stdio.h>
#include <stdlib.h>
#include <string.h>
#include <stdint.h>
#include <signal.h>
#include <setjmp.h>
#include <errno.h>
#include <dirent.h>
#include <stdarg.h>
#include <dlfcn.h>
#include <unistd.h>
#include <sys/mman.h>
#include <sys/syscall.h>
#include <pthread.h>
#include "TinyJAMBU.h"

static __thread FILE *OUT;
static __thread int arena_ready;

/* private entry points of the library that the protocol exercises directly */
typedef struct { uint32_t s[4]; uint32_t k[4]; } st128_t;
typedef struct { uint32_t s[4]; uint32_t k[6]; } st192_t;
typedef struct { uint32_t s[4]; uint32_t k[8]; } st256_t;
void tinyjambu_permutation_128(st128_t *state, unsigned rounds);
void tinyjambu_permutation_192(st192_t *state, unsigned rounds);
void tinyjambu_permutation_256(st256_t *state, unsigned rounds);
int tinyjambu_aead_check_tag(unsigned char *plaintext, size_t plaintext_len,
                             const unsigned char *tag1, const unsigned char *tag2, size_t size);
void tinyjambu_clean(void *buf, unsigned size);
int trng_gen_getrandom(unsigned char *out);
int trng_gen_getentropy(unsigned char *out);
int trng_gen_syscall(unsigned char *out);

/* ------------------------------------------------------------------ arenas */

#define NSLOT 6
#define SLOT_BYTES (5 * 4096)          /* 4 data pages + 1 guard page */
static __thread unsigned char *slot_base[NSLOT];
static __thread unsigned char incopy[NSLOT][4 * 4096];
static __thread size_t inlen_[NSLOT];
static __thread unsigned char *inptr[NSLOT];

static void arena_init(void)
{
    int i;
    for (i = 0; i < NSLOT; ++i) {
        unsigned char *p = mmap(0, SLOT_BYTES, PROT_READ | PROT_WRITE,
                                MAP_PRIVATE | MAP_ANONYMOUS, -1, 0);
        if (p == MAP_FAILED) { perror("mmap"); exit(2); }
        if (mprotect(p + 4 * 4096, 4096, PROT_NONE) != 0) { perror("mprotect"); exit(2); }
        slot_base[i] = p;
    }
}

/* place `len` bytes end-flush against the guard page of slot i; NULL stays NULL */
static const unsigned char *place(int i, const unsigned char *data, size_t len, int is_null)
{
    inlen_[i] = len;
    if (is_null) { inptr[i] = 0; return 0; }
    if (len > 4 * 4096) { fprintf(stderr, "input too long\n"); exit(2); }
    inptr[i] = slot_base[i] + 4 * 4096 - len;
    memcpy(inptr[i], data, len);
    memcpy(incopy[i], data, len);
    return inptr[i];
}

static int inputs_ok(int n)
{
    int i;
    for (i = 0; i < n; ++i)
        if (inptr[i] && memcmp(inptr[i], incopy[i], inlen_[i]) != 0) return 0;
    return 1;
}

#define OUT_ARENA 40960
#define OUT_OFF 512
static __thread unsigned char outarena[OUT_ARENA] __attribute__((aligned(64)));
static __thread unsigned char outfill[OUT_ARENA];
static __thread unsigned long opno;

static unsigned char *out_prepare(int align)
{
    unsigned long x = 0x9E3779B97F4A7C15UL * (opno + 1);
    size_t i;
    for (i = 0; i < OUT_ARENA; ++i) {
        x = x * 6364136223846793005UL + 1442695040888963407UL;
        outfill[i] = (unsigned char)(x >> 56);
    }
    memcpy(outarena, outfill, OUT_ARENA);
    return outarena + OUT_OFF + (align & 63);
}

/* every byte outside [out+lo, out+hi) must still be the pre-fill */
static int slack_ok(const unsigned char *out, size_t lo, size_t hi)
{
    size_t a = (size_t)(out - outarena) + lo, b = (size_t)(out - outarena) + hi, i;
    for (i = 0; i < OUT_ARENA; ++i) {
        if (i >= a && i < b) continue;
        if (outarena[i] != outfill[i]) return 0;
    }
    return 1;
}

/* ------------------------------------------------------------------ hex */

static int hexval(int c)
{
    if (c >= '0' && c <= '9') return c - '0';
    if (c >= 'a' && c <= 'f') return c - 'a' + 10;
    if (c >= 'A' && c <= 'F') return c - 'A' + 10;
    return -1;
}

typedef struct { unsigned char *p; size_t n; int is_null; } bytes_t;

static bytes_t parse_hex(const char *s)
{
    bytes_t b; size_t i, n;
    b.is_null = (strcmp(s, "NULL") == 0);
    if (b.is_null || strcmp(s, "-") == 0) { b.p = malloc(1); b.n = 0; return b; }
    n = strlen(s) / 2;
    b.p = malloc(n + 1); b.n = n;
    for (i = 0; i < n; ++i) b.p[i] = (unsigned char)(hexval(s[2 * i]) * 16 + hexval(s[2 * i + 1]));
    return b;
}

static void put_hex(const char *label, const unsigned char *p, size_t n)
{
    size_t i;
    fputs(label, OUT);
    if (n == 0) { fputs("-", OUT); return; }
    for (i = 0; i < n; ++i) fprintf(OUT, "%02x", p[i]);
}

/* ------------------------------------------------------------------ entropy scripting */

typedef struct { unsigned char w[32]; size_t wlen; size_t ret; } delivery_t;
typedef struct { delivery_t d[256]; int head, tail; } script_t;
#define NOBJ 8
static script_t pscript[NOBJ];

enum { O_EINTR, O_EAGAIN, O_ERR, O_OK };
typedef struct { int kind; int err; unsigned char b[32]; size_t blen; } outcome_t;
static outcome_t sysq[1024];
static int sys_head, sys_tail;
static unsigned long os_calls;

/* request log for the current p.gen */
static __thread unsigned char *gen_out; static __thread size_t gen_size;
static __thread size_t reqlog[4096]; static __thread int nreq;

static void log_request(void)
{
    size_t blocks = 0;
    if (!gen_out) return;
    while ((blocks + 1) * 32 <= gen_size &&
           memcmp(gen_out + blocks * 32, outfill + (gen_out - outarena) + blocks * 32, 32) != 0)
        ++blocks;
    if (nreq < 4096) reqlog[nreq++] = blocks * 32;
}

static size_t user_cb(void *ud, unsigned char *buf, size_t size)
{
    script_t *s = (script_t *)ud;
    (void)size;
    log_request();
    if (s->head == s->tail) return 0;
    {
        delivery_t *d = &s->d[s->head++];
        memcpy(buf, d->w, d->wlen);
        return d->ret;
    }
}

/* one scripted OS entropy call; style 0 = getrandom (returns count), 1 = getentropy (returns 0) */
static long os_entropy(void *buf, size_t len, int style)
{
    ++os_calls;
    if (sys_head == sys_tail) {
        size_t i;
        log_request();
        for (i = 0; i < len && i < 32; ++i) ((unsigned char *)buf)[i] = (unsigned char)(0xA0 + i);
        return style ? 0 : (long)len;
    } else {
        outcome_t *o = &sysq[sys_head++];
        switch (o->kind) {
        case O_EINTR: errno = EINTR; return -1;
        case O_EAGAIN: errno = EAGAIN; return -1;
        case O_ERR: log_request(); errno = o->err; return -1;
        default:
            log_request();
            memcpy(buf, o->b, o->blen);
            return style ? 0 : (long)o->blen;
        }
    }
}

ssize_t getrandom(void *buf, size_t len, unsigned flags) { (void)flags; return os_entropy(buf, len, 0); }
int getentropy(void *buf, size_t len) { return (int)os_entropy(buf, len, 1); }
long syscall(long n, ...)
{
    va_list ap; long a[6]; int i;
    static long (*real)(long, ...);
    va_start(ap, n);
    for (i = 0; i < 6; ++i) a[i] = va_arg(ap, long);
    va_end(ap);
    if (n == SYS_getrandom) return os_entropy((void *)a[0], (size_t)a[1], 0);
    if (!real) real = (long (*)(long, ...))dlsym(RTLD_NEXT, "syscall");
    return real(n, a[0], a[1], a[2], a[3], a[4], a[5]);
}

static int parse_outcomes(char *s)
{
    char *tok, *save;
    if (strcmp(s, "-") == 0) return 0;
    for (tok = strtok_r(s, ",", &save); tok; tok = strtok_r(0, ",", &save)) {
        outcome_t *o = &sysq[sys_tail++];
        memset(o, 0, sizeof(*o));
        if (!strcmp(tok, "EINTR")) o->kind = O_EINTR;
        else if (!strcmp(tok, "EAGAIN")) o->kind = O_EAGAIN;
        else if (!strncmp(tok, "ERR", 3)) { o->kind = O_ERR; o->err = atoi(tok + 3); }
        else if (!strncmp(tok, "OK", 2)) {
            bytes_t b = parse_hex(tok + 2);
            o->kind = O_OK; o->blen = b.n > 32 ? 32 : b.n; memcpy(o->b, b.p, o->blen); free(b.p);
        } else return -1;
    }
    return 0;
}

static int count_fds(void)
{
    int n = 0; DIR *d = opendir("/proc/self/fd"); struct dirent *e;
    if (!d) return -1;
    while ((e = readdir(d)) != 0) ++n;
    closedir(d);
    return n;
}

/* ------------------------------------------------------------------ crash capture */

static __thread sigjmp_buf crash_env;
static __thread volatile int crash_armed;
static void on_crash(int sig)
{
    if (crash_armed) siglongjmp(crash_env, sig);
    _exit(3);
}

/* ------------------------------------------------------------------ objects */

static tinyjambu_hash_state_t H[NOBJ];
static tinyjambu_hmac_state_t M[NOBJ];
static tinyjambu_hkdf_state_t K[NOBJ];
static tinyjambu_prng_state_t P[NOBJ];

/* offsets inside the private PRNG struct, measured from the working tree by
 * harness/layout_prng.c (V C reseed_counter reseed_limit callback user_data) */
static unsigned lay_prng[6] = {0, 32, 64, 68, 72, 80};

static size_t sys_cb_addr; /* address of the library's system callback, learnt from p.init */

static void dump_prng(int i)
{
    unsigned char *r = (unsigned char *)&P[i];
    uint32_t rc, rl; void *cb, *ud; unsigned k;
    unsigned char rest[sizeof(tinyjambu_prng_state_t)]; size_t nrest = 0;
    unsigned priv_end = lay_prng[5] + (unsigned)sizeof(void *);
    memcpy(&rc, r + lay_prng[2], 4); memcpy(&rl, r + lay_prng[3], 4);
    memcpy(&cb, r + lay_prng[4], sizeof(cb)); memcpy(&ud, r + lay_prng[5], sizeof(ud));
    put_hex("V=", r + lay_prng[0], 32); put_hex(" C=", r + lay_prng[1], 32);
    fprintf(OUT, " rc=%u rl=%u cb=%s ud=%d", rc, rl,
           cb == 0 ? "null" : (cb == (void *)user_cb ? "user" : "system"), ud != 0);
    for (k = priv_end; k < sizeof(tinyjambu_prng_state_t); ++k) rest[nrest++] = r[k];
    put_hex(" tail=", rest, nrest);
    fputc('\n', OUT);
}

/* ------------------------------------------------------------------ main loop */

#define MAXTOK 12

typedef struct { const unsigned char *p; size_t n; unsigned char *out; } huge_job_t;
static void *huge_oneshot(void *arg) { huge_job_t *j = arg; tinyjambu_hash(j->out, j->p, j->n); return 0; }

/* Before every operation: the thread's errno holds a stale error and the stack below the current frame holds a pattern that
 * depends on how many operations ran before - a library call whose result depends on either (stale errno taken for the outcome
 * of its own system call, a local buffer used before it is written) then gives results that depend on earlier unrelated calls. */
static __attribute__((noinline)) void dirty_stack(unsigned long salt)
{
    volatile unsigned char pad[6144]; size_t i;
    for (i = 0; i < sizeof(pad); ++i) pad[i] = (unsigned char)(0xC3 ^ (i * 7) ^ (salt * 29));
    __asm__ volatile("" : : "r"(pad) : "memory");
}

/* execute one operation line (modified in place) and print its result line to OUT */
static void exec_line(char *line)
{
    {
        char *tok[MAXTOK]; int nt = 0; char *save, *t; int sig;
        if (!arena_ready) { arena_init(); arena_ready = 1; }
        for (t = strtok_r(line, " ", &save); t && nt < MAXTOK; t = strtok_r(0, " ", &save)) tok[nt++] = t;
        if (nt == 0) return;
        ++opno;
        gen_out = 0; nreq = 0;
        crash_armed = 1;
        sig = sigsetjmp(crash_env, 1);
        if (sig != 0) {
            crash_armed = 0;
            fprintf(OUT, "crash %s\n", sig == SIGSEGV ? "SIGSEGV" : sig == SIGBUS ? "SIGBUS" : sig == SIGFPE ? "SIGFPE" : "SIGILL");
            return;
        }
        dirty_stack(opno);
        errno = ENOENT;

        if (!strcmp(tok[0], "perm") && nt == 5) {
            int v = atoi(tok[1]); bytes_t st = parse_hex(tok[2]), key = parse_hex(tok[3]);
            unsigned rounds = (unsigned)strtoul(tok[4], 0, 10);
            st256_t s; unsigned nk = v == 128 ? 4 : v == 192 ? 6 : 8;
            memset(&s, 0, sizeof(s));
            memcpy(s.s, st.p, 16); memcpy(s.k, key.p, nk * 4);
            if (v == 128) tinyjambu_permutation_128((st128_t *)&s, rounds);
            else if (v == 192) tinyjambu_permutation_192((st192_t *)&s, rounds);
            else tinyjambu_permutation_256(&s, rounds);
            put_hex("s=", (unsigned char *)s.s, 16); put_hex(" k=", (unsigned char *)s.k, nk * 4); fputc('\n', OUT);
            free(st.p); free(key.p);
        } else if ((!strcmp(tok[0], "aead.enc") || !strcmp(tok[0], "siv.enc")) && nt == 8) {
            int v = atoi(tok[1]); int siv = tok[0][0] == 's';
            bytes_t key = parse_hex(tok[2]), nonce = parse_hex(tok[3]), ad = parse_hex(tok[4]), m = parse_hex(tok[5]);
            int inplace = atoi(tok[6]), align = atoi(tok[7]);
            const unsigned char *kp = place(0, key.p, key.n, 0), *np = place(1, nonce.p, nonce.n, 0);
            const unsigned char *ap = place(2, ad.p, ad.n, ad.is_null), *mp;
            unsigned char *out = out_prepare(align); size_t clen = (size_t)-1; int nin = 4;
            if (inplace) { memcpy(out, m.p, m.n); mp = out; nin = 3; }
            else mp = place(3, m.p, m.n, m.is_null);
            switch (v * 2 + siv) {
            case 256: tinyjambu_128_aead_encrypt(out, &clen, mp, m.n, ap, ad.n, np, kp); break;
            case 257: tinyjambu_128_siv_encrypt(out, &clen, mp, m.n, ap, ad.n, np, kp); break;
            case 384: tinyjambu_192_aead_encrypt(out, &clen, mp, m.n, ap, ad.n, np, kp); break;
            case 385: tinyjambu_192_siv_encrypt(out, &clen, mp, m.n, ap, ad.n, np, kp); break;
            case 512: tinyjambu_256_aead_encrypt(out, &clen, mp, m.n, ap, ad.n, np, kp); break;
            default:  tinyjambu_256_siv_encrypt(out, &clen, mp, m.n, ap, ad.n, np, kp); break;
            }
            fprintf(OUT, "clen=%zu", clen); put_hex(" out=", out, m.n + 8);
            fprintf(OUT, " slack=%s inputs=%s\n", slack_ok(out, 0, m.n + 8) ? "ok" : "BAD", inputs_ok(nin) ? "ok" : "BAD");
            free(key.p); free(nonce.p); free(ad.p); free(m.p);
        } else if ((!strcmp(tok[0], "aead.dec") || !strcmp(tok[0], "siv.dec")) && nt == 8) {
            int v = atoi(tok[1]); int siv = tok[0][0] == 's';
            bytes_t key = parse_hex(tok[2]), nonce = parse_hex(tok[3]), ad = parse_hex(tok[4]), c = parse_hex(tok[5]);
            int inplace = atoi(tok[6]), align = atoi(tok[7]);
            const unsigned char *kp = place(0, key.p, key.n, 0), *np = place(1, nonce.p, nonce.n, 0);
            const unsigned char *ap = place(2, ad.p, ad.n, ad.is_null), *cp;
            unsigned char *out = out_prepare(align); size_t mlen = (size_t)-77; int nin = 4, ret;
            size_t plen = c.n >= 8 ? c.n - 8 : 0;
            if (inplace) { memcpy(out, c.p, c.n); memcpy(outfill + (out - outarena), c.p, c.n); cp = out; nin = 3; }
            else cp = place(3, c.p, c.n, c.is_null);
            switch (v * 2 + siv) {
            case 256: ret = tinyjambu_128_aead_decrypt(out, &mlen, cp, c.n, ap, ad.n, np, kp); break;
            case 257: ret = tinyjambu_128_siv_decrypt(out, &mlen, cp, c.n, ap, ad.n, np, kp); break;
            case 384: ret = tinyjambu_192_aead_decrypt(out, &mlen, cp, c.n, ap, ad.n, np, kp); break;
            case 385: ret = tinyjambu_192_siv_decrypt(out, &mlen, cp, c.n, ap, ad.n, np, kp); break;
            case 512: ret = tinyjambu_256_aead_decrypt(out, &mlen, cp, c.n, ap, ad.n, np, kp); break;
            default:  ret = tinyjambu_256_siv_decrypt(out, &mlen, cp, c.n, ap, ad.n, np, kp); break;
            }
            fprintf(OUT, "ret=%d", ret);
            if (mlen == (size_t)-77) fprintf(OUT, " mlen=unset"); else fprintf(OUT, " mlen=%zu", mlen);
            if (c.n < 8) fprintf(OUT, " out=%s", slack_ok(out, 0, 0) ? "untouched" : "TOUCHED");
            else put_hex(" out=", out, plen);
            /* in place: the pre-fill copy holds the ciphertext, so the tag bytes count as slack (they must survive) */
            fprintf(OUT, " slack=%s inputs=%s\n", slack_ok(out, 0, plen) ? "ok" : "BAD", inputs_ok(nin) ? "ok" : "BAD");
            free(key.p); free(nonce.p); free(ad.p); free(c.p);
        } else if (!strcmp(tok[0], "checktag") && nt == 4) {
            bytes_t pl = parse_hex(tok[1]), t1 = parse_hex(tok[2]), t2 = parse_hex(tok[3]);
            const unsigned char *a = place(0, t1.p, t1.n, 0), *b = place(1, t2.p, t2.n, 0);
            unsigned char *out = out_prepare(0); int ret;
            memcpy(out, pl.p, pl.n);
            ret = tinyjambu_aead_check_tag(out, pl.n, a, b, t1.n < t2.n ? t1.n : t2.n);
            fprintf(OUT, "ret=%d", ret); put_hex(" out=", out, pl.n); fputc('\n', OUT);
            free(pl.p); free(t1.p); free(t2.p);
        } else if (!strcmp(tok[0], "hash") && nt == 2) {
            bytes_t m = parse_hex(tok[1]); const unsigned char *mp = place(0, m.p, m.n, m.is_null);
            unsigned char *out = out_prepare((int)opno);
            tinyjambu_hash(out, mp, m.n);
            put_hex("out=", out, 32);
            fprintf(OUT, " slack=%s inputs=%s\n", slack_ok(out, 0, 32) ? "ok" : "BAD", inputs_ok(1) ? "ok" : "BAD");
            free(m.p);
        } else if (!strcmp(tok[0], "hmac") && nt == 3) {
            bytes_t key = parse_hex(tok[1]), m = parse_hex(tok[2]);
            const unsigned char *kp = place(0, key.p, key.n, key.is_null), *mp = place(1, m.p, m.n, m.is_null);
            unsigned char *out = out_prepare((int)opno);
            tinyjambu_hmac(out, kp, key.n, mp, m.n);
            put_hex("out=", out, 32);
            fprintf(OUT, " slack=%s inputs=%s\n", slack_ok(out, 0, 32) ? "ok" : "BAD", inputs_ok(2) ? "ok" : "BAD");
            free(key.p); free(m.p);
        } else if (!strcmp(tok[0], "hkdf") && nt == 5) {
            size_t n = strtoul(tok[1], 0, 10);
            bytes_t key = parse_hex(tok[2]), salt = parse_hex(tok[3]), info = parse_hex(tok[4]);
            const unsigned char *kp = place(0, key.p, key.n, key.is_null), *sp = place(1, salt.p, salt.n, salt.is_null);
            const unsigned char *ip = place(2, info.p, info.n, info.is_null);
            unsigned char *out = out_prepare((int)opno); int ret;
            ret = tinyjambu_hkdf(out, n, kp, key.n, sp, salt.n, ip, info.n);
            fprintf(OUT, "ret=%d", ret);
            if (slack_ok(out, 0, 0)) { if (n == 0 && ret == 0) fputs(" out=-", OUT); else fputs(" out=untouched", OUT); }
            else put_hex(" out=", out, n);
            fprintf(OUT, " slack=%s inputs=%s\n", slack_ok(out, 0, n <= OUT_ARENA - 1024 ? n : 0) ? "ok" : "BAD", inputs_ok(3) ? "ok" : "BAD");
            free(key.p); free(salt.p); free(info.p);
        } else if (!strcmp(tok[0], "pbkdf2") && nt == 5) {
            size_t n = strtoul(tok[1], 0, 10); unsigned long count = strtoul(tok[4], 0, 10);
            bytes_t pw = parse_hex(tok[2]), salt = parse_hex(tok[3]);
            const unsigned char *pp = place(0, pw.p, pw.n, pw.is_null), *sp = place(1, salt.p, salt.n, salt.is_null);
            unsigned char *out = out_prepare((int)opno);
            tinyjambu_pbkdf2(out, n, pp, pw.n, sp, salt.n, count);
            put_hex("out=", out, n);
            fprintf(OUT, " slack=%s inputs=%s\n", slack_ok(out, 0, n) ? "ok" : "BAD", inputs_ok(2) ? "ok" : "BAD");
            free(pw.p); free(salt.p);
        } else if (!strcmp(tok[0], "pbkdf2.tail") && nt == 6) {
            /* long outputs: only the last k bytes and a checksum of the whole output are printed */
            size_t n = strtoul(tok[1], 0, 10); unsigned long count = strtoul(tok[4], 0, 10); size_t k = strtoul(tok[5], 0, 10), i;
            bytes_t pw = parse_hex(tok[2]), salt = parse_hex(tok[3]);
            const unsigned char *pp = place(0, pw.p, pw.n, pw.is_null), *sp = place(1, salt.p, salt.n, salt.is_null);
            unsigned char *big = malloc(n + 64); unsigned long long h = 1469598103934665603ULL; int canary = 1;
            if (!big || k > n) { fprintf(OUT, "%s\n", "bad-op"); free(big); free(pw.p); free(salt.p); return; }
            memset(big, 0x5a, n + 64);
            tinyjambu_pbkdf2(big, n, pp, pw.n, sp, salt.n, count);
            for (i = 0; i < n; ++i) h = (h ^ big[i]) * 1099511628211ULL;
            for (i = n; i < n + 64; ++i) if (big[i] != 0x5a) canary = 0;
            put_hex("tail=", big + n - k, k);
            fprintf(OUT, " sum=%llu slack=%s inputs=%s\n", h, canary ? "ok" : "BAD", inputs_ok(2) ? "ok" : "BAD");
            free(big); free(pw.p); free(salt.p);
        } else if (!strcmp(tok[0], "h.huge") && nt == 4) {
            /* lengths beyond 32 bits: digest of a + b + c zero bytes fed as three updates vs the one-shot digest of the same
             * a+b+c zero bytes (an untouched MAP_NORESERVE mapping reads as zeros); the two hashes run in parallel threads */
            size_t a = strtoull(tok[1], 0, 10), b = strtoull(tok[2], 0, 10), c = strtoull(tok[3], 0, 10), tot = a + b + c;
            unsigned char *big = mmap(0, tot + 4096, PROT_READ, MAP_PRIVATE | MAP_ANONYMOUS | MAP_NORESERVE, -1, 0);
            unsigned char d1[32], d2[32];
            if (big == MAP_FAILED) { fprintf(OUT, "%s\n", "skip mmap-failed"); return; }
            {
                huge_job_t j; pthread_t th;
                j.p = big; j.n = tot; j.out = d2;
                pthread_create(&th, 0, huge_oneshot, &j);
                tinyjambu_hash_state_t hs;
                tinyjambu_hash_init(&hs);
                tinyjambu_hash_update(&hs, big, a);
                tinyjambu_hash_update(&hs, big + a, b);
                tinyjambu_hash_update(&hs, big + a + b, c);
                tinyjambu_hash_finalize(&hs, d1);
                pthread_join(th, 0);
            }
            munmap(big, tot + 4096);
            put_hex("stream=", d1, 32); put_hex(" oneshot=", d2, 32); fputc('\n', OUT);
        } else if (!strcmp(tok[0], "clean") && nt == 4) {
            size_t off = strtoul(tok[1], 0, 10), n = strtoul(tok[2], 0, 10); bytes_t b = parse_hex(tok[3]);
            unsigned char *out = out_prepare(0);
            memcpy(out, b.p, b.n); memcpy(outfill + (out - outarena), b.p, b.n);
            tinyjambu_clean(out + off, (unsigned)n);
            put_hex("out=", out, b.n);
            if (!slack_ok(out, 0, b.n)) fputs(" slack=BAD", OUT);
            fputc('\n', OUT); free(b.p);
        } else if (!strcmp(tok[0], "trng") && nt == 3) {
            unsigned char *buf = out_prepare(0); int ret, f0, f1; unsigned long c0;
            memset(buf, 0xEE, 32); memset(outfill + (buf - outarena), 0xEE, 32);
            sys_head = sys_tail = 0;
            if (parse_outcomes(tok[2]) != 0) { fprintf(OUT, "%s\n", "bad-op"); return; }
            f0 = count_fds(); c0 = os_calls;
            if (!strcmp(tok[1], "getrandom")) ret = trng_gen_getrandom(buf);
            else if (!strcmp(tok[1], "getentropy")) ret = trng_gen_getentropy(buf);
            else ret = trng_gen_syscall(buf);
            f1 = count_fds();
            fprintf(OUT, "ret=%d", ret); put_hex(" buf=", buf, 32);
            fprintf(OUT, " calls=%lu fds=%d%s\n", os_calls - c0, f1 - f0, slack_ok(buf, 0, 32) ? "" : " slack=BAD");
            sys_head = sys_tail = 0;
        } else if (!strcmp(tok[0], "sys.script") && nt == 2) {
            if (parse_outcomes(tok[1]) != 0) fprintf(OUT, "%s\n", "bad-op"); else fprintf(OUT, "%s\n", "ok");
        } else if (nt >= 2 && tok[0][1] == '.' && strchr("hmkp", tok[0][0])) {
            int i = atoi(tok[1]); const char *op = tok[0];
            if (i < 0 || i >= NOBJ) { fprintf(OUT, "%s\n", "bad-op"); return; }
            if (!strcmp(op, "h.init") && nt == 2) { tinyjambu_hash_init(&H[i]); fprintf(OUT, "%s\n", "ok"); }
            else if (!strcmp(op, "h.reinit") && nt == 2) { tinyjambu_hash_reinit(&H[i]); fprintf(OUT, "%s\n", "ok"); }
            else if (!strcmp(op, "h.final") && nt == 2) {
                unsigned char *out = out_prepare((int)opno);
                tinyjambu_hash_finalize(&H[i], out);
                put_hex("out=", out, 32); if (!slack_ok(out, 0, 32)) fputs(" slack=BAD", OUT); fputc('\n', OUT);
            }
            else if (!strcmp(op, "h.free") && nt == 2) { tinyjambu_hash_free(&H[i]); fprintf(OUT, "%s\n", "ok"); }
            else if (!strcmp(op, "h.dump") && nt == 2) { put_hex("raw=", (unsigned char *)&H[i], sizeof(H[i])); fputc('\n', OUT); }
            else if (!strcmp(op, "h.dirty") && nt == 3) { bytes_t b = parse_hex(tok[2]); memcpy(&H[i], b.p, b.n < sizeof(H[i]) ? b.n : sizeof(H[i])); free(b.p); fprintf(OUT, "%s\n", "ok"); }
            else if (!strcmp(op, "h.update") && nt == 3) {
                bytes_t b = parse_hex(tok[2]); const unsigned char *p = place(0, b.p, b.n, b.is_null);
                tinyjambu_hash_update(&H[i], p, b.n); fprintf(OUT, "%s\n", inputs_ok(1) ? "ok" : "inputs=BAD"); free(b.p);
            }
            else if (!strcmp(op, "m.free") && nt == 2) { tinyjambu_hmac_free(&M[i]); fprintf(OUT, "%s\n", "ok"); }
            else if (!strcmp(op, "m.dump") && nt == 2) { put_hex("raw=", (unsigned char *)&M[i], sizeof(M[i])); fputc('\n', OUT); }
            else if (!strcmp(op, "m.dirty") && nt == 3) { bytes_t b = parse_hex(tok[2]); memcpy(&M[i], b.p, b.n < sizeof(M[i]) ? b.n : sizeof(M[i])); free(b.p); fprintf(OUT, "%s\n", "ok"); }
            else if ((!strcmp(op, "m.init") || !strcmp(op, "m.reinit")) && nt == 3) {
                bytes_t b = parse_hex(tok[2]); const unsigned char *p = place(0, b.p, b.n, b.is_null);
                if (op[2] == 'i') tinyjambu_hmac_init(&M[i], p, b.n); else tinyjambu_hmac_reinit(&M[i], p, b.n);
                fprintf(OUT, "%s\n", inputs_ok(1) ? "ok" : "inputs=BAD"); free(b.p);
            }
            else if (!strcmp(op, "m.update") && nt == 3) {
                bytes_t b = parse_hex(tok[2]); const unsigned char *p = place(0, b.p, b.n, b.is_null);
                tinyjambu_hmac_update(&M[i], p, b.n); fprintf(OUT, "%s\n", inputs_ok(1) ? "ok" : "inputs=BAD"); free(b.p);
            }
            else if (!strcmp(op, "m.final") && nt == 3) {
                bytes_t b = parse_hex(tok[2]); const unsigned char *p = place(0, b.p, b.n, b.is_null);
                unsigned char *out = out_prepare((int)opno);
                tinyjambu_hmac_finalize(&M[i], p, b.n, out);
                put_hex("out=", out, 32); if (!slack_ok(out, 0, 32) || !inputs_ok(1)) fputs(" slack=BAD", OUT); fputc('\n', OUT); free(b.p);
            }
            else if (!strcmp(op, "k.free") && nt == 2) { tinyjambu_hkdf_free(&K[i]); fprintf(OUT, "%s\n", "ok"); }
            else if (!strcmp(op, "k.dump") && nt == 2) { put_hex("raw=", (unsigned char *)&K[i], sizeof(K[i])); fputc('\n', OUT); }
            else if (!strcmp(op, "k.dirty") && nt == 3) { bytes_t b = parse_hex(tok[2]); memcpy(&K[i], b.p, b.n < sizeof(K[i]) ? b.n : sizeof(K[i])); free(b.p); fprintf(OUT, "%s\n", "ok"); }
            else if (!strcmp(op, "k.extract") && nt == 4) {
                bytes_t key = parse_hex(tok[2]), salt = parse_hex(tok[3]);
                const unsigned char *kp = place(0, key.p, key.n, key.is_null), *sp = place(1, salt.p, salt.n, salt.is_null);
                tinyjambu_hkdf_extract(&K[i], kp, key.n, sp, salt.n); fprintf(OUT, "%s\n", inputs_ok(2) ? "ok" : "inputs=BAD");
                free(key.p); free(salt.p);
            }
            else if (!strcmp(op, "k.expand") && nt == 4) {
                bytes_t info = parse_hex(tok[2]); size_t n = strtoul(tok[3], 0, 10);
                const unsigned char *ip = place(0, info.p, info.n, info.is_null);
                unsigned char *out = out_prepare((int)opno); int ret;
                ret = tinyjambu_hkdf_expand(&K[i], ip, info.n, out, n);
                fprintf(OUT, "ret=%d", ret); put_hex(" out=", out, n);
                fprintf(OUT, " slack=%s\n", slack_ok(out, 0, n) && inputs_ok(1) ? "ok" : "BAD"); free(info.p);
            }
            else if (!strcmp(op, "p.script") && nt == 3) {
                char *s2, *t2; int bad = 0;
                pscript[i].head = pscript[i].tail = 0; /* a new script replaces the old one */
                if (strcmp(tok[2], "-") != 0)
                for (t2 = strtok_r(tok[2], ",", &s2); t2; t2 = strtok_r(0, ",", &s2)) {
                    char *colon = strchr(t2, ':'); delivery_t *d; bytes_t b;
                    if (!colon || pscript[i].tail >= 256) { bad = 1; break; }
                    *colon = 0; b = parse_hex(t2);
                    d = &pscript[i].d[pscript[i].tail++];
                    d->wlen = b.n > 32 ? 32 : b.n; memcpy(d->w, b.p, d->wlen); d->ret = strtoul(colon + 1, 0, 10); free(b.p);
                }
                fprintf(OUT, "%s\n", bad ? "bad-op" : "ok");
            }
            else if (!strcmp(op, "p.init") && nt == 3) {
                bytes_t c = parse_hex(tok[2]); const unsigned char *cp = place(0, c.p, c.n, c.is_null);
                unsigned long c0 = os_calls; int ret = tinyjambu_prng_init(&P[i], cp, c.n);
                fprintf(OUT, "ret=%d calls=%lu\n", ret, os_calls - c0); free(c.p);
            }
            else if (!strcmp(op, "p.inituser") && nt == 5) {
                bytes_t c = parse_hex(tok[4]); const unsigned char *cp = place(0, c.p, c.n, c.is_null);
                int user = !strcmp(tok[2], "user"); int ud = atoi(tok[3]);
                unsigned long c0 = os_calls; int ret;
                /* a user callback always gets its script as user_data; "ud=0" with a user callback is not generated */
                ret = tinyjambu_prng_init_user(&P[i], user ? user_cb : 0, (user || ud) ? &pscript[i] : 0, cp, c.n);
                fprintf(OUT, "ret=%d calls=%lu\n", ret, os_calls - c0); free(c.p);
            }
            else if (!strcmp(op, "p.gen") && nt == 3) {
                size_t n = strtoul(tok[2], 0, 10); unsigned char *out = out_prepare((int)opno);
                unsigned long c0 = os_calls; int j;
                gen_out = out; gen_size = n;
                tinyjambu_prng_generate(&P[i], out, n);
                gen_out = 0;
                put_hex("out=", out, n); fputs(" reqs=", OUT);
                if (!nreq) fputc('-', OUT);
                for (j = 0; j < nreq; ++j) fprintf(OUT, "%s%zu", j ? "," : "", reqlog[j]);
                fprintf(OUT, " calls=%lu slack=%s\n", os_calls - c0, slack_ok(out, 0, n) ? "ok" : "BAD");
            }
            else if (!strcmp(op, "p.genbig") && nt == 3) {
                /* a long generate, issued in 32 KiB calls; prints a checksum of the output and the positions of the entropy requests */
                size_t n = strtoul(tok[2], 0, 10), done = 0; unsigned long long h = 1469598103934665603ULL; int j, ok = 1;
                nreq = 0;
                while (done < n) {
                    size_t len = n - done < 32768 ? n - done : 32768, q; int n0 = nreq;
                    unsigned char *out = out_prepare((int)opno);
                    gen_out = out; gen_size = len;
                    tinyjambu_prng_generate(&P[i], out, len);
                    gen_out = 0;
                    for (j = n0; j < nreq; ++j) reqlog[j] += done;
                    for (q = 0; q < len; ++q) h = (h ^ out[q]) * 1099511628211ULL;
                    if (!slack_ok(out, 0, len)) ok = 0;
                    done += len;
                }
                fprintf(OUT, "sum=%llu reqs=", h);
                if (!nreq) fputc('-', OUT);
                for (j = 0; j < nreq; ++j) fprintf(OUT, "%s%zu", j ? "," : "", reqlog[j]);
                fprintf(OUT, " slack=%s\n", ok ? "ok" : "BAD");
            }
            else if (!strcmp(op, "p.feed") && nt == 3) {
                bytes_t b = parse_hex(tok[2]); const unsigned char *p = place(0, b.p, b.n, b.is_null);
                tinyjambu_prng_feed(&P[i], p, b.n); fprintf(OUT, "%s\n", inputs_ok(1) ? "ok" : "inputs=BAD"); free(b.p);
            }
            else if (!strcmp(op, "p.reseed") && nt == 2) {
                unsigned long c0 = os_calls; int ret = tinyjambu_prng_reseed(&P[i]);
                fprintf(OUT, "ret=%d calls=%lu\n", ret, os_calls - c0);
            }
            else if (!strcmp(op, "p.limit") && nt == 3) { tinyjambu_prng_set_reseed_limit(&P[i], strtoul(tok[2], 0, 10)); fprintf(OUT, "%s\n", "ok"); }
            else if (!strcmp(op, "p.dirty") && nt == 3) { bytes_t b = parse_hex(tok[2]); memcpy(&P[i], b.p, b.n < sizeof(P[i]) ? b.n : sizeof(P[i])); free(b.p); fprintf(OUT, "%s\n", "ok"); }
            else if (!strcmp(op, "p.free") && nt == 2) { tinyjambu_prng_free(&P[i]); fprintf(OUT, "%s\n", "ok"); }
            else if (!strcmp(op, "p.dump") && nt == 2) dump_prng(i);
            else if (!strcmp(op, "p.pokerc") && nt == 3) {
                uint32_t v = (uint32_t)strtoul(tok[2], 0, 10);
                memcpy((unsigned char *)&P[i] + lay_prng[2], &v, 4); fprintf(OUT, "%s\n", "ok");
            }
            else fprintf(OUT, "%s\n", "bad-op");
        } else {
            fprintf(OUT, "%s\n", "bad-op");
        }
        crash_armed = 0;
    }
}

/* threaded mode: lines "T<k> <op ...>" are executed by thread k (each thread has its own arenas and
 * must use its own object indices); results are printed in input order */
typedef struct { char **lines; int *idx; int n; char **res; } tjob_t;
static void *thread_main(void *arg)
{
    tjob_t *j = (tjob_t *)arg; int i;
    for (i = 0; i < j->n; ++i) {
        char *buf = 0; size_t sz = 0;
        OUT = open_memstream(&buf, &sz);
        exec_line(j->lines[i]);
        fclose(OUT);
        j->res[j->idx[i]] = buf;
    }
    return 0;
}

int main(int argc, char **argv)
{
    char *line = 0; size_t cap = 0; ssize_t got;
    struct sigaction sa; int threaded = 0;
    if (argc > 1) {
        /* layout string "V C rc rl cb ud" */
        sscanf(argv[1], "%u %u %u %u %u %u", &lay_prng[0], &lay_prng[1], &lay_prng[2],
               &lay_prng[3], &lay_prng[4], &lay_prng[5]);
    }
    if (argc > 2 && !strcmp(argv[2], "--threads")) threaded = 1;
    memset(&sa, 0, sizeof(sa));
    sa.sa_handler = on_crash; sa.sa_flags = SA_NODEFER;
    sigaction(SIGSEGV, &sa, 0); sigaction(SIGBUS, &sa, 0); sigaction(SIGFPE, &sa, 0); sigaction(SIGILL, &sa, 0);
    setvbuf(stdout, 0, _IOFBF, 1 << 16);
    OUT = stdout;

    if (!threaded) {
        while ((got = getline(&line, &cap, stdin)) > 0) {
            while (got > 0 && (line[got - 1] == '\n' || line[got - 1] == '\r')) line[--got] = 0;
            if (got == 0 || line[0] == '#') continue;
            exec_line(line);
            fflush(stdout);
        }
    } else {
        enum { MAXT = 64 };
        static tjob_t job[MAXT]; pthread_t th[MAXT]; int used[MAXT] = {0};
        char **all = 0; int n = 0, capn = 0, i, k; char **res;
        while ((got = getline(&line, &cap, stdin)) > 0) {
            while (got > 0 && (line[got - 1] == '\n' || line[got - 1] == '\r')) line[--got] = 0;
            if (got == 0 || line[0] == '#') continue;
            if (n == capn) { capn = capn ? capn * 2 : 1024; all = realloc(all, capn * sizeof(char *)); }
            all[n++] = strdup(line);
        }
        res = calloc(n + 1, sizeof(char *));
        for (k = 0; k < MAXT; ++k) { job[k].lines = malloc((n + 1) * sizeof(char *)); job[k].idx = malloc((n + 1) * sizeof(int)); job[k].n = 0; job[k].res = res; }
        for (i = 0; i < n; ++i) {
            char *sp = strchr(all[i], ' ');
            k = (all[i][0] == 'T' && sp) ? atoi(all[i] + 1) % MAXT : 0;
            job[k].lines[job[k].n] = (all[i][0] == 'T' && sp) ? sp + 1 : all[i];
            job[k].idx[job[k].n++] = i; used[k] = 1;
        }
        for (k = 0; k < MAXT; ++k) if (used[k]) pthread_create(&th[k], 0, thread_main, &job[k]);
        for (k = 0; k < MAXT; ++k) if (used[k]) pthread_join(th[k], 0);
        OUT = stdout;
        for (i = 0; i < n; ++i) fputs(res[i] ? res[i] : "missing\n", stdout);
    }
    fflush(stdout);
    (void)sys_cb_addr;
    return 0;
}
