/*
 * ctgrind.c — constant-time observation of the compiled library (DESIGN.md C07).
 * Run under valgrind memcheck: every secret is marked "undefined", so any conditional
 * jump or memory address that depends on a secret inside the library is reported as
 * "depends on uninitialised value".  Results are made "defined" again before this
 * program looks at them (the verdict is public once returned).
 * One run covers every public shape listed in main(); the shape being executed is
 * printed to stdout so a report can be attributed.
 */
#include <stdio.h>
#include <string.h>
#include <stdlib.h>
#include <valgrind/memcheck.h>
#include "TinyJAMBU.h"

#define SECRET(p, n) VALGRIND_MAKE_MEM_UNDEFINED((p), (n))
#define PUBLIC(p, n) VALGRIND_MAKE_MEM_DEFINED((p), (n))

static unsigned long long rng = 88172645463325252ULL;
static void fill(unsigned char *p, size_t n)
{
    size_t i;
    for (i = 0; i < n; ++i) { rng ^= rng << 13; rng ^= rng >> 7; rng ^= rng << 17; p[i] = (unsigned char)rng; }
}

typedef void (*enc_fn)(unsigned char *, size_t *, const unsigned char *, size_t, const unsigned char *, size_t, const unsigned char *, const unsigned char *);
typedef int (*dec_fn)(unsigned char *, size_t *, const unsigned char *, size_t, const unsigned char *, size_t, const unsigned char *, const unsigned char *);

static size_t cb_secret(void *ud, unsigned char *buf, size_t size)
{
    size_t n = *(size_t *)ud;
    fill(buf, n); SECRET(buf, n);
    (void)size;
    return n;
}

static unsigned long shapes;

static void aead_shapes(const char *name, enc_fn enc, dec_fn dec, size_t klen)
{
    static const size_t lens[] = {0, 1, 2, 3, 4, 5, 7, 8, 15, 16, 33, 64, 257};
    static const size_t adl[] = {0, 1, 2, 3, 4, 9};
    unsigned char k[32], n[12], ad[16], m[300], c[320], m2[300];
    size_t i, j, clen, mlen; int ret, tam;
    for (i = 0; i < sizeof(lens) / sizeof(lens[0]); ++i)
    for (j = 0; j < sizeof(adl) / sizeof(adl[0]); ++j) {
        size_t ml = lens[i], al = adl[j];
        fill(k, klen); fill(n, 12); fill(ad, al); fill(m, ml);
        printf("%s enc mlen=%zu adlen=%zu\n", name, ml, al); fflush(stdout); ++shapes;
        SECRET(k, klen); SECRET(m, ml);
        enc(c, &clen, m, ml, ad, al, n, k);
        PUBLIC(c, ml + 8); PUBLIC(k, klen); PUBLIC(m, ml);
        for (tam = 0; tam < 3; ++tam) {
            /* tam 0: valid; 1: first tag byte differs; 2: last tag byte differs -- same path required */
            unsigned char cc[320];
            memcpy(cc, c, ml + 8);
            if (tam == 1) cc[ml] ^= 1;
            if (tam == 2) cc[ml + 7] ^= 0x80;
            printf("%s dec clen=%zu adlen=%zu tamper=%d\n", name, ml + 8, al, tam); fflush(stdout); ++shapes;
            SECRET(k, klen);
            SECRET(cc + ml, 8);   /* which tag bytes differ must not matter either */
            ret = dec(m2, &mlen, cc, ml + 8, ad, al, n, k);
            PUBLIC(&ret, sizeof(ret)); PUBLIC(m2, ml); PUBLIC(k, klen); PUBLIC(&mlen, sizeof(mlen));
            if ((tam == 0) != (ret == 0)) { printf("unexpected verdict\n"); }
        }
    }
}

int main(void)
{
    unsigned char buf[9000], out[9000], key[200], salt[100], info[50];
    size_t i;
    aead_shapes("aead128", tinyjambu_128_aead_encrypt, tinyjambu_128_aead_decrypt, 16);
    aead_shapes("aead192", tinyjambu_192_aead_encrypt, tinyjambu_192_aead_decrypt, 24);
    aead_shapes("aead256", tinyjambu_256_aead_encrypt, tinyjambu_256_aead_decrypt, 32);
    aead_shapes("siv128", tinyjambu_128_siv_encrypt, tinyjambu_128_siv_decrypt, 16);
    aead_shapes("siv192", tinyjambu_192_siv_encrypt, tinyjambu_192_siv_decrypt, 24);
    aead_shapes("siv256", tinyjambu_256_siv_encrypt, tinyjambu_256_siv_decrypt, 32);
    {
        static const size_t lens[] = {0, 1, 15, 16, 17, 31, 32, 33, 100, 1000};
        for (i = 0; i < sizeof(lens) / sizeof(lens[0]); ++i) {
            size_t n = lens[i], a, b;
            tinyjambu_hash_state_t h;
            printf("hash len=%zu\n", n); fflush(stdout); ++shapes;
            fill(buf, n); SECRET(buf, n);
            tinyjambu_hash(out, buf, n); PUBLIC(out, 32);
            /* streamed in two chunks */
            a = n / 3; b = n - a;
            printf("hash-stream %zu+%zu\n", a, b); fflush(stdout); ++shapes;
            tinyjambu_hash_init(&h); tinyjambu_hash_update(&h, buf, a); tinyjambu_hash_update(&h, buf + a, b);
            tinyjambu_hash_finalize(&h, out); tinyjambu_hash_free(&h); PUBLIC(out, 32);
            PUBLIC(buf, n);
        }
    }
    {
        static const size_t kl[] = {0, 1, 32, 63, 64, 65, 128};
        static const size_t ml[] = {0, 5, 64, 100};
        size_t a, b;
        for (a = 0; a < sizeof(kl) / sizeof(kl[0]); ++a) for (b = 0; b < sizeof(ml) / sizeof(ml[0]); ++b) {
            printf("hmac keylen=%zu mlen=%zu\n", kl[a], ml[b]); fflush(stdout); ++shapes;
            fill(key, kl[a]); fill(buf, ml[b]); SECRET(key, kl[a]); SECRET(buf, ml[b]);
            tinyjambu_hmac(out, key, kl[a], buf, ml[b]); PUBLIC(out, 32); PUBLIC(key, kl[a]); PUBLIC(buf, ml[b]);
        }
    }
    {
        static const size_t ol[] = {0, 1, 32, 33, 100, 8160};
        size_t a;
        for (a = 0; a < sizeof(ol) / sizeof(ol[0]); ++a) {
            tinyjambu_hkdf_state_t st; int r;
            printf("hkdf outlen=%zu\n", ol[a]); fflush(stdout); ++shapes;
            fill(key, 40); fill(salt, 20); fill(info, 10); SECRET(key, 40); SECRET(salt, 20);
            r = tinyjambu_hkdf(out, ol[a], key, 40, salt, 20, info, 10); PUBLIC(out, ol[a]); (void)r;
            printf("hkdf-incremental outlen=%zu\n", ol[a]); fflush(stdout); ++shapes;
            tinyjambu_hkdf_extract(&st, key, 40, salt, 20);
            r = tinyjambu_hkdf_expand(&st, info, 10, out, ol[a] / 2);
            r = tinyjambu_hkdf_expand(&st, info, 10, out, ol[a] - ol[a] / 2);
            tinyjambu_hkdf_free(&st); PUBLIC(out, ol[a]); PUBLIC(key, 40); PUBLIC(salt, 20);
        }
    }
    {
        static const size_t ol[] = {1, 32, 33, 70};
        static const unsigned long cnt[] = {0, 1, 2, 3, 10};
        size_t a, b;
        for (a = 0; a < 4; ++a) for (b = 0; b < 5; ++b) {
            printf("pbkdf2 outlen=%zu count=%lu\n", ol[a], cnt[b]); fflush(stdout); ++shapes;
            fill(key, 70); fill(salt, 16); SECRET(key, 70);
            tinyjambu_pbkdf2(out, ol[a], key, 70 - 10 * b, salt, 16, cnt[b]); PUBLIC(out, ol[a]); PUBLIC(key, 70);
        }
    }
    {
        static const size_t dl[] = {32, 31, 0};
        static const size_t gl[] = {0, 1, 32, 33, 100, 1100};
        size_t a, b;
        for (a = 0; a < 3; ++a) for (b = 0; b < 6; ++b) {
            tinyjambu_prng_state_t p; size_t deliver = dl[a]; int r;
            printf("prng deliver=%zu gen=%zu\n", dl[a], gl[b]); fflush(stdout); ++shapes;
            fill(key, 20);
            r = tinyjambu_prng_init_user(&p, cb_secret, &deliver, key, 20); (void)r;
            tinyjambu_prng_set_reseed_limit(&p, 64);
            tinyjambu_prng_generate(&p, out, gl[b]); PUBLIC(out, gl[b]);
            fill(buf, 30); SECRET(buf, 30);
            tinyjambu_prng_feed(&p, buf, 30); PUBLIC(buf, 30);
            r = tinyjambu_prng_reseed(&p);
            tinyjambu_prng_generate(&p, out, 40); PUBLIC(out, 40);
            tinyjambu_prng_free(&p);
        }
    }
    printf("shapes=%lu\n", shapes);
    return 0;
}
