/* prints the offsets of the private PRNG struct fields as compiled from the working tree */
#include <stddef.h>
#include <stdio.h>
#include "tinyjambu-prng.c"
int main(void)
{
    printf("%u %u %u %u %u %u\n",
        (unsigned)offsetof(tinyjambu_prng_state_p_t, V), (unsigned)offsetof(tinyjambu_prng_state_p_t, C),
        (unsigned)offsetof(tinyjambu_prng_state_p_t, reseed_counter), (unsigned)offsetof(tinyjambu_prng_state_p_t, reseed_limit),
        (unsigned)offsetof(tinyjambu_prng_state_p_t, callback), (unsigned)offsetof(tinyjambu_prng_state_p_t, user_data));
    return 0;
}
