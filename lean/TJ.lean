import TJ.Impl.Basic
import TJ.Impl.Aead
import TJ.Impl.Hash
import TJ.Impl.Prng
import TJ.Props.C01
import TJ.Props.C03
import TJ.Props.C04
import TJ.Props.C08
