import TJ.Impl.Basic
import TJ.Impl.Aead
import TJ.Impl.Hash
import TJ.Impl.Prng
