/-
  tjminic — runs the operation lines of the correspondence protocol through the MiniC interpreter
  on the program REGENERATED from /repo's C sources (TJ.Gen.MiniC.Prog), with
    * every caller buffer its own exact-size block (any out-of-range access is a fault),
    * data bytes (keys, nonces, AD, messages, passwords, salts, entropy…) labelled secret and
      lengths / counts public (a secret-dependent branch, address, length, shift or division is
      the fault `taint`),
    * output buffers initially undefined (a read of uninitialised memory is a fault).
  Prints the same result lines as harness/harness.c, or `fault <kind> …`.
  With `--trace` every line is followed by ` leak=<n>:<hash>` (length and hash of the leakage trace).
-/
import TJ.Gen.MiniC.Prog
import TJ.MiniC.Frame
open TJ.MiniC TJ.Gen.MiniC

def hexDigit (c : Char) : Option Nat :=
  if '0' ≤ c ∧ c ≤ '9' then some (c.toNat - '0'.toNat)
  else if 'a' ≤ c ∧ c ≤ 'f' then some (c.toNat - 'a'.toNat + 10)
  else if 'A' ≤ c ∧ c ≤ 'F' then some (c.toNat - 'A'.toNat + 10)
  else none

def parseHexChars : List Char → Option (List UInt8)
  | [] => some []
  | a :: b :: r => do
    let x ← hexDigit a; let y ← hexDigit b; let t ← parseHexChars r
    pure ((x * 16 + y).toUInt8 :: t)
  | _ => none

structure Buf where
  bytes : List UInt8
  isNull : Bool

def parseBuf (s : String) : Option Buf :=
  if s = "NULL" then some ⟨[], true⟩ else if s = "-" then some ⟨[], false⟩
  else (parseHexChars s.toList).map fun b => ⟨b, false⟩

def hexOf (n : Nat) : Char := "0123456789abcdef".toList.getD n '0'
def toHex (b : List UInt8) : String :=
  if b.isEmpty then "-" else
  String.ofList (b.foldr (fun x acc => hexOf (x.toNat / 16) :: hexOf (x.toNat % 16) :: acc) [])

def faultName : Fault → String
  | .taint => "taint" | .oob => "oob" | .misaligned => "misaligned" | .uninit => "uninit" | .shift => "shift"
  | .divzero => "divzero" | .badptr => "badptr" | .badcall => "badcall" | .noreturn => "noreturn" | .unsupported => "unsupported"

def evHash (h : UInt64) : Ev → UInt64
  | .br b => h * 1099511628211 + (if b then 3 else 5)
  | .rd p n => (h * 1099511628211 + 7) * 31 + p.toUInt64 * 131 + n.toUInt64
  | .wr p n => (h * 1099511628211 + 11) * 31 + p.toUInt64 * 131 + n.toUInt64
  | .cp d s n => (h * 1099511628211 + 13) * 31 + d.toUInt64 * 131 + s.toUInt64 * 137 + n.toUInt64
  | .set d n => (h * 1099511628211 + 17) * 31 + d.toUInt64 * 131 + n.toUInt64
  | .icall f => (h * 1099511628211 + 19) * 31 + f.toUInt64
  | .ent p n => (h * 1099511628211 + 23) * 31 + p.toUInt64 * 131 + n.toUInt64

def leakSummary (l : List Ev) : String := s!"{l.length}:{l.foldl evHash 14695981039346656037}"

/-! persistent objects: 8 of each kind, blocks 0..31 -/
def nobj : Nat := 8
def objSize : Nat → Nat
  | 0 => 56 | 1 => 56 | 2 => 72 | _ => 96     -- hash, hmac, hkdf, prng
def objBlock (kind i : Nat) : Nat := kind * nobj + i
def objPtr (kind i : Nat) : Nat := mkPtr (objBlock kind i) 0

def initMem : Array Block :=
  (Array.range (4 * nobj)).map fun b => { bytes := Array.replicate (objSize (b / nobj)) (0, Lab.pub), base := 0 }

structure World where
  mem : Array Block
  scripts : Array (List Delivery)
  trace : Bool

def funIdx (name : String) : Option Nat := funNames.idxOf? name

def fuel : Nat := 2000000

/-- push a caller buffer; returns pointer (0 for NULL) -/
def pushBuf (mem : Array Block) (b : Buf) (lab : Lab) (base : Nat) : Array Block × Nat :=
  if b.isNull then (mem, 0) else
  (mem.push { bytes := (b.bytes.map fun x => (x, lab)).toArray, base := base }, mkPtr mem.size base)

def pushOut (mem : Array Block) (n : Nat) (base : Nat) : Array Block × Nat :=
  (mem.push { bytes := Array.replicate n (0, Lab.undef), base := base }, mkPtr mem.size base)

def blockVals (mem : Array Block) (b : Nat) : List UInt8 := ((blockBytes mem b).toList.map (·.1))
def blockDefined (mem : Array Block) (b off n : Nat) : Bool :=
  (((blockBytes mem b).toList.drop off).take n).all fun x => x.2 != Lab.undef
def blockUntouched (mem : Array Block) (b : Nat) : Bool :=
  (blockBytes mem b).toList.all fun x => x.2 == Lab.undef

inductive CallRes
  | ok (ret : Option Nat) (st : St)
  | fault (msg : String)

def call (w : World) (mem : Array Block) (ent : List Delivery) (name : String) (args : List Nat) : CallRes :=
  match funIdx name with
  | none => .fault s!"fault nofunction {name}"
  | some f =>
    let hasRet := funHasRet.getD f false
    match callFun prog fuel f hasRet (args.map fun a => (a, Lab.pub)) { mem := mem, ent := ent, leak := [] } with
    | .ok _ env st =>
      let r := if hasRet then (env[0]?).map (·.1) else none
      .ok r st
    | .fault k leak =>
      let at_ := match leak with | e :: _ => s!" after {repr e}" | [] => ""
      .fault (s!"fault {faultName k} in {name} leak={leak.length}{at_}")
    | .timeout => .fault s!"fault timeout in {name}"

def toInt32 (n : Nat) : Int := if n ≥ 2147483648 then (n : Int) - 4294967296 else n

/-- persistent objects (blocks below 4·nobj) read or written according to the trace -/
def touched (l : List Ev) : String :=
  let bs := (l.foldl (fun acc e => (evTouches e).foldl (fun a b => if b < 4 * nobj ∧ ¬ a.contains b then b :: a else a) acc) []).toArray.qsort (· < ·)
  if bs.isEmpty then "-" else ",".intercalate (bs.toList.map toString)

def finish (w : World) (st : St) (line : String) : World × String :=
  ({ w with mem := st.mem.extract 0 (4 * nobj) },
   if w.trace then s!"{line} leak={leakSummary st.leak} touch={touched st.leak}" else line)

def le (n k : Nat) : List UInt8 := (List.range k).map fun i => ((n >>> (8 * i)) % 256).toUInt8

def variantName (v : String) : Option String := if v = "128" ∨ v = "192" ∨ v = "256" then some v else none

def step (w : World) (line : String) : World × String :=
  let bad := (w, "bad-op")
  let skip := (w, "skip")
  let f := (line.trimAscii.toString.splitOn " ").filter (· ≠ "")
  match f with
  | ["perm", v, st, key, rounds] =>
    match variantName v, parseBuf st, parseBuf key, rounds.toNat? with
    | some v, some st, some key, some r =>
      let (m1, p) := pushBuf w.mem ⟨st.bytes ++ key.bytes, false⟩ Lab.sec 0
      match call w m1 [] s!"tinyjambu_permutation_{v}" [p, r] with
      | .fault msg => (w, msg)
      | .ok _ s =>
        let bs := blockVals s.mem (4 * nobj)
        finish w s s!"s={toHex (bs.take 16)} k={toHex (bs.drop 16)}"
    | _, _, _, _ => bad
  | [op, v, key, nonce, ad, m, inplace, align] =>
    match variantName v, parseBuf key, parseBuf nonce, parseBuf ad, parseBuf m, align.toNat? with
    | some v, some key, some nonce, some ad, some m, some al =>
      let enc := op = "aead.enc" ∨ op = "siv.enc"
      let mode := if op.startsWith "aead" then "aead" else "siv"
      if ¬ (enc ∨ op = "aead.dec" ∨ op = "siv.dec") then bad else
      let (m1, pk) := pushBuf w.mem key Lab.sec 1
      let (m2, pn) := pushBuf m1 nonce Lab.sec 1
      let (m3, pa) := pushBuf m2 ad Lab.sec 3
      let n := m.bytes.length
      let outLen := if enc then n + 8 else n - 8
      -- in place: the message sits at the start of the output buffer
      let inpl := inplace = "1"
      let bOut := m3.size
      let (m4, po) := if inpl then
          let body : Array LByte := (m.bytes.map fun x => (x, Lab.sec)).toArray ++ Array.replicate (outLen - n) (0, Lab.undef)
          (m3.push { bytes := body, base := al % 8 }, mkPtr m3.size (al % 8))
        else pushOut m3 outLen (al % 8)
      let (m5, pm) := if inpl then (m4, po) else pushBuf m4 m Lab.sec 1
      let bLen := m5.size
      let (m6, pl) := pushOut m5 8 0
      let fname := s!"tinyjambu_{v}_{mode}_{if enc then "encrypt" else "decrypt"}"
      match call w m6 [] fname [po, pl, pm, n, pa, ad.bytes.length, pn, pk] with
      | .fault msg => (w, msg)
      | .ok ret s =>
        let lenSet := blockDefined s.mem bLen 0 8
        let lenVal := (readLE (blockBytes s.mem bLen) 0 8).map (·.1) |>.getD 0
        let inputsOk := blockVals s.mem (4 * nobj) == key.bytes ∧ (nonce.isNull ∨ blockVals s.mem (4 * nobj + 1) == nonce.bytes)
        let out := blockVals s.mem bOut
        if enc then
          if ¬ blockDefined s.mem bOut 0 outLen then finish w s "fault output-not-fully-written" else
          finish w s s!"clen={lenVal} out={toHex out} slack=ok inputs={if inputsOk then "ok" else "BAD"}"
        else
          let r := toInt32 (ret.getD 0)
          let ml := if lenSet then toString lenVal else "unset"
          let o := if n < 8 then (if inpl ∨ blockUntouched s.mem bOut then "untouched" else "TOUCHED")
                   else if blockDefined s.mem bOut 0 outLen then toHex (out.take outLen) else "UNDEFINED"
          finish w s s!"ret={r} mlen={ml} out={o} slack=ok inputs={if inputsOk then "ok" else "BAD"}"
    | _, _, _, _, _, _ => bad
  | ["checktag", pl, t1, t2] =>
    match parseBuf pl, parseBuf t1, parseBuf t2 with
    | some pl, some t1, some t2 =>
      let (m1, pa) := pushBuf w.mem t1 Lab.sec 1
      let (m2, pb) := pushBuf m1 t2 Lab.sec 1
      let (m3, po) := pushBuf m2 ⟨pl.bytes, false⟩ Lab.sec 0
      match call w m3 [] "tinyjambu_aead_check_tag" [po, pl.bytes.length, pa, pb, min t1.bytes.length t2.bytes.length] with
      | .fault msg => (w, msg)
      | .ok ret s => finish w s s!"ret={toInt32 (ret.getD 0)} out={toHex (blockVals s.mem (4 * nobj + 2))}"
    | _, _, _ => bad
  | ["hash", m] =>
    match parseBuf m with
    | some m =>
      let (m1, pm) := pushBuf w.mem m Lab.sec 1
      let bOut := m1.size
      let (m2, po) := pushOut m1 32 1
      match call w m2 [] "tinyjambu_hash" [po, pm, m.bytes.length] with
      | .fault msg => (w, msg)
      | .ok _ s =>
        if ¬ blockDefined s.mem bOut 0 32 then finish w s "fault output-not-fully-written" else
        finish w s s!"out={toHex (blockVals s.mem bOut)} slack=ok inputs=ok"
    | none => bad
  | ["hmac", key, m] =>
    match parseBuf key, parseBuf m with
    | some key, some m =>
      let (m1, pk) := pushBuf w.mem key Lab.sec 1
      let (m2, pm) := pushBuf m1 m Lab.sec 1
      let bOut := m2.size
      let (m3, po) := pushOut m2 32 1
      match call w m3 [] "tinyjambu_hmac" [po, pk, key.bytes.length, pm, m.bytes.length] with
      | .fault msg => (w, msg)
      | .ok _ s =>
        if ¬ blockDefined s.mem bOut 0 32 then finish w s "fault output-not-fully-written" else
        finish w s s!"out={toHex (blockVals s.mem bOut)} slack=ok inputs=ok"
    | _, _ => bad
  | ["hkdf", n, key, salt, info] =>
    match n.toNat?, parseBuf key, parseBuf salt, parseBuf info with
    | some n, some key, some salt, some info =>
      let (m1, pk) := pushBuf w.mem key Lab.sec 1
      let (m2, ps) := pushBuf m1 salt Lab.sec 1
      let (m3, pi) := pushBuf m2 info Lab.sec 1
      let bOut := m3.size
      let (m4, po) := pushOut m3 (if n > 20000 then 0 else n) 1
      match call w m4 [] "tinyjambu_hkdf" [po, n, pk, key.bytes.length, ps, salt.bytes.length, pi, info.bytes.length] with
      | .fault msg => (w, msg)
      | .ok ret s =>
        let o := if blockUntouched s.mem bOut then (if n = 0 ∧ ret = some 0 then "-" else "untouched")
                 else if blockDefined s.mem bOut 0 n then toHex (blockVals s.mem bOut) else "UNDEFINED"
        finish w s s!"ret={toInt32 (ret.getD 0)} out={o} slack=ok inputs=ok"
    | _, _, _, _ => bad
  | ["pbkdf2", n, pw, salt, count] =>
    match n.toNat?, parseBuf pw, parseBuf salt, count.toNat? with
    | some n, some pw, some salt, some count =>
      let (m1, pp) := pushBuf w.mem pw Lab.sec 1
      let (m2, ps) := pushBuf m1 salt Lab.sec 1
      let bOut := m2.size
      let (m3, po) := pushOut m2 n 1
      match call w m3 [] "tinyjambu_pbkdf2" [po, n, pp, pw.bytes.length, ps, salt.bytes.length, count] with
      | .fault msg => (w, msg)
      | .ok _ s =>
        if ¬ blockDefined s.mem bOut 0 n then finish w s "fault output-not-fully-written" else
        finish w s s!"out={toHex (blockVals s.mem bOut)} slack=ok inputs=ok"
    | _, _, _, _ => bad
  | ["clean", off, n, buf] =>
    match off.toNat?, n.toNat?, parseBuf buf with
    | some off, some n, some buf =>
      let (m1, pb) := pushBuf w.mem ⟨buf.bytes, false⟩ Lab.sec 0
      match call w m1 [] "tinyjambu_clean" [pb + off, n] with
      | .fault msg => (w, msg)
      | .ok _ s => finish w s s!"out={toHex (blockVals s.mem (4 * nobj))}"
    | _, _, _ => bad
  | [op, i] =>
    match i.toNat? with
    | none => bad
    | some i =>
      if i ≥ nobj then bad else
      let simple (name : String) (kind : Nat) : World × String :=
        match call w w.mem [] name [objPtr kind i] with
        | .fault msg => (w, msg)
        | .ok _ s => finish w s "ok"
      match op with
      | "h.init" => simple "tinyjambu_hash_init" 0
      | "h.reinit" => simple "tinyjambu_hash_reinit" 0
      | "h.free" => simple "tinyjambu_hash_free" 0
      | "m.free" => simple "tinyjambu_hmac_free" 1
      | "k.free" => simple "tinyjambu_hkdf_free" 2
      | "p.free" => simple "tinyjambu_prng_free" 3
      | "h.dump" => (w, s!"raw={toHex (blockVals w.mem (objBlock 0 i))}")
      | "m.dump" => (w, s!"raw={toHex (blockVals w.mem (objBlock 1 i))}")
      | "k.dump" => (w, s!"raw={toHex (blockVals w.mem (objBlock 2 i))}")
      | "p.dump" =>
        let b := blockVals w.mem (objBlock 3 i)
        let rd (off k : Nat) : Nat := ((b.drop off).take k).foldr (fun x acc => x.toNat + 256 * acc) 0
        let cb := rd 72 8
        (w, s!"V={toHex (b.take 32)} C={toHex ((b.drop 32).take 32)} rc={rd 64 4} rl={rd 68 4} cb={if cb = 0 then "null" else if cb = userCb then "user" else "system"} ud={if rd 80 8 = 0 then 0 else 1} tail={toHex (b.drop 88)}")
      | "h.final" =>
        let bOut := w.mem.size
        let (m1, po) := pushOut w.mem 32 1
        match call w m1 [] "tinyjambu_hash_finalize" [objPtr 0 i, po] with
        | .fault msg => (w, msg)
        | .ok _ s => finish w s s!"out={toHex (blockVals s.mem bOut)}"
      | "p.reseed" =>
        match call w w.mem (w.scripts[i]!) "tinyjambu_prng_reseed" [objPtr 3 i] with
        | .fault msg => (w, msg)
        | .ok ret s =>
          let (w', l) := finish w s s!"ret={toInt32 (ret.getD 0)}"
          ({ w' with scripts := w'.scripts.set! i s.ent }, l)
      | _ => bad
  | [op, i, a] =>
    match i.toNat? with
    | none => bad
    | some i =>
      if i ≥ nobj then bad else
      let dirty (kind : Nat) : World × String :=
        match parseBuf a with
        | some b =>
          let blk := objBlock kind i
          let old := blockBytes w.mem blk
          let nb := writeBytes old 0 ((b.bytes.take (objSize kind)).map fun x => (x, Lab.sec))
          ({ w with mem := setBlock w.mem blk nb }, "ok")
        | none => bad
      let withData (name : String) (kind : Nat) : World × String :=
        match parseBuf a with
        | some b =>
          let (m1, pd) := pushBuf w.mem b Lab.sec 1
          match call w m1 [] name [objPtr kind i, pd, b.bytes.length] with
          | .fault msg => (w, msg)
          | .ok _ s => finish w s "ok"
        | none => bad
      match op with
      | "h.dirty" => dirty 0
      | "m.dirty" => dirty 1
      | "k.dirty" => dirty 2
      | "p.dirty" => dirty 3
      | "h.update" => withData "tinyjambu_hash_update" 0
      | "m.init" => withData "tinyjambu_hmac_init" 1
      | "m.reinit" => withData "tinyjambu_hmac_reinit" 1
      | "m.update" => withData "tinyjambu_hmac_update" 1
      | "p.feed" => withData "tinyjambu_prng_feed" 3
      | "m.final" =>
        match parseBuf a with
        | some b =>
          let (m1, pd) := pushBuf w.mem b Lab.sec 1
          let bOut := m1.size
          let (m2, po) := pushOut m1 32 1
          match call w m2 [] "tinyjambu_hmac_finalize" [objPtr 1 i, pd, b.bytes.length, po] with
          | .fault msg => (w, msg)
          | .ok _ s => finish w s s!"out={toHex (blockVals s.mem bOut)}"
        | none => bad
      | "p.script" =>
        if a = "-" then ({ w with scripts := w.scripts.set! i [] }, "ok") else
        let ds := (a.splitOn ",").map fun d =>
          match d.splitOn ":" with
          | [hx, r] => match parseBuf hx, r.toNat? with
            | some b, some n => some (b.bytes, n)
            | _, _ => none
          | _ => none
        if ds.all Option.isSome then ({ w with scripts := w.scripts.set! i (ds.filterMap id) }, "ok") else bad
      | "p.gen" =>
        match a.toNat? with
        | some n =>
          let bOut := w.mem.size
          let (m1, po) := pushOut w.mem n 1
          match call w m1 (w.scripts[i]!) "tinyjambu_prng_generate" [objPtr 3 i, po, n] with
          | .fault msg => (w, msg)
          | .ok _ s =>
            if ¬ blockDefined s.mem bOut 0 n then finish w s "fault output-not-fully-written" else
            let (w', l) := finish w s s!"out={toHex (blockVals s.mem bOut)}"
            ({ w' with scripts := w'.scripts.set! i s.ent }, l)
        | none => bad
      | "p.limit" =>
        match a.toNat? with
        | some n =>
          match call w w.mem [] "tinyjambu_prng_set_reseed_limit" [objPtr 3 i, n] with
          | .fault msg => (w, msg)
          | .ok _ s => finish w s "ok"
        | none => bad
      | "p.pokerc" =>
        match a.toNat? with
        | some n =>
          let blk := objBlock 3 i
          ({ w with mem := setBlock w.mem blk (writeLE (blockBytes w.mem blk) 64 n Lab.pub 4) }, "ok")
        | none => bad
      | _ => skip
  | ["k.extract", i, key, salt] =>
    match i.toNat?, parseBuf key, parseBuf salt with
    | some i, some key, some salt =>
      if i ≥ nobj then bad else
      let (m1, pk) := pushBuf w.mem key Lab.sec 1
      let (m2, ps) := pushBuf m1 salt Lab.sec 1
      match call w m2 [] "tinyjambu_hkdf_extract" [objPtr 2 i, pk, key.bytes.length, ps, salt.bytes.length] with
      | .fault msg => (w, msg)
      | .ok _ s => finish w s "ok"
    | _, _, _ => bad
  | ["k.expand", i, info, n] =>
    match i.toNat?, parseBuf info, n.toNat? with
    | some i, some info, some n =>
      if i ≥ nobj then bad else
      let (m1, pi) := pushBuf w.mem info Lab.sec 1
      let bOut := m1.size
      let (m2, po) := pushOut m1 n 1
      match call w m2 [] "tinyjambu_hkdf_expand" [objPtr 2 i, pi, info.bytes.length, po, n] with
      | .fault msg => (w, msg)
      | .ok ret s =>
        if ¬ blockDefined s.mem bOut 0 n then finish w s "fault output-not-fully-written" else
        finish w s s!"ret={toInt32 (ret.getD 0)} out={toHex (blockVals s.mem bOut)} slack=ok"
    | _, _, _ => bad
  | ["p.inituser", i, cb, ud, custom] =>
    match i.toNat?, parseBuf custom with
    | some i, some c =>
      if i ≥ nobj then bad else
      if cb ≠ "user" then skip else
      let (m1, pc) := pushBuf w.mem c Lab.sec 1
      let _ := ud
      match call w m1 (w.scripts[i]!) "tinyjambu_prng_init_user" [objPtr 3 i, userCb, 8, pc, c.bytes.length] with
      | .fault msg => (w, msg)
      | .ok ret s =>
        let (w', l) := finish w s s!"ret={toInt32 (ret.getD 0)}"
        ({ w' with scripts := w'.scripts.set! i s.ent }, l)
    | _, _ => bad
  | _ => skip

partial def loop (h : IO.FS.Stream) (out : IO.FS.Stream) (w : World) : IO Unit := do
  let line ← h.getLine
  if line.isEmpty then return ()
  if line.trimAscii.toString.isEmpty || line.startsWith "#" then
    loop h out w
  else
    let (w', o) := step w line
    out.putStrLn o
    loop h out w'

def main (args : List String) : IO Unit := do
  let out ← IO.getStdout
  if args.contains "--untranslated" then
    out.putStrLn (" ".intercalate untranslated); out.flush; return
  loop (← IO.getStdin) out { mem := initMem, scripts := Array.replicate nobj [], trace := args.contains "--trace" }
  out.flush
