/- tjspec — executes TJ.Spec (bit-serial, slow) on `aead.enc`, `siv.enc` and `hash` lines. -/
import TJ.Spec.Hash
open TJ

def hexDigit (c : Char) : Option Nat :=
  if '0' ≤ c ∧ c ≤ '9' then some (c.toNat - '0'.toNat)
  else if 'a' ≤ c ∧ c ≤ 'f' then some (c.toNat - 'a'.toNat + 10)
  else if 'A' ≤ c ∧ c ≤ 'F' then some (c.toNat - 'A'.toNat + 10)
  else none
def parseHexChars : List Char → Option Bytes
  | [] => some []
  | a :: b :: r => do
    let x ← hexDigit a; let y ← hexDigit b; let t ← parseHexChars r
    pure ((x * 16 + y).toUInt8 :: t)
  | _ => none
def parseHex (s : String) : Option Bytes :=
  if s = "-" ∨ s = "NULL" then some [] else parseHexChars s.toList
def hexOf (n : Nat) : Char := "0123456789abcdef".toList.getD n '0'
def toHex (b : Bytes) : String :=
  if b.isEmpty then "-" else
  String.ofList (b.foldr (fun x acc => hexOf (x.toNat / 16) :: hexOf (x.toNat % 16) :: acc) [])

def params : String → Option Spec.Params
  | "128" => some Spec.p128 | "192" => some Spec.p192 | "256" => some Spec.p256 | _ => none

def step (line : String) : String :=
  let f := (line.trimAscii.toString.splitOn " ").filter (· ≠ "")
  match f with
  | op :: v :: key :: nonce :: ad :: m :: _ =>
    match params v, parseHex key, parseHex nonce, parseHex ad, parseHex m with
    | some p, some key, some nonce, some ad, some m =>
      if op = "aead.enc" then s!"out={toHex (Spec.AEAD.encrypt p key nonce ad m)}"
      else if op = "siv.enc" then s!"out={toHex (Spec.SIV.encrypt p key nonce ad m)}"
      else if op = "aead.dec" then
        match Spec.AEAD.decrypt p key nonce ad m with
        | some pt => s!"ret=0 out={toHex pt}"
        | none => "ret=-1"
      else "bad-op"
    | _, _, _, _, _ => "bad-op"
  | ["hash", m] => match parseHex m with
    | some m => s!"out={toHex (Spec.hash m)}"
    | none => "bad-op"
  | _ => "bad-op"

partial def loop (h : IO.FS.Stream) (out : IO.FS.Stream) : IO Unit := do
  let line ← h.getLine
  if line.isEmpty then return ()
  out.putStrLn (step line)
  loop h out

def main : IO Unit := do
  let out ← IO.getStdout
  loop (← IO.getStdin) out
  out.flush
