/-
  tjdriver — reads one operation per line on stdin, prints what TJ.Impl predicts the
  implementation prints for the same line (see /verif/harness/harness.c).
-/
import TJ.Impl.Prng
open TJ

def hexDigit (c : Char) : Option Nat :=
  if '0' ≤ c ∧ c ≤ '9' then some (c.toNat - '0'.toNat)
  else if 'a' ≤ c ∧ c ≤ 'f' then some (c.toNat - 'a'.toNat + 10)
  else if 'A' ≤ c ∧ c ≤ 'F' then some (c.toNat - 'A'.toNat + 10)
  else none

def parseHexChars : List Char → Option Bytes
  | [] => some []
  | a :: b :: r => do
    let x ← hexDigit a; let y ← hexDigit b; let t ← parseHexChars r
    pure ((x * 16 + y).toUInt8 :: t)
  | _ => none

/-- `-` and `NULL` are the empty string -/
def parseHex (s : String) : Option Bytes :=
  if s = "-" ∨ s = "NULL" then some [] else parseHexChars s.toList

def hexOf (n : Nat) : Char := "0123456789abcdef".toList.getD n '0'

def toHex (b : Bytes) : String :=
  if b.isEmpty then "-" else
  String.ofList (b.foldr (fun x acc => hexOf (x.toNat / 16) :: hexOf (x.toNat % 16) :: acc) [])

def parseVariant : String → Option Variant
  | "128" => some .v128 | "192" => some .v192 | "256" => some .v256 | _ => none

def le32 (n : Nat) : Bytes := store32 n.toUInt32
def rd32 (b : Bytes) (off : Nat) : UInt32 := loadAt b off

structure World where
  h : Array HState
  m : Array HState
  k : Array KState
  p : Array Prng
  ps : Array (List Delivery)
  sys : List OsOutcome
  oscalls : Nat

def nobj : Nat := 8
def World.init : World :=
  { h := Array.replicate nobj (HState.free default), m := Array.replicate nobj (HState.free default),
    k := Array.replicate nobj (KState.free default), p := Array.replicate nobj Prng.zero,
    ps := Array.replicate nobj [], sys := [], oscalls := 0 }

def hRaw (h : HState) : Bytes :=
  store32 h.s.a ++ store32 h.s.b ++ store32 h.s.c ++ store32 h.s.d ++
  store32 h.k0 ++ store32 h.k1 ++ store32 h.k2 ++ store32 h.k3 ++ h.block ++ le32 h.posn ++ h.tail

def hOfRaw (b : Bytes) : HState :=
  { s := ⟨rd32 b 0, rd32 b 4, rd32 b 8, rd32 b 12⟩, k0 := rd32 b 16, k1 := rd32 b 20, k2 := rd32 b 24,
    k3 := rd32 b 28, block := (b.drop 32).take 16, posn := (rd32 b 48).toNat, tail := (b.drop 52).take 4 }

def kRaw (k : KState) : Bytes := k.prk ++ k.out ++ [k.counter, k.posn] ++ k.tail
def kOfRaw (b : Bytes) : KState :=
  { prk := b.take 32, out := (b.drop 32).take 32, counter := b.getD 64 0, posn := b.getD 65 0,
    tail := (b.drop 66).take 6 }

def cbName : CbKind → String | .null => "null" | .system => "system" | .user => "user"

def pDump (p : Prng) : String :=
  s!"V={toHex p.V} C={toHex p.C} rc={p.rc.toNat} rl={p.rl.toNat} cb={cbName p.cb} ud={if p.ud then 1 else 0} tail={toHex p.tail}"

def parseDelivery (s : String) : Option Delivery :=
  match s.splitOn ":" with
  | [hx, r] => do let b ← parseHex hx; let n ← r.toNat?; pure ⟨b, n⟩
  | _ => none

def parseOutcome (s : String) : Option OsOutcome :=
  if s = "EINTR" then some .eintr
  else if s = "EAGAIN" then some .eagain
  else if s.startsWith "ERR" then (s.drop 3).toString.toNat?.map .err
  else if s.startsWith "OK" then (parseHex (s.drop 2).toString).map .ok
  else none

def parseList {α} (f : String → Option α) (s : String) : Option (List α) :=
  if s = "-" then some [] else (s.splitOn ",").mapM f

def decLine (r : DecResult) : String :=
  let ml := match r.mlen with | some n => toString n | none => "unset"
  let out := match r.buf with | some b => toHex b | none => "untouched"
  s!"ret={r.ret} mlen={ml} out={out} slack=ok inputs=ok"

def ent (w : World) (i : Nat) : Ent := { user := w.ps[i]!, sys := w.sys, oscalls := 0 }
def World.putEnt (w : World) (i : Nat) (e : Ent) : World :=
  { w with ps := w.ps.set! i e.user, sys := e.sys, oscalls := w.oscalls + e.oscalls }

def listNat (l : List Nat) : String :=
  if l.isEmpty then "-" else ",".intercalate (l.map toString)

def step (w : World) (line : String) : World × String :=
  let bad := (w, "bad-op")
  let f := (line.trimAscii.toString.splitOn " ").filter (· ≠ "")
  match f with
  | ["perm", v, st, key, rounds] =>
    match parseVariant v, parseHex st, parseHex key, rounds.toNat? with
    | some v, some st, some key, some r =>
      let k : Key := (List.range v.nk).map fun i => loadAt key (4*i)
      let s := permC v k r ⟨rd32 st 0, rd32 st 4, rd32 st 8, rd32 st 12⟩
      (w, s!"s={toHex (store32 s.a ++ store32 s.b ++ store32 s.c ++ store32 s.d)} k={toHex key}")
    | _, _, _, _ => bad
  | [op, v, key, nonce, ad, m, _inplace, _align] =>
    match parseVariant v, parseHex key, parseHex nonce, parseHex ad, parseHex m with
    | some v, some key, some nonce, some ad, some m =>
      if op = "aead.enc" then
        let c := aeadEncrypt v key nonce ad m
        (w, s!"clen={c.length} out={toHex c} slack=ok inputs=ok")
      else if op = "siv.enc" then
        let c := sivEncrypt v key nonce ad m
        (w, s!"clen={c.length} out={toHex c} slack=ok inputs=ok")
      else if op = "aead.dec" then (w, decLine (aeadDecrypt v key nonce ad m))
      else if op = "siv.dec" then (w, decLine (sivDecrypt v key nonce ad m))
      else bad
    | _, _, _, _, _ => bad
  | ["checktag", pl, t1, t2] =>
    match parseHex pl, parseHex t1, parseHex t2 with
    | some pl, some t1, some t2 =>
      let r := checkTag pl t1 t2
      (w, s!"ret={r.1} out={toHex r.2}")
    | _, _, _ => bad
  | ["hash", m] =>
    match parseHex m with
    | some m => (w, s!"out={toHex (hash m)} slack=ok inputs=ok")
    | _ => bad
  | ["hmac", key, m] =>
    match parseHex key, parseHex m with
    | some key, some m => (w, s!"out={toHex (hmac key m)} slack=ok inputs=ok")
    | _, _ => bad
  | ["hkdf", n, key, salt, info] =>
    match n.toNat?, parseHex key, parseHex salt, parseHex info with
    | some n, some key, some salt, some info =>
      let r := hkdf n key salt info
      let out := match r.2 with | some b => toHex b | none => "untouched"
      (w, s!"ret={r.1} out={out} slack=ok inputs=ok")
    | _, _, _, _ => bad
  | ["pbkdf2", n, pw, salt, count] =>
    match n.toNat?, parseHex pw, parseHex salt, count.toNat? with
    | some n, some pw, some salt, some count =>
      (w, s!"out={toHex (pbkdf2 n pw salt count)} slack=ok inputs=ok")
    | _, _, _, _ => bad
  | ["pbkdf2.tail", n, pw, salt, count, k] =>
    match n.toNat?, parseHex pw, parseHex salt, count.toNat?, k.toNat? with
    | some n, some pw, some salt, some count, some k =>
      let out := pbkdf2 n pw salt count
      let h : UInt64 := out.foldl (fun h b => (h ^^^ b.toUInt64) * 1099511628211) 1469598103934665603
      (w, s!"tail={toHex (out.drop (n - k))} sum={h.toNat} slack=ok inputs=ok")
    | _, _, _, _, _ => bad
  | ["clean", off, n, buf] =>
    match off.toNat?, n.toNat?, parseHex buf with
    | some off, some n, some buf => (w, s!"out={toHex (cleanAt buf off n)}")
    | _, _, _ => bad
  | ["trng", _variant, script] =>
    match parseList parseOutcome script with
    | some sc =>
      let r := trngRead sc (List.replicate 32 0xEE) 0
      (w, s!"ret={if r.1 then 1 else 0} buf={toHex r.2.1} calls={r.2.2.2} fds=0")
    | none => bad
  | ["sys.script", script] =>
    match parseList parseOutcome script with
    | some sc => ({ w with sys := w.sys ++ sc }, "ok")
    | none => bad
  -- hash objects --------------------------------------------------------------
  | [op, i] =>
    match i.toNat? with
    | none => bad
    | some i =>
      if i ≥ nobj then bad else
      match op with
      | "h.init" | "h.reinit" => ({ w with h := w.h.set! i w.h[i]!.init }, "ok")
      | "h.final" => let r := w.h[i]!.finalize; ({ w with h := w.h.set! i r.2 }, s!"out={toHex r.1}")
      | "h.free" => ({ w with h := w.h.set! i (w.h[i]!.free) }, "ok")
      | "h.dump" => (w, s!"raw={toHex (hRaw w.h[i]!)}")
      | "m.free" => ({ w with m := w.m.set! i (w.m[i]!.free) }, "ok")
      | "m.dump" => (w, s!"raw={toHex (hRaw w.m[i]!)}")
      | "k.free" => ({ w with k := w.k.set! i (w.k[i]!.free) }, "ok")
      | "k.dump" => (w, s!"raw={toHex (kRaw w.k[i]!)}")
      | "p.free" => ({ w with p := w.p.set! i (w.p[i]!.free) }, "ok")
      | "p.dump" => (w, pDump w.p[i]!)
      | "p.reseed" =>
        match w.p[i]!.reseed (ent w i) with
        | none => (w, "crash SIGSEGV")
        | some (r, p, e) => ({ (w.putEnt i e) with p := w.p.set! i p }, s!"ret={r} calls={e.oscalls}")
      | _ => bad
  | [op, i, a] =>
    match i.toNat? with
    | none => bad
    | some i =>
      if i ≥ nobj then bad else
      match op with
      | "h.dirty" => match parseHex a with
        | some b => ({ w with h := w.h.set! i (hOfRaw b) }, "ok") | none => bad
      | "h.update" => match parseHex a with
        | some b => ({ w with h := w.h.set! i (w.h[i]!.update b) }, "ok") | none => bad
      | "m.dirty" => match parseHex a with
        | some b => ({ w with m := w.m.set! i (hOfRaw b) }, "ok") | none => bad
      | "m.init" | "m.reinit" => match parseHex a with
        | some b => ({ w with m := w.m.set! i (hmacInit w.m[i]! b) }, "ok") | none => bad
      | "m.update" => match parseHex a with
        | some b => ({ w with m := w.m.set! i (hmacUpdate w.m[i]! b) }, "ok") | none => bad
      | "m.final" => match parseHex a with
        | some b => let r := hmacFinalize w.m[i]! b; ({ w with m := w.m.set! i r.2 }, s!"out={toHex r.1}")
        | none => bad
      | "k.dirty" => match parseHex a with
        | some b => ({ w with k := w.k.set! i (kOfRaw b) }, "ok") | none => bad
      | "p.dirty" => match parseHex a with
        | some _ => (w, "ok")     -- arbitrary prior contents of a PRNG object: init overwrites every byte, so the model ignores them
        | none => bad
      | "p.script" => match parseList parseDelivery a with
        | some ds => ({ w with ps := w.ps.set! i ds }, "ok") | none => bad
      | "p.init" => match parseHex a with
        | some c =>
          match Prng.init c (ent w i) with
          | none => (w, "crash SIGSEGV")
          | some (r, p, e) => ({ (w.putEnt i e) with p := w.p.set! i p }, s!"ret={r} calls={e.oscalls}")
        | none => bad
      | "p.gen" => match a.toNat? with
        | some n =>
          match w.p[i]!.generate (ent w i) n with
          | none => (w, "crash SIGSEGV")
          | some r => ({ (w.putEnt i r.e) with p := w.p.set! i r.p },
                       s!"out={toHex r.out} reqs={listNat (reqPositions r.trace 0)} calls={r.e.oscalls} slack=ok")
        | none => bad
      | "p.genbig" => match a.toNat? with
        | some n =>
          match w.p[i]!.generate (ent w i) n with
          | none => (w, "crash SIGSEGV")
          | some r =>
            let h : UInt64 := r.out.foldl (fun h b => (h ^^^ b.toUInt64) * 1099511628211) 1469598103934665603
            ({ (w.putEnt i r.e) with p := w.p.set! i r.p }, s!"sum={h.toNat} reqs={listNat (reqPositions r.trace 0)} slack=ok")
        | none => bad
      | "p.feed" => match parseHex a with
        | some b => ({ w with p := w.p.set! i (w.p[i]!.feed b) }, "ok") | none => bad
      | "p.limit" => match a.toNat? with
        | some n => ({ w with p := w.p.set! i (w.p[i]!.setLimit n) }, "ok") | none => bad
      | "p.pokerc" => match a.toNat? with
        | some n => ({ w with p := w.p.set! i { w.p[i]! with rc := n.toUInt32 } }, "ok") | none => bad
      | _ => bad
  | ["k.extract", i, key, salt] =>
    match i.toNat?, parseHex key, parseHex salt with
    | some i, some key, some salt =>
      if i ≥ nobj then bad else ({ w with k := w.k.set! i (w.k[i]!.extract key salt) }, "ok")
    | _, _, _ => bad
  | ["k.expand", i, info, n] =>
    match i.toNat?, parseHex info, n.toNat? with
    | some i, some info, some n =>
      if i ≥ nobj then bad else
      let r := w.k[i]!.expand info n
      ({ w with k := w.k.set! i r.2.2 }, s!"ret={r.1} out={toHex r.2.1} slack=ok")
    | _, _, _ => bad
  | ["p.inituser", i, cb, ud, custom] =>
    match i.toNat?, parseHex custom with
    | some i, some c =>
      if i ≥ nobj then bad else
      let cbk := if cb = "user" then CbKind.user else CbKind.null
      match Prng.initUser cbk (ud = "1") c (ent w i) with
      | none => (w, "crash SIGSEGV")
      | some (r, p, e) => ({ (w.putEnt i e) with p := w.p.set! i p }, s!"ret={r} calls={e.oscalls}")
    | _, _ => bad
  | _ => bad

partial def loop (h : IO.FS.Stream) (out : IO.FS.Stream) (w : World) : IO Unit := do
  let line ← h.getLine
  if line.isEmpty then return ()
  if line.trimAscii.toString.isEmpty || line.startsWith "#" then
    loop h out w
  else
    let (w', o) := step w line
    out.putStrLn o
    loop h out w'

def main : IO Unit := do
  let out ← IO.getStdout
  loop (← IO.getStdin) out World.init
  out.flush
