/-
  TJ.Impl.Hash — TinyJAMBU-Hash, HMAC, HKDF, PBKDF2, mirroring
  src/tinyjambu-hash.c, tinyjambu-hmac.c, tinyjambu-hkdf.c, tinyjambu-pbkdf2.c
  as state machines over the private structs (every field, plus the unused tail
  bytes of the public opaque type, so that raw dumps and `free` can be compared).
-/
import TJ.Impl.Aead
namespace TJ

/-- overwrite `dst[off .. off+src.length)` with `src` (memcpy into a byte array) -/
def writeAt (dst : Bytes) (off : Nat) (src : Bytes) : Bytes :=
  dst.take off ++ src ++ dst.drop (off + src.length)

/-- `tinyjambu_hash_state_p_t` inside the 56-byte `tinyjambu_hash_state_t`:
    `state.s[4]` (= L), `state.k[0..3]` (= ~R), `state.k[4..7]` as 16 raw bytes
    (the block buffer), `posn`, and 4 bytes of tail the library never touches
    except in `free`. -/
structure HState where
  s : W4
  k0 : UInt32
  k1 : UInt32
  k2 : UInt32
  k3 : UInt32
  block : Bytes
  posn : Nat
  tail : Bytes
  deriving DecidableEq, Repr, Inhabited

def zeros (n : Nat) : Bytes := List.replicate n 0

/-- `tinyjambu_hash_init` : writes every private field, leaves the tail alone -/
def HState.init (old : HState) : HState :=
  { s := W4.zero, k0 := 0xFFFFFFFF, k1 := 0xFFFFFFFF, k2 := 0xFFFFFFFF, k3 := 0xFFFFFFFF,
    block := zeros 16, posn := 0, tail := old.tail }

/-- a fresh object whose tail bytes are zero (what `tinyjambu_hash` has after init, up
    to the tail it never reads) -/
def HState.fresh : HState := HState.init { (default : HState) with tail := zeros 4 }

/-- `tinyjambu_hash_free` : `tinyjambu_clean(state, 56)` -/
def HState.free (_ : HState) : HState :=
  { s := W4.zero, k0 := 0, k1 := 0, k2 := 0, k3 := 0, block := zeros 16, posn := 0, tail := zeros 4 }

/-- `tinyjambu_hash_compress(state, domain)` : one MDPH step. The block words
    `k[4..7]` are inverted in place and stay inverted in memory. -/
def HState.compress (h : HState) (domain : UInt32) : HState :=
  let k4 := ~~~ loadAt h.block 0
  let k5 := ~~~ loadAt h.block 4
  let k6 := ~~~ loadAt h.block 8
  let k7 := ~~~ loadAt h.block 12
  let key : Key := [h.k0, h.k1, h.k2, h.k3, k4, k5, k6, k7]
  let l1 : W4 := { h.s with a := h.s.a ^^^ domain }
  let e1 := perm256 key 20 l1
  let l2 := l1.xor e1
  let l1' : W4 := { l1 with a := l1.a ^^^ 1 }
  let e2 := perm256 key 20 l1'
  let r := e2.xor l1'
  { h with s := l2, k0 := ~~~ r.a, k1 := ~~~ r.b, k2 := ~~~ r.c, k3 := ~~~ r.d,
           block := store32 k4 ++ store32 k5 ++ store32 k6 ++ store32 k7 }

/-- the "full blocks, then stash the rest" part of `tinyjambu_hash_update` (posn = 0) -/
def HState.blocks (h : HState) (inp : Bytes) : HState :=
  if 16 ≤ inp.length then
    HState.blocks ({ h with block := inp.take 16 }.compress 0) (inp.drop 16)
  else if 0 < inp.length then
    { h with block := writeAt h.block 0 inp, posn := inp.length }
  else h
termination_by inp.length
decreasing_by simp; omega

/-- `tinyjambu_hash_update` -/
def HState.update (h : HState) (inp : Bytes) : HState :=
  if 0 < h.posn then
    let temp := 16 - h.posn
    if temp > inp.length then
      { h with block := writeAt h.block h.posn inp, posn := h.posn + inp.length }
    else
      let h1 := { h with block := writeAt h.block h.posn (inp.take temp) }.compress 0
      HState.blocks { h1 with posn := 0 } (inp.drop temp)
  else HState.blocks h inp

/-- `tinyjambu_hash_finalize` : digest and the state left behind -/
def HState.finalize (h : HState) : Bytes × HState :=
  let blk := writeAt (writeAt h.block h.posn [0x01]) (h.posn + 1) (zeros (16 - (h.posn + 1)))
  let h1 := { { h with block := blk }.compress 2 with posn := 0 }
  (store32 h1.s.a ++ store32 h1.s.b ++ store32 h1.s.c ++ store32 h1.s.d ++
   store32 (~~~ h1.k0) ++ store32 (~~~ h1.k1) ++ store32 (~~~ h1.k2) ++ store32 (~~~ h1.k3), h1)

/-- `tinyjambu_hash` -/
def hash (m : Bytes) : Bytes := (HState.fresh.update m).finalize.1

/-! ### HMAC (`tinyjambu_hmac_state_t` is exactly one hash state) -/

/-- `tinyjambu_hmac_set_key(state, key, keylen, mask)` -/
def hmacSetKey (h : HState) (key : Bytes) (mask : UInt8) : HState :=
  let kb : Bytes :=
    if key.length ≤ 64 then key else ((h.init.update key).finalize).1
  let block := (kb.map fun b => b ^^^ mask) ++ List.replicate (64 - kb.length) mask
  h.init.update block

def hmacInit (h : HState) (key : Bytes) : HState := hmacSetKey h key 0x36
def hmacUpdate (h : HState) (inp : Bytes) : HState := h.update inp
/-- `tinyjambu_hmac_finalize(state, key, keylen, out)` -/
def hmacFinalize (h : HState) (key : Bytes) : Bytes × HState :=
  let (inner, h1) := h.finalize
  let h2 := hmacSetKey h1 key 0x5C
  (h2.update inner).finalize

/-- `tinyjambu_hmac` -/
def hmac (key m : Bytes) : Bytes :=
  (hmacFinalize (hmacUpdate (hmacInit HState.fresh key) m) key).1

/-! ### HKDF -/

/-- `tinyjambu_hkdf_state_p_t` inside the 72-byte public type: prk, out, counter, posn
    (both `unsigned char`), 6 tail bytes. -/
structure KState where
  prk : Bytes
  out : Bytes
  counter : UInt8
  posn : UInt8
  tail : Bytes
  deriving DecidableEq, Repr, Inhabited

/-- `tinyjambu_hkdf_extract` : writes prk, counter, posn only -/
def KState.extract (st : KState) (key salt : Bytes) : KState :=
  { st with prk := hmac salt key, counter := 1, posn := 32 }

def KState.free (_ : KState) : KState :=
  { prk := zeros 32, out := zeros 32, counter := 0, posn := 0, tail := zeros 6 }

/-- the block loop of `tinyjambu_hkdf_expand` (fuel = remaining `outlen`) -/
def KState.expandLoop (st : KState) (info : Bytes) (n : Nat) : Int × Bytes × KState :=
  if n = 0 then (0, [], st) else
  if st.counter = 0 then (-1, zeros n, st) else
  let t := hmac st.prk ((if st.counter ≠ 1 then st.out else []) ++ info ++ [st.counter])
  let len := min 32 n
  let st1 := { st with out := t, counter := st.counter + 1, posn := len.toUInt8 }
  let r := KState.expandLoop st1 info (n - len)
  (r.1, t.take len ++ r.2.1, r.2.2)
termination_by n
decreasing_by omega

/-- `tinyjambu_hkdf_expand(state, info, infolen, out, outlen)` : return value, the
    `outlen` bytes written, new state -/
def KState.expand (st : KState) (info : Bytes) (n : Nat) : Int × Bytes × KState :=
  let len := min (32 - st.posn.toNat) n
  let first := (st.out.drop st.posn.toNat).take len
  let st1 := { st with posn := st.posn + len.toUInt8 }
  let r := KState.expandLoop st1 info (n - len)
  (r.1, first ++ r.2.1, r.2.2)

/-- `tinyjambu_hkdf` : `none` output = nothing written -/
def hkdf (n : Nat) (key salt info : Bytes) : Int × Option Bytes :=
  if n > 32 * 255 then (-1, none) else
  let st : KState := { prk := zeros 32, out := zeros 32, counter := 0, posn := 0, tail := zeros 6 }
  (0, some ((st.extract key salt).expand info n).2.1)

/-! ### PBKDF2 -/

def xorBytes (a b : Bytes) : Bytes := List.zipWith (· ^^^ ·) a b

/-- the `while (count > 2)` loop of `tinyjambu_pbkdf2_f` (runs `extra` more times) -/
def pbkdf2Iter (pw : Bytes) : Nat → Bytes → Bytes → Bytes
  | 0, t, _ => t
  | n+1, t, u =>
    let u' := hmac pw u
    pbkdf2Iter pw n (xorBytes t u') u'

/-- `tinyjambu_pbkdf2_f` : block `blocknum` (already truncated to 32 bits by
    `be_store_word32`), `count` as passed -/
def pbkdf2F (pw salt : Bytes) (count : Nat) (blocknum : UInt32) : Bytes :=
  let t := hmac pw (salt ++ store32be blocknum)
  if count > 1 then
    let u := hmac pw t
    pbkdf2Iter pw (count - 2) (xorBytes t u) u
  else t

/-- `tinyjambu_pbkdf2(out, outlen, …)` : the `outlen` bytes written;
    `blocknum` is an `unsigned long` (64-bit here) truncated at the store -/
def pbkdf2Loop (pw salt : Bytes) (count : Nat) (n : Nat) (blocknum : Nat) : Bytes :=
  if n = 0 then [] else
  if n ≥ 32 then
    pbkdf2F pw salt count blocknum.toUInt32 ++ pbkdf2Loop pw salt count (n - 32) (blocknum + 1)
  else (pbkdf2F pw salt count blocknum.toUInt32).take n
termination_by n
decreasing_by omega

def pbkdf2 (n : Nat) (pw salt : Bytes) (count : Nat) : Bytes :=
  pbkdf2Loop pw salt count n 1

end TJ
