/-
  TJ.Impl.Aead — AEAD and SIV modes, mirroring
  src/backend/tinyjambu-aead-common-{128,192,256}.c, src/tinyjambu-{128,192,256}-{aead,siv}.c
  and src/backend/tinyjambu-util.c (tinyjambu_aead_check_tag).
  Everything is generic in the keyed permutation `P rounds state`; the concrete
  library functions instantiate `P := permC v (loadKey v key)`.
-/
import TJ.Impl.Basic
namespace TJ

/-- a keyed permutation: number of 128-step rounds → state → state -/
abbrev Perm := Nat → W4 → W4

@[inline] def addDomain (s : W4) (d : UInt32) : W4 := { s with b := s.b ^^^ d }
@[inline] def absorbW (s : W4) (w : UInt32) : W4 := { s with d := s.d ^^^ w }
@[inline] def squeeze (s : W4) : UInt32 := s.c

/-- `tinyjambu_setup_*` -/
def setup (P : Perm) (pk : Nat) (nonce : Bytes) (domain : UInt32) : W4 :=
  let s := P pk W4.zero
  let s := absorbW (P 5 (addDomain s domain)) (loadAt nonce 0)
  let s := absorbW (P 5 (addDomain s domain)) (loadAt nonce 4)
  absorbW (P 5 (addDomain s domain)) (loadAt nonce 8)

/-- `tinyjambu_absorb_*` : word loop, then the 1/2/3-byte tails -/
def absorbData (P : Perm) (domain : UInt32) (rounds : Nat) : W4 → Bytes → W4
  | s, b0 :: b1 :: b2 :: b3 :: rest =>
    absorbData P domain rounds (absorbW (P rounds (addDomain s domain)) (load32 b0 b1 b2 b3)) rest
  | s, [b0, b1, b2] =>
    addDomain (absorbW (P rounds (addDomain s domain)) (load24 b0 b1 b2)) 0x03
  | s, [b0, b1] =>
    addDomain (absorbW (P rounds (addDomain s domain)) (load16 b0 b1)) 0x02
  | s, [b0] =>
    addDomain (absorbW (P rounds (addDomain s domain)) b0.toUInt32) 0x01
  | s, [] => s

/-- `tinyjambu_generate_tag_*` : the 8 tag bytes (the final state is dead) -/
def genTag (P : Perm) (pk : Nat) (s : W4) : Bytes :=
  let s1 := P pk (addDomain s 0x70)
  let s2 := P 5 (addDomain s1 0x70)
  store32 (squeeze s1) ++ store32 (squeeze s2)

/-- message loop of `*_aead_encrypt`: returns final state and ciphertext body -/
def encBody (P : Perm) (pk : Nat) : W4 → Bytes → W4 × Bytes
  | s, b0 :: b1 :: b2 :: b3 :: rest =>
    let s := P pk (addDomain s 0x50)
    let data := load32 b0 b1 b2 b3
    let s := absorbW s data
    let data := data ^^^ squeeze s
    let r := encBody P pk s rest
    (r.1, store32 data ++ r.2)
  | s, [b0, b1, b2] =>
    let s := P pk (addDomain s 0x50)
    let data := load24 b0 b1 b2
    let s := addDomain (absorbW s data) 0x03
    let data := data ^^^ squeeze s
    (s, [data.toUInt8, (data >>> 8).toUInt8, (data >>> 16).toUInt8])
  | s, [b0, b1] =>
    let s := P pk (addDomain s 0x50)
    let data := load16 b0 b1
    let s := addDomain (absorbW s data) 0x02
    let data := data ^^^ squeeze s
    (s, [data.toUInt8, (data >>> 8).toUInt8])
  | s, [b0] =>
    let s := P pk (addDomain s 0x50)
    let data := b0.toUInt32
    let s := addDomain (absorbW s data) 0x01
    (s, [(squeeze s ^^^ data).toUInt8])
  | s, [] => (s, [])

/-- message loop of `*_aead_decrypt`: returns final state and candidate plaintext -/
def decBody (P : Perm) (pk : Nat) : W4 → Bytes → W4 × Bytes
  | s, b0 :: b1 :: b2 :: b3 :: rest =>
    let s := P pk (addDomain s 0x50)
    let data := load32 b0 b1 b2 b3 ^^^ squeeze s
    let s := absorbW s data
    let r := decBody P pk s rest
    (r.1, store32 data ++ r.2)
  | s, [b0, b1, b2] =>
    let s := P pk (addDomain s 0x50)
    let data := (load24 b0 b1 b2 ^^^ squeeze s) &&& 0xFFFFFF
    let s := addDomain (absorbW s data) 0x03
    (s, [data.toUInt8, (data >>> 8).toUInt8, (data >>> 16).toUInt8])
  | s, [b0, b1] =>
    let s := P pk (addDomain s 0x50)
    let data := (load16 b0 b1 ^^^ squeeze s) &&& 0xFFFF
    let s := addDomain (absorbW s data) 0x02
    (s, [data.toUInt8, (data >>> 8).toUInt8])
  | s, [b0] =>
    let s := P pk (addDomain s 0x50)
    let data := (b0.toUInt32 ^^^ squeeze s) &&& 0xFF
    let s := addDomain (absorbW s data) 0x01
    (s, [data.toUInt8])
  | s, [] => (s, [])

/-- `accum |= (*tag1++ ^ *tag2++)` over the common length (C: `size` = 8) -/
def tagAccum : Bytes → Bytes → UInt8
  | x :: xs, y :: ys => (x ^^^ y) ||| tagAccum xs ys
  | _, _ => 0

/-- `accum = (accum - 1) >> 8` on `int`, then truncated to the byte it is ANDed with
    (and sign-extended for the return value): `0xFF…` iff the accumulated difference is 0. -/
def tagMask (accum : UInt8) : Int32 :=
  (accum.toUInt32.toInt32 - 1) >>> 8

/-- `tinyjambu_aead_check_tag(plaintext, len, tag1, tag2, 8)`:
    return value and the plaintext buffer afterwards. -/
def checkTag (plain tag1 tag2 : Bytes) : Int × Bytes :=
  let mask := tagMask (tagAccum tag1 tag2)
  ((~~~ mask).toInt, plain.map fun p => p &&& mask.toUInt32.toUInt8)

structure DecResult where
  ret : Int
  /-- `*mlen` if it was written -/
  mlen : Option Nat
  /-- content of the plaintext region `m[0 .. clen-8)` on return; `none` if nothing was written -/
  buf : Option Bytes
  deriving DecidableEq, Repr

/-- `tinyjambu_*_aead_encrypt` for an arbitrary keyed permutation -/
def aeadEncryptWith (P : Perm) (pk : Nat) (nonce ad m : Bytes) : Bytes :=
  let s := setup P pk nonce 0x10
  let s := absorbData P 0x30 5 s ad
  let r := encBody P pk s m
  r.2 ++ genTag P pk r.1

/-- `tinyjambu_*_aead_decrypt` for an arbitrary keyed permutation -/
def aeadDecryptWith (P : Perm) (pk : Nat) (nonce ad c : Bytes) : DecResult :=
  if c.length < 8 then ⟨-1, none, none⟩ else
  let body := c.take (c.length - 8)
  let tag2 := c.drop (c.length - 8)
  let s := setup P pk nonce 0x10
  let s := absorbData P 0x30 5 s ad
  let r := decBody P pk s body
  let tag := genTag P pk r.1
  let ct := checkTag r.2 tag tag2
  ⟨ct.1, some (c.length - 8), some ct.2⟩

/-- second pass of SIV (encrypt and decrypt are the same keystream XOR; the C masks
    the tails on decrypt only, which is invisible after the byte truncation) -/
def sivBody (P : Perm) (pk : Nat) : W4 → Bytes → Bytes
  | s, b0 :: b1 :: b2 :: b3 :: rest =>
    let s := P pk (addDomain s 0xD0)
    store32 (load32 b0 b1 b2 b3 ^^^ squeeze s) ++ sivBody P pk s rest
  | s, [b0, b1, b2] =>
    let s := P pk (addDomain s 0xD0)
    let data := load24 b0 b1 b2 ^^^ squeeze s
    [data.toUInt8, (data >>> 8).toUInt8, (data >>> 16).toUInt8]
  | s, [b0, b1] =>
    let s := P pk (addDomain s 0xD0)
    let data := load16 b0 b1 ^^^ squeeze s
    [data.toUInt8, (data >>> 8).toUInt8]
  | s, [b0] =>
    let s := P pk (addDomain s 0xD0)
    [(squeeze s ^^^ b0.toUInt32).toUInt8]
  | _, [] => []

/-- the SIV tag: first pass over nonce (domain 0x90), AD and message -/
def sivTag (P : Perm) (pk : Nat) (nonce ad m : Bytes) : Bytes :=
  let s := setup P pk nonce 0x90
  let s := absorbData P 0x30 5 s ad
  let s := absorbData P 0x50 pk s m
  genTag P pk s

/-- the derived nonce of the second pass: `npub[0..3] ‖ tag` -/
def sivNonce (nonce tag : Bytes) : Bytes := nonce.take 4 ++ tag

def sivEncryptWith (P : Perm) (pk : Nat) (nonce ad m : Bytes) : Bytes :=
  let tag := sivTag P pk nonce ad m
  let s := setup P pk (sivNonce nonce tag) 0xB0
  sivBody P pk s m ++ tag

def sivDecryptWith (P : Perm) (pk : Nat) (nonce ad c : Bytes) : DecResult :=
  if c.length < 8 then ⟨-1, none, none⟩ else
  let body := c.take (c.length - 8)
  let tag2 := c.drop (c.length - 8)
  let s := setup P pk (sivNonce nonce tag2) 0xB0
  let m := sivBody P pk s body
  let tag := sivTag P pk nonce ad m
  let ct := checkTag m tag tag2
  ⟨ct.1, some (c.length - 8), some ct.2⟩

/-! The library entry points: `P` is the C back end under the unpacked key. -/

def aeadEncrypt (v : Variant) (key nonce ad m : Bytes) : Bytes :=
  aeadEncryptWith (permC v (loadKey v key)) v.pk nonce ad m
def aeadDecrypt (v : Variant) (key nonce ad c : Bytes) : DecResult :=
  aeadDecryptWith (permC v (loadKey v key)) v.pk nonce ad c
def sivEncrypt (v : Variant) (key nonce ad m : Bytes) : Bytes :=
  sivEncryptWith (permC v (loadKey v key)) v.pk nonce ad m
def sivDecrypt (v : Variant) (key nonce ad c : Bytes) : DecResult :=
  sivDecryptWith (permC v (loadKey v key)) v.pk nonce ad c

end TJ
