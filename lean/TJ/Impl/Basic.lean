/-
  TJ.Impl.Basic — word/byte primitives and the three C permutation loops.
  Mirrors src/backend/tinyjambu-backend.h, tinyjambu-{128,192,256}-c32.c and the
  le_load/le_store macros of src/backend/tinyjambu-util.h.
  Executable (UInt8/UInt32); no Mathlib.
-/
namespace TJ

abbrev Bytes := List UInt8

/-- The four 32-bit state words `s[0..3]`. -/
structure W4 where
  a : UInt32
  b : UInt32
  c : UInt32
  d : UInt32
  deriving DecidableEq, Repr, Inhabited

def W4.zero : W4 := ⟨0, 0, 0, 0⟩

def W4.xor (x y : W4) : W4 := ⟨x.a ^^^ y.a, x.b ^^^ y.b, x.c ^^^ y.c, x.d ^^^ y.d⟩

/-- `le_load_word32` on four bytes. -/
@[inline] def load32 (b0 b1 b2 b3 : UInt8) : UInt32 :=
  (b3.toUInt32 <<< 24) ||| (b2.toUInt32 <<< 16) ||| (b1.toUInt32 <<< 8) ||| b0.toUInt32

/-- `le_load_word16`, promoted to 32 bits as the C does. -/
@[inline] def load16 (b0 b1 : UInt8) : UInt32 :=
  (b1.toUInt32 <<< 8) ||| b0.toUInt32

/-- `le_load_word16(p) | (p[2] << 16)`. -/
@[inline] def load24 (b0 b1 b2 : UInt8) : UInt32 :=
  load16 b0 b1 ||| (b2.toUInt32 <<< 16)

/-- `le_store_word32`. -/
@[inline] def store32 (w : UInt32) : Bytes :=
  [w.toUInt8, (w >>> 8).toUInt8, (w >>> 16).toUInt8, (w >>> 24).toUInt8]

/-- `be_store_word32`. -/
@[inline] def store32be (w : UInt32) : Bytes :=
  [(w >>> 24).toUInt8, (w >>> 16).toUInt8, (w >>> 8).toUInt8, w.toUInt8]

/-- load a little-endian word at byte offset `off` of a list (missing bytes read 0;
    callers only use it in range). -/
def loadAt (l : Bytes) (off : Nat) : UInt32 :=
  load32 (l.getD off 0) (l.getD (off+1) 0) (l.getD (off+2) 0) (l.getD (off+3) 0)

/-- `tinyjambu_steps_32(s0, s1, s2, s3, kword)`: the new value of `s0`.
    `kword` is the pre-inverted key word, hence AND instead of NAND. -/
@[inline] def steps32 (s0 s1 s2 s3 kw : UInt32) : UInt32 :=
  let t1 := (s1 >>> 15) ||| (s2 <<< 17)
  let t2 := (s2 >>> 6) ||| (s3 <<< 26)
  let t3 := (s2 >>> 21) ||| (s3 <<< 11)
  let t4 := (s2 >>> 27) ||| (s3 <<< 5)
  s0 ^^^ t1 ^^^ (t2 &&& t3) ^^^ t4 ^^^ kw

/-- One 128-step round: four `steps_32` with the state words rotated. -/
@[inline] def round128 (s : W4) (k0 k1 k2 k3 : UInt32) : W4 :=
  let a := steps32 s.a s.b s.c s.d k0
  let b := steps32 s.b s.c s.d a k1
  let c := steps32 s.c s.d a b k2
  let d := steps32 s.d a b c k3
  ⟨a, b, c, d⟩

/-- Pre-inverted key words `k[0..nk-1]`. -/
abbrev Key := List UInt32

@[inline] def kw (k : Key) (i : Nat) : UInt32 := k.getD i 0

/-- `tinyjambu_permutation_128`: two rounds per loop iteration, early exit. -/
def perm128 (k : Key) : Nat → W4 → W4
  | 0, s => s
  | 1, s => round128 s (kw k 0) (kw k 1) (kw k 2) (kw k 3)
  | n+2, s =>
    perm128 k n
      (round128 (round128 s (kw k 0) (kw k 1) (kw k 2) (kw k 3))
        (kw k 0) (kw k 1) (kw k 2) (kw k 3))

/-- `tinyjambu_permutation_192`: three rounds per loop iteration, two early exits. -/
def perm192 (k : Key) : Nat → W4 → W4
  | 0, s => s
  | 1, s => round128 s (kw k 0) (kw k 1) (kw k 2) (kw k 3)
  | 2, s =>
    round128 (round128 s (kw k 0) (kw k 1) (kw k 2) (kw k 3))
      (kw k 4) (kw k 5) (kw k 0) (kw k 1)
  | n+3, s =>
    perm192 k n
      (round128
        (round128 (round128 s (kw k 0) (kw k 1) (kw k 2) (kw k 3))
          (kw k 4) (kw k 5) (kw k 0) (kw k 1))
        (kw k 2) (kw k 3) (kw k 4) (kw k 5))

/-- `tinyjambu_permutation_256`: two rounds per loop iteration, early exit. -/
def perm256 (k : Key) : Nat → W4 → W4
  | 0, s => s
  | 1, s => round128 s (kw k 0) (kw k 1) (kw k 2) (kw k 3)
  | n+2, s =>
    perm256 k n
      (round128 (round128 s (kw k 0) (kw k 1) (kw k 2) (kw k 3))
        (kw k 4) (kw k 5) (kw k 6) (kw k 7))

inductive Variant | v128 | v192 | v256
  deriving DecidableEq, Repr, Inhabited

/-- number of key words -/
def Variant.nk : Variant → Nat
  | .v128 => 4 | .v192 => 6 | .v256 => 8

/-- `TINYJAMBU_ROUNDS(1024/1152/1280)` -/
def Variant.pk : Variant → Nat
  | .v128 => 8 | .v192 => 9 | .v256 => 10

def Variant.bits : Variant → Nat
  | .v128 => 128 | .v192 => 192 | .v256 => 256

/-- the C back end selected for variant `v` -/
def permC (v : Variant) (k : Key) (rounds : Nat) (s : W4) : W4 :=
  match v with
  | .v128 => perm128 k rounds s
  | .v192 => perm192 k rounds s
  | .v256 => perm256 k rounds s

/-- `state.k[i] = ~le_load_word32(k + 4*i)` for `i < nk`. -/
def loadKey (v : Variant) (key : Bytes) : Key :=
  (List.range v.nk).map fun i => ~~~ (loadAt key (4*i))

end TJ
