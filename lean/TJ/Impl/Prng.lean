/-
  TJ.Impl.Prng — the Hash_DRBG of src/tinyjambu-prng.c, the Unix system entropy
  shim src/random/tinyjambu-trng-dev-random.c (getrandom / getentropy / raw syscall
  variants share one control flow) and tinyjambu_clean.
  The entropy source is an explicit script, so every output is a function of
  (script, call history).
-/
import TJ.Impl.Hash
namespace TJ

/-- one outcome of the operating-system entropy call -/
inductive OsOutcome
  | eintr
  | eagain
  | err (errno : Nat)      -- any errno other than EINTR / EAGAIN
  | ok (bytes : Bytes)     -- call returned ≥ 0 after writing `bytes` (≤ 32) at the buffer start
  deriving DecidableEq, Repr, Inhabited

/-- what the harness' interposed OS call delivers once its script is exhausted -/
def defaultEntropy : Bytes := (List.range 32).map fun i => (0xA0 + i).toUInt8

/-- `tinyjambu_trng_generate(out)` in the variants that have `tinyjambu_getrandom`:
    returns (ok?, buffer, remaining script, number of OS calls made).
    Structural on the script: every transient error consumes one entry. -/
def trngRead : List OsOutcome → Bytes → Nat → Bool × Bytes × List OsOutcome × Nat
  | [], buf, n => (true, writeAt buf 0 defaultEntropy, [], n + 1)
  | .eintr :: r, buf, n => trngRead r buf (n + 1)
  | .eagain :: r, buf, n => trngRead r buf (n + 1)
  | .err _ :: r, buf, n => (false, zeros buf.length, r, n + 1)
  | .ok bytes :: r, buf, n => (true, writeAt buf 0 bytes, r, n + 1)

/-- one invocation of a user entropy callback: it writes `written` (≤ 32 bytes) at the
    start of the buffer and returns `ret` -/
structure Delivery where
  written : Bytes
  ret : Nat
  deriving DecidableEq, Repr, Inhabited

inductive CbKind | null | system | user
  deriving DecidableEq, Repr, Inhabited

/-- the entropy environment: this object's scripted user callback and the OS -/
structure Ent where
  user : List Delivery
  sys : List OsOutcome
  /-- OS calls made so far (observable through the interposed libc) -/
  oscalls : Nat
  deriving DecidableEq, Repr, Inhabited

/-- calling the callback of kind `cb` on a 32-byte buffer: `none` = call through NULL -/
def Ent.request (e : Ent) (cb : CbKind) (buf : Bytes) : Option (Nat × Bytes × Ent) :=
  match cb with
  | .null => none
  | .user =>
    match e.user with
    | [] => some (0, buf, e)
    | d :: r => some (d.ret, writeAt buf 0 d.written, { e with user := r })
  | .system =>
    let r := trngRead e.sys buf 0
    some (if r.1 then 32 else 0, r.2.1, { e with sys := r.2.2.1, oscalls := e.oscalls + r.2.2.2 })

/-- `tinyjambu_prng_state_p_t` in the 96-byte public type -/
structure Prng where
  V : Bytes
  C : Bytes
  rc : UInt32        -- reseed_counter
  rl : UInt32        -- reseed_limit
  cb : CbKind
  ud : Bool          -- user_data non-NULL
  tail : Bytes       -- 8 bytes
  deriving DecidableEq, Repr, Inhabited

def Prng.zero : Prng := ⟨zeros 32, zeros 32, 0, 0, .null, false, zeros 8⟩

/-- `tinyjambu_hash_df(out, marker, V, in, inlen)` -/
def hashDf (marker : UInt8) (V inp : Bytes) : Bytes :=
  hash ([1, 0, 0, 1, 0] ++ (if marker ≠ 0xFF then [marker] else []) ++ V ++ inp)

/-- `tinyjambu_hash_prefixed` -/
def hashPrefixed (prefix_ : UInt8) (V : Bytes) : Bytes := hash (prefix_ :: V)

/-- the carry loop of `tinyjambu_prng_generate`, on byte lists least-significant first -/
def addCarry : Bytes → Bytes → Bytes → UInt32 → Bytes
  | v :: vs, h :: hs, c :: cs, carry =>
    let t := carry + v.toUInt32 + h.toUInt32 + c.toUInt32
    t.toUInt8 :: addCarry vs hs cs (t >>> 8)
  | _, _, _, _ => []

/-- `V = V + H + C + reseed_counter` (big-endian 256-bit) as the C computes it -/
def vAdvance (V H C : Bytes) (rc : UInt32) : Bytes :=
  (addCarry V.reverse H.reverse C.reverse rc).reverse

/-- `tinyjambu_prng_reseed` -/
def Prng.reseed (p : Prng) (e : Ent) : Option (Int × Prng × Ent) :=
  match e.request p.cb p.V with
  | none => none
  | some (ret, buf, e') =>
    let V := hashDf 0x01 p.V buf
    some (if ret = 32 then 1 else 0, { p with V := V, C := hashDf 0x00 V [], rc := 1 }, e')

/-- `tinyjambu_prng_init_user(state, callback, user_data, custom, custom_len)` -/
def Prng.initUser (cb : CbKind) (ud : Bool) (custom : Bytes) (e : Ent) : Option (Int × Prng × Ent) :=
  let cb' := if cb = .null then CbKind.system else cb
  let ud' := if cb = .null then false else ud
  match e.request cb' (zeros 32) with
  | none => none
  | some (ret, buf, e') =>
    let V := hashDf 0xFF buf custom
    some (if ret = 32 then 1 else 0,
          { V := V, C := hashDf 0x00 V [], rc := 1, rl := 32, cb := cb', ud := ud', tail := zeros 8 }, e')

/-- `tinyjambu_prng_init` -/
def Prng.init (custom : Bytes) (e : Ent) : Option (Int × Prng × Ent) :=
  Prng.initUser .system false custom e

/-- observable events of the generator, in order: an entropy request, the emission of `k` output bytes,
    a change of the reseed limit (in blocks) -/
inductive Ev
  | request
  | emit (k : Nat)
  | limit (blocks : Nat)
  deriving DecidableEq, Repr, Inhabited

/-- result of `tinyjambu_prng_generate`: bytes, state, environment, and the event trace of the call -/
structure GenResult where
  out : Bytes
  p : Prng
  e : Ent
  trace : List Ev
  deriving Repr

/-- for each entropy request in a trace, the number of bytes emitted before it -/
def reqPositions : List Ev → Nat → List Nat
  | [], _ => []
  | .request :: t, done => done :: reqPositions t done
  | .emit k :: t, done => reqPositions t (done + k)
  | .limit _ :: t, done => reqPositions t done

/-- the "reseed automatically if too much data has been generated already" check at the top of the
    block loop: state, environment and the event it caused; `none` = call through a NULL callback -/
def Prng.autoReseed (p : Prng) (e : Ent) : Option (Prng × Ent × List Ev) :=
  if p.rc > p.rl then
    match p.reseed e with
    | none => none
    | some (_, p1, e1) => some (p1, e1, [.request])
  else some (p, e, [])

/-- one output block: `output = Hash(V)`, then `V = V + Hash(0x03 ‖ V) + C + reseed_counter`,
    `reseed_counter + 1` -/
def Prng.block (p : Prng) : Bytes × Prng :=
  (hash p.V, { p with V := vAdvance p.V (hashPrefixed 0x03 p.V) p.C p.rc, rc := p.rc + 1 })

/-- block loop of `tinyjambu_prng_generate` (`size` bytes still to produce) -/
def Prng.genLoop (p : Prng) (e : Ent) (size : Nat) : Option GenResult :=
  if size = 0 then some ⟨[], p, e, []⟩ else
  match p.autoReseed e with
  | none => none
  | some (p1, e1, rq) =>
    let len := min 32 size
    let b := p1.block
    match Prng.genLoop b.2 e1 (size - len) with
    | none => none
    | some r => some { r with out := b.1.take len ++ r.out, trace := rq ++ (.emit len :: r.trace) }
termination_by size
decreasing_by omega

def Prng.generate (p : Prng) (e : Ent) (size : Nat) : Option GenResult :=
  Prng.genLoop p e size

/-- `tinyjambu_prng_feed` (with the saturating counter of the repaired code) -/
def Prng.feed (p : Prng) (data : Bytes) : Prng :=
  let V := hashDf 0x01 p.V data
  { p with V := V, C := hashDf 0x00 V [],
           rc := if p.rc < 0xFFFFFFFF then p.rc + 1 else p.rc }

/-- `tinyjambu_prng_set_reseed_limit` (size_t is 64-bit: the 1 MiB clamp branch) -/
def Prng.setLimit (p : Prng) (limit : Nat) : Prng :=
  let l := if limit > 1048576 then 1048576 else limit
  let l := (l + 31) / 32
  let l := if l = 0 then 1 else l
  { p with rl := l.toUInt32 }

def Prng.free (_ : Prng) : Prng := Prng.zero

/-- `tinyjambu_clean(buf + off, n)` on a byte array -/
def cleanAt (buf : Bytes) (off n : Nat) : Bytes := writeAt buf off (zeros n)

end TJ
