/-
  TJ.Spec.Kdf — RFC 2104 HMAC, RFC 5869 HKDF and RFC 8018 PBKDF2, generic in the hash
  function `H` (block size 64, output 32), written from the RFCs.
-/
import TJ.Impl.Basic
namespace TJ.Spec

/-- RFC 2104: H(K ⊕ opad ‖ H(K ⊕ ipad ‖ text)), keys longer than B = 64 hashed first,
    then padded with zeros to B bytes -/
def hmac (H : Bytes → Bytes) (key m : Bytes) : Bytes :=
  let k0 := if key.length > 64 then H key else key
  let kp := k0 ++ List.replicate (64 - k0.length) 0
  H (kp.map (· ^^^ 0x5c) ++ H (kp.map (· ^^^ 0x36) ++ m))

/-- RFC 5869 2.2: PRK = HMAC(salt, IKM); an empty salt is HashLen zero bytes -/
def hkdfExtract (H : Bytes → Bytes) (salt ikm : Bytes) : Bytes :=
  hmac H (if salt.isEmpty then List.replicate 32 0 else salt) ikm

/-- RFC 5869 2.3: T(0) = ε, T(i) = HMAC(PRK, T(i-1) ‖ info ‖ i) -/
def hkdfT (H : Bytes → Bytes) (prk info : Bytes) : Nat → Bytes
  | 0 => []
  | i+1 => hmac H prk (hkdfT H prk info i ++ info ++ [(i+1).toUInt8])

/-- T(1) ‖ … ‖ T(n) -/
def hkdfStream (H : Bytes → Bytes) (prk info : Bytes) : Nat → Bytes
  | 0 => []
  | n+1 => hkdfStream H prk info n ++ hkdfT H prk info (n+1)

/-- OKM: first L bytes of T(1) ‖ … ‖ T(255)  (L ≤ 255·32) -/
def hkdf (H : Bytes → Bytes) (ikm salt info : Bytes) (L : Nat) : Bytes :=
  (hkdfStream H (hkdfExtract H salt ikm) info 255).take L

/-- RFC 8018 5.2: U_1 = PRF(P, S ‖ INT(i)), U_j = PRF(P, U_{j-1}), T_i = U_1 ⊕ … ⊕ U_c -/
def pbkdf2U (H : Bytes → Bytes) (pw salt : Bytes) (i : Nat) : Nat → Bytes
  | 0 => hmac H pw (salt ++ [(i >>> 24).toUInt8, (i >>> 16).toUInt8, (i >>> 8).toUInt8, i.toUInt8])
  | j+1 => hmac H pw (pbkdf2U H pw salt i j)

def xorB (a b : Bytes) : Bytes := List.zipWith (· ^^^ ·) a b

/-- T_i = U_1 ⊕ … ⊕ U_c for c ≥ 1 (`c = n + 1`) -/
def pbkdf2T (H : Bytes → Bytes) (pw salt : Bytes) (i : Nat) : Nat → Bytes
  | 0 => pbkdf2U H pw salt i 0
  | n+1 => xorB (pbkdf2T H pw salt i n) (pbkdf2U H pw salt i (n+1))

/-- T_1 ‖ … ‖ T_n -/
def pbkdf2Stream (H : Bytes → Bytes) (pw salt : Bytes) (c : Nat) : Nat → Bytes
  | 0 => []
  | n+1 => pbkdf2Stream H pw salt c n ++ pbkdf2T H pw salt (n+1) (c - 1)

end TJ.Spec

namespace TJ.Spec
/-- T(b) ‖ T(b+1) ‖ … (k blocks) for HKDF -/
def hkdfBlocks (H : Bytes → Bytes) (prk info : Bytes) (b : Nat) : Nat → Bytes
  | 0 => []
  | k+1 => hkdfT H prk info b ++ hkdfBlocks H prk info (b+1) k

/-- RFC 5869 as "the first L bytes of T(1) ‖ … ‖ T(255)" -/
def hkdfOkm (H : Bytes → Bytes) (prk info : Bytes) : Bytes := hkdfBlocks H prk info 1 255

/-- T_b ‖ T_{b+1} ‖ … (k blocks) for PBKDF2 with iteration count c ≥ 1 -/
def pbkdf2Blocks (H : Bytes → Bytes) (pw salt : Bytes) (c : Nat) (b : Nat) : Nat → Bytes
  | 0 => []
  | k+1 => pbkdf2T H pw salt b (c - 1) ++ pbkdf2Blocks H pw salt c (b+1) k

/-- RFC 8018 5.2: DK = T_1 ‖ … ‖ T_l truncated to dkLen bytes, l = ⌈dkLen / hLen⌉ -/
def pbkdf2 (H : Bytes → Bytes) (pw salt : Bytes) (c dkLen : Nat) : Bytes :=
  (pbkdf2Blocks H pw salt c 1 ((dkLen + 31) / 32)).take dkLen
end TJ.Spec
