/-
  TJ.Spec.Hash — TinyJAMBU-Hash as specified in tools/hashref/README.md (MDPH over the TinyJAMBU-256
  permutation with 2560 steps), on 128-bit values with the bit-serial StateUpdate.
-/
import TJ.Spec.Aead
namespace TJ.Spec

/-- little-endian value of 16 bytes as a 128-bit block (byte i at bits 8i…8i+7) -/
def leBlock : Bytes → BitVec 128
  | [] => 0
  | b :: bs => (leBlock bs <<< 8) ||| b.toBitVec.zeroExtend 128

/-- the 16 bytes of a 128-bit value -/
def blockBytes (w : BitVec 128) : Nat → Bytes
  | 0 => []
  | n+1 => UInt8.ofBitVec (w.extractLsb' 0 8) :: blockBytes (w >>> 8) n

/-- key bit i of K = R ‖ M : bits 0…127 are R, bits 128…255 are M -/
def kBit (R M : BitVec 128) (i : Nat) : Bool := if i < 128 then R.getLsbD i else M.getLsbD (i - 128)

/-- Encrypt(K, P): the TinyJAMBU-256 permutation with 256-bit key K on state P for 2560 steps -/
def encryptE (R M P : BitVec 128) : BitVec 128 := stateUpdate (kBit R M) 256 P 2560

/-- Compress(L, R, M) -/
def compress (L R M : BitVec 128) : BitVec 128 × BitVec 128 :=
  (encryptE R M L ^^^ L, encryptE R M (L ^^^ 1) ^^^ L ^^^ 1)

/-- 1. pad with a 1 bit and zeros to a multiple of 128 bits (the 1 bit is bit 0 of the next byte: 0x01) -/
def pad (m : Bytes) : Bytes := m ++ [0x01] ++ List.replicate (15 - m.length % 16) 0

/-- 4. all blocks but the last -/
def absorbBlocks : BitVec 128 × BitVec 128 → Bytes → BitVec 128 × BitVec 128 × Bytes
  | (L, R), data =>
    if 16 < data.length then
      let r := compress L R (leBlock (data.take 16))
      absorbBlocks r (data.drop 16)
    else (L, R, data)
termination_by _ data => data.length
decreasing_by simp; omega

/-- steps 1-6 -/
def hash (m : Bytes) : Bytes :=
  let r := absorbBlocks (0, 0) (pad m)
  let f := compress (r.1 ^^^ 2) r.2.1 (leBlock r.2.2)
  blockBytes f.1 16 ++ blockBytes f.2 16

end TJ.Spec
