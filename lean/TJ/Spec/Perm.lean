/-
  TJ.Spec.Perm — the keyed 128-bit NLFSR of TinyJAMBU v2 (NIST LWC finalist document, section 3.2),
  written bit-serially from the specification:

    StateUpdate(S, K, n):  for i = 0 .. n-1:
        feedback = s0 ⊕ s47 ⊕ (¬(s70 ∧ s85)) ⊕ s91 ⊕ k_(i mod klen)
        for j = 0 .. 126: s_j = s_(j+1)
        s_127 = feedback
-/
namespace TJ.Spec

/-- one step of the NLFSR with key bit `kb` -/
def step (s : BitVec 128) (kb : Bool) : BitVec 128 :=
  let fb := (s.getLsbD 0 ^^ s.getLsbD 47 ^^ !(s.getLsbD 70 && s.getLsbD 85) ^^ s.getLsbD 91 ^^ kb)
  (s >>> 1) ||| ((BitVec.ofBool fb).zeroExtend 128 <<< 127)

/-- `StateUpdate(S, K, n)`: `key i` is key bit `i`, `klen` the key length in bits; every call starts
    at key bit 0.  `stateUpdateFrom j n` runs steps `j, j+1, …, j+n-1`. -/
def stateUpdateFrom (key : Nat → Bool) (klen : Nat) (s : BitVec 128) (j : Nat) : Nat → BitVec 128
  | 0 => s
  | n+1 => stateUpdateFrom key klen (step s (key (j % klen))) (j+1) n

def stateUpdate (key : Nat → Bool) (klen : Nat) (s : BitVec 128) (n : Nat) : BitVec 128 :=
  stateUpdateFrom key klen s 0 n

end TJ.Spec
