/-
  TJ.Spec.Aead — TinyJAMBU v2 AEAD mode (NIST LWC document, section 3.3) and the two-pass SIV mode of
  tools/sivref/README.md, on the 128-bit state of the specification with the bit-serial StateUpdate.

  Conventions of the specification: byte i of a 32-bit block occupies bits 8i … 8i+7 (little endian);
  FrameBits are XORed into s36…s38 — here written, as in the reference code and in the SIV README, as
  a "domain separator" byte XORed into s32…s39 (0x10, 0x30, 0x50, 0x70 = FrameBits 1, 3, 5, 7 shifted
  by 4; the SIV separators 0x90, 0xB0, 0xD0 additionally flip s39); data into s96…s127; the byte count
  of a partial block into s32…s33; keystream from s64…s95.
-/
import TJ.Spec.Perm
import TJ.Impl.Basic
namespace TJ.Spec

abbrev St := BitVec 128

/-- key bit i = bit (i mod 8) of key byte i/8 -/
def keyBit (key : Bytes) (i : Nat) : Bool := (key.getD (i / 8) 0).toBitVec.getLsbD (i % 8)

/-- little-endian value of up to four bytes -/
def leWord : Bytes → BitVec 32
  | [] => 0
  | b :: bs => (leWord bs <<< 8) ||| b.toBitVec.zeroExtend 32

/-- the first `n` bytes of a 32-bit block -/
def wordBytes (w : BitVec 32) : Nat → Bytes
  | 0 => []
  | n+1 => UInt8.ofBitVec (w.extractLsb' 0 8) :: wordBytes (w >>> 8) n

def frame (s : St) (d : BitVec 8) : St := s ^^^ (d.zeroExtend 128 <<< 32)
def xorData (s : St) (w : BitVec 32) : St := s ^^^ (w.zeroExtend 128 <<< 96)
def xorLen (s : St) (l : Nat) : St := s ^^^ (BitVec.ofNat 128 l <<< 32)
def ks (s : St) : BitVec 32 := s.extractLsb' 64 32

/-- parameters of a variant: key length in bits and the number of steps of P_K; P_n is 640 steps -/
structure Params where
  klen : Nat
  pk : Nat

def p128 : Params := ⟨128, 1024⟩
def p192 : Params := ⟨192, 1152⟩
def p256 : Params := ⟨256, 1280⟩

section
variable (U : St → Nat → St)   -- U s n = StateUpdate(s, K, n) for the key in use

/-- key setup and nonce: P_K on the zero state, then three 32-bit nonce blocks under separator `d` -/
def init (pk : Nat) (nonce : Bytes) (d : BitVec 8) : St :=
  let s := U 0 pk
  let s := xorData (U (frame s d) 640) (leWord (nonce.take 4))
  let s := xorData (U (frame s d) 640) (leWord ((nonce.drop 4).take 4))
  xorData (U (frame s d) 640) (leWord ((nonce.drop 8).take 4))

/-- absorb data under separator `d` with `n` steps per block: full blocks, then a partial block of
    1-3 bytes followed by the byte count in s32, s33 -/
def absorb (d : BitVec 8) (n : Nat) : St → Bytes → St
  | s, b0 :: b1 :: b2 :: b3 :: rest => absorb d n (xorData (U (frame s d) n) (leWord [b0, b1, b2, b3])) rest
  | s, [] => s
  | s, part => xorLen (xorData (U (frame s d) n) (leWord part)) part.length

/-- encryption of the message: absorb the plaintext block, output plaintext ⊕ keystream -/
def encBody (pk : Nat) : St → Bytes → St × Bytes
  | s, b0 :: b1 :: b2 :: b3 :: rest =>
    let s := xorData (U (frame s 0x50) pk) (leWord [b0, b1, b2, b3])
    let r := encBody pk s rest
    (r.1, wordBytes (leWord [b0, b1, b2, b3] ^^^ ks s) 4 ++ r.2)
  | s, [] => (s, [])
  | s, part =>
    let s := xorLen (xorData (U (frame s 0x50) pk) (leWord part)) part.length
    (s, wordBytes (leWord part ^^^ ks s) part.length)

/-- decryption of the body: plaintext = ciphertext ⊕ keystream (truncated to the block), then absorbed -/
def decBody (pk : Nat) : St → Bytes → St × Bytes
  | s, b0 :: b1 :: b2 :: b3 :: rest =>
    let s0 := U (frame s 0x50) pk
    let m := leWord [b0, b1, b2, b3] ^^^ ks s0
    let r := decBody pk (xorData s0 m) rest
    (r.1, wordBytes m 4 ++ r.2)
  | s, [] => (s, [])
  | s, part =>
    let s0 := U (frame s 0x50) pk
    let m := leWord (wordBytes (leWord part ^^^ ks s0) part.length)
    (xorLen (xorData s0 m) part.length, wordBytes m part.length)

/-- finalisation: 64-bit tag from two keystream blocks -/
def tag (pk : Nat) (s : St) : Bytes :=
  let s1 := U (frame s 0x70) pk
  let s2 := U (frame s1 0x70) 640
  wordBytes (ks s1) 4 ++ wordBytes (ks s2) 4

def aeadEncrypt (pk : Nat) (nonce ad m : Bytes) : Bytes :=
  let s := absorb U 0x30 640 (init U pk nonce 0x10) ad
  let r := encBody U pk s m
  r.2 ++ tag U pk r.1

/-- `none` = ⊥ (invalid) -/
def aeadDecrypt (pk : Nat) (nonce ad c : Bytes) : Option Bytes :=
  if c.length < 8 then none else
  let s := absorb U 0x30 640 (init U pk nonce 0x10) ad
  let r := decBody U pk s (c.take (c.length - 8))
  if tag U pk r.1 = c.drop (c.length - 8) then some r.2 else none

/-- SIV second pass: keystream only (separator 0xD0), the message is not absorbed -/
def sivBody (pk : Nat) : St → Bytes → Bytes
  | s, b0 :: b1 :: b2 :: b3 :: rest =>
    let s := U (frame s 0xD0) pk
    wordBytes (leWord [b0, b1, b2, b3] ^^^ ks s) 4 ++ sivBody pk s rest
  | _, [] => []
  | s, part =>
    let s := U (frame s 0xD0) pk
    wordBytes (leWord part ^^^ ks s) part.length

/-- SIV first pass: the AEAD MAC over (nonce, AD, plaintext) with nonce separator 0x90, no output -/
def sivMac (pk : Nat) (nonce ad m : Bytes) : Bytes :=
  let s := absorb U 0x30 640 (init U pk nonce 0x90) ad
  tag U pk (absorb U 0x50 pk s m)

/-- keystream pass under the derived nonce `nonce[0..3] ‖ tag`, separator 0xB0 -/
def sivKeystreamXor (pk : Nat) (nonce4 tagv m : Bytes) : Bytes :=
  sivBody U pk (init U pk (nonce4 ++ tagv) 0xB0) m

def sivEncrypt (pk : Nat) (nonce ad m : Bytes) : Bytes :=
  let t := sivMac U pk nonce ad m
  sivKeystreamXor U pk (nonce.take 4) t m ++ t

end

/-- StateUpdate for a concrete key -/
def keyed (p : Params) (key : Bytes) : St → Nat → St := fun s n => stateUpdate (keyBit key) p.klen s n

def AEAD.encrypt (p : Params) (key nonce ad m : Bytes) : Bytes := aeadEncrypt (keyed p key) p.pk nonce ad m
def AEAD.decrypt (p : Params) (key nonce ad c : Bytes) : Option Bytes := aeadDecrypt (keyed p key) p.pk nonce ad c
def SIV.encrypt (p : Params) (key nonce ad m : Bytes) : Bytes := sivEncrypt (keyed p key) p.pk nonce ad m

end TJ.Spec
