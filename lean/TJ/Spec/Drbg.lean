/-
  TJ.Spec.Drbg — Hash_DRBG of NIST SP 800-90A r1 §10.1.1 with seedlen = outlen = 256 bits, generic in
  the hash `H`, in the variant documented in tinyjambu-prng.c (V advanced after every output block).
  Numbers are big-endian byte strings, as in the standard.
-/
import TJ.Impl.Basic
namespace TJ.Spec

/-- big-endian byte string → integer -/
def beVal (b : Bytes) : Nat := b.foldl (fun acc x => acc * 256 + x.toNat) 0

/-- integer → little-endian bytes of the given length (mod 256^len) -/
def toLE : Nat → Nat → Bytes
  | _, 0 => []
  | n, len+1 => (n % 256).toUInt8 :: toLE (n / 256) len

/-- integer → big-endian byte string of the given length (mod 256^len) -/
def toBE (n len : Nat) : Bytes := (toLE n len).reverse

/-- §10.3.1 Hash_df for one output block of 256 bits:
    Hash(counter = 0x01 ‖ no_of_bits_to_return = 0x00000100 ‖ input_string) -/
def hashDf (H : Bytes → Bytes) (input : Bytes) : Bytes := H ([0x01] ++ [0x00, 0x00, 0x01, 0x00] ++ input)

structure Drbg where
  V : Bytes
  C : Bytes
  reseedCounter : Nat
  deriving DecidableEq, Repr

/-- §10.1.1.2 instantiate: seed_material = entropy_input ‖ nonce ‖ personalization_string -/
def instantiate (H : Bytes → Bytes) (entropy custom : Bytes) : Drbg :=
  let V := hashDf H (entropy ++ custom)
  ⟨V, hashDf H (0x00 :: V), 1⟩

/-- §10.1.1.3 reseed: seed_material = 0x01 ‖ V ‖ entropy_input ‖ additional_input -/
def reseed (H : Bytes → Bytes) (d : Drbg) (input : Bytes) : Drbg :=
  let V := hashDf H (0x01 :: d.V ++ input)
  ⟨V, hashDf H (0x00 :: V), 1⟩

/-- the library's `feed`: the same derivation from the OLD V and the fed data, but the reseed counter
    is increased instead of being reset (saturating at 2^32-1) -/
def feed (H : Bytes → Bytes) (d : Drbg) (input : Bytes) : Drbg :=
  let V := hashDf H (0x01 :: d.V ++ input)
  ⟨V, hashDf H (0x00 :: V), min (d.reseedCounter + 1) 4294967295⟩

/-- §10.1.1.4 per block: output = Hash(V); H = Hash(0x03 ‖ V);
    V = (V + H + C + reseed_counter) mod 2^256; reseed_counter + 1 -/
def block (H : Bytes → Bytes) (d : Drbg) : Bytes × Drbg :=
  (H d.V, { d with V := toBE ((beVal d.V + beVal (H (0x03 :: d.V)) + beVal d.C + d.reseedCounter) % 2^256) 32,
                   reseedCounter := d.reseedCounter + 1 })

end TJ.Spec
