/-
  TJ.Asm.Avr — a small model of the AVR (avr5) instructions that occur in the TinyJAMBU back ends: 32 registers of 8 bits, carry and zero flags, byte
  memory addressed through the Z pointer (r31:r30) plus a displacement, a separate stack (`push`/`pop`), and a program-counter semantics like
  TJ.Asm.Machine.  What the mnemonics mean (this file) is this project's reading of the AVR instruction set manual and is part of the trusted base:
  `lsl`/`rol` shift left through carry, `lsr`/`ror` shift right through carry, `eor`/`and`/`dec` set Z and leave C alone, `mov`/`movw`/`ld`/`st`/`push`/`pop`
  leave the flags alone.  Idealisation: the stack is a separate space (it does not overlap the state object).
  (generated boilerplate for the 32 register names)
-/
import Std.Tactic.BVDecide
import TJ.Asm.Loop
namespace TJ.Asm.Avr

inductive R
  | r0 | r1 | r2 | r3 | r4 | r5 | r6 | r7 | r8 | r9 | r10 | r11 | r12 | r13 | r14 | r15 | r16 | r17 | r18 | r19 | r20 | r21 | r22 | r23 | r24 | r25 | r26 | r27 | r28 | r29 | r30 | r31
  deriving DecidableEq, Repr, Inhabited

structure Regs where
  r0 : BitVec 8
  r1 : BitVec 8
  r2 : BitVec 8
  r3 : BitVec 8
  r4 : BitVec 8
  r5 : BitVec 8
  r6 : BitVec 8
  r7 : BitVec 8
  r8 : BitVec 8
  r9 : BitVec 8
  r10 : BitVec 8
  r11 : BitVec 8
  r12 : BitVec 8
  r13 : BitVec 8
  r14 : BitVec 8
  r15 : BitVec 8
  r16 : BitVec 8
  r17 : BitVec 8
  r18 : BitVec 8
  r19 : BitVec 8
  r20 : BitVec 8
  r21 : BitVec 8
  r22 : BitVec 8
  r23 : BitVec 8
  r24 : BitVec 8
  r25 : BitVec 8
  r26 : BitVec 8
  r27 : BitVec 8
  r28 : BitVec 8
  r29 : BitVec 8
  r30 : BitVec 8
  r31 : BitVec 8

def Regs.get (s : Regs) : R → BitVec 8
  | .r0 => s.r0
  | .r1 => s.r1
  | .r2 => s.r2
  | .r3 => s.r3
  | .r4 => s.r4
  | .r5 => s.r5
  | .r6 => s.r6
  | .r7 => s.r7
  | .r8 => s.r8
  | .r9 => s.r9
  | .r10 => s.r10
  | .r11 => s.r11
  | .r12 => s.r12
  | .r13 => s.r13
  | .r14 => s.r14
  | .r15 => s.r15
  | .r16 => s.r16
  | .r17 => s.r17
  | .r18 => s.r18
  | .r19 => s.r19
  | .r20 => s.r20
  | .r21 => s.r21
  | .r22 => s.r22
  | .r23 => s.r23
  | .r24 => s.r24
  | .r25 => s.r25
  | .r26 => s.r26
  | .r27 => s.r27
  | .r28 => s.r28
  | .r29 => s.r29
  | .r30 => s.r30
  | .r31 => s.r31

def Regs.set (s : Regs) : R → BitVec 8 → Regs
  | .r0, v => { s with r0 := v }
  | .r1, v => { s with r1 := v }
  | .r2, v => { s with r2 := v }
  | .r3, v => { s with r3 := v }
  | .r4, v => { s with r4 := v }
  | .r5, v => { s with r5 := v }
  | .r6, v => { s with r6 := v }
  | .r7, v => { s with r7 := v }
  | .r8, v => { s with r8 := v }
  | .r9, v => { s with r9 := v }
  | .r10, v => { s with r10 := v }
  | .r11, v => { s with r11 := v }
  | .r12, v => { s with r12 := v }
  | .r13, v => { s with r13 := v }
  | .r14, v => { s with r14 := v }
  | .r15, v => { s with r15 := v }
  | .r16, v => { s with r16 := v }
  | .r17, v => { s with r17 := v }
  | .r18, v => { s with r18 := v }
  | .r19, v => { s with r19 := v }
  | .r20, v => { s with r20 := v }
  | .r21, v => { s with r21 := v }
  | .r22, v => { s with r22 := v }
  | .r23, v => { s with r23 := v }
  | .r24, v => { s with r24 := v }
  | .r25, v => { s with r25 := v }
  | .r26, v => { s with r26 := v }
  | .r27, v => { s with r27 := v }
  | .r28, v => { s with r28 := v }
  | .r29, v => { s with r29 := v }
  | .r30, v => { s with r30 := v }
  | .r31, v => { s with r31 := v }

/-- the register that follows (for `movw`, register pairs) -/
def R.next : R → R
  | .r0 => .r1
  | .r1 => .r2
  | .r2 => .r3
  | .r3 => .r4
  | .r4 => .r5
  | .r5 => .r6
  | .r6 => .r7
  | .r7 => .r8
  | .r8 => .r9
  | .r9 => .r10
  | .r10 => .r11
  | .r11 => .r12
  | .r12 => .r13
  | .r13 => .r14
  | .r14 => .r15
  | .r15 => .r16
  | .r16 => .r17
  | .r17 => .r18
  | .r18 => .r19
  | .r19 => .r20
  | .r20 => .r21
  | .r21 => .r22
  | .r22 => .r23
  | .r23 => .r24
  | .r24 => .r25
  | .r25 => .r26
  | .r26 => .r27
  | .r27 => .r28
  | .r28 => .r29
  | .r29 => .r30
  | .r30 => .r31
  | .r31 => .r0

/-- data part of the machine state -/
structure D where
  r : Regs
  c : Bool
  z : Bool
  mem : BitVec 16 → BitVec 8
  stk : List (BitVec 8)

inductive Instr
  | mov (d s : R)
  | movw (d s : R)                       -- rd+1:rd := rs+1:rs
  | eor (d s : R)
  | and (d s : R)
  | lsl (d : R)
  | lsr (d : R)
  | rol (d : R)
  | ror (d : R)
  | dec (d : R)
  | ldz (d : R) (q : BitVec 16)          -- ld rd, Z / ldd rd, Z+q
  | stz (q : BitVec 16) (s : R)          -- st Z, rs / std Z+q, rs
  | push (s : R)
  | pop (d : R)
  | breq (label : Nat)
  | brne (label : Nat)
  | rjmp (label : Nat)
  | ret
  | label (n : Nat)
  deriving DecidableEq, Repr

def zptr (d : D) : BitVec 16 := d.r.r31 ++ d.r.r30

def upd (f : BitVec 16 → BitVec 8) (a : BitVec 16) (v : BitVec 8) : BitVec 16 → BitVec 8 := fun x => if x = a then v else f x

def execD (d : D) : Instr → D
  | .mov rd rs => { d with r := d.r.set rd (d.r.get rs) }
  | .movw rd rs => { d with r := (d.r.set rd (d.r.get rs)).set rd.next (d.r.get rs.next) }
  | .eor rd rs => { d with r := d.r.set rd (d.r.get rd ^^^ d.r.get rs), z := decide (d.r.get rd ^^^ d.r.get rs = 0) }
  | .and rd rs => { d with r := d.r.set rd (d.r.get rd &&& d.r.get rs), z := decide (d.r.get rd &&& d.r.get rs = 0) }
  | .lsl rd => { d with r := d.r.set rd (d.r.get rd <<< 1), c := (d.r.get rd).msb, z := decide (d.r.get rd <<< 1 = 0) }
  | .lsr rd => { d with r := d.r.set rd (d.r.get rd >>> 1), c := (d.r.get rd).getLsbD 0, z := decide (d.r.get rd >>> 1 = 0) }
  | .rol rd => { d with r := d.r.set rd ((d.r.get rd <<< 1) ||| (if d.c then 1#8 else 0#8)), c := (d.r.get rd).msb,
                        z := decide ((d.r.get rd <<< 1) ||| (if d.c then 1#8 else 0#8) = 0) }
  | .ror rd => { d with r := d.r.set rd ((d.r.get rd >>> 1) ||| (if d.c then 0x80#8 else 0#8)), c := (d.r.get rd).getLsbD 0,
                        z := decide ((d.r.get rd >>> 1) ||| (if d.c then 0x80#8 else 0#8) = 0) }
  | .dec rd => { d with r := d.r.set rd (d.r.get rd - 1#8), z := decide (d.r.get rd - 1#8 = 0) }
  | .ldz rd q => { d with r := d.r.set rd (d.mem (zptr d + q)) }
  | .stz q rs => { d with mem := upd d.mem (zptr d + q) (d.r.get rs) }
  | .push rs => { d with stk := d.r.get rs :: d.stk }
  | .pop rd => { d with r := d.r.set rd (d.stk.headD 0), stk := d.stk.tail }
  | .breq _ => d
  | .brne _ => d
  | .rjmp _ => d
  | .ret => d
  | .label _ => d

def Instr.isCtl : Instr → Bool
  | .breq _ | .brne _ | .rjmp _ | .ret => true
  | _ => false

structure Cfg where
  d : D
  pc : Nat
  done : Bool

abbrev Prog := List Instr

def findLabel (p : Prog) (n : Nat) : Nat := p.findIdx (· == .label n)

def step (p : Prog) (c : Cfg) : Cfg :=
  if c.done then c else
  match p[c.pc]? with
  | none => { c with done := true }
  | some i =>
    match i with
    | .breq l => if c.d.z then { c with pc := findLabel p l } else { c with pc := c.pc + 1 }
    | .brne l => if c.d.z then { c with pc := c.pc + 1 } else { c with pc := findLabel p l }
    | .rjmp l => { c with pc := findLabel p l }
    | .ret => { c with done := true }
    | i => { c with d := execD c.d i, pc := c.pc + 1 }

def run (p : Prog) : Nat → Cfg → Cfg
  | 0, c => c
  | n+1, c => run p n (step p c)

theorem run_add (p : Prog) (a b : Nat) (c : Cfg) : run p (a + b) c = run p b (run p a c) := by
  induction a generalizing c with
  | zero => simp [run]
  | succ a ih => rw [Nat.succ_add]; simp only [run]; exact ih _

theorem run_block (p : Prog) (blk : List Instr) (d : D) (pc : Nat)
    (hf : ∀ i, (h : i < blk.length) → p[pc + i]? = some blk[i])
    (hc : ∀ i ∈ blk, i.isCtl = false) :
    run p blk.length ⟨d, pc, false⟩ = ⟨blk.foldl execD d, pc + blk.length, false⟩ := by
  induction blk generalizing d pc with
  | nil => rfl
  | cons i rest ih =>
    have h0 := hf 0 (by simp)
    simp only [Nat.add_zero, List.getElem_cons_zero] at h0
    have hci := hc i (by simp)
    have hs : step p ⟨d, pc, false⟩ = ⟨execD d i, pc + 1, false⟩ := by
      simp only [step, h0]
      cases i <;> simp_all [Instr.isCtl]
    simp only [List.length_cons, run, hs, List.foldl_cons]
    rw [ih (execD d i) (pc + 1)]
    · congr 1; omega
    · intro j hj
      have := hf (j + 1) (by simp; omega)
      simp only [List.getElem_cons_succ] at this
      rw [← this]; congr 1; omega
    · intro j hj; exact hc j (by simp [hj])

theorem fetch_of_slice (p : Prog) (blk : List Instr) (pc : Nat) (hs : (p.drop pc).take blk.length = blk)
    (i : Nat) (h : i < blk.length) : p[pc + i]? = some blk[i] := by
  have h1 : ((p.drop pc).take blk.length)[i]? = blk[i]? := by rw [hs]
  rw [List.getElem?_take, if_pos h, List.getElem?_drop] at h1
  rw [h1, List.getElem?_eq_getElem h]

theorem run_slice (p : Prog) (blk : List Instr) (d : D) (pc : Nat)
    (hs : (p.drop pc).take blk.length = blk) (hc : blk.all (fun i => !i.isCtl) = true) :
    run p blk.length ⟨d, pc, false⟩ = ⟨blk.foldl execD d, pc + blk.length, false⟩ :=
  run_block p blk d pc (fetch_of_slice p blk pc hs) (by
    intro i hi
    have := List.all_eq_true.1 hc i hi
    simpa using this)

theorem step_breq (p : Prog) (d : D) (pc : Nat) (l : Nat) (h : p[pc]? = some (.breq l)) :
    step p ⟨d, pc, false⟩ = ⟨d, if d.z then findLabel p l else pc + 1, false⟩ := by
  simp only [step, h]
  split
  · simp_all
  · split <;> simp_all

theorem step_brne (p : Prog) (d : D) (pc : Nat) (l : Nat) (h : p[pc]? = some (.brne l)) :
    step p ⟨d, pc, false⟩ = ⟨d, if d.z then pc + 1 else findLabel p l, false⟩ := by
  simp only [step, h]
  split
  · simp_all
  · split <;> simp_all

theorem step_rjmp (p : Prog) (d : D) (pc : Nat) (l : Nat) (h : p[pc]? = some (.rjmp l)) :
    step p ⟨d, pc, false⟩ = ⟨d, findLabel p l, false⟩ := by
  simp only [step, h]; rfl

theorem step_ret (p : Prog) (d : D) (pc : Nat) (h : p[pc]? = some .ret) :
    step p ⟨d, pc, false⟩ = ⟨d, pc, true⟩ := by
  simp only [step, h]; rfl

theorem step_label (p : Prog) (d : D) (pc : Nat) (n : Nat) (h : p[pc]? = some (.label n)) :
    step p ⟨d, pc, false⟩ = ⟨d, pc + 1, false⟩ := by
  simp only [step, h]; rfl

/-- four bytes, least significant first, as a 32-bit word -/
def cat4 (b0 b1 b2 b3 : BitVec 8) : BitVec 32 :=
  b0.zeroExtend 32 ||| (b1.zeroExtend 32 <<< 8) ||| (b2.zeroExtend 32 <<< 16) ||| (b3.zeroExtend 32 <<< 24)

theorem cat4_inj (a0 a1 a2 a3 b0 b1 b2 b3 : BitVec 8) (h : cat4 a0 a1 a2 a3 = cat4 b0 b1 b2 b3) : a0 = b0 ∧ a1 = b1 ∧ a2 = b2 ∧ a3 = b3 := by
  unfold cat4 at h
  refine ⟨?_, ?_, ?_, ?_⟩ <;> bv_decide

theorem reg_enum_seed (a b : R) (h : a = b) : b = a := by bv_decide

/-! ### frames -/

def Instr.writes : Instr → List R
  | .mov d _ | .eor d _ | .and d _ | .lsl d | .lsr d | .rol d | .ror d | .dec d | .ldz d _ | .pop d => [d]
  | .movw d _ => [d, d.next]
  | _ => []

def Instr.isStore : Instr → Bool
  | .stz _ _ => true
  | _ => false

def Instr.isStack : Instr → Bool
  | .push _ | .pop _ => true
  | _ => false

theorem Regs.get_set_ne (s : Regs) (r r' : R) (v : BitVec 8) (h : r ≠ r') : (s.set r v).get r' = s.get r' := by
  cases r <;> cases r' <;> first | rfl | exact absurd rfl h

theorem execD_get_unwritten (d : D) (i : Instr) (r : R) (h : r ∉ i.writes) : (execD d i).r.get r = d.r.get r := by
  cases i with
  | movw rd rs =>
    have h1 : rd ≠ r := fun e => h (by simp [Instr.writes, e])
    have h2 : rd.next ≠ r := fun e => h (by simp [Instr.writes, e])
    simp only [execD]; rw [Regs.get_set_ne _ _ _ _ h2, Regs.get_set_ne _ _ _ _ h1]
  | mov rd rs => have h1 : rd ≠ r := fun e => h (by simp [Instr.writes, e]); simp only [execD]; exact Regs.get_set_ne _ _ _ _ h1
  | eor rd rs => have h1 : rd ≠ r := fun e => h (by simp [Instr.writes, e]); simp only [execD]; exact Regs.get_set_ne _ _ _ _ h1
  | and rd rs => have h1 : rd ≠ r := fun e => h (by simp [Instr.writes, e]); simp only [execD]; exact Regs.get_set_ne _ _ _ _ h1
  | lsl rd => have h1 : rd ≠ r := fun e => h (by simp [Instr.writes, e]); simp only [execD]; exact Regs.get_set_ne _ _ _ _ h1
  | lsr rd => have h1 : rd ≠ r := fun e => h (by simp [Instr.writes, e]); simp only [execD]; exact Regs.get_set_ne _ _ _ _ h1
  | rol rd => have h1 : rd ≠ r := fun e => h (by simp [Instr.writes, e]); simp only [execD]; exact Regs.get_set_ne _ _ _ _ h1
  | ror rd => have h1 : rd ≠ r := fun e => h (by simp [Instr.writes, e]); simp only [execD]; exact Regs.get_set_ne _ _ _ _ h1
  | dec rd => have h1 : rd ≠ r := fun e => h (by simp [Instr.writes, e]); simp only [execD]; exact Regs.get_set_ne _ _ _ _ h1
  | ldz rd q => have h1 : rd ≠ r := fun e => h (by simp [Instr.writes, e]); simp only [execD]; exact Regs.get_set_ne _ _ _ _ h1
  | pop rd => have h1 : rd ≠ r := fun e => h (by simp [Instr.writes, e]); simp only [execD]; exact Regs.get_set_ne _ _ _ _ h1
  | _ => rfl

theorem fold_get_unwritten (blk : List Instr) (d : D) (r : R) (h : blk.all (fun i => decide (r ∉ i.writes)) = true) :
    (blk.foldl execD d).r.get r = d.r.get r := by
  induction blk generalizing d with
  | nil => rfl
  | cons i rest ih =>
    simp only [List.all_cons, Bool.and_eq_true, decide_eq_true_eq] at h
    simp only [List.foldl_cons]
    rw [ih _ h.2, execD_get_unwritten _ _ _ h.1]

theorem fold_mem_unchanged (blk : List Instr) (d : D) (h : blk.all (fun i => !i.isStore) = true) : (blk.foldl execD d).mem = d.mem := by
  induction blk generalizing d with
  | nil => rfl
  | cons i rest ih =>
    simp only [List.all_cons, Bool.and_eq_true] at h
    simp only [List.foldl_cons]
    rw [ih _ h.2]
    cases i <;> first | rfl | (simp [Instr.isStore] at h)

theorem fold_stk_unchanged (blk : List Instr) (d : D) (h : blk.all (fun i => !i.isStack) = true) : (blk.foldl execD d).stk = d.stk := by
  induction blk generalizing d with
  | nil => rfl
  | cons i rest ih =>
    simp only [List.all_cons, Bool.and_eq_true] at h
    simp only [List.foldl_cons]
    rw [ih _ h.2]
    cases i <;> first | rfl | (simp [Instr.isStack] at h)

/-! ### the 8-bit round counter -/

theorem cnt_pred (m : Nat) (h1 : 1 ≤ m) : BitVec.ofNat 8 m - 1#8 = BitVec.ofNat 8 (m - 1) := by
  have e : BitVec.ofNat 8 m = BitVec.ofNat 8 (m - 1) + 1#8 := by
    have : m = (m - 1) + 1 := by omega
    conv => lhs; rw [this]
    exact BitVec.ofNat_add _ _
  rw [e]; bv_decide

theorem cnt_zero_iff (m : Nat) (h1 : 1 ≤ m) (h2 : m ≤ 256) : BitVec.ofNat 8 (m - 1) = 0 ↔ m = 1 := by
  constructor
  · intro e
    have := congrArg BitVec.toNat e
    simp at this
    omega
  · rintro rfl; rfl

/-! ### the loop theorem (as TJ.Asm.loop_correct, for this machine) -/

open TJ.Asm (S4 permBV roundAtBV permBV_shift) in
theorem loop_correct (p : Prog) (nk n : Nat) (hn0 : 0 < n) (hn : (4 * n) % nk = 0) (key : Nat → BitVec 32)
    (pcs : Nat → Nat) (exit : Nat) (Inv : D → S4 → Nat → Prop)
    (H : ∀ j, j < n → ∀ d s m, Inv d s m → 1 ≤ m →
      ∃ k d', run p k ⟨d, pcs j, false⟩ = ⟨d', if m = 1 then exit else pcs ((j + 1) % n), false⟩ ∧
        Inv d' (roundAtBV nk key j s) (m - 1)) :
    ∀ m, 1 ≤ m → ∀ j, j < n → ∀ d s, Inv d s m →
      ∃ k d', run p k ⟨d, pcs j, false⟩ = ⟨d', exit, false⟩ ∧ Inv d' (permBV nk key j m s) 0 := by
  intro m
  induction m with
  | zero => intro h; omega
  | succ m ih =>
    intro _ j hj d s hi
    obtain ⟨k, d', hrun, hi'⟩ := H j hj d s (m + 1) hi (by omega)
    by_cases hm : m = 0
    · subst hm
      simp only [Nat.zero_add, if_true] at hrun
      refine ⟨k, d', hrun, ?_⟩
      simpa [permBV] using hi'
    · have hm1 : ¬ m + 1 = 1 := by omega
      simp only [hm1, if_false] at hrun
      have hjn := Nat.mod_lt (j + 1) hn0
      obtain ⟨k2, d2, hrun2, hi2⟩ := ih (by omega) ((j + 1) % n) hjn d' _ (by simpa using hi')
      refine ⟨k + k2, d2, ?_, ?_⟩
      · rw [run_add, hrun, hrun2]
      · simp only [permBV]
        have hper : permBV nk key ((j + 1) % n) m (roundAtBV nk key j s) = permBV nk key (j + 1) m (roundAtBV nk key j s) := by
          by_cases hlt : j + 1 < n
          · rw [Nat.mod_eq_of_lt hlt]
          · have : j + 1 = n := by omega
            rw [this, Nat.mod_self]
            have := permBV_shift nk n hn key 0 m (roundAtBV nk key j s)
            simpa using this.symm
        rw [← hper]; exact hi2

end TJ.Asm.Avr
