/-
  TJ.Asm.RV64 — why the three RV64I back ends are verified on the 32-bit machine of TJ.Asm.Machine.

  The RV64I files differ from the RV32I files only in (i) `srliw`/`slliw` for `srli`/`slli`, (ii) `sd`/`ld` with 8-byte slots
  and a 32-byte frame for the callee-saved registers.  Every register that carries data holds, on RV64, the SIGN EXTENSION of
  a 32-bit value (`lw` sign-extends, the W-shifts sign-extend, `xor`/`and` of sign-extended values are sign-extended), and
  `sw` stores the low word.  The lemmas below are the per-instruction facts of that projection: the low 32 bits of each RV64
  result are the RV32 result on the low 32 bits of the operands, and the results are again sign-extended.  The translator maps
  the W-forms onto the same micro-operations as the RV32 forms, so `TJ.Gen.Asm.rv64i_*.correct` is the theorem about the
  32-bit projection of the program.

  NOT covered by a theorem (stated as an assumption in the evidence): the lifting of these per-instruction facts to whole
  executions; the address arithmetic (`a0`, `sp` are 64-bit addresses; the idealised word memory only needs distinct
  addresses to stay distinct, which holds for offsets below 2^31); and the round counter `a1`, compared as a 64-bit register —
  exact when it is the sign extension of a value below 2^31 (the psABI passes 32-bit arguments sign-extended; the library uses
  at most 20 rounds).
-/
import Std.Tactic.BVDecide
namespace TJ.Asm.RV64

def sext (x : BitVec 32) : BitVec 64 := x.signExtend 64
def low (x : BitVec 64) : BitVec 32 := x.truncate 32

/-- RV64 `srliw rd, rs, k` -/
def srliw (rs : BitVec 64) (k : Nat) : BitVec 64 := sext (low rs >>> k)
/-- RV64 `slliw rd, rs, k` -/
def slliw (rs : BitVec 64) (k : Nat) : BitVec 64 := sext (low rs <<< k)

theorem low_sext (x : BitVec 32) : low (sext x) = x := by
  unfold low sext; bv_decide

theorem low_srliw (rs : BitVec 64) (k : Nat) : low (srliw rs k) = low rs >>> k := low_sext _
theorem low_slliw (rs : BitVec 64) (k : Nat) : low (slliw rs k) = low rs <<< k := low_sext _

theorem low_xor (a b : BitVec 64) : low (a ^^^ b) = low a ^^^ low b := by unfold low; bv_decide
theorem low_and (a b : BitVec 64) : low (a &&& b) = low a &&& low b := by unfold low; bv_decide

/-- bitwise operations keep the "sign-extended 32-bit value" form -/
theorem xor_sext (x y : BitVec 32) : sext x ^^^ sext y = sext (x ^^^ y) := by unfold sext; bv_decide
theorem and_sext (x y : BitVec 32) : sext x &&& sext y = sext (x &&& y) := by unfold sext; bv_decide

/-- the loop counter: on sign extensions of values below 2^31, decrement and zero test agree with the 32-bit ones -/
theorem dec_sext (x : BitVec 32) (h : x < 0x80000000#32) (h0 : x ≠ 0) : sext x - 1 = sext (x - 1) := by
  unfold sext
  bv_decide
theorem sext_eq_zero (x : BitVec 32) : sext x = 0 ↔ x = 0 := by
  unfold sext
  constructor
  · intro h; bv_decide
  · intro h; subst h; rfl

end TJ.Asm.RV64
