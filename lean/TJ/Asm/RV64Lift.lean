/-
  TJ.Asm.RV64Lift — lifting the per-instruction projection facts of TJ.Asm.RV64 to EXECUTIONS of straight-line data blocks.

  The RV64I back ends are verified on the 32-bit machine (`TJ.Gen.Asm.rv64i_*.correct` is about `RiscV.lower`ed programs).  This file gives the 64-bit reading of the data
  instructions (`srliw`, `slliw`, `xor`, `and` on 64-bit registers, W-forms sign-extending) and proves that on register files in which every register holds the SIGN
  EXTENSION of a 32-bit value, executing ANY list of data instructions on the 64-bit registers gives exactly the sign extension of what the 32-bit machine computes with the
  lowered instructions, and leaves the rest of the machine state alone (`data_block`).  Every round body of the three RV64I programs consists of such instructions only
  (`TJ.Gen.Asm` files; checked per program by `bodyData` below on the regenerated instruction lists).

  Still assumed (not lifted): loads and stores (64-bit addresses against the idealised word memory), `ld`/`sd` of the callee-saved registers, `addi` on `sp`, and the round
  counter (`dec_sext`, `sext_eq_zero` of TJ.Asm.RV64 are the per-instruction facts; exact below 2^31 rounds).
-/
import TJ.Asm.RiscV
import TJ.Asm.RV64
namespace TJ.Asm.RV64
open TJ.Asm TJ.Asm.RiscV

abbrev R64 := Reg → BitVec 64

def set64 (r : R64) (rd : Reg) (v : BitVec 64) : R64 := fun x => if x = rd then v else r x

/-- 64-bit semantics of the data instructions (everything else: no effect here, not covered) -/
def exec64 (r : R64) : I → R64
  | .srliw rd rs k => set64 r rd (srliw (r rs) k)
  | .slliw rd rs k => set64 r rd (slliw (r rs) k)
  | .xor rd rs rt => set64 r rd (r rs ^^^ r rt)
  | .and rd rs rt => set64 r rd (r rs &&& r rt)
  | _ => r

def isData : I → Bool
  | .srliw _ _ k => k < 32
  | .slliw _ _ k => k < 32
  | .xor _ _ _ => true
  | .and _ _ _ => true
  | _ => false

/-- the 64-bit register file that holds the sign extension of every 32-bit register -/
def sextRegs (s : Regs) : R64 := fun r => sext (s.get r)

theorem get_set (s : Regs) (rd : Reg) (v : BitVec 32) (x : Reg) : (s.set rd v).get x = if x = rd then v else s.get x := by
  cases rd <;> cases x <;> rfl

theorem sext_set (s : Regs) (rd : Reg) (v : BitVec 32) : sextRegs (s.set rd v) = set64 (sextRegs s) rd (sext v) := by
  funext x
  simp only [sextRegs, set64, get_set]
  split <;> rfl

/-- one data instruction: the 64-bit result is the sign extension of the 32-bit machine's result; memory, stack, flag and SAR are untouched -/
theorem data_step (d : D) (i : I) (i' : Instr) (hd : isData i = true) (hl : lower i = some i') :
    exec64 (sextRegs d.r) i = sextRegs (execD d i').r ∧ (execD d i').mem = d.mem ∧ (execD d i').stk = d.stk ∧ (execD d i').z = d.z ∧ (execD d i').sar = d.sar := by
  cases i with
  | srliw rd rs k =>
    have hk : k < 32 := by simpa [isData] using hd
    simp only [lower, hk, if_true, Option.some.injEq] at hl
    subst hl
    refine ⟨?_, rfl, rfl, rfl, rfl⟩
    simp only [exec64, execD, Alu.eval, Op2.val, sext_set]
    congr 1
    simp only [sextRegs, srliw, low_sext]
  | slliw rd rs k =>
    have hk : k < 32 := by simpa [isData] using hd
    simp only [lower, hk, if_true, Option.some.injEq] at hl
    subst hl
    refine ⟨?_, rfl, rfl, rfl, rfl⟩
    simp only [exec64, execD, Alu.eval, Op2.val, sext_set]
    congr 1
    simp only [sextRegs, slliw, low_sext]
  | xor rd rs rt =>
    simp only [lower, Option.some.injEq] at hl
    subst hl
    refine ⟨?_, rfl, rfl, rfl, rfl⟩
    simp only [exec64, execD, Alu.eval, Op2.val, sext_set]
    congr 1
    simp only [sextRegs, xor_sext]
  | and rd rs rt =>
    simp only [lower, Option.some.injEq] at hl
    subst hl
    refine ⟨?_, rfl, rfl, rfl, rfl⟩
    simp only [exec64, execD, Alu.eval, Op2.val, sext_set]
    congr 1
    simp only [sextRegs, and_sext]
  | _ => simp [isData] at hd

/-- **any straight-line block of data instructions**: 64-bit execution on sign-extended registers = sign extension of the 32-bit machine's execution of the lowered block -/
theorem data_block (blk : List I) : ∀ (blk' : List Instr) (d : D), blk.all isData = true → lowerAll blk = some blk' →
    blk.foldl exec64 (sextRegs d.r) = sextRegs (blk'.foldl execD d).r ∧ (blk'.foldl execD d).mem = d.mem ∧ (blk'.foldl execD d).stk = d.stk := by
  induction blk with
  | nil =>
    intro blk' d _ hl
    simp only [lowerAll, List.mapM_nil] at hl
    cases hl
    exact ⟨rfl, rfl, rfl⟩
  | cons i rest ih =>
    intro blk' d ha hl
    simp only [List.all_cons, Bool.and_eq_true] at ha
    simp only [lowerAll, List.mapM_cons] at hl
    cases hi : lower i with
    | none => rw [hi] at hl; simp at hl
    | some i' =>
      rw [hi] at hl
      cases hr : List.mapM lower rest with
      | none => rw [hr] at hl; simp at hl
      | some rest' =>
        rw [hr] at hl
        have : blk' = i' :: rest' := by simpa using hl.symm
        subst this
        obtain ⟨h1, h2, h3, _, _⟩ := data_step d i i' ha.1 hi
        obtain ⟨g1, g2, g3⟩ := ih rest' (execD d i') ha.2 hr
        simp only [List.foldl_cons]
        rw [h1]
        exact ⟨g1, g2.trans h2, g3.trans h3⟩

/-- the low words of a 64-bit execution of a data block are the 32-bit machine's registers -/
theorem data_block_low (blk : List I) (blk' : List Instr) (d : D) (ha : blk.all isData = true) (hl : lowerAll blk = some blk') (x : Reg) :
    low (blk.foldl exec64 (sextRegs d.r) x) = (blk'.foldl execD d).r.get x := by
  rw [(data_block blk blk' d ha hl).1]
  exact low_sext _

end TJ.Asm.RV64
