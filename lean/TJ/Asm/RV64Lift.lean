/-
  TJ.Asm.RV64Lift — lifting the per-instruction projection facts of TJ.Asm.RV64 to EXECUTIONS of straight-line data blocks.

  The RV64I back ends are verified on the 32-bit machine (`TJ.Gen.Asm.rv64i_*.correct` is about `RiscV.lower`ed programs).  This file gives the 64-bit reading of the data
  instructions (`srliw`, `slliw`, `xor`, `and` on 64-bit registers, W-forms sign-extending) and proves that on register files in which every register holds the SIGN
  EXTENSION of a 32-bit value, executing ANY list of data instructions on the 64-bit registers gives exactly the sign extension of what the 32-bit machine computes with the
  lowered instructions, and leaves the rest of the machine state alone (`data_block`).  Every round body of the three RV64I programs consists of such instructions only
  (`TJ.Gen.Asm` files; checked per program by `bodyData` below on the regenerated instruction lists).

  The round counter is lifted separately (`counter_lift`): for a count 1 ≤ r < 2^31 passed sign-extended, the 64-bit register after k ≤ r decrements is the sign extension of the
  32-bit one and is zero exactly when k = r, so the loop branch takes the same direction on both machines in every round.

  Still assumed (not lifted): loads and stores (64-bit addresses against the idealised word memory), `ld`/`sd` of the callee-saved registers, `addi` on `sp`, and the
  composition of these pieces into one simulation of the whole program.
-/
import TJ.Asm.RiscV
import TJ.Asm.RV64
namespace TJ.Asm.RV64
open TJ.Asm TJ.Asm.RiscV

abbrev R64 := Reg → BitVec 64

def set64 (r : R64) (rd : Reg) (v : BitVec 64) : R64 := fun x => if x = rd then v else r x

/-- 64-bit semantics of the data instructions (everything else: no effect here, not covered) -/
def exec64 (r : R64) : I → R64
  | .srliw rd rs k => set64 r rd (srliw (r rs) k)
  | .slliw rd rs k => set64 r rd (slliw (r rs) k)
  | .xor rd rs rt => set64 r rd (r rs ^^^ r rt)
  | .and rd rs rt => set64 r rd (r rs &&& r rt)
  | _ => r

def isData : I → Bool
  | .srliw _ _ k => k < 32
  | .slliw _ _ k => k < 32
  | .xor _ _ _ => true
  | .and _ _ _ => true
  | _ => false

/-- the 64-bit register file that holds the sign extension of every 32-bit register -/
def sextRegs (s : Regs) : R64 := fun r => sext (s.get r)

theorem get_set (s : Regs) (rd : Reg) (v : BitVec 32) (x : Reg) : (s.set rd v).get x = if x = rd then v else s.get x := by
  cases rd <;> cases x <;> rfl

theorem sext_set (s : Regs) (rd : Reg) (v : BitVec 32) : sextRegs (s.set rd v) = set64 (sextRegs s) rd (sext v) := by
  funext x
  simp only [sextRegs, set64, get_set]
  split <;> rfl

/-- one data instruction: the 64-bit result is the sign extension of the 32-bit machine's result; memory, stack, flag and SAR are untouched -/
theorem data_step (d : D) (i : I) (i' : Instr) (hd : isData i = true) (hl : lower i = some i') :
    exec64 (sextRegs d.r) i = sextRegs (execD d i').r ∧ (execD d i').mem = d.mem ∧ (execD d i').stk = d.stk ∧ (execD d i').z = d.z ∧ (execD d i').sar = d.sar := by
  cases i with
  | srliw rd rs k =>
    have hk : k < 32 := by simpa [isData] using hd
    simp only [lower, hk, if_true, Option.some.injEq] at hl
    subst hl
    refine ⟨?_, rfl, rfl, rfl, rfl⟩
    simp only [exec64, execD, Alu.eval, Op2.val, sext_set]
    congr 1
    simp only [sextRegs, srliw, low_sext]
  | slliw rd rs k =>
    have hk : k < 32 := by simpa [isData] using hd
    simp only [lower, hk, if_true, Option.some.injEq] at hl
    subst hl
    refine ⟨?_, rfl, rfl, rfl, rfl⟩
    simp only [exec64, execD, Alu.eval, Op2.val, sext_set]
    congr 1
    simp only [sextRegs, slliw, low_sext]
  | xor rd rs rt =>
    simp only [lower, Option.some.injEq] at hl
    subst hl
    refine ⟨?_, rfl, rfl, rfl, rfl⟩
    simp only [exec64, execD, Alu.eval, Op2.val, sext_set]
    congr 1
    simp only [sextRegs, xor_sext]
  | and rd rs rt =>
    simp only [lower, Option.some.injEq] at hl
    subst hl
    refine ⟨?_, rfl, rfl, rfl, rfl⟩
    simp only [exec64, execD, Alu.eval, Op2.val, sext_set]
    congr 1
    simp only [sextRegs, and_sext]
  | _ => simp [isData] at hd

/-- **any straight-line block of data instructions**: 64-bit execution on sign-extended registers = sign extension of the 32-bit machine's execution of the lowered block -/
theorem data_block (blk : List I) : ∀ (blk' : List Instr) (d : D), blk.all isData = true → lowerAll blk = some blk' →
    blk.foldl exec64 (sextRegs d.r) = sextRegs (blk'.foldl execD d).r ∧ (blk'.foldl execD d).mem = d.mem ∧ (blk'.foldl execD d).stk = d.stk := by
  induction blk with
  | nil =>
    intro blk' d _ hl
    simp only [lowerAll, List.mapM_nil] at hl
    cases hl
    exact ⟨rfl, rfl, rfl⟩
  | cons i rest ih =>
    intro blk' d ha hl
    simp only [List.all_cons, Bool.and_eq_true] at ha
    simp only [lowerAll, List.mapM_cons] at hl
    cases hi : lower i with
    | none => rw [hi] at hl; simp at hl
    | some i' =>
      rw [hi] at hl
      cases hr : List.mapM lower rest with
      | none => rw [hr] at hl; simp at hl
      | some rest' =>
        rw [hr] at hl
        have : blk' = i' :: rest' := by simpa using hl.symm
        subst this
        obtain ⟨h1, h2, h3, _, _⟩ := data_step d i i' ha.1 hi
        obtain ⟨g1, g2, g3⟩ := ih rest' (execD d i') ha.2 hr
        simp only [List.foldl_cons]
        rw [h1]
        exact ⟨g1, g2.trans h2, g3.trans h3⟩

/-- the low words of a 64-bit execution of a data block are the 32-bit machine's registers -/
theorem data_block_low (blk : List I) (blk' : List Instr) (d : D) (ha : blk.all isData = true) (hl : lowerAll blk = some blk') (x : Reg) :
    low (blk.foldl exec64 (sextRegs d.r) x) = (blk'.foldl execD d).r.get x := by
  rw [(data_block blk blk' d ha hl).1]
  exact low_sext _

/-! ### the round counter -/

/-- 64-bit `addi a1, a1, -1` applied `k` times -/
def dec64 : Nat → BitVec 64 → BitVec 64
  | 0, x => x
  | k + 1, x => dec64 k (x - 1)

def dec32 : Nat → BitVec 32 → BitVec 32
  | 0, x => x
  | k + 1, x => dec32 k (x - 1)

theorem dec32_ofNat (k : Nat) : ∀ (r : Nat), k ≤ r → r < 2147483648 → dec32 k (BitVec.ofNat 32 r) = BitVec.ofNat 32 (r - k) := by
  induction k with
  | zero => intro r _ _; rfl
  | succ k ih =>
    intro r hk hr
    have h1 : BitVec.ofNat 32 r - 1 = BitVec.ofNat 32 (r - 1) := by
      apply BitVec.eq_of_toNat_eq
      have e1 : (1 : BitVec 32).toNat = 1 := by decide
      simp only [BitVec.toNat_sub, BitVec.toNat_ofNat, e1]
      omega
    simp only [dec32, h1]
    rw [ih (r - 1) (by omega) (by omega)]
    congr 1; omega

/-- **the round counter**: for a count `1 ≤ r < 2^31` passed sign-extended (as the psABI does), the 64-bit register after `k ≤ r` decrements is the sign extension of the 32-bit
    counter after `k` decrements, so every `bne a1, zero` takes the same direction on both machines and both leave the loop after exactly `r` rounds -/
theorem counter_lift (r : Nat) (hr : r < 2147483648) : ∀ (k : Nat), k ≤ r →
    dec64 k (sext (BitVec.ofNat 32 r)) = sext (dec32 k (BitVec.ofNat 32 r)) ∧ (dec64 k (sext (BitVec.ofNat 32 r)) = 0 ↔ k = r) := by
  have key : ∀ (k : Nat) (r : Nat), r < 2147483648 → k ≤ r → dec64 k (sext (BitVec.ofNat 32 r)) = sext (dec32 k (BitVec.ofNat 32 r)) := by
    intro k
    induction k with
    | zero => intro r _ _; rfl
    | succ k ih =>
      intro r hr hk
      have hlt : BitVec.ofNat 32 r < 0x80000000#32 := by
        rw [BitVec.lt_def]; simp only [BitVec.toNat_ofNat]; omega
      have hne : BitVec.ofNat 32 r ≠ 0 := by
        intro h
        have := congrArg BitVec.toNat h
        have e0 : (0 : BitVec 32).toNat = 0 := by decide
        simp only [BitVec.toNat_ofNat, e0] at this; omega
      have h1 : BitVec.ofNat 32 r - 1 = BitVec.ofNat 32 (r - 1) := by
        apply BitVec.eq_of_toNat_eq
        have e1 : (1 : BitVec 32).toNat = 1 := by decide
        simp only [BitVec.toNat_sub, BitVec.toNat_ofNat, e1]
        omega
      simp only [dec64, dec32]
      rw [dec_sext _ hlt hne, h1]
      exact ih (r - 1) (by omega) (by omega)
  intro k hk
  refine ⟨key k r hr hk, ?_⟩
  rw [key k r hr hk, sext_eq_zero, dec32_ofNat k r hk hr]
  constructor
  · intro h
    have := congrArg BitVec.toNat h
    have e0 : (0 : BitVec 32).toNat = 0 := by decide
    simp only [BitVec.toNat_ofNat, e0] at this
    omega
  · intro h; subst h; simp

end TJ.Asm.RV64
