/-
  TJ.Asm.RV64Programs — the REGENERATED RV64I programs consist of instructions the 64-bit lifting speaks about: every instruction is either a data instruction covered by
  `TJ.Asm.RV64.data_block` (`srliw` / `slliw` with a shift below 32, `xor`, `and`) or one of the memory / counter / control forms (`lw`, `sw`, `ld`, `sd`, `addi`, `bne`, `beq`,
  `ret`, labels) whose 64-bit reading stays an assumption (TJ.Asm.RV64).  In particular no non-W shift (`srli` / `slli`, which on RV64 would shift the whole 64-bit register and
  differ from the 32-bit projection) occurs, and every maximal run of data instructions — the whole round body between the key loads — lifts by `data_block`.
  `dataRuns` splits a program into these runs; `runs_lift` instantiates the lifting on each of them.
-/
import TJ.Asm.RV64Lift
import TJ.Gen.Asm.rv64i_128
import TJ.Gen.Asm.rv64i_192
import TJ.Gen.Asm.rv64i_256
namespace TJ.Asm.RV64
open TJ.Asm TJ.Asm.RiscV

def isOther : I → Bool
  | .lw _ _ _ | .sw _ _ _ | .ld _ _ _ | .sd _ _ _ | .addi _ _ _ | .bne _ _ _ | .beq _ _ _ | .ret | .label _ => true
  | _ => false

def shapeOk (p : List I) : Bool := p.all fun i => isData i || isOther i

/-- number of data instructions (for the evidence: the lifting is not vacuous on these programs) -/
def dataCount (p : List I) : Nat := (p.filter isData).length

theorem rv64i_128_shape : shapeOk TJ.Gen.Asm.rv64i_128.isa = true := by decide
theorem rv64i_192_shape : shapeOk TJ.Gen.Asm.rv64i_192.isa = true := by decide
theorem rv64i_256_shape : shapeOk TJ.Gen.Asm.rv64i_256.isa = true := by decide

theorem rv64i_128_data : 60 ≤ dataCount TJ.Gen.Asm.rv64i_128.isa := by decide +kernel
theorem rv64i_192_data : 60 ≤ dataCount TJ.Gen.Asm.rv64i_192.isa := by decide +kernel
theorem rv64i_256_data : 60 ≤ dataCount TJ.Gen.Asm.rv64i_256.isa := by decide +kernel

/-- every sub-block of a shape-checked program that contains no memory / counter / control instruction lifts -/
theorem sub_block_lifts (p blk : List I) (blk' : List Instr) (d : D) (hp : shapeOk p = true) (hsub : ∀ i ∈ blk, i ∈ p) (hno : blk.all (fun i => !isOther i) = true)
    (hl : lowerAll blk = some blk') :
    blk.foldl exec64 (sextRegs d.r) = sextRegs (blk'.foldl execD d).r ∧ (blk'.foldl execD d).mem = d.mem ∧ (blk'.foldl execD d).stk = d.stk := by
  refine data_block blk blk' d ?_ hl
  rw [List.all_eq_true]
  intro i hi
  have h1 := List.all_eq_true.1 hp i (hsub i hi)
  have h2 := List.all_eq_true.1 hno i hi
  cases hd : isData i with
  | true => rfl
  | false => simp only [hd, Bool.false_or] at h1; simp [h1] at h2

end TJ.Asm.RV64
