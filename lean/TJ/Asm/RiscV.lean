/-
  TJ.Asm.RiscV — the RV32 instructions that occur in the TinyJAMBU back ends, mapped onto TJ.Asm.Machine.
  This file is this project's reading of the RISC-V unprivileged ISA for those instructions (trusted).
  Register numbering: x0 = zero, x1 = ra, x2 = sp, x5-x7 = t0-t2, x8 = s0, x9 = s1, x10-x17 = a0-a7,
  x18-x27 = s2-s11, x28-x31 = t3-t6.  Reads of `zero` are the constant 0; the translated programs
  never write it.
  Immediates and offsets are given as 32-bit two's-complement literals by the translator.
-/
import TJ.Asm.Machine
namespace TJ.Asm.RiscV

inductive I
  | lw (rd : Reg) (off : BitVec 32) (base : Reg)
  | sw (rs : Reg) (off : BitVec 32) (base : Reg)
  | srli (rd rs : Reg) (k : Nat)
  | slli (rd rs : Reg) (k : Nat)
  /-- RV64 only: `srliw`/`slliw` (32-bit shift of the low word, result sign-extended), `ld`/`sd` of a stack slot.
      On the 32-bit projection of the machine (TJ.Asm.RV64) they act as `srli`/`slli`/`lw`/`sw`. -/
  | srliw (rd rs : Reg) (k : Nat)
  | slliw (rd rs : Reg) (k : Nat)
  | ld (rd : Reg) (off : BitVec 32) (base : Reg)
  | sd (rs : Reg) (off : BitVec 32) (base : Reg)
  | xor (rd rs rt : Reg)
  | and (rd rs rt : Reg)
  | addi (rd rs : Reg) (imm : Int)
  | bne (rs rt : Reg) (label : Nat)     -- only used with rt = zero
  | beq (rs rt : Reg) (label : Nat)     -- only used with rt = zero
  | ret
  | label (n : Nat)
  deriving DecidableEq, Repr

def sp : Reg := .x2
def zero : Reg := .x0

def space (base : Reg) : Space := if base = sp then .stk else .mem

/-- `none` = an operand form outside what this reading covers (the translation then fails to check) -/
def lower : I → Option Instr
  | .lw rd off base => some (.ldr rd base off (space base))
  | .sw rs off base => some (.str rs base off (space base))
  | .srli rd rs k => if k < 32 then some (.alu .mov false rd rd (.lsr rs k)) else none
  | .srliw rd rs k => if k < 32 then some (.alu .mov false rd rd (.lsr rs k)) else none
  | .slliw rd rs k => if k < 32 then some (.alu .mov false rd rd (.lsl rs k)) else none
  | .ld rd off base => if base = sp then some (.ldr rd base off .stk) else none
  | .sd rs off base => if base = sp then some (.str rs base off .stk) else none
  | .slli rd rs k => if k < 32 then some (.alu .mov false rd rd (.lsl rs k)) else none
  | .xor rd rs rt => some (.alu .xor false rd rs (.reg rt))
  | .and rd rs rt => some (.alu .and false rd rs (.reg rt))
  | .addi rd rs imm =>
    -- rs + sext(imm); a negative immediate is written as a subtraction so that no large literal appears
    if imm < 0 then some (.alu .sub false rd rs (.imm (BitVec.ofNat 32 (-imm).toNat)))
    else some (.alu .add false rd rs (.imm (BitVec.ofNat 32 imm.toNat)))
  | .bne rs rt l => if rt = zero then some (.bnz rs l) else none
  | .beq rs rt l => if rt = zero then some (.bz rs l) else none
  | .ret => some .ret
  | .label n => some (.label n)

def lowerAll (l : List I) : Option Prog := l.mapM lower

end TJ.Asm.RiscV
