/-
  TJ.Asm.Arm — the ARM / Thumb instructions that occur in the TinyJAMBU back ends (ARMv6 ARM mode,
  ARMv6-M Thumb-1, ARMv7-M Thumb-2), mapped onto TJ.Asm.Machine.  This file is this project's reading
  of the ARM architecture manual for those instructions (trusted).
  Registers: r0-r12 = x0-x12 (ip = r12, fp = r11), sp = x13, lr = x14, pc = x15.
  `push {list}` stores the listed registers at ascending addresses below the stack pointer (lowest
  register number at the lowest address) and decrements sp; `pop {list}` is the inverse; `pop {…, pc}`
  loads the return address and returns (the theorem checks that the loaded value is the caller's lr).
  The S-suffixed forms set the Z flag from the result (N, C, V are not modelled: nothing reads them).
-/
import TJ.Asm.Machine
namespace TJ.Asm.Arm

inductive Sh | none | lsl (k : Nat) | lsr (k : Nat)
  deriving DecidableEq, Repr

inductive I
  | eor (s : Bool) (rd rn rm : Reg) (sh : Sh)   -- rd := rn ^ shift(rm)
  | and (s : Bool) (rd rn rm : Reg)
  | lsr (s : Bool) (rd rm : Reg) (k : Nat)
  | lsl (s : Bool) (rd rm : Reg) (k : Nat)
  | mov (rd rm : Reg)
  | subs (rd rn : Reg) (imm : Nat)
  | ldr (rd rn : Reg) (off : Nat)
  | str (rs rn : Reg) (off : Nat)
  | push (regs : List Reg)
  | pop (regs : List Reg)
  | bne (label : Nat)
  | beq (label : Nat)
  | b (label : Nat)
  | bxlr
  | label (n : Nat)
  deriving DecidableEq, Repr

def sp : Reg := .x13
def pc : Reg := .x15

def space (base : Reg) : Space := if base = sp then .stk else .mem

def op2 (rm : Reg) : Sh → Option Op2
  | .none => some (.reg rm)
  | .lsl k => if 0 < k ∧ k < 32 then some (.lsl rm k) else none
  | .lsr k => if 0 < k ∧ k < 32 then some (.lsr rm k) else none

/-- stores of `push`: register i of the list at [sp + 4i] after sp has been lowered -/
def pushStores : List Reg → Nat → List Instr
  | [], _ => []
  | r :: rs, i => .str r sp (BitVec.ofNat 32 (4 * i)) .stk :: pushStores rs (i + 1)

def popLoads : List Reg → Nat → List Instr
  | [], _ => []
  | r :: rs, i => .ldr r sp (BitVec.ofNat 32 (4 * i)) .stk :: popLoads rs (i + 1)

def lower : I → Option (List Instr)
  | .eor s rd rn rm sh => (op2 rm sh).map fun o => [.alu .xor s rd rn o]
  | .and s rd rn rm => some [.alu .and s rd rn (.reg rm)]
  | .lsr s rd rm k => if 0 < k ∧ k < 32 then some [.alu .mov s rd rd (.lsr rm k)] else none
  | .lsl s rd rm k => if 0 < k ∧ k < 32 then some [.alu .mov s rd rd (.lsl rm k)] else none
  | .mov rd rm => some [.alu .mov false rd rd (.reg rm)]
  | .subs rd rn imm => if imm < 256 then some [.alu .sub true rd rn (.imm (BitVec.ofNat 32 imm))] else none
  | .ldr rd rn off => if off < 4096 then some [.ldr rd rn (BitVec.ofNat 32 off) (space rn)] else none
  | .str rs rn off => if off < 4096 then some [.str rs rn (BitVec.ofNat 32 off) (space rn)] else none
  | .push regs =>
    if regs.length < 16 then
      some (.alu .sub false sp sp (.imm (BitVec.ofNat 32 (4 * regs.length))) :: pushStores regs 0)
    else none
  | .pop regs =>
    if regs.length < 16 then
      -- the stack pointer is raised after the loads; if pc is in the list the instruction returns
      some (popLoads regs 0 ++ [.alu .add false sp sp (.imm (BitVec.ofNat 32 (4 * regs.length)))] ++
            (if regs.contains pc then [.ret] else []))
    else none
  | .bne l => some [.bne l]
  | .beq l => some [.beq l]
  | .b l => some [.b l]
  | .bxlr => some [.ret]
  | .label n => some [.label n]

def lowerAll (l : List I) : Option Prog := (l.mapM lower).map List.flatten

end TJ.Asm.Arm
