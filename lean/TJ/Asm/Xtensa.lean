/-
  TJ.Asm.Xtensa — the Xtensa instructions that occur in the TinyJAMBU back ends, mapped onto
  TJ.Asm.Machine.  This project's reading of the Xtensa ISA for those instructions (trusted).
  Registers a0-a15 = x0-x15 (a0 = return address, a1 = sp).
  `ssai k` sets the shift-amount register; `src ar, as, at` = low 32 bits of ((as:at) >> SAR).
  Windowed ABI: `entry sp, n` is modelled as "sp := sp - n in the callee's register window" and
  `retw.n` as a return; that the caller's registers survive is a property of the register-window
  mechanism and is not modelled (the callee may use a2-a15 freely).  CALL0 ABI: a12-a15, sp and a0
  must be preserved, which the theorem checks.
-/
import TJ.Asm.Machine
namespace TJ.Asm.Xtensa

inductive I
  | entry (n : Nat)                       -- entry sp, n
  | addi (rd rs : Reg) (imm : Int)
  | s32i (rs base : Reg) (off : Nat)
  | l32i (rd base : Reg) (off : Nat)
  | ssai (k : Nat)
  | src (rd rs rt : Reg)
  | xor (rd rs rt : Reg)
  | and (rd rs rt : Reg)
  | beqi (rs : Reg) (imm : Int) (label : Nat)    -- only imm = 0 occurs
  | bnei (rs : Reg) (imm : Int) (label : Nat)
  | retw
  | ret
  | label (n : Nat)
  deriving DecidableEq, Repr

def sp : Reg := .x1
def space (base : Reg) : Space := if base = sp then .stk else .mem

def lower : I → Option Instr
  | .entry n => if n < 32768 then some (.alu .sub false sp sp (.imm (BitVec.ofNat 32 n))) else none
  | .addi rd rs imm =>
    if imm < 0 then some (.alu .sub false rd rs (.imm (BitVec.ofNat 32 (-imm).toNat)))
    else some (.alu .add false rd rs (.imm (BitVec.ofNat 32 imm.toNat)))
  | .s32i rs base off => if off < 1024 then some (.str rs base (BitVec.ofNat 32 off) (space base)) else none
  | .l32i rd base off => if off < 1024 then some (.ldr rd base (BitVec.ofNat 32 off) (space base)) else none
  | .ssai k => if k < 32 then some (.ssai k) else none
  | .src rd rs rt => some (.src rd rs rt)
  | .xor rd rs rt => some (.alu .xor false rd rs (.reg rt))
  | .and rd rs rt => some (.alu .and false rd rs (.reg rt))
  | .beqi rs imm l => if imm = 0 then some (.bz rs l) else none
  | .bnei rs imm l => if imm = 0 then some (.bnz rs l) else none
  | .retw => some .ret
  | .ret => some .ret
  | .label n => some (.label n)

def lowerAll (l : List I) : Option Prog := l.mapM lower

end TJ.Asm.Xtensa
