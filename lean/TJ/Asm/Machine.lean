/-
  TJ.Asm.Machine — one small register machine (32 registers of 32 bits, word memory, separate stack
  space, a zero flag, the Xtensa shift-amount register) with a program-counter semantics.  The RISC-V,
  ARM/Thumb and Xtensa instructions that occur in the TinyJAMBU back ends are mapped onto its
  instructions by TJ.Asm.{RiscV,Arm,Xtensa} (the mapping is this project's reading of those ISAs and is
  part of the trusted base).

  Idealisations (stated once): memory is a map from byte addresses to 32-bit words, so two accesses
  interfere only when their addresses are equal (sound for 4-aligned addresses; every access of the
  translated programs is base + 4k with base the state pointer or the stack pointer, both assumed
  aligned); accesses through the stack pointer go to a separate space (the stack does not overlap
  the state object).
  (generated boilerplate for the 32 register names)
-/
import Std.Tactic.BVDecide
namespace TJ.Asm

inductive Reg
  | x0 | x1 | x2 | x3 | x4 | x5 | x6 | x7 | x8 | x9 | x10 | x11 | x12 | x13 | x14 | x15 | x16 | x17 | x18 | x19 | x20 | x21 | x22 | x23 | x24 | x25 | x26 | x27 | x28 | x29 | x30 | x31
  deriving DecidableEq, Repr, Inhabited

structure Regs where
  x0 : BitVec 32
  x1 : BitVec 32
  x2 : BitVec 32
  x3 : BitVec 32
  x4 : BitVec 32
  x5 : BitVec 32
  x6 : BitVec 32
  x7 : BitVec 32
  x8 : BitVec 32
  x9 : BitVec 32
  x10 : BitVec 32
  x11 : BitVec 32
  x12 : BitVec 32
  x13 : BitVec 32
  x14 : BitVec 32
  x15 : BitVec 32
  x16 : BitVec 32
  x17 : BitVec 32
  x18 : BitVec 32
  x19 : BitVec 32
  x20 : BitVec 32
  x21 : BitVec 32
  x22 : BitVec 32
  x23 : BitVec 32
  x24 : BitVec 32
  x25 : BitVec 32
  x26 : BitVec 32
  x27 : BitVec 32
  x28 : BitVec 32
  x29 : BitVec 32
  x30 : BitVec 32
  x31 : BitVec 32

def Regs.get (s : Regs) : Reg → BitVec 32
  | .x0 => s.x0
  | .x1 => s.x1
  | .x2 => s.x2
  | .x3 => s.x3
  | .x4 => s.x4
  | .x5 => s.x5
  | .x6 => s.x6
  | .x7 => s.x7
  | .x8 => s.x8
  | .x9 => s.x9
  | .x10 => s.x10
  | .x11 => s.x11
  | .x12 => s.x12
  | .x13 => s.x13
  | .x14 => s.x14
  | .x15 => s.x15
  | .x16 => s.x16
  | .x17 => s.x17
  | .x18 => s.x18
  | .x19 => s.x19
  | .x20 => s.x20
  | .x21 => s.x21
  | .x22 => s.x22
  | .x23 => s.x23
  | .x24 => s.x24
  | .x25 => s.x25
  | .x26 => s.x26
  | .x27 => s.x27
  | .x28 => s.x28
  | .x29 => s.x29
  | .x30 => s.x30
  | .x31 => s.x31

def Regs.set (s : Regs) (r : Reg) (v : BitVec 32) : Regs :=
  match r with
  | .x0 => { s with x0 := v }
  | .x1 => { s with x1 := v }
  | .x2 => { s with x2 := v }
  | .x3 => { s with x3 := v }
  | .x4 => { s with x4 := v }
  | .x5 => { s with x5 := v }
  | .x6 => { s with x6 := v }
  | .x7 => { s with x7 := v }
  | .x8 => { s with x8 := v }
  | .x9 => { s with x9 := v }
  | .x10 => { s with x10 := v }
  | .x11 => { s with x11 := v }
  | .x12 => { s with x12 := v }
  | .x13 => { s with x13 := v }
  | .x14 => { s with x14 := v }
  | .x15 => { s with x15 := v }
  | .x16 => { s with x16 := v }
  | .x17 => { s with x17 := v }
  | .x18 => { s with x18 := v }
  | .x19 => { s with x19 := v }
  | .x20 => { s with x20 := v }
  | .x21 => { s with x21 := v }
  | .x22 => { s with x22 := v }
  | .x23 => { s with x23 := v }
  | .x24 => { s with x24 := v }
  | .x25 => { s with x25 := v }
  | .x26 => { s with x26 := v }
  | .x27 => { s with x27 := v }
  | .x28 => { s with x28 := v }
  | .x29 => { s with x29 := v }
  | .x30 => { s with x30 := v }
  | .x31 => { s with x31 := v }

inductive Space | mem | stk
  deriving DecidableEq, Repr

/-- machine data state -/
structure D where
  r : Regs
  mem : BitVec 32 → BitVec 32
  stk : BitVec 32 → BitVec 32
  z : Bool
  sar : Nat

inductive Op2
  | reg (r : Reg)
  | imm (v : BitVec 32)
  | lsl (r : Reg) (k : Nat)
  | lsr (r : Reg) (k : Nat)
  deriving DecidableEq, Repr

inductive Alu | xor | and | or | add | sub | mov | mvn
  deriving DecidableEq, Repr

inductive Instr
  | alu (op : Alu) (setFlags : Bool) (rd rn : Reg) (o : Op2)
  | ldr (rd base : Reg) (off : BitVec 32) (sp : Space)
  | str (rs base : Reg) (off : BitVec 32) (sp : Space)
  | ssai (k : Nat)                       -- Xtensa: SAR := k
  | src (rd rs rt : Reg)                 -- Xtensa: rd := low 32 bits of ((rs:rt) >> SAR)
  | bnz (r : Reg) (label : Nat)          -- branch if register ≠ 0
  | bz (r : Reg) (label : Nat)           -- branch if register = 0
  | bne (label : Nat)                    -- branch if Z flag clear
  | beq (label : Nat)                    -- branch if Z flag set
  | b (label : Nat)
  | ret
  | label (n : Nat)                      -- a label line: no effect
  deriving DecidableEq, Repr

def Op2.val (s : Regs) : Op2 → BitVec 32
  | .reg r => s.get r
  | .imm v => v
  | .lsl r k => s.get r <<< k
  | .lsr r k => s.get r >>> k

def Alu.eval : Alu → BitVec 32 → BitVec 32 → BitVec 32
  | .xor, a, b => a ^^^ b
  | .and, a, b => a &&& b
  | .or, a, b => a ||| b
  | .add, a, b => a + b
  | .sub, a, b => a - b
  | .mov, _, b => b
  | .mvn, _, b => ~~~ b

/-- memory update at one word address -/
def upd (f : BitVec 32 → BitVec 32) (a v : BitVec 32) : BitVec 32 → BitVec 32 := fun x => if x = a then v else f x

theorem upd_apply (f : BitVec 32 → BitVec 32) (a v x : BitVec 32) : upd f a v x = if x = a then v else f x := rfl

/-- which space an access goes to -/
def Space.sel {α : Type} (sp : Space) (m s : α) : α :=
  match sp with
  | .mem => m
  | .stk => s

@[simp] theorem Space.sel_mem {α : Type} (m s : α) : Space.mem.sel m s = m := rfl
@[simp] theorem Space.sel_stk {α : Type} (m s : α) : Space.stk.sel m s = s := rfl

/-- data effect of an instruction (control instructions have none) -/
def execD (d : D) : Instr → D
  | .alu op sf rd rn o =>
    { d with r := d.r.set rd (op.eval (d.r.get rn) (o.val d.r)),
             z := if sf then decide (op.eval (d.r.get rn) (o.val d.r) = 0) else d.z }
  | .ldr rd base off sp => { d with r := d.r.set rd (sp.sel (d.mem (d.r.get base + off)) (d.stk (d.r.get base + off))) }
  | .str rs base off sp =>
    { d with mem := sp.sel (upd d.mem (d.r.get base + off) (d.r.get rs)) d.mem,
             stk := sp.sel d.stk (upd d.stk (d.r.get base + off) (d.r.get rs)) }
  | .ssai k => { d with sar := k }
  | .src rd rs rt =>
    { d with r := d.r.set rd (((d.r.get rs ++ d.r.get rt) >>> d.sar).truncate 32) }
  | .bnz _ _ => d
  | .bz _ _ => d
  | .bne _ => d
  | .beq _ => d
  | .b _ => d
  | .ret => d
  | .label _ => d

def Instr.isCtl : Instr → Bool
  | .bnz _ _ | .bz _ _ | .bne _ | .beq _ | .b _ | .ret => true
  | _ => false

/-- machine configuration: data, program counter, returned? -/
structure Cfg where
  d : D
  pc : Nat
  done : Bool

abbrev Prog := List Instr

/-- index of the line `label n` -/
def findLabel (p : Prog) (n : Nat) : Nat := p.findIdx (· == .label n)

def step (p : Prog) (c : Cfg) : Cfg :=
  if c.done then c else
  match p[c.pc]? with
  | none => { c with done := true }       -- falling off the end: treated as return (never happens in checked programs)
  | some i =>
    match i with
    | .bnz r l => if c.d.r.get r ≠ 0 then { c with pc := findLabel p l } else { c with pc := c.pc + 1 }
    | .bz r l => if c.d.r.get r = 0 then { c with pc := findLabel p l } else { c with pc := c.pc + 1 }
    | .bne l => if c.d.z then { c with pc := c.pc + 1 } else { c with pc := findLabel p l }
    | .beq l => if c.d.z then { c with pc := findLabel p l } else { c with pc := c.pc + 1 }
    | .b l => { c with pc := findLabel p l }
    | .ret => { c with done := true }
    | i => { c with d := execD c.d i, pc := c.pc + 1 }

def run (p : Prog) : Nat → Cfg → Cfg
  | 0, c => c
  | n+1, c => run p n (step p c)

theorem run_add (p : Prog) (a b : Nat) (c : Cfg) : run p (a + b) c = run p b (run p a c) := by
  induction a generalizing c with
  | zero => simp [run]
  | succ a ih => rw [Nat.succ_add]; simp only [run]; exact ih _

/-- a straight-line block: `blk` sits at `pc`, none of it is a control instruction -/
theorem run_block (p : Prog) (blk : List Instr) (d : D) (pc : Nat)
    (hf : ∀ i, (h : i < blk.length) → p[pc + i]? = some blk[i])
    (hc : ∀ i ∈ blk, i.isCtl = false) :
    run p blk.length ⟨d, pc, false⟩ = ⟨blk.foldl execD d, pc + blk.length, false⟩ := by
  induction blk generalizing d pc with
  | nil => rfl
  | cons i rest ih =>
    have h0 := hf 0 (by simp)
    simp only [Nat.add_zero, List.getElem_cons_zero] at h0
    have hci := hc i (by simp)
    have hs : step p ⟨d, pc, false⟩ = ⟨execD d i, pc + 1, false⟩ := by
      simp only [step, h0]
      cases i <;> simp_all [Instr.isCtl]
    simp only [List.length_cons, run, hs, List.foldl_cons]
    rw [ih (execD d i) (pc + 1)]
    · congr 1; omega
    · intro j hj
      have := hf (j + 1) (by simp; omega)
      simp only [List.getElem_cons_succ] at this
      rw [← this]; congr 1; omega
    · intro j hj; exact hc j (by simp [hj])

end TJ.Asm

namespace TJ.Asm

theorem fetch_of_slice (p : Prog) (blk : List Instr) (pc : Nat) (hs : (p.drop pc).take blk.length = blk)
    (i : Nat) (h : i < blk.length) : p[pc + i]? = some blk[i] := by
  have h1 : ((p.drop pc).take blk.length)[i]? = blk[i]? := by rw [hs]
  rw [List.getElem?_take, if_pos h, List.getElem?_drop] at h1
  rw [h1, List.getElem?_eq_getElem h]

/-- `run_block` with the block given as a slice of the program -/
theorem run_slice (p : Prog) (blk : List Instr) (d : D) (pc : Nat)
    (hs : (p.drop pc).take blk.length = blk) (hc : blk.all (fun i => !i.isCtl) = true) :
    run p blk.length ⟨d, pc, false⟩ = ⟨blk.foldl execD d, pc + blk.length, false⟩ :=
  run_block p blk d pc (fetch_of_slice p blk pc hs) (by
    intro i hi
    have := List.all_eq_true.1 hc i hi
    simpa using this)

/-- a straight-line block followed by one more instruction (a branch) -/
theorem run_slice_then (p : Prog) (blk : List Instr) (d : D) (pc : Nat)
    (hs : (p.drop pc).take blk.length = blk) (hc : blk.all (fun i => !i.isCtl) = true) :
    run p (blk.length + 1) ⟨d, pc, false⟩ = step p ⟨blk.foldl execD d, pc + blk.length, false⟩ := by
  rw [run_add, run_slice p blk d pc hs hc]; rfl

theorem add_neg_one (x : BitVec 32) : x + 1#32 + 0xFFFFFFFF#32 = x := by bv_decide

theorem ofNat_pred (m : Nat) (h1 : 1 ≤ m) : BitVec.ofNat 32 m + 0xFFFFFFFF#32 = BitVec.ofNat 32 (m - 1) := by
  have e : BitVec.ofNat 32 m = BitVec.ofNat 32 (m - 1) + 1#32 := by
    have : m = (m - 1) + 1 := by omega
    conv => lhs; rw [this]
    exact BitVec.ofNat_add _ _
  rw [e, add_neg_one]

theorem ofNat_pred1 (m : Nat) (h1 : 1 ≤ m) : BitVec.ofNat 32 m - 1#32 = BitVec.ofNat 32 (m - 1) := by
  have e : BitVec.ofNat 32 m = BitVec.ofNat 32 (m - 1) + 1#32 := by
    have : m = (m - 1) + 1 := by omega
    conv => lhs; rw [this]
    exact BitVec.ofNat_add _ _
  rw [e]; bv_decide

theorem ofNat_eq_zero_iff (m : Nat) (h : m < 2^32) : BitVec.ofNat 32 m = 0 ↔ m = 0 := by
  constructor
  · intro e
    have := congrArg BitVec.toNat e
    simp at this
    omega
  · rintro rfl; rfl

end TJ.Asm

namespace TJ.Asm

theorem step_bz (p : Prog) (d : D) (pc : Nat) (r : Reg) (l : Nat) (h : p[pc]? = some (.bz r l)) :
    step p ⟨d, pc, false⟩ = ⟨d, if d.r.get r = 0 then findLabel p l else pc + 1, false⟩ := by
  simp only [step, h]
  split
  · simp_all
  · split <;> simp_all

theorem step_bnz (p : Prog) (d : D) (pc : Nat) (r : Reg) (l : Nat) (h : p[pc]? = some (.bnz r l)) :
    step p ⟨d, pc, false⟩ = ⟨d, if d.r.get r = 0 then pc + 1 else findLabel p l, false⟩ := by
  simp only [step, h]
  split
  · simp_all
  · split <;> simp_all

theorem step_beq (p : Prog) (d : D) (pc : Nat) (l : Nat) (h : p[pc]? = some (.beq l)) :
    step p ⟨d, pc, false⟩ = ⟨d, if d.z then findLabel p l else pc + 1, false⟩ := by
  simp only [step, h]
  split
  · simp_all
  · split <;> simp_all

theorem step_bne (p : Prog) (d : D) (pc : Nat) (l : Nat) (h : p[pc]? = some (.bne l)) :
    step p ⟨d, pc, false⟩ = ⟨d, if d.z then pc + 1 else findLabel p l, false⟩ := by
  simp only [step, h]
  split
  · simp_all
  · split <;> simp_all

theorem step_ret (p : Prog) (d : D) (pc : Nat) (h : p[pc]? = some .ret) :
    step p ⟨d, pc, false⟩ = ⟨d, pc, true⟩ := by
  simp only [step, h]; rfl

/-- what the counter test decides: after the decrement the count is `m - 1`, zero exactly when `m = 1` -/
theorem ofNat_pred_eq_zero (m : Nat) (h1 : 1 ≤ m) (h2 : m < 2^32) : BitVec.ofNat 32 (m - 1) = 0 ↔ m = 1 := by
  rw [ofNat_eq_zero_iff _ (by omega)]; omega

end TJ.Asm

namespace TJ.Asm

theorem Regs.get_set_ne (s : Regs) (r r' : Reg) (v : BitVec 32) (h : r ≠ r') : (s.set r v).get r' = s.get r' := by
  cases r <;> cases r' <;> first | rfl | exact absurd rfl h

def Instr.writes : Instr → Option Reg
  | .alu _ _ rd _ _ => some rd
  | .ldr rd _ _ _ => some rd
  | .src rd _ _ => some rd
  | _ => none

def Instr.storesTo : Instr → Option Space
  | .str _ _ _ sp => some sp
  | _ => none

theorem execD_get_unwritten (d : D) (i : Instr) (r : Reg) (h : i.writes ≠ some r) : (execD d i).r.get r = d.r.get r := by
  cases i with
  | alu op sf rd rn o =>
    have : rd ≠ r := fun e => h (by simp [Instr.writes, e])
    simp only [execD]; exact Regs.get_set_ne _ _ _ _ this
  | ldr rd base off sp =>
    have : rd ≠ r := fun e => h (by simp [Instr.writes, e])
    simp only [execD]; exact Regs.get_set_ne _ _ _ _ this
  | src rd rs rt =>
    have : rd ≠ r := fun e => h (by simp [Instr.writes, e])
    simp only [execD]; exact Regs.get_set_ne _ _ _ _ this
  | str rs base off sp => cases sp <;> rfl
  | _ => rfl

/-- a register no instruction of the block writes keeps its value -/
theorem fold_get_unwritten (blk : List Instr) (d : D) (r : Reg) (h : blk.all (fun i => decide (i.writes ≠ some r)) = true) :
    (blk.foldl execD d).r.get r = d.r.get r := by
  induction blk generalizing d with
  | nil => rfl
  | cons i rest ih =>
    simp only [List.all_cons, Bool.and_eq_true, decide_eq_true_eq] at h
    simp only [List.foldl_cons]
    rw [ih _ h.2, execD_get_unwritten _ _ _ h.1]

theorem execD_mem_unchanged (d : D) (i : Instr) (h : i.storesTo ≠ some .mem) : (execD d i).mem = d.mem := by
  cases i with
  | str rs base off sp => cases sp with
    | mem => exact absurd rfl h
    | stk => rfl
  | _ => rfl

theorem execD_stk_unchanged (d : D) (i : Instr) (h : i.storesTo ≠ some .stk) : (execD d i).stk = d.stk := by
  cases i with
  | str rs base off sp => cases sp with
    | stk => exact absurd rfl h
    | mem => rfl
  | _ => rfl

theorem fold_mem_unchanged (blk : List Instr) (d : D) (h : blk.all (fun i => decide (i.storesTo ≠ some .mem)) = true) :
    (blk.foldl execD d).mem = d.mem := by
  induction blk generalizing d with
  | nil => rfl
  | cons i rest ih =>
    simp only [List.all_cons, Bool.and_eq_true, decide_eq_true_eq] at h
    simp only [List.foldl_cons]
    rw [ih _ h.2, execD_mem_unchanged _ _ h.1]

theorem fold_stk_unchanged (blk : List Instr) (d : D) (h : blk.all (fun i => decide (i.storesTo ≠ some .stk)) = true) :
    (blk.foldl execD d).stk = d.stk := by
  induction blk generalizing d with
  | nil => rfl
  | cons i rest ih =>
    simp only [List.all_cons, Bool.and_eq_true, decide_eq_true_eq] at h
    simp only [List.foldl_cons]
    rw [ih _ h.2, execD_stk_unchanged _ _ h.1]

end TJ.Asm

namespace TJ.Asm
theorem run_succ (p : Prog) (n : Nat) (c : Cfg) : run p (n + 1) c = run p n (step p c) := rfl
theorem step_b (p : Prog) (d : D) (pc : Nat) (l : Nat) (h : p[pc]? = some (.b l)) :
    step p ⟨d, pc, false⟩ = ⟨d, findLabel p l, false⟩ := by
  simp only [step, h]; rfl
end TJ.Asm

namespace TJ.Asm
/-- makes `bv_decide` create its auxiliary encoding of the `Reg` and `Space` enumerations here, once, instead of
    in every generated module (two modules defining the same auxiliary name cannot be imported together) -/
theorem reg_enum_seed (a b : Reg) (h : a = b) : b = a := by bv_decide
theorem space_enum_seed (a b : Space) (h : a = b) : b = a := by bv_decide
end TJ.Asm
