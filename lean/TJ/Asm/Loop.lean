/-
  TJ.Asm.Loop — the permutation on four 32-bit bit vectors (the form the assembly proofs use), the
  generic loop theorem ("n round segments per traversal, leave when the counter reaches zero") and the
  bridge to TJ.Impl / TJ.Spec.
-/
import TJ.Asm.Machine
import TJ.Proofs.Perm
namespace TJ.Asm

/-- four state words as bit vectors -/
structure S4 where
  a : BitVec 32
  b : BitVec 32
  c : BitVec 32
  d : BitVec 32
  deriving DecidableEq

/-- one 128-step round with pre-inverted key words, on bit vectors -/
def roundBV (s : S4) (k0 k1 k2 k3 : BitVec 32) : S4 :=
  let a := wordFormula s.a s.b s.c s.d k0
  let b := wordFormula s.b s.c s.d a k1
  let c := wordFormula s.c s.d a b k2
  let d := wordFormula s.d a b c k3
  ⟨a, b, c, d⟩

/-- the round performed at round index `i` with `nk` key words `key 0 … key (nk-1)` (pre-inverted) -/
def roundAtBV (nk : Nat) (key : Nat → BitVec 32) (i : Nat) (s : S4) : S4 :=
  roundBV s (key ((4*i) % nk)) (key ((4*i+1) % nk)) (key ((4*i+2) % nk)) (key ((4*i+3) % nk))

def permBV (nk : Nat) (key : Nat → BitVec 32) : Nat → Nat → S4 → S4
  | _, 0, s => s
  | i, r+1, s => permBV nk key (i+1) r (roundAtBV nk key i s)

def S4.toW4 (s : S4) : W4 := ⟨UInt32.ofBitVec s.a, UInt32.ofBitVec s.b, UInt32.ofBitVec s.c, UInt32.ofBitVec s.d⟩

theorem roundBV_toW4 (s : S4) (k0 k1 k2 k3 : BitVec 32) :
    (roundBV s k0 k1 k2 k3).toW4 =
      round128 s.toW4 (UInt32.ofBitVec k0) (UInt32.ofBitVec k1) (UInt32.ofBitVec k2) (UInt32.ofBitVec k3) := by
  simp only [roundBV, S4.toW4, round128]
  congr 1 <;> (apply UInt32.toBitVec_inj.mp; simp [steps32_toBitVec])

/-- the key words of the bit-vector level as a `Key` of the word-level model -/
def keyList (nk : Nat) (key : Nat → BitVec 32) : Key := (List.range nk).map fun i => UInt32.ofBitVec (key i)

theorem kw_keyList (nk : Nat) (key : Nat → BitVec 32) (i : Nat) (h : i < nk) :
    kw (keyList nk key) i = UInt32.ofBitVec (key i) := by
  simp [kw, keyList, List.getD_eq_getElem?_getD, h]

theorem permBV_toW4 (nk : Nat) (hnk : 0 < nk) (key : Nat → BitVec 32) (i r : Nat) (s : S4) :
    (permBV nk key i r s).toW4 = permGenFrom nk (keyList nk key) i r s.toW4 := by
  induction r generalizing i s with
  | zero => rfl
  | succ r ih =>
    simp only [permBV, permGenFrom]
    rw [ih]
    congr 1
    simp only [roundAtBV, roundAt, roundBV_toW4]
    rw [kw_keyList _ _ _ (Nat.mod_lt _ hnk), kw_keyList _ _ _ (Nat.mod_lt _ hnk),
      kw_keyList _ _ _ (Nat.mod_lt _ hnk), kw_keyList _ _ _ (Nat.mod_lt _ hnk)]

/-- `n` rounds per loop traversal: the key schedule repeats with that period -/
theorem roundAtBV_periodic (nk n : Nat) (hn : (4 * n) % nk = 0) (key : Nat → BitVec 32) (i : Nat) :
    roundAtBV nk key (i + n) = roundAtBV nk key i := by
  funext s
  have e : ∀ t, (4 * (i + n) + t) % nk = (4 * i + t) % nk := by
    intro t
    have : 4 * (i + n) + t = (4 * i + t) + 4 * n := by omega
    rw [this, Nat.add_mod, hn, Nat.add_zero, Nat.mod_mod]
  simp only [roundAtBV]
  have e0 := e 0
  simp only [Nat.add_zero] at e0
  rw [e0, e 1, e 2, e 3]

theorem permBV_shift (nk n : Nat) (hn : (4 * n) % nk = 0) (key : Nat → BitVec 32) (i r : Nat) (s : S4) :
    permBV nk key (i + n) r s = permBV nk key i r s := by
  induction r generalizing i s with
  | zero => rfl
  | succ r ih =>
    simp only [permBV]
    rw [roundAtBV_periodic nk n hn]
    have : i + n + 1 = (i + 1) + n := by omega
    rw [this, ih]

theorem permBV_congr (nk : Nat) (hnk : 0 < nk) (k1 k2 : Nat → BitVec 32) (h : ∀ k, k < nk → k1 k = k2 k) (i r : Nat) (s : S4) :
    permBV nk k1 i r s = permBV nk k2 i r s := by
  induction r generalizing i s with
  | zero => rfl
  | succ r ih =>
    simp only [permBV, roundAtBV]
    rw [h _ (Nat.mod_lt _ hnk), h _ (Nat.mod_lt _ hnk), h _ (Nat.mod_lt _ hnk), h _ (Nat.mod_lt _ hnk), ih]

/-- The generic loop theorem.  `pcs j` is the program counter at which segment `j < n` starts,
    `Inv j d s m`: the machine state `d` holds permutation state `s` and remaining-round count `m`
    when segment `j` starts.  Each segment performs the round of phase `j`, decrements the count, and
    continues with the next segment (cyclically) unless the count has reached zero, in which case
    control is at `exit`. -/
theorem loop_correct (p : Prog) (nk n : Nat) (hn0 : 0 < n) (hn : (4 * n) % nk = 0) (key : Nat → BitVec 32)
    (pcs : Nat → Nat) (exit : Nat) (Inv : Nat → D → S4 → Nat → Prop)
    (H : ∀ j, j < n → ∀ d s m, Inv j d s m → 1 ≤ m →
      ∃ k d', run p k ⟨d, pcs j, false⟩ = ⟨d', if m = 1 then exit else pcs ((j + 1) % n), false⟩ ∧
        Inv ((j + 1) % n) d' (roundAtBV nk key j s) (m - 1)) :
    ∀ m, 1 ≤ m → ∀ j, j < n → ∀ d s, Inv j d s m →
      ∃ k d' j', run p k ⟨d, pcs j, false⟩ = ⟨d', exit, false⟩ ∧ j' < n ∧ Inv j' d' (permBV nk key j m s) 0 := by
  intro m
  induction m with
  | zero => intro h; omega
  | succ m ih =>
    intro _ j hj d s hi
    obtain ⟨k, d', hrun, hi'⟩ := H j hj d s (m + 1) hi (by omega)
    by_cases hm : m = 0
    · subst hm
      simp only [Nat.zero_add, if_true] at hrun
      refine ⟨k, d', (j + 1) % n, hrun, Nat.mod_lt _ hn0, ?_⟩
      simpa [permBV] using hi'
    · have hm1 : ¬ m + 1 = 1 := by omega
      simp only [hm1, if_false] at hrun
      have hjn := Nat.mod_lt (j + 1) hn0
      obtain ⟨k2, d2, j2, hrun2, hj2, hi2⟩ := ih (by omega) ((j + 1) % n) hjn d' _ (by simpa using hi')
      refine ⟨k + k2, d2, j2, ?_, hj2, ?_⟩
      · rw [run_add, hrun, hrun2]
      · simp only [permBV]
        -- phase (j+1) % n and j+1 give the same rounds
        have hper : permBV nk key ((j + 1) % n) m (roundAtBV nk key j s) = permBV nk key (j + 1) m (roundAtBV nk key j s) := by
          by_cases hlt : j + 1 < n
          · rw [Nat.mod_eq_of_lt hlt]
          · have : j + 1 = n := by omega
            rw [this, Nat.mod_self]
            have := permBV_shift nk n hn key 0 m (roundAtBV nk key j s)
            simpa using this.symm
        rw [← hper]; exact hi2

end TJ.Asm
