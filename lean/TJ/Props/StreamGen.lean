/-
  The streaming entry points as TOP-LEVEL calls on the REGENERATED source (src/tinyjambu-hash.c, src/tinyjambu-hmac.c): `tinyjambu_hash_init`,
  `tinyjambu_hash_finalize`, `tinyjambu_hmac_init`, `tinyjambu_hmac_reinit`, `tinyjambu_hmac_update`, `tinyjambu_hmac_finalize` (the regenerated
  `tinyjambu_hash_update` is TJ.Props.C11Gen.hash_update_source_is_model).  Each leaves the state object representing the hand model's next state
  (`HState.init`, `HState.finalize`, `hmacInit`, `hmacUpdate`, `hmacFinalize`), for a state object and buffers lying anywhere with any defined labels;
  TJ.Props.C11 / C12 prove on the model that every chunking of a message through these operations equals the one-shot function.  Their
  `_never_taints` corollaries in TJ.Props.C07Gen extend the all-shapes constant-time statement to the incremental API.
-/
import TJ.Proofs.PbkdfCore
import TJ.Proofs.HashDf
import TJ.Props.C11Gen
namespace TJ.Props.StreamGen
open TJ TJ.MiniC TJ.MiniC.Hoare TJ.Gen.MiniC

theorem hash_init_source (st : St) (bs baseS : Nat) (X : Array LByte) (old : HState)
    (hS : st.mem[bs]? = some ⟨X, baseS⟩) (hXs : 52 ≤ X.size) (hal : baseS % 4 = 0) (hlt : baseS + X.size < ptrBase) (hsz : st.mem.size + 2 < 2 ^ 30) :
    ∃ fuel st' X', callFun prog fuel idx_tinyjambu_hash_init false [(mkPtr bs baseS, .pub)] st = .ok .normal #[(0, .pub), (mkPtr bs baseS, .pub)] st' ∧
      st'.ent = st.ent ∧ st'.mem.size = st.mem.size ∧ st'.mem[bs]? = some ⟨X', baseS⟩ ∧ X'.size = X.size ∧ HObjV X' (HState.init old) ∧
      (∀ j, j ≠ bs → st'.mem[j]? = st.mem[j]?) := by
  have hbsN := mem_lt hS
  obtain ⟨k, sig, e, s, hx, hs, he, hent, hmsz, hoth, X', g1, g2, g3⟩ := init_call prog idx_tinyjambu_hash_init prog_init #[(0, .pub), (mkPtr bs baseS, .pub)] st (.var 1) bs baseS X
    (by simp [evalE]) hS hXs hal hlt (by omega) old
  subst hs he
  refine ⟨k, s, X', ?_, hent, hmsz, g1, g2, g3, hoth⟩
  unfold callFun
  simp only [List.length_cons, List.length_nil, List.range, List.range.loop, List.map, Bool.false_eq_true, if_false, Nat.zero_add]
  exact hx

theorem hash_finalize_source (st : St) (bs bo : Nat) (X XO : Array LByte) (baseS baseo oo : Nat) (h : HState)
    (hS : st.mem[bs]? = some ⟨X, baseS⟩) (hO : st.mem[bo]? = some ⟨XO, baseo⟩) (hne : bo ≠ bs) (o : HObjV X h)
    (hal : baseS % 4 = 0) (hlt : baseS + X.size < ptrBase) (hltO : baseo + XO.size < ptrBase) (hin : oo + 32 ≤ XO.size) (hsz : st.mem.size + 2 < 2 ^ 30) :
    ∃ fuel st' blkS blkO, callFun prog fuel idx_tinyjambu_hash_finalize false [(mkPtr bs baseS, .pub), (mkPtr bo (baseo + oo), .pub)] st =
        .ok .normal #[(0, .pub), (mkPtr bs baseS, .pub), (mkPtr bo (baseo + oo), .pub)] st' ∧
      st'.ent = st.ent ∧ st'.mem.size = st.mem.size ∧
      st'.mem[bs]? = some blkS ∧ blkS.base = baseS ∧ blkS.bytes.size = X.size ∧ HObjV blkS.bytes h.finalize.2 ∧
      st'.mem[bo]? = some blkO ∧ blkO.base = baseo ∧ blkO.bytes.size = XO.size ∧
      (∀ q b, h.finalize.1[q]? = some b → ∃ l, blkO.bytes[oo + q]? = some (b, l) ∧ l ≠ Lab.undef) ∧
      (∀ q, (q < oo ∨ oo + 32 ≤ q) → ORel VLe blkO.bytes[q]? XO[q]?) := by
  have hbsN := mem_lt hS; have hboN := mem_lt hO
  obtain ⟨k, sig, e, s, hx, hs, he, hent, hmsz, ⟨blkS, g1, g2, g3, g4⟩, ⟨blkO, g5, g6, g7, g8, g9⟩, _⟩ := finalize_call prog idx_tinyjambu_hash_finalize prog_finalize prog_compress prog_p256
    #[(0, .pub), (mkPtr bs baseS, .pub), (mkPtr bo (baseo + oo), .pub)] st (.var 1) (.var 2) bs bo X XO baseS baseo oo h (by simp [evalE]) (by simp [evalE]) hS hO hne o hal hlt hltO hin
    (by omega) (by omega) hsz
  subst hs he
  refine ⟨k, s, blkS, blkO, ?_, hent, hmsz, g1, g2, g3, g4, g5, g6, g7, g8, g9⟩
  unfold callFun
  simp only [List.length_cons, List.length_nil, List.range, List.range.loop, List.map, Bool.false_eq_true, if_false, Nat.zero_add]
  exact hx

theorem hmac_init_source (st : St) (bs bk : Nat) (X XK : Array LByte) (baseS basek koff : Nat) (h : HState) (key : Bytes)
    (hS : st.mem[bs]? = some ⟨X, baseS⟩) (hK : st.mem[bk]? = some ⟨XK, basek⟩) (hne : bk ≠ bs) (hXs : 52 ≤ X.size) (halS : baseS % 4 = 0)
    (hltS : baseS + X.size < ptrBase) (hltK : basek + XK.size < ptrBase) (hkd : BytesV XK koff key) (hsz : st.mem.size + 3 < 2 ^ 30) :
    ∃ fuel st' X', callFun prog fuel idx_tinyjambu_hmac_init false [(mkPtr bs baseS, .pub), (mkPtr bk (basek + koff), .pub), (key.length, .pub)] st =
        .ok .normal #[(0, .pub), (mkPtr bs baseS, .pub), (mkPtr bk (basek + koff), .pub), (key.length, .pub)] st' ∧
      st'.ent = st.ent ∧ st'.mem.size = st.mem.size ∧ st'.mem[bs]? = some ⟨X', baseS⟩ ∧ X'.size = X.size ∧ HObjV X' (hmacInit h key) ∧ OthV bs st'.mem st.mem := by
  obtain ⟨k, sig, e, s, hx, hs, he, hent, hmsz, ⟨X', g1, g2, g3⟩, g4⟩ := hmac_init_call #[(0, .pub), (mkPtr bs baseS, .pub), (mkPtr bk (basek + koff), .pub), (key.length, .pub)] st
    (.var 1) (.var 2) (.var 3) bs bk X XK baseS basek koff h key (by simp [evalE]) (by simp [evalE]) (by simp [evalE]) hS hK hne hXs halS hltS hltK hkd hsz
  subst hs he
  refine ⟨k, s, X', ?_, hent, hmsz, g1, g2, g3, g4⟩
  unfold callFun
  simp only [List.length_cons, List.length_nil, List.range, List.range.loop, List.map, Bool.false_eq_true, if_false, Nat.zero_add]
  exact hx

theorem hmac_reinit_source (st : St) (bs bk : Nat) (X XK : Array LByte) (baseS basek koff : Nat) (h : HState) (key : Bytes)
    (hS : st.mem[bs]? = some ⟨X, baseS⟩) (hK : st.mem[bk]? = some ⟨XK, basek⟩) (hne : bk ≠ bs) (hXs : 52 ≤ X.size) (halS : baseS % 4 = 0)
    (hltS : baseS + X.size < ptrBase) (hltK : basek + XK.size < ptrBase) (hkd : BytesV XK koff key) (hsz : st.mem.size + 3 < 2 ^ 30) :
    ∃ fuel st' X', callFun prog fuel idx_tinyjambu_hmac_reinit false [(mkPtr bs baseS, .pub), (mkPtr bk (basek + koff), .pub), (key.length, .pub)] st =
        .ok .normal #[(0, .pub), (mkPtr bs baseS, .pub), (mkPtr bk (basek + koff), .pub), (key.length, .pub)] st' ∧
      st'.ent = st.ent ∧ st'.mem.size = st.mem.size ∧ st'.mem[bs]? = some ⟨X', baseS⟩ ∧ X'.size = X.size ∧ HObjV X' (hmacInit h key) ∧ OthV bs st'.mem st.mem := by
  obtain ⟨k, sig, e, s, hx, hs, he, hent, hmsz, ⟨X', g1, g2, g3⟩, g4⟩ := hmac_reinit_call #[(0, .pub), (mkPtr bs baseS, .pub), (mkPtr bk (basek + koff), .pub), (key.length, .pub)] st
    (.var 1) (.var 2) (.var 3) bs bk X XK baseS basek koff h key (by simp [evalE]) (by simp [evalE]) (by simp [evalE]) hS hK hne hXs halS hltS hltK hkd hsz
  subst hs he
  refine ⟨k, s, X', ?_, hent, hmsz, g1, g2, g3, g4⟩
  unfold callFun
  simp only [List.length_cons, List.length_nil, List.range, List.range.loop, List.map, Bool.false_eq_true, if_false, Nat.zero_add]
  exact hx

theorem hmac_update_source (st : St) (bs bi : Nat) (X XI : Array LByte) (baseS basei off : Nat) (h : HState) (data : Bytes)
    (hS : st.mem[bs]? = some ⟨X, baseS⟩) (hI : st.mem[bi]? = some ⟨XI, basei⟩) (hne : bi ≠ bs)
    (hrep : HObjV X h) (halS : baseS % 4 = 0) (hltS : baseS + X.size < ptrBase) (hltI : basei + XI.size < ptrBase) (hsz : st.mem.size + 2 < 2 ^ 30) (hd : BytesV XI off data) :
    ∃ fuel st' X', callFun prog fuel idx_tinyjambu_hmac_update false [(mkPtr bs baseS, .pub), (mkPtr bi (basei + off), .pub), (data.length, .pub)] st =
        .ok .normal #[(0, .pub), (mkPtr bs baseS, .pub), (mkPtr bi (basei + off), .pub), (data.length, .pub)] st' ∧
      st'.ent = st.ent ∧ st'.mem.size = st.mem.size ∧ st'.mem[bs]? = some ⟨X', baseS⟩ ∧ X'.size = X.size ∧ HObjV X' (hmacUpdate h data) ∧ OthV bs st'.mem st.mem := by
  have hbsN := mem_lt hS; have hbiN := mem_lt hI
  obtain ⟨k, sig, e, s, hx, hs, he, hent, hmsz, g4, X', g1, g2, g3⟩ := hmac_update_call #[(0, .pub), (mkPtr bs baseS, .pub), (mkPtr bi (basei + off), .pub), (data.length, .pub)] st
    (.var 1) (.var 2) (.var 3) bs bi X XI baseS basei off h data (by simp [evalE]) (by simp [evalE]) (by simp [evalE]) hS hI hne hrep halS hltS hltI (by omega) (by omega) hsz hd
  subst hs he
  refine ⟨k, s, X', ?_, hent, hmsz, g1, g2, g3, g4⟩
  unfold callFun
  simp only [List.length_cons, List.length_nil, List.range, List.range.loop, List.map, Bool.false_eq_true, if_false, Nat.zero_add]
  exact hx

theorem hmac_finalize_source (st : St) (bs bk bo : Nat) (X XK XO : Array LByte) (baseS basek koff baseo oo : Nat) (h : HState) (key : Bytes)
    (hS : st.mem[bs]? = some ⟨X, baseS⟩) (hK : st.mem[bk]? = some ⟨XK, basek⟩) (hO : st.mem[bo]? = some ⟨XO, baseo⟩) (hnk : bk ≠ bs) (hno : bo ≠ bs)
    (hrep : HObjV X h) (halS : baseS % 4 = 0) (hltS : baseS + X.size < ptrBase) (hltK : basek + XK.size < ptrBase) (hltO : baseo + XO.size < ptrBase)
    (hkd : BytesV XK koff key) (hin : oo + 32 ≤ XO.size) (hsz : st.mem.size + 5 < 2 ^ 30) :
    ∃ fuel st' X' XO', callFun prog fuel idx_tinyjambu_hmac_finalize false
        [(mkPtr bs baseS, .pub), (mkPtr bk (basek + koff), .pub), (key.length, .pub), (mkPtr bo (baseo + oo), .pub)] st =
        .ok .normal #[(0, .pub), (mkPtr bs baseS, .pub), (mkPtr bk (basek + koff), .pub), (key.length, .pub), (mkPtr bo (baseo + oo), .pub)] st' ∧
      st'.ent = st.ent ∧ st'.mem.size = st.mem.size ∧ st'.mem[bs]? = some ⟨X', baseS⟩ ∧ X'.size = X.size ∧ HObjV X' (hmacFinalize h key).2 ∧
      st'.mem[bo]? = some ⟨XO', baseo⟩ ∧ XO'.size = XO.size ∧ BytesV XO' oo (hmacFinalize h key).1 ∧ (∀ q, (q < oo ∨ oo + 32 ≤ q) → ORel VEq XO'[q]? XO[q]?) ∧
      (∀ j, j ≠ bs → j ≠ bo → ORel BlockEqV st'.mem[j]? st.mem[j]?) := by
  obtain ⟨k, sig, e, s, hx, hs, he, hent, hmsz, ⟨X', g1, g2, g3⟩, ⟨XO', g4, g5, g6, g7⟩, g8⟩ := hmac_finalize_call
    #[(0, .pub), (mkPtr bs baseS, .pub), (mkPtr bk (basek + koff), .pub), (key.length, .pub), (mkPtr bo (baseo + oo), .pub)] st (.var 1) (.var 2) (.var 3) (.var 4) bs bk bo X XK XO
    baseS basek koff baseo oo h key (by simp [evalE]) (by simp [evalE]) (by simp [evalE]) (by simp [evalE]) hS hK hO hnk hno hrep halS hltS hltK hltO hkd hin hsz
  subst hs he
  refine ⟨k, s, X', XO', ?_, hent, hmsz, g1, g2, g3, g4, g5, g6, g7, g8⟩
  unfold callFun
  simp only [List.length_cons, List.length_nil, List.range, List.range.loop, List.map, Bool.false_eq_true, if_false, Nat.zero_add]
  exact hx

theorem prog_hash_reinit : prog[idx_tinyjambu_hash_reinit]? = some f_tinyjambu_hash_reinit := by
  simp only [prog, idx_tinyjambu_hash_reinit, List.getElem?_cons_succ, List.getElem?_cons_zero]

theorem hash_reinit_source (st : St) (bs baseS : Nat) (X : Array LByte) (old : HState)
    (hS : st.mem[bs]? = some ⟨X, baseS⟩) (hXs : 52 ≤ X.size) (hal : baseS % 4 = 0) (hlt : baseS + X.size < ptrBase) (hsz : st.mem.size + 2 < 2 ^ 30) :
    ∃ fuel st' X', callFun prog fuel idx_tinyjambu_hash_reinit false [(mkPtr bs baseS, .pub)] st = .ok .normal #[(0, .pub), (mkPtr bs baseS, .pub)] st' ∧
      st'.ent = st.ent ∧ st'.mem.size = st.mem.size ∧ st'.mem[bs]? = some ⟨X', baseS⟩ ∧ X'.size = X.size ∧ HObjV X' (HState.init old) ∧
      (∀ j, j ≠ bs → st'.mem[j]? = st.mem[j]?) := by
  have hbsN := mem_lt hS
  have hrun : RunsTo prog (.call none idx_tinyjambu_hash_reinit [.var 1]) #[(0, .pub), (mkPtr bs baseS, .pub)] st (fun sig e s => sig = .normal ∧ e = #[(0, .pub), (mkPtr bs baseS, .pub)] ∧
      s.ent = st.ent ∧ s.mem.size = st.mem.size ∧ (∀ j, j ≠ bs → s.mem[j]? = st.mem[j]?) ∧ ∃ X', s.mem[bs]? = some ⟨X', baseS⟩ ∧ X'.size = X.size ∧ HObjV X' (HState.init old)) := by
    refine runs_call_none f_tinyjambu_hash_reinit [(mkPtr bs baseS, .pub)] prog_hash_reinit (by simp [evalArgs, evalE]) rfl ?_
    have hent : enterFun f_tinyjambu_hash_reinit [(mkPtr bs baseS, .pub)] st.mem = (#[(mkPtr bs baseS, .pub)], st.mem) := rfl
    rw [hent]
    have hbody : f_tinyjambu_hash_reinit.body = .call none idx_tinyjambu_hash_init [.var 0] := rfl
    rw [hbody]
    refine (init_call prog idx_tinyjambu_hash_init prog_init _ { st with mem := st.mem } (.var 0) bs baseS X rfl hS hXs hal hlt (by omega) old).weaken ?_
    intro sig e s ⟨_, _, g3, g4, g5, g6⟩
    have : s.mem.extract 0 st.mem.size = s.mem := extract_same _ _ g4
    simp only [this]
    exact ⟨trivial, trivial, g3, g4, g5, g6⟩
  obtain ⟨k, sig, e, s, hx, hs, he, hent, hmsz, hoth, X', g1, g2, g3⟩ := hrun
  subst hs he
  refine ⟨k, s, X', ?_, hent, hmsz, g1, g2, g3, hoth⟩
  unfold callFun
  simp only [List.length_cons, List.length_nil, List.range, List.range.loop, List.map, Bool.false_eq_true, if_false, Nat.zero_add]
  exact hx

/-- `tinyjambu_hash_update` on a state object and data with ANY defined labels (TJ.Props.C11Gen.hash_update_source_is_model is the canonical-label form) -/
theorem hash_update_source (st : St) (bs bi : Nat) (X XI : Array LByte) (baseS basei off : Nat) (h : HState) (data : Bytes)
    (hS : st.mem[bs]? = some ⟨X, baseS⟩) (hI : st.mem[bi]? = some ⟨XI, basei⟩) (hne : bi ≠ bs)
    (hrep : HObjV X h) (halS : baseS % 4 = 0) (hltS : baseS + X.size < ptrBase) (hltI : basei + XI.size < ptrBase) (hsz : st.mem.size + 2 < 2 ^ 30) (hd : BytesV XI off data) :
    ∃ fuel st' blk', callFun prog fuel idx_tinyjambu_hash_update false [(mkPtr bs baseS, .pub), (mkPtr bi (basei + off), .pub), (data.length, .pub)] st =
        .ok .normal #[(0, .pub), (mkPtr bs baseS, .pub), (mkPtr bi (basei + off), .pub), (data.length, .pub)] st' ∧
      st'.ent = st.ent ∧ st'.mem.size = st.mem.size ∧ st'.mem[bs]? = some blk' ∧ blk'.base = baseS ∧ blk'.bytes.size = X.size ∧ HObjV blk'.bytes (h.update data) ∧
      OthV bs st'.mem st.mem := by
  have hbsN := mem_lt hS; have hbiN := mem_lt hI
  obtain ⟨k, sig, e, s, hx, hs, he, hent, hmsz, g4, blk', g1, g2, g3, g5⟩ := update_callV prog idx_tinyjambu_hash_update prog_update prog_compress prog_p256
    #[(0, .pub), (mkPtr bs baseS, .pub), (mkPtr bi (basei + off), .pub), (data.length, .pub)] st (.var 1) (.var 2) (.var 3) bs bi X XI baseS basei off h data
    (by simp [evalE]) (by simp [evalE]) (by simp [evalE]) hS hI hne hrep halS hltS hltI (by omega) (by omega) hsz (fun k b hk => by obtain ⟨l, hx, hl⟩ := hd.2 k b hk; exact ⟨l, hx, hl⟩) hd.1
  subst hs
  have hee : e = #[(0, .pub), (mkPtr bs baseS, .pub), (mkPtr bi (basei + off), .pub), (data.length, .pub)] := by
    refine envLe_allpub (fun i v hv => ?_) he
    match i, hv with
    | 0, hv => cases hv; rfl
    | 1, hv => cases hv; rfl
    | 2, hv => cases hv; rfl
    | 3, hv => cases hv; rfl
    | (n + 4), hv => simp at hv
  subst hee
  refine ⟨k, s, blk', ?_, hent, hmsz, g1, g2, g3, g5, g4⟩
  unfold callFun
  simp only [List.length_cons, List.length_nil, List.range, List.range.loop, List.map, Bool.false_eq_true, if_false, Nat.zero_add]
  exact hx

end TJ.Props.StreamGen
