/-
  The streaming entry points as TOP-LEVEL calls on the REGENERATED source (src/tinyjambu-hash.c, src/tinyjambu-hmac.c): `tinyjambu_hash_init`,
  `tinyjambu_hash_finalize`, `tinyjambu_hmac_init`, `tinyjambu_hmac_reinit`, `tinyjambu_hmac_update`, `tinyjambu_hmac_finalize` (the regenerated
  `tinyjambu_hash_update` is TJ.Props.C11Gen.hash_update_source_is_model).  Each leaves the state object representing the hand model's next state
  (`HState.init`, `HState.finalize`, `hmacInit`, `hmacUpdate`, `hmacFinalize`), for a state object and buffers lying anywhere with any defined labels;
  TJ.Props.C11 / C12 prove on the model that every chunking of a message through these operations equals the one-shot function.  Their
  `_never_taints` corollaries in TJ.Props.C07Gen extend the all-shapes constant-time statement to the incremental API.

  `hash_streaming_source` and `hmac_streaming_source` put them together by induction over the list of pieces: init on a state object with any prior content, update over ANY
  split of a message, finalize — the bytes written are `Spec.hash` / `Spec.hmac hash key` of the whole message: C11 and the streaming half of C12 stated on the regenerated code.
-/
import TJ.Proofs.PbkdfCore
import TJ.Proofs.HashDf
import TJ.Props.C11Gen
import TJ.Props.C10
import TJ.Props.C11
import TJ.Props.C12
import TJ.Proofs.PrngGenOut
namespace TJ.Props.StreamGen
open TJ TJ.MiniC TJ.MiniC.Hoare TJ.Gen.MiniC

theorem hash_init_source (st : St) (bs baseS : Nat) (X : Array LByte) (old : HState)
    (hS : st.mem[bs]? = some ⟨X, baseS⟩) (hXs : 52 ≤ X.size) (hal : baseS % 4 = 0) (hlt : baseS + X.size < ptrBase) (hsz : st.mem.size + 2 < 2 ^ 30) :
    ∃ fuel st' X', callFun prog fuel idx_tinyjambu_hash_init false [(mkPtr bs baseS, .pub)] st = .ok .normal #[(0, .pub), (mkPtr bs baseS, .pub)] st' ∧
      st'.ent = st.ent ∧ st'.mem.size = st.mem.size ∧ st'.mem[bs]? = some ⟨X', baseS⟩ ∧ X'.size = X.size ∧ HObjV X' (HState.init old) ∧
      (∀ j, j ≠ bs → st'.mem[j]? = st.mem[j]?) := by
  have hbsN := mem_lt hS
  obtain ⟨k, sig, e, s, hx, hs, he, hent, hmsz, hoth, X', g1, g2, g3⟩ := init_call prog idx_tinyjambu_hash_init prog_init #[(0, .pub), (mkPtr bs baseS, .pub)] st (.var 1) bs baseS X
    (by simp [evalE]) hS hXs hal hlt (by omega) old
  subst hs he
  refine ⟨k, s, X', ?_, hent, hmsz, g1, g2, g3, hoth⟩
  unfold callFun
  simp only [List.length_cons, List.length_nil, List.range, List.range.loop, List.map, Bool.false_eq_true, if_false, Nat.zero_add]
  exact hx

theorem hash_finalize_source (st : St) (bs bo : Nat) (X XO : Array LByte) (baseS baseo oo : Nat) (h : HState)
    (hS : st.mem[bs]? = some ⟨X, baseS⟩) (hO : st.mem[bo]? = some ⟨XO, baseo⟩) (hne : bo ≠ bs) (o : HObjV X h)
    (hal : baseS % 4 = 0) (hlt : baseS + X.size < ptrBase) (hltO : baseo + XO.size < ptrBase) (hin : oo + 32 ≤ XO.size) (hsz : st.mem.size + 2 < 2 ^ 30) :
    ∃ fuel st' blkS blkO, callFun prog fuel idx_tinyjambu_hash_finalize false [(mkPtr bs baseS, .pub), (mkPtr bo (baseo + oo), .pub)] st =
        .ok .normal #[(0, .pub), (mkPtr bs baseS, .pub), (mkPtr bo (baseo + oo), .pub)] st' ∧
      st'.ent = st.ent ∧ st'.mem.size = st.mem.size ∧
      st'.mem[bs]? = some blkS ∧ blkS.base = baseS ∧ blkS.bytes.size = X.size ∧ HObjV blkS.bytes h.finalize.2 ∧
      st'.mem[bo]? = some blkO ∧ blkO.base = baseo ∧ blkO.bytes.size = XO.size ∧
      (∀ q b, h.finalize.1[q]? = some b → ∃ l, blkO.bytes[oo + q]? = some (b, l) ∧ l ≠ Lab.undef) ∧
      (∀ q, (q < oo ∨ oo + 32 ≤ q) → ORel VLe blkO.bytes[q]? XO[q]?) := by
  have hbsN := mem_lt hS; have hboN := mem_lt hO
  obtain ⟨k, sig, e, s, hx, hs, he, hent, hmsz, ⟨blkS, g1, g2, g3, g4⟩, ⟨blkO, g5, g6, g7, g8, g9⟩, _⟩ := finalize_call prog idx_tinyjambu_hash_finalize prog_finalize prog_compress prog_p256
    #[(0, .pub), (mkPtr bs baseS, .pub), (mkPtr bo (baseo + oo), .pub)] st (.var 1) (.var 2) bs bo X XO baseS baseo oo h (by simp [evalE]) (by simp [evalE]) hS hO hne o hal hlt hltO hin
    (by omega) (by omega) hsz
  subst hs he
  refine ⟨k, s, blkS, blkO, ?_, hent, hmsz, g1, g2, g3, g4, g5, g6, g7, g8, g9⟩
  unfold callFun
  simp only [List.length_cons, List.length_nil, List.range, List.range.loop, List.map, Bool.false_eq_true, if_false, Nat.zero_add]
  exact hx

theorem hmac_init_source (st : St) (bs bk : Nat) (X XK : Array LByte) (baseS basek koff : Nat) (h : HState) (key : Bytes)
    (hS : st.mem[bs]? = some ⟨X, baseS⟩) (hK : st.mem[bk]? = some ⟨XK, basek⟩) (hne : bk ≠ bs) (hXs : 52 ≤ X.size) (halS : baseS % 4 = 0)
    (hltS : baseS + X.size < ptrBase) (hltK : basek + XK.size < ptrBase) (hkd : BytesV XK koff key) (hsz : st.mem.size + 3 < 2 ^ 30) :
    ∃ fuel st' X', callFun prog fuel idx_tinyjambu_hmac_init false [(mkPtr bs baseS, .pub), (mkPtr bk (basek + koff), .pub), (key.length, .pub)] st =
        .ok .normal #[(0, .pub), (mkPtr bs baseS, .pub), (mkPtr bk (basek + koff), .pub), (key.length, .pub)] st' ∧
      st'.ent = st.ent ∧ st'.mem.size = st.mem.size ∧ st'.mem[bs]? = some ⟨X', baseS⟩ ∧ X'.size = X.size ∧ HObjV X' (hmacInit h key) ∧ OthV bs st'.mem st.mem := by
  obtain ⟨k, sig, e, s, hx, hs, he, hent, hmsz, ⟨X', g1, g2, g3⟩, g4⟩ := hmac_init_call #[(0, .pub), (mkPtr bs baseS, .pub), (mkPtr bk (basek + koff), .pub), (key.length, .pub)] st
    (.var 1) (.var 2) (.var 3) bs bk X XK baseS basek koff h key (by simp [evalE]) (by simp [evalE]) (by simp [evalE]) hS hK hne hXs halS hltS hltK hkd hsz
  subst hs he
  refine ⟨k, s, X', ?_, hent, hmsz, g1, g2, g3, g4⟩
  unfold callFun
  simp only [List.length_cons, List.length_nil, List.range, List.range.loop, List.map, Bool.false_eq_true, if_false, Nat.zero_add]
  exact hx

theorem hmac_reinit_source (st : St) (bs bk : Nat) (X XK : Array LByte) (baseS basek koff : Nat) (h : HState) (key : Bytes)
    (hS : st.mem[bs]? = some ⟨X, baseS⟩) (hK : st.mem[bk]? = some ⟨XK, basek⟩) (hne : bk ≠ bs) (hXs : 52 ≤ X.size) (halS : baseS % 4 = 0)
    (hltS : baseS + X.size < ptrBase) (hltK : basek + XK.size < ptrBase) (hkd : BytesV XK koff key) (hsz : st.mem.size + 3 < 2 ^ 30) :
    ∃ fuel st' X', callFun prog fuel idx_tinyjambu_hmac_reinit false [(mkPtr bs baseS, .pub), (mkPtr bk (basek + koff), .pub), (key.length, .pub)] st =
        .ok .normal #[(0, .pub), (mkPtr bs baseS, .pub), (mkPtr bk (basek + koff), .pub), (key.length, .pub)] st' ∧
      st'.ent = st.ent ∧ st'.mem.size = st.mem.size ∧ st'.mem[bs]? = some ⟨X', baseS⟩ ∧ X'.size = X.size ∧ HObjV X' (hmacInit h key) ∧ OthV bs st'.mem st.mem := by
  obtain ⟨k, sig, e, s, hx, hs, he, hent, hmsz, ⟨X', g1, g2, g3⟩, g4⟩ := hmac_reinit_call #[(0, .pub), (mkPtr bs baseS, .pub), (mkPtr bk (basek + koff), .pub), (key.length, .pub)] st
    (.var 1) (.var 2) (.var 3) bs bk X XK baseS basek koff h key (by simp [evalE]) (by simp [evalE]) (by simp [evalE]) hS hK hne hXs halS hltS hltK hkd hsz
  subst hs he
  refine ⟨k, s, X', ?_, hent, hmsz, g1, g2, g3, g4⟩
  unfold callFun
  simp only [List.length_cons, List.length_nil, List.range, List.range.loop, List.map, Bool.false_eq_true, if_false, Nat.zero_add]
  exact hx

theorem hmac_update_source (st : St) (bs bi : Nat) (X XI : Array LByte) (baseS basei off : Nat) (h : HState) (data : Bytes)
    (hS : st.mem[bs]? = some ⟨X, baseS⟩) (hI : st.mem[bi]? = some ⟨XI, basei⟩) (hne : bi ≠ bs)
    (hrep : HObjV X h) (halS : baseS % 4 = 0) (hltS : baseS + X.size < ptrBase) (hltI : basei + XI.size < ptrBase) (hsz : st.mem.size + 2 < 2 ^ 30) (hd : BytesV XI off data) :
    ∃ fuel st' X', callFun prog fuel idx_tinyjambu_hmac_update false [(mkPtr bs baseS, .pub), (mkPtr bi (basei + off), .pub), (data.length, .pub)] st =
        .ok .normal #[(0, .pub), (mkPtr bs baseS, .pub), (mkPtr bi (basei + off), .pub), (data.length, .pub)] st' ∧
      st'.ent = st.ent ∧ st'.mem.size = st.mem.size ∧ st'.mem[bs]? = some ⟨X', baseS⟩ ∧ X'.size = X.size ∧ HObjV X' (hmacUpdate h data) ∧ OthV bs st'.mem st.mem := by
  have hbsN := mem_lt hS; have hbiN := mem_lt hI
  obtain ⟨k, sig, e, s, hx, hs, he, hent, hmsz, g4, X', g1, g2, g3⟩ := hmac_update_call #[(0, .pub), (mkPtr bs baseS, .pub), (mkPtr bi (basei + off), .pub), (data.length, .pub)] st
    (.var 1) (.var 2) (.var 3) bs bi X XI baseS basei off h data (by simp [evalE]) (by simp [evalE]) (by simp [evalE]) hS hI hne hrep halS hltS hltI (by omega) (by omega) hsz hd
  subst hs he
  refine ⟨k, s, X', ?_, hent, hmsz, g1, g2, g3, g4⟩
  unfold callFun
  simp only [List.length_cons, List.length_nil, List.range, List.range.loop, List.map, Bool.false_eq_true, if_false, Nat.zero_add]
  exact hx

theorem hmac_finalize_source (st : St) (bs bk bo : Nat) (X XK XO : Array LByte) (baseS basek koff baseo oo : Nat) (h : HState) (key : Bytes)
    (hS : st.mem[bs]? = some ⟨X, baseS⟩) (hK : st.mem[bk]? = some ⟨XK, basek⟩) (hO : st.mem[bo]? = some ⟨XO, baseo⟩) (hnk : bk ≠ bs) (hno : bo ≠ bs)
    (hrep : HObjV X h) (halS : baseS % 4 = 0) (hltS : baseS + X.size < ptrBase) (hltK : basek + XK.size < ptrBase) (hltO : baseo + XO.size < ptrBase)
    (hkd : BytesV XK koff key) (hin : oo + 32 ≤ XO.size) (hsz : st.mem.size + 5 < 2 ^ 30) :
    ∃ fuel st' X' XO', callFun prog fuel idx_tinyjambu_hmac_finalize false
        [(mkPtr bs baseS, .pub), (mkPtr bk (basek + koff), .pub), (key.length, .pub), (mkPtr bo (baseo + oo), .pub)] st =
        .ok .normal #[(0, .pub), (mkPtr bs baseS, .pub), (mkPtr bk (basek + koff), .pub), (key.length, .pub), (mkPtr bo (baseo + oo), .pub)] st' ∧
      st'.ent = st.ent ∧ st'.mem.size = st.mem.size ∧ st'.mem[bs]? = some ⟨X', baseS⟩ ∧ X'.size = X.size ∧ HObjV X' (hmacFinalize h key).2 ∧
      st'.mem[bo]? = some ⟨XO', baseo⟩ ∧ XO'.size = XO.size ∧ BytesV XO' oo (hmacFinalize h key).1 ∧ (∀ q, (q < oo ∨ oo + 32 ≤ q) → ORel VEq XO'[q]? XO[q]?) ∧
      (∀ j, j ≠ bs → j ≠ bo → ORel BlockEqV st'.mem[j]? st.mem[j]?) := by
  obtain ⟨k, sig, e, s, hx, hs, he, hent, hmsz, ⟨X', g1, g2, g3⟩, ⟨XO', g4, g5, g6, g7⟩, g8⟩ := hmac_finalize_call
    #[(0, .pub), (mkPtr bs baseS, .pub), (mkPtr bk (basek + koff), .pub), (key.length, .pub), (mkPtr bo (baseo + oo), .pub)] st (.var 1) (.var 2) (.var 3) (.var 4) bs bk bo X XK XO
    baseS basek koff baseo oo h key (by simp [evalE]) (by simp [evalE]) (by simp [evalE]) (by simp [evalE]) hS hK hO hnk hno hrep halS hltS hltK hltO hkd hin hsz
  subst hs he
  refine ⟨k, s, X', XO', ?_, hent, hmsz, g1, g2, g3, g4, g5, g6, g7, g8⟩
  unfold callFun
  simp only [List.length_cons, List.length_nil, List.range, List.range.loop, List.map, Bool.false_eq_true, if_false, Nat.zero_add]
  exact hx

theorem prog_hash_reinit : prog[idx_tinyjambu_hash_reinit]? = some f_tinyjambu_hash_reinit := by
  simp only [prog, idx_tinyjambu_hash_reinit, List.getElem?_cons_succ, List.getElem?_cons_zero]

theorem hash_reinit_source (st : St) (bs baseS : Nat) (X : Array LByte) (old : HState)
    (hS : st.mem[bs]? = some ⟨X, baseS⟩) (hXs : 52 ≤ X.size) (hal : baseS % 4 = 0) (hlt : baseS + X.size < ptrBase) (hsz : st.mem.size + 2 < 2 ^ 30) :
    ∃ fuel st' X', callFun prog fuel idx_tinyjambu_hash_reinit false [(mkPtr bs baseS, .pub)] st = .ok .normal #[(0, .pub), (mkPtr bs baseS, .pub)] st' ∧
      st'.ent = st.ent ∧ st'.mem.size = st.mem.size ∧ st'.mem[bs]? = some ⟨X', baseS⟩ ∧ X'.size = X.size ∧ HObjV X' (HState.init old) ∧
      (∀ j, j ≠ bs → st'.mem[j]? = st.mem[j]?) := by
  have hbsN := mem_lt hS
  have hrun : RunsTo prog (.call none idx_tinyjambu_hash_reinit [.var 1]) #[(0, .pub), (mkPtr bs baseS, .pub)] st (fun sig e s => sig = .normal ∧ e = #[(0, .pub), (mkPtr bs baseS, .pub)] ∧
      s.ent = st.ent ∧ s.mem.size = st.mem.size ∧ (∀ j, j ≠ bs → s.mem[j]? = st.mem[j]?) ∧ ∃ X', s.mem[bs]? = some ⟨X', baseS⟩ ∧ X'.size = X.size ∧ HObjV X' (HState.init old)) := by
    refine runs_call_none f_tinyjambu_hash_reinit [(mkPtr bs baseS, .pub)] prog_hash_reinit (by simp [evalArgs, evalE]) rfl ?_
    have hent : enterFun f_tinyjambu_hash_reinit [(mkPtr bs baseS, .pub)] st.mem = (#[(mkPtr bs baseS, .pub)], st.mem) := rfl
    rw [hent]
    have hbody : f_tinyjambu_hash_reinit.body = .call none idx_tinyjambu_hash_init [.var 0] := rfl
    rw [hbody]
    refine (init_call prog idx_tinyjambu_hash_init prog_init _ { st with mem := st.mem } (.var 0) bs baseS X rfl hS hXs hal hlt (by omega) old).weaken ?_
    intro sig e s ⟨_, _, g3, g4, g5, g6⟩
    have : s.mem.extract 0 st.mem.size = s.mem := extract_same _ _ g4
    simp only [this]
    exact ⟨trivial, trivial, g3, g4, g5, g6⟩
  obtain ⟨k, sig, e, s, hx, hs, he, hent, hmsz, hoth, X', g1, g2, g3⟩ := hrun
  subst hs he
  refine ⟨k, s, X', ?_, hent, hmsz, g1, g2, g3, hoth⟩
  unfold callFun
  simp only [List.length_cons, List.length_nil, List.range, List.range.loop, List.map, Bool.false_eq_true, if_false, Nat.zero_add]
  exact hx

/-- `tinyjambu_hash_update` on a state object and data with ANY defined labels (TJ.Props.C11Gen.hash_update_source_is_model is the canonical-label form) -/
theorem hash_update_source (st : St) (bs bi : Nat) (X XI : Array LByte) (baseS basei off : Nat) (h : HState) (data : Bytes)
    (hS : st.mem[bs]? = some ⟨X, baseS⟩) (hI : st.mem[bi]? = some ⟨XI, basei⟩) (hne : bi ≠ bs)
    (hrep : HObjV X h) (halS : baseS % 4 = 0) (hltS : baseS + X.size < ptrBase) (hltI : basei + XI.size < ptrBase) (hsz : st.mem.size + 2 < 2 ^ 30) (hd : BytesV XI off data) :
    ∃ fuel st' blk', callFun prog fuel idx_tinyjambu_hash_update false [(mkPtr bs baseS, .pub), (mkPtr bi (basei + off), .pub), (data.length, .pub)] st =
        .ok .normal #[(0, .pub), (mkPtr bs baseS, .pub), (mkPtr bi (basei + off), .pub), (data.length, .pub)] st' ∧
      st'.ent = st.ent ∧ st'.mem.size = st.mem.size ∧ st'.mem[bs]? = some blk' ∧ blk'.base = baseS ∧ blk'.bytes.size = X.size ∧ HObjV blk'.bytes (h.update data) ∧
      OthV bs st'.mem st.mem := by
  have hbsN := mem_lt hS; have hbiN := mem_lt hI
  obtain ⟨k, sig, e, s, hx, hs, he, hent, hmsz, g4, blk', g1, g2, g3, g5⟩ := update_callV prog idx_tinyjambu_hash_update prog_update prog_compress prog_p256
    #[(0, .pub), (mkPtr bs baseS, .pub), (mkPtr bi (basei + off), .pub), (data.length, .pub)] st (.var 1) (.var 2) (.var 3) bs bi X XI baseS basei off h data
    (by simp [evalE]) (by simp [evalE]) (by simp [evalE]) hS hI hne hrep halS hltS hltI (by omega) (by omega) hsz (fun k b hk => by obtain ⟨l, hx, hl⟩ := hd.2 k b hk; exact ⟨l, hx, hl⟩) hd.1
  subst hs
  have hee : e = #[(0, .pub), (mkPtr bs baseS, .pub), (mkPtr bi (basei + off), .pub), (data.length, .pub)] := by
    refine envLe_allpub (fun i v hv => ?_) he
    match i, hv with
    | 0, hv => cases hv; rfl
    | 1, hv => cases hv; rfl
    | 2, hv => cases hv; rfl
    | 3, hv => cases hv; rfl
    | (n + 4), hv => simp at hv
  subst hee
  refine ⟨k, s, blk', ?_, hent, hmsz, g1, g2, g3, g5, g4⟩
  unfold callFun
  simp only [List.length_cons, List.length_nil, List.range, List.range.loop, List.map, Bool.false_eq_true, if_false, Nat.zero_add]
  exact hx

/-- a run of `tinyjambu_hash_update(state, p, |c|)` calls over consecutive pieces `c` of one buffer, starting at offset `off` -/
inductive UpdRun (bs bi baseS basei : Nat) : St → Nat → List Bytes → St → Prop
  | nil (st : St) (off : Nat) : UpdRun bs bi baseS basei st off [] st
  | cons (st st1 st2 : St) (off fuel : Nat) (c : Bytes) (cs : List Bytes) :
      callFun prog fuel idx_tinyjambu_hash_update false [(mkPtr bs baseS, .pub), (mkPtr bi (basei + off), .pub), (c.length, .pub)] st =
        .ok .normal #[(0, .pub), (mkPtr bs baseS, .pub), (mkPtr bi (basei + off), .pub), (c.length, .pub)] st1 →
      UpdRun bs bi baseS basei st1 (off + c.length) cs st2 → UpdRun bs bi baseS basei st off (c :: cs) st2

/-- any sequence of update calls over the pieces of a message leaves the state object representing the fold of the model's `update` -/
theorem hash_updates_source (bs bi baseS basei : Nat) (hne : bi ≠ bs) (halS : baseS % 4 = 0) (cs : List Bytes) :
    ∀ (st : St) (off : Nat) (X XI : Array LByte) (h : HState), st.mem[bs]? = some ⟨X, baseS⟩ → st.mem[bi]? = some ⟨XI, basei⟩ → HObjV X h →
      baseS + X.size < ptrBase → basei + XI.size < ptrBase → st.mem.size + 2 < 2 ^ 30 → BytesV XI off cs.flatten →
      ∃ st' X', UpdRun bs bi baseS basei st off cs st' ∧ st'.ent = st.ent ∧ st'.mem.size = st.mem.size ∧ st'.mem[bs]? = some ⟨X', baseS⟩ ∧ X'.size = X.size ∧
        HObjV X' (cs.foldl HState.update h) ∧ OthV bs st'.mem st.mem := by
  induction cs with
  | nil =>
    intro st off X XI h hS _ ho _ _ _ _
    exact ⟨st, X, UpdRun.nil st off, rfl, rfl, hS, rfl, ho, fun j _ => orel_eqv_refl _⟩
  | cons c cs ih =>
    intro st off X XI h hS hI ho hltS hltI hsz hd
    have hfl : (c :: cs).flatten = c ++ cs.flatten := rfl
    rw [hfl] at hd
    have hdc : BytesV XI off c := by
      have := bytesV_take' hd c.length
      rwa [List.take_left'] at this; rfl
    have hdr : BytesV XI (off + c.length) cs.flatten := by
      have := bytesV_drop hd c.length (by simp)
      rwa [List.drop_left'] at this; rfl
    obtain ⟨fuel, st1, blk1, hrun, hent1, hmsz1, hb1, hbase1, hbsz1, ho1, hoth1⟩ := hash_update_source st bs bi X XI baseS basei off h c hS hI hne ho halS hltS hltI hsz hdc
    have hS1 : st1.mem[bs]? = some ⟨blk1.bytes, baseS⟩ := by rw [hb1, ← hbase1]
    obtain ⟨XI1, hI1, hI1s, hI1v⟩ := eqv_block (by have := hoth1 bi hne; rw [hI] at this; exact this)
    obtain ⟨st2, X2, hrun2, hent2, hmsz2, hS2, hX2s, ho2, hoth2⟩ := ih st1 (off + c.length) blk1.bytes XI1 (h.update c) hS1 hI1 ho1 (by rw [hbsz1]; exact hltS) (by rw [hI1s]; exact hltI)
      (by rw [hmsz1]; exact hsz) (bytesV_of_veq hI1v hdr)
    exact ⟨st2, X2, UpdRun.cons st st1 st2 off fuel c cs hrun hrun2, hent2.trans hent1, hmsz2.trans hmsz1, hS2, hX2s.trans hbsz1, ho2, OthV.trans hoth2 hoth1⟩

/-- **C11 on the regenerated source**: `tinyjambu_hash_init` on a state object with ANY prior content, then `tinyjambu_hash_update` over ANY split of a message into pieces,
    then `tinyjambu_hash_finalize`, writes the one-shot digest of the whole message (`Spec.hash`, TJ.Props.C11.streaming, TJ.Props.C10.hash_is_mdph) -/
theorem hash_streaming_source (st : St) (bs bi bo : Nat) (X XI XO : Array LByte) (baseS basei off baseo oo : Nat) (prior : HState) (cs : List Bytes)
    (hS : st.mem[bs]? = some ⟨X, baseS⟩) (hI : st.mem[bi]? = some ⟨XI, basei⟩) (hO : st.mem[bo]? = some ⟨XO, baseo⟩) (hne : bi ≠ bs) (hno : bo ≠ bs)
    (hXs : 52 ≤ X.size) (halS : baseS % 4 = 0) (hltS : baseS + X.size < ptrBase) (hltI : basei + XI.size < ptrBase) (hltO : baseo + XO.size < ptrBase)
    (hin : oo + 32 ≤ XO.size) (hsz : st.mem.size + 2 < 2 ^ 30) (hd : BytesV XI off cs.flatten) :
    ∃ fuel0 st0 st1 fuel2 st2 blkO, callFun prog fuel0 idx_tinyjambu_hash_init false [(mkPtr bs baseS, .pub)] st = .ok .normal #[(0, .pub), (mkPtr bs baseS, .pub)] st0 ∧
      UpdRun bs bi baseS basei st0 off cs st1 ∧
      callFun prog fuel2 idx_tinyjambu_hash_finalize false [(mkPtr bs baseS, .pub), (mkPtr bo (baseo + oo), .pub)] st1 =
        .ok .normal #[(0, .pub), (mkPtr bs baseS, .pub), (mkPtr bo (baseo + oo), .pub)] st2 ∧
      st2.mem[bo]? = some blkO ∧ blkO.base = baseo ∧
      ∀ q b, (Spec.hash cs.flatten)[q]? = some b → ∃ l, blkO.bytes[oo + q]? = some (b, l) ∧ l ≠ Lab.undef := by
  have hbsN := mem_lt hS
  obtain ⟨f0, st0, X0, hr0, hent0, hmsz0, hS0, hX0s, ho0, hoth0⟩ := hash_init_source st bs baseS X prior hS hXs halS hltS hsz
  have hI0 : st0.mem[bi]? = some ⟨XI, basei⟩ := by rw [hoth0 bi hne]; exact hI
  obtain ⟨st1, X1, hr1, hent1, hmsz1, hS1, hX1s, ho1, hoth1⟩ := hash_updates_source bs bi baseS basei hne halS cs st0 off X0 XI prior.init hS0 hI0 ho0 (by rw [hX0s]; exact hltS) hltI
    (by rw [hmsz0]; exact hsz) hd
  obtain ⟨XO1, hO1, hO1s, _⟩ := eqv_block (by have := hoth1 bo hno; rw [hoth0 bo hno, hO] at this; exact this)
  obtain ⟨f2, st2, blkS, blkO, hr2, _, _, _, _, _, _, g5, g6, _, g8, _⟩ := hash_finalize_source st1 bs bo X1 XO1 baseS baseo oo _ hS1 hO1 hno ho1 halS (by rw [hX1s, hX0s]; exact hltS)
    (by rw [hO1s]; exact hltO) (by rw [hO1s]; exact hin) (by rw [hmsz1, hmsz0]; exact hsz)
  rw [TJ.Props.C11.streaming prior cs, TJ.Props.C10.hash_is_mdph] at g8
  exact ⟨f0, st0, st1, f2, st2, blkO, hr0, hr1, hr2, g5, g6, g8⟩

/-- a run of `tinyjambu_hmac_update(state, p, |c|)` calls over consecutive pieces of one buffer -/
inductive MUpdRun (bs bi baseS basei : Nat) : St → Nat → List Bytes → St → Prop
  | nil (st : St) (off : Nat) : MUpdRun bs bi baseS basei st off [] st
  | cons (st st1 st2 : St) (off fuel : Nat) (c : Bytes) (cs : List Bytes) :
      callFun prog fuel idx_tinyjambu_hmac_update false [(mkPtr bs baseS, .pub), (mkPtr bi (basei + off), .pub), (c.length, .pub)] st =
        .ok .normal #[(0, .pub), (mkPtr bs baseS, .pub), (mkPtr bi (basei + off), .pub), (c.length, .pub)] st1 →
      MUpdRun bs bi baseS basei st1 (off + c.length) cs st2 → MUpdRun bs bi baseS basei st off (c :: cs) st2

theorem hmac_updates_source (bs bi baseS basei : Nat) (hne : bi ≠ bs) (halS : baseS % 4 = 0) (cs : List Bytes) :
    ∀ (st : St) (off : Nat) (X XI : Array LByte) (h : HState), st.mem[bs]? = some ⟨X, baseS⟩ → st.mem[bi]? = some ⟨XI, basei⟩ → HObjV X h →
      baseS + X.size < ptrBase → basei + XI.size < ptrBase → st.mem.size + 2 < 2 ^ 30 → BytesV XI off cs.flatten →
      ∃ st' X', MUpdRun bs bi baseS basei st off cs st' ∧ st'.ent = st.ent ∧ st'.mem.size = st.mem.size ∧ st'.mem[bs]? = some ⟨X', baseS⟩ ∧ X'.size = X.size ∧
        HObjV X' (cs.foldl hmacUpdate h) ∧ OthV bs st'.mem st.mem := by
  induction cs with
  | nil =>
    intro st off X XI h hS _ ho _ _ _ _
    exact ⟨st, X, MUpdRun.nil st off, rfl, rfl, hS, rfl, ho, fun j _ => orel_eqv_refl _⟩
  | cons c cs ih =>
    intro st off X XI h hS hI ho hltS hltI hsz hd
    have hfl : (c :: cs).flatten = c ++ cs.flatten := rfl
    rw [hfl] at hd
    have hdc : BytesV XI off c := by
      have := bytesV_take' hd c.length
      rwa [List.take_left'] at this; rfl
    have hdr : BytesV XI (off + c.length) cs.flatten := by
      have := bytesV_drop hd c.length (by simp)
      rwa [List.drop_left'] at this; rfl
    obtain ⟨fuel, st1, X1, hrun, hent1, hmsz1, hS1, hX1s, ho1, hoth1⟩ := hmac_update_source st bs bi X XI baseS basei off h c hS hI hne ho halS hltS hltI hsz hdc
    obtain ⟨XI1, hI1, hI1s, hI1v⟩ := eqv_block (by have := hoth1 bi hne; rw [hI] at this; exact this)
    obtain ⟨st2, X2, hrun2, hent2, hmsz2, hS2, hX2s, ho2, hoth2⟩ := ih st1 (off + c.length) X1 XI1 (hmacUpdate h c) hS1 hI1 ho1 (by rw [hX1s]; exact hltS) (by rw [hI1s]; exact hltI)
      (by rw [hmsz1]; exact hsz) (bytesV_of_veq hI1v hdr)
    exact ⟨st2, X2, MUpdRun.cons st st1 st2 off fuel c cs hrun hrun2, hent2.trans hent1, hmsz2.trans hmsz1, hS2, hX2s.trans hX1s, ho2, OthV.trans hoth2 hoth1⟩

/-- **C12 (streaming form) on the regenerated source**: `tinyjambu_hmac_init` on a state object with ANY prior content, `tinyjambu_hmac_update` over ANY split of the message,
    `tinyjambu_hmac_finalize` with the same key: the 32 bytes written are RFC 2104 HMAC over the library's hash of the whole message (TJ.Props.C12.hmac_streaming_rfc2104) -/
theorem hmac_streaming_source (st : St) (bs bk bi bo : Nat) (X XK XI XO : Array LByte) (baseS basek koff basei off baseo oo : Nat) (prior : HState) (key : Bytes) (cs : List Bytes)
    (hS : st.mem[bs]? = some ⟨X, baseS⟩) (hK : st.mem[bk]? = some ⟨XK, basek⟩) (hI : st.mem[bi]? = some ⟨XI, basei⟩) (hO : st.mem[bo]? = some ⟨XO, baseo⟩)
    (hnk : bk ≠ bs) (hne : bi ≠ bs) (hno : bo ≠ bs) (hXs : 52 ≤ X.size) (halS : baseS % 4 = 0)
    (hltS : baseS + X.size < ptrBase) (hltK : basek + XK.size < ptrBase) (hltI : basei + XI.size < ptrBase) (hltO : baseo + XO.size < ptrBase)
    (hkd : BytesV XK koff key) (hin : oo + 32 ≤ XO.size) (hsz : st.mem.size + 5 < 2 ^ 30) (hd : BytesV XI off cs.flatten) :
    ∃ fuel0 st0 st1 fuel2 st2 XO', callFun prog fuel0 idx_tinyjambu_hmac_init false [(mkPtr bs baseS, .pub), (mkPtr bk (basek + koff), .pub), (key.length, .pub)] st =
        .ok .normal #[(0, .pub), (mkPtr bs baseS, .pub), (mkPtr bk (basek + koff), .pub), (key.length, .pub)] st0 ∧
      MUpdRun bs bi baseS basei st0 off cs st1 ∧
      callFun prog fuel2 idx_tinyjambu_hmac_finalize false [(mkPtr bs baseS, .pub), (mkPtr bk (basek + koff), .pub), (key.length, .pub), (mkPtr bo (baseo + oo), .pub)] st1 =
        .ok .normal #[(0, .pub), (mkPtr bs baseS, .pub), (mkPtr bk (basek + koff), .pub), (key.length, .pub), (mkPtr bo (baseo + oo), .pub)] st2 ∧
      st2.mem[bo]? = some ⟨XO', baseo⟩ ∧ BytesV XO' oo (Spec.hmac hash key cs.flatten) := by
  obtain ⟨f0, st0, X0, hr0, hent0, hmsz0, hS0, hX0s, ho0, hoth0⟩ := hmac_init_source st bs bk X XK baseS basek koff prior key hS hK hnk hXs halS hltS hltK hkd (by omega)
  obtain ⟨XI0, hI0, hI0s, hI0v⟩ := eqv_block (by have := hoth0 bi hne; rw [hI] at this; exact this)
  obtain ⟨st1, X1, hr1, hent1, hmsz1, hS1, hX1s, ho1, hoth1⟩ := hmac_updates_source bs bi baseS basei hne halS cs st0 off X0 XI0 (hmacInit prior key) hS0 hI0 ho0 (by rw [hX0s]; exact hltS)
    (by rw [hI0s]; exact hltI) (by rw [hmsz0]; omega) (bytesV_of_veq hI0v hd)
  have heq1 : ∀ j, j ≠ bs → ORel BlockEqV st1.mem[j]? st.mem[j]? := fun j hj =>
    orel_trans (R := BlockEqV) (fun _ _ _ p q => BlockEqV.trans p q) (hoth1 j hj) (hoth0 j hj)
  obtain ⟨XK1, hK1, hK1s, hK1v⟩ := eqv_block (by have := heq1 bk hnk; rw [hK] at this; exact this)
  obtain ⟨XO1, hO1, hO1s, _⟩ := eqv_block (by have := heq1 bo hno; rw [hO] at this; exact this)
  obtain ⟨f2, st2, X2, XO2, hr2, _, _, _, _, _, g4, _, g6, _⟩ := hmac_finalize_source st1 bs bk bo X1 XK1 XO1 baseS basek koff baseo oo _ key hS1 hK1 hO1 hnk hno ho1 halS
    (by rw [hX1s, hX0s]; exact hltS) (by rw [hK1s]; exact hltK) (by rw [hO1s]; exact hltO) (bytesV_of_veq hK1v hkd) (by rw [hO1s]; exact hin) (by rw [hmsz1, hmsz0]; exact hsz)
  rw [TJ.Props.C12.hmac_streaming_rfc2104 prior key cs] at g6
  exact ⟨f0, st0, st1, f2, st2, XO2, hr0, hr1, hr2, g4, g6⟩

end TJ.Props.StreamGen
