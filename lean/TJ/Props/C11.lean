/-
  C11 — hash streaming: any split into updates (empty chunks included), any prior state.
  No compression-function property is used, so this holds for any lower layer.
-/
import TJ.Proofs.Hash
namespace TJ.Props.C11
open TJ

/-- init + any sequence of updates + finalize = the one-shot function on the concatenation,
    whatever the state object held before `init` (arbitrary prior contents / history) -/
theorem streaming (prior : HState) (cs : List Bytes) :
    ((cs.foldl HState.update prior.init).finalize).1 = hash cs.flatten := by
  have hf := foldl_update_spec cs prior.init (init_inv _)
  rw [finalize_spec _ hf.2.2.1, hf.1, hf.2.1, init_pend, List.nil_append, hash_eq_hashPure]
  rfl

/-- two chunkings of the same message give the same digest -/
theorem chunking_irrelevant (p1 p2 : HState) (cs1 cs2 : List Bytes) (h : cs1.flatten = cs2.flatten) :
    ((cs1.foldl HState.update p1.init).finalize).1 = ((cs2.foldl HState.update p2.init).finalize).1 := by
  rw [streaming, streaming, h]

/-- `init` is a complete reset of everything the digest depends on: the private fields after `init`
    do not depend on the prior state (only the 4 tail bytes the library never reads are kept) -/
theorem init_resets (p1 p2 : HState) : { p1.init with tail := [] } = { p2.init with tail := [] } := rfl

/-- empty updates (NULL/0 included: the model does not distinguish the pointer) change nothing observable -/
theorem empty_update (h : HState) (hi : h.Inv) : (h.update []).core = h.core ∧ (h.update []).pend = h.pend := by
  have hu := update_spec h [] hi
  have hl : (h.pend ++ []).length < 16 := by simp [HState.pend]; have := hi.1; omega
  rw [absorb16_short _ _ hl] at hu
  exact ⟨hu.1, by simpa using hu.2.1⟩

/-- several state objects: a world of numbered objects; an operation on object `i` leaves every
    other object untouched, so the digest produced by object `j` depends only on the operations
    addressed to `j` -/
inductive Op
  | init (i : Nat)
  | update (i : Nat) (d : Bytes)
  | finalize (i : Nat)
  | free (i : Nat)

def Op.obj : Op → Nat
  | .init i => i | .update i _ => i | .finalize i => i | .free i => i

def step (w : Nat → HState) (op : Op) : Nat → HState :=
  fun j => if j = op.obj then
    match op with
    | .init _ => (w j).init
    | .update _ d => (w j).update d
    | .finalize _ => (w j).finalize.2
    | .free _ => (w j).free
  else w j

/-- the ops addressed to object `j`, applied to `j`'s state alone -/
def stepOne (h : HState) (op : Op) : HState :=
  match op with
  | .init _ => h.init
  | .update _ d => h.update d
  | .finalize _ => h.finalize.2
  | .free _ => h.free

theorem objects_independent (ops : List Op) (w : Nat → HState) (j : Nat) :
    (ops.foldl step w) j = (ops.filter (fun o => o.obj = j)).foldl stepOne (w j) := by
  induction ops generalizing w with
  | nil => rfl
  | cons op ops ih =>
    simp only [List.foldl_cons, List.filter_cons]
    rw [ih]
    by_cases h : op.obj = j
    · simp only [h, decide_true, if_true, List.foldl_cons]
      congr 1
      simp only [step, h, if_true]
      cases op <;> rfl
    · have h' : ¬ j = op.obj := fun e => h e.symm
      simp only [h, decide_false, step, h', if_false]
      rfl

/-- non-vacuity: a concrete split of a 40-byte message across a block boundary, on a dirty state -/
example (prior : HState) (a b c : Bytes) :
    (([a, [], b, c].foldl HState.update prior.init).finalize).1 = hash (a ++ b ++ c) := by
  rw [streaming]; simp

end TJ.Props.C11
