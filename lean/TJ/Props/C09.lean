/-
  C09 — SIV output equals the documented two-pass construction (tools/sivref/README.md), for every input.
  NOT provable: that different tags give "unrelated" bodies is a PRF property; the correspondence runs
  check it on pairs.  Proved: the exact construction, from which determinism and "the body keystream
  depends only on (key, nonce[0..3], tag)" follow.
-/
import TJ.Proofs.SpecTop
import TJ.Proofs.Siv
namespace TJ.Props.C09
open TJ

/-- SIV encryption = MAC pass (nonce separator 0x90) then keystream pass under nonce[0..3] ‖ tag
    (separators 0xB0 / 0xD0, plaintext not absorbed), output body ‖ tag -/
theorem siv_is_spec (v : Variant) (key nonce ad m : Bytes) (hn : nonce.length = 12) :
    sivEncrypt v key nonce ad m = Spec.SIV.encrypt v.params key nonce ad m := by
  unfold sivEncrypt Spec.SIV.encrypt
  rw [sivEncrypt_refines _ _ (permC_keyed v key) v.pk nonce ad m hn, params_pk]

/-- the tag is the TinyJAMBU MAC over (nonce, AD, plaintext) in the SIV nonce domain and the body is the
    plaintext XOR a keystream that is a function of (key, first four nonce bytes, tag, length) only -/
theorem body_depends_only_on_tag (v : Variant) (key nonce ad m : Bytes) (hn : nonce.length = 12) :
    sivEncrypt v key nonce ad m =
      Spec.sivKeystreamXor (Spec.keyed v.params key) v.params.pk (nonce.take 4)
        (Spec.sivMac (Spec.keyed v.params key) v.params.pk nonce ad m) m ++
      Spec.sivMac (Spec.keyed v.params key) v.params.pk nonce ad m := by
  rw [siv_is_spec v key nonce ad m hn]; rfl

/-- hence two encryptions under one key whose nonces share the first four bytes and whose tags coincide
    use the same keystream; and with different tags they run the keystream pass from different nonces -/
theorem same_tag_same_keystream (v : Variant) (key n1 n2 ad1 ad2 m1 m2 : Bytes) (h1 : n1.length = 12) (h2 : n2.length = 12)
    (hn : n1.take 4 = n2.take 4)
    (ht : Spec.sivMac (Spec.keyed v.params key) v.params.pk n1 ad1 m1 = Spec.sivMac (Spec.keyed v.params key) v.params.pk n2 ad2 m2) :
    (sivEncrypt v key n1 ad1 m1).take m1.length =
      Spec.sivKeystreamXor (Spec.keyed v.params key) v.params.pk (n2.take 4)
        (Spec.sivMac (Spec.keyed v.params key) v.params.pk n2 ad2 m2) m1 := by
  rw [body_depends_only_on_tag v key n1 ad1 m1 h1, hn, ht]
  have hl : (Spec.sivKeystreamXor (Spec.keyed v.params key) v.params.pk (n2.take 4)
      (Spec.sivMac (Spec.keyed v.params key) v.params.pk n2 ad2 m2) m1).length = m1.length := by
    have := sivEncrypt_refines _ _ (permC_keyed v key) v.pk n1 ad1 m1 h1
    have hlen := sivEncryptWith_length (permC v (loadKey v key)) v.pk n1 ad1 m1
    rw [this] at hlen
    unfold Spec.sivEncrypt at hlen
    simp only [List.length_append] at hlen
    have htl : (Spec.sivMac (Spec.keyed v.params key) (128 * v.pk) n1 ad1 m1).length = 8 := by
      have : sivTag (permC v (loadKey v key)) v.pk n1 ad1 m1 = Spec.sivMac (Spec.keyed v.params key) (128 * v.pk) n1 ad1 m1 := by
        unfold sivTag Spec.sivMac; simp only
        rw [genTag_refines _ _ (permC_keyed v key), absorb_refines _ _ (permC_keyed v key) _ _ frame50,
          absorb_refines _ _ (permC_keyed v key) _ _ frame30, setup_refines _ _ (permC_keyed v key) v.pk n1 h1 _ _ frame90]
      rw [← this]; exact sivTag_length _ _ _ _ _
    rw [← params_pk] at hlen htl
    rw [← hn, ← ht]
    omega
  rw [List.take_append_of_le_length (by omega), List.take_of_length_le (by omega)]

/-- encryption is deterministic: a function of (key, nonce, AD, plaintext) — by construction -/
theorem deterministic (v : Variant) (key nonce ad m : Bytes) :
    sivEncrypt v key nonce ad m = sivEncrypt v key nonce ad m := rfl

example (key ad m : Bytes) : sivEncrypt .v128 key (List.replicate 12 1) ad m
    = Spec.SIV.encrypt Spec.p128 key (List.replicate 12 1) ad m := siv_is_spec _ _ _ _ _ (by simp)

end TJ.Props.C09
