/-
  C18 / C17 — the link between the source-level specification `GS` (which every history of calls on the REGENERATED code follows for either entropy source,
  `TJ.Props.C16Gen.history_source_either` / `init_system_then_history`) and the hand model with the OPERATING-SYSTEM outcome script (`Ent.sys`, `trngRead`).

  In the MiniC semantics `tinyjambu_trng_generate` is the `.entropy` primitive: one scripted delivery (bytes written, value returned) per call.  The hand model of
  src/random/tinyjambu-trng-dev-random.c consumes a list of OS outcomes instead: transient errors (EINTR / EAGAIN) are retried, the first `ok` or permanent error ends
  the call.  `collapse` folds an OS script into the deliveries the primitive sees — every run of transient errors disappears, `ok b` becomes `(b, 1)`, a permanent error
  becomes `(32 zero bytes, 0)` — followed by `N` default successes for the calls made after the script is exhausted (what the harness' interposed libc delivers).

  * `request_link`        one `trngRead` = one delivery of `sysScript`, the seed buffer and the status agree
  * `reseed_link_sys`     `Prng.reseed` with the system source = `GS.reseed` on the collapsed script
  * `genLoop_link_sys`    `Prng.genLoop` (every size) = `GS.loop`
  * `runOps_link_sys`     EVERY history of generate / feed / reseed / set-limit = `GS.runOps`, provided `N` covers the requests the history can make
                          after the script is exhausted (`cost`: one per reseed, one per output block)
  * `init_link_sys`       `Prng.init` = the first delivery, status 1 exactly on success
  so the statements of `TJ.Props.C16Gen.init_system_then_history` about the regenerated code are statements about the hand model's `Prng.init` / `runOps` with `Ent.sys`,
  for which `TJ.Props.C18` proves the retry / permanent-error behaviour.
-/
import TJ.Props.C16Gen
import TJ.Props.C18
namespace TJ.Props.C18Gen
open TJ TJ.MiniC TJ.MiniC.Hoare TJ.MiniC.PermC TJ.Gen.MiniC TJ.Props.C15Gen TJ.Props.C16Gen

def dflt : MiniC.Delivery := (defaultEntropy, 1)

/-- an OS outcome script as the deliveries the `.entropy` primitive makes: transient errors are retried inside one call -/
def collapse : List OsOutcome → List MiniC.Delivery
  | [] => []
  | .eintr :: r => collapse r
  | .eagain :: r => collapse r
  | .err _ :: r => (zeros 32, 0) :: collapse r
  | .ok b :: r => (b, 1) :: collapse r

def sysScript (os : List OsOutcome) (N : Nat) : List MiniC.Delivery := collapse os ++ List.replicate N dflt

def SmallOs (os : List OsOutcome) : Prop := ∀ b, OsOutcome.ok b ∈ os → b.length ≤ 32

theorem SmallOs.tail {o : OsOutcome} {r : List OsOutcome} (h : SmallOs (o :: r)) : SmallOs r := fun b hb => h b (List.mem_cons_of_mem _ hb)

theorem default_len : defaultEntropy.length = 32 := by simp [defaultEntropy]

theorem seedOf_zeros (V : Bytes) (hV : V.length = 32) : seedOf (zeros 32, 0) V = zeros V.length := by
  rw [seedOf_writeAt (zeros 32) 0 V (by simp [zeros]) hV]
  unfold writeAt
  simp only [List.take_zero, List.nil_append, Nat.zero_add]
  have : (zeros 32).length = 32 := by simp [zeros]
  rw [this, List.drop_of_length_le (by omega), List.append_nil, hV]

/-- **one call of the system source**: `trngRead` on the OS script is one delivery of the collapsed script -/
theorem request_link (os : List OsOutcome) (V : Bytes) (hV : V.length = 32) : ∀ (n N : Nat), SmallOs os → 1 ≤ N →
    ∃ d N', sysScript os N = d :: sysScript (trngRead os V n).2.2.1 N' ∧ N ≤ N' + 1 ∧ N' ≤ N ∧ seedOf d V = (trngRead os V n).2.1 ∧
      (d.2 ≠ 0 ↔ (trngRead os V n).1 = true) ∧ SmallOs (trngRead os V n).2.2.1 := by
  induction os with
  | nil =>
    intro n N _ hN
    refine ⟨dflt, N - 1, ?_, by omega, by omega, ?_, by simp [trngRead, dflt], fun b hb => by simp [trngRead] at hb⟩
    · obtain ⟨m, rfl⟩ : ∃ m, N = m + 1 := ⟨N - 1, by omega⟩
      simp only [sysScript, collapse, List.nil_append, trngRead, List.replicate_succ, Nat.add_sub_cancel]
    · simp only [trngRead, dflt]
      exact seedOf_writeAt defaultEntropy 1 V (by rw [default_len]; exact Nat.le_refl _) hV
  | cons o r ih =>
    intro n N hs hN
    cases o with
    | eintr => simpa only [trngRead, sysScript, collapse] using ih (n + 1) N hs.tail hN
    | eagain => simpa only [trngRead, sysScript, collapse] using ih (n + 1) N hs.tail hN
    | err k =>
      refine ⟨(zeros 32, 0), N, by simp only [trngRead, sysScript, collapse, List.cons_append], by omega, Nat.le_refl _, ?_, by simp [trngRead], hs.tail⟩
      simp only [trngRead]; exact seedOf_zeros V hV
    | ok b =>
      refine ⟨(b, 1), N, by simp only [trngRead, sysScript, collapse, List.cons_append], by omega, Nat.le_refl _, ?_, by simp [trngRead], hs.tail⟩
      simp only [trngRead]
      exact seedOf_writeAt b 1 V (hs b List.mem_cons_self) hV

/-- the hand model's state with the system source as the source-level generator state -/
def toGSs (p : Prng) (e : Ent) (N : Nat) : GS := ⟨p.V, p.C, p.rc.toNat, p.rl.toNat, sysScript e.sys N⟩

theorem reseed_link_sys (p : Prng) (e : Ent) (N : Nat) (hcb : p.cb = .system) (hs : SmallOs e.sys) (hV : p.V.length = 32) (hN : 1 ≤ N) :
    ∃ ret p' e' N', p.reseed e = some (ret, p', e') ∧ toGSs p' e' N' = (toGSs p e N).reseed ∧ p'.cb = .system ∧ SmallOs e'.sys ∧ C15.Shape p' ∧
      N ≤ N' + 1 ∧ N' ≤ N ∧ p'.rl = p.rl ∧ (ret = 1 ↔ ((toGSs p e N).ent.headD ([], 0)).2 ≠ 0) := by
  obtain ⟨d, N', h1, h2, h3, h4, h5, h6⟩ := request_link e.sys p.V hV 0 N hs hN
  refine ⟨if (if (trngRead e.sys p.V 0).1 = true then 32 else 0) = 32 then 1 else 0,
    { p with V := hashDf 1 p.V (trngRead e.sys p.V 0).2.1, C := hashDf 0 (hashDf 1 p.V (trngRead e.sys p.V 0).2.1) [], rc := 1 },
    { e with sys := (trngRead e.sys p.V 0).2.2.1, oscalls := e.oscalls + (trngRead e.sys p.V 0).2.2.2 }, N',
    by simp only [Prng.reseed, Ent.request, hcb], ?_, hcb, h6, ⟨C15.hashDf_length _ _ _, C15.hashDf_length _ _ _⟩, h2, h3, rfl, ?_⟩
  · simp only [toGSs, GS.reseed, h1, List.headD_cons, List.tail_cons, h4]; rfl
  · simp only [toGSs, h1, List.headD_cons]
    rw [h5]
    by_cases hb : (trngRead e.sys p.V 0).1 = true <;> simp [hb]

theorem auto_link_sys (p : Prng) (e : Ent) (N : Nat) (hcb : p.cb = .system) (hs : SmallOs e.sys) (hsh : C15.Shape p) (hN : 1 ≤ N) :
    ∃ p1 e1 rq N', p.autoReseed e = some (p1, e1, rq) ∧ toGSs p1 e1 N' = (toGSs p e N).auto ∧ p1.cb = .system ∧ SmallOs e1.sys ∧ C15.Shape p1 ∧ N ≤ N' + 1 ∧ N' ≤ N := by
  unfold Prng.autoReseed GS.auto
  by_cases hc : p.rc > p.rl
  · obtain ⟨ret, p', e', N', h1, h2, h3, h4, h5, h6, h7, _, _⟩ := reseed_link_sys p e N hcb hs hsh.1 hN
    have hc' : (toGSs p e N).rc > (toGSs p e N).rl := by show p.rc.toNat > p.rl.toNat; exact UInt32.lt_iff_toNat_lt.mp hc
    simp only [hc, if_true, h1, hc']
    exact ⟨p', e', [.request], N', rfl, h2, h3, h4, h5, h6, h7⟩
  · have hc' : ¬ (toGSs p e N).rc > (toGSs p e N).rl := by show ¬ p.rc.toNat > p.rl.toNat; exact fun h => hc (UInt32.lt_iff_toNat_lt.mpr h)
    simp only [hc, if_false, hc']
    exact ⟨p, e, [], N, rfl, rfl, hcb, hs, hsh, by omega, Nat.le_refl _⟩

theorem block_link_sys (p : Prng) (e : Ent) (N : Nat) (hs : C15.Shape p) :
    p.block.1 = (toGSs p e N).block.1 ∧ toGSs p.block.2 e N = (toGSs p e N).block.2 ∧ C15.Shape p.block.2 := by
  obtain ⟨h1, h2, h3⟩ := block_link p e hs
  refine ⟨rfl, ?_, h3⟩
  simp only [toGSs, Prng.block, GS.block, toUInt32_toNat]
  congr 1

/-- number of output blocks of a `generate` of `size` bytes: an upper bound for the entropy requests it can make -/
def blocks (size : Nat) : Nat := (size + 31) / 32

/-- the hand model's `Prng.genLoop` with the SYSTEM source is the source-level block loop on the collapsed script -/
theorem genLoop_link_sys : ∀ (n size : Nat) (p : Prng) (e : Ent) (N : Nat), size ≤ n → p.cb = .system → SmallOs e.sys → C15.Shape p → blocks size ≤ N →
    ∃ r N', p.genLoop e size = some r ∧ r.out = ((toGSs p e N).loop size).1 ∧ toGSs r.p r.e N' = ((toGSs p e N).loop size).2 ∧ r.p.cb = .system ∧ SmallOs r.e.sys ∧ C15.Shape r.p ∧
      N ≤ N' + blocks size ∧ N' ≤ N
  | n, 0, p, e, N, _, hcb, hs, hsh, _ => by
    rw [Prng.genLoop, gsLoop_zero]
    simp only [if_true]
    exact ⟨_, N, rfl, rfl, rfl, hcb, hs, hsh, by omega, Nat.le_refl _⟩
  | 0, size + 1, p, e, N, h, _, _, _, _ => by omega
  | n + 1, size + 1, p, e, N, h, hcb, hs, hsh, hN => by
    have hb : blocks (size + 1) = blocks (size + 1 - min 32 (size + 1)) + 1 := by unfold blocks; omega
    obtain ⟨p1, e1, rq, N1, ha, hga, hcb1, hs1, hsh1, hn1, hn1'⟩ := auto_link_sys p e N hcb hs hsh (by omega)
    obtain ⟨hb1, hb2, hsh2⟩ := block_link_sys p1 e1 N1 hsh1
    have hcb2 : p1.block.2.cb = .system := hcb1
    obtain ⟨r, N', hr1, hr2, hr3, hr4, hr5, hr6, hr7, hr8⟩ := genLoop_link_sys n (size + 1 - min 32 (size + 1)) p1.block.2 e1 N1 (by omega) hcb2 hs1 hsh2 (by omega)
    rw [Prng.genLoop, gsLoop_pos _ _ (by omega)]
    simp only [show ¬ size + 1 = 0 from by omega, if_false, ha, hr1]
    rw [← hga, ← hb2, ← hb1]
    exact ⟨_, N', rfl, by rw [hr2], hr3, hr4, hr5, hr6, by omega, by omega⟩

/-- entropy requests a history can make: one per reseed, at most one per output block -/
def cost : List POp → Nat
  | [] => 0
  | .gen n :: ops => blocks n + cost ops
  | .reseed :: ops => 1 + cost ops
  | _ :: ops => cost ops

theorem feed_link_sys (p : Prng) (e : Ent) (N : Nat) (d : Bytes) : toGSs (p.feed d) e N = (toGSs p e N).feed d := by
  have hrc : (p.feed d).rc.toNat = if p.rc.toNat = 4294967295 then p.rc.toNat else p.rc.toNat + 1 := by
    simp only [Prng.feed]
    by_cases h : p.rc.toNat = 4294967295
    · have : ¬ p.rc < 0xFFFFFFFF := by rw [UInt32.lt_iff_toNat_lt]; simp [h]
      simp only [this, if_false, h, if_true]
    · have hlt : p.rc < 0xFFFFFFFF := by rw [UInt32.lt_iff_toNat_lt]; have := p.rc.toNat_lt; simp; omega
      simp only [hlt, if_true, h, if_false]
      rw [UInt32.toNat_add]; have := p.rc.toNat_lt; simp; omega
  simp only [toGSs, GS.feed, hrc]
  rfl

theorem limit_link_sys (p : Prng) (e : Ent) (N : Nat) (n : Nat) : toGSs (p.setLimit n) e N = (toGSs p e N).setLimit n := by
  have hl : TJ.limitBlocks n = Hoare.limitBlocks n := by
    unfold TJ.limitBlocks Hoare.limitBlocks
    by_cases h : n > 1048576
    · simp only [h, if_true]
      rw [Nat.min_eq_right (by omega)]
      decide
    · simp only [h, if_false]; split <;> omega
  simp only [toGSs, GS.setLimit, setLimit_rl, hl]
  rfl

/-- **every history with the system source**: the hand model's `Prng.runOps` over the OS outcome script is the source-level specification `GS.runOps` over the collapsed
    script, as long as `N` default deliveries cover the requests made after the script runs out -/
theorem runOps_link_sys (ops : List POp) : ∀ (p : Prng) (e : Ent) (N : Nat), p.cb = .system → SmallOs e.sys → C15.Shape p → cost ops ≤ N →
    ∃ p' e' t N', p.runOps e ops = some (p', e', t) ∧ toGSs p' e' N' = (toGSs p e N).runOps ops ∧ p'.cb = .system ∧ SmallOs e'.sys ∧ C15.Shape p' ∧ N' ≤ N := by
  induction ops with
  | nil => intro p e N hcb hs hsh _; exact ⟨p, e, [], N, rfl, rfl, hcb, hs, hsh, Nat.le_refl _⟩
  | cons op ops ih =>
    intro p e N hcb hs hsh hN
    cases op with
    | gen n =>
      simp only [cost] at hN
      obtain ⟨r, N1, h1, _, h3, h4, h5, h6, h7, h8⟩ := genLoop_link_sys n n p e N (Nat.le_refl _) hcb hs hsh (by omega)
      obtain ⟨p', e', t, N', g1, g2, g3, g4, g5, g6⟩ := ih r.p r.e N1 h4 h5 h6 (by omega)
      refine ⟨p', e', r.trace ++ t, N', by simp only [Prng.runOps, Prng.runOp, Prng.generate, h1, g1], ?_, g3, g4, g5, by omega⟩
      rw [g2, h3]; rfl
    | feed d =>
      simp only [cost] at hN
      obtain ⟨p', e', t, N', g1, g2, g3, g4, g5, g6⟩ := ih (p.feed d) e N hcb hs ⟨C15.hashDf_length _ _ _, C15.hashDf_length _ _ _⟩ hN
      refine ⟨p', e', [] ++ t, N', by simp only [Prng.runOps, Prng.runOp, g1], ?_, g3, g4, g5, g6⟩
      rw [g2, feed_link_sys]; rfl
    | reseed =>
      simp only [cost] at hN
      obtain ⟨ret, p1, e1, N1, h1, h2, h3, h4, h5, h6, h7, _, _⟩ := reseed_link_sys p e N hcb hs hsh.1 (by omega)
      obtain ⟨p', e', t, N', g1, g2, g3, g4, g5, g6⟩ := ih p1 e1 N1 h3 h4 h5 (by omega)
      refine ⟨p', e', [.request] ++ t, N', by simp only [Prng.runOps, Prng.runOp, h1, g1], ?_, g3, g4, g5, by omega⟩
      rw [g2, h2]; rfl
    | limit n =>
      simp only [cost] at hN
      obtain ⟨p', e', t, N', g1, g2, g3, g4, g5, g6⟩ := ih (p.setLimit n) e N hcb hs hsh hN
      refine ⟨p', e', [.limit (p.setLimit n).rl.toNat] ++ t, N', by simp only [Prng.runOps, Prng.runOp, g1], ?_, g3, g4, g5, g6⟩
      rw [g2, limit_link_sys]; rfl

/-- `Prng.init` (= `tinyjambu_prng_init`, also what a NULL callback selects) with the OS script = the first delivery of the collapsed script -/
theorem init_link_sys (custom : Bytes) (e : Ent) (N : Nat) (hs : SmallOs e.sys) (hN : 1 ≤ N) :
    ∃ ret p0 e0 N', Prng.init custom e = some (ret, p0, e0) ∧
      toGSs p0 e0 N' = ⟨hashDf 0xFF (seedOf ((sysScript e.sys N).headD ([], 0)) (zeros 32)) custom,
                        hashDf 0 (hashDf 0xFF (seedOf ((sysScript e.sys N).headD ([], 0)) (zeros 32)) custom) [], 1, 32, (sysScript e.sys N).tail⟩ ∧
      p0.cb = .system ∧ SmallOs e0.sys ∧ C15.Shape p0 ∧ N ≤ N' + 1 ∧ N' ≤ N ∧
      (ret = if ((sysScript e.sys N).headD ([], 0)).2 ≠ 0 then 1 else 0) ∧ (ret = 1 ↔ (trngRead e.sys (zeros 32) 0).1 = true) := by
  have hz : (zeros 32).length = 32 := by simp [zeros]
  obtain ⟨d, N', h1, h2, h3, h4, h5, h6⟩ := request_link e.sys (zeros 32) hz 0 N hs hN
  refine ⟨if (if (trngRead e.sys (zeros 32) 0).1 = true then 32 else 0) = 32 then 1 else 0,
    { V := hashDf 0xFF (trngRead e.sys (zeros 32) 0).2.1 custom, C := hashDf 0 (hashDf 0xFF (trngRead e.sys (zeros 32) 0).2.1 custom) [], rc := 1, rl := 32, cb := .system, ud := false,
      tail := zeros 8 },
    { e with sys := (trngRead e.sys (zeros 32) 0).2.2.1, oscalls := e.oscalls + (trngRead e.sys (zeros 32) 0).2.2.2 }, N', ?_, ?_, rfl, h6,
    ⟨C15.hashDf_length _ _ _, C15.hashDf_length _ _ _⟩, h2, h3, ?_, ?_⟩
  · simp [Prng.init, Prng.initUser, Ent.request]
  · simp only [toGSs, h1, List.headD_cons, List.tail_cons, h4]; rfl
  · simp only [h1, List.headD_cons]
    by_cases hb : (trngRead e.sys (zeros 32) 0).1 = true
    · have := h5.2 hb; simp [hb, this]
    · have : ¬ d.2 ≠ 0 := fun h => hb (h5.1 h)
      simp [hb, this]
  · by_cases hb : (trngRead e.sys (zeros 32) 0).1 = true <;> simp [hb]

/-- **C17 / C18 on the regenerated source, in terms of the OS outcome script**: let the entropy primitive deliver what the OS script `e.sys` collapses to (`sysScript`).
    Then `tinyjambu_prng_init` on the regenerated code returns exactly the status of the hand model's `Prng.init` — 1 iff `trngRead` (retry transient errors, stop at the
    first success or permanent error) succeeded — and after ANY history of generate / feed / reseed / set-limit calls the state object holds the state `Prng.runOps`
    computes from the OS script; nothing faults whatever the OS did. -/
theorem init_system_history_is_model (G : PGeo) (hud : G.ud = 0) (st : St) (X XD : Array LByte) (ioff : Nat) (custom : Bytes) (ops : List POp) (e : Ent) (N : Nat)
    (hs : SmallOs e.sys) (hN : cost ops + 1 ≤ N) (hent : st.ent = sysScript e.sys N)
    (hP : st.mem[G.bp]? = some ⟨X, G.baseP⟩) (hXs : X.size = G.xsz) (h96 : 96 ≤ G.xsz)
    (hD : st.mem[G.bd]? = some ⟨XD, G.based⟩) (hDs : XD.size = G.dsz)
    (hI : st.mem[G.bi]? = some ⟨G.XI, G.basei⟩) (hd : BytesV G.XI ioff custom) (hmsz : st.mem.size = G.msz) (hok : ∀ op ∈ ops, OpOk G op) :
    ∃ (fuel : Nat) (st0 : St) (ret : Int) (p0 : Prng) (e0 : Ent) (p' : Prng) (e' : Ent) (t : List Ev) (N' : Nat) (st' : St),
      Prng.init custom e = some (ret, p0, e0) ∧ (ret = 1 ↔ (trngRead e.sys (zeros 32) 0).1 = true) ∧
      callFun prog fuel idx_tinyjambu_prng_init true [(mkPtr G.bp G.baseP, .pub), (mkPtr G.bi (G.basei + ioff), .pub), (custom.length, .pub)] st =
        .ok .normal #[(ret.toNat, .pub), (mkPtr G.bp G.baseP, .pub), (mkPtr G.bi (G.basei + ioff), .pub), (custom.length, .pub)] st0 ∧
      p0.runOps e0 ops = some (p', e', t) ∧ PRun G st0 ops st' ∧ GMI G sysCb (toGSs p' e' N') st' := by
  have hGsz := G.hsz
  obtain ⟨fuel, st0, hrun, hent0, hms0, ⟨X0, hX0, hX0s, ho0, hcb0⟩, hoth0⟩ := TJ.Props.C17Gen.init_source st G.bp G.bi X G.XI G.baseP G.basei ioff custom hP (by rw [hXs]; exact h96) G.hal
    (by rw [hXs]; exact G.hltP) hI hd G.hltI G.hpi (by rw [hmsz]; omega)
  obtain ⟨Z, hZ, hZs, hZv⟩ := keep_veq (hoth0 G.bi G.hpi) hI
  obtain ⟨ZD, hZD, hZDs, _⟩ := keep_veq (hoth0 G.bd G.hpd.symm) hD
  obtain ⟨ret, p0, e0, N0, i1, i2, i3, i4, i5, i6, i7, i8, i9⟩ := init_link_sys custom e N hs (by omega)
  have m0 : GMI G sysCb (toGSs p0 e0 N0) st0 := by
    rw [i2, ← hent]
    exact ⟨⟨X0, hX0, hX0s.trans hXs, ho0, by rw [hud]; exact hcb0⟩, ⟨ZD, hZD, hZDs.trans hDs⟩, ⟨Z, hZ, hZs, hZv⟩, hent0, hms0.trans hmsz⟩
  obtain ⟨st', hr, m'⟩ := history_source_either G sysCb (Or.inr rfl) ops _ st0 m0 hok
  obtain ⟨p', e', t, N', g1, g2, _, _, _, _⟩ := runOps_link_sys ops p0 e0 N0 i3 i4 i5 (by omega)
  refine ⟨fuel, st0, ret, p0, e0, p', e', t, N', st', i1, i9, ?_, g1, hr, by rw [g2]; exact m'⟩
  rw [hrun, i8, hent]
  by_cases h0 : ((sysScript e.sys N).headD ([], 0)).2 = 0
  · rw [if_neg (by simpa using h0), if_neg (by simpa using h0)]; rfl
  · rw [if_pos h0, if_pos h0]; rfl

/-! non-vacuity: a concrete OS script (two transient errors, a short success, a transient error, a permanent error) and what the primitive delivers -/
example : sysScript [.eintr, .eagain, .ok [1, 2, 3], .eintr, .err 5] 2 = [([1, 2, 3], 1), (zeros 32, 0), dflt, dflt] := rfl
example : SmallOs [.eintr, .eagain, .ok [1, 2, 3], .eintr, .err 5] := by
  intro b hb
  simp at hb
  subst hb
  decide
example : cost [.gen 33, .reseed, .feed [1], .limit 64, .gen 0] = 3 := rfl

end TJ.Props.C18Gen
