/-
  C20 — state erasure.

  Statements about the terms REGENERATED from /repo's C sources (TJ.Gen.MiniC.Prog):

  * `hash_free_erases`, `hmac_free_erases`, `hkdf_free_erases`, `prng_free_erases`: calling the free
    function on a pointer to a state object of the public size (56 / 56 / 72 / 96 bytes) completes and
    leaves EVERY byte of the object zero (and public), whatever the object contained before — i.e.
    after any history — and changes no other block.  The proofs execute the regenerated function
    bodies symbolically, so they depend on what the C source says now: the free function must reach
    the wipe primitive with the pointer it was given and `sizeof` of the public type.
  * `clean_exact`: `tinyjambu_clean(p + off, n)` (configuration with explicit_bzero, which the
    semantics models as a store of `n` zero bytes that cannot be elided) zeroes exactly the bytes
    `[off, off+n)` of the block and leaves every other byte as it was, for every offset and size.
  * `TJ.Props.C20Fallback` (generated from the same source with HAVE_EXPLICIT_BZERO / HAVE_MEMSET_S
    switched off) proves the same for the volatile byte loop.
  Not provable here: that a compiler keeps the stores (observed on the compiler / optimisation matrix by
  reading the memory back after the call); explicit_bzero itself is libc.
-/
import TJ.Proofs.MiniCKernels
import TJ.Props.C06
namespace TJ.Props.C20
open TJ.MiniC TJ.Gen.MiniC

/-- what "erased" means for block `b` of `n` bytes: all bytes zero, everything else untouched -/
def Erased (st st' : St) (b n : Nat) : Prop :=
  (∀ i, i < n → (blockBytes st'.mem b)[i]? = some (0, Lab.pub)) ∧ (blockBytes st'.mem b).size = n ∧
  (∀ b', b' ≠ b → st'.mem[b']? = st.mem[b']?) ∧ st'.mem.size = st.mem.size

theorem wiped_erased (st : St) (b n : Nat) (blk : Block) (hb : st.mem[b]? = some blk) (extra : List Ev) :
    Erased st (wiped st b n extra) b n := by
  have hget := getElem?_setBlock st.mem b (Array.replicate n (0, Lab.pub)) blk hb
  refine ⟨fun i hi => ?_, ?_, fun b' hne => ?_, ?_⟩
  · simp only [wiped, blockBytes, hget b, if_true, Array.getElem?_replicate, hi]
  · simp only [wiped, blockBytes, hget b, if_true, Array.size_replicate]
  · simp only [wiped, hget b', hne, if_false]
  · simp only [wiped, size_setBlock]

/-- every history of a hash state object ends, after `tinyjambu_hash_free`, in 56 zero bytes -/
theorem hash_free_erases (fuel : Nat) (st : St) (b : Nat) (blk : Block) (hb : st.mem[b]? = some blk)
    (hbase : blk.base = 0) (hsz : blk.bytes.size = 56) :
    ∃ env st', callFun prog (fuel + 4) idx_tinyjambu_hash_free false [(mkPtr b 0, .pub)] st = .ok .normal env st' ∧
      Erased st st' b 56 :=
  ⟨_, _, hash_free_zeroes fuel st b blk hb hbase hsz, wiped_erased st b 56 blk hb _⟩

theorem hmac_free_erases (fuel : Nat) (st : St) (b : Nat) (blk : Block) (hb : st.mem[b]? = some blk)
    (hbase : blk.base = 0) (hsz : blk.bytes.size = 56) :
    ∃ env st', callFun prog (fuel + 6) idx_tinyjambu_hmac_free false [(mkPtr b 0, .pub)] st = .ok .normal env st' ∧
      Erased st st' b 56 :=
  ⟨_, _, hmac_free_zeroes fuel st b blk hb hbase hsz, wiped_erased st b 56 blk hb _⟩

theorem hkdf_free_erases (fuel : Nat) (st : St) (b : Nat) (blk : Block) (hb : st.mem[b]? = some blk)
    (hbase : blk.base = 0) (hsz : blk.bytes.size = 72) :
    ∃ env st', callFun prog (fuel + 3) idx_tinyjambu_hkdf_free false [(mkPtr b 0, .pub)] st = .ok .normal env st' ∧
      Erased st st' b 72 :=
  ⟨_, _, hkdf_free_zeroes fuel st b blk hb hbase hsz, wiped_erased st b 72 blk hb _⟩

theorem prng_free_erases (fuel : Nat) (st : St) (b : Nat) (blk : Block) (hb : st.mem[b]? = some blk)
    (hbase : blk.base = 0) (hsz : blk.bytes.size = 96) :
    ∃ env st', callFun prog (fuel + 3) idx_tinyjambu_prng_free false [(mkPtr b 0, .pub)] st = .ok .normal env st' ∧
      Erased st st' b 96 :=
  ⟨_, _, prng_free_zeroes fuel st b blk hb hbase hsz, wiped_erased st b 96 blk hb _⟩

/-- `tinyjambu_clean(p, n)` with `p` pointing at offset `off` of a block: afterwards byte `i` of that block is
    zero iff `off ≤ i < off + n`, and unchanged otherwise; no other block changes -/
theorem clean_exact (fuel : Nat) (env : Env) (st : St) (ep en : Expr) (p n b off : Nat)
    (hp : evalE env ep = .ok (p, .pub)) (hn : evalE env en = .ok (n, .pub)) (hn32 : n < 4294967296) (hn0 : n ≠ 0)
    (hr : resolve st.mem p 1 = .ok (b, off)) (hsz : off + n ≤ (blockBytes st.mem b).size) :
    ∃ st', exec prog (fuel + 2) (.call none idx_tinyjambu_clean [ep, en]) env st = .ok .normal env st' ∧
      (∀ i, (blockBytes st'.mem b)[i]? =
        if off ≤ i ∧ i < off + n then some (0, Lab.pub) else (blockBytes st.mem b)[i]?) ∧
      (∀ b', b' ≠ b → st'.mem[b']? = st.mem[b']?) := by
  refine ⟨_, exec_call_clean fuel env st ep en p n b off hp hn hn32 hn0 hr hsz, ?_, ?_⟩
  · intro i
    obtain ⟨blk, hb, _, _, _⟩ := TJ.Props.C06.ok_access_in_bounds st.mem p 1 b off hr
    have hbb : blockBytes st.mem b = blk.bytes := by simp [blockBytes, hb]
    have hnew : blockBytes (setBlock st.mem b (writeBytes (blockBytes st.mem b) off (List.replicate n (0, Lab.pub)))) b
        = writeBytes (blockBytes st.mem b) off (List.replicate n (0, Lab.pub)) := by
      simp only [blockBytes, getElem?_setBlock st.mem b _ blk hb b, if_true]
    show (blockBytes (setBlock st.mem b _) b)[i]? = _
    rw [hnew, getElem?_writeBytes, List.length_replicate, hbb]
    rw [hbb] at hsz
    by_cases h1 : off ≤ i ∧ i < off + n
    · have h2 : off ≤ i ∧ i < off + n ∧ i < blk.bytes.size := by omega
      have h3 : i - off < n := by omega
      simp only [h1, h2, and_self, if_true, List.getElem?_replicate, h3]
    · have h2 : ¬ (off ≤ i ∧ i < off + n ∧ i < blk.bytes.size) := by omega
      simp only [h1, h2, if_false]
  · intro b' hne
    obtain ⟨blk, hb, _, _, _⟩ := TJ.Props.C06.ok_access_in_bounds st.mem p 1 b off hr
    simp only [getElem?_setBlock st.mem b _ blk hb b', hne, if_false]

/-- non-vacuity: a concrete dirty 56-byte object satisfies the hypotheses and ends all zero -/
def dirty : St := { mem := #[{ bytes := Array.replicate 56 (0xA5, Lab.sec), base := 0 }], ent := [], leak := [] }
example : ∃ env st', callFun prog 4 idx_tinyjambu_hash_free false [(mkPtr 0 0, .pub)] dirty = .ok .normal env st' ∧
    Erased dirty st' 0 56 :=
  hash_free_erases 0 dirty 0 _ rfl rfl rfl

end TJ.Props.C20
