/-
  C01 — AEAD round-trip.  All statements are for an arbitrary keyed permutation `P`
  (so in particular for the three C back ends under any key), every nonce, every
  associated data and every plaintext of any length.
  In-place use and alignment are properties of the memory-level code and are covered
  by TJ.Props.C01Mem (byte-level model) and by the correspondence runs.
-/
import TJ.Proofs.AeadTop
namespace TJ.Props.C01
open TJ

/-- encryption outputs exactly plaintext-length + 8 bytes -/
theorem encrypt_length (P : Perm) (pk : Nat) (nonce ad m : Bytes) :
    (aeadEncryptWith P pk nonce ad m).length = m.length + 8 :=
  aeadEncryptWith_length P pk nonce ad m

/-- decrypt ∘ encrypt = id, with result 0 and `*mlen = |m|` -/
theorem roundtrip (P : Perm) (pk : Nat) (nonce ad m : Bytes) :
    aeadDecryptWith P pk nonce ad (aeadEncryptWith P pk nonce ad m) = ⟨0, some m.length, some m⟩ := by
  have hl : 8 ≤ (aeadEncryptWith P pk nonce ad m).length := by rw [aeadEncryptWith_length]; omega
  rw [aeadDecryptWith_eq _ _ _ _ _ hl]
  have hb : (aeadEncryptWith P pk nonce ad m).take ((aeadEncryptWith P pk nonce ad m).length - 8)
      = (encBody P pk (aeadPre P pk nonce ad) m).2 := by
    rw [aeadEncryptWith_eq]; exact take_body _ _ (genTag_length _ _ _)
  have hd : (aeadEncryptWith P pk nonce ad m).drop ((aeadEncryptWith P pk nonce ad m).length - 8)
      = aeadTag P pk nonce ad m := by
    rw [aeadEncryptWith_eq]; exact drop_body _ _ (genTag_length _ _ _)
  have hc : aeadCandidate P pk nonce ad (aeadEncryptWith P pk nonce ad m) = m := by
    unfold aeadCandidate; rw [hb, decBody_encBody]
  simp only [hc, hd, checkTag_eq]
  simp [aeadEncryptWith_length]

/-- the library entry points, for each of the three key sizes -/
theorem roundtrip_lib (v : Variant) (key nonce ad m : Bytes) :
    aeadDecrypt v key nonce ad (aeadEncrypt v key nonce ad m) = ⟨0, some m.length, some m⟩ :=
  roundtrip _ _ _ _ _

theorem encrypt_length_lib (v : Variant) (key nonce ad m : Bytes) :
    (aeadEncrypt v key nonce ad m).length = m.length + 8 :=
  encrypt_length _ _ _ _ _

/-- non-vacuity: a concrete non-trivial instance evaluates as the theorem says -/
example : aeadDecrypt .v192 (List.replicate 24 0xA7) (List.replicate 12 0xFE) [1, 2, 0x80]
    (aeadEncrypt .v192 (List.replicate 24 0xA7) (List.replicate 12 0xFE) [1, 2, 0x80] [0xFF, 0, 0x81, 4, 5])
    = ⟨0, some 5, some [0xFF, 0, 0x81, 4, 5]⟩ := roundtrip_lib _ _ _ _ _

end TJ.Props.C01
