/-
  C08 — SIV round-trip and accept-iff, for an arbitrary keyed permutation.
-/
import TJ.Proofs.Siv
namespace TJ.Props.C08
open TJ

theorem encrypt_length (P : Perm) (pk : Nat) (nonce ad m : Bytes) :
    (sivEncryptWith P pk nonce ad m).length = m.length + 8 := sivEncryptWith_length _ _ _ _ _

theorem roundtrip (P : Perm) (pk : Nat) (nonce ad m : Bytes) :
    sivDecryptWith P pk nonce ad (sivEncryptWith P pk nonce ad m) = ⟨0, some m.length, some m⟩ := by
  have hl : 8 ≤ (sivEncryptWith P pk nonce ad m).length := by rw [sivEncryptWith_length]; omega
  rw [sivDecryptWith_eq _ _ _ _ _ hl]
  have ht := sivTag_length P pk nonce ad m
  have hc : sivCandidate P pk nonce (sivEncryptWith P pk nonce ad m) = m := by
    unfold sivCandidate sivEncryptWith
    simp only
    rw [drop_body _ _ ht, take_body _ _ ht, sivBody_sivBody]
  have hd : (sivEncryptWith P pk nonce ad m).drop ((sivEncryptWith P pk nonce ad m).length - 8) = sivTag P pk nonce ad m := by
    unfold sivEncryptWith; exact drop_body _ _ ht
  simp only [hc, hd, checkTag_eq]
  simp [sivEncryptWith_length]

/-- verdict = comparison of the received 8 bytes with the tag SIV encryption derives from
    (nonce, AD, recovered plaintext) -/
theorem accept_iff_tag (P : Perm) (pk : Nat) (nonce ad c : Bytes) (h : 8 ≤ c.length) :
    (sivDecryptWith P pk nonce ad c).ret =
      if c.drop (c.length - 8) = sivTag P pk nonce ad (sivCandidate P pk nonce c) then 0 else -1 := by
  rw [sivDecryptWith_eq _ _ _ _ _ h]
  simp only
  have hl : (sivTag P pk nonce ad (sivCandidate P pk nonce c)).length = (c.drop (c.length - 8)).length := by
    rw [sivTag_length]; simp; omega
  rw [checkTag_spec _ _ _ hl]
  by_cases he : sivTag P pk nonce ad (sivCandidate P pk nonce c) = c.drop (c.length - 8)
  · simp [he]
  · have : ¬ c.drop (c.length - 8) = sivTag P pk nonce ad (sivCandidate P pk nonce c) := fun e => he e.symm
    simp [he, this]

/-- accepted iff the packet is exactly the SIV encryption of the recovered plaintext -/
theorem accept_iff_packet (P : Perm) (pk : Nat) (nonce ad c : Bytes) (h : 8 ≤ c.length) :
    (sivDecryptWith P pk nonce ad c).ret = 0 ↔
      sivEncryptWith P pk nonce ad (sivCandidate P pk nonce c) = c := by
  rw [accept_iff_tag _ _ _ _ _ h]
  constructor
  · intro h0
    split at h0
    · rename_i ht
      unfold sivEncryptWith; simp only
      rw [← ht]
      have : sivBody P pk (setup P pk (sivNonce nonce (c.drop (c.length - 8))) 0xB0) (sivCandidate P pk nonce c)
          = c.take (c.length - 8) := by unfold sivCandidate; rw [sivBody_sivBody]
      rw [this]; exact List.take_append_drop _ _
    · simp at h0
  · intro he
    have hlen : (sivBody P pk (setup P pk (sivNonce nonce (sivTag P pk nonce ad (sivCandidate P pk nonce c))) 0xB0)
        (sivCandidate P pk nonce c)).length = c.length - 8 := by
      rw [sivBody_length]; unfold sivCandidate; rw [sivBody_length]; simp
    have : c.drop (c.length - 8) = sivTag P pk nonce ad (sivCandidate P pk nonce c) := by
      have h2 := congrArg (List.drop (c.length - 8)) he
      unfold sivEncryptWith at h2; simp only at h2
      rw [List.drop_append_of_le_length (by omega)] at h2
      rw [← h2]; simp [hlen]
    simp [this]

theorem short_rejected (P : Perm) (pk : Nat) (nonce ad c : Bytes) (h : c.length < 8) :
    sivDecryptWith P pk nonce ad c = ⟨-1, none, none⟩ := by
  simp [sivDecryptWith, h]

theorem roundtrip_lib (v : Variant) (key nonce ad m : Bytes) :
    sivDecrypt v key nonce ad (sivEncrypt v key nonce ad m) = ⟨0, some m.length, some m⟩ := roundtrip _ _ _ _ _

example : sivDecrypt .v256 (List.replicate 32 0x55) (List.replicate 12 0xAA) []
    (sivEncrypt .v256 (List.replicate 32 0x55) (List.replicate 12 0xAA) [] [0x80, 1, 2]) = ⟨0, some 3, some [0x80, 1, 2]⟩ :=
  roundtrip_lib _ _ _ _ _

end TJ.Props.C08
