/-
  C16 — the PRNG never emits more than the reseed limit between two entropy requests, in ANY history
  of generate / feed / reseed / set-limit calls after ANY initialisation.
  The statement is about the event trace of the model (requests, emissions, limit changes);
  `bounded since lim t` says: with `since` bytes already emitted since the last request and `lim`
  blocks in force, no emission in `t` takes the count past 32·(limit in force at that moment).
  `reseed_counter` is a faithful UInt32; the theorem relies on `feed` saturating it (the repaired code).
-/
import TJ.Proofs.Prng
namespace TJ.Props.C16
open TJ

/-- any initialisation (user / system / NULL callback, any delivery), then any operation history:
    no operation fails, and the whole trace respects the bound, starting from the default limit of
    32 blocks = 1024 bytes -/
theorem bound_all_histories (cb : CbKind) (ud : Bool) (custom : Bytes) (e : Ent) (ops : List POp) :
    ∃ st p e1, Prng.initUser cb ud custom e = some (st, p, e1) ∧
      ∃ p' e' t, p.runOps e1 ops = some (p', e', t) ∧ bounded 0 32 t := by
  obtain ⟨st, p, e1, hinit, hi, hrl⟩ := initUser_inv cb ud custom e
  obtain ⟨p', e', t, hr, hb, _⟩ := runOps_spec ops p e1 0 hi
  refine ⟨st, p, e1, hinit, p', e', t, hr, ?_⟩
  have : p.rl.toNat = 32 := by rw [hrl]; rfl
  rw [this] at hb; exact hb

/-- L = the configured limit rounded up to a multiple of 32, minimum 32, maximum 1 MiB -/
theorem limit_rounding (p : Prng) (n : Nat) :
    32 * (p.setLimit n).rl.toNat = max 32 ((min n 1048576 + 31) / 32 * 32) := by
  rw [setLimit_rl]; unfold limitBlocks; omega

/-- a changed (e.g. lowered) limit is in force from the very next emitted block: the `limit` event
    switches the bound that every later emission is checked against -/
theorem lowered_limit_next_block (since l k : Nat) (t : List Ev) (lim : Nat)
    (h : bounded since lim (.limit l :: .emit k :: t)) : since + k ≤ 32 * l := by
  simp only [bounded] at h; exact h.1

/-- feeding only ever brings the next reseed closer: the counter compared with the limit never
    decreases (and cannot wrap) -/
theorem feed_brings_reseed_closer (p : Prng) (d : Bytes) : p.rc.toNat ≤ (p.feed d).rc.toNat :=
  feed_rc_ge p d

/-- `bounded` really is "at most L bytes between requests": a single over-long emission violates it -/
example : ¬ bounded 0 1 [.emit 32, .emit 1] := by simp [bounded]
example : bounded 0 1 [.emit 32, .request, .emit 32, .limit 2, .emit 32] := by simp [bounded]

end TJ.Props.C16
