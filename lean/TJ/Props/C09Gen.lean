/-
  C09 / C08 on the REGENERATED source: `tinyjambu_{128,192,256}_siv_encrypt(c, clen, m, mlen, ad, adlen, npub, k)` of
  src/tinyjambu-{128,192,256}-siv.c — both local objects (state, derived nonce), the inverted key words, the first pass
  (`tinyjambu_setup_*` with the SIV nonce domain, `tinyjambu_absorb_*` over the associated data and over the message,
  `tinyjambu_generate_tag_*` to `c + mlen`), the two `memcpy`s that build `npub[0..3] ‖ tag`, the second `tinyjambu_setup_*` and the
  keystream word loop with its 1/2/3-byte tails, all as translated by tools/c2lean.py — writes exactly the documented two-pass
  construction (`Spec.SIV.encrypt`, TJ.Props.C09.siv_is_spec) and `*clen = mlen + 8`, for every key, 12-byte nonce, associated data and
  message, any placement and byte alignment, any defined labels, the message possibly in the output buffer itself; every other byte of
  memory keeps its value.  Assumptions visible in the statement: `clen` 8-byte aligned and disjoint from the buffers, the nonce not in
  the output block (it is read again after the tag has been written), message either in another block than `c` or at exactly `c`.
-/
import TJ.Proofs.SivEncCall
import TJ.Props.C02Gen
import TJ.Props.C09
import TJ.Props.C08
namespace TJ.Props.C09Gen
open TJ TJ.MiniC TJ.MiniC.Hoare TJ.Gen.MiniC TJ.Props.C02Gen

def sivEncIdx : Variant → Nat
  | .v128 => idx_tinyjambu_128_siv_encrypt | .v192 => idx_tinyjambu_192_siv_encrypt | .v256 => idx_tinyjambu_256_siv_encrypt

theorem sivEncDecl (v : Variant) : ∃ fd, prog[sivEncIdx v]? = some fd ∧ fd.body = sivEncStmt v.nk (permIdx v) v.pk (setupIdx v) (absorbIdx v) (gentagIdx v) ∧
    fd.nparams = 8 ∧ fd.nvars = 14 + 5 * v.nk + 33 ∧ fd.allocs = [(8, 16 + 4 * v.nk), (9, 12)] := by
  cases v
  · exact ⟨f_tinyjambu_128_siv_encrypt, by simp only [prog, sivEncIdx, idx_tinyjambu_128_siv_encrypt, List.getElem?_cons_succ, List.getElem?_cons_zero], sivenc128_eq, rfl, rfl, rfl⟩
  · exact ⟨f_tinyjambu_192_siv_encrypt, by simp only [prog, sivEncIdx, idx_tinyjambu_192_siv_encrypt, List.getElem?_cons_succ, List.getElem?_cons_zero], sivenc192_eq, rfl, rfl, rfl⟩
  · exact ⟨f_tinyjambu_256_siv_encrypt, by simp only [prog, sivEncIdx, idx_tinyjambu_256_siv_encrypt, List.getElem?_cons_succ, List.getElem?_cons_zero], sivenc256_eq, rfl, rfl, rfl⟩

theorem siv_encrypt_source_is_spec (v : Variant) (st : St)
    (bo baseo oo : Nat) (XO : Array LByte) (bl basel ol : Nat) (XL : Array LByte) (bm basem moff : Nat) (XM : Array LByte) (ba basea aoff : Nat) (XA : Array LByte)
    (bn basen noff : Nat) (XN : Array LByte) (bk basek koff : Nat) (XK : Array LByte) (msg ad nonce key : Bytes)
    (hO : st.mem[bo]? = some ⟨XO, baseo⟩) (hltO : baseo + XO.size < ptrBase) (hroom : oo + msg.length + 8 ≤ XO.size)
    (hL : st.mem[bl]? = some ⟨XL, basel⟩) (hltL : basel + XL.size < ptrBase) (hinL : ol + 8 ≤ XL.size) (halL : (basel + ol) % 8 = 0)
    (bM : Buf st.mem bm basem moff XM msg) (bA : Buf st.mem ba basea aoff XA ad) (bN : Buf st.mem bn basen noff XN nonce) (bK : Buf st.mem bk basek koff XK key)
    (hnl : nonce.length = 12) (hkl : key.length = 4 * v.nk)
    (hsep : bl ≠ bo ∧ bl ≠ bm ∧ bl ≠ ba ∧ bl ≠ bn ∧ bl ≠ bk) (hbon : bo ≠ bn) (hdisj : bm ≠ bo ∨ (bm = bo ∧ moff = oo)) (hsz : st.mem.size + 2 < 2 ^ 30) :
    ∃ fuel st' blkO, callFun prog fuel (sivEncIdx v) false
        [(mkPtr bo (baseo + oo), .pub), (mkPtr bl (basel + ol), .pub), (mkPtr bm (basem + moff), .pub), (msg.length, .pub),
         (mkPtr ba (basea + aoff), .pub), (ad.length, .pub), (mkPtr bn (basen + noff), .pub), (mkPtr bk (basek + koff), .pub)] st =
        .ok .normal #[(0, .pub), (mkPtr bo (baseo + oo), .pub), (mkPtr bl (basel + ol), .pub), (mkPtr bm (basem + moff), .pub), (msg.length, .pub),
         (mkPtr ba (basea + aoff), .pub), (ad.length, .pub), (mkPtr bn (basen + noff), .pub), (mkPtr bk (basek + koff), .pub)] st' ∧
      st'.ent = st.ent ∧ st'.mem.size = st.mem.size ∧
      st'.mem[bo]? = some blkO ∧ blkO.base = baseo ∧ blkO.bytes.size = XO.size ∧
      BytesV blkO.bytes oo (Spec.SIV.encrypt v.params key nonce ad msg) ∧
      (Spec.SIV.encrypt v.params key nonce ad msg).length = msg.length + 8 ∧
      (∀ p, (p < oo ∨ oo + (msg.length + 8) ≤ p) → ORel VLe blkO.bytes[p]? XO[p]?) ∧
      ORel BlockLe st'.mem[bl]? (some ⟨writeLE XL ol (msg.length + 8) .pub 8, basel⟩) ∧
      (∀ j, j ≠ bo → j ≠ bl → ORel BlockLe st'.mem[j]? st.mem[j]?) := by
  obtain ⟨fd, h1, h2, h3, h4, h5⟩ := sivEncDecl v
  obtain ⟨n, sig, e, s, hx, hs, he, hent, hmsz, ⟨blkO, g1, g2, g3, g4, g5⟩, g6, g7⟩ := sivencrypt_call (encProg v) (sivEncIdx v) fd h1 h2 h3 h4 h5
    #[(0, .pub), (mkPtr bo (baseo + oo), .pub), (mkPtr bl (basel + ol), .pub), (mkPtr bm (basem + moff), .pub), (msg.length, .pub),
      (mkPtr ba (basea + aoff), .pub), (ad.length, .pub), (mkPtr bn (basen + noff), .pub), (mkPtr bk (basek + koff), .pub)] st
    (.var 1) (.var 2) (.var 3) (.var 4) (.var 5) (.var 6) (.var 7) (.var 8) bo baseo oo XO bl basel ol XL bm basem moff XM ba basea aoff XA bn basen noff XN bk basek koff XK
    msg ad nonce key (by simp [evalE]) (by simp [evalE]) (by simp [evalE]) (by simp [evalE]) (by simp [evalE]) (by simp [evalE]) (by simp [evalE]) (by simp [evalE])
    hO hltO hroom hL hltL hinL halL bM bA bN bK hnl hkl hsep hbon hdisj hsz (by cases v <;> decide)
  subst hs he
  have hspec : sivEncryptWith (permC v (keyWords v.nk key)) v.pk nonce ad msg = Spec.SIV.encrypt v.params key nonce ad msg :=
    TJ.Props.C09.siv_is_spec v key nonce ad msg hnl
  rw [hspec] at g4
  refine ⟨n, s, blkO, ?_, hent, hmsz, g1, g2, g3, g4, ?_, g5, g6, g7⟩
  · unfold callFun
    simp only [List.length_cons, List.length_nil, List.range, List.range.loop, List.map, Bool.false_eq_true, if_false, Nat.zero_add]
    exact hx
  · rw [← hspec]
    exact TJ.Props.C08.encrypt_length _ _ _ _ _

end TJ.Props.C09Gen
