/-
  C17 on the REGENERATED source (user-callback case): `tinyjambu_prng_init_user(state, callback, user_data, custom, custom_len)` of src/tinyjambu-prng.c as
  translated by tools/c2lean.py — `memset` of the 96-byte object, the callback and user-data stores, ONE call through the stored function pointer (one delivery
  of the entropy script into `V`), `V ← Hash_df(V ‖ custom)` (marker 0xFF = none), `C ← Hash_df(0x00 ‖ V)`, `reseed_counter = 1`, `reseed_limit = 32` blocks —
  equals the hand model's `Prng.initUser .user`: the returned status is 1 EXACTLY when the callback reported a full 32-byte delivery, and whatever was
  delivered (nothing included) the object is a usable generator state whose fields `generate` / `reseed` / `feed` (TJ.Props.C15Gen) accept.
  Not covered: a NULL callback (the function then installs `tinyjambu_prng_system`, whose OS shim is outside the regenerated program) — C17's NULL-callback
  clause stays on the hand model + correspondence.
-/
import TJ.Proofs.PrngInit
import TJ.Props.C15Gen
namespace TJ.Props.C17Gen
open TJ TJ.MiniC TJ.MiniC.Hoare TJ.Gen.MiniC TJ.Props.C15Gen

theorem init_user_source_is_model (st : St) (bp bi : Nat) (X XI : Array LByte) (baseP basei ioff ud : Nat) (custom : Bytes) (e : Ent) (udb : Bool)
    (hs : Small e) (hent : st.ent = script e)
    (hP : st.mem[bp]? = some ⟨X, baseP⟩) (hXs : 96 ≤ X.size) (hal : baseP % 8 = 0) (hltP : baseP + X.size < ptrBase) (hud : ud < 18446744073709551616)
    (hI : st.mem[bi]? = some ⟨XI, basei⟩) (hd : BytesV XI ioff custom) (hltI : basei + XI.size < ptrBase) (hne : bi ≠ bp) (hsz : st.mem.size + 5 < 2 ^ 30) :
    ∃ fuel st' ret p' e' X', Prng.initUser .user udb custom e = some (ret, p', e') ∧
      callFun prog fuel idx_tinyjambu_prng_init_user true
        [(mkPtr bp baseP, .pub), (userCb, .pub), (ud, .pub), (mkPtr bi (basei + ioff), .pub), (custom.length, .pub)] st =
        .ok .normal #[(ret.toNat, .pub), (mkPtr bp baseP, .pub), (userCb, .pub), (ud, .pub), (mkPtr bi (basei + ioff), .pub), (custom.length, .pub)] st' ∧
      (ret = 1 ↔ (st.ent.headD ([], 0)).2 = 32) ∧
      st'.ent = script e' ∧ st'.mem.size = st.mem.size ∧ st'.mem[bp]? = some ⟨X', baseP⟩ ∧ X'.size = X.size ∧ Holds X' p' ∧ PCb X' ud ∧ p'.cb = .user ∧ C15.Shape p' ∧
      (∀ j, j ≠ bp → ORel (KeepW (fun _ => False) (fun q => j = bi ∧ ioff ≤ q ∧ q < ioff + custom.length)) st'.mem[j]? st.mem[j]?) := by
  obtain ⟨k, sig, en, s, hx, hsig, hen, hent', hmsz, ⟨X', g1, g2, g3, g4⟩, g5⟩ := prng_init_user_call_ret 0
    #[(0, .pub), (mkPtr bp baseP, .pub), (userCb, .pub), (ud, .pub), (mkPtr bi (basei + ioff), .pub), (custom.length, .pub)] st (.var 1) (.var 2) (.var 3) (.var 4) (.var 5)
    bp bi X XI baseP basei ioff (mkPtr bi (basei + ioff)) ud custom (by simp [evalE]) (by simp [evalE]) (by simp [evalE]) (by simp [evalE]) (by simp [evalE])
    hP hXs hal hltP hud (Or.inr ⟨hI, hd, rfl, hltI⟩) hne hsz
  subst hsig
  have hzl : (zeros 32).length = 32 := by simp [zeros]
  cases hu : e.user with
  | nil =>
    have hd0 : st.ent.headD ([], 0) = ([], 0) := by rw [hent, script, hu]; rfl
    have hseed : seedOf ([], 0) (zeros 32) = zeros 32 := by unfold seedOf; simp
    rw [hd0, hseed] at g3
    let p1 : Prng := ⟨hashDf 0xFF (zeros 32) custom, hashDf 0 (hashDf 0xFF (zeros 32) custom) [], 1, 32, .user, udb, zeros 8⟩
    refine ⟨k, s, if (0 : Nat) = 32 then 1 else 0, p1, e, X',
      by simp [Prng.initUser, Ent.request, hu, p1], ?_, by rw [hd0]; simp, by rw [hent', hent, script, hu]; rfl, hmsz, g1, g2, g3, g4, rfl, ⟨C15.hashDf_length _ _ _, C15.hashDf_length _ _ _⟩, g5⟩
    unfold callFun
    simp only [List.length_cons, List.length_nil, List.range, List.range.loop, List.map, if_true, Nat.zero_add]
    rw [hx, hen, hd0]; rfl
  | cons d r =>
    have hd0 : st.ent.headD ([], 0) = (d.written, d.ret) := by rw [hent, script, hu]; rfl
    have hdl : d.written.length ≤ 32 := hs d (by rw [hu]; exact List.mem_cons_self)
    rw [hd0, seedOf_writeAt d.written d.ret (zeros 32) hdl hzl] at g3
    let p1 : Prng := ⟨hashDf 0xFF (writeAt (zeros 32) 0 d.written) custom, hashDf 0 (hashDf 0xFF (writeAt (zeros 32) 0 d.written) custom) [], 1, 32, .user, udb, zeros 8⟩
    refine ⟨k, s, if d.ret = 32 then 1 else 0, p1, { e with user := r }, X',
      by simp [Prng.initUser, Ent.request, hu, p1], ?_, ?_, by rw [hent', hent, script, hu]; rfl, hmsz, g1, g2, g3, g4, rfl, ⟨C15.hashDf_length _ _ _, C15.hashDf_length _ _ _⟩, g5⟩
    · unfold callFun
      simp only [List.length_cons, List.length_nil, List.range, List.range.loop, List.map, if_true, Nat.zero_add]
      rw [hx, hen, hd0]
      by_cases h32 : d.ret = 32
      · simp [h32]; rfl
      · simp [h32]; rfl
    · rw [hd0]
      by_cases h32 : d.ret = 32 <;> simp [h32]

end TJ.Props.C17Gen
