/-
  C17 on the REGENERATED source (user-callback case): `tinyjambu_prng_init_user(state, callback, user_data, custom, custom_len)` of src/tinyjambu-prng.c as
  translated by tools/c2lean.py — `memset` of the 96-byte object, the callback and user-data stores, ONE call through the stored function pointer (one delivery
  of the entropy script into `V`), `V ← Hash_df(V ‖ custom)` (marker 0xFF = none), `C ← Hash_df(0x00 ‖ V)`, `reseed_counter = 1`, `reseed_limit = 32` blocks —
  equals the hand model's `Prng.initUser .user`: the returned status is 1 EXACTLY when the callback reported a full 32-byte delivery, and whatever was
  delivered (nothing included) the object is a usable generator state whose fields `generate` / `reseed` / `feed` (TJ.Props.C15Gen) accept.
  NULL callback: `init_user_null_source` and `init_source` — `tinyjambu_prng_init_user(state, NULL, user_data, …)` and `tinyjambu_prng_init(state, …)` leave the SAME
  description of the object (`InitSysPost`: `tinyjambu_prng_system` installed, user data zero, one delivery of the entropy source hashed into `V`) and return 1
  exactly when the source reported success.  The OS shim below `tinyjambu_trng_generate` is a primitive of the semantics (one scripted delivery), so what the
  system source delivers under OS faults stays on the hand model + correspondence (C18).
-/
import TJ.Proofs.PrngInit
import TJ.Props.C15Gen
namespace TJ.Props.C17Gen
open TJ TJ.MiniC TJ.MiniC.Hoare TJ.Gen.MiniC TJ.Props.C15Gen

theorem init_user_source_is_model (st : St) (bp bi : Nat) (X XI : Array LByte) (baseP basei ioff ud : Nat) (custom : Bytes) (e : Ent) (udb : Bool)
    (hs : Small e) (hent : st.ent = script e)
    (hP : st.mem[bp]? = some ⟨X, baseP⟩) (hXs : 96 ≤ X.size) (hal : baseP % 8 = 0) (hltP : baseP + X.size < ptrBase) (hud : ud < 18446744073709551616)
    (hI : st.mem[bi]? = some ⟨XI, basei⟩) (hd : BytesV XI ioff custom) (hltI : basei + XI.size < ptrBase) (hne : bi ≠ bp) (hsz : st.mem.size + 5 < 2 ^ 30) :
    ∃ fuel st' ret p' e' X', Prng.initUser .user udb custom e = some (ret, p', e') ∧
      callFun prog fuel idx_tinyjambu_prng_init_user true
        [(mkPtr bp baseP, .pub), (userCb, .pub), (ud, .pub), (mkPtr bi (basei + ioff), .pub), (custom.length, .pub)] st =
        .ok .normal #[(ret.toNat, .pub), (mkPtr bp baseP, .pub), (userCb, .pub), (ud, .pub), (mkPtr bi (basei + ioff), .pub), (custom.length, .pub)] st' ∧
      (ret = 1 ↔ (st.ent.headD ([], 0)).2 = 32) ∧
      st'.ent = script e' ∧ st'.mem.size = st.mem.size ∧ st'.mem[bp]? = some ⟨X', baseP⟩ ∧ X'.size = X.size ∧ Holds X' p' ∧ PCb X' ud ∧ p'.cb = .user ∧ C15.Shape p' ∧
      (∀ j, j ≠ bp → ORel (KeepW (fun _ => False) (fun q => j = bi ∧ ioff ≤ q ∧ q < ioff + custom.length)) st'.mem[j]? st.mem[j]?) := by
  obtain ⟨k, sig, en, s, hx, hsig, hen, hent', hmsz, ⟨X', g1, g2, g3, g4⟩, g5⟩ := prng_init_user_call_ret userCb userCb ud 0
    #[(0, .pub), (mkPtr bp baseP, .pub), (userCb, .pub), (ud, .pub), (mkPtr bi (basei + ioff), .pub), (custom.length, .pub)] st (.var 1) (.var 2) (.var 3) (.var 4) (.var 5)
    bp bi X XI baseP basei ioff (mkPtr bi (basei + ioff)) ud custom (Or.inl ⟨by decide, rfl, rfl⟩) (Or.inl rfl) (by simp [evalE]) (by simp [evalE]) (by simp [evalE]) (by simp [evalE]) (by simp [evalE])
    hP hXs hal hltP hud (Or.inr ⟨hI, hd, rfl, hltI⟩) hne hsz
  subst hsig
  have hzl : (zeros 32).length = 32 := by simp [zeros]
  cases hu : e.user with
  | nil =>
    have hd0 : st.ent.headD ([], 0) = ([], 0) := by rw [hent, script, hu]; rfl
    have hseed : seedOf ([], 0) (zeros 32) = zeros 32 := by unfold seedOf; simp
    rw [hd0, hseed] at g3
    let p1 : Prng := ⟨hashDf 0xFF (zeros 32) custom, hashDf 0 (hashDf 0xFF (zeros 32) custom) [], 1, 32, .user, udb, zeros 8⟩
    refine ⟨k, s, if (0 : Nat) = 32 then 1 else 0, p1, e, X',
      by simp [Prng.initUser, Ent.request, hu, p1], ?_, by rw [hd0]; simp, by rw [hent', hent, script, hu]; rfl, hmsz, g1, g2, g3, g4, rfl, ⟨C15.hashDf_length _ _ _, C15.hashDf_length _ _ _⟩, g5⟩
    unfold callFun
    simp only [List.length_cons, List.length_nil, List.range, List.range.loop, List.map, if_true, Nat.zero_add]
    rw [hx, hen, hd0, cbRet_user]; rfl
  | cons d r =>
    have hd0 : st.ent.headD ([], 0) = (d.written, d.ret) := by rw [hent, script, hu]; rfl
    have hdl : d.written.length ≤ 32 := hs d (by rw [hu]; exact List.mem_cons_self)
    rw [hd0, seedOf_writeAt d.written d.ret (zeros 32) hdl hzl] at g3
    let p1 : Prng := ⟨hashDf 0xFF (writeAt (zeros 32) 0 d.written) custom, hashDf 0 (hashDf 0xFF (writeAt (zeros 32) 0 d.written) custom) [], 1, 32, .user, udb, zeros 8⟩
    refine ⟨k, s, if d.ret = 32 then 1 else 0, p1, { e with user := r }, X',
      by simp [Prng.initUser, Ent.request, hu, p1], ?_, ?_, by rw [hent', hent, script, hu]; rfl, hmsz, g1, g2, g3, g4, rfl, ⟨C15.hashDf_length _ _ _, C15.hashDf_length _ _ _⟩, g5⟩
    · unfold callFun
      simp only [List.length_cons, List.length_nil, List.range, List.range.loop, List.map, if_true, Nat.zero_add]
      rw [hx, hen, hd0, cbRet_user]
      by_cases h32 : d.ret = 32
      · simp [h32]; rfl
      · simp [h32]; rfl
    · rw [hd0]
      by_cases h32 : d.ret = 32 <;> simp [h32]

/-- `tinyjambu_prng_init(state, custom, len)` on the regenerated term -/
theorem init_source (st : St) (bp bi : Nat) (X XI : Array LByte) (baseP basei ioff : Nat) (custom : Bytes)
    (hP : st.mem[bp]? = some ⟨X, baseP⟩) (hXs : 96 ≤ X.size) (hal : baseP % 8 = 0) (hltP : baseP + X.size < ptrBase)
    (hI : st.mem[bi]? = some ⟨XI, basei⟩) (hd : BytesV XI ioff custom) (hltI : basei + XI.size < ptrBase) (hne : bi ≠ bp) (hsz : st.mem.size + 5 < 2 ^ 30) :
    ∃ fuel st', callFun prog fuel idx_tinyjambu_prng_init true [(mkPtr bp baseP, .pub), (mkPtr bi (basei + ioff), .pub), (custom.length, .pub)] st =
        .ok .normal #[(if (st.ent.headD ([], 0)).2 ≠ 0 then 1 else 0, .pub), (mkPtr bp baseP, .pub), (mkPtr bi (basei + ioff), .pub), (custom.length, .pub)] st' ∧
      InitSysPost st bp bi X baseP ioff custom st' := by
  obtain ⟨k, sig, en, s, hx, hsig, hen, hpost⟩ := prng_init_call_ret 0 #[(0, .pub), (mkPtr bp baseP, .pub), (mkPtr bi (basei + ioff), .pub), (custom.length, .pub)] st (.var 1) (.var 2) (.var 3)
    bp bi X XI baseP basei ioff (mkPtr bi (basei + ioff)) custom (by simp [evalE]) (by simp [evalE]) (by simp [evalE]) hP hXs hal hltP (Or.inr ⟨hI, hd, rfl, hltI⟩) hne hsz
  subst hsig
  refine ⟨k, s, ?_, hpost⟩
  unfold callFun
  simp only [List.length_cons, List.length_nil, List.range, List.range.loop, List.map, if_true, Nat.zero_add]
  rw [hx, hen]
  have hc : cbRet sysCb (st.ent.headD ([], 0)) = if (st.ent.headD ([], 0)).2 ≠ 0 then 32 else 0 := by unfold cbRet; rw [if_neg (by decide)]
  rw [hc]
  by_cases h0 : (st.ent.headD ([], 0)).2 = 0
  · simp [h0]; rfl
  · simp [h0]; rfl

/-- `tinyjambu_prng_init_user(state, NULL, user_data, custom, len)` on the regenerated term: the same object as `tinyjambu_prng_init` leaves -/
theorem init_user_null_source (st : St) (bp bi : Nat) (X XI : Array LByte) (baseP basei ioff ud : Nat) (custom : Bytes)
    (hP : st.mem[bp]? = some ⟨X, baseP⟩) (hXs : 96 ≤ X.size) (hal : baseP % 8 = 0) (hltP : baseP + X.size < ptrBase) (hud : ud < 18446744073709551616)
    (hI : st.mem[bi]? = some ⟨XI, basei⟩) (hd : BytesV XI ioff custom) (hltI : basei + XI.size < ptrBase) (hne : bi ≠ bp) (hsz : st.mem.size + 5 < 2 ^ 30) :
    ∃ fuel st', callFun prog fuel idx_tinyjambu_prng_init_user true
        [(mkPtr bp baseP, .pub), (0, .pub), (ud, .pub), (mkPtr bi (basei + ioff), .pub), (custom.length, .pub)] st =
        .ok .normal #[(if (st.ent.headD ([], 0)).2 ≠ 0 then 1 else 0, .pub), (mkPtr bp baseP, .pub), (0, .pub), (ud, .pub), (mkPtr bi (basei + ioff), .pub), (custom.length, .pub)] st' ∧
      InitSysPost st bp bi X baseP ioff custom st' := by
  obtain ⟨k, sig, en, s, hx, hsig, hen, hent', hmsz, hobj, hoth⟩ := prng_init_user_call_ret 0 sysCb 0 0
    #[(0, .pub), (mkPtr bp baseP, .pub), (0, .pub), (ud, .pub), (mkPtr bi (basei + ioff), .pub), (custom.length, .pub)] st (.var 1) (.var 2) (.var 3) (.var 4) (.var 5)
    bp bi X XI baseP basei ioff (mkPtr bi (basei + ioff)) ud custom (Or.inr ⟨rfl, rfl, rfl⟩) (Or.inr rfl) (by simp [evalE]) (by simp [evalE]) (by simp [evalE]) (by simp [evalE]) (by simp [evalE])
    hP hXs hal hltP hud (Or.inr ⟨hI, hd, rfl, hltI⟩) hne hsz
  subst hsig
  refine ⟨k, s, ?_, hent', hmsz, hobj, hoth⟩
  unfold callFun
  simp only [List.length_cons, List.length_nil, List.range, List.range.loop, List.map, if_true, Nat.zero_add]
  rw [hx, hen]
  have hc : cbRet sysCb (st.ent.headD ([], 0)) = if (st.ent.headD ([], 0)).2 ≠ 0 then 32 else 0 := by unfold cbRet; rw [if_neg (by decide)]
  rw [hc]
  by_cases h0 : (st.ent.headD ([], 0)).2 = 0
  · simp [h0]; rfl
  · simp [h0]; rfl

end TJ.Props.C17Gen
