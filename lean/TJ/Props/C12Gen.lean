/-
  C12 on the REGENERATED source: `tinyjambu_hmac(out, key, keylen, in, inlen)` of src/tinyjambu-hmac.c — the local state object,
  `tinyjambu_hmac_init` → `tinyjambu_hmac_set_key` (key copied or hashed into the 64-byte pad, fill with the mask, xor loop, hash init and
  update with the block, pad wiped), `tinyjambu_hmac_update`, `tinyjambu_hmac_finalize` (inner digest, outer key block, outer hash, temporary
  wiped), `tinyjambu_clean`, with the regenerated hash functions and `tinyjambu_permutation_256` below them, all as translated by
  tools/c2lean.py — writes RFC 2104 HMAC over the library's own hash (`Spec.hmac hash key data`, TJ.Props.C12.hmac_rfc2104) to the 32
  bytes at `out`, for every key (any length, the > 64-byte branch included) and every message, lying anywhere with any defined labels;
  every other byte of memory keeps its value; the local objects are wiped and released.  The streaming functions are covered as calls
  by `TJ.MiniC.Hoare.hmac_init_call`, `hmac_update_call`, `hmac_finalize_call` (state objects with arbitrary prior contents).
-/
import TJ.Proofs.HmacOneShot
import TJ.Props.C12
namespace TJ.Props.C12Gen
open TJ TJ.MiniC TJ.MiniC.Hoare TJ.Gen.MiniC

theorem hmac_source_is_rfc2104 (st : St) (bo bk bi : Nat) (XO XK XI : Array LByte) (baseo oo basek koff basei ioff : Nat) (key data : Bytes)
    (hO : st.mem[bo]? = some ⟨XO, baseo⟩) (hK : st.mem[bk]? = some ⟨XK, basek⟩) (hI : st.mem[bi]? = some ⟨XI, basei⟩)
    (hltO : baseo + XO.size < ptrBase) (hltK : basek + XK.size < ptrBase) (hltI : basei + XI.size < ptrBase)
    (hkd : BytesV XK koff key) (hid : BytesV XI ioff data) (hin : oo + 32 ≤ XO.size) (hsz : st.mem.size + 8 < 2 ^ 30) :
    ∃ fuel st' XO', callFun prog fuel idx_tinyjambu_hmac false
        [(mkPtr bo (baseo + oo), .pub), (mkPtr bk (basek + koff), .pub), (key.length, .pub), (mkPtr bi (basei + ioff), .pub), (data.length, .pub)] st =
        .ok .normal #[(0, .pub), (mkPtr bo (baseo + oo), .pub), (mkPtr bk (basek + koff), .pub), (key.length, .pub), (mkPtr bi (basei + ioff), .pub), (data.length, .pub)] st' ∧
      st'.ent = st.ent ∧ st'.mem.size = st.mem.size ∧
      st'.mem[bo]? = some ⟨XO', baseo⟩ ∧ XO'.size = XO.size ∧ BytesV XO' oo (Spec.hmac hash key data) ∧
      (∀ q, (q < oo ∨ oo + 32 ≤ q) → ORel VEq XO'[q]? XO[q]?) ∧
      (∀ j, j ≠ bo → ORel BlockEqV st'.mem[j]? st.mem[j]?) := by
  obtain ⟨n, sig, e, s, hx, hs, he, hent, hmsz, ⟨XO', g1, g2, g3, g4⟩, g5⟩ := hmac_call
    #[(0, .pub), (mkPtr bo (baseo + oo), .pub), (mkPtr bk (basek + koff), .pub), (key.length, .pub), (mkPtr bi (basei + ioff), .pub), (data.length, .pub)] st
    (.var 1) (.var 2) (.var 3) (.var 4) (.var 5) bo bk bi XO XK XI baseo oo basek koff basei ioff key data
    (by simp [evalE]) (by simp [evalE]) (by simp [evalE]) (by simp [evalE]) (by simp [evalE]) hO hK hI hltO hltK hltI hkd hid hin hsz
  subst hs he
  rw [TJ.Props.C12.hmac_rfc2104] at g3
  refine ⟨n, s, XO', ?_, hent, hmsz, g1, g2, g3, g4, g5⟩
  unfold callFun
  simp only [List.length_cons, List.length_nil, List.range, List.range.loop, List.map, Bool.false_eq_true, if_false, Nat.zero_add]
  exact hx

end TJ.Props.C12Gen
