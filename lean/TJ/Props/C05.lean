/-
  C05 — every permutation back end equals the specification.
  (a) The portable C code: `permC` (the word-level model of the three *-c32.c files) equals the
      bit-serial StateUpdate for every state, key and round count (TJ.Props.C02.permutation_is_nlfsr).
  (b) Each assembly program: the regenerated theorem `TJ.Gen.Asm.<program>.correct` states, for every
      machine state and every round count 1 ≤ r < 2^32, that the call returns, the four state words
      become `permBV nk key 0 r` of the old ones, no other memory word changes, and callee-saved registers
      (stack pointer, return address) are restored.  This file connects `permBV` to the specification.
-/
import TJ.Asm.Loop
import TJ.Proofs.SpecTop
namespace TJ.Props.C05
open TJ TJ.Asm

/-- the bit-vector permutation the assembly theorems are stated with is the specification's
    StateUpdate (key bits = complements of the stored, pre-inverted key words) -/
theorem permBV_is_spec (v : Variant) (key : Nat → BitVec 32) (r : Nat) (s : S4) :
    pack (permBV v.nk key 0 r s).toW4 =
      Spec.stateUpdate (keyBits (keyList v.nk key)) v.bits (pack s.toW4) (128 * r) := by
  have hnk : 0 < v.nk := by cases v <;> decide
  rw [permBV_toW4 v.nk hnk]
  have h := specRounds v.nk hnk (keyList v.nk key) 0 r s.toW4
  have hb : 32 * v.nk = v.bits := by cases v <;> rfl
  rw [hb] at h
  simp only [Nat.mul_zero] at h
  exact h.symm

/-- the C back ends, restated: any variant, any key bytes, any state, any number of rounds (0 included) -/
theorem c_backend_is_spec (v : Variant) (key : Bytes) (rounds : Nat) (s : W4) :
    pack (permC v (loadKey v key) rounds s) = Spec.keyed v.params key (pack s) (128 * rounds) :=
  permC_keyed v key rounds s

/-- the C back ends and the assembly-level permutation agree -/
theorem permBV_eq_permC (v : Variant) (key : Nat → BitVec 32) (r : Nat) (s : S4) :
    (permBV v.nk key 0 r s).toW4 = permC v (keyList v.nk key) r s.toW4 := by
  apply pack_inj
  rw [permBV_is_spec, permC_eq_spec]

end TJ.Props.C05
