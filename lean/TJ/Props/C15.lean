/-
  C15 — PRNG output is the documented Hash_DRBG (SP 800-90A §10.1.1, per-block-advance variant) of the
  entropy delivered and the call history.  Determinism is by construction: the model is a function of
  (entropy script, history).  `Spec.Drbg` is written from the standard; `hash` is the model's
  TinyJAMBU-Hash.
-/
import TJ.Proofs.Drbg
namespace TJ.Props.C15
open TJ

/-- the state shape every operation preserves: 32-byte V and C -/
def Shape (p : Prng) : Prop := p.V.length = 32 ∧ p.C.length = 32

theorem hashDf_length (m : UInt8) (V inp : Bytes) : (hashDf m V inp).length = 32 := hash_length _

/-- instantiate: V = Hash_df(entropy ‖ nonce ‖ personalization), C = Hash_df(0x00 ‖ V), counter = 1,
    where "entropy" is the 32-byte buffer after the callback wrote into it -/
theorem instantiate_refines (d : Delivery) (rest : List Delivery) (sys : List OsOutcome) (oc : Nat) (ud : Bool) (custom : Bytes) :
    ∃ st p e', Prng.initUser .user ud custom ⟨d :: rest, sys, oc⟩ = some (st, p, e') ∧
      p.abs = Spec.instantiate hash (writeAt (zeros 32) 0 d.written) custom ∧ Shape p := by
  have h : Prng.initUser .user ud custom ⟨d :: rest, sys, oc⟩ = some (if d.ret = 32 then 1 else 0,
      { V := hashDf 0xFF (writeAt (zeros 32) 0 d.written) custom,
        C := hashDf 0x00 (hashDf 0xFF (writeAt (zeros 32) 0 d.written) custom) [],
        rc := 1, rl := 32, cb := .user, ud := ud, tail := zeros 8 }, ⟨rest, sys, oc⟩) := by
    simp [Prng.initUser, Ent.request]
  refine ⟨_, _, _, h, ?_, ⟨hashDf_length _ _ _, hashDf_length _ _ _⟩⟩
  simp only [Prng.abs, Spec.instantiate, hashDf_ff]
  rw [hashDf_marker 0x00 (by decide)]
  simp only [List.append_nil]
  rfl

/-- every output block is Hash(V) of a state that is then advanced by V + Hash(0x03 ‖ V) + C + counter
    (mod 2^256), counter + 1 — for every state whose counter is below 2^24 (the invariant of C16 keeps it
    ≤ limit + 1 ≤ 32769 whenever a block is produced) -/
theorem block_is_spec (p : Prng) (hs : Shape p) (hrc : p.rc.toNat ≤ 16777216) :
    p.block.1 = (Spec.block hash p.abs).1 ∧ p.block.2.abs = (Spec.block hash p.abs).2 ∧ Shape p.block.2 := by
  obtain ⟨h1, h2⟩ := block_refines p hs.1 hs.2 hrc
  refine ⟨h1, h2, ?_, hs.2⟩
  show (vAdvance p.V (hashPrefixed 0x03 p.V) p.C p.rc).length = 32
  rw [vAdvance_spec _ _ _ _ hs.1 (show (hashPrefixed 0x03 p.V).length = 32 from hash_length _) hs.2 hrc]
  simp [Spec.toBE, toLE_length]

/-- reseed: the new state is derived from the OLD V together with the new material (the buffer is a
    copy of V overwritten by whatever the callback delivered), never from the new material alone -/
theorem reseed_refines (p : Prng) (hcb : p.cb = .user) (d : Delivery) (rest : List Delivery) (sys : List OsOutcome) (oc : Nat) :
    ∃ st p' e', p.reseed ⟨d :: rest, sys, oc⟩ = some (st, p', e') ∧
      p'.abs = Spec.reseed hash p.abs (writeAt p.V 0 d.written) ∧ Shape p' := by
  have h : p.reseed ⟨d :: rest, sys, oc⟩ = some (if d.ret = 32 then 1 else 0,
      { p with V := hashDf 0x01 p.V (writeAt p.V 0 d.written),
               C := hashDf 0x00 (hashDf 0x01 p.V (writeAt p.V 0 d.written)) [], rc := 1 }, ⟨rest, sys, oc⟩) := by
    simp [Prng.reseed, Ent.request, hcb]
  refine ⟨_, _, _, h, ?_, ⟨hashDf_length _ _ _, hashDf_length _ _ _⟩⟩
  simp only [Prng.abs, Spec.reseed]
  rw [hashDf_marker 0x01 (by decide), hashDf_marker 0x00 (by decide)]
  simp only [List.append_nil]
  rfl

/-- feed: same derivation from the old V and the fed data; the counter only grows -/
theorem feed_refines (p : Prng) (data : Bytes) :
    (p.feed data).abs = Spec.feed hash p.abs data ∧ Shape (p.feed data) := by
  constructor
  · simp only [Prng.feed, Prng.abs, Spec.feed]
    rw [hashDf_marker 0x01 (by decide), hashDf_marker 0x00 (by decide)]
    simp only [List.append_nil]
    congr 1
    · by_cases h : p.rc < 0xFFFFFFFF
      · have hl : p.rc.toNat < 4294967295 := by have := UInt32.lt_iff_toNat_lt.1 h; simpa using this
        simp only [h, if_true, u32_succ_toNat _ hl]; omega
      · have hl : ¬ p.rc.toNat < 4294967295 := fun hl => h (UInt32.lt_iff_toNat_lt.2 (by simpa using hl))
        have := UInt32.toNat_lt p.rc
        simp only [h, if_false]; omega
  · exact ⟨hashDf_length _ _ _, hashDf_length _ _ _⟩

/-- the carry loop is exactly 256-bit big-endian addition, for all inputs of the right shape -/
theorem v_update_is_addition (V H C : Bytes) (rc : UInt32) (hv : V.length = 32) (hh : H.length = 32) (hc : C.length = 32)
    (hrc : rc.toNat ≤ 16777216) :
    vAdvance V H C rc = Spec.toBE ((Spec.beVal V + Spec.beVal H + Spec.beVal C + rc.toNat) % 2^256) 32 :=
  vAdvance_spec V H C rc hv hh hc hrc

/-- non-vacuity: a carry that ripples through all 32 bytes -/
example : vAdvance (List.replicate 32 0xFF) (zeros 32) (zeros 32) 1 = zeros 32 := by
  rw [v_update_is_addition _ _ _ _ (by simp) (by simp [zeros]) (by simp [zeros]) (by decide)]
  decide

end TJ.Props.C15
