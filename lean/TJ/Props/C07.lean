/-
  C07 — constant time: control flow and addresses independent of secrets.

  Model: the program REGENERATED from /repo's C sources by tools/c2lean.py (`TJ.Gen.MiniC.prog`,
  every function of src/*.c and src/backend/*.c), executed by the instrumented semantics
  `TJ.MiniC.exec`, whose leakage trace records every branch outcome, every address read or written
  with its size, every memcpy/memset (destination, source, length) and every indirect call target,
  and which stops with the fault `taint` as soon as a secret-labelled value reaches a branch
  condition, an address, a length, a shift amount or a division.

  Proved here, for every function of the regenerated program, every fuel, all arguments and all
  memories (no bound on buffer sizes, lengths or history):
    * `noninterference`: two calls from inputs that agree on everything public (same labels; equal
      values where public; entropy deliveries of equal lengths and return values) have the same
      leakage trace, the same outcome kind and publicly-equal results;
    * `leak_independent_of_secrets`, `taint_verdict_independent_of_secrets`: the corollaries used by
      the check — in particular whether the monitor raises `taint` on a given public shape does not
      depend on the secret bytes, so the one execution per public shape that the check performs on
      the regenerated program (tjminic, all data bytes labelled secret) decides it for ALL keys,
      messages, tags, passwords and entropy of that shape.
  That no public shape exists on which the monitor raises `taint` is proved for the main entry points in
  TJ.Props.C07Gen (corollaries of the functional theorems on the regenerated terms); for the others the check
  executes a finite family of shapes.  Not proved: that gcc/clang preserve the property (observed with valgrind on the
  optimised objects).
-/
import TJ.MiniC.NI
import TJ.Gen.MiniC.Prog
namespace TJ.Props.C07
open TJ.MiniC

/-- arguments of two calls agree on everything public -/
abbrev ArgsRel (a1 a2 : List LVal) : Prop := L2 LRel a1 a2

/-- non-interference of a call of ANY function of ANY program, hence of the regenerated one -/
theorem noninterference_generic (prog : Program) (fuel f : Nat) (hasRet : Bool) (a1 a2 : List LVal) (s1 s2 : St)
    (ha : ArgsRel a1 a2) (hs : StRel s1 s2) :
    OutRel (callFun prog fuel f hasRet a1 s1) (callFun prog fuel f hasRet a2 s2) := by
  unfold callFun
  rw [ha.length_eq]
  exact exec_rel prog fuel _ _ _ _ _ (L2.toArray (L2.cons (LRel.refl _) ha)) hs

/-- the regenerated library -/
theorem noninterference (fuel f : Nat) (hasRet : Bool) (a1 a2 : List LVal) (s1 s2 : St)
    (ha : ArgsRel a1 a2) (hs : StRel s1 s2) :
    OutRel (callFun TJ.Gen.MiniC.prog fuel f hasRet a1 s1) (callFun TJ.Gen.MiniC.prog fuel f hasRet a2 s2) :=
  noninterference_generic _ fuel f hasRet a1 a2 s1 s2 ha hs

def Out.leak : Out → Option (List Ev)
  | .ok _ _ st => some st.leak
  | .fault _ l => some l
  | .timeout => none

/-- the whole leakage trace (branches, addresses, lengths, call targets) is the same for all secrets -/
theorem leak_independent_of_secrets (fuel f : Nat) (hasRet : Bool) (a1 a2 : List LVal) (s1 s2 : St)
    (ha : ArgsRel a1 a2) (hs : StRel s1 s2) :
    Out.leak (callFun TJ.Gen.MiniC.prog fuel f hasRet a1 s1) = Out.leak (callFun TJ.Gen.MiniC.prog fuel f hasRet a2 s2) := by
  have h := noninterference fuel f hasRet a1 a2 s1 s2 ha hs
  cases h1 : callFun TJ.Gen.MiniC.prog fuel f hasRet a1 s1 <;> cases h2 : callFun TJ.Gen.MiniC.prog fuel f hasRet a2 s2 <;>
    rw [h1, h2] at h <;> first | exact h.elim | rfl | (simp only [Out.leak]; first | rw [h.2.2.leak] | rw [h.2])

/-- whether (and where) the monitor stops with `taint` — or with any other fault — is the same for all secrets -/
theorem fault_verdict_independent_of_secrets (fuel f : Nat) (hasRet : Bool) (a1 a2 : List LVal) (s1 s2 : St)
    (ha : ArgsRel a1 a2) (hs : StRel s1 s2) (k : Fault) (l : List Ev)
    (h1 : callFun TJ.Gen.MiniC.prog fuel f hasRet a1 s1 = .fault k l) :
    callFun TJ.Gen.MiniC.prog fuel f hasRet a2 s2 = .fault k l := by
  have h := noninterference fuel f hasRet a1 a2 s1 s2 ha hs
  rw [h1] at h
  cases h2 : callFun TJ.Gen.MiniC.prog fuel f hasRet a2 s2 <;> rw [h2] at h <;> first | exact h.elim | (rw [h.1, h.2])

/-- a run that completes for one choice of secrets completes for every other, with the same public results -/
theorem completes_for_all_secrets (fuel f : Nat) (hasRet : Bool) (a1 a2 : List LVal) (s1 s2 : St)
    (ha : ArgsRel a1 a2) (hs : StRel s1 s2) (g : Sig) (e : Env) (t : St)
    (h1 : callFun TJ.Gen.MiniC.prog fuel f hasRet a1 s1 = .ok g e t) :
    ∃ g' e' t', callFun TJ.Gen.MiniC.prog fuel f hasRet a2 s2 = .ok g' e' t' ∧ t.leak = t'.leak ∧ StRel t t' := by
  have h := noninterference fuel f hasRet a1 a2 s1 s2 ha hs
  rw [h1] at h
  cases h2 : callFun TJ.Gen.MiniC.prog fuel f hasRet a2 s2 <;> rw [h2] at h <;> first | exact h.elim | exact ⟨_, _, _, rfl, h.2.2.leak, h.2.2⟩

/-! non-vacuity: the relation is satisfied by states that DO differ in their secrets, the monitor
    does raise `taint` on a secret-dependent branch, and does not on a branch-free use. -/

/-- a one-function program that branches on its (secret) argument … -/
def leaky : Program :=
  [FunDecl.mk "leaky" 1 2 [] (.ite (.bin .band .u32 (.var 0) (.lit 1)) (.ret (some (.lit 1))) (.ret (some (.lit 0))))]
/-- … and one that computes the same bit without branching -/
def branchFree : Program :=
  [FunDecl.mk "branchFree" 1 2 [] (.ret (some (.bin .band .u32 (.var 0) (.lit 1))))]

def st0 : St := { mem := #[], ent := [], leak := [] }

example : ArgsRel [(5, Lab.sec)] [(6, Lab.sec)] := .cons ⟨rfl, fun h => by cases h⟩ .nil
example : callFun leaky 10 0 true [(5, Lab.sec)] st0 = .fault .taint [] := rfl
example : callFun leaky 10 0 true [(5, Lab.pub)] st0 = .ok .normal #[(1, .pub), (5, .pub)] { st0 with leak := [.br true] } := rfl
example : callFun branchFree 10 0 true [(5, Lab.sec)] st0 = .ok .normal #[(1, .sec), (5, .sec)] st0 := rfl
example : callFun branchFree 10 0 true [(6, Lab.sec)] st0 = .ok .normal #[(0, .sec), (6, .sec)] st0 := rfl

end TJ.Props.C07
