/-
  C03 / C04 on the REGENERATED source: `tinyjambu_aead_check_tag` (src/backend/tinyjambu-util.c, translated by
  tools/c2lean.py) computes exactly the model's `TJ.checkTag` — the function all six decrypt entry points end with and
  the theorems of TJ.Props.C03 / C04 / C08 are stated about.

  For every tag length, every two tags, every plaintext length and content, wherever the three buffers lie (they may share
  blocks, as the plaintext and the received tag do in in-place decryption):
    * the C function returns `(checkTag P T1 T2).1` as a 32-bit int — 0 iff the tags are equal in all bits, else -1;
    * the plaintext region holds `(checkTag P T1 T2).2` afterwards — unchanged on acceptance, all zero on rejection;
    * no other byte of memory is changed.
  A comparison that drops a byte, a bit or an iteration, a wipe that skips or overruns bytes, or an early exit makes this file
  stop compiling.
-/
import TJ.Proofs.CheckTagC
import TJ.Proofs.CheckTag
namespace TJ.Props.C03Gen
open TJ TJ.MiniC TJ.MiniC.CheckTagC TJ.Gen.MiniC

theorem map_replicate_zero (P : List UInt8) :
    (List.replicate P.length (0 : UInt8)).map (fun p => (p, Lab.sec)) = P.map (fun _ => ((0 : UInt8), Lab.sec)) := by
  induction P with
  | nil => rfl
  | cons p ps ih => simp only [List.length_cons, List.replicate_succ, List.map_cons, ih]

theorem check_tag_source_is_model (prog : Program) (e : Nat) (st : St) (P T1 T2 : List UInt8) (hlen : T1.length = T2.length)
    (bp op b1 o1 b2 o2 : Nat) (blkp blk1 blk2 : Block)
    (hbp : st.mem[bp]? = some blkp) (hb1 : st.mem[b1]? = some blk1) (hb2 : st.mem[b2]? = some blk2)
    (hP : ∀ i p, P[i]? = some p → blkp.bytes[op + i]? = some (p, .sec))
    (h1 : ∀ i x, T1[i]? = some x → blk1.bytes[o1 + i]? = some (x, .sec))
    (h2 : ∀ i y, T2[i]? = some y → blk2.bytes[o2 + i]? = some (y, .sec))
    (hlp : blkp.base + op + P.length < ptrBase) (hl1 : blk1.base + o1 + T1.length < ptrBase) (hl2 : blk2.base + o2 + T1.length < ptrBase)
    (hbbp : bp < 2 ^ 30) (hbb1 : b1 < 2 ^ 30) (hbb2 : b2 < 2 ^ 30) :
    ∃ env' st' lr, exec prog (e + T1.length + P.length + 11) f_tinyjambu_aead_check_tag.body
        #[(mkPtr bp (blkp.base + op), .pub), (P.length, .pub), (mkPtr b1 (blk1.base + o1), .pub), (mkPtr b2 (blk2.base + o2), .pub),
          (T1.length, .pub), (0, .undef), (0, .undef), (0, .undef), (0, .undef), (0, .undef), (0, .undef), (0, .undef), (0, .undef)] st =
        .ok (.ret (some (ofInt .i32 (checkTag P T1 T2).1, lr))) env' st' ∧
      st'.mem = setBlock st.mem bp (writeBytes blkp.bytes op ((checkTag P T1 T2).2.map fun p => (p, Lab.sec))) ∧
      st'.ent = st.ent := by
  obtain ⟨env', st', lr, hex, hmem, hent, _⟩ := check_tag_regenerated prog e st P T1 T2 hlen bp op b1 o1 b2 o2 blkp blk1 blk2
    hbp hb1 hb2 hP h1 h2 hlp hl1 hl2 hbbp hbb1 hbb2
  refine ⟨env', st', lr, ?_, ?_, hent⟩
  · rw [hex, checkTag_spec P T1 T2 hlen]
    by_cases ht : T1 = T2
    · simp only [ht, if_true]; rfl
    · simp only [ht, if_false]; rfl
  · rw [hmem, checkTag_spec P T1 T2 hlen]
    by_cases ht : T1 = T2
    · simp only [ht, if_true]
    · simp only [ht, if_false]
      rw [map_replicate_zero]

/-- non-vacuity: a concrete memory satisfying the hypotheses (plaintext and received tag in ONE block, as in in-place use) -/
def blk0 : Block := { bytes := #[(0x11, .sec), (0x22, .sec), (0xA1, .sec), (0xA2, .sec)], base := 3 }
def blk1 : Block := { bytes := #[(0xA1, .sec), (0xA3, .sec)], base := 0 }
def demoSt : St := { mem := #[blk0, blk1], ent := [], leak := [] }

example : True := by
  have := check_tag_source_is_model [] 0 demoSt [0x11, 0x22] [0xA1, 0xA3] [0xA1, 0xA2] rfl 0 0 1 0 0 2 blk0 blk1 blk0 rfl rfl rfl
    (by intro i p h; match i, h with | 0, h => cases h; rfl | 1, h => cases h; rfl)
    (by intro i p h; match i, h with | 0, h => cases h; rfl | 1, h => cases h; rfl)
    (by intro i p h; match i, h with | 0, h => cases h; rfl | 1, h => cases h; rfl)
    (by decide) (by decide) (by decide) (by decide) (by decide) (by decide)
  trivial

end TJ.Props.C03Gen
