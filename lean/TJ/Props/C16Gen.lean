/-
  C15 / C16 / C17 for HISTORIES on the REGENERATED source: any sequence of `tinyjambu_prng_generate`, `tinyjambu_prng_feed`, `tinyjambu_prng_reseed` and
  `tinyjambu_prng_set_reseed_limit` calls on one state object with a user entropy callback installed (the functions as translated from src/tinyjambu-prng.c by tools/c2lean.py,
  with the regenerated hash functions below them) computes, call by call, the hand model's `Prng.runOps`: the same state after every call, the same output bytes, the same
  consumption of entropy deliveries.  The hand-model theorems about every history — `TJ.Props.C16.bound_all_histories` (never more than 32·limit bytes between two entropy
  requests), `TJ.Props.C15` (each step is the documented Hash_DRBG step), `TJ.Props.C17` (statuses) — therefore speak about every history of calls on the regenerated code.
  The proof is an induction over the list of operations with the memory invariant `PMI`.

  Second part: the same induction for EITHER entropy source (user callback or `tinyjambu_prng_system`) against the source-level specification `GS`
  (`history_source_either`, `init_system_then_history`): every history completes without a fault whatever the source delivers — the "usable on failure" clause of C17.
-/
import TJ.Props.C15Gen
import TJ.Props.C16
import TJ.Props.C17Gen
namespace TJ.Props.C16Gen
open TJ TJ.MiniC TJ.MiniC.Hoare TJ.MiniC.PermC TJ.Gen.MiniC TJ.Props.C15Gen

/-- where the history runs: the state object, an output buffer of at least `cap` bytes, a read-only input buffer holding the data of the `feed` operations -/
structure PGeo where
  bp : Nat
  bd : Nat
  bi : Nat
  baseP : Nat
  based : Nat
  basei : Nat
  doff : Nat
  cap : Nat
  xsz : Nat
  dsz : Nat
  XI : Array LByte
  ud : Nat
  msz : Nat
  hpd : bp ≠ bd
  hpi : bi ≠ bp
  hdi : bi ≠ bd
  hal : baseP % 8 = 0
  hltP : baseP + xsz < ptrBase
  hltD : based + dsz < ptrBase
  hltI : basei + XI.size < ptrBase
  hin : doff + cap ≤ dsz
  hsz : msz + 7 < 2 ^ 30

/-- the memory invariant between two calls -/
structure PMI (G : PGeo) (p : Prng) (e : Ent) (st : St) : Prop where
  obj : ∃ X, st.mem[G.bp]? = some ⟨X, G.baseP⟩ ∧ X.size = G.xsz ∧ Holds X p ∧ PCb X G.ud
  out : ∃ XD, st.mem[G.bd]? = some ⟨XD, G.based⟩ ∧ XD.size = G.dsz
  inp : ∃ XI', st.mem[G.bi]? = some ⟨XI', G.basei⟩ ∧ XI'.size = G.XI.size ∧ ∀ q : Nat, ORel VEq XI'[q]? G.XI[q]?
  ent : st.ent = script e
  msz : st.mem.size = G.msz
  cb : p.cb = .user
  small : Small e
  shape : C15.Shape p

/-- one call of the history on the regenerated program -/
inductive PCall (G : PGeo) : St → POp → St → Prop
  | gen (st st1 : St) (n fuel : Nat) :
      callFun prog fuel idx_tinyjambu_prng_generate false [(mkPtr G.bp G.baseP, .pub), (mkPtr G.bd (G.based + G.doff), .pub), (n, .pub)] st =
        .ok .normal #[(0, .pub), (mkPtr G.bp G.baseP, .pub), (mkPtr G.bd (G.based + G.doff), .pub), (n, .pub)] st1 → PCall G st (.gen n) st1
  | feed (st st1 : St) (d : Bytes) (off fuel : Nat) :
      callFun prog fuel idx_tinyjambu_prng_feed false [(mkPtr G.bp G.baseP, .pub), (mkPtr G.bi (G.basei + off), .pub), (d.length, .pub)] st =
        .ok .normal #[(0, .pub), (mkPtr G.bp G.baseP, .pub), (mkPtr G.bi (G.basei + off), .pub), (d.length, .pub)] st1 → PCall G st (.feed d) st1
  | reseed (st st1 : St) (ret fuel : Nat) :
      callFun prog fuel idx_tinyjambu_prng_reseed true [(mkPtr G.bp G.baseP, .pub)] st = .ok .normal #[(ret, .pub), (mkPtr G.bp G.baseP, .pub)] st1 → PCall G st .reseed st1
  | limit (st st1 : St) (n fuel : Nat) :
      callFun prog fuel idx_tinyjambu_prng_set_reseed_limit false [(mkPtr G.bp G.baseP, .pub), (n, .pub)] st = .ok .normal #[(0, .pub), (mkPtr G.bp G.baseP, .pub), (n, .pub)] st1 →
      PCall G st (.limit n) st1

inductive PRun (G : PGeo) : St → List POp → St → Prop
  | nil (st : St) : PRun G st [] st
  | cons (st st1 st2 : St) (op : POp) (ops : List POp) : PCall G st op st1 → PRun G st1 ops st2 → PRun G st (op :: ops) st2

/-- which operations the history may contain: requests within the output buffer, limits that fit `size_t`, feed data that lies in the input buffer -/
def OpOk (G : PGeo) : POp → Prop
  | .gen n => n ≤ G.cap
  | .feed d => ∃ off, BytesV G.XI off d
  | .reseed => True
  | .limit n => n < 18446744073709551616

theorem bytesV_of_oveqI {Z Y : Array LByte} (hs : Z.size = Y.size) (h : ∀ q : Nat, ORel VEq Z[q]? Y[q]?) {off : Nat} {bs : Bytes} (hd : BytesV Y off bs) : BytesV Z off bs := by
  refine ⟨by rw [hs]; exact hd.1, fun k b hk => ?_⟩
  obtain ⟨l, hx, hl⟩ := hd.2 k b hk
  have := h (off + k)
  rw [hx] at this
  cases hz : Z[off + k]? with
  | none => rw [hz] at this; exact this.elim
  | some z =>
    rw [hz] at this
    obtain ⟨z1, z2⟩ := z
    have e1 : z1 = b := this.1
    have e2 : (z2 = Lab.undef) = (l = Lab.undef) := this.2
    exact ⟨z2, by rw [hz, e1], fun hu => hl (e2 ▸ hu)⟩

/-- a block kept by a call (no byte overwritten) keeps its values -/
theorem keep_veq {W : Nat → Prop} {m m0 : Array Block} {j : Nat} {Y : Array LByte} {base : Nat} (h : ORel (KeepW (fun _ => False) W) m[j]? m0[j]?) (h0 : m0[j]? = some ⟨Y, base⟩) :
    ∃ Z, m[j]? = some ⟨Z, base⟩ ∧ Z.size = Y.size ∧ ∀ q : Nat, ORel VEq Z[q]? Y[q]? := by
  rw [h0] at h
  obtain ⟨Z, h1, h2, h3⟩ := okeep_block h
  exact ⟨Z, h1, h2, fun q => (h3.2.2 q (fun x => x)).1⟩

theorem ovle_refl (x : Option LByte) : ORel VLe x x := by
  cases x with
  | none => trivial
  | some b => exact VLe.refl b

/-- **one call of the history**: the model's `runOp` and the regenerated function agree, and the memory invariant is re-established -/
theorem pcall_step (G : PGeo) (p : Prng) (e : Ent) (st : St) (op : POp) (m : PMI G p e st) (hop : OpOk G op) :
    ∃ p1 e1 t1 st1, p.runOp e op = some (p1, e1, t1) ∧ PCall G st op st1 ∧ PMI G p1 e1 st1 := by
  obtain ⟨X, hX, hXs, ho, hcb⟩ := m.obj
  obtain ⟨XD, hD, hDs⟩ := m.out
  obtain ⟨XI', hI, hIs, hIv⟩ := m.inp
  have hltP : G.baseP + X.size < ptrBase := by rw [hXs]; exact G.hltP
  have hltD : G.based + XD.size < ptrBase := by rw [hDs]; exact G.hltD
  have hltI : G.basei + XI'.size < ptrBase := by rw [hIs]; exact G.hltI
  have hmsz := m.msz
  have hGsz := G.hsz
  have hal4 : G.baseP % 4 = 0 := by have := G.hal; omega
  cases op with
  | gen n =>
    have hn : n ≤ G.cap := hop
    obtain ⟨fuel, st1, r, Xp', XD', hgl, hrun, hent, hms1, g1, g2, g3, g4, d1, d2, _, _, _, g5⟩ := generate_source_is_model st G.bp G.bd X XD G.baseP G.based G.doff n G.ud p e
      m.cb m.small m.shape hX ho hcb m.ent hD G.hpd G.hal hltP hltD (by rw [hDs]; have := G.hin; omega) (by rw [hmsz]; exact hGsz)
    obtain ⟨r', hr1, _, _, hcb', hsm', hsh'⟩ := genLoop_link n n p e (Nat.le_refl _) m.cb m.small m.shape
    have hrr : r' = r := Option.some.inj (hr1.symm.trans hgl)
    subst hrr
    obtain ⟨Z, hZ, hZs, hZv⟩ := keep_veq (g5 G.bi G.hpi G.hdi) hI
    refine ⟨r'.p, r'.e, r'.trace, st1, by simp only [Prng.runOp, Prng.generate, hgl], PCall.gen st st1 n fuel hrun,
      ⟨⟨Xp', g1, g2.trans hXs, g3, g4⟩, ⟨XD', d1, d2.trans hDs⟩, ⟨Z, hZ, hZs.trans hIs, fun q => orel_trans (R := VEq) (fun _ _ _ a b => VEq.trans a b) (hZv q) (hIv q)⟩,
        hent, hms1.trans hmsz, hcb', hsm', hsh'⟩⟩
  | feed d =>
    obtain ⟨off, hd⟩ := hop
    have hd' : BytesV XI' off d := bytesV_of_oveqI hIs hIv hd
    obtain ⟨fuel, st1, X', hrun, hent, hms1, g1, g2, g3, g4, g5⟩ := feed_source_is_model st G.bp G.bi X XI' G.baseP G.basei off p d hX ho hal4 hltP hI hd' hltI G.hpi
      (by rw [hmsz]; omega)
    obtain ⟨Z, hZ, hZs, hZv⟩ := keep_veq (g5 G.bi G.hpi) hI
    obtain ⟨ZD, hZD, hZDs, _⟩ := keep_veq (g5 G.bd G.hpd.symm) hD
    refine ⟨p.feed d, e, [], st1, rfl, PCall.feed st st1 d off fuel hrun,
      ⟨⟨X', g1, g2.trans hXs, g3, pcb_vle hcb (fun q hq => g4 q (by omega))⟩, ⟨ZD, hZD, hZDs.trans hDs⟩,
        ⟨Z, hZ, hZs.trans hIs, fun q => orel_trans (R := VEq) (fun _ _ _ a b => VEq.trans a b) (hZv q) (hIv q)⟩, hent.trans m.ent, hms1.trans hmsz, m.cb, m.small,
        ⟨C15.hashDf_length _ _ _, C15.hashDf_length _ _ _⟩⟩⟩
  | reseed =>
    obtain ⟨fuel, st1, ret, p', e', X', hr, hrun, hent, hms1, g1, g2, g3, g4, g5⟩ := reseed_source_is_model st G.bp X G.baseP G.ud p e m.cb m.small m.shape.1 hX ho hcb m.ent G.hal hltP
      (by rw [hmsz]; omega)
    obtain ⟨ret2, p2, e2, hr2, _, hcb2, hsm2, hsh2⟩ := reseed_link p e m.cb m.small m.shape.1
    have heq : (ret2, p2, e2) = (ret, p', e') := Option.some.inj (hr2.symm.trans hr)
    have hp : p2 = p' := (Prod.mk.inj (Prod.mk.inj heq).2).1
    have he : e2 = e' := (Prod.mk.inj (Prod.mk.inj heq).2).2
    subst hp he
    obtain ⟨Z, hZ, hZs, hZv⟩ := keep_veq (g5 G.bi G.hpi) hI
    obtain ⟨ZD, hZD, hZDs, _⟩ := keep_veq (g5 G.bd G.hpd.symm) hD
    refine ⟨p2, e2, [.request], st1, by simp only [Prng.runOp, hr], PCall.reseed st st1 ret.toNat fuel hrun,
      ⟨⟨X', g1, g2.trans hXs, g3, g4⟩, ⟨ZD, hZD, hZDs.trans hDs⟩, ⟨Z, hZ, hZs.trans hIs, fun q => orel_trans (R := VEq) (fun _ _ _ a b => VEq.trans a b) (hZv q) (hIv q)⟩,
        hent, hms1.trans hmsz, hcb2, hsm2, hsh2⟩⟩
  | limit n =>
    have hn : n < 18446744073709551616 := hop
    have hbpN := mem_lt hX
    obtain ⟨fuel, st1, hrun, hent, hm1, ho1⟩ := set_limit_source_is_model st G.bp X G.baseP n p hn hX ho hal4 hltP (by omega)
    refine ⟨p.setLimit n, e, [.limit (p.setLimit n).rl.toNat], st1, rfl, PCall.limit st st1 n fuel hrun,
      ⟨⟨_, by rw [hm1, getElem?_setBlock', if_pos rfl, hX]; rfl, by rw [size_writeLE]; exact hXs, ho1,
          pcb_vle hcb (fun q hq => by rw [getElem?_writeLE_out _ _ _ _ _ q (Or.inr (by omega))]; exact ovle_refl _)⟩,
        ⟨XD, by rw [hm1, getElem?_setBlock', if_neg G.hpd.symm]; exact hD, hDs⟩, ⟨XI', by rw [hm1, getElem?_setBlock', if_neg G.hpi]; exact hI, hIs, hIv⟩,
        hent.trans m.ent, by rw [hm1, size_setBlock']; exact hmsz, m.cb, m.small, m.shape⟩⟩

/-- **every history on the regenerated source is the model's history** -/
theorem history_source_is_model (G : PGeo) (ops : List POp) : ∀ (p : Prng) (e : Ent) (st : St), PMI G p e st → (∀ op ∈ ops, OpOk G op) →
    ∃ p' e' t st', p.runOps e ops = some (p', e', t) ∧ PRun G st ops st' ∧ PMI G p' e' st' := by
  induction ops with
  | nil => intro p e st m _; exact ⟨p, e, [], st, rfl, PRun.nil st, m⟩
  | cons op ops ih =>
    intro p e st m hok
    obtain ⟨p1, e1, t1, st1, h1, hc1, m1⟩ := pcall_step G p e st op m (hok op (List.mem_cons_self ..))
    obtain ⟨p2, e2, t2, st2, h2, hr2, m2⟩ := ih p1 e1 st1 m1 (fun o ho => hok o (List.mem_cons_of_mem _ ho))
    refine ⟨p2, e2, t1 ++ t2, st2, ?_, PRun.cons st st1 st2 op ops hc1 hr2, m2⟩
    simp only [Prng.runOps, h1, h2]

/-- **C16 on the regenerated source**: whatever history of generate / feed / reseed / set-limit calls runs on the regenerated code from a state that satisfies the model's
    invariant with `since` bytes emitted since the last entropy request, it is the model's history, and its event trace never lets the count pass 32·(limit in force) -/
theorem reseed_bound_source (G : PGeo) (ops : List POp) (p : Prng) (e : Ent) (st : St) (since : Nat) (m : PMI G p e st) (hi : PInv p since) (hok : ∀ op ∈ ops, OpOk G op) :
    ∃ p' e' t st', p.runOps e ops = some (p', e', t) ∧ PRun G st ops st' ∧ PMI G p' e' st' ∧ bounded since p.rl.toNat t := by
  obtain ⟨p', e', t, st', h1, h2, h3⟩ := history_source_is_model G ops p e st m hok
  obtain ⟨p'', e'', t', h4, h5, _⟩ := runOps_spec ops p e since hi
  have : (p', e', t) = (p'', e'', t') := Option.some.inj (h1.symm.trans h4)
  have ht : t = t' := (Prod.mk.inj (Prod.mk.inj this).2).2
  rw [← ht] at h5
  exact ⟨p', e', t, st', h1, h2, h3, h5⟩

theorem initUser_small (udb : Bool) (custom : Bytes) (e e' : Ent) (ret : Int) (p' : Prng) (hs : Small e) (h : Prng.initUser .user udb custom e = some (ret, p', e')) : Small e' := by
  unfold Prng.initUser at h
  simp only [reduceCtorEq, if_false, Ent.request] at h
  cases hu : e.user with
  | nil =>
    rw [hu] at h
    have : e' = e := by injection h with h; exact (Prod.mk.inj (Prod.mk.inj h).2).2.symm
    rw [this]; exact hs
  | cons d r =>
    rw [hu] at h
    have : e' = { e with user := r } := by injection h with h; exact (Prod.mk.inj (Prod.mk.inj h).2).2.symm
    rw [this]
    intro x hx
    exact hs x (by rw [hu]; exact List.mem_cons_of_mem _ hx)

/-- **C16 (and the history parts of C15 / C17) on the regenerated source, from initialisation**: `tinyjambu_prng_init_user` with a user entropy callback (any delivery, also
    empty or short) on a state object with any prior content, then ANY history of generate / feed / reseed / set-limit calls: the regenerated code computes the model's
    `initUser` and `runOps`, and the event trace of the whole history respects the reseed bound starting from the default limit of 32 blocks. -/
theorem init_then_history_source (G : PGeo) (st : St) (X XD : Array LByte) (ioff : Nat) (custom : Bytes) (e : Ent) (udb : Bool) (ops : List POp)
    (hs : Small e) (hent : st.ent = script e) (hP : st.mem[G.bp]? = some ⟨X, G.baseP⟩) (hXs : X.size = G.xsz) (h96 : 96 ≤ G.xsz) (hud : G.ud < 18446744073709551616)
    (hD : st.mem[G.bd]? = some ⟨XD, G.based⟩) (hDs : XD.size = G.dsz)
    (hI : st.mem[G.bi]? = some ⟨G.XI, G.basei⟩) (hd : BytesV G.XI ioff custom) (hmsz : st.mem.size = G.msz) (hok : ∀ op ∈ ops, OpOk G op) :
    ∃ fuel st0 ret p0 e0 p' e' t st', Prng.initUser .user udb custom e = some (ret, p0, e0) ∧
      callFun prog fuel idx_tinyjambu_prng_init_user true
        [(mkPtr G.bp G.baseP, .pub), (userCb, .pub), (G.ud, .pub), (mkPtr G.bi (G.basei + ioff), .pub), (custom.length, .pub)] st =
        .ok .normal #[(ret.toNat, .pub), (mkPtr G.bp G.baseP, .pub), (userCb, .pub), (G.ud, .pub), (mkPtr G.bi (G.basei + ioff), .pub), (custom.length, .pub)] st0 ∧
      p0.runOps e0 ops = some (p', e', t) ∧ PRun G st0 ops st' ∧ PMI G p' e' st' ∧ bounded 0 32 t := by
  have hGsz := G.hsz
  obtain ⟨fuel, st0, ret, p0, e0, X0, hinit, hrun, _, hent0, hms0, hX0, hX0s, ho0, hcb0, hcbk, hsh0, hoth0⟩ := TJ.Props.C17Gen.init_user_source_is_model st G.bp G.bi X G.XI G.baseP G.basei ioff
    G.ud custom e udb hs hent hP (by rw [hXs]; exact h96) G.hal (by rw [hXs]; exact G.hltP) hud hI hd G.hltI G.hpi (by rw [hmsz]; omega)
  obtain ⟨Z, hZ, hZs, hZv⟩ := keep_veq (hoth0 G.bi G.hpi) hI
  obtain ⟨ZD, hZD, hZDs, _⟩ := keep_veq (hoth0 G.bd G.hpd.symm) hD
  have m0 : PMI G p0 e0 st0 := ⟨⟨X0, hX0, hX0s.trans hXs, ho0, hcb0⟩, ⟨ZD, hZD, hZDs.trans hDs⟩, ⟨Z, hZ, hZs, hZv⟩, hent0, hms0.trans hmsz, hcbk, initUser_small udb custom e e0 ret p0 hs hinit, hsh0⟩
  obtain ⟨r1, p1, e1, h1, hinv, hrl⟩ := initUser_inv .user udb custom e
  have heq : (r1, p1, e1) = (ret, p0, e0) := Option.some.inj (h1.symm.trans hinit)
  have hp : p1 = p0 := (Prod.mk.inj (Prod.mk.inj heq).2).1
  subst hp
  obtain ⟨p', e', t, st', g1, g2, g3, g4⟩ := reseed_bound_source G ops p1 e0 st0 0 m0 hinv hok
  have h32 : p1.rl.toNat = 32 := by rw [hrl]; rfl
  rw [h32] at g4
  exact ⟨fuel, st0, ret, p1, e0, p', e', t, st', hinit, hrun, g1, g2, g3, g4⟩

/-! ### histories with EITHER entropy source (user callback or `tinyjambu_prng_system`), against the source-level specification `GS` -/

def _root_.TJ.MiniC.Hoare.GS.feed (g : GS) (d : Bytes) : GS :=
  { g with V := hashDf 1 g.V d, C := hashDf 0 (hashDf 1 g.V d) [], rc := if g.rc = 4294967295 then g.rc else g.rc + 1 }

def _root_.TJ.MiniC.Hoare.GS.setLimit (g : GS) (n : Nat) : GS := { g with rl := Hoare.limitBlocks n }

/-- one operation of the source-level specification (with the bytes a `generate` returns) -/
def _root_.TJ.MiniC.Hoare.GS.runOp (g : GS) : POp → GS
  | .gen n => (g.loop n).2
  | .feed d => g.feed d
  | .reseed => g.reseed
  | .limit n => g.setLimit n

def _root_.TJ.MiniC.Hoare.GS.runOps (g : GS) (ops : List POp) : GS := ops.foldl GS.runOp g

/-- the memory invariant between two calls, for the callback value `cbv` stored in the object -/
structure GMI (G : PGeo) (cbv : Nat) (g : GS) (st : St) : Prop where
  obj : ∃ X, st.mem[G.bp]? = some ⟨X, G.baseP⟩ ∧ X.size = G.xsz ∧ PObjV X g.V g.C g.rc g.rl ∧ PCb X G.ud cbv
  out : ∃ XD, st.mem[G.bd]? = some ⟨XD, G.based⟩ ∧ XD.size = G.dsz
  inp : ∃ XI', st.mem[G.bi]? = some ⟨XI', G.basei⟩ ∧ XI'.size = G.XI.size ∧ ∀ q : Nat, ORel VEq XI'[q]? G.XI[q]?
  ent : st.ent = g.ent
  msz : st.mem.size = G.msz

theorem callFun3 (f : Nat) (b : Bool) (a1 a2 a3 : LVal) (st : St) :
    callFun prog (k : Nat) f b [a1, a2, a3] st = exec prog k (.call (if b then some 0 else none) f [.var 1, .var 2, .var 3]) #[(0, .pub), a1, a2, a3] st := by
  unfold callFun
  simp only [List.length_cons, List.length_nil, List.range, List.range.loop, List.map, Nat.zero_add]

/-- **one call, either source**: the regenerated function completes, performs the specification's step, and the invariant is re-established -/
theorem gcall_step (G : PGeo) (cbv : Nat) (hk : CbOk cbv) (g : GS) (st : St) (op : POp) (m : GMI G cbv g st) (hop : OpOk G op) :
    ∃ st1, PCall G st op st1 ∧ GMI G cbv (g.runOp op) st1 := by
  obtain ⟨X, hX, hXs, ho, hcb⟩ := m.obj
  obtain ⟨XD, hD, hDs⟩ := m.out
  obtain ⟨XI', hI, hIs, hIv⟩ := m.inp
  have hltP : G.baseP + X.size < ptrBase := by rw [hXs]; exact G.hltP
  have hltD : G.based + XD.size < ptrBase := by rw [hDs]; exact G.hltD
  have hltI : G.basei + XI'.size < ptrBase := by rw [hIs]; exact G.hltI
  have hmsz := m.msz
  have hGsz := G.hsz
  have hal4 : G.baseP % 4 = 0 := by have := G.hal; omega
  cases op with
  | gen n =>
    have hn : n ≤ G.cap := hop
    obtain ⟨k, sig, en, s, hx, hsig, hen, hent', hms1, ⟨Xp', g1, g2, g3, g4⟩, ⟨XD', d1, d2, _, _, _⟩, g5⟩ := prng_generate_call cbv hk
      #[(0, .pub), (mkPtr G.bp G.baseP, .pub), (mkPtr G.bd (G.based + G.doff), .pub), (n, .pub)] st (.var 1) (.var 2) (.var 3) G.bp G.bd X XD G.baseP G.based G.doff n G.ud g
      (by simp [evalE]) (by simp [evalE]) (by simp [evalE]) hX ho hcb m.ent hD G.hpd G.hal hltP hltD (by rw [hDs]; have := G.hin; omega) (by rw [hmsz]; exact hGsz)
    subst hsig hen
    obtain ⟨Z, hZ, hZs, hZv⟩ := keep_veq (g5 G.bi G.hpi G.hdi) hI
    refine ⟨s, PCall.gen st s n k (by rw [callFun3]; exact hx),
      ⟨⟨Xp', g1, g2.trans hXs, g3, g4⟩, ⟨XD', d1, d2.trans hDs⟩, ⟨Z, hZ, hZs.trans hIs, fun q => orel_trans (R := VEq) (fun _ _ _ a b => VEq.trans a b) (hZv q) (hIv q)⟩,
        hent', hms1.trans hmsz⟩⟩
  | feed d =>
    obtain ⟨off, hd⟩ := hop
    have hd' : BytesV XI' off d := bytesV_of_oveqI hIs hIv hd
    obtain ⟨k, sig, en, s, hx, hsig, hen, hent', hms1, ⟨X', g1, g2, g3, g4⟩, g5⟩ := prng_feed_call
      #[(0, .pub), (mkPtr G.bp G.baseP, .pub), (mkPtr G.bi (G.basei + off), .pub), (d.length, .pub)] st (.var 1) (.var 2) (.var 3) G.bp G.bi X XI' G.baseP G.basei off
      (mkPtr G.bi (G.basei + off)) g.V g.C d g.rc g.rl (by simp [evalE]) (by simp [evalE]) (by simp [evalE]) hX ho hal4 hltP (Or.inr ⟨hI, hd', rfl, hltI⟩) G.hpi (by rw [hmsz]; omega)
    subst hsig hen
    obtain ⟨Z, hZ, hZs, hZv⟩ := keep_veq (g5 G.bi G.hpi) hI
    obtain ⟨ZD, hZD, hZDs, _⟩ := keep_veq (g5 G.bd G.hpd.symm) hD
    refine ⟨s, PCall.feed st s d off k (by rw [callFun3]; exact hx),
      ⟨⟨X', g1, g2.trans hXs, g3, pcb_vle hcb (fun q hq => g4 q (by omega))⟩, ⟨ZD, hZD, hZDs.trans hDs⟩,
        ⟨Z, hZ, hZs.trans hIs, fun q => orel_trans (R := VEq) (fun _ _ _ a b => VEq.trans a b) (hZv q) (hIv q)⟩, hent'.trans m.ent, hms1.trans hmsz⟩⟩
  | reseed =>
    obtain ⟨k, sig, en, s, hx, hsig, hen, hent', hms1, ⟨X', g1, g2, g3, g4⟩, g5⟩ := prng_reseed_call_ret cbv hk 0 #[(0, .pub), (mkPtr G.bp G.baseP, .pub)] st (.var 1) G.bp X G.baseP
      g.V g.C g.rc g.rl G.ud .pub (by simp [evalE]) hX ho hcb.toV G.hal hltP (by rw [hmsz]; omega)
    subst hsig
    obtain ⟨Z, hZ, hZs, hZv⟩ := keep_veq (g5 G.bi G.hpi) hI
    obtain ⟨ZD, hZD, hZDs, _⟩ := keep_veq (g5 G.bd G.hpd.symm) hD
    refine ⟨s, PCall.reseed st s (if cbRet cbv (st.ent.headD ([], 0)) = 32 then 1 else 0) k ?_,
      ⟨⟨X', g1, g2.trans hXs, by rw [m.ent] at g3; exact g3, pcb_vle hcb (fun q hq => g4 q (by omega))⟩, ⟨ZD, hZD, hZDs.trans hDs⟩,
        ⟨Z, hZ, hZs.trans hIs, fun q => orel_trans (R := VEq) (fun _ _ _ a b => VEq.trans a b) (hZv q) (hIv q)⟩, by rw [hent', m.ent]; rfl, hms1.trans hmsz⟩⟩
    unfold callFun
    simp only [List.length_cons, List.length_nil, List.range, List.range.loop, List.map, if_true, Nat.zero_add]
    rw [hx, hen]; rfl
  | limit n =>
    have hn : n < 18446744073709551616 := hop
    have hbpN := mem_lt hX
    obtain ⟨k, sig, en, s, hx, hsig, hen, hent', hm1, ho1⟩ := prng_set_limit_call #[(0, .pub), (mkPtr G.bp G.baseP, .pub), (n, .pub)] st (.var 1) (.var 2) G.bp X G.baseP n g.V g.C g.rc g.rl
      (by simp [evalE]) (by simp [evalE]) hn hX ho hal4 hltP (by omega)
    subst hsig hen
    refine ⟨s, PCall.limit st s n k ?_,
      ⟨⟨_, by rw [hm1, getElem?_setBlock', if_pos rfl, hX]; rfl, by rw [size_writeLE]; exact hXs, ho1,
          pcb_vle hcb (fun q hq => by rw [getElem?_writeLE_out _ _ _ _ _ q (Or.inr (by omega))]; exact ovle_refl _)⟩,
        ⟨XD, by rw [hm1, getElem?_setBlock', if_neg G.hpd.symm]; exact hD, hDs⟩, ⟨XI', by rw [hm1, getElem?_setBlock', if_neg G.hpi]; exact hI, hIs, hIv⟩,
        hent'.trans m.ent, by rw [hm1, size_setBlock']; exact hmsz⟩⟩
    unfold callFun
    simp only [List.length_cons, List.length_nil, List.range, List.range.loop, List.map, Bool.false_eq_true, if_false, Nat.zero_add]
    exact hx

/-- **C17 on the regenerated source, for histories and for BOTH entropy sources**: with the user callback or with `tinyjambu_prng_system` stored in the object, every history of
    generate / feed / reseed / set-limit calls on the regenerated code completes (no fault, whatever the source delivers — nothing, short, or 32 bytes) and leaves the state the
    source-level specification `GS.runOps` prescribes, consuming exactly one delivery per reseed -/
theorem history_source_either (G : PGeo) (cbv : Nat) (hk : CbOk cbv) (ops : List POp) : ∀ (g : GS) (st : St), GMI G cbv g st → (∀ op ∈ ops, OpOk G op) →
    ∃ st', PRun G st ops st' ∧ GMI G cbv (g.runOps ops) st' := by
  induction ops with
  | nil => intro g st m _; exact ⟨st, PRun.nil st, m⟩
  | cons op ops ih =>
    intro g st m hok
    obtain ⟨st1, hc1, m1⟩ := gcall_step G cbv hk g st op m (hok op (List.mem_cons_self ..))
    obtain ⟨st2, hr2, m2⟩ := ih (g.runOp op) st1 m1 (fun o ho => hok o (List.mem_cons_of_mem _ ho))
    exact ⟨st2, PRun.cons st st1 st2 op ops hc1 hr2, m2⟩

/-- **`tinyjambu_prng_init` (the system source; also what a NULL callback selects, TJ.Props.C17Gen.init_user_null_source) followed by ANY history**: initialisation returns 1
    exactly when the source reported success, and whatever it reported, every later call of every history completes on the regenerated code and follows `GS.runOps` -/
theorem init_system_then_history (G : PGeo) (hud : G.ud = 0) (st : St) (X XD : Array LByte) (ioff : Nat) (custom : Bytes) (ops : List POp)
    (hP : st.mem[G.bp]? = some ⟨X, G.baseP⟩) (hXs : X.size = G.xsz) (h96 : 96 ≤ G.xsz)
    (hD : st.mem[G.bd]? = some ⟨XD, G.based⟩) (hDs : XD.size = G.dsz)
    (hI : st.mem[G.bi]? = some ⟨G.XI, G.basei⟩) (hd : BytesV G.XI ioff custom) (hmsz : st.mem.size = G.msz) (hok : ∀ op ∈ ops, OpOk G op) :
    ∃ (fuel : Nat) (st0 : St) (g0 : GS) (st' : St), callFun prog fuel idx_tinyjambu_prng_init true [(mkPtr G.bp G.baseP, .pub), (mkPtr G.bi (G.basei + ioff), .pub), (custom.length, .pub)] st =
        .ok .normal #[(if (st.ent.headD ([], 0)).2 ≠ 0 then 1 else 0, .pub), (mkPtr G.bp G.baseP, .pub), (mkPtr G.bi (G.basei + ioff), .pub), (custom.length, .pub)] st0 ∧
      g0.rc = 1 ∧ g0.rl = 32 ∧ g0.ent = st.ent.tail ∧
      PRun G st0 ops st' ∧ GMI G sysCb (g0.runOps ops) st' := by
  have hGsz := G.hsz
  obtain ⟨fuel, st0, hrun, hent0, hms0, ⟨X0, hX0, hX0s, ho0, hcb0⟩, hoth0⟩ := TJ.Props.C17Gen.init_source st G.bp G.bi X G.XI G.baseP G.basei ioff custom hP (by rw [hXs]; exact h96) G.hal
    (by rw [hXs]; exact G.hltP) hI hd G.hltI G.hpi (by rw [hmsz]; omega)
  obtain ⟨Z, hZ, hZs, hZv⟩ := keep_veq (hoth0 G.bi G.hpi) hI
  obtain ⟨ZD, hZD, hZDs, _⟩ := keep_veq (hoth0 G.bd G.hpd.symm) hD
  have m0 : GMI G sysCb ⟨_, _, 1, 32, st0.ent⟩ st0 := ⟨⟨X0, hX0, hX0s.trans hXs, ho0, by rw [hud]; exact hcb0⟩, ⟨ZD, hZD, hZDs.trans hDs⟩, ⟨Z, hZ, hZs, hZv⟩, rfl, hms0.trans hmsz⟩
  obtain ⟨st', hr, m'⟩ := history_source_either G sysCb (Or.inr rfl) ops _ st0 m0 hok
  exact ⟨fuel, st0, _, st', hrun, rfl, rfl, hent0, hr, m'⟩

end TJ.Props.C16Gen
