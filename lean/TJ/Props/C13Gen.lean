/-
  C13 on the REGENERATED source: `tinyjambu_hkdf_extract`, `tinyjambu_hkdf_expand` and the one-shot `tinyjambu_hkdf` of src/tinyjambu-hkdf.c,
  as translated by tools/c2lean.py, with the regenerated HMAC, hash and permutation functions below them.

  * `hkdf_source_is_rfc5869` — for every key, salt, info and every `n ≤ 8160`, lying anywhere with any defined labels, the call returns 0 and the
    `n` bytes at `out` are RFC 5869's OKM over the library's own hash (`Spec.hkdf hash key salt info n`, TJ.Props.C13.oneshot); every other byte
    of memory keeps its value; the local state is wiped and released.
  * `hkdf_source_cap` — for `n > 8160` the call returns -1 and memory is unchanged.
  * `expand_source_is_model` — one incremental `tinyjambu_hkdf_expand` on any state object (left-over bytes of the last block, the block loop,
    the exhausted-counter exit that zeroes the rest and returns -1) = the hand model `KState.expand`, whose sequences TJ.Props.C13.incremental
    proves to be the successive slices of the one-shot stream.
  * `extract_source_is_model` — `tinyjambu_hkdf_extract` = `KState.extract`.
  * `hkdf_incremental_source` — extract on a state object with any prior content followed by ANY sequence of expand calls: the results are `TJ.Props.C13.expectExpands` of the
    RFC 5869 stream (consecutive slices, zeros with -1 past byte 8160) — the incremental half of C13 stated directly on the regenerated code.
  * `expands_source_are_model` — ANY sequence of `tinyjambu_hkdf_expand` calls on one state object (by induction on the sequence) returns, call by call, the return
    values and bytes of the model's `runExpands`, i.e. after `extract` the consecutive slices of `T(1) ‖ … ‖ T(255)` then zeros with -1 (TJ.Props.C13.incremental).

  Inside the computation the block counter and the position byte share a memory block with the key (`prk`), the previous block (`out`) and the
  counter byte that is itself hashed; the proofs show that these two bytes stay public (TJ.Proofs.Update1, TJ.Proofs.HmacK), so the branches on
  them are never on secret data.
-/
import TJ.Proofs.HkdfOneShot
import TJ.Props.C13
namespace TJ.Props.C13Gen
open TJ TJ.MiniC TJ.MiniC.Hoare TJ.Gen.MiniC

theorem hkdf_source_is_rfc5869 (st : St) (bo bk bt : Nat) (XO XK XT : Array LByte) (baseo oo basek koff baset toff n : Nat) (key salt info : Bytes) (pinfo bi basei ioff : Nat)
    (XI : Array LByte) (hn : n ≤ 8160)
    (hO : st.mem[bo]? = some ⟨XO, baseo⟩) (hK : st.mem[bk]? = some ⟨XK, basek⟩) (hT : st.mem[bt]? = some ⟨XT, baset⟩)
    (hltO : baseo + XO.size < ptrBase) (hltK : basek + XK.size < ptrBase) (hltT : baset + XT.size < ptrBase)
    (hkd : BytesV XK koff key) (htd : BytesV XT toff salt) (hin : oo + n ≤ XO.size)
    (hI : info = [] ∨ (st.mem[bi]? = some ⟨XI, basei⟩ ∧ BytesV XI ioff info ∧ pinfo = mkPtr bi (basei + ioff) ∧ bi ≠ bo ∧ basei + XI.size < ptrBase))
    (hsz : st.mem.size + 10 < 2 ^ 30) :
    ∃ fuel st' XO', callFun prog fuel idx_tinyjambu_hkdf true
        [(mkPtr bo (baseo + oo), .pub), (n, .pub), (mkPtr bk (basek + koff), .pub), (key.length, .pub), (mkPtr bt (baset + toff), .pub), (salt.length, .pub),
         (pinfo, .pub), (info.length, .pub)] st =
        .ok .normal #[(0, .pub), (mkPtr bo (baseo + oo), .pub), (n, .pub), (mkPtr bk (basek + koff), .pub), (key.length, .pub), (mkPtr bt (baset + toff), .pub), (salt.length, .pub),
          (pinfo, .pub), (info.length, .pub)] st' ∧
      st'.ent = st.ent ∧ st'.mem.size = st.mem.size ∧
      st'.mem[bo]? = some ⟨XO', baseo⟩ ∧ XO'.size = XO.size ∧ BytesV XO' oo (Spec.hkdf hash key salt info n) ∧
      (∀ q : Nat, (q < oo ∨ oo + n ≤ q) → ORel VEq XO'[q]? XO[q]?) ∧
      (∀ j, j ≠ bo → ORel BlockEqV st'.mem[j]? st.mem[j]?) := by
  obtain ⟨k, sig, e, s, hx, hs, he, hent, hmsz, ⟨XO', g1, g2, g3, _, g4⟩, g5⟩ := hkdf_call_ok 0
    #[(0, .pub), (mkPtr bo (baseo + oo), .pub), (n, .pub), (mkPtr bk (basek + koff), .pub), (key.length, .pub), (mkPtr bt (baset + toff), .pub), (salt.length, .pub),
      (pinfo, .pub), (info.length, .pub)] st (.var 1) (.var 2) (.var 3) (.var 4) (.var 5) (.var 6) (.var 7) (.var 8) bo bk bt XO XK XT baseo oo basek koff baset toff n key salt info
    pinfo bi basei ioff XI hn (by simp [evalE]) (by simp [evalE]) (by simp [evalE]) (by simp [evalE]) (by simp [evalE]) (by simp [evalE]) (by simp [evalE]) (by simp [evalE])
    hO hK hT hltO hltK hltT hkd htd hin hI hsz
  subst hs
  have hm := TJ.Props.C13.oneshot n key salt info
  rw [if_pos hn] at hm
  have hout : ((kFresh.extract key salt).expand info n).2.1 = Spec.hkdf hash key salt info n := by
    have : hkdf n key salt info = (0, some ((kFresh.extract key salt).expand info n).2.1) := by
      unfold hkdf; rw [if_neg (by omega)]; rfl
    rw [this] at hm
    exact Option.some.inj (Prod.mk.inj hm).2
  rw [hout] at g3
  refine ⟨k, s, XO', ?_, hent, hmsz, g1, g2, g3, g4, g5⟩
  unfold callFun
  simp only [List.length_cons, List.length_nil, List.range, List.range.loop, List.map, if_true, Nat.zero_add]
  rw [hx, he]
  rfl

theorem hkdf_source_cap (st : St) (vo n vk vkl vt vtl vi vil : Nat) (hn : n > 8160) :
    ∃ fuel st', callFun prog fuel idx_tinyjambu_hkdf true [(vo, .pub), (n, .pub), (vk, .pub), (vkl, .pub), (vt, .pub), (vtl, .pub), (vi, .pub), (vil, .pub)] st =
        .ok .normal #[(4294967295, .pub), (vo, .pub), (n, .pub), (vk, .pub), (vkl, .pub), (vt, .pub), (vtl, .pub), (vi, .pub), (vil, .pub)] st' ∧
      st'.ent = st.ent ∧ st'.mem = st.mem := by
  obtain ⟨k, sig, e, s, hx, hs, he, hent, hmem⟩ := hkdf_call_cap 0
    #[(0, .pub), (vo, .pub), (n, .pub), (vk, .pub), (vkl, .pub), (vt, .pub), (vtl, .pub), (vi, .pub), (vil, .pub)] st (.var 1) (.var 2) (.var 3) (.var 4) (.var 5) (.var 6) (.var 7) (.var 8)
    vo n vk vkl vt vtl vi vil hn (by simp [evalE]) (by simp [evalE]) (by simp [evalE]) (by simp [evalE]) (by simp [evalE]) (by simp [evalE]) (by simp [evalE]) (by simp [evalE])
  subst hs
  refine ⟨k, s, ?_, hent, hmem⟩
  unfold callFun
  simp only [List.length_cons, List.length_nil, List.range, List.range.loop, List.map, if_true, Nat.zero_add]
  rw [hx, he]
  rfl

/-- the C return value of `tinyjambu_hkdf_expand` as the model's `Int` -/
def retInt (rv : Nat) : Int := if rv = 4294967295 then -1 else rv

theorem expand_source_is_model (st : St) (bK bo : Nat) (X XO : Array LByte) (baseK baseo oo n : Nat) (k : KState) (od : Prop) (info : Bytes) (pinfo bi basei ioff : Nat) (XI : Array LByte)
    (hK : st.mem[bK]? = some ⟨X, baseK⟩) (ho : KObjV X k od) (hp32 : k.posn.toNat ≤ 32) (hod : (k.counter ≠ 1 ∨ k.posn.toNat < 32) → od)
    (hO : st.mem[bo]? = some ⟨XO, baseo⟩) (hKo : bK ≠ bo) (hltK : baseK + X.size < ptrBase) (hltO : baseo + XO.size < ptrBase) (hin : oo + n ≤ XO.size)
    (hI : info = [] ∨ (st.mem[bi]? = some ⟨XI, basei⟩ ∧ BytesV XI ioff info ∧ pinfo = mkPtr bi (basei + ioff) ∧ bi ≠ bK ∧ bi ≠ bo ∧ basei + XI.size < ptrBase))
    (hsz : st.mem.size + 6 < 2 ^ 30) :
    ∃ fuel st' rv, callFun prog fuel idx_tinyjambu_hkdf_expand true
        [(mkPtr bK baseK, .pub), (pinfo, .pub), (info.length, .pub), (mkPtr bo (baseo + oo), .pub), (n, .pub)] st =
        .ok .normal #[(rv, .pub), (mkPtr bK baseK, .pub), (pinfo, .pub), (info.length, .pub), (mkPtr bo (baseo + oo), .pub), (n, .pub)] st' ∧
      retInt rv = (k.expand info n).1 ∧ XPost st bK bo X XO baseK baseo oo n (k.expand info n).2.2 (k.expand info n).2.1 st' := by
  obtain ⟨f, sig, e, s, hx, hs, rv, he, hr, xp⟩ := hkdf_expand_call_ret 0
    #[(0, .pub), (mkPtr bK baseK, .pub), (pinfo, .pub), (info.length, .pub), (mkPtr bo (baseo + oo), .pub), (n, .pub)] st (.var 1) (.var 2) (.var 3) (.var 4) (.var 5)
    bK bo X XO baseK baseo oo n k od info pinfo bi basei ioff XI (by simp [evalE]) (by simp [evalE]) (by simp [evalE]) (by simp [evalE]) (by simp [evalE])
    hK ho hp32 hod hO hKo hltK hltO hin hI hsz
  subst hs
  refine ⟨f, s, rv, ?_, ?_, xp⟩
  · unfold callFun
    simp only [List.length_cons, List.length_nil, List.range, List.range.loop, List.map, if_true, Nat.zero_add]
    rw [hx, he]
    rfl
  · rcases hr with ⟨h1, h2⟩ | ⟨h1, h2⟩
    · rw [h1, h2]; rfl
    · rw [h1, h2]; rfl

theorem extract_source_is_model (st : St) (bs bk bt : Nat) (X XK XT : Array LByte) (baseS basek koff baset toff : Nat) (k : KState) (od : Prop) (key salt : Bytes)
    (hS : st.mem[bs]? = some ⟨X, baseS⟩) (hK : st.mem[bk]? = some ⟨XK, basek⟩) (hT : st.mem[bt]? = some ⟨XT, baset⟩) (hnk : bk ≠ bs) (hnt : bt ≠ bs)
    (hXs : 66 ≤ X.size) (hout : od → BytesV X 32 k.out) (houtl : k.out.length = 32)
    (hltS : baseS + X.size < ptrBase) (hltK : basek + XK.size < ptrBase) (hltT : baset + XT.size < ptrBase)
    (hkd : BytesV XK koff key) (htd : BytesV XT toff salt) (hsz : st.mem.size + 9 < 2 ^ 30) :
    ∃ fuel st' X', callFun prog fuel idx_tinyjambu_hkdf_extract false
        [(mkPtr bs baseS, .pub), (mkPtr bk (basek + koff), .pub), (key.length, .pub), (mkPtr bt (baset + toff), .pub), (salt.length, .pub)] st =
        .ok .normal #[(0, .pub), (mkPtr bs baseS, .pub), (mkPtr bk (basek + koff), .pub), (key.length, .pub), (mkPtr bt (baset + toff), .pub), (salt.length, .pub)] st' ∧
      st'.ent = st.ent ∧ st'.mem.size = st.mem.size ∧ st'.mem[bs]? = some ⟨X', baseS⟩ ∧ X'.size = X.size ∧ KObjV X' (k.extract key salt) od ∧
      (k.extract key salt).prk = Spec.hkdfExtract hash salt key ∧
      (∀ j, j ≠ bs → ORel BlockEqV st'.mem[j]? st.mem[j]?) := by
  obtain ⟨f, sig, e, s, hx, hs, he, hent, hmsz, ⟨X', g1, g2, g3⟩, g4⟩ := hkdf_extract_call
    #[(0, .pub), (mkPtr bs baseS, .pub), (mkPtr bk (basek + koff), .pub), (key.length, .pub), (mkPtr bt (baset + toff), .pub), (salt.length, .pub)] st
    (.var 1) (.var 2) (.var 3) (.var 4) (.var 5) bs bk bt X XK XT baseS basek koff baset toff k od key salt (by simp [evalE]) (by simp [evalE]) (by simp [evalE]) (by simp [evalE])
    (by simp [evalE]) hS hK hT hnk hnt hXs hout houtl hltS hltK hltT hkd htd hsz
  subst hs he
  refine ⟨f, s, X', ?_, hent, hmsz, g1, g2, g3, TJ.Props.C13.extract_rfc5869 salt key, g4⟩
  unfold callFun
  simp only [List.length_cons, List.length_nil, List.range, List.range.loop, List.map, Bool.false_eq_true, if_false, Nat.zero_add]
  exact hx

/-- the memory is ready for a `tinyjambu_hkdf_expand(state, info, infolen, out, n)` call with `n ≤ cap`: a state object representing `k`, an output buffer of
    at least `cap` bytes in another block, the info bytes (or an empty info with any pointer) in a third -/
def XReady (bK bo bi baseK baseo basei oo ioff cap pinfo : Nat) (info : Bytes) (k : KState) (st : St) : Prop :=
  (∃ X od, st.mem[bK]? = some ⟨X, baseK⟩ ∧ KObjV X k od ∧ k.posn.toNat ≤ 32 ∧ ((k.counter ≠ 1 ∨ k.posn.toNat < 32) → od) ∧ baseK + X.size < ptrBase) ∧
  (∃ XO, st.mem[bo]? = some ⟨XO, baseo⟩ ∧ baseo + XO.size < ptrBase ∧ oo + cap ≤ XO.size) ∧
  (info = [] ∨ ∃ XI, st.mem[bi]? = some ⟨XI, basei⟩ ∧ BytesV XI ioff info ∧ pinfo = mkPtr bi (basei + ioff) ∧ bi ≠ bK ∧ bi ≠ bo ∧ basei + XI.size < ptrBase) ∧
  bK ≠ bo ∧ st.mem.size + 6 < 2 ^ 30

/-- a sequence of `tinyjambu_hkdf_expand` calls on one state object, every call writing its `n` bytes to the start of the same output window; the list pairs each call's
    return value (as the model's `Int`) with the bytes it wrote -/
inductive ExpandRun (bK bo baseK baseo oo pinfo : Nat) (info : Bytes) : St → List Nat → List (Int × Bytes) → St → Prop
  | nil (st : St) : ExpandRun bK bo baseK baseo oo pinfo info st [] [] st
  | cons (st st1 st2 : St) (n : Nat) (ns : List Nat) (rv fuel : Nat) (out : Bytes) (rs : List (Int × Bytes)) (XO : Array LByte) :
      callFun prog fuel idx_tinyjambu_hkdf_expand true [(mkPtr bK baseK, .pub), (pinfo, .pub), (info.length, .pub), (mkPtr bo (baseo + oo), .pub), (n, .pub)] st =
        .ok .normal #[(rv, .pub), (mkPtr bK baseK, .pub), (pinfo, .pub), (info.length, .pub), (mkPtr bo (baseo + oo), .pub), (n, .pub)] st1 →
      st1.mem[bo]? = some ⟨XO, baseo⟩ → BytesV XO oo out → out.length = n →
      ExpandRun bK bo baseK baseo oo pinfo info st1 ns rs st2 →
      ExpandRun bK bo baseK baseo oo pinfo info st (n :: ns) ((retInt rv, out) :: rs) st2

/-- **any sequence of incremental `tinyjambu_hkdf_expand` calls on the regenerated source returns what the model's `runExpands` returns** (return values and bytes, call by
    call) and leaves a state object ready for further calls; with `TJ.Props.C13.incremental` the results after `extract` are the consecutive slices of RFC 5869's
    `T(1) ‖ … ‖ T(255)`, zero-filled with -1 past byte 8160. -/
theorem expands_source_are_model (bK bo bi baseK baseo basei oo ioff cap pinfo : Nat) (info : Bytes) (ns : List Nat) :
    ∀ (st : St) (k : KState), XReady bK bo bi baseK baseo basei oo ioff cap pinfo info k st → (∀ n ∈ ns, n ≤ cap) →
      ∃ st', ExpandRun bK bo baseK baseo oo pinfo info st ns (TJ.Props.C13.runExpands k info ns).1 st' ∧
        XReady bK bo bi baseK baseo basei oo ioff cap pinfo info (TJ.Props.C13.runExpands k info ns).2 st' ∧ st'.ent = st.ent := by
  induction ns with
  | nil => intro st k hr _; exact ⟨st, ExpandRun.nil st, hr, rfl⟩
  | cons n ns ih =>
    intro st k ⟨⟨X, od, hK, ho, hp32, hod, hltK⟩, ⟨XO, hO, hltO, hcap⟩, hI, hKo, hsz⟩ hns
    have hn : n ≤ cap := hns n (List.mem_cons_self ..)
    have hIx : ∃ XI, info = [] ∨ (st.mem[bi]? = some ⟨XI, basei⟩ ∧ BytesV XI ioff info ∧ pinfo = mkPtr bi (basei + ioff) ∧ bi ≠ bK ∧ bi ≠ bo ∧ basei + XI.size < ptrBase) := by
      rcases hI with h | ⟨XI, h⟩
      · exact ⟨#[], Or.inl h⟩
      · exact ⟨XI, Or.inr h⟩
    obtain ⟨XI, hIx⟩ := hIx
    obtain ⟨fuel, st1, rv, hrun, hret, xp⟩ := expand_source_is_model st bK bo X XO baseK baseo oo n k od info pinfo bi basei ioff XI hK ho hp32 hod hO hKo hltK hltO (by omega) hIx hsz
    obtain ⟨X1, od1, g1, g2, g3, g4, g5⟩ := xp.obj
    obtain ⟨XO1, h1, h2, h3, h4, _⟩ := xp.buf
    have hr1 : XReady bK bo bi baseK baseo basei oo ioff cap pinfo info (k.expand info n).2.2 st1 := by
      refine ⟨⟨X1, od1, g1, g3, g5, g4, by rw [g2]; exact hltK⟩, ⟨XO1, h1, by rw [h2]; exact hltO, by rw [h2]; exact hcap⟩, ?_, hKo, by rw [xp.msz]; exact hsz⟩
      rcases hI with h | ⟨XI0, hb, hd, hp, hiK, hio, hlt⟩
      · exact Or.inl h
      · obtain ⟨XI1, e1, e2, e3⟩ := eqv_block (by have := xp.oth bi hiK hio; rw [hb] at this; exact this)
        exact Or.inr ⟨XI1, e1, bytesV_of_veq e3 hd, hp, hiK, hio, by rw [e2]; exact hlt⟩
    obtain ⟨st2, hrun2, hr2, hent2⟩ := ih st1 _ hr1 (fun m hm => hns m (List.mem_cons_of_mem _ hm))
    refine ⟨st2, ?_, hr2, hent2.trans xp.ent⟩
    show ExpandRun bK bo baseK baseo oo pinfo info st (n :: ns) (((k.expand info n).1, (k.expand info n).2.1) :: (TJ.Props.C13.runExpands (k.expand info n).2.2 info ns).1) st2
    rw [← hret]
    exact ExpandRun.cons st st1 st2 n ns rv fuel _ _ XO1 hrun h1 h3 h4 hrun2

/-- **C13, incremental form, on the regenerated source**: `tinyjambu_hkdf_extract` on a state object with ANY prior content (undefined bytes included), followed by ANY
    sequence of `tinyjambu_hkdf_expand` calls with the same info, returns call by call the consecutive slices of RFC 5869's `T(1) ‖ … ‖ T(255)` over the library's own
    HMAC, zero-filled past byte 8160, with -1 exactly for the calls that had to zero-fill (`TJ.Props.C13.expectExpands`). -/
theorem hkdf_incremental_source (st : St) (bK bk bt bo bi : Nat) (X XK XT XO : Array LByte) (baseK basek koff baset toff baseo oo basei ioff cap pinfo : Nat)
    (key salt info : Bytes) (ns : List Nat) (hns : ∀ n ∈ ns, n ≤ cap)
    (hS : st.mem[bK]? = some ⟨X, baseK⟩) (hK : st.mem[bk]? = some ⟨XK, basek⟩) (hT : st.mem[bt]? = some ⟨XT, baset⟩) (hO : st.mem[bo]? = some ⟨XO, baseo⟩)
    (hnk : bk ≠ bK) (hnt : bt ≠ bK) (hKo : bK ≠ bo) (hXs : 66 ≤ X.size)
    (hltS : baseK + X.size < ptrBase) (hltK : basek + XK.size < ptrBase) (hltT : baset + XT.size < ptrBase) (hltO : baseo + XO.size < ptrBase)
    (hkd : BytesV XK koff key) (htd : BytesV XT toff salt) (hcap : oo + cap ≤ XO.size)
    (hI : info = [] ∨ ∃ XI, st.mem[bi]? = some ⟨XI, basei⟩ ∧ BytesV XI ioff info ∧ pinfo = mkPtr bi (basei + ioff) ∧ bi ≠ bK ∧ bi ≠ bo ∧ basei + XI.size < ptrBase)
    (hsz : st.mem.size + 9 < 2 ^ 30) :
    ∃ fuel st1 st2, callFun prog fuel idx_tinyjambu_hkdf_extract false
        [(mkPtr bK baseK, .pub), (mkPtr bk (basek + koff), .pub), (key.length, .pub), (mkPtr bt (baset + toff), .pub), (salt.length, .pub)] st =
        .ok .normal #[(0, .pub), (mkPtr bK baseK, .pub), (mkPtr bk (basek + koff), .pub), (key.length, .pub), (mkPtr bt (baset + toff), .pub), (salt.length, .pub)] st1 ∧
      ExpandRun bK bo baseK baseo oo pinfo info st1 ns (TJ.Props.C13.expectExpands (Spec.hkdfOkm hash (Spec.hkdfExtract hash salt key) info) ns) st2 := by
  obtain ⟨fuel, st1, X1, hrun, hent1, hmsz1, hX1, hX1s, ho1, _, hoth1⟩ := extract_source_is_model st bK bk bt X XK XT baseK basek koff baset toff kFresh False key salt
    hS hK hT hnk hnt hXs (fun h => h.elim) (by simp [kFresh, zeros]) hltS hltK hltT hkd htd hsz
  obtain ⟨XO1, hO1, hO1s, _⟩ := eqv_block (by have := hoth1 bo hKo.symm; rw [hO] at this; exact this)
  have hready : XReady bK bo bi baseK baseo basei oo ioff cap pinfo info (kFresh.extract key salt) st1 := by
    refine ⟨⟨X1, False, hX1, ho1, by show (32 : UInt8).toNat ≤ 32; decide, fun h => ?_, by rw [hX1s]; exact hltS⟩, ⟨XO1, hO1, by rw [hO1s]; exact hltO, by rw [hO1s]; exact hcap⟩, ?_, hKo,
      by rw [hmsz1]; omega⟩
    · rcases h with h | h
      · exact h rfl
      · exact absurd h (by show ¬ (32 : UInt8).toNat < 32; decide)
    · rcases hI with h | ⟨XI, hb, hd, hp, hiK, hio, hlt⟩
      · exact Or.inl h
      · obtain ⟨XI1, e1, e2, e3⟩ := eqv_block (by have := hoth1 bi hiK; rw [hb] at this; exact this)
        exact Or.inr ⟨XI1, e1, bytesV_of_veq e3 hd, hp, hiK, hio, by rw [e2]; exact hlt⟩
  obtain ⟨st2, hexp, _, _⟩ := expands_source_are_model bK bo bi baseK baseo basei oo ioff cap pinfo info ns st1 _ hready hns
  rw [TJ.Props.C13.incremental kFresh (by simp [kFresh, zeros]) key salt info ns] at hexp
  exact ⟨fuel, st1, st2, hrun, hexp⟩

end TJ.Props.C13Gen
