/-
  C11 / C10 on the REGENERATED source: `tinyjambu_hash_update` and `tinyjambu_hash_compress` (src/tinyjambu-hash.c,
  translated by tools/c2lean.py into TJ.Gen.MiniC.Prog) compute exactly the model's `HState.update` / `HState.compress`,
  which TJ.Props.C11.streaming / chunking_irrelevant and TJ.Props.C10.hash_is_mdph are stated about.

  For every hash state (any buffered position 0..15, any chaining value), every input of any length (0 included) lying
  anywhere in another block, wherever the state object lies (any block, any 4-aligned base):
    * the call completes and returns to an unchanged caller environment;
    * the state object represents `h.update data` afterwards — the three phases of the C code (top up a buffered block,
      compress whole blocks in a loop, stash the remainder), the early return and both pointer/length advances included;
    * no other block of memory changes, and the entropy script is untouched.
  `compress` is covered as the callee: 28 word moves on the state object and two local arrays, two calls of the regenerated
  `tinyjambu_permutation_256` (itself proved in TJ.Props.C05Gen).
  Deleting the pointer advance on the "top up, compress, continue" path, copying a wrong count, resetting `posn` wrongly
  or mis-ordering the MDPH feed-forward makes this file (or TJ.Proofs.HashC / HashObj / HashUpdate) stop compiling.

  Labels: the theorems are stated for the canonical labelling (chaining words and block bytes secret, `posn` public).
-/
import TJ.Proofs.HashUpdate
namespace TJ.Props.C11Gen
open TJ TJ.MiniC TJ.MiniC.Hoare TJ.Gen.MiniC

theorem prog_hash_update : prog[idx_tinyjambu_hash_update]? = some f_tinyjambu_hash_update := by
  simp only [prog, idx_tinyjambu_hash_update, List.getElem?_cons_succ, List.getElem?_cons_zero]
theorem prog_hash_compress : prog[idx_tinyjambu_hash_compress]? = some f_tinyjambu_hash_compress := by
  simp only [prog, idx_tinyjambu_hash_compress, List.getElem?_cons_succ, List.getElem?_cons_zero]
theorem prog_perm256 : prog[idx_tinyjambu_permutation_256]? = some f_tinyjambu_permutation_256 := by
  simp only [prog, idx_tinyjambu_permutation_256, List.getElem?_cons_succ, List.getElem?_cons_zero]

/-- the hash state object `X` (at base `base`) represents the model state `h` -/
abbrev Represents (X : Array LByte) (h : HState) : Prop := HObj X h

theorem hash_update_source_is_model (st : St) (bs bi : Nat) (X XI : Array LByte) (baseS basei off : Nat) (h : HState) (data : Bytes)
    (hS : st.mem[bs]? = some ⟨X, baseS⟩) (hI : st.mem[bi]? = some ⟨XI, basei⟩) (hne : bi ≠ bs)
    (hrep : Represents X h) (halS : baseS % 4 = 0) (hltS : baseS + X.size < ptrBase) (hltI : basei + XI.size < ptrBase)
    (hsz : st.mem.size + 2 < 2 ^ 30)
    (hdata : ∀ k b, data[k]? = some b → XI[off + k]? = some (b, .sec)) (inb : off + data.length ≤ XI.size) :
    ∃ fuel st' X', callFun prog fuel idx_tinyjambu_hash_update false
        [(mkPtr bs baseS, .pub), (mkPtr bi (basei + off), .pub), (data.length, .pub)] st =
        .ok .normal #[(0, .pub), (mkPtr bs baseS, .pub), (mkPtr bi (basei + off), .pub), (data.length, .pub)] st' ∧
      st'.mem = setBlock st.mem bs X' ∧ X'.size = X.size ∧ Represents X' (h.update data) ∧ st'.ent = st.ent := by
  have hbs : bs < st.mem.size := by
    by_cases hb : bs < st.mem.size
    · exact hb
    · rw [Array.getElem?_eq_none (by omega)] at hS; cases hS
  have hbi : bi < st.mem.size := by
    by_cases hb : bi < st.mem.size
    · exact hb
    · rw [Array.getElem?_eq_none (by omega)] at hI; cases hI
  let g : UGeo := ⟨prog, st.mem, bs, baseS, X.size, bi, basei, XI, st.ent, prog_hash_compress, prog_perm256, hne, by omega, by omega, hsz, halS,
    hrep.sz, hltS, hltI, hI⟩
  have := update_call g idx_tinyjambu_hash_update prog_hash_update
    #[(0, .pub), (mkPtr bs baseS, .pub), (mkPtr bi (basei + off), .pub), (data.length, .pub)] st (.var 1) (.var 2) (.var 3) h off data
    (by simp [evalE]; rfl) (by simp [evalE]; rfl) (by simp [evalE]) ⟨X, hS, hrep, rfl⟩ (fun _ _ => rfl) rfl rfl hdata inb
  obtain ⟨n, sig, e, s, hx, hs, he, hent, hmsz, hoth, X', hm, hXs, ho⟩ := this
  subst hs he
  refine ⟨n, s, X', ?_, ?_, hXs, ho, hent⟩
  · unfold callFun
    simp only [List.length_cons, List.length_nil, List.range, List.range.loop, List.map, Bool.false_eq_true, if_false, Nat.zero_add]
    exact hx
  · apply Array.ext_getElem?
    intro j
    rw [getElem?_setBlock']
    by_cases hj : j = bs
    · subst hj; rw [if_pos rfl, hm, hS]; rfl
    · rw [if_neg hj]; exact hoth j hj

end TJ.Props.C11Gen
