/-
  C08 / C04 on the REGENERATED source: `tinyjambu_{128,192,256}_siv_decrypt(m, mlen, c, clen, ad, adlen, npub, k)` of
  src/tinyjambu-{128,192,256}-siv.c — both local objects, the inverted key words, `*mlen` written and read back, the two `memcpy`s that
  build `npub[0..3] ‖ received tag`, `tinyjambu_setup_*` on it, the keystream word loop with its masked 1/2/3-byte tails (decryption
  runs BEFORE authentication), then the first pass over nonce, associated data and the recovered plaintext (`tinyjambu_setup_*`,
  `tinyjambu_absorb_*` twice, `tinyjambu_generate_tag_*` into the local buffer) and `tinyjambu_aead_check_tag`, all as translated by
  tools/c2lean.py — behaves as the model's `sivDecrypt` for every key, nonce, associated data and packet, any defined labels, in place or
  not: for `clen ≥ 8` the result is 0 exactly when the model accepts (TJ.Props.C08.accept_iff_tag) and -1 otherwise, `*mlen = clen - 8`,
  and the `clen - 8` bytes at `m` are the model's buffer (plaintext, or all zero on rejection: TJ.Props.C04.siv_reject_zero); for
  `clen < 8` the result is -1 and nothing is written.  Assumptions visible in the statement: `mlen` 8-byte aligned and disjoint from the
  buffers, nonce and associated data not in the output block (they are read again after the plaintext has been written), ciphertext
  either in another block than `m` or at exactly `m`.
-/
import TJ.Proofs.SivDecCall
import TJ.Props.C09Gen
import TJ.Props.C01Gen
namespace TJ.Props.C08Gen
open TJ TJ.MiniC TJ.MiniC.Hoare TJ.Gen.MiniC TJ.Props.C02Gen

def sivDecIdx : Variant → Nat
  | .v128 => idx_tinyjambu_128_siv_decrypt | .v192 => idx_tinyjambu_192_siv_decrypt | .v256 => idx_tinyjambu_256_siv_decrypt

theorem sivDecDecl (v : Variant) : ∃ fd, prog[sivDecIdx v]? = some fd ∧
    fd.body = sivDecStmt v.nk (permIdx v) v.pk (setupIdx v) (absorbIdx v) (gentagIdx v) idx_tinyjambu_aead_check_tag ∧
    fd.nparams = 8 ∧ fd.nvars = 17 + 5 * v.nk + 34 ∧ fd.allocs = [(9, 16 + 4 * v.nk), (10, 12)] := by
  cases v
  · exact ⟨f_tinyjambu_128_siv_decrypt, by simp only [prog, sivDecIdx, idx_tinyjambu_128_siv_decrypt, List.getElem?_cons_succ, List.getElem?_cons_zero], sivdec128_eq, rfl, rfl, rfl⟩
  · exact ⟨f_tinyjambu_192_siv_decrypt, by simp only [prog, sivDecIdx, idx_tinyjambu_192_siv_decrypt, List.getElem?_cons_succ, List.getElem?_cons_zero], sivdec192_eq, rfl, rfl, rfl⟩
  · exact ⟨f_tinyjambu_256_siv_decrypt, by simp only [prog, sivDecIdx, idx_tinyjambu_256_siv_decrypt, List.getElem?_cons_succ, List.getElem?_cons_zero], sivdec256_eq, rfl, rfl, rfl⟩

/-- the model's SIV decryption of a packet `body ++ tag2`, spelled out -/
theorem sivdec_model (P : Perm) (pk : Nat) (nonce ad body tag2 : Bytes) (htl : tag2.length = 8) :
    sivDecryptWith P pk nonce ad (body ++ tag2) =
      ⟨if sivTag P pk nonce ad (sivBody P pk (setup P pk (sivNonce nonce tag2) 0xB0) body) = tag2 then 0 else -1, some body.length,
       some ((sivBody P pk (setup P pk (sivNonce nonce tag2) 0xB0) body).map fun p =>
         if sivTag P pk nonce ad (sivBody P pk (setup P pk (sivNonce nonce tag2) 0xB0) body) = tag2 then p else 0)⟩ := by
  have hl : (body ++ tag2).length - 8 = body.length := by simp [htl]
  have hnot : ¬ (body ++ tag2).length < 8 := by simp [htl]
  unfold sivDecryptWith
  simp only [hnot, if_false, hl, List.take_left', List.drop_left']
  rw [checkTag_spec _ _ _ (by simp [sivTag, genTag, store32, htl])]
  by_cases h : sivTag P pk nonce ad (sivBody P pk (setup P pk (sivNonce nonce tag2) 0xB0) body) = tag2
  · simp [h]
  · simp only [h, if_false]
    congr 2
    apply List.ext_getElem?
    intro i
    simp [List.getElem?_replicate, List.getElem?_map]
    by_cases hi : i < (sivBody P pk (setup P pk (sivNonce nonce tag2) 0xB0) body).length
    · simp [hi, List.getElem?_eq_getElem hi]
    · simp [hi, List.getElem?_eq_none (Nat.le_of_not_lt hi)]

theorem siv_decrypt_source_is_model (v : Variant) (st : St)
    (bo baseo oo : Nat) (XO : Array LByte) (bl basel ol : Nat) (XL : Array LByte) (bc basec coff : Nat) (XC : Array LByte) (ba basea aoff : Nat) (XA : Array LByte)
    (bn basen noff : Nat) (XN : Array LByte) (bk basek koff : Nat) (XK : Array LByte) (body tag2 ad nonce key : Bytes)
    (hO : st.mem[bo]? = some ⟨XO, baseo⟩) (hltO : baseo + XO.size < ptrBase) (hroom : oo + body.length ≤ XO.size)
    (hL : st.mem[bl]? = some ⟨XL, basel⟩) (hltL : basel + XL.size < ptrBase) (hinL : ol + 8 ≤ XL.size) (halL : (basel + ol) % 8 = 0)
    (bC : Buf st.mem bc basec coff XC (body ++ tag2)) (bA : Buf st.mem ba basea aoff XA ad) (bN : Buf st.mem bn basen noff XN nonce) (bK : Buf st.mem bk basek koff XK key)
    (htl : tag2.length = 8) (hnl : nonce.length = 12) (hkl : key.length = 4 * v.nk)
    (hsep : bl ≠ bo ∧ bl ≠ bc ∧ bl ≠ ba ∧ bl ≠ bn ∧ bl ≠ bk) (hbon : bo ≠ bn) (hboa : bo ≠ ba) (hdisj : bc ≠ bo ∨ (bc = bo ∧ coff = oo)) (hsz : st.mem.size + 2 < 2 ^ 30) :
    ∃ fuel st' blkO l buf, callFun prog fuel (sivDecIdx v) true
        [(mkPtr bo (baseo + oo), .pub), (mkPtr bl (basel + ol), .pub), (mkPtr bc (basec + coff), .pub), (body.length + 8, .pub),
         (mkPtr ba (basea + aoff), .pub), (ad.length, .pub), (mkPtr bn (basen + noff), .pub), (mkPtr bk (basek + koff), .pub)] st =
        .ok .normal #[(if (sivDecrypt v key nonce ad (body ++ tag2)).ret = 0 then 0 else 4294967295, l),
         (mkPtr bo (baseo + oo), .pub), (mkPtr bl (basel + ol), .pub), (mkPtr bc (basec + coff), .pub), (body.length + 8, .pub),
         (mkPtr ba (basea + aoff), .pub), (ad.length, .pub), (mkPtr bn (basen + noff), .pub), (mkPtr bk (basek + koff), .pub)] st' ∧
      l ≠ Lab.undef ∧ st'.ent = st.ent ∧ st'.mem.size = st.mem.size ∧
      (sivDecrypt v key nonce ad (body ++ tag2)).mlen = some body.length ∧ (sivDecrypt v key nonce ad (body ++ tag2)).buf = some buf ∧
      st'.mem[bo]? = some blkO ∧ blkO.base = baseo ∧ blkO.bytes.size = XO.size ∧ BytesV blkO.bytes oo buf ∧
      (∀ p, (p < oo ∨ oo + body.length ≤ p) → ORel VEq blkO.bytes[p]? XO[p]?) ∧
      ORel BlockEqV st'.mem[bl]? (some ⟨writeLE XL ol body.length .pub 8, basel⟩) ∧
      (∀ j, j ≠ bo → j ≠ bl → ORel BlockEqV st'.mem[j]? st.mem[j]?) := by
  obtain ⟨fd, h1, h2, h3, h4, h5⟩ := sivDecDecl v
  obtain ⟨n, sig, e, s, hx, hs, ⟨l, hl, he⟩, hent, hmsz, ⟨blkO, g1, g2, g3, g4, g5⟩, g6, g7⟩ := sivdecrypt_call (encProg v) TJ.Props.C01Gen.prog_check_tag (sivDecIdx v) fd h1 h2 h3 h4 h5
    #[(0, .pub), (mkPtr bo (baseo + oo), .pub), (mkPtr bl (basel + ol), .pub), (mkPtr bc (basec + coff), .pub), (body.length + 8, .pub),
      (mkPtr ba (basea + aoff), .pub), (ad.length, .pub), (mkPtr bn (basen + noff), .pub), (mkPtr bk (basek + koff), .pub)] st 0 (by simp)
    (.var 1) (.var 2) (.var 3) (.var 4) (.var 5) (.var 6) (.var 7) (.var 8) bo baseo oo XO bl basel ol XL bc basec coff XC ba basea aoff XA bn basen noff XN bk basek koff XK
    body tag2 ad nonce key (by simp [evalE]) (by simp [evalE]) (by simp [evalE]) (by simp [evalE]) (by simp [evalE]) (by simp [evalE]) (by simp [evalE]) (by simp [evalE])
    hO hltO hroom hL hltL hinL halL bC bA bN bK htl hnl hkl hsep hbon hboa hdisj hsz (by cases v <;> decide)
  subst hs
  have hm := sivdec_model (permC v (keyWords v.nk key)) v.pk nonce ad body tag2 htl
  have hD : sivDecrypt v key nonce ad (body ++ tag2) = sivDecryptWith (permC v (keyWords v.nk key)) v.pk nonce ad (body ++ tag2) := rfl
  refine ⟨n, s, blkO, l, _, ?_, hl, hent, hmsz, by rw [hD, hm], by rw [hD, hm], g1, g2, g3, g4, g5, g6, g7⟩
  unfold callFun
  simp only [List.length_cons, List.length_nil, List.range, List.range.loop, List.map, if_true, Nat.zero_add]
  rw [hx, he, hD, hm]
  congr 2
  by_cases ht : sivTag (permC v (keyWords v.nk key)) v.pk nonce ad (sivBody (permC v (keyWords v.nk key)) v.pk (setup (permC v (keyWords v.nk key)) v.pk (sivNonce nonce tag2) 0xB0) body) = tag2
  · simp [ht, setVar]
  · simp [ht, setVar]

/-- input shorter than a tag: result -1, nothing written -/
theorem siv_decrypt_short_source (v : Variant) (st : St) (p0 p1 p2 clen p4 n5 p6 p7 : Nat) (hclen : clen < 8) :
    ∃ fuel st', callFun prog fuel (sivDecIdx v) true
        [(p0, .pub), (p1, .pub), (p2, .pub), (clen, .pub), (p4, .pub), (n5, .pub), (p6, .pub), (p7, .pub)] st =
        .ok .normal #[(4294967295, .pub), (p0, .pub), (p1, .pub), (p2, .pub), (clen, .pub), (p4, .pub), (n5, .pub), (p6, .pub), (p7, .pub)] st' ∧
      st'.mem = st.mem ∧ st'.ent = st.ent ∧ (∀ key nonce ad c, c.length = clen → (sivDecrypt v key nonce ad c).ret = -1) := by
  obtain ⟨fd, h1, h2, h3, h4, h5⟩ := sivDecDecl v
  obtain ⟨n, sig, e, s, hx, hs, he, hm, hent⟩ := sivdecrypt_call_short (prog := prog) (sivDecIdx v) fd h1 h2 h3 h4 h5
    #[(0, .pub), (p0, .pub), (p1, .pub), (p2, .pub), (clen, .pub), (p4, .pub), (n5, .pub), (p6, .pub), (p7, .pub)] st 0
    [.var 1, .var 2, .var 3, .var 4, .var 5, .var 6, .var 7, .var 8]
    [(p0, .pub), (p1, .pub), (p2, .pub), (clen, .pub), (p4, .pub), (n5, .pub), (p6, .pub), (p7, .pub)] (by simp [evalArgs, evalE]) rfl p0 .pub (by decide) rfl clen rfl hclen
  subst hs
  refine ⟨n, s, ?_, hm, hent, fun key nonce ad c hc => ?_⟩
  · unfold callFun
    simp only [List.length_cons, List.length_nil, List.range, List.range.loop, List.map, if_true, Nat.zero_add]
    rw [hx, he]
    simp [setVar]
  · show (sivDecryptWith (permC v (loadKey v key)) v.pk nonce ad c).ret = -1
    rw [TJ.Props.C08.short_rejected _ _ nonce ad c (by omega)]

open TJ.Props.C02Gen TJ.Props.C09Gen TJ.Props.C01Gen in
/-- **C08 (round trip) on the regenerated source**: `tinyjambu_*_siv_encrypt` into a ciphertext buffer followed by `tinyjambu_*_siv_decrypt` of that buffer into a third buffer returns 0
    and writes back the message, for every message, AD, nonce and key of the three variants, lying anywhere with any defined labels
    (TJ.Props.C09Gen.siv_encrypt_source_is_spec, siv_decrypt_source_is_model, TJ.Props.C08.roundtrip_lib). -/
theorem siv_roundtrip_source (v : Variant) (st : St)
    (bo baseo oo : Nat) (XO : Array LByte) (bq baseq qo : Nat) (XQ : Array LByte) (bl basel ol : Nat) (XL : Array LByte) (bm basem moff : Nat) (XM : Array LByte)
    (ba basea aoff : Nat) (XA : Array LByte) (bn basen noff : Nat) (XN : Array LByte) (bk basek koff : Nat) (XK : Array LByte) (msg ad nonce key : Bytes)
    (hO : st.mem[bo]? = some ⟨XO, baseo⟩) (hltO : baseo + XO.size < ptrBase) (hroom : oo + msg.length + 8 ≤ XO.size)
    (hQ : st.mem[bq]? = some ⟨XQ, baseq⟩) (hltQ : baseq + XQ.size < ptrBase) (hroomQ : qo + msg.length ≤ XQ.size)
    (hL : st.mem[bl]? = some ⟨XL, basel⟩) (hltL : basel + XL.size < ptrBase) (hinL : ol + 8 ≤ XL.size) (halL : (basel + ol) % 8 = 0)
    (bM : Buf st.mem bm basem moff XM msg) (bA : Buf st.mem ba basea aoff XA ad) (bN : Buf st.mem bn basen noff XN nonce) (bK : Buf st.mem bk basek koff XK key)
    (hnl : nonce.length = 12) (hkl : key.length = 4 * v.nk)
    (hsep : bl ≠ bo ∧ bl ≠ bm ∧ bl ≠ ba ∧ bl ≠ bn ∧ bl ≠ bk ∧ bl ≠ bq) (hmo : bm ≠ bo) (hqo : bq ≠ bo) (hqn : bq ≠ bn) (hqa : bq ≠ ba) (hao : ba ≠ bo) (hno : bn ≠ bo) (hko : bk ≠ bo)
    (hsz : st.mem.size + 2 < 2 ^ 30) :
    ∃ fuel1 st1 fuel2 st2 blkQ l, callFun prog fuel1 (sivEncIdx v) false
        [(mkPtr bo (baseo + oo), .pub), (mkPtr bl (basel + ol), .pub), (mkPtr bm (basem + moff), .pub), (msg.length, .pub),
         (mkPtr ba (basea + aoff), .pub), (ad.length, .pub), (mkPtr bn (basen + noff), .pub), (mkPtr bk (basek + koff), .pub)] st =
        .ok .normal #[(0, .pub), (mkPtr bo (baseo + oo), .pub), (mkPtr bl (basel + ol), .pub), (mkPtr bm (basem + moff), .pub), (msg.length, .pub),
         (mkPtr ba (basea + aoff), .pub), (ad.length, .pub), (mkPtr bn (basen + noff), .pub), (mkPtr bk (basek + koff), .pub)] st1 ∧
      callFun prog fuel2 (sivDecIdx v) true
        [(mkPtr bq (baseq + qo), .pub), (mkPtr bl (basel + ol), .pub), (mkPtr bo (baseo + oo), .pub), (msg.length + 8, .pub),
         (mkPtr ba (basea + aoff), .pub), (ad.length, .pub), (mkPtr bn (basen + noff), .pub), (mkPtr bk (basek + koff), .pub)] st1 =
        .ok .normal #[(0, l), (mkPtr bq (baseq + qo), .pub), (mkPtr bl (basel + ol), .pub), (mkPtr bo (baseo + oo), .pub), (msg.length + 8, .pub),
         (mkPtr ba (basea + aoff), .pub), (ad.length, .pub), (mkPtr bn (basen + noff), .pub), (mkPtr bk (basek + koff), .pub)] st2 ∧
      st2.mem[bq]? = some blkQ ∧ blkQ.base = baseq ∧ BytesV blkQ.bytes qo msg := by
  obtain ⟨f1, st1, blkO, hr1, hent1, hms1, hO1, hO1b, hO1s, hO1d, hlen, _, hL1, hoth1⟩ := siv_encrypt_source_is_spec v st bo baseo oo XO bl basel ol XL bm basem moff XM ba basea aoff XA
    bn basen noff XN bk basek koff XK msg ad nonce key hO hltO hroom hL hltL hinL halL bM bA bN bK hnl hkl ⟨hsep.1, hsep.2.1, hsep.2.2.1, hsep.2.2.2.1, hsep.2.2.2.2.1⟩ hno.symm (Or.inl hmo)
    hsz
  -- the ciphertext as body ++ tag
  have hspec : Spec.SIV.encrypt v.params key nonce ad msg = sivEncrypt v key nonce ad msg := (TJ.Props.C09.siv_is_spec v key nonce ad msg hnl).symm
  rw [hspec] at hO1d hlen
  generalize hct : sivEncrypt v key nonce ad msg = ct at hO1d hlen
  have hsplit : ct = ct.take msg.length ++ ct.drop msg.length := (List.take_append_drop _ _).symm
  have hbl : (ct.take msg.length).length = msg.length := by rw [List.length_take]; omega
  have htl : (ct.drop msg.length).length = 8 := by rw [List.length_drop]; omega
  -- the buffers in the state after encryption
  have hO1' : st1.mem[bo]? = some ⟨blkO.bytes, baseo⟩ := by rw [hO1, ← hO1b]
  obtain ⟨XQ1, hQ1, hQ1s, _⟩ := le_block_dataA (off := 0) (data := []) (by have := hoth1 bq hqo hsep.2.2.2.2.2.symm; rw [hQ] at this; exact this) ⟨by simp, fun k b hk => by simp at hk⟩
  obtain ⟨XL1, hL1', hL1s, _⟩ := le_block_dataA (off := 0) (data := []) hL1 ⟨by simp, fun k b hk => by simp at hk⟩
  obtain ⟨XA1, bA1⟩ := buf_le bA (hoth1 ba hao hsep.2.2.1.symm)
  obtain ⟨XN1, bN1⟩ := buf_le bN (hoth1 bn hno hsep.2.2.2.1.symm)
  obtain ⟨XK1, bK1⟩ := buf_le bK (hoth1 bk hko hsep.2.2.2.2.1.symm)
  have bC : Buf st1.mem bo baseo oo blkO.bytes (ct.take msg.length ++ ct.drop msg.length) := ⟨hO1', by rw [hO1s]; exact hltO, by rw [← hsplit]; exact hO1d⟩
  obtain ⟨f2, st2, blkQ, l, buf, hr2, hl, _, _, hmlen, hbuf, hQ2, hQ2b, _, hQ2d, _⟩ := siv_decrypt_source_is_model v st1 bq baseq qo XQ1 bl basel ol XL1 bo baseo oo blkO.bytes ba basea aoff XA1
    bn basen noff XN1 bk basek koff XK1 (ct.take msg.length) (ct.drop msg.length) ad nonce key hQ1 (by rw [hQ1s]; exact hltQ) (by rw [hbl, hQ1s]; exact hroomQ)
    hL1' (by rw [hL1s, TJ.MiniC.PermC.size_writeLE]; exact hltL) (by rw [hL1s, TJ.MiniC.PermC.size_writeLE]; exact hinL) halL bC bA1 bN1 bK1 htl hnl hkl
    ⟨hsep.2.2.2.2.2, hsep.1, hsep.2.2.1, hsep.2.2.2.1, hsep.2.2.2.2.1⟩ hqn hqa (Or.inl hqo.symm) (by rw [hms1]; exact hsz)
  rw [hbl] at hr2
  rw [← hsplit, ← hct, TJ.Props.C08.roundtrip_lib v key nonce ad msg] at hr2 hbuf
  have hb : buf = msg := (Option.some.inj hbuf).symm
  rw [hb] at hQ2d
  rw [if_pos rfl] at hr2
  exact ⟨f1, st1, f2, st2, blkQ, l, hr1, hr2, hQ2, hQ2b, hQ2d⟩

open TJ.Props.C02Gen TJ.Props.C09Gen TJ.Props.C01Gen in
/-- **C08 (accept iff the synthetic IV matches) and C04 on the regenerated source**: `tinyjambu_*_siv_decrypt` of ANY packet of at least 8 bytes either returns 0 — exactly when the packet is the encryption of the
    recovered plaintext, which is then what the output buffer holds — or returns -1 and leaves the output buffer zeroed over the whole plaintext length
    (`siv_decrypt_source_is_model`, TJ.Props.C08.accept_iff_packet, TJ.Props.C04.siv_reject_zero_lib). -/
theorem siv_decrypt_source_verdict (v : Variant) (st : St)
    (bo baseo oo : Nat) (XO : Array LByte) (bl basel ol : Nat) (XL : Array LByte) (bc basec coff : Nat) (XC : Array LByte) (ba basea aoff : Nat) (XA : Array LByte)
    (bn basen noff : Nat) (XN : Array LByte) (bk basek koff : Nat) (XK : Array LByte) (body tag2 ad nonce key : Bytes)
    (hO : st.mem[bo]? = some ⟨XO, baseo⟩) (hltO : baseo + XO.size < ptrBase) (hroom : oo + body.length ≤ XO.size)
    (hL : st.mem[bl]? = some ⟨XL, basel⟩) (hltL : basel + XL.size < ptrBase) (hinL : ol + 8 ≤ XL.size) (halL : (basel + ol) % 8 = 0)
    (bC : Buf st.mem bc basec coff XC (body ++ tag2)) (bA : Buf st.mem ba basea aoff XA ad) (bN : Buf st.mem bn basen noff XN nonce) (bK : Buf st.mem bk basek koff XK key)
    (htl : tag2.length = 8) (hnl : nonce.length = 12) (hkl : key.length = 4 * v.nk)
    (hsep : bl ≠ bo ∧ bl ≠ bc ∧ bl ≠ ba ∧ bl ≠ bn ∧ bl ≠ bk) (hbon : bo ≠ bn) (hboa : bo ≠ ba) (hdisj : bc ≠ bo ∨ (bc = bo ∧ coff = oo)) (hsz : st.mem.size + 2 < 2 ^ 30) :
    ∃ fuel st' blkO l rv, callFun prog fuel (sivDecIdx v) true
        [(mkPtr bo (baseo + oo), .pub), (mkPtr bl (basel + ol), .pub), (mkPtr bc (basec + coff), .pub), (body.length + 8, .pub),
         (mkPtr ba (basea + aoff), .pub), (ad.length, .pub), (mkPtr bn (basen + noff), .pub), (mkPtr bk (basek + koff), .pub)] st =
        .ok .normal #[(rv, l), (mkPtr bo (baseo + oo), .pub), (mkPtr bl (basel + ol), .pub), (mkPtr bc (basec + coff), .pub), (body.length + 8, .pub),
         (mkPtr ba (basea + aoff), .pub), (ad.length, .pub), (mkPtr bn (basen + noff), .pub), (mkPtr bk (basek + koff), .pub)] st' ∧
      st'.mem[bo]? = some blkO ∧ blkO.base = baseo ∧
      ((rv = 0 ∧ sivEncrypt v key nonce ad (sivCandidate (permC v (loadKey v key)) v.pk nonce (body ++ tag2)) = body ++ tag2 ∧
          BytesV blkO.bytes oo (sivCandidate (permC v (loadKey v key)) v.pk nonce (body ++ tag2))) ∨
       (rv = 4294967295 ∧ sivEncrypt v key nonce ad (sivCandidate (permC v (loadKey v key)) v.pk nonce (body ++ tag2)) ≠ body ++ tag2 ∧
          BytesV blkO.bytes oo (List.replicate body.length 0))) := by
  obtain ⟨f, st', blkO, l, buf, hr, _, _, _, _, hbuf, hQ, hQb, _, hQd, _⟩ := siv_decrypt_source_is_model v st bo baseo oo XO bl basel ol XL bc basec coff XC ba basea aoff XA
    bn basen noff XN bk basek koff XK body tag2 ad nonce key hO hltO hroom hL hltL hinL halL bC bA bN bK htl hnl hkl hsep hbon hboa hdisj hsz
  have h8 : 8 ≤ (body ++ tag2).length := by rw [List.length_append, htl]; omega
  have hlen : (body ++ tag2).length - 8 = body.length := by rw [List.length_append, htl]; omega
  by_cases hacc : (sivDecrypt v key nonce ad (body ++ tag2)).ret = 0
  · have hpk := (TJ.Props.C08.accept_iff_packet (permC v (loadKey v key)) v.pk nonce ad (body ++ tag2) h8).mp hacc
    have hb := TJ.Props.C04.siv_accept_plaintext (permC v (loadKey v key)) v.pk nonce ad (body ++ tag2) h8 hacc
    rw [show sivDecryptWith (permC v (loadKey v key)) v.pk nonce ad (body ++ tag2) = sivDecrypt v key nonce ad (body ++ tag2) from rfl, hbuf] at hb
    rw [if_pos hacc] at hr
    exact ⟨f, st', blkO, l, 0, hr, hQ, hQb, Or.inl ⟨rfl, hpk, by rw [← Option.some.inj hb]; exact hQd⟩⟩
  · have hpk : ¬ sivEncrypt v key nonce ad (sivCandidate (permC v (loadKey v key)) v.pk nonce (body ++ tag2)) = body ++ tag2 :=
      fun h => hacc ((TJ.Props.C08.accept_iff_packet (permC v (loadKey v key)) v.pk nonce ad (body ++ tag2) h8).mpr h)
    have hb := TJ.Props.C04.siv_reject_zero_lib v key nonce ad (body ++ tag2) h8 hacc
    rw [hbuf, hlen] at hb
    rw [if_neg hacc] at hr
    exact ⟨f, st', blkO, l, 4294967295, hr, hQ, hQb, Or.inr ⟨rfl, hpk, by rw [← Option.some.inj hb]; exact hQd⟩⟩

end TJ.Props.C08Gen
