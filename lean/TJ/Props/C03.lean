/-
  C03 — AEAD decryption accepts iff the tag is exactly right.
  Statements for an arbitrary keyed permutation `P` and every (nonce, AD, packet).
  NOT provable here and not claimed: "a modified packet is rejected except with
  probability 2^-64" is a PRF property of the permutation; what is proved is that the
  verdict is exactly the comparison of all 64 received tag bits with the tag recomputed
  for the candidate plaintext.
-/
import TJ.Props.C01
namespace TJ.Props.C03
open TJ

/-- the tag comparison decides equality of the full tags: all 2^64 values at once -/
theorem checkTag_verdict (plain t1 t2 : Bytes) (hl : t1.length = t2.length) :
    (checkTag plain t1 t2).1 = if t1 = t2 then 0 else -1 := by
  rw [checkTag_spec plain t1 t2 hl]; split <;> rfl

/-- for |c| ≥ 8 the verdict is 0 iff the trailing 8 bytes equal the tag encryption yields for the
    recovered plaintext, and -1 otherwise -/
theorem accept_iff_tag (P : Perm) (pk : Nat) (nonce ad c : Bytes) (h : 8 ≤ c.length) :
    (aeadDecryptWith P pk nonce ad c).ret =
      if c.drop (c.length - 8) = aeadTag P pk nonce ad (aeadCandidate P pk nonce ad c) then 0 else -1 := by
  rw [aeadDecryptWith_eq _ _ _ _ _ h]
  simp only
  have hl : (aeadTag P pk nonce ad (aeadCandidate P pk nonce ad c)).length = (c.drop (c.length - 8)).length := by
    rw [aeadTag, genTag_length]; simp; omega
  rw [checkTag_verdict _ _ _ hl]
  by_cases he : aeadTag P pk nonce ad (aeadCandidate P pk nonce ad c) = c.drop (c.length - 8)
  · simp [he]
  · have : ¬ c.drop (c.length - 8) = aeadTag P pk nonce ad (aeadCandidate P pk nonce ad c) := fun e => he e.symm
    simp [he, this]

/-- equivalently: accepted iff the packet is, bit for bit, the encryption of the recovered plaintext -/
theorem accept_iff_packet (P : Perm) (pk : Nat) (nonce ad c : Bytes) (h : 8 ≤ c.length) :
    (aeadDecryptWith P pk nonce ad c).ret = 0 ↔
      aeadEncryptWith P pk nonce ad (aeadCandidate P pk nonce ad c) = c := by
  rw [accept_iff_tag _ _ _ _ _ h, aeadEncryptWith_eq]
  have hb : (encBody P pk (aeadPre P pk nonce ad) (aeadCandidate P pk nonce ad c)).2 = c.take (c.length - 8) := by
    unfold aeadCandidate; rw [encBody_decBody]
  rw [hb]
  constructor
  · intro h0
    split at h0
    · rename_i ht; rw [← ht]; exact List.take_append_drop _ _
    · simp at h0
  · intro he
    have : c.drop (c.length - 8) = aeadTag P pk nonce ad (aeadCandidate P pk nonce ad c) := by
      have h2 := congrArg (List.drop (c.length - 8)) he
      rw [List.drop_append_of_le_length (by simp)] at h2
      simpa using h2.symm
    simp [this]

/-- every wrong tag on an otherwise genuine packet is rejected with -1, whichever bits differ -/
theorem wrong_tag_rejected (P : Perm) (pk : Nat) (nonce ad m t : Bytes) (ht : t.length = 8)
    (hne : t ≠ aeadTag P pk nonce ad m) :
    (aeadDecryptWith P pk nonce ad ((encBody P pk (aeadPre P pk nonce ad) m).2 ++ t)).ret = -1 := by
  have hl : 8 ≤ ((encBody P pk (aeadPre P pk nonce ad) m).2 ++ t).length := by simp [ht]
  rw [accept_iff_tag _ _ _ _ _ hl]
  have hc : aeadCandidate P pk nonce ad ((encBody P pk (aeadPre P pk nonce ad) m).2 ++ t) = m := by
    unfold aeadCandidate; rw [take_body _ _ ht, decBody_encBody]
  rw [hc, drop_body _ _ ht]
  simp [hne]

/-- input shorter than 8 bytes: negative result, `*mlen` and the plaintext buffer not written -/
theorem short_rejected (P : Perm) (pk : Nat) (nonce ad c : Bytes) (h : c.length < 8) :
    aeadDecryptWith P pk nonce ad c = ⟨-1, none, none⟩ := by
  simp [aeadDecryptWith, h]

/-- the result is never anything but 0 or -1 -/
theorem ret_range (P : Perm) (pk : Nat) (nonce ad c : Bytes) :
    (aeadDecryptWith P pk nonce ad c).ret = 0 ∨ (aeadDecryptWith P pk nonce ad c).ret = -1 := by
  by_cases h : c.length < 8
  · right; rw [short_rejected _ _ _ _ _ h]
  · rw [accept_iff_tag _ _ _ _ _ (by omega)]; split <;> simp

/-- library instances -/
theorem accept_iff_packet_lib (v : Variant) (key nonce ad c : Bytes) (h : 8 ≤ c.length) :
    (aeadDecrypt v key nonce ad c).ret = 0 ↔
      aeadEncrypt v key nonce ad (aeadCandidate (permC v (loadKey v key)) v.pk nonce ad c) = c :=
  accept_iff_packet _ _ _ _ _ h

/-- non-vacuity: genuine packets exist and are accepted (so `accept_iff_packet`'s right-hand side is
    satisfiable), and for every packet there is an 8-byte tag different from the right one (so
    `wrong_tag_rejected`'s hypotheses are satisfiable) -/
example (v : Variant) (key nonce ad m : Bytes) :
    (aeadDecrypt v key nonce ad (aeadEncrypt v key nonce ad m)).ret = 0 := by
  rw [TJ.Props.C01.roundtrip_lib]

example (P : Perm) (pk : Nat) (nonce ad m : Bytes) :
    ∃ t : Bytes, t.length = 8 ∧ t ≠ aeadTag P pk nonce ad m := by
  by_cases h : aeadTag P pk nonce ad m = List.replicate 8 0
  · exact ⟨List.replicate 8 1, by simp, by rw [h]; decide⟩
  · exact ⟨List.replicate 8 0, by simp, fun e => h e.symm⟩

end TJ.Props.C03
