/-
  C20 (volatile fallback) — `tinyjambu_clean` as compiled when neither explicit_bzero nor memset_s is
  available: `volatile unsigned char *d = buf; while (size > 0) { *d++ = 0; --size; }`.
  The term is regenerated from src/backend/tinyjambu-clean.c under a config.h with those macros off
  (TJ.Gen.MiniC.CleanFallback).  Theorem: for every offset and size the loop stores a zero byte to exactly
  the `n` addresses `p .. p+n-1`, in order, and terminates.
-/
import TJ.Proofs.MiniCKernels
import TJ.Gen.MiniC.CleanFallback
namespace TJ.Props.C20Fallback
open TJ.MiniC

def body : Stmt := TJ.Gen.MiniC.Fallback.f_tinyjambu_clean.body

/-- the loop of the fallback, as it appears in the regenerated term -/
def loopStmt : Stmt :=
  .loop (.ite (.bin .gt .u32 (.var 1) (.cast .u32 .i32 (.lit 0)))
    (TJ.Gen.MiniC.Fallback.seqs [
      TJ.Gen.MiniC.Fallback.seqs [.assign 3 (.var 2), .assign 2 (.bin .add .u64 (.var 2) (.lit 1)), .assign 4 (.var 3),
        .store .u8 (.var 4) (.cast .u8 .i32 (.lit 0))],
      .assign 1 (.bin .sub .u32 (.var 1) (.lit 1))])
    .brk)

theorem body_eq : body = TJ.Gen.MiniC.Fallback.seqs [.assign 2 (.var 0), loopStmt] := rfl

/-- one iteration: store a zero byte at offset `o`, advance the pointer, decrement the count.
    Fuel levels are separate variables (`f7 = Fu f6`, …) opened at the rewritten occurrence only. -/
theorem loop_step (prog : Program) (f0 f1 f2 f3 f4 f5 f6 f7 k : Nat) (h7 : f7 = Fu f6) (h6 : f6 = Fu f5) (h5 : f5 = Fu f4)
    (h4 : f4 = Fu f3) (h3 : f3 = Fu f2) (h2 : f2 = Fu f1) (h1 : f1 = Fu f0)
    (st : St) (p0 b o : Nat) (x3 x4 : LVal) (blk : Block)
    (hb : st.mem[b]? = some blk) (hsz : o + (k + 1) ≤ blk.bytes.size) (hlt : blk.base + o + (k + 1) < ptrBase) (hbb : b < 2 ^ 30)
    (hk : k + 1 < 4294967296) :
    exec prog f7 loopStmt #[(p0, .pub), (k + 1, .pub), (mkPtr b (blk.base + o), .pub), x3, x4] st =
      exec prog f6 loopStmt #[(p0, .pub), (k, .pub), (mkPtr b (blk.base + (o + 1)), .pub),
          (mkPtr b (blk.base + o), .pub), (mkPtr b (blk.base + o), .pub)]
        { st with leak := Ev.wr (mkPtr b (blk.base + o)) 1 :: Ev.br true :: st.leak,
                  mem := setBlock st.mem b (blk.bytes.setIfInBounds o ((0 : UInt8), Lab.pub)) } := by
  have hr : resolve st.mem (mkPtr b (blk.base + o)) 1 = .ok (b, o) :=
    resolve_mkPtr st.mem b o 1 blk hb (by omega) (by omega) (by omega)
  have hbbk : blockBytes st.mem b = blk.bytes := by simp [blockBytes, hb]
  have hp64 : (mkPtr b (blk.base + o) + 1) % 18446744073709551616 = mkPtr b (blk.base + (o + 1)) := by
    rw [mkPtr_succ, Nat.mod_eq_of_lt (mkPtr_lt b _ hbb (by omega))]; rfl
  have hk1 : (k + 1 + 4294967296 - 1 % 4294967296) % 4294967296 = k := by omega
  have hw : writeLE blk.bytes o 0 Lab.pub 1 = blk.bytes.setIfInBounds o ((0 : UInt8), Lab.pub) := rfl
  unfold loopStmt
  rw [exec_loop' prog h7, exec_ite' prog h6]; ev
  simp only [TJ.Gen.MiniC.Fallback.seqs]
  rw [exec_seq' prog h5, exec_seq' prog h4, exec_assign' prog h3]; ev
  rw [exec_seq' prog h3, exec_assign' prog h2]; ev
  simp only [hp64]
  rw [exec_seq' prog h2, exec_assign' prog h1]; ev
  rw [exec_store_ok' prog h1 .u8 _ _ _ { st with leak := Ev.br (1 != 0) :: st.leak } (mkPtr b (blk.base + o)) 0 b o 1 .pub
    (blk.bytes.setIfInBounds o ((0 : UInt8), Lab.pub)) rfl (by ev) (by ev) hr (by rw [hbbk]; rfl)]
  simp only []
  rw [exec_assign' prog h4]; ev
  simp only [hk1, show ((1 : Nat) != 0) = true from rfl]

/-- `k` more iterations of the loop: zero bytes go to offsets `o .. o+k-1` of block `b` -/
theorem loop_spec (prog : Program) (e : Nat) : ∀ (k : Nat) (st : St) (p0 b o : Nat) (x3 x4 : LVal) (blk : Block),
    st.mem[b]? = some blk → o + k ≤ blk.bytes.size → blk.base + o + k < ptrBase → b < 2 ^ 30 → k < 4294967296 →
    ∃ env' st', exec prog (e + k + 6) loopStmt #[(p0, .pub), (k, .pub), (mkPtr b (blk.base + o), .pub), x3, x4] st = .ok .normal env' st' ∧
      st'.mem = setBlock st.mem b (writeBytes blk.bytes o (List.replicate k (0, .pub))) ∧ st'.ent = st.ent := by
  intro k
  induction k with
  | zero =>
    intro st p0 b o x3 x4 blk hb _ _ _ _
    refine ⟨#[(p0, .pub), (0, .pub), (mkPtr b (blk.base + o), .pub), x3, x4], { st with leak := Ev.br false :: st.leak }, ?_, ?_, ?_⟩
    · unfold loopStmt
      rw [exec_loop' prog (show e + 0 + 6 = Fu (e + 5) from rfl), exec_ite' prog (show e + 5 = Fu (e + 4) from rfl)]; ev
      rw [exec_brk' prog (show e + 4 = Fu (e + 3) from rfl)]
      simp only [bne_self_eq_false]
    · simp only [List.replicate, writeBytes, setBlock_self st.mem b blk hb]
    · rfl
  | succ k ih =>
    intro st p0 b o x3 x4 blk hb hsz hlt hbb hk
    let bytes1 := blk.bytes.setIfInBounds o ((0 : UInt8), Lab.pub)
    let blk1 : Block := { blk with bytes := bytes1 }
    let st1 : St := { st with leak := Ev.wr (mkPtr b (blk.base + o)) 1 :: Ev.br true :: st.leak, mem := setBlock st.mem b bytes1 }
    have hb1 : st1.mem[b]? = some blk1 := by
      show (setBlock st.mem b bytes1)[b]? = _
      rw [getElem?_setBlock st.mem b _ blk hb b]; simp [blk1]
    obtain ⟨env', st', hex, hmem, hent⟩ := ih st1 p0 b (o + 1) (mkPtr b (blk.base + o), .pub) (mkPtr b (blk.base + o), .pub) blk1 hb1
      (by simp [blk1, bytes1]; omega) (by simp [blk1]; omega) hbb (by omega)
    refine ⟨env', st', ?_, ?_, ?_⟩
    · rw [loop_step prog (e + k) (e + k + 1) (e + k + 2) (e + k + 3) (e + k + 4) (e + k + 5) (e + k + 6) (e + (k + 1) + 6) k
        rfl rfl rfl rfl rfl rfl rfl st p0 b o x3 x4 blk hb hsz hlt hbb hk]
      exact hex
    · rw [hmem]
      show setBlock (setBlock st.mem b bytes1) b _ = _
      rw [setBlock_setBlock st.mem b _ _ blk hb]
      rfl
    · rw [hent]


/-- **the volatile fallback zeroes exactly `n` bytes**: running the regenerated body of `tinyjambu_clean(p, n)` with `p`
    pointing at offset `o` of block `b` terminates normally, the block's bytes `[o, o+n)` are zero afterwards and every other
    byte of memory is what it was (`writeBytes` touches nothing else; see `getElem?_writeBytes`) -/
theorem fallback_exact (prog : Program) (e n : Nat) (st : St) (b o : Nat) (blk : Block)
    (hb : st.mem[b]? = some blk) (hsz : o + n ≤ blk.bytes.size) (hlt : blk.base + o + n < ptrBase) (hbb : b < 2 ^ 30) (hn : n < 4294967296) :
    ∃ env' st', exec prog (e + n + 7) body
        #[(mkPtr b (blk.base + o), .pub), (n, .pub), (0, .undef), (0, .undef), (0, .undef)] st = .ok .normal env' st' ∧
      st'.mem = setBlock st.mem b (writeBytes blk.bytes o (List.replicate n (0, .pub))) ∧ st'.ent = st.ent := by
  obtain ⟨env', st', hex, hmem, hent⟩ := loop_spec prog e n st (mkPtr b (blk.base + o)) b o (0, .undef) (0, .undef) blk hb hsz hlt hbb hn
  refine ⟨env', st', ?_, hmem, hent⟩
  rw [body_eq]
  simp only [TJ.Gen.MiniC.Fallback.seqs]
  rw [exec_seq' prog (show e + n + 7 = Fu (e + n + 6) from rfl), exec_assign' prog (show e + n + 6 = Fu (e + n + 5) from rfl)]
  ev
  exact hex

end TJ.Props.C20Fallback
