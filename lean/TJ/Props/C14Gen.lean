/-
  C14 on the REGENERATED source: `tinyjambu_pbkdf2(out, outlen, password, passwordlen, salt, saltlen, count)` of src/tinyjambu-pbkdf2.c — the
  block loop (`outlen >= 32`: `tinyjambu_pbkdf2_f` straight into `out`; the last partial block through the local `T`, `memcpy`, `tinyjambu_clean`),
  `tinyjambu_pbkdf2_f` (big-endian block number, `T = HMAC(P, S ‖ INT(i))`, then `count - 1` rounds of `hmac_reinit / update / finalize` and the
  32-byte `T ^= U` loop, `tinyjambu_hmac_free`), with the regenerated HMAC, hash and permutation below them, all as translated by tools/c2lean.py —
  writes RFC 8018 PBKDF2 over the library's HMAC (`Spec.pbkdf2 hash password salt (max count 1) outlen`, TJ.Props.C14.pbkdf2_rfc8018) to the
  `outlen` bytes at `out`, for every password, salt, count (0 behaves as 1) and output length (the partial last block included), the buffers lying
  anywhere with any defined labels; every other byte of memory keeps its value; the local objects are wiped and released.
-/
import TJ.Proofs.PbkdfCall
import TJ.Props.C14
namespace TJ.Props.C14Gen
open TJ TJ.MiniC TJ.MiniC.Hoare TJ.Gen.MiniC

theorem pbkdf2_source_is_rfc8018 (st : St) (bo bp bsl : Nat) (XO : Array LByte) (baseo oo n basep poff psz basesl sloff slsz : Nat) (pw salt : Bytes) (count : Nat)
    (hO : st.mem[bo]? = some ⟨XO, baseo⟩) (hP : HasBuf st.mem bp basep poff psz pw) (hSl : HasBuf st.mem bsl basesl sloff slsz salt)
    (hop : bo ≠ bp) (hosl : bo ≠ bsl) (hltO : baseo + XO.size < ptrBase) (hltP : basep + psz < ptrBase) (hltSl : basesl + slsz < ptrBase)
    (hin : oo + n ≤ XO.size) (hc64 : count < 18446744073709551616) (hsz : st.mem.size + 9 < 2 ^ 30) :
    ∃ fuel st' XO', callFun prog fuel idx_tinyjambu_pbkdf2 false
        [(mkPtr bo (baseo + oo), .pub), (n, .pub), (mkPtr bp (basep + poff), .pub), (pw.length, .pub), (mkPtr bsl (basesl + sloff), .pub), (salt.length, .pub), (count, .pub)] st =
        .ok .normal #[(0, .pub), (mkPtr bo (baseo + oo), .pub), (n, .pub), (mkPtr bp (basep + poff), .pub), (pw.length, .pub), (mkPtr bsl (basesl + sloff), .pub),
          (salt.length, .pub), (count, .pub)] st' ∧
      st'.ent = st.ent ∧ st'.mem.size = st.mem.size ∧
      st'.mem[bo]? = some ⟨XO', baseo⟩ ∧ XO'.size = XO.size ∧ BytesV XO' oo (Spec.pbkdf2 hash pw salt (max count 1) n) ∧
      (∀ q, (q < oo ∨ oo + n ≤ q) → ORel VEq XO'[q]? XO[q]?) ∧
      (∀ j, j ≠ bo → ORel BlockEqV st'.mem[j]? st.mem[j]?) := by
  obtain ⟨k, sig, e, s, hx, hs, he, hent, hmsz, ⟨XO', g1, g2, g3, g4⟩, g5⟩ := pbkdf2_call
    #[(0, .pub), (mkPtr bo (baseo + oo), .pub), (n, .pub), (mkPtr bp (basep + poff), .pub), (pw.length, .pub), (mkPtr bsl (basesl + sloff), .pub), (salt.length, .pub), (count, .pub)] st
    (.var 1) (.var 2) (.var 3) (.var 4) (.var 5) (.var 6) (.var 7) bo bp bsl XO baseo oo n basep poff psz basesl sloff slsz pw salt count
    (by simp [evalE]) (by simp [evalE]) (by simp [evalE]) (by simp [evalE]) (by simp [evalE]) (by simp [evalE]) (by simp [evalE]) hO hP hSl hop hosl hltO hltP hltSl hin hc64 hsz
  subst hs he
  rw [TJ.Props.C14.pbkdf2_rfc8018 n pw salt count (by rw [ptrBase_val] at hltO; omega)] at g3
  refine ⟨k, s, XO', ?_, hent, hmsz, g1, g2, g3, g4, g5⟩
  unfold callFun
  simp only [List.length_cons, List.length_nil, List.range, List.range.loop, List.map, Bool.false_eq_true, if_false, Nat.zero_add]
  exact hx

/-- the hypotheses are satisfiable: a 40-byte output (one full and one partial block), password and salt in their own blocks -/
example : ∃ (st : St), st.mem[0]? = some ⟨Array.replicate 40 (0, .undef), 0⟩ ∧ HasBuf st.mem 1 0 0 3 [1, 2, 3] ∧ HasBuf st.mem 2 0 0 2 [9, 8] :=
  ⟨{ mem := #[⟨Array.replicate 40 (0, .undef), 0⟩, ⟨#[(1, .pub), (2, .pub), (3, .pub)], 0⟩, ⟨#[(9, .sec), (8, .sec)], 0⟩], ent := [], leak := [] }, rfl,
    ⟨_, rfl, rfl, by decide, fun k b hk => by
      match k, hk with
      | 0, hk => exact ⟨.pub, by simp at hk; subst hk; rfl, by decide⟩
      | 1, hk => exact ⟨.pub, by simp at hk; subst hk; rfl, by decide⟩
      | 2, hk => exact ⟨.pub, by simp at hk; subst hk; rfl, by decide⟩
      | k + 3, hk => simp at hk⟩,
    ⟨_, rfl, rfl, by decide, fun k b hk => by
      match k, hk with
      | 0, hk => exact ⟨.sec, by simp at hk; subst hk; rfl, by decide⟩
      | 1, hk => exact ⟨.sec, by simp at hk; subst hk; rfl, by decide⟩
      | k + 2, hk => simp at hk⟩⟩

end TJ.Props.C14Gen
