/-
  C02 / C01 on the REGENERATED source: `tinyjambu_{128,192,256}_aead_encrypt(c, clen, m, mlen, ad, adlen, npub, k)` of
  src/tinyjambu-{128,192,256}-aead.c — the local state object, the inverted key words, `tinyjambu_setup_*`, `tinyjambu_absorb_*`, the message
  word loop with its 1/2/3-byte tails, `tinyjambu_generate_tag_*`, and `tinyjambu_permutation_*` below them, all as translated by
  tools/c2lean.py — writes exactly the specification's ciphertext and tag.

  For every key, 12-byte nonce, associated data and message (any lengths, any content), lying anywhere in any blocks with any defined
  labels, the message possibly in the output buffer itself (in-place use), for every alignment of the byte buffers:
    * the call completes and returns to an unchanged caller environment;
    * `*clen = mlen + 8`;
    * the `mlen + 8` bytes at `c` are `Spec.AEAD.encrypt` (TJ.Props.C02.encrypt_is_spec: the TinyJAMBU v2 construction over the keyed NLFSR);
    * every other byte of memory keeps its value; the local state object is released; the entropy script is untouched.
  Proof layers: TJ.Proofs.PermC/PermCBody/PermC192 (permutations), VWorld (any defined labels), AeadExpr/AeadCommon (idioms),
  AeadAbsorb/AeadSetup/AeadTag (the common functions, generic in the permutation), AeadEncStmt (one statement function for the three
  bodies, `rfl` against the regenerated terms), AeadEncCore/Loop/Words/Tail/Key/Call (the entry point).
  Assumptions visible in the statement: `clen` is 8-byte aligned (the MiniC semantics faults on a misaligned 64-bit store), the
  `clen` object is disjoint from the five buffers, and the message is either in a different block than `c` or at exactly `c`.
-/
import TJ.Proofs.AeadEncCall
import TJ.Props.C02
import TJ.Props.C01
namespace TJ.Props.C02Gen
open TJ TJ.MiniC TJ.MiniC.Hoare TJ.Gen.MiniC

def encIdx : Variant → Nat
  | .v128 => idx_tinyjambu_128_aead_encrypt | .v192 => idx_tinyjambu_192_aead_encrypt | .v256 => idx_tinyjambu_256_aead_encrypt
def permIdx : Variant → Nat
  | .v128 => idx_tinyjambu_permutation_128 | .v192 => idx_tinyjambu_permutation_192 | .v256 => idx_tinyjambu_permutation_256
def setupIdx : Variant → Nat
  | .v128 => idx_tinyjambu_setup_128 | .v192 => idx_tinyjambu_setup_192 | .v256 => idx_tinyjambu_setup_256
def absorbIdx : Variant → Nat
  | .v128 => idx_tinyjambu_absorb_128 | .v192 => idx_tinyjambu_absorb_192 | .v256 => idx_tinyjambu_absorb_256
def gentagIdx : Variant → Nat
  | .v128 => idx_tinyjambu_generate_tag_128 | .v192 => idx_tinyjambu_generate_tag_192 | .v256 => idx_tinyjambu_generate_tag_256

theorem prog_at (i : Nat) (fd : FunDecl) (h : prog[i]? = some fd) : prog[i]? = some fd := h

/-- the regenerated program provides what an AEAD entry point of variant `v` calls -/
theorem encProg (v : Variant) : EncProg prog v.nk (permIdx v) v.pk (setupIdx v) (absorbIdx v) (gentagIdx v) (fun k r s => permC v k r s) := by
  cases v
  · exact ⟨perm128_spec prog _ (by simp only [prog, permIdx, idx_tinyjambu_permutation_128, List.getElem?_cons_succ, List.getElem?_cons_zero]), by decide,
      ⟨f_tinyjambu_setup_128, by simp only [prog, setupIdx, idx_tinyjambu_setup_128, List.getElem?_cons_succ, List.getElem?_cons_zero], setup128_eq, rfl, rfl, rfl⟩,
      ⟨f_tinyjambu_absorb_128, by simp only [prog, absorbIdx, idx_tinyjambu_absorb_128, List.getElem?_cons_succ, List.getElem?_cons_zero], absorb128_eq, rfl, rfl, rfl⟩,
      ⟨f_tinyjambu_generate_tag_128, by simp only [prog, gentagIdx, idx_tinyjambu_generate_tag_128, List.getElem?_cons_succ, List.getElem?_cons_zero], gentag128_eq, rfl, rfl, rfl⟩⟩
  · exact ⟨perm192_spec prog _ (by simp only [prog, permIdx, idx_tinyjambu_permutation_192, List.getElem?_cons_succ, List.getElem?_cons_zero]), by decide,
      ⟨f_tinyjambu_setup_192, by simp only [prog, setupIdx, idx_tinyjambu_setup_192, List.getElem?_cons_succ, List.getElem?_cons_zero], setup192_eq, rfl, rfl, rfl⟩,
      ⟨f_tinyjambu_absorb_192, by simp only [prog, absorbIdx, idx_tinyjambu_absorb_192, List.getElem?_cons_succ, List.getElem?_cons_zero], absorb192_eq, rfl, rfl, rfl⟩,
      ⟨f_tinyjambu_generate_tag_192, by simp only [prog, gentagIdx, idx_tinyjambu_generate_tag_192, List.getElem?_cons_succ, List.getElem?_cons_zero], gentag192_eq, rfl, rfl, rfl⟩⟩
  · exact ⟨perm256_spec prog _ (by simp only [prog, permIdx, idx_tinyjambu_permutation_256, List.getElem?_cons_succ, List.getElem?_cons_zero]), by decide,
      ⟨f_tinyjambu_setup_256, by simp only [prog, setupIdx, idx_tinyjambu_setup_256, List.getElem?_cons_succ, List.getElem?_cons_zero], setup256_eq, rfl, rfl, rfl⟩,
      ⟨f_tinyjambu_absorb_256, by simp only [prog, absorbIdx, idx_tinyjambu_absorb_256, List.getElem?_cons_succ, List.getElem?_cons_zero], absorb256_eq, rfl, rfl, rfl⟩,
      ⟨f_tinyjambu_generate_tag_256, by simp only [prog, gentagIdx, idx_tinyjambu_generate_tag_256, List.getElem?_cons_succ, List.getElem?_cons_zero], gentag256_eq, rfl, rfl, rfl⟩⟩

theorem encDecl (v : Variant) : ∃ fd, prog[encIdx v]? = some fd ∧ fd.body = encStmt v.nk (permIdx v) v.pk (setupIdx v) (absorbIdx v) (gentagIdx v) ∧
    fd.nparams = 8 ∧ fd.nvars = 11 + 5 * v.nk + 47 ∧ fd.allocs = [(8, 16 + 4 * v.nk)] := by
  cases v
  · exact ⟨f_tinyjambu_128_aead_encrypt, by simp only [prog, encIdx, idx_tinyjambu_128_aead_encrypt, List.getElem?_cons_succ, List.getElem?_cons_zero], enc128_eq, rfl, rfl, rfl⟩
  · exact ⟨f_tinyjambu_192_aead_encrypt, by simp only [prog, encIdx, idx_tinyjambu_192_aead_encrypt, List.getElem?_cons_succ, List.getElem?_cons_zero], enc192_eq, rfl, rfl, rfl⟩
  · exact ⟨f_tinyjambu_256_aead_encrypt, by simp only [prog, encIdx, idx_tinyjambu_256_aead_encrypt, List.getElem?_cons_succ, List.getElem?_cons_zero], enc256_eq, rfl, rfl, rfl⟩

theorem encrypt_source_is_spec (v : Variant) (st : St)
    (bo baseo oo : Nat) (XO : Array LByte) (bl basel ol : Nat) (XL : Array LByte) (bm basem moff : Nat) (XM : Array LByte) (ba basea aoff : Nat) (XA : Array LByte)
    (bn basen noff : Nat) (XN : Array LByte) (bk basek koff : Nat) (XK : Array LByte) (msg ad nonce key : Bytes)
    (hO : st.mem[bo]? = some ⟨XO, baseo⟩) (hltO : baseo + XO.size < ptrBase) (hroom : oo + msg.length + 8 ≤ XO.size)
    (hL : st.mem[bl]? = some ⟨XL, basel⟩) (hltL : basel + XL.size < ptrBase) (hinL : ol + 8 ≤ XL.size) (halL : (basel + ol) % 8 = 0)
    (bM : Buf st.mem bm basem moff XM msg) (bA : Buf st.mem ba basea aoff XA ad) (bN : Buf st.mem bn basen noff XN nonce) (bK : Buf st.mem bk basek koff XK key)
    (hnl : nonce.length = 12) (hkl : key.length = 4 * v.nk)
    (hsep : bl ≠ bo ∧ bl ≠ bm ∧ bl ≠ ba ∧ bl ≠ bn ∧ bl ≠ bk) (hdisj : bm ≠ bo ∨ (bm = bo ∧ moff = oo)) (hsz : st.mem.size + 1 < 2 ^ 30) :
    ∃ fuel st' blkO, callFun prog fuel (encIdx v) false
        [(mkPtr bo (baseo + oo), .pub), (mkPtr bl (basel + ol), .pub), (mkPtr bm (basem + moff), .pub), (msg.length, .pub),
         (mkPtr ba (basea + aoff), .pub), (ad.length, .pub), (mkPtr bn (basen + noff), .pub), (mkPtr bk (basek + koff), .pub)] st =
        .ok .normal #[(0, .pub), (mkPtr bo (baseo + oo), .pub), (mkPtr bl (basel + ol), .pub), (mkPtr bm (basem + moff), .pub), (msg.length, .pub),
         (mkPtr ba (basea + aoff), .pub), (ad.length, .pub), (mkPtr bn (basen + noff), .pub), (mkPtr bk (basek + koff), .pub)] st' ∧
      st'.ent = st.ent ∧ st'.mem.size = st.mem.size ∧
      st'.mem[bo]? = some blkO ∧ blkO.base = baseo ∧ blkO.bytes.size = XO.size ∧
      BytesV blkO.bytes oo (Spec.AEAD.encrypt v.params key nonce ad msg) ∧
      (Spec.AEAD.encrypt v.params key nonce ad msg).length = msg.length + 8 ∧
      (∀ p, (p < oo ∨ oo + (msg.length + 8) ≤ p) → ORel VLe blkO.bytes[p]? XO[p]?) ∧
      ORel BlockLe st'.mem[bl]? (some ⟨writeLE XL ol (msg.length + 8) .pub 8, basel⟩) ∧
      (∀ j, j ≠ bo → j ≠ bl → ORel BlockLe st'.mem[j]? st.mem[j]?) := by
  obtain ⟨fd, h1, h2, h3, h4, h5⟩ := encDecl v
  obtain ⟨n, sig, e, s, hx, hs, he, hent, hmsz, ⟨blkO, g1, g2, g3, g4, g5⟩, g6, g7⟩ := encrypt_call (encProg v) (encIdx v) fd h1 h2 h3 h4 h5
    #[(0, .pub), (mkPtr bo (baseo + oo), .pub), (mkPtr bl (basel + ol), .pub), (mkPtr bm (basem + moff), .pub), (msg.length, .pub),
      (mkPtr ba (basea + aoff), .pub), (ad.length, .pub), (mkPtr bn (basen + noff), .pub), (mkPtr bk (basek + koff), .pub)] st
    (.var 1) (.var 2) (.var 3) (.var 4) (.var 5) (.var 6) (.var 7) (.var 8) bo baseo oo XO bl basel ol XL bm basem moff XM ba basea aoff XA bn basen noff XN bk basek koff XK
    msg ad nonce key (by simp [evalE]) (by simp [evalE]) (by simp [evalE]) (by simp [evalE]) (by simp [evalE]) (by simp [evalE]) (by simp [evalE]) (by simp [evalE])
    hO hltO hroom hL hltL hinL halL bM bA bN bK hnl hkl hsep hdisj hsz (by cases v <;> decide)
  subst hs he
  have hspec : aeadEncryptWith (permC v (keyWords v.nk key)) v.pk nonce ad msg = Spec.AEAD.encrypt v.params key nonce ad msg :=
    TJ.Props.C02.encrypt_is_spec v key nonce ad msg hnl
  rw [hspec] at g4
  refine ⟨n, s, blkO, ?_, hent, hmsz, g1, g2, g3, g4, ?_, g5, g6, g7⟩
  · unfold callFun
    simp only [List.length_cons, List.length_nil, List.range, List.range.loop, List.map, Bool.false_eq_true, if_false, Nat.zero_add]
    exact hx
  · rw [← hspec]
    exact TJ.Props.C01.encrypt_length _ _ _ _ _

end TJ.Props.C02Gen
