/-
  C10 on the REGENERATED source: the one-shot `tinyjambu_hash(out, in, inlen)` of src/tinyjambu-hash.c — local state object,
  `tinyjambu_hash_init`, `tinyjambu_hash_update`, `tinyjambu_hash_finalize`, `tinyjambu_hash_free`, with `tinyjambu_hash_compress`
  and `tinyjambu_permutation_256` below them, all as translated by tools/c2lean.py — writes exactly `Spec.hash data`, the MDPH
  construction of the specification, to the 32 bytes at `out`.

  For every message (any length, 0 included, any content), lying anywhere in any block with any defined labels, for every output
  buffer and every memory around them:
    * the call completes and returns to an unchanged caller environment;
    * the 32 output bytes are `Spec.hash data` (TJ.Props.C10.hash_is_mdph: 10* padding, MDPH compression over the 256-bit-key
      permutation run for 2560 steps, domain 2 on the last block, output L || R);
    * every other byte of memory keeps its value; the local state object is wiped and released; the entropy script is untouched.
  Proof layers: TJ.Proofs.PermC/PermCBody (permutation), HashC (compression function), HashObj, HashUpdate (three-phase update with its
  block loop), HashFinal (padding, last compression, output), HashInit, HashOneShot; TJ.MiniC.Mono carries the theorems from the
  canonical labelling to every labelling (init writes public constants).
-/
import TJ.Proofs.HashOneShot
import TJ.Props.C10
namespace TJ.Props.C10Gen
open TJ TJ.MiniC TJ.MiniC.Hoare TJ.Gen.MiniC

theorem hash_source_is_spec (st : St) (bo bi : Nat) (XO XI : Array LByte) (baseo basei oo off : Nat) (data : Bytes)
    (hO : st.mem[bo]? = some ⟨XO, baseo⟩) (hI : st.mem[bi]? = some ⟨XI, basei⟩)
    (hltO : baseo + XO.size < ptrBase) (hltI : basei + XI.size < ptrBase) (hinO : oo + 32 ≤ XO.size) (hsz : st.mem.size + 3 < 2 ^ 30)
    (hdata : ∀ k b, data[k]? = some b → ∃ l, XI[off + k]? = some (b, l) ∧ l ≠ Lab.undef) (inb : off + data.length ≤ XI.size) :
    ∃ fuel st' blkO, callFun prog fuel idx_tinyjambu_hash false
        [(mkPtr bo (baseo + oo), .pub), (mkPtr bi (basei + off), .pub), (data.length, .pub)] st =
        .ok .normal #[(0, .pub), (mkPtr bo (baseo + oo), .pub), (mkPtr bi (basei + off), .pub), (data.length, .pub)] st' ∧
      st'.ent = st.ent ∧ st'.mem.size = st.mem.size ∧
      st'.mem[bo]? = some blkO ∧ blkO.base = baseo ∧ blkO.bytes.size = XO.size ∧
      (∀ q b, (Spec.hash data)[q]? = some b → ∃ l, blkO.bytes[oo + q]? = some (b, l) ∧ l ≠ Lab.undef) ∧
      (∀ q, (q < oo ∨ oo + 32 ≤ q) → ORel VEq blkO.bytes[q]? XO[q]?) ∧
      (∀ j, j ≠ bo → ORel BlockEqV st'.mem[j]? st.mem[j]?) := by
  obtain ⟨n, sig, e, s, hx, hs, he, hent, hmsz, ⟨blkO, h1, h2, h3, h4, h5⟩, h6⟩ := hash_call
    #[(0, .pub), (mkPtr bo (baseo + oo), .pub), (mkPtr bi (basei + off), .pub), (data.length, .pub)] st (.var 1) (.var 2) (.var 3) bo bi XO XI baseo basei oo off data
    (by simp [evalE]) (by simp [evalE]) (by simp [evalE]) hO hI hltO hltI hinO hsz hdata inb
  subst hs he
  refine ⟨n, s, blkO, ?_, hent, hmsz, h1, h2, h3, ?_, h5, h6⟩
  · unfold callFun
    simp only [List.length_cons, List.length_nil, List.range, List.range.loop, List.map, Bool.false_eq_true, if_false, Nat.zero_add]
    exact hx
  · intro q b hb
    rw [← TJ.Props.C10.hash_is_mdph] at hb
    exact h4 q b hb

end TJ.Props.C10Gen
