/-
  C10 — TinyJAMBU-Hash equals its documented MDPH construction (tools/hashref/README.md) for every
  message: 10* padding to 16-byte blocks, Compress(L,R,M) = (E(R‖M, L) ⊕ L, E(R‖M, L⊕1) ⊕ L ⊕ 1) with
  E the bit-serial TinyJAMBU-256 StateUpdate for 2560 steps, domain value 2 XORed into L for the final
  block, output L ‖ R.  TJ.Spec.hash is also executed on the repository's KAT file by the check.
-/
import TJ.Proofs.SpecHash
import TJ.Proofs.Kdf
namespace TJ.Props.C10
open TJ

theorem hash_is_mdph (m : Bytes) : hash m = Spec.hash m := hash_eq_spec m

/-- each compression of the model is the documented Compress on (L ⊕ domain, R, M) -/
theorem compress_is_documented (c : Core) (blk : Bytes) (hb : blk.length = 16) (domain : UInt32) :
    ((compressCore c blk domain).L, (compressCore c blk domain).R) =
      Spec.compress (c.L ^^^ domain.toBitVec.zeroExtend 128) c.R (Spec.leBlock blk) := by
  have h := compressCore_spec c blk (by omega) domain
  rw [blockM_leBlock blk (by omega), List.take_of_length_le (by omega)] at h
  exact Prod.ext h.1 h.2

/-- the digest is always 32 bytes -/
theorem digest_length (m : Bytes) : (hash m).length = 32 := hash_length m

example : hash [] = Spec.hash [] := hash_is_mdph []

end TJ.Props.C10
