/-
  C18 — the system entropy shim under OS faults: for EVERY finite sequence of transient errors.
  `trngRead` is the common control flow of the getrandom / getentropy / raw-syscall builds
  (which of them is compiled is a build-time choice checked by the correspondence runs).
-/
import TJ.Impl.Prng
namespace TJ.Props.C18
open TJ

def transient : OsOutcome → Prop
  | .eintr => True
  | .eagain => True
  | _ => False

/-- any number of EINTR/EAGAIN, then success: result 1, exactly the OS bytes, n+1 calls -/
theorem retry_then_success (ts : List OsOutcome) (hts : ∀ o ∈ ts, transient o) (bytes : Bytes)
    (rest : List OsOutcome) (buf : Bytes) (calls : Nat) :
    trngRead (ts ++ OsOutcome.ok bytes :: rest) buf calls =
      (true, writeAt buf 0 bytes, rest, calls + ts.length + 1) := by
  induction ts generalizing calls with
  | nil => simp [trngRead]
  | cons o ts ih =>
    have ho := hts o (by simp)
    have ht : ∀ o ∈ ts, transient o := fun o h => hts o (by simp [h])
    cases o <;> simp only [transient] at ho <;>
      (simp only [List.cons_append, trngRead]; rw [ih ht]; simp; omega)

/-- any number of EINTR/EAGAIN, then a permanent error: result 0, a fully zeroed buffer, n+1 calls,
    and the shim stops (no hang: the rest of the script is untouched) -/
theorem retry_then_permanent (ts : List OsOutcome) (hts : ∀ o ∈ ts, transient o) (errno : Nat)
    (rest : List OsOutcome) (buf : Bytes) (calls : Nat) :
    trngRead (ts ++ OsOutcome.err errno :: rest) buf calls =
      (false, zeros buf.length, rest, calls + ts.length + 1) := by
  induction ts generalizing calls with
  | nil => simp [trngRead]
  | cons o ts ih =>
    have ho := hts o (by simp)
    have ht : ∀ o ∈ ts, transient o := fun o h => hts o (by simp [h])
    cases o <;> simp only [transient] at ho <;>
      (simp only [List.cons_append, trngRead]; rw [ih ht]; simp; omega)

/-- with a full 32-byte delivery the 32-byte seed buffer holds exactly the OS bytes -/
theorem success_exact (bytes buf : Bytes) (hb : bytes.length = 32) (hbuf : buf.length = 32) :
    writeAt buf 0 bytes = bytes := by
  simp [writeAt, hb, hbuf, List.drop_eq_nil_of_le]

/-- PRNG initialisation on a permanently failing OS source: reports "not seeded" (0) and yields a
    regular generator state (seeded from the zeroed buffer and the personalisation string) -/
theorem prng_init_on_failure (ts : List OsOutcome) (hts : ∀ o ∈ ts, transient o) (errno : Nat)
    (rest : List OsOutcome) (custom : Bytes) (user : List Delivery) (oc : Nat) :
    Prng.init custom ⟨user, ts ++ OsOutcome.err errno :: rest, oc⟩ =
      some (0, { V := hashDf 0xFF (zeros 32) custom, C := hashDf 0x00 (hashDf 0xFF (zeros 32) custom) [],
                 rc := 1, rl := 32, cb := .system, ud := false, tail := zeros 8 },
            ⟨user, rest, oc + (ts.length + 1)⟩) := by
  simp only [Prng.init, Prng.initUser, Ent.request]
  rw [retry_then_permanent ts hts]
  simp [zeros]

/-- and on success after retries it reports 1 -/
theorem prng_init_on_success (ts : List OsOutcome) (hts : ∀ o ∈ ts, transient o) (bytes : Bytes)
    (rest : List OsOutcome) (custom : Bytes) (user : List Delivery) (oc : Nat) :
    (Prng.init custom ⟨user, ts ++ OsOutcome.ok bytes :: rest, oc⟩).map (·.1) = some 1 := by
  simp only [Prng.init, Prng.initUser, Ent.request]
  rw [retry_then_success ts hts]
  simp

example : trngRead [.eintr, .eagain, .eintr, .err 5] (List.replicate 32 0xEE) 0
    = (false, zeros 32, [], 4) := by
  have := retry_then_permanent [.eintr, .eagain, .eintr] (by simp [transient]) 5 [] (List.replicate 32 0xEE) 0
  simpa using this

end TJ.Props.C18
