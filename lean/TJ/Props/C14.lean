/-
  C14 — PBKDF2 is RFC 8018 PBKDF2 with TinyJAMBU-HMAC for every parameter set.
  Domain: RFC 8018 itself requires dkLen ≤ (2^32 - 1)·hLen; the theorem is stated on that domain
  (beyond it the C truncates the block number; the model reproduces that, the RFC defines nothing).
-/
import TJ.Proofs.Kdf
namespace TJ.Props.C14
open TJ

/-- every password, salt, count (0 behaves as 1) and length within the RFC's domain -/
theorem pbkdf2_rfc8018 (n : Nat) (pw salt : Bytes) (count : Nat) (hn : n ≤ (2^32 - 1) * 32) :
    pbkdf2 n pw salt count = Spec.pbkdf2 hash pw salt (max count 1) n := by
  unfold pbkdf2 Spec.pbkdf2
  exact pbkdf2Loop_spec pw salt count n 1 (by omega)

/-- a count of 0 behaves as 1 -/
theorem count_zero (n : Nat) (pw salt : Bytes) (hn : n ≤ (2^32 - 1) * 32) :
    pbkdf2 n pw salt 0 = pbkdf2 n pw salt 1 := by
  rw [pbkdf2_rfc8018 _ _ _ _ hn, pbkdf2_rfc8018 _ _ _ _ hn]; rfl

theorem pbkdf2Blocks_length (pw salt : Bytes) (c b k : Nat) :
    (Spec.pbkdf2Blocks hash pw salt c b k).length = 32 * k := by
  induction k generalizing b with
  | zero => rfl
  | succ k ih => simp only [Spec.pbkdf2Blocks, List.length_append, ih, pbkdf2T_length]; omega

/-- exactly the requested number of bytes -/
theorem exact_length (n : Nat) (pw salt : Bytes) (count : Nat) (hn : n ≤ (2^32 - 1) * 32) :
    (pbkdf2 n pw salt count).length = n := by
  rw [pbkdf2_rfc8018 _ _ _ _ hn]; unfold Spec.pbkdf2
  rw [List.length_take, pbkdf2Blocks_length]; omega

theorem pbkdf2Blocks_prefix (pw salt : Bytes) (c b k j : Nat) :
    Spec.pbkdf2Blocks hash pw salt c b k = (Spec.pbkdf2Blocks hash pw salt c b (k + j)).take (32 * k) := by
  induction k generalizing b with
  | zero => simp [Spec.pbkdf2Blocks]
  | succ k ih =>
    have : k + 1 + j = (k + j) + 1 := by omega
    rw [this]
    simp only [Spec.pbkdf2Blocks]
    rw [List.take_append, pbkdf2T_length, List.take_of_length_le (by rw [pbkdf2T_length]; omega)]
    congr 1
    have : 32 * (k + 1) - 32 = 32 * k := by omega
    rw [this]; exact ih (b+1)

/-- shorter outputs are prefixes of longer ones -/
theorem prefix_property (n1 n2 : Nat) (pw salt : Bytes) (count : Nat) (h : n1 ≤ n2) (hn : n2 ≤ (2^32 - 1) * 32) :
    pbkdf2 n1 pw salt count = (pbkdf2 n2 pw salt count).take n1 := by
  rw [pbkdf2_rfc8018 _ _ _ _ (by omega), pbkdf2_rfc8018 _ _ _ _ hn]
  unfold Spec.pbkdf2
  rw [List.take_take, Nat.min_eq_left h]
  obtain ⟨j, hj⟩ : ∃ j, (n2 + 31) / 32 = (n1 + 31) / 32 + j := ⟨(n2 + 31) / 32 - (n1 + 31) / 32, by omega⟩
  rw [hj, pbkdf2Blocks_prefix pw salt (max count 1) 1 ((n1 + 31) / 32) j, List.take_take]
  congr 1; omega

example (pw salt : Bytes) : pbkdf2 70 pw salt 0 = Spec.pbkdf2 hash pw salt 1 70 := pbkdf2_rfc8018 _ _ _ _ (by omega)

end TJ.Props.C14
