/-
  C19 — reentrancy: no hidden state; a call's effect is confined to, and its footprint determined by, what it is given.

  Model: the program regenerated from /repo's C sources.  The MiniC semantics has NO global component: a call
  `callFun prog fuel f args st` is a function of its arguments, the memory blocks and the entropy script, and the
  translator refuses file-scope variables (so a `static` cache or buffer in the sources breaks the tie).  Proved:

  * `footprint`: a completed call leaves the number of blocks unchanged (its own temporaries are released), only
    extends the leakage trace, and leaves every block that no write event of the new part of the trace names exactly
    as it was — the trace is a complete list of what was written (`TJ.MiniC.exec_frame`).
  * `footprint_same_for_all_contents`: that trace — hence the set of blocks read and written — is the same for all
    contents of all objects and buffers (non-interference); the check executes the incremental APIs on interleaved
    objects and verifies per operation that only the operation's own object and buffers are touched, which by this
    theorem holds for every content and therefore every earlier history of the OTHER objects.
  * `public_results_independent`: every public (length-like, status-like) result is the same whatever the secret contents
    of any object.
  * `independent` / `call_independent` (from `TJ.MiniC.exec_local`): a completed call gives the same signal, the same
    results and the same trace in EVERY memory that agrees with the original one on the blocks its trace touches — whatever
    the other blocks hold, hence whatever unrelated calls ran before; and it leaves those other blocks as they were.
  * `commute` / `calls_commute`: two completed calls that take no entropy and where neither writes a block the other touches
    produce, in the opposite order, the same results, the same traces and the same final memory — the serial-equivalence
    content of "thread-safe on distinct objects" for every pair of calls and every state.
  Together: a call cannot communicate with another call except through blocks both are given.
  Outside the model: real thread interleavings of compiled code (observed under TSan), and the entropy source, which is
  shared by nature (the commutation theorem excludes calls that consume it).
-/
import TJ.MiniC.Frame
import TJ.MiniC.Local
import TJ.Props.C07
namespace TJ.Props.C19
open TJ.MiniC

/-- what a completed call of the regenerated library may have changed -/
theorem footprint (fuel f : Nat) (hasRet : Bool) (args : List LVal) (st : St) (g : Sig) (e : Env) (st' : St)
    (h : callFun TJ.Gen.MiniC.prog fuel f hasRet args st = .ok g e st') :
    st'.mem.size = st.mem.size ∧ ∃ new, st'.leak = new ++ st.leak ∧
      ∀ b, NotWritten new b → st'.mem[b]? = st.mem[b]? := by
  have := exec_frame TJ.Gen.MiniC.prog fuel
    (.call (if hasRet then some 0 else none) f ((List.range args.length).map fun i => .var (i + 1))) ((0, .pub) :: args).toArray st
  unfold callFun at h
  rw [h] at this
  exact this

/-- the footprint (the whole trace) does not depend on the contents of any object -/
theorem footprint_same_for_all_contents (fuel f : Nat) (hasRet : Bool) (a1 a2 : List LVal) (s1 s2 : St)
    (ha : TJ.Props.C07.ArgsRel a1 a2) (hs : StRel s1 s2) :
    TJ.Props.C07.Out.leak (callFun TJ.Gen.MiniC.prog fuel f hasRet a1 s1) =
    TJ.Props.C07.Out.leak (callFun TJ.Gen.MiniC.prog fuel f hasRet a2 s2) :=
  TJ.Props.C07.leak_independent_of_secrets fuel f hasRet a1 a2 s1 s2 ha hs

/-- public results (labels and, where public, values of every byte of every block) agree -/
theorem public_results_independent (fuel f : Nat) (hasRet : Bool) (a1 a2 : List LVal) (s1 s2 : St)
    (ha : TJ.Props.C07.ArgsRel a1 a2) (hs : StRel s1 s2) (g : Sig) (e : Env) (t : St)
    (h1 : callFun TJ.Gen.MiniC.prog fuel f hasRet a1 s1 = .ok g e t) :
    ∃ g' e' t', callFun TJ.Gen.MiniC.prog fuel f hasRet a2 s2 = .ok g' e' t' ∧ MemRel t.mem t'.mem := by
  obtain ⟨g', e', t', h2, _, hr⟩ := TJ.Props.C07.completes_for_all_secrets fuel f hasRet a1 a2 s1 s2 ha hs g e t h1
  exact ⟨g', e', t', h2, hr.mem⟩

/-- two calls whose write sets are disjoint from a block leave it alone in either order (direct from `footprint`) -/
theorem untouched_by_both (fuel f1 f2 : Nat) (r1 r2 : Bool) (a1 a2 : List LVal) (st : St)
    (g1 : Sig) (e1 : Env) (st1 : St) (g2 : Sig) (e2 : Env) (st2 : St)
    (h1 : callFun TJ.Gen.MiniC.prog fuel f1 r1 a1 st = .ok g1 e1 st1)
    (h2 : callFun TJ.Gen.MiniC.prog fuel f2 r2 a2 st1 = .ok g2 e2 st2) (b : Nat)
    (hb1 : ∀ new, st1.leak = new ++ st.leak → NotWritten new b)
    (hb2 : ∀ new, st2.leak = new ++ st1.leak → NotWritten new b) :
    st2.mem[b]? = st.mem[b]? := by
  obtain ⟨_, n1, hl1, hm1⟩ := footprint fuel f1 r1 a1 st g1 e1 st1 h1
  obtain ⟨_, n2, hl2, hm2⟩ := footprint fuel f2 r2 a2 st1 g2 e2 st2 h2
  rw [hm2 b (hb2 n2 hl2), hm1 b (hb1 n1 hl1)]

/-- the blocks an execution with trace `new` read or wrote -/
def Touched (new : List Ev) (b : Nat) : Prop := ∃ e ∈ new, b ∈ evTouches e
/-- the blocks it wrote -/
def Written (new : List Ev) (b : Nat) : Prop := ∃ e ∈ new, b ∈ evWrites e

theorem evWrites_sub (e : Ev) (b : Nat) (h : b ∈ evWrites e) : b ∈ evTouches e := by
  cases e with
  | wr p n => exact h
  | cp d s n =>
    simp only [evWrites, evTouches] at h ⊢
    split at h
    · cases h
    · rename_i hn
      simp only [hn, if_false]
      rw [List.mem_singleton.mp h]
      exact List.mem_cons_self
  | set d n => exact h
  | ent p n => exact h
  | br _ => cases h
  | rd _ _ => cases h
  | icall _ => cases h

theorem written_touched {new : List Ev} {b : Nat} (h : Written new b) : Touched new b := by
  obtain ⟨e, he, hb⟩ := h
  exact ⟨e, he, evWrites_sub e b hb⟩

theorem touch_touched (new : List Ev) : Touch (Touched new) new := fun e he b hb => ⟨e, he, hb⟩

theorem notWritten_iff (new : List Ev) (b : Nat) : NotWritten new b ↔ ¬ Written new b := by
  constructor
  · intro h ⟨e, he, hb⟩; exact h e he hb
  · intro h e he hb; exact h ⟨e, he, hb⟩

/-- **Independence.**  If a statement (in particular a call) completes in `st1` with trace `new`, then in every state `st2` with the same
    number of blocks and the same entropy script that agrees with `st1` on the blocks `new` touches, it completes with the same
    signal, the same environment (all results), the same trace; afterwards the two memories agree on the touched blocks, and every
    other block of `st2` is exactly as it was. -/
theorem independent (prog : Program) (fuel : Nat) (s : Stmt) (env : Env) (st1 st2 : St) (sig : Sig) (env' : Env) (st1' : St) (new : List Ev)
    (h1 : exec prog fuel s env st1 = .ok sig env' st1') (hnew : st1'.leak = new ++ st1.leak)
    (hsz : st1.mem.size = st2.mem.size) (hent : st1.ent = st2.ent) (hagree : ∀ b, Touched new b → st1.mem[b]? = st2.mem[b]?) :
    ∃ st2', exec prog fuel s env st2 = .ok sig env' st2' ∧ st2'.leak = new ++ st2.leak ∧ st2'.ent = st1'.ent ∧
      st2'.mem.size = st2.mem.size ∧
      (∀ b, Touched new b → st2'.mem[b]? = st1'.mem[b]?) ∧ (∀ b, ¬ Written new b → st2'.mem[b]? = st2.mem[b]?) := by
  have hl := exec_local (Touched new) prog fuel s env st1 st2 ⟨hsz, hent, hagree⟩
  rw [h1] at hl
  obtain ⟨st2', h2, hl2, hs⟩ := hl new hnew (touch_touched new)
  have hf := exec_frame prog fuel s env st2
  rw [h2] at hf
  obtain ⟨hsz2, new2, hn2, hm2⟩ := hf
  have : new2 = new := by
    have : new2 ++ st2.leak = new ++ st2.leak := by rw [← hn2, hl2]
    exact List.append_cancel_right this
  subst this
  exact ⟨st2', h2, hl2, hs.ent.symm, hsz2, fun b hb => (hs.mem b hb).symm, fun b hb => hm2 b ((notWritten_iff _ b).mpr hb)⟩

/-- **Commutation.**  Two completed executions (in particular two calls) that do not consume entropy and where neither writes a block the
    other touches give, in the opposite order, the same signals, the same environments (all results), the same traces and the same
    final memory. -/
theorem commute (prog : Program) (fa fb : Nat) (sa sb : Stmt) (enva envb : Env) (st stA stAB : St)
    (sigA sigB : Sig) (envA' envB' : Env) (newA newB : List Ev)
    (hA : exec prog fa sa enva st = .ok sigA envA' stA) (hlA : stA.leak = newA ++ st.leak)
    (hB : exec prog fb sb envb stA = .ok sigB envB' stAB) (hlB : stAB.leak = newB ++ stA.leak)
    (heA : stA.ent = st.ent) (heB : stAB.ent = stA.ent)
    (hd1 : ∀ b, Touched newA b → ¬ Written newB b) (hd2 : ∀ b, Touched newB b → ¬ Written newA b) :
    ∃ stB stBA, exec prog fb sb envb st = .ok sigB envB' stB ∧ stB.leak = newB ++ st.leak ∧
      exec prog fa sa enva stB = .ok sigA envA' stBA ∧ stBA.leak = newA ++ stB.leak ∧
      stBA.mem = stAB.mem ∧ stBA.ent = stAB.ent := by
  -- frame of A from st and of B from stA
  have fA := exec_frame prog fa sa enva st
  rw [hA] at fA
  obtain ⟨szA0, nA, hnA, hmA⟩ := fA
  have enA : nA = newA := by
    have : nA ++ st.leak = newA ++ st.leak := by rw [← hnA, hlA]
    exact List.append_cancel_right this
  subst enA
  have fB := exec_frame prog fb sb envb stA
  rw [hB] at fB
  obtain ⟨szB0, nB, hnB, hmB⟩ := fB
  have enB : nB = newB := by
    have : nB ++ stA.leak = newB ++ stA.leak := by rw [← hnB, hlB]
    exact List.append_cancel_right this
  subst enB
  -- B first
  obtain ⟨stB, hB', hlB', entB, szB, agreeB, untouchedB⟩ := independent prog fb sb envb stA st sigB envB' stAB nB hB hlB szA0 heA
    (fun b hb => hmA b ((notWritten_iff _ b).mpr (hd2 b hb)))
  -- then A
  obtain ⟨stBA, hA', hlA', entA, szA, agreeA, untouchedA⟩ := independent prog fa sa enva st stB sigA envA' stA nA hA hlA szB.symm
    (by rw [entB, heB, heA]) (fun b hb => (untouchedB b (hd1 b hb)).symm)
  refine ⟨stB, stBA, hB', hlB', hA', hlA', ?_, by rw [entA, heB]⟩
  apply Array.ext_getElem?
  intro b
  by_cases hTA : Touched nA b
  · rw [agreeA b hTA, hmB b ((notWritten_iff _ b).mpr (hd1 b hTA))]
  · by_cases hTB : Touched nB b
    · rw [untouchedA b (hd2 b hTB), agreeB b hTB]
    · have hWA : ¬ Written nA b := fun h => hTA (written_touched h)
      have hWB : ¬ Written nB b := fun h => hTB (written_touched h)
      rw [untouchedA b hWA, untouchedB b hWB, hmB b ((notWritten_iff _ b).mpr hWB), hmA b ((notWritten_iff _ b).mpr hWA)]


/-- for calls of the regenerated library -/
theorem call_independent (fuel f : Nat) (hasRet : Bool) (args : List LVal) (st1 st2 : St) (sig : Sig) (env' : Env) (st1' : St) (new : List Ev)
    (h1 : callFun TJ.Gen.MiniC.prog fuel f hasRet args st1 = .ok sig env' st1') (hnew : st1'.leak = new ++ st1.leak)
    (hsz : st1.mem.size = st2.mem.size) (hent : st1.ent = st2.ent) (hagree : ∀ b, Touched new b → st1.mem[b]? = st2.mem[b]?) :
    ∃ st2', callFun TJ.Gen.MiniC.prog fuel f hasRet args st2 = .ok sig env' st2' ∧ st2'.leak = new ++ st2.leak ∧ st2'.ent = st1'.ent ∧
      st2'.mem.size = st2.mem.size ∧
      (∀ b, Touched new b → st2'.mem[b]? = st1'.mem[b]?) ∧ (∀ b, ¬ Written new b → st2'.mem[b]? = st2.mem[b]?) :=
  independent TJ.Gen.MiniC.prog fuel _ _ st1 st2 sig env' st1' new h1 hnew hsz hent hagree

theorem calls_commute (fa fb f1 f2 : Nat) (r1 r2 : Bool) (a1 a2 : List LVal) (st stA stAB : St)
    (sigA sigB : Sig) (envA' envB' : Env) (newA newB : List Ev)
    (hA : callFun TJ.Gen.MiniC.prog fa f1 r1 a1 st = .ok sigA envA' stA) (hlA : stA.leak = newA ++ st.leak)
    (hB : callFun TJ.Gen.MiniC.prog fb f2 r2 a2 stA = .ok sigB envB' stAB) (hlB : stAB.leak = newB ++ stA.leak)
    (heA : stA.ent = st.ent) (heB : stAB.ent = stA.ent)
    (hd1 : ∀ b, Touched newA b → ¬ Written newB b) (hd2 : ∀ b, Touched newB b → ¬ Written newA b) :
    ∃ stB stBA, callFun TJ.Gen.MiniC.prog fb f2 r2 a2 st = .ok sigB envB' stB ∧ stB.leak = newB ++ st.leak ∧
      callFun TJ.Gen.MiniC.prog fa f1 r1 a1 stB = .ok sigA envA' stBA ∧ stBA.leak = newA ++ stB.leak ∧
      stBA.mem = stAB.mem ∧ stBA.ent = stAB.ent :=
  commute TJ.Gen.MiniC.prog fa fb _ _ _ _ st stA stAB sigA sigB envA' envB' newA newB hA hlA hB hlB heA heB hd1 hd2

/-- non-vacuity of `commute`: two stores to different blocks, executed; the hypotheses hold and are not trivially false -/
def demoSt : St := { mem := #[{ bytes := #[(0, .pub), (0, .pub)], base := 0 }, { bytes := #[(0, .pub)], base := 0 }], ent := [], leak := [] }
def stA : Stmt := .store .u8 (.lit (mkPtr 0 1)) (.lit 7)
def stB : Stmt := .store .u8 (.lit (mkPtr 1 0)) (.lit 9)

example : ∃ stA' stAB', exec [] 1 stA #[] demoSt = .ok .normal #[] stA' ∧ stA'.leak = [Ev.wr (mkPtr 0 1) 1] ++ demoSt.leak ∧
    exec [] 1 stB #[] stA' = .ok .normal #[] stAB' ∧ stAB'.leak = [Ev.wr (mkPtr 1 0) 1] ++ stA'.leak ∧
    (∀ b, Touched [Ev.wr (mkPtr 0 1) 1] b → ¬ Written [Ev.wr (mkPtr 1 0) 1] b) := by
  refine ⟨_, _, rfl, rfl, rfl, rfl, ?_⟩
  intro b ⟨e, he, hb⟩ ⟨e', he', hb'⟩
  rw [List.mem_singleton.mp he] at hb
  rw [List.mem_singleton.mp he'] at hb'
  simp only [evTouches, evWrites, List.mem_singleton] at hb hb'
  rw [hb] at hb'
  revert hb'
  decide

/-- non-vacuity: `NotWritten` distinguishes blocks — a store event names exactly its block -/
example : NotWritten [Ev.wr (mkPtr 3 0) 4, Ev.rd (mkPtr 5 8) 1] 5 := by
  intro e he
  simp only [List.mem_cons, List.mem_nil_iff, or_false] at he
  rcases he with rfl | rfl <;> simp [evWrites, ptrBlock, mkPtr, ptrBase]
example : ¬ NotWritten [Ev.wr (mkPtr 3 0) 4] 3 := by
  intro h
  have := h _ (List.mem_singleton.mpr rfl)
  simp [evWrites, ptrBlock, mkPtr, ptrBase] at this

end TJ.Props.C19
