/-
  C19 — reentrancy: no hidden state; a call's effect is confined to, and its footprint determined by, what it is given.

  Model: the program regenerated from /repo's C sources.  The MiniC semantics has NO global component: a call
  `callFun prog fuel f args st` is a function of its arguments, the memory blocks and the entropy script, and the
  translator refuses file-scope variables (so a `static` cache or buffer in the sources breaks the tie).  Proved:

  * `footprint`: a completed call leaves the number of blocks unchanged (its own temporaries are released), only
    extends the leakage trace, and leaves every block that no write event of the new part of the trace names exactly
    as it was — the trace is a complete list of what was written (`TJ.MiniC.exec_frame`).
  * `footprint_same_for_all_contents`: that trace — hence the set of blocks read and written — is the same for all
    contents of all objects and buffers (non-interference); the check executes the incremental APIs on interleaved
    objects and verifies per operation that only the operation's own object and buffers are touched, which by this
    theorem holds for every content and therefore every earlier history of the OTHER objects.
  * `public_results_independent`: every public (length-like, status-like) result is the same whatever the secret contents
    of any object.
  Together: a call cannot communicate with another call except through blocks both are given; two calls on disjoint
  objects write disjoint blocks.
  Partial: that the RESULT of a call is the same function of its own blocks whatever the other blocks contain is proved
  only in the non-interference sense above (public data), not as a full frame-independence theorem; real thread
  interleavings of compiled code are outside the model (observed under TSan).
-/
import TJ.MiniC.Frame
import TJ.Props.C07
namespace TJ.Props.C19
open TJ.MiniC

/-- what a completed call of the regenerated library may have changed -/
theorem footprint (fuel f : Nat) (hasRet : Bool) (args : List LVal) (st : St) (g : Sig) (e : Env) (st' : St)
    (h : callFun TJ.Gen.MiniC.prog fuel f hasRet args st = .ok g e st') :
    st'.mem.size = st.mem.size ∧ ∃ new, st'.leak = new ++ st.leak ∧
      ∀ b, NotWritten new b → st'.mem[b]? = st.mem[b]? := by
  have := exec_frame TJ.Gen.MiniC.prog fuel
    (.call (if hasRet then some 0 else none) f ((List.range args.length).map fun i => .var (i + 1))) ((0, .pub) :: args).toArray st
  unfold callFun at h
  rw [h] at this
  exact this

/-- the footprint (the whole trace) does not depend on the contents of any object -/
theorem footprint_same_for_all_contents (fuel f : Nat) (hasRet : Bool) (a1 a2 : List LVal) (s1 s2 : St)
    (ha : TJ.Props.C07.ArgsRel a1 a2) (hs : StRel s1 s2) :
    TJ.Props.C07.Out.leak (callFun TJ.Gen.MiniC.prog fuel f hasRet a1 s1) =
    TJ.Props.C07.Out.leak (callFun TJ.Gen.MiniC.prog fuel f hasRet a2 s2) :=
  TJ.Props.C07.leak_independent_of_secrets fuel f hasRet a1 a2 s1 s2 ha hs

/-- public results (labels and, where public, values of every byte of every block) agree -/
theorem public_results_independent (fuel f : Nat) (hasRet : Bool) (a1 a2 : List LVal) (s1 s2 : St)
    (ha : TJ.Props.C07.ArgsRel a1 a2) (hs : StRel s1 s2) (g : Sig) (e : Env) (t : St)
    (h1 : callFun TJ.Gen.MiniC.prog fuel f hasRet a1 s1 = .ok g e t) :
    ∃ g' e' t', callFun TJ.Gen.MiniC.prog fuel f hasRet a2 s2 = .ok g' e' t' ∧ MemRel t.mem t'.mem := by
  obtain ⟨g', e', t', h2, _, hr⟩ := TJ.Props.C07.completes_for_all_secrets fuel f hasRet a1 a2 s1 s2 ha hs g e t h1
  exact ⟨g', e', t', h2, hr.mem⟩

/-- two calls whose write sets are disjoint from a block leave it alone in either order (direct from `footprint`) -/
theorem untouched_by_both (fuel f1 f2 : Nat) (r1 r2 : Bool) (a1 a2 : List LVal) (st : St)
    (g1 : Sig) (e1 : Env) (st1 : St) (g2 : Sig) (e2 : Env) (st2 : St)
    (h1 : callFun TJ.Gen.MiniC.prog fuel f1 r1 a1 st = .ok g1 e1 st1)
    (h2 : callFun TJ.Gen.MiniC.prog fuel f2 r2 a2 st1 = .ok g2 e2 st2) (b : Nat)
    (hb1 : ∀ new, st1.leak = new ++ st.leak → NotWritten new b)
    (hb2 : ∀ new, st2.leak = new ++ st1.leak → NotWritten new b) :
    st2.mem[b]? = st.mem[b]? := by
  obtain ⟨_, n1, hl1, hm1⟩ := footprint fuel f1 r1 a1 st g1 e1 st1 h1
  obtain ⟨_, n2, hl2, hm2⟩ := footprint fuel f2 r2 a2 st1 g2 e2 st2 h2
  rw [hm2 b (hb2 n2 hl2), hm1 b (hb1 n1 hl1)]

/-- non-vacuity: `NotWritten` distinguishes blocks — a store event names exactly its block -/
example : NotWritten [Ev.wr (mkPtr 3 0) 4, Ev.rd (mkPtr 5 8) 1] 5 := by
  intro e he
  simp only [List.mem_cons, List.mem_nil_iff, or_false] at he
  rcases he with rfl | rfl <;> simp [evWrites, ptrBlock, mkPtr, ptrBase]
example : ¬ NotWritten [Ev.wr (mkPtr 3 0) 4] 3 := by
  intro h
  have := h _ (List.mem_singleton.mpr rfl)
  simp [evWrites, ptrBlock, mkPtr, ptrBase] at this

end TJ.Props.C19
