/-
  C15 / C16 on the REGENERATED source: the Hash_DRBG of src/tinyjambu-prng.c as translated by tools/c2lean.py, with a user entropy callback installed
  (`userCb` of the MiniC semantics: one scripted delivery per call, bytes labelled secret).

  * `feed_source_is_model`      tinyjambu_prng_feed = `Prng.feed`: `V ← Hash_df(0x01 ‖ V ‖ data)` (the OLD state together with the new material),
                                `C ← Hash_df(0x00 ‖ V)`, the counter one step closer to the limit and saturating (C16), any data incl. NULL/0.
  * `set_limit_source_is_model` tinyjambu_prng_set_reseed_limit = `Prng.setLimit` (clamp at 1 MiB, round up to blocks, at least 1): only the 4 bytes change.
  * `free_source_is_model`      tinyjambu_prng_free leaves 96 public zero bytes.
  * `reseed_source_is_model`    tinyjambu_prng_reseed = `Prng.reseed`: `C ← V`, one delivery over it, `V ← Hash_df(0x01 ‖ V ‖ C)`, `C ← Hash_df(0x00 ‖ V)`,
                                counter 1; the result is 1 exactly when the callback reported 32 bytes.
  * `generate_source_is_model`  tinyjambu_prng_generate = `Prng.genLoop` for EVERY size: per block the automatic reseed when counter > limit (the check
                                is made before every block), `Hash(V)`, `memcpy` of `min(32, size)` bytes, `V ← V + Hash(0x03 ‖ V) + C + counter`
                                (the 32-round carry loop = `vAdvance`), counter + 1, and the final wipe of the local `H`; the entropy script loses
                                exactly the deliveries the reseeds consumed.  Induction over the size; the callees (`tinyjambu_hash`,
                                `tinyjambu_hash_prefixed`, `tinyjambu_hash_df`, `tinyjambu_prng_reseed`, the regenerated hash functions and
                                `tinyjambu_permutation_256`) are the regenerated terms too.
  In all of them `reseed_counter`, `reseed_limit`, the callback and the user-data pointer keep PUBLIC labels (the functions branch on them), every block
  other than the state object and `data` keeps its values with labels that do not rise (`KeepW`).
  Not covered here: `tinyjambu_prng_init` / `_init_user` and the system entropy shim (C17, C18 stay on the hand model + correspondence).
-/
import TJ.Proofs.PrngGenCall
import TJ.Props.C15
namespace TJ.Props.C15Gen
open TJ TJ.MiniC TJ.MiniC.Hoare TJ.Gen.MiniC

/-- the state object holds the model state `p` (`V`, `C`, counter, limit) -/
def Holds (X : Array LByte) (p : Prng) : Prop := PObjV X p.V p.C p.rc.toNat p.rl.toNat

theorem feed_source_is_model (st : St) (bp bi : Nat) (X XI : Array LByte) (baseP basei ioff : Nat) (p : Prng) (data : Bytes)
    (hP : st.mem[bp]? = some ⟨X, baseP⟩) (ho : Holds X p) (hal : baseP % 4 = 0) (hltP : baseP + X.size < ptrBase)
    (hI : st.mem[bi]? = some ⟨XI, basei⟩) (hd : BytesV XI ioff data) (hltI : basei + XI.size < ptrBase) (hne : bi ≠ bp) (hsz : st.mem.size + 5 < 2 ^ 30) :
    ∃ fuel st' X', callFun prog fuel idx_tinyjambu_prng_feed false [(mkPtr bp baseP, .pub), (mkPtr bi (basei + ioff), .pub), (data.length, .pub)] st =
        .ok .normal #[(0, .pub), (mkPtr bp baseP, .pub), (mkPtr bi (basei + ioff), .pub), (data.length, .pub)] st' ∧
      st'.ent = st.ent ∧ st'.mem.size = st.mem.size ∧ st'.mem[bp]? = some ⟨X', baseP⟩ ∧ X'.size = X.size ∧ Holds X' (p.feed data) ∧
      (∀ q, 68 ≤ q → ORel VLe X'[q]? X[q]?) ∧
      (∀ j, j ≠ bp → ORel (KeepW (fun _ => False) (fun q => j = bi ∧ ioff ≤ q ∧ q < ioff + data.length)) st'.mem[j]? st.mem[j]?) := by
  obtain ⟨k, sig, e, s, hx, hs, he, hent, hmsz, ⟨X', g1, g2, g3, g4⟩, g5⟩ := prng_feed_call
    #[(0, .pub), (mkPtr bp baseP, .pub), (mkPtr bi (basei + ioff), .pub), (data.length, .pub)] st (.var 1) (.var 2) (.var 3) bp bi X XI baseP basei ioff
    (mkPtr bi (basei + ioff)) p.V p.C data p.rc.toNat p.rl.toNat (by simp [evalE]) (by simp [evalE]) (by simp [evalE]) hP ho hal hltP
    (Or.inr ⟨hI, hd, rfl, hltI⟩) hne hsz
  subst hs he
  refine ⟨k, s, X', ?_, hent, hmsz, g1, g2, ?_, g4, g5⟩
  · unfold callFun
    simp only [List.length_cons, List.length_nil, List.range, List.range.loop, List.map, Bool.false_eq_true, if_false, Nat.zero_add]
    exact hx
  · show PObjV X' (p.feed data).V (p.feed data).C (p.feed data).rc.toNat (p.feed data).rl.toNat
    have hrc : (p.feed data).rc.toNat = if p.rc.toNat = 4294967295 then p.rc.toNat else p.rc.toNat + 1 := by
      simp only [Prng.feed]
      by_cases h : p.rc.toNat = 4294967295
      · have : ¬ p.rc < 0xFFFFFFFF := by rw [UInt32.lt_iff_toNat_lt]; simp [h]
        simp only [this, if_false, h, if_true]
      · have hlt : p.rc < 0xFFFFFFFF := by rw [UInt32.lt_iff_toNat_lt]; have := p.rc.toNat_lt; simp; omega
        simp only [hlt, if_true, h, if_false]
        rw [UInt32.toNat_add]; have := p.rc.toNat_lt; simp; omega
    rw [hrc]
    exact g3

/-- C16 clause on the source: feeding never moves the counter backwards and never wraps it -/
theorem feed_counter_monotone (p : Prng) (data : Bytes) : p.rc.toNat ≤ (p.feed data).rc.toNat := by
  simp only [Prng.feed]
  by_cases hlt : p.rc < 0xFFFFFFFF
  · simp only [hlt, if_true]
    rw [UInt32.toNat_add]
    have h1 : p.rc.toNat < 4294967295 := by rw [UInt32.lt_iff_toNat_lt] at hlt; simpa using hlt
    simp; omega
  · simp only [hlt, if_false]; exact Nat.le_refl _

/-- the hand model's state and scripted user callback as the source-level generator state -/
def toGS (p : Prng) (e : Ent) : GS := ⟨p.V, p.C, p.rc.toNat, p.rl.toNat, e.user.map fun d => (d.written, d.ret)⟩

def Small (e : Ent) : Prop := ∀ d ∈ e.user, d.written.length ≤ 32

theorem seedOf_writeAt (w : Bytes) (ret : Nat) (V : Bytes) (hw : w.length ≤ 32) (hV : V.length = 32) : seedOf (w, ret) V = writeAt V 0 w := by
  unfold seedOf writeAt
  simp only [Nat.min_eq_left hw, List.take_zero, List.nil_append, Nat.zero_add]
  rw [List.take_of_length_le (Nat.le_refl _)]

theorem toUInt32_toNat (x : UInt32) : x.toNat.toUInt32 = x := by
  apply UInt32.toNat_inj.mp; simp [Nat.toUInt32]

theorem reseed_link (p : Prng) (e : Ent) (hcb : p.cb = .user) (hs : Small e) (hV : p.V.length = 32) :
    ∃ ret p' e', p.reseed e = some (ret, p', e') ∧ toGS p' e' = (toGS p e).reseed ∧ p'.cb = .user ∧ Small e' ∧ C15.Shape p' := by
  cases hu : e.user with
  | nil =>
    refine ⟨if (0 : Nat) = 32 then 1 else 0, { p with V := hashDf 1 p.V p.V, C := hashDf 0 (hashDf 1 p.V p.V) [], rc := 1 }, e,
      by simp only [Prng.reseed, Ent.request, hcb, hu], ?_, hcb, hs, ⟨C15.hashDf_length _ _ _, C15.hashDf_length _ _ _⟩⟩
    simp only [toGS, GS.reseed, hu, List.map_nil, List.headD_nil, List.tail_nil]
    have : seedOf ([], 0) p.V = p.V := by unfold seedOf; simp
    rw [this]; rfl
  | cons d r =>
    have hd : d.written.length ≤ 32 := hs d (by rw [hu]; exact List.mem_cons_self)
    refine ⟨if d.ret = 32 then 1 else 0, { p with V := hashDf 1 p.V (writeAt p.V 0 d.written), C := hashDf 0 (hashDf 1 p.V (writeAt p.V 0 d.written)) [], rc := 1 },
      { e with user := r }, by simp only [Prng.reseed, Ent.request, hcb, hu], ?_, hcb, fun x hx => hs x (by rw [hu]; exact List.mem_cons_of_mem _ hx),
      ⟨C15.hashDf_length _ _ _, C15.hashDf_length _ _ _⟩⟩
    simp only [toGS, GS.reseed, hu, List.map_cons, List.headD_cons, List.tail_cons]
    rw [seedOf_writeAt d.written d.ret p.V hd hV]; rfl

theorem block_link (p : Prng) (e : Ent) (hs : C15.Shape p) :
    p.block.1 = (toGS p e).block.1 ∧ toGS p.block.2 e = (toGS p e).block.2 ∧ C15.Shape p.block.2 := by
  refine ⟨rfl, ?_, ?_, hs.2⟩
  · simp only [toGS, Prng.block, GS.block, toUInt32_toNat]
    congr 1
  · show (vAdvance p.V (hashPrefixed 0x03 p.V) p.C p.rc).length = 32
    rw [vAdvance_cstate _ _ _ _ hs.1 (by unfold hashPrefixed; exact hash_length _) hs.2, List.length_reverse, cstate_length]

theorem auto_link (p : Prng) (e : Ent) (hcb : p.cb = .user) (hs : Small e) (hsh : C15.Shape p) :
    ∃ p1 e1 rq, p.autoReseed e = some (p1, e1, rq) ∧ toGS p1 e1 = (toGS p e).auto ∧ p1.cb = .user ∧ Small e1 ∧ C15.Shape p1 := by
  unfold Prng.autoReseed GS.auto
  by_cases hc : p.rc > p.rl
  · obtain ⟨ret, p', e', h1, h2, h3, h4, h5⟩ := reseed_link p e hcb hs hsh.1
    have hc' : (toGS p e).rc > (toGS p e).rl := by show p.rc.toNat > p.rl.toNat; exact UInt32.lt_iff_toNat_lt.mp hc
    simp only [hc, if_true, h1, hc']
    exact ⟨p', e', [.request], rfl, h2, h3, h4, h5⟩
  · have hc' : ¬ (toGS p e).rc > (toGS p e).rl := by show ¬ p.rc.toNat > p.rl.toNat; exact fun h => hc (UInt32.lt_iff_toNat_lt.mpr h)
    simp only [hc, if_false, hc']
    exact ⟨p, e, [], rfl, rfl, hcb, hs, hsh⟩

/-- the hand model's `Prng.genLoop` with a user callback is the source-level block loop -/
theorem genLoop_link : ∀ (n size : Nat) (p : Prng) (e : Ent), size ≤ n → p.cb = .user → Small e → C15.Shape p →
    ∃ r, p.genLoop e size = some r ∧ r.out = ((toGS p e).loop size).1 ∧ toGS r.p r.e = ((toGS p e).loop size).2 ∧ r.p.cb = .user ∧ Small r.e ∧ C15.Shape r.p
  | n, 0, p, e, _, hcb, hs, hsh => by
    rw [Prng.genLoop, gsLoop_zero]
    simp only [if_true]
    exact ⟨_, rfl, rfl, rfl, hcb, hs, hsh⟩
  | 0, size + 1, p, e, h, _, _, _ => by omega
  | n + 1, size + 1, p, e, h, hcb, hs, hsh => by
    obtain ⟨p1, e1, rq, ha, hga, hcb1, hs1, hsh1⟩ := auto_link p e hcb hs hsh
    obtain ⟨hb1, hb2, hsh2⟩ := block_link p1 e1 hsh1
    have hcb2 : p1.block.2.cb = .user := hcb1
    obtain ⟨r, hr1, hr2, hr3, hr4, hr5, hr6⟩ := genLoop_link n (size + 1 - min 32 (size + 1)) p1.block.2 e1 (by omega) hcb2 hs1 hsh2
    rw [Prng.genLoop, gsLoop_pos _ _ (by omega)]
    simp only [show ¬ size + 1 = 0 from by omega, if_false, ha, hr1]
    rw [← hga, ← hb2, ← hb1]
    exact ⟨_, rfl, by rw [hr2], hr3, hr4, hr5, hr6⟩


/-- the entropy script of the MiniC semantics for a hand-model environment -/
def script (e : Ent) : List MiniC.Delivery := e.user.map fun d => (d.written, d.ret)

theorem holds_toGS {X : Array LByte} {p : Prng} {e : Ent} (h : Holds X p) : PObjV X (toGS p e).V (toGS p e).C (toGS p e).rc (toGS p e).rl := h

theorem set_limit_source_is_model (st : St) (bp : Nat) (X : Array LByte) (baseP limit : Nat) (p : Prng) (hlim : limit < 18446744073709551616)
    (hP : st.mem[bp]? = some ⟨X, baseP⟩) (ho : Holds X p) (hal : baseP % 4 = 0) (hltP : baseP + X.size < ptrBase) (hbp30 : bp < 2 ^ 30) :
    ∃ fuel st', callFun prog fuel idx_tinyjambu_prng_set_reseed_limit false [(mkPtr bp baseP, .pub), (limit, .pub)] st =
        .ok .normal #[(0, .pub), (mkPtr bp baseP, .pub), (limit, .pub)] st' ∧
      st'.ent = st.ent ∧ st'.mem = setBlock st.mem bp (writeLE X 68 (p.setLimit limit).rl.toNat .pub 4) ∧ Holds (writeLE X 68 (p.setLimit limit).rl.toNat .pub 4) (p.setLimit limit) := by
  obtain ⟨k, sig, e, s, hx, hs, he, hent, hm, ho'⟩ := prng_set_limit_call #[(0, .pub), (mkPtr bp baseP, .pub), (limit, .pub)] st (.var 1) (.var 2) bp X baseP limit p.V p.C p.rc.toNat p.rl.toNat
    (by simp [evalE]) (by simp [evalE]) hlim hP ho hal hltP hbp30
  subst hs he
  have hrl : (p.setLimit limit).rl.toNat = Hoare.limitBlocks limit := by
    have hb := Hoare.limitBlocks_bounds limit
    show (Hoare.limitBlocks limit).toUInt32.toNat = _
    simp [Nat.toUInt32]; omega
  refine ⟨k, s, ?_, hent, by rw [hrl]; exact hm, ?_⟩
  · unfold callFun
    simp only [List.length_cons, List.length_nil, List.range, List.range.loop, List.map, Bool.false_eq_true, if_false, Nat.zero_add]
    exact hx
  · rw [hrl]
    show PObjV _ p.V p.C p.rc.toNat (p.setLimit limit).rl.toNat
    rw [hrl]; exact ho'

theorem free_source_is_model (st : St) (bp : Nat) (blk : Block) (hP : st.mem[bp]? = some blk) (hbase : blk.base = 0) (hsz : blk.bytes.size = 96) :
    ∃ fuel st', callFun prog fuel idx_tinyjambu_prng_free false [(mkPtr bp 0, .pub)] st = .ok .normal #[(0, .pub), (mkPtr bp 0, .pub)] st' ∧
      st'.ent = st.ent ∧ st'.mem = setBlock st.mem bp (Array.replicate 96 (0, .pub)) := by
  obtain ⟨k, sig, e, s, hx, hs, he, hent, hm⟩ := prng_free_call #[(0, .pub), (mkPtr bp 0, .pub)] st (.var 1) bp blk (by simp [evalE]) hP hbase hsz
  subst hs he
  refine ⟨k, s, ?_, hent, hm⟩
  unfold callFun
  simp only [List.length_cons, List.length_nil, List.range, List.range.loop, List.map, Bool.false_eq_true, if_false, Nat.zero_add]
  exact hx

theorem reseed_source_is_model (st : St) (bp : Nat) (X : Array LByte) (baseP ud : Nat) (p : Prng) (e : Ent) (hcb : p.cb = .user) (hs : Small e) (hV : p.V.length = 32)
    (hP : st.mem[bp]? = some ⟨X, baseP⟩) (ho : Holds X p) (hpcb : PCb X ud) (hent : st.ent = script e) (hal : baseP % 8 = 0) (hltP : baseP + X.size < ptrBase)
    (hsz : st.mem.size + 5 < 2 ^ 30) :
    ∃ fuel st' ret p' e' X', p.reseed e = some (ret, p', e') ∧
      callFun prog fuel idx_tinyjambu_prng_reseed true [(mkPtr bp baseP, .pub)] st = .ok .normal #[(ret.toNat, .pub), (mkPtr bp baseP, .pub)] st' ∧
      st'.ent = script e' ∧ st'.mem.size = st.mem.size ∧ st'.mem[bp]? = some ⟨X', baseP⟩ ∧ X'.size = X.size ∧ Holds X' p' ∧ PCb X' ud ∧
      (∀ j, j ≠ bp → ORel (KeepW (fun _ => False) (fun _ => False)) st'.mem[j]? st.mem[j]?) := by
  obtain ⟨k, sig, en, s, hx, hsig, hen, hent', hmsz, ⟨X', g1, g2, g3, g4⟩, g5⟩ := prng_reseed_call_ret userCb (Or.inl rfl) 0 #[(0, .pub), (mkPtr bp baseP, .pub)] st (.var 1) bp X baseP p.V p.C p.rc.toNat p.rl.toNat ud .pub
    (by simp [evalE]) hP ho hpcb.toV hal hltP hsz
  subst hsig
  cases hu : e.user with
  | nil =>
    have hd : st.ent.headD ([], 0) = ([], 0) := by rw [hent, script, hu]; rfl
    refine ⟨k, s, if (0 : Nat) = 32 then 1 else 0, { p with V := hashDf 1 p.V p.V, C := hashDf 0 (hashDf 1 p.V p.V) [], rc := 1 }, e, X',
      by simp only [Prng.reseed, Ent.request, hcb, hu], ?_, by rw [hent', hent, script, hu]; rfl, hmsz, g1, g2, ?_, pcb_vle hpcb (fun q hq => g4 q (by omega)), g5⟩
    · unfold callFun
      simp only [List.length_cons, List.length_nil, List.range, List.range.loop, List.map, if_true, Nat.zero_add]
      rw [hx, hen, hd, cbRet_user]; rfl
    · rw [hd] at g3
      have : seedOf ([], 0) p.V = p.V := by unfold seedOf; simp
      rw [this] at g3; exact g3
  | cons d r =>
    have hd : st.ent.headD ([], 0) = (d.written, d.ret) := by rw [hent, script, hu]; rfl
    have hdl : d.written.length ≤ 32 := hs d (by rw [hu]; exact List.mem_cons_self)
    refine ⟨k, s, if d.ret = 32 then 1 else 0, { p with V := hashDf 1 p.V (writeAt p.V 0 d.written), C := hashDf 0 (hashDf 1 p.V (writeAt p.V 0 d.written)) [], rc := 1 },
      { e with user := r }, X', by simp only [Prng.reseed, Ent.request, hcb, hu], ?_, by rw [hent', hent, script, hu]; rfl, hmsz, g1, g2, ?_, pcb_vle hpcb (fun q hq => g4 q (by omega)), g5⟩
    · unfold callFun
      simp only [List.length_cons, List.length_nil, List.range, List.range.loop, List.map, if_true, Nat.zero_add]
      rw [hx, hen, hd, cbRet_user]
      by_cases h32 : d.ret = 32
      · simp [h32]; rfl
      · simp [h32]; rfl
    · rw [hd, seedOf_writeAt d.written d.ret p.V hdl hV] at g3; exact g3

theorem generate_source_is_model (st : St) (bp bd : Nat) (Xp XD : Array LByte) (baseP based doff n ud : Nat) (p : Prng) (e : Ent)
    (hcb : p.cb = .user) (hs : Small e) (hsh : C15.Shape p)
    (hP : st.mem[bp]? = some ⟨Xp, baseP⟩) (ho : Holds Xp p) (hpcb : PCb Xp ud) (hent : st.ent = script e)
    (hD : st.mem[bd]? = some ⟨XD, based⟩) (hpd : bp ≠ bd) (hal : baseP % 8 = 0) (hltP : baseP + Xp.size < ptrBase) (hltD : based + XD.size < ptrBase)
    (hin : doff + n ≤ XD.size) (hsz : st.mem.size + 7 < 2 ^ 30) :
    ∃ fuel st' r Xp' XD', p.genLoop e n = some r ∧
      callFun prog fuel idx_tinyjambu_prng_generate false [(mkPtr bp baseP, .pub), (mkPtr bd (based + doff), .pub), (n, .pub)] st =
        .ok .normal #[(0, .pub), (mkPtr bp baseP, .pub), (mkPtr bd (based + doff), .pub), (n, .pub)] st' ∧
      st'.ent = script r.e ∧ st'.mem.size = st.mem.size ∧
      st'.mem[bp]? = some ⟨Xp', baseP⟩ ∧ Xp'.size = Xp.size ∧ Holds Xp' r.p ∧ PCb Xp' ud ∧
      st'.mem[bd]? = some ⟨XD', based⟩ ∧ XD'.size = XD.size ∧ BytesV XD' doff r.out ∧ r.out.length = n ∧ (∀ q, (q < doff ∨ doff + n ≤ q) → ORel VLe XD'[q]? XD[q]?) ∧
      (∀ j, j ≠ bp → j ≠ bd → ORel (KeepW (fun _ => False) (fun _ => False)) st'.mem[j]? st.mem[j]?) := by
  obtain ⟨r, hr1, hr2, hr3, _, _, _⟩ := genLoop_link n n p e (Nat.le_refl _) hcb hs hsh
  obtain ⟨k, sig, en, s, hx, hsig, hen, hent', hmsz, ⟨Xp', g1, g2, g3, g4⟩, ⟨XD', d1, d2, d3, d4, d5⟩, g5⟩ := prng_generate_call userCb (Or.inl rfl)
    #[(0, .pub), (mkPtr bp baseP, .pub), (mkPtr bd (based + doff), .pub), (n, .pub)] st (.var 1) (.var 2) (.var 3) bp bd Xp XD baseP based doff n ud (toGS p e)
    (by simp [evalE]) (by simp [evalE]) (by simp [evalE]) hP ho hpcb hent hD hpd hal hltP hltD hin hsz
  subst hsig hen
  rw [← hr3] at hent' g3
  rw [← hr2] at d3 d4
  refine ⟨k, s, r, Xp', XD', hr1, ?_, hent', hmsz, g1, g2, g3, g4, d1, d2, d3, d4, d5, g5⟩
  unfold callFun
  simp only [List.length_cons, List.length_nil, List.range, List.range.loop, List.map, Bool.false_eq_true, if_false, Nat.zero_add]
  exact hx

/-- `tinyjambu_prng_generate` with the SYSTEM source installed (`tinyjambu_prng_system`, the regenerated function; `tinyjambu_trng_generate` is one scripted delivery of
    the semantics): the same source-level block loop `GS.loop` — every automatic reseed consumes one delivery of the system source -/
theorem generate_source_system (st : St) (bp bd : Nat) (Xp XD : Array LByte) (baseP based doff n ud : Nat) (g : GS)
    (hP : st.mem[bp]? = some ⟨Xp, baseP⟩) (ho : PObjV Xp g.V g.C g.rc g.rl) (hpcb : PCb Xp ud sysCb) (hent : st.ent = g.ent)
    (hD : st.mem[bd]? = some ⟨XD, based⟩) (hpd : bp ≠ bd) (hal : baseP % 8 = 0) (hltP : baseP + Xp.size < ptrBase) (hltD : based + XD.size < ptrBase)
    (hin : doff + n ≤ XD.size) (hsz : st.mem.size + 7 < 2 ^ 30) :
    ∃ fuel st' Xp' XD', callFun prog fuel idx_tinyjambu_prng_generate false [(mkPtr bp baseP, .pub), (mkPtr bd (based + doff), .pub), (n, .pub)] st =
        .ok .normal #[(0, .pub), (mkPtr bp baseP, .pub), (mkPtr bd (based + doff), .pub), (n, .pub)] st' ∧
      st'.ent = (g.loop n).2.ent ∧ st'.mem.size = st.mem.size ∧
      st'.mem[bp]? = some ⟨Xp', baseP⟩ ∧ PObjV Xp' (g.loop n).2.V (g.loop n).2.C (g.loop n).2.rc (g.loop n).2.rl ∧ PCb Xp' ud sysCb ∧
      st'.mem[bd]? = some ⟨XD', based⟩ ∧ BytesV XD' doff (g.loop n).1 ∧ (g.loop n).1.length = n := by
  obtain ⟨k, sig, en, s, hx, hsig, hen, hent', hmsz, ⟨Xp', g1, g2, g3, g4⟩, ⟨XD', d1, d2, d3, d4, d5⟩, g5⟩ := prng_generate_call sysCb (Or.inr rfl)
    #[(0, .pub), (mkPtr bp baseP, .pub), (mkPtr bd (based + doff), .pub), (n, .pub)] st (.var 1) (.var 2) (.var 3) bp bd Xp XD baseP based doff n ud g
    (by simp [evalE]) (by simp [evalE]) (by simp [evalE]) hP ho hpcb hent hD hpd hal hltP hltD hin hsz
  subst hsig hen
  refine ⟨k, s, Xp', XD', ?_, hent', hmsz, g1, g3, g4, d1, d3, d4⟩
  unfold callFun
  simp only [List.length_cons, List.length_nil, List.range, List.range.loop, List.map, Bool.false_eq_true, if_false, Nat.zero_add]
  exact hx

end TJ.Props.C15Gen
