/-
  C15 / C16 on the REGENERATED source, first part: `tinyjambu_prng_feed(state, data, size)` of src/tinyjambu-prng.c — two calls of the regenerated
  `tinyjambu_hash_df` (six header stores into a local, the marker branch, `hash_init` / three `hash_update`s (the last one possibly with a NULL pointer and
  length 0) / `hash_finalize` / `hash_free`) and the saturating increment of `reseed_counter`, all as translated by tools/c2lean.py — leaves the state
  object representing the model's `Prng.feed`: `V ← Hash_df(0x01 ‖ V ‖ data)` (the OLD state together with the new material, C15), `C ← Hash_df(0x00 ‖ V)`,
  `reseed_counter` one step closer to the limit and never wrapping (C16), while `reseed_limit`, the callback and the user-data pointer keep their values
  and their PUBLIC labels (a later `generate` may branch on them), for every state, every data string (anywhere, any defined labels, or NULL with length 0).
-/
import TJ.Proofs.PrngFeed
import TJ.Impl.Prng
namespace TJ.Props.C15Gen
open TJ TJ.MiniC TJ.MiniC.Hoare TJ.Gen.MiniC

/-- the state object holds the model state `p` (`V`, `C`, counter, limit) -/
def Holds (X : Array LByte) (p : Prng) : Prop := PObjV X p.V p.C p.rc.toNat p.rl.toNat

theorem feed_source_is_model (st : St) (bp bi : Nat) (X XI : Array LByte) (baseP basei ioff : Nat) (p : Prng) (data : Bytes)
    (hP : st.mem[bp]? = some ⟨X, baseP⟩) (ho : Holds X p) (hal : baseP % 4 = 0) (hltP : baseP + X.size < ptrBase)
    (hI : st.mem[bi]? = some ⟨XI, basei⟩) (hd : BytesV XI ioff data) (hltI : basei + XI.size < ptrBase) (hne : bi ≠ bp) (hsz : st.mem.size + 5 < 2 ^ 30) :
    ∃ fuel st' X', callFun prog fuel idx_tinyjambu_prng_feed false [(mkPtr bp baseP, .pub), (mkPtr bi (basei + ioff), .pub), (data.length, .pub)] st =
        .ok .normal #[(0, .pub), (mkPtr bp baseP, .pub), (mkPtr bi (basei + ioff), .pub), (data.length, .pub)] st' ∧
      st'.ent = st.ent ∧ st'.mem.size = st.mem.size ∧ st'.mem[bp]? = some ⟨X', baseP⟩ ∧ X'.size = X.size ∧ Holds X' (p.feed data) ∧
      (∀ q, 68 ≤ q → ORel VLe X'[q]? X[q]?) ∧
      (∀ j, j ≠ bp → ORel (KeepW (fun _ => False) (fun q => j = bi ∧ ioff ≤ q ∧ q < ioff + data.length)) st'.mem[j]? st.mem[j]?) := by
  obtain ⟨k, sig, e, s, hx, hs, he, hent, hmsz, ⟨X', g1, g2, g3, g4⟩, g5⟩ := prng_feed_call
    #[(0, .pub), (mkPtr bp baseP, .pub), (mkPtr bi (basei + ioff), .pub), (data.length, .pub)] st (.var 1) (.var 2) (.var 3) bp bi X XI baseP basei ioff
    (mkPtr bi (basei + ioff)) p.V p.C data p.rc.toNat p.rl.toNat (by simp [evalE]) (by simp [evalE]) (by simp [evalE]) hP ho hal hltP
    (Or.inr ⟨hI, hd, rfl, hltI⟩) hne hsz
  subst hs he
  refine ⟨k, s, X', ?_, hent, hmsz, g1, g2, ?_, g4, g5⟩
  · unfold callFun
    simp only [List.length_cons, List.length_nil, List.range, List.range.loop, List.map, Bool.false_eq_true, if_false, Nat.zero_add]
    exact hx
  · show PObjV X' (p.feed data).V (p.feed data).C (p.feed data).rc.toNat (p.feed data).rl.toNat
    have hrc : (p.feed data).rc.toNat = if p.rc.toNat = 4294967295 then p.rc.toNat else p.rc.toNat + 1 := by
      simp only [Prng.feed]
      by_cases h : p.rc.toNat = 4294967295
      · have : ¬ p.rc < 0xFFFFFFFF := by rw [UInt32.lt_iff_toNat_lt]; simp [h]
        simp only [this, if_false, h, if_true]
      · have hlt : p.rc < 0xFFFFFFFF := by rw [UInt32.lt_iff_toNat_lt]; have := p.rc.toNat_lt; simp; omega
        simp only [hlt, if_true, h, if_false]
        rw [UInt32.toNat_add]; have := p.rc.toNat_lt; simp; omega
    rw [hrc]
    exact g3

/-- C16 clause on the source: feeding never moves the counter backwards and never wraps it -/
theorem feed_counter_monotone (p : Prng) (data : Bytes) : p.rc.toNat ≤ (p.feed data).rc.toNat := by
  simp only [Prng.feed]
  by_cases hlt : p.rc < 0xFFFFFFFF
  · simp only [hlt, if_true]
    rw [UInt32.toNat_add]
    have h1 : p.rc.toNat < 4294967295 := by rw [UInt32.lt_iff_toNat_lt] at hlt; simpa using hlt
    simp; omega
  · simp only [hlt, if_false]; exact Nat.le_refl _

end TJ.Props.C15Gen
