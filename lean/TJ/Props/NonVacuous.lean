/-
  Non-vacuity: the hypotheses of the theorems on the regenerated source are satisfiable — each example instantiates one of them on a concrete memory (buffers
  with undefined, secret and public bytes at non-zero offsets) and obtains the concrete conclusion.  (TJ.Props.C14Gen, C03Gen and C05Gen carry their own examples.)
-/
import TJ.Props.C13Gen
import TJ.Props.StreamGen
import TJ.Props.C02Gen
import TJ.Props.C17Gen
import TJ.Props.C15Gen
import TJ.Props.C08Gen
import TJ.Props.C16Gen
import TJ.Props.C18Gen
import TJ.Props.C12Gen
import TJ.Props.C10Gen
namespace TJ.Props.NonVacuous
open TJ TJ.MiniC TJ.MiniC.Hoare TJ.Gen.MiniC

/-- bytes with a given defined label laid out from offset 0 -/
theorem bytesV_lab (d : Bytes) (l : Lab) (hl : l ≠ .undef) : BytesV (d.map (·, l)).toArray 0 d := by
  refine ⟨by simp, fun k b hk => ⟨l, ?_, hl⟩⟩
  simp only [Nat.zero_add, List.getElem?_toArray, List.getElem?_map, hk, Option.map]

/-- a memory with an output buffer (undefined), a secret key, a public salt and a secret info string -/
def mem4 : Array Block :=
  #[⟨Array.replicate 40 (0, .undef), 0⟩, ⟨([1, 2, 3] : Bytes).map (·, Lab.sec) |>.toArray, 0⟩, ⟨([9, 8] : Bytes).map (·, Lab.pub) |>.toArray, 0⟩, ⟨([7] : Bytes).map (·, Lab.sec) |>.toArray, 0⟩]

/-- the hypotheses of `TJ.Props.C13Gen.hkdf_source_is_rfc5869` are satisfiable: a 33-byte request (two blocks, the second partial) on a concrete memory -/
example : ∃ fuel st' XO', callFun prog fuel idx_tinyjambu_hkdf true
      [(mkPtr 0 (0 + 5), .pub), (33, .pub), (mkPtr 1 (0 + 0), .pub), (3, .pub), (mkPtr 2 (0 + 0), .pub), (2, .pub), (mkPtr 3 (0 + 0), .pub), (1, .pub)] ⟨mem4, [], []⟩ =
      .ok .normal #[(0, .pub), (mkPtr 0 (0 + 5), .pub), (33, .pub), (mkPtr 1 (0 + 0), .pub), (3, .pub), (mkPtr 2 (0 + 0), .pub), (2, .pub), (mkPtr 3 (0 + 0), .pub), (1, .pub)] st' ∧
    st'.mem[0]? = some ⟨XO', 0⟩ ∧ BytesV XO' 5 (Spec.hkdf hash [1, 2, 3] [9, 8] [7] 33) := by
  obtain ⟨fuel, st', XO', h, _, _, g1, _, g3, _⟩ := TJ.Props.C13Gen.hkdf_source_is_rfc5869 ⟨mem4, [], []⟩ 0 1 2 (Array.replicate 40 (0, .undef)) _ _ 0 5 0 0 0 0 33 [1, 2, 3] [9, 8] [7]
    (mkPtr 3 (0 + 0)) 3 0 0 _ (by decide) rfl rfl rfl (by simp [ptrBase]) (by simp [ptrBase]) (by simp [ptrBase]) (bytesV_lab _ _ (by decide)) (bytesV_lab _ _ (by decide)) (by simp)
    (Or.inr ⟨rfl, bytesV_lab _ _ (by decide), rfl, by decide, by simp [ptrBase]⟩) (by simp [mem4])
  exact ⟨fuel, st', XO', h, g1, g3⟩

/-- `TJ.Props.C12Gen.hmac_source_is_rfc2104` on the same memory: key [1,2,3] (secret), message [9,8] (public), MAC at offset 5 of the output buffer -/
example : ∃ fuel st' XO', callFun prog fuel idx_tinyjambu_hmac false
      [(mkPtr 0 (0 + 5), .pub), (mkPtr 1 (0 + 0), .pub), (3, .pub), (mkPtr 2 (0 + 0), .pub), (2, .pub)] ⟨mem4, [], []⟩ =
      .ok .normal #[(0, .pub), (mkPtr 0 (0 + 5), .pub), (mkPtr 1 (0 + 0), .pub), (3, .pub), (mkPtr 2 (0 + 0), .pub), (2, .pub)] st' ∧
    st'.mem[0]? = some ⟨XO', 0⟩ ∧ BytesV XO' 5 (Spec.hmac hash [1, 2, 3] [9, 8]) := by
  obtain ⟨fuel, st', XO', h, _, _, g1, _, g3, _⟩ := TJ.Props.C12Gen.hmac_source_is_rfc2104 ⟨mem4, [], []⟩ 0 1 2 (Array.replicate 40 (0, .undef)) _ _ 0 5 0 0 0 0 [1, 2, 3] [9, 8]
    rfl rfl rfl (by simp [ptrBase]) (by simp [ptrBase]) (by simp [ptrBase]) (bytesV_lab _ _ (by decide)) (bytesV_lab _ _ (by decide)) (by simp) (by simp [mem4])
  exact ⟨fuel, st', XO', h, g1, g3⟩

/-- `TJ.Props.C10Gen.hash_source_is_spec`: the digest of the secret bytes [1,2,3] at offset 8 of the output buffer -/
example : ∃ fuel st' blkO, callFun prog fuel idx_tinyjambu_hash false [(mkPtr 0 (0 + 8), .pub), (mkPtr 1 (0 + 0), .pub), (3, .pub)] ⟨mem4, [], []⟩ =
      .ok .normal #[(0, .pub), (mkPtr 0 (0 + 8), .pub), (mkPtr 1 (0 + 0), .pub), (3, .pub)] st' ∧ st'.mem[0]? = some blkO := by
  obtain ⟨fuel, st', blkO, h, _, _, g1, _⟩ := TJ.Props.C10Gen.hash_source_is_spec ⟨mem4, [], []⟩ 0 1 (Array.replicate 40 (0, .undef)) _ 0 0 8 0 [1, 2, 3]
    rfl rfl (by simp [ptrBase]) (by simp [ptrBase]) (by simp) (by simp [mem4]) (fun k b hk => by obtain ⟨l, hx, hl⟩ := (bytesV_lab [1, 2, 3] Lab.sec (by decide)).2 k b hk; exact ⟨l, hx, hl⟩) (by simp)
  exact ⟨fuel, st', blkO, h, g1⟩

/-- `TJ.Props.StreamGen.hmac_init_source`: a 56-byte state object with undefined content (block 0, first 56 bytes... here the whole 40+ buffer is too small, so a dedicated memory) -/
example : ∃ fuel st' X', callFun prog fuel idx_tinyjambu_hmac_init false [(mkPtr 0 0, .pub), (mkPtr 1 (0 + 0), .pub), (3, .pub)]
      ⟨#[⟨Array.replicate 56 (0, .undef), 0⟩, ⟨([1, 2, 3] : Bytes).map (·, Lab.sec) |>.toArray, 0⟩], [], []⟩ =
      .ok .normal #[(0, .pub), (mkPtr 0 0, .pub), (mkPtr 1 (0 + 0), .pub), (3, .pub)] st' ∧ st'.mem[0]? = some ⟨X', 0⟩ ∧ HObjV X' (hmacInit HState.fresh [1, 2, 3]) := by
  obtain ⟨fuel, st', X', h, _, _, g1, _, g3, _⟩ := TJ.Props.StreamGen.hmac_init_source ⟨#[⟨Array.replicate 56 (0, .undef), 0⟩, ⟨([1, 2, 3] : Bytes).map (·, Lab.sec) |>.toArray, 0⟩], [], []⟩
    0 1 (Array.replicate 56 (0, .undef)) _ 0 0 0 HState.fresh [1, 2, 3] rfl rfl (by decide) (by simp) (by decide) (by simp [ptrBase]) (by simp [ptrBase]) (bytesV_lab _ _ (by decide)) (by simp)
  exact ⟨fuel, st', X', h, g1, g3⟩

/-- a memory for AEAD: ciphertext buffer, length word (8-aligned), message (secret), AD (public), nonce (public), 128-bit key (secret) -/
def mem6 : Array Block :=
  #[⟨Array.replicate 32 (0, .undef), 0⟩, ⟨Array.replicate 8 (0, .undef), 0⟩, ⟨([5, 6, 7, 8, 9] : Bytes).map (·, Lab.sec) |>.toArray, 0⟩, ⟨([1, 2, 3] : Bytes).map (·, Lab.pub) |>.toArray, 0⟩,
    ⟨(List.replicate 12 (4 : UInt8)).map (·, Lab.pub) |>.toArray, 0⟩, ⟨(List.replicate 16 (0xAB : UInt8)).map (·, Lab.sec) |>.toArray, 0⟩]

/-- `TJ.Props.C02Gen.encrypt_source_is_spec` (TinyJAMBU-128): a 5-byte message with 3 bytes of AD, ciphertext at offset 4 of its buffer -/
example : ∃ fuel st' blkO, callFun prog fuel (TJ.Props.C02Gen.encIdx .v128) false
      [(mkPtr 0 (0 + 4), .pub), (mkPtr 1 (0 + 0), .pub), (mkPtr 2 (0 + 0), .pub), (5, .pub), (mkPtr 3 (0 + 0), .pub), (3, .pub), (mkPtr 4 (0 + 0), .pub), (mkPtr 5 (0 + 0), .pub)] ⟨mem6, [], []⟩ =
      .ok .normal #[(0, .pub), (mkPtr 0 (0 + 4), .pub), (mkPtr 1 (0 + 0), .pub), (mkPtr 2 (0 + 0), .pub), (5, .pub), (mkPtr 3 (0 + 0), .pub), (3, .pub), (mkPtr 4 (0 + 0), .pub),
        (mkPtr 5 (0 + 0), .pub)] st' ∧ st'.mem[0]? = some blkO := by
  obtain ⟨fuel, st', blkO, h, _, _, g1, _⟩ := TJ.Props.C02Gen.encrypt_source_is_spec .v128 ⟨mem6, [], []⟩ 0 0 4 (Array.replicate 32 (0, .undef)) 1 0 0 (Array.replicate 8 (0, .undef))
    2 0 0 _ 3 0 0 _ 4 0 0 _ 5 0 0 _ [5, 6, 7, 8, 9] [1, 2, 3] (List.replicate 12 4) (List.replicate 16 0xAB)
    rfl (by simp [ptrBase]) (by simp) rfl (by simp [ptrBase]) (by simp) (by decide)
    ⟨rfl, by simp [ptrBase], bytesV_lab _ _ (by decide)⟩ ⟨rfl, by simp [ptrBase], bytesV_lab _ _ (by decide)⟩ ⟨rfl, by simp [ptrBase], bytesV_lab _ _ (by decide)⟩
    ⟨rfl, by simp [ptrBase], bytesV_lab _ _ (by decide)⟩ (by simp) (by decide) (by decide) (Or.inl (by decide)) (by simp [mem6])
  exact ⟨fuel, st', blkO, h, g1⟩

/-- `TJ.Props.C17Gen.init_source`: `tinyjambu_prng_init` on a 96-byte object with undefined content, the system source scripted to deliver 32 bytes -/
example : ∃ fuel st', callFun prog fuel idx_tinyjambu_prng_init true [(mkPtr 0 0, .pub), (mkPtr 1 (0 + 0), .pub), (3, .pub)]
      ⟨#[⟨Array.replicate 96 (0, .undef), 0⟩, ⟨([1, 2, 3] : Bytes).map (·, Lab.pub) |>.toArray, 0⟩], [(List.replicate 32 7, 32)], []⟩ =
      .ok .normal #[(1, .pub), (mkPtr 0 0, .pub), (mkPtr 1 (0 + 0), .pub), (3, .pub)] st' := by
  obtain ⟨fuel, st', h, _⟩ := TJ.Props.C17Gen.init_source ⟨#[⟨Array.replicate 96 (0, .undef), 0⟩, ⟨([1, 2, 3] : Bytes).map (·, Lab.pub) |>.toArray, 0⟩], [(List.replicate 32 7, 32)], []⟩
    0 1 (Array.replicate 96 (0, .undef)) _ 0 0 0 [1, 2, 3] rfl (by simp) (by decide) (by simp [ptrBase]) rfl (bytesV_lab _ _ (by decide)) (by simp [ptrBase]) (by decide) (by simp)
  exact ⟨fuel, st', h⟩

/-- the hypotheses of `TJ.Props.C15Gen.generate_source_system` hold in a REACHED state: `tinyjambu_prng_init` on a concrete memory (the source scripted to deliver twice),
    then `tinyjambu_prng_generate` of 40 bytes (two blocks, the second partial) into a second buffer -/
example : ∃ fuel1 st1 fuel2 st2 XD out, callFun prog fuel1 idx_tinyjambu_prng_init true [(mkPtr 0 0, .pub), (mkPtr 2 (0 + 0), .pub), (3, .pub)]
      ⟨#[⟨Array.replicate 96 (0, .undef), 0⟩, ⟨Array.replicate 48 (0, .undef), 0⟩, ⟨([1, 2, 3] : Bytes).map (·, Lab.pub) |>.toArray, 0⟩], [(List.replicate 32 7, 32), (List.replicate 32 9, 32)], []⟩ =
      .ok .normal #[(1, .pub), (mkPtr 0 0, .pub), (mkPtr 2 (0 + 0), .pub), (3, .pub)] st1 ∧
    callFun prog fuel2 idx_tinyjambu_prng_generate false [(mkPtr 0 0, .pub), (mkPtr 1 (0 + 4), .pub), (40, .pub)] st1 =
      .ok .normal #[(0, .pub), (mkPtr 0 0, .pub), (mkPtr 1 (0 + 4), .pub), (40, .pub)] st2 ∧
    st2.mem[1]? = some ⟨XD, 0⟩ ∧ BytesV XD 4 out ∧ out.length = 40 := by
  obtain ⟨f1, st1, h1, hent1, hmsz1, ⟨X1, hx1, hx1s, hobj1, hcb1⟩, hoth1⟩ := TJ.Props.C17Gen.init_source
    ⟨#[⟨Array.replicate 96 (0, .undef), 0⟩, ⟨Array.replicate 48 (0, .undef), 0⟩, ⟨([1, 2, 3] : Bytes).map (·, Lab.pub) |>.toArray, 0⟩], [(List.replicate 32 7, 32), (List.replicate 32 9, 32)], []⟩
    0 2 (Array.replicate 96 (0, .undef)) _ 0 0 0 [1, 2, 3] rfl (by simp) (by decide) (by simp [ptrBase]) rfl (bytesV_lab _ _ (by decide)) (by simp [ptrBase]) (by decide) (by simp)
  obtain ⟨XD1, hD1, hD1s, _⟩ := okeep_block (hoth1 1 (by decide))
  obtain ⟨f2, st2, Xp2, XD2, h2, _, _, _, _, _, d1, d2, d3⟩ := TJ.Props.C15Gen.generate_source_system st1 0 1 X1 XD1 0 0 4 40 0 ⟨_, _, 1, 32, st1.ent⟩ hx1 hobj1 hcb1 rfl hD1 (by decide) (by decide)
    (by rw [hx1s]; simp [ptrBase]) (by rw [hD1s]; simp [ptrBase]) (by rw [hD1s]; simp) (by rw [hmsz1]; simp)
  exact ⟨f1, st1, f2, st2, XD2, _, h1, h2, d1, d2, d3⟩

/-- `mem6` plus a buffer for the recovered plaintext -/
def mem7 : Array Block := mem6.push ⟨Array.replicate 16 (0, .undef), 0⟩

/-- `TJ.Props.C01Gen.roundtrip_source` (TinyJAMBU-192 would need a 24-byte key; here 128): encrypt the 5-byte message of `mem6`, decrypt the ciphertext into block 6 at offset 3 -/
example : ∃ fuel1 st1 fuel2 st2 blkQ l, callFun prog fuel1 (TJ.Props.C02Gen.encIdx .v128) false
      [(mkPtr 0 (0 + 4), .pub), (mkPtr 1 (0 + 0), .pub), (mkPtr 2 (0 + 0), .pub), (5, .pub), (mkPtr 3 (0 + 0), .pub), (3, .pub), (mkPtr 4 (0 + 0), .pub), (mkPtr 5 (0 + 0), .pub)] ⟨mem7, [], []⟩ =
      .ok .normal #[(0, .pub), (mkPtr 0 (0 + 4), .pub), (mkPtr 1 (0 + 0), .pub), (mkPtr 2 (0 + 0), .pub), (5, .pub), (mkPtr 3 (0 + 0), .pub), (3, .pub), (mkPtr 4 (0 + 0), .pub),
        (mkPtr 5 (0 + 0), .pub)] st1 ∧
    callFun prog fuel2 (TJ.Props.C01Gen.decIdx .v128) true
      [(mkPtr 6 (0 + 3), .pub), (mkPtr 1 (0 + 0), .pub), (mkPtr 0 (0 + 4), .pub), (5 + 8, .pub), (mkPtr 3 (0 + 0), .pub), (3, .pub), (mkPtr 4 (0 + 0), .pub), (mkPtr 5 (0 + 0), .pub)] st1 =
      .ok .normal #[(0, l), (mkPtr 6 (0 + 3), .pub), (mkPtr 1 (0 + 0), .pub), (mkPtr 0 (0 + 4), .pub), (5 + 8, .pub), (mkPtr 3 (0 + 0), .pub), (3, .pub), (mkPtr 4 (0 + 0), .pub),
        (mkPtr 5 (0 + 0), .pub)] st2 ∧
    st2.mem[6]? = some blkQ ∧ BytesV blkQ.bytes 3 [5, 6, 7, 8, 9] := by
  obtain ⟨f1, st1, f2, st2, blkQ, l, h1, h2, h3, _, h5⟩ := TJ.Props.C01Gen.roundtrip_source .v128 ⟨mem7, [], []⟩ 0 0 4 (Array.replicate 32 (0, .undef)) 6 0 3 (Array.replicate 16 (0, .undef))
    1 0 0 (Array.replicate 8 (0, .undef)) 2 0 0 _ 3 0 0 _ 4 0 0 _ 5 0 0 _ [5, 6, 7, 8, 9] [1, 2, 3] (List.replicate 12 4) (List.replicate 16 0xAB)
    rfl (by simp [ptrBase]) (by simp) rfl (by simp [ptrBase]) (by simp) rfl (by simp [ptrBase]) (by simp) (by decide)
    ⟨rfl, by simp [ptrBase], bytesV_lab _ _ (by decide)⟩ ⟨rfl, by simp [ptrBase], bytesV_lab _ _ (by decide)⟩ ⟨rfl, by simp [ptrBase], bytesV_lab _ _ (by decide)⟩
    ⟨rfl, by simp [ptrBase], bytesV_lab _ _ (by decide)⟩ (by simp) (by decide) (by decide) (by decide) (by decide) (by decide) (by decide) (by decide) (by simp [mem7, mem6])
  exact ⟨f1, st1, f2, st2, blkQ, l, h1, h2, h3, h5⟩

/-- `TJ.Props.StreamGen.hash_streaming_source`: a 56-byte state object with undefined content, the message [1,2,3] ++ [] ++ [4,5] streamed in three pieces, digest at offset 2 -/
example : ∃ fuel0 st0 st1 fuel2 st2 blkO, callFun prog fuel0 idx_tinyjambu_hash_init false [(mkPtr 0 0, .pub)]
      ⟨#[⟨Array.replicate 56 (0, .undef), 0⟩, ⟨([1, 2, 3, 4, 5] : Bytes).map (·, Lab.sec) |>.toArray, 0⟩, ⟨Array.replicate 40 (0, .undef), 0⟩], [], []⟩ =
      .ok .normal #[(0, .pub), (mkPtr 0 0, .pub)] st0 ∧
    TJ.Props.StreamGen.UpdRun 0 1 0 0 st0 0 [[1, 2, 3], [], [4, 5]] st1 ∧
    callFun prog fuel2 idx_tinyjambu_hash_finalize false [(mkPtr 0 0, .pub), (mkPtr 2 (0 + 2), .pub)] st1 = .ok .normal #[(0, .pub), (mkPtr 0 0, .pub), (mkPtr 2 (0 + 2), .pub)] st2 ∧
    st2.mem[2]? = some blkO := by
  obtain ⟨f0, st0, st1, f2, st2, blkO, h0, h1, h2, h3, _⟩ := TJ.Props.StreamGen.hash_streaming_source
    ⟨#[⟨Array.replicate 56 (0, .undef), 0⟩, ⟨([1, 2, 3, 4, 5] : Bytes).map (·, Lab.sec) |>.toArray, 0⟩, ⟨Array.replicate 40 (0, .undef), 0⟩], [], []⟩
    0 1 2 (Array.replicate 56 (0, .undef)) _ (Array.replicate 40 (0, .undef)) 0 0 0 0 2 HState.fresh [[1, 2, 3], [], [4, 5]] rfl rfl rfl (by decide) (by decide) (by simp) (by decide)
    (by simp [ptrBase]) (by simp [ptrBase]) (by simp [ptrBase]) (by simp) (by simp) (bytesV_lab _ _ (by decide))
  exact ⟨f0, st0, st1, f2, st2, blkO, h0, h1, h2, h3⟩

/-- `TJ.Props.C13Gen.hkdf_incremental_source`: extract on a 72-byte object with undefined content, then expands of 5, 40 and 0 bytes -/
example : ∃ fuel st1 st2, callFun prog fuel idx_tinyjambu_hkdf_extract false [(mkPtr 0 0, .pub), (mkPtr 1 (0 + 0), .pub), (3, .pub), (mkPtr 2 (0 + 0), .pub), (2, .pub)]
      ⟨#[⟨Array.replicate 72 (0, .undef), 0⟩, ⟨([1, 2, 3] : Bytes).map (·, Lab.sec) |>.toArray, 0⟩, ⟨([9, 8] : Bytes).map (·, Lab.pub) |>.toArray, 0⟩,
         ⟨Array.replicate 64 (0, .undef), 0⟩, ⟨([7] : Bytes).map (·, Lab.sec) |>.toArray, 0⟩], [], []⟩ =
      .ok .normal #[(0, .pub), (mkPtr 0 0, .pub), (mkPtr 1 (0 + 0), .pub), (3, .pub), (mkPtr 2 (0 + 0), .pub), (2, .pub)] st1 ∧
    TJ.Props.C13Gen.ExpandRun 0 3 0 0 8 (mkPtr 4 (0 + 0)) [7] st1 [5, 40, 0]
      (TJ.Props.C13.expectExpands (Spec.hkdfOkm hash (Spec.hkdfExtract hash [9, 8] [1, 2, 3]) [7]) [5, 40, 0]) st2 := by
  exact TJ.Props.C13Gen.hkdf_incremental_source
    ⟨#[⟨Array.replicate 72 (0, .undef), 0⟩, ⟨([1, 2, 3] : Bytes).map (·, Lab.sec) |>.toArray, 0⟩, ⟨([9, 8] : Bytes).map (·, Lab.pub) |>.toArray, 0⟩,
       ⟨Array.replicate 64 (0, .undef), 0⟩, ⟨([7] : Bytes).map (·, Lab.sec) |>.toArray, 0⟩], [], []⟩
    0 1 2 3 4 (Array.replicate 72 (0, .undef)) _ _ (Array.replicate 64 (0, .undef)) 0 0 0 0 0 0 8 0 0 40 (mkPtr 4 (0 + 0)) [1, 2, 3] [9, 8] [7] [5, 40, 0]
    (by intro n hn; simp at hn; rcases hn with h | h | h <;> omega) rfl rfl rfl rfl (by decide) (by decide) (by decide) (by simp) (by simp [ptrBase]) (by simp [ptrBase]) (by simp [ptrBase])
    (by simp [ptrBase]) (bytesV_lab _ _ (by decide)) (bytesV_lab _ _ (by decide)) (by simp) (Or.inr ⟨_, rfl, bytesV_lab _ _ (by decide), rfl, by decide, by decide, by simp [ptrBase]⟩) (by simp)

open TJ.Props.C15Gen TJ.Props.C16Gen in
/-- a 96-byte PRNG object (undefined), a 64-byte output buffer, an input buffer with the personalisation string / feed data [1,2,3] -/
def memP : Array Block :=
  #[⟨Array.replicate 96 (0, .undef), 0⟩, ⟨Array.replicate 64 (0, .undef), 0⟩, ⟨([1, 2, 3] : Bytes).map (·, Lab.pub) |>.toArray, 0⟩]

open TJ.Props.C15Gen TJ.Props.C16Gen in
def geoP : PGeo :=
  { bp := 0, bd := 1, bi := 2, baseP := 0, based := 0, basei := 0, doff := 4, cap := 50, xsz := 96, dsz := 64, XI := ([1, 2, 3] : Bytes).map (·, Lab.pub) |>.toArray, ud := 5, msz := 3,
    hpd := by decide, hpi := by decide, hdi := by decide, hal := by decide, hltP := by simp [ptrBase], hltD := by simp [ptrBase], hltI := by simp [ptrBase], hin := by decide, hsz := by decide }

open TJ.Props.C15Gen TJ.Props.C16Gen in
/-- `TJ.Props.C16Gen.init_then_history_source` on a concrete memory: `init_user` with a callback that delivers 32 bytes, then 7 bytes (short), then nothing; the history
    generate 40, feed [2,3], reseed, set-limit 64, generate 33, reseed, generate 50 -/
example : ∃ fuel st0 ret p0 e0 p' e' t st', Prng.initUser .user true [1, 2, 3] ⟨[⟨List.replicate 32 7, 32⟩, ⟨List.replicate 7 9, 7⟩], [], 0⟩ = some (ret, p0, e0) ∧
    callFun prog fuel idx_tinyjambu_prng_init_user true [(mkPtr 0 0, .pub), (userCb, .pub), (5, .pub), (mkPtr 2 (0 + 0), .pub), (3, .pub)]
      ⟨memP, script ⟨[⟨List.replicate 32 7, 32⟩, ⟨List.replicate 7 9, 7⟩], [], 0⟩, []⟩ =
      .ok .normal #[(ret.toNat, .pub), (mkPtr 0 0, .pub), (userCb, .pub), (5, .pub), (mkPtr 2 (0 + 0), .pub), (3, .pub)] st0 ∧
    p0.runOps e0 [.gen 40, .feed [2, 3], .reseed, .limit 64, .gen 33, .reseed, .gen 50] = some (p', e', t) ∧
    PRun geoP st0 [.gen 40, .feed [2, 3], .reseed, .limit 64, .gen 33, .reseed, .gen 50] st' ∧ bounded 0 32 t := by
  obtain ⟨fuel, st0, ret, p0, e0, p', e', t, st', h1, h2, h3, h4, _, h6⟩ := init_then_history_source geoP
    ⟨memP, script ⟨[⟨List.replicate 32 7, 32⟩, ⟨List.replicate 7 9, 7⟩], [], 0⟩, []⟩ (Array.replicate 96 (0, .undef)) (Array.replicate 64 (0, .undef)) 0 [1, 2, 3]
    ⟨[⟨List.replicate 32 7, 32⟩, ⟨List.replicate 7 9, 7⟩], [], 0⟩ true [.gen 40, .feed [2, 3], .reseed, .limit 64, .gen 33, .reseed, .gen 50]
    (by intro d hd; simp at hd; rcases hd with h | h <;> subst h <;> simp) rfl rfl (by simp [geoP]) (by decide) (by decide) rfl (by simp [geoP]) rfl (bytesV_lab _ _ (by decide)) rfl
    (by
      intro op hop
      simp only [List.mem_cons, List.mem_nil_iff, or_false] at hop
      rcases hop with h | h | h | h | h | h | h <;> subst h
      · show 40 ≤ 50; decide
      · exact ⟨1, ⟨by simp [geoP], fun k b hk => by
          match k, hk with
          | 0, hk => exact ⟨.pub, by simp at hk; subst hk; rfl, by decide⟩
          | 1, hk => exact ⟨.pub, by simp at hk; subst hk; rfl, by decide⟩⟩⟩
      · trivial
      · show 64 < 18446744073709551616; decide
      · show 33 ≤ 50; decide
      · trivial
      · show 50 ≤ 50; decide)
  exact ⟨fuel, st0, ret, p0, e0, p', e', t, st', h1, h2, h3, h4, h6⟩

open TJ.Props.C15Gen TJ.Props.C16Gen in
def geoS : PGeo := { geoP with ud := 0 }

open TJ.Props.C15Gen TJ.Props.C16Gen in
/-- `TJ.Props.C16Gen.init_system_then_history`: `tinyjambu_prng_init` whose source FAILS (delivery with result 0), then generate 40, reseed (source succeeds), feed, generate 50 -/
example : ∃ (fuel : Nat) (st0 : St) (g0 : GS) (st' : St), callFun prog fuel idx_tinyjambu_prng_init true [(mkPtr 0 0, .pub), (mkPtr 2 (0 + 0), .pub), (3, .pub)]
      ⟨memP, [([], 0), (List.replicate 32 5, 32)], []⟩ = .ok .normal #[(0, .pub), (mkPtr 0 0, .pub), (mkPtr 2 (0 + 0), .pub), (3, .pub)] st0 ∧
    PRun geoS st0 [.gen 40, .reseed, .feed [2, 3], .gen 50] st' ∧ GMI geoS sysCb (g0.runOps [.gen 40, .reseed, .feed [2, 3], .gen 50]) st' := by
  obtain ⟨fuel, st0, g0, st', h1, _, _, _, h5, h6⟩ := init_system_then_history geoS rfl ⟨memP, [([], 0), (List.replicate 32 5, 32)], []⟩ (Array.replicate 96 (0, .undef))
    (Array.replicate 64 (0, .undef)) 0 [1, 2, 3] [.gen 40, .reseed, .feed [2, 3], .gen 50] rfl (by simp [geoS, geoP]) (by decide) rfl (by simp [geoS, geoP]) rfl (bytesV_lab _ _ (by decide)) rfl
    (by
      intro op hop
      simp only [List.mem_cons, List.mem_nil_iff, or_false] at hop
      rcases hop with h | h | h | h <;> subst h
      · show 40 ≤ 50; decide
      · trivial
      · exact ⟨1, ⟨by simp [geoS, geoP], fun k b hk => by
          match k, hk with
          | 0, hk => exact ⟨.pub, by simp at hk; subst hk; rfl, by decide⟩
          | 1, hk => exact ⟨.pub, by simp at hk; subst hk; rfl, by decide⟩⟩⟩
      · show 50 ≤ 50; decide)
  exact ⟨fuel, st0, g0, st', h1, h5, h6⟩

open TJ.Props.C15Gen TJ.Props.C16Gen TJ.Props.C18Gen in
/-- `TJ.Props.C18Gen.init_system_history_is_model`: the OS call is interrupted, then fails permanently (`tinyjambu_prng_init` reports 0); later it is asked to try again and
    succeeds (the explicit reseed); the history completes and the object holds the hand model's state computed from the OS outcome script -/
example : ∃ (fuel : Nat) (st0 : St) (p0 : Prng) (e0 : Ent) (p' : Prng) (e' : Ent) (t : List Ev) (N' : Nat) (st' : St),
    Prng.init [1, 2, 3] ⟨[], [.eintr, .err 5, .eagain, .ok (List.replicate 32 5)], 0⟩ = some (0, p0, e0) ∧
    callFun prog fuel idx_tinyjambu_prng_init true [(mkPtr 0 0, .pub), (mkPtr 2 (0 + 0), .pub), (3, .pub)]
      ⟨memP, sysScript [.eintr, .err 5, .eagain, .ok (List.replicate 32 5)] 6, []⟩ = .ok .normal #[(0, .pub), (mkPtr 0 0, .pub), (mkPtr 2 (0 + 0), .pub), (3, .pub)] st0 ∧
    p0.runOps e0 [.gen 40, .reseed, .feed [2, 3], .gen 50] = some (p', e', t) ∧
    PRun geoS st0 [.gen 40, .reseed, .feed [2, 3], .gen 50] st' ∧ GMI geoS sysCb (toGSs p' e' N') st' := by
  obtain ⟨fuel, st0, ret, p0, e0, p', e', t, N', st', h1, h2, h3, h4, h5, h6⟩ := init_system_history_is_model geoS rfl
    ⟨memP, sysScript [.eintr, .err 5, .eagain, .ok (List.replicate 32 5)] 6, []⟩ (Array.replicate 96 (0, .undef))
    (Array.replicate 64 (0, .undef)) 0 [1, 2, 3] [.gen 40, .reseed, .feed [2, 3], .gen 50] ⟨[], [.eintr, .err 5, .eagain, .ok (List.replicate 32 5)], 0⟩ 6
    (by intro b hb; simp at hb; subst hb; simp) (by decide) rfl
    rfl (by simp [geoS, geoP]) (by decide) rfl (by simp [geoS, geoP]) rfl (bytesV_lab _ _ (by decide)) rfl
    (by
      intro op hop
      simp only [List.mem_cons, List.mem_nil_iff, or_false] at hop
      rcases hop with h | h | h | h <;> subst h
      · show 40 ≤ 50; decide
      · trivial
      · exact ⟨1, ⟨by simp [geoS, geoP], fun k b hk => by
          match k, hk with
          | 0, hk => exact ⟨.pub, by simp at hk; subst hk; rfl, by decide⟩
          | 1, hk => exact ⟨.pub, by simp at hk; subst hk; rfl, by decide⟩⟩⟩
      · show 50 ≤ 50; decide)
  have hf : (trngRead [.eintr, .err 5, .eagain, .ok (List.replicate 32 5)] (zeros 32) 0).1 = false := rfl
  have hr : ret = 0 := by
    have hne : ret ≠ 1 := fun h => by have := h2.1 h; rw [hf] at this; exact Bool.noConfusion this
    have : ret = 1 ∨ ret = 0 := by
      simp only [Prng.init, Prng.initUser, Ent.request] at h1
      have := (Prod.mk.inj (Option.some.inj h1)).1
      rw [← this]; split <;> simp
    rcases this with h | h
    · exact absurd h hne
    · exact h
  subst hr
  exact ⟨fuel, st0, p0, e0, p', e', t, N', st', h1, h3, h4, h5, h6⟩

end TJ.Props.NonVacuous
