/-
  C06 — memory safety and the exact buffer contract.

  Model: the program regenerated from /repo's C sources (`TJ.Gen.MiniC.prog`) under the semantics
  `TJ.MiniC.exec`, in which every caller buffer, state object and local array is its own block and

    * any access outside its block        → fault `oob`   (`resolve`)
    * a dereference of NULL / a non-pointer → fault `badptr`
    * a 2/4/8-byte access at an address that is not a multiple of its size → fault `misaligned`
      (addresses carry the alignment the caller gave the buffer)
    * a read of a byte or local that was never written → fault `uninit`
    * a shift by at least the width, a division by zero → faults `shift`, `divzero`.

  So a run that ends `.ok` has executed none of these.  Proved here:

    * `safety_independent_of_contents`: whether a call completes or stops with one of these faults —
      and which one, after which accesses — is the same for ALL contents of the caller's buffers and
      state objects (everything labelled secret) once the public shape (pointers, lengths, counts,
      alignments, labels) is fixed.  The check executes every public function on an exhaustive window
      of length tuples (all block and tail boundaries) and alignments; by this theorem each such
      execution establishes absence of out-of-range, misaligned and uninitialised accesses for that
      shape and EVERY byte content, not just the sampled one.
    * `ok_access_in_bounds`: the meaning of a successful `resolve` (the access lies inside the block
      and is aligned), i.e. what "no fault" gives.
    * the driver (lean/Driver/MiniCMain.lean) gives every output buffer exactly its documented size
      (mlen+8, clen-8, outlen, 32 …) and leaves it undefined, so a write past the documented range is an
      `oob` fault and a documented byte left unwritten is reported; inputs are compared after the call.
  Partial: unbounded in contents, bounded (window) in lengths; the optimised machine code is observed
  with guard pages, ASan/UBSan and valgrind, not proved.
-/
import TJ.Props.C07
namespace TJ.Props.C06
open TJ.MiniC

/-- completion vs. fault (kind and position) of any call of the regenerated library is a function of the
    public shape only -/
theorem safety_independent_of_contents (fuel f : Nat) (hasRet : Bool) (a1 a2 : List LVal) (s1 s2 : St)
    (ha : TJ.Props.C07.ArgsRel a1 a2) (hs : StRel s1 s2) :
    (∀ k l, callFun TJ.Gen.MiniC.prog fuel f hasRet a1 s1 = .fault k l →
            callFun TJ.Gen.MiniC.prog fuel f hasRet a2 s2 = .fault k l) ∧
    (∀ g e t, callFun TJ.Gen.MiniC.prog fuel f hasRet a1 s1 = .ok g e t →
            ∃ g' e' t', callFun TJ.Gen.MiniC.prog fuel f hasRet a2 s2 = .ok g' e' t' ∧ t.leak = t'.leak) := by
  refine ⟨fun k l h => TJ.Props.C07.fault_verdict_independent_of_secrets fuel f hasRet a1 a2 s1 s2 ha hs k l h, ?_⟩
  intro g e t h
  obtain ⟨g', e', t', h2, hl, _⟩ := TJ.Props.C07.completes_for_all_secrets fuel f hasRet a1 a2 s1 s2 ha hs g e t h
  exact ⟨g', e', t', h2, hl⟩

/-- what a successful address resolution means: a real block, the whole access inside it, aligned -/
theorem ok_access_in_bounds (mem : Array Block) (p size b off : Nat) (h : resolve mem p size = .ok (b, off)) :
    ∃ blk, mem[b]? = some blk ∧ off + size ≤ blk.bytes.size ∧ p % ptrBase = blk.base + off ∧
      (size > 1 → (p % ptrBase) % size = 0) := by
  simp only [resolve] at h
  split at h
  · cases h
  · cases hb : mem[p / ptrBase - 1]? with
    | none => rw [hb] at h; cases h
    | some blk =>
      rw [hb] at h
      simp only at h
      split at h
      · cases h
      · split at h
        · cases h
        · rename_i h1 h2
          have hh : p / ptrBase - 1 = b ∧ p % ptrBase - blk.base = off := by
            have := Except.ok.inj h; exact ⟨congrArg Prod.fst this, congrArg Prod.snd this⟩
          obtain ⟨e1, e2⟩ := hh
          subst e1; subst e2
          refine ⟨blk, hb, by omega, by omega, fun hs => ?_⟩
          by_cases hz : p % ptrBase % size = 0
          · exact hz
          · exact absurd ⟨hs, hz⟩ h2

/-- a byte that is read back defined was written (or supplied by the caller): reading a block of
    undefined bytes faults -/
theorem read_of_undefined_faults (bs : Array LByte) (off n : Nat) (v : UInt8) (h : bs[off]? = some (v, Lab.undef)) :
    readLE bs off (n + 1) = none := by
  simp [readLE, h]

/-- non-vacuity: a one-byte over-read is a fault of the semantics, an in-range read is not -/
def oneBlock : St := { mem := #[{ bytes := #[(1, .sec), (2, .sec), (3, .sec)], base := 1 }], ent := [], leak := [] }
example : resolve oneBlock.mem (mkPtr 0 1 + 2) 1 = .ok (0, 2) := rfl
example : resolve oneBlock.mem (mkPtr 0 1 + 3) 1 = .error .oob := rfl
example : resolve oneBlock.mem (mkPtr 0 1 + 1) 2 = .ok (0, 1) := rfl
example : resolve oneBlock.mem (mkPtr 0 1) 2 = .error .misaligned := rfl
example : resolve oneBlock.mem 0 1 = .error .badptr := rfl

end TJ.Props.C06
