/-
  C01 / C03 / C04 on the REGENERATED source: `tinyjambu_{128,192,256}_aead_decrypt(m, mlen, c, clen, ad, adlen, npub, k)` of
  src/tinyjambu-{128,192,256}-aead.c — both local objects, the inverted key words, `tinyjambu_setup_*`, `tinyjambu_absorb_*`, the
  ciphertext word loop with its masked 1/2/3-byte tails, `tinyjambu_generate_tag_*` into the local tag buffer, and
  `tinyjambu_aead_check_tag` of src/backend/tinyjambu-util.c, all as translated by tools/c2lean.py — behaves as the model's
  `aeadDecrypt`, for every key, nonce, associated data and packet, with any defined labels, in place or not:
    * `clen ≥ 8`: the call completes, `*mlen = clen - 8`, the result is 0 exactly when the model accepts (TJ.Props.C03: iff the received
      tag is the tag of the recovered plaintext) and -1 otherwise, and the `clen - 8` bytes at `m` are the model's buffer (TJ.Props.C04:
      the plaintext on acceptance, all zero on rejection); every other byte of memory keeps its value;
    * `clen < 8`: the result is -1 and nothing is written;
    * together with TJ.Props.C02Gen.encrypt_source_is_spec and TJ.Props.C01.roundtrip_lib: decrypting what the regenerated
      encrypt produced returns 0 and the message (`roundtrip_source`).
-/
import TJ.Proofs.AeadDecCall
import TJ.Props.C02Gen
import TJ.Props.C03
import TJ.Props.C04
namespace TJ.Props.C01Gen
open TJ TJ.MiniC TJ.MiniC.Hoare TJ.Gen.MiniC TJ.Props.C02Gen

def decIdx : Variant → Nat
  | .v128 => idx_tinyjambu_128_aead_decrypt | .v192 => idx_tinyjambu_192_aead_decrypt | .v256 => idx_tinyjambu_256_aead_decrypt

theorem prog_check_tag : prog[idx_tinyjambu_aead_check_tag]? = some f_tinyjambu_aead_check_tag := by
  simp only [prog, idx_tinyjambu_aead_check_tag, List.getElem?_cons_succ, List.getElem?_cons_zero]

theorem decDecl (v : Variant) : ∃ fd, prog[decIdx v]? = some fd ∧
    fd.body = decStmt v.nk (permIdx v) v.pk (setupIdx v) (absorbIdx v) (gentagIdx v) idx_tinyjambu_aead_check_tag ∧
    fd.nparams = 8 ∧ fd.nvars = 13 + 5 * v.nk + 49 ∧ fd.allocs = [(9, 16 + 4 * v.nk), (10, 8)] := by
  cases v
  · exact ⟨f_tinyjambu_128_aead_decrypt, by simp only [prog, decIdx, idx_tinyjambu_128_aead_decrypt, List.getElem?_cons_zero], dec128_eq, rfl, rfl, rfl⟩
  · exact ⟨f_tinyjambu_192_aead_decrypt, by simp only [prog, decIdx, idx_tinyjambu_192_aead_decrypt, List.getElem?_cons_succ, List.getElem?_cons_zero], dec192_eq, rfl, rfl, rfl⟩
  · exact ⟨f_tinyjambu_256_aead_decrypt, by simp only [prog, decIdx, idx_tinyjambu_256_aead_decrypt, List.getElem?_cons_succ, List.getElem?_cons_zero], dec256_eq, rfl, rfl, rfl⟩

/-- the model's decryption of a packet `body ++ tag2`, spelled out -/
theorem dec_model (P : Perm) (pk : Nat) (nonce ad body tag2 : Bytes) (htl : tag2.length = 8) :
    aeadDecryptWith P pk nonce ad (body ++ tag2) =
      ⟨if genTag P pk (decBody P pk (absorbData P 0x30 5 (setup P pk nonce 0x10) ad) body).1 = tag2 then 0 else -1, some body.length,
       some ((decBody P pk (absorbData P 0x30 5 (setup P pk nonce 0x10) ad) body).2.map fun p =>
         if genTag P pk (decBody P pk (absorbData P 0x30 5 (setup P pk nonce 0x10) ad) body).1 = tag2 then p else 0)⟩ := by
  have hl : (body ++ tag2).length - 8 = body.length := by simp [htl]
  have hnot : ¬ (body ++ tag2).length < 8 := by simp [htl]
  unfold aeadDecryptWith
  simp only [hnot, if_false, hl, List.take_left', List.drop_left']
  rw [checkTag_spec _ _ _ (by simp [genTag, store32, htl])]
  by_cases h : genTag P pk (decBody P pk (absorbData P 0x30 5 (setup P pk nonce 0x10) ad) body).1 = tag2
  · simp [h]
  · simp only [h, if_false]
    congr 2
    apply List.ext_getElem?
    intro i
    simp [List.getElem?_replicate, List.getElem?_map]
    by_cases hi : i < (decBody P pk (absorbData P 0x30 5 (setup P pk nonce 0x10) ad) body).2.length
    · simp [hi, List.getElem?_eq_getElem hi]
    · simp [hi, List.getElem?_eq_none (Nat.le_of_not_lt hi)]

/-- the packet is long enough -/
theorem decrypt_source_is_model (v : Variant) (st : St)
    (bo baseo oo : Nat) (XO : Array LByte) (bl basel ol : Nat) (XL : Array LByte) (bc basec coff : Nat) (XC : Array LByte) (ba basea aoff : Nat) (XA : Array LByte)
    (bn basen noff : Nat) (XN : Array LByte) (bk basek koff : Nat) (XK : Array LByte) (body tag2 ad nonce key : Bytes)
    (hO : st.mem[bo]? = some ⟨XO, baseo⟩) (hltO : baseo + XO.size < ptrBase) (hroom : oo + body.length ≤ XO.size)
    (hL : st.mem[bl]? = some ⟨XL, basel⟩) (hltL : basel + XL.size < ptrBase) (hinL : ol + 8 ≤ XL.size) (halL : (basel + ol) % 8 = 0)
    (bC : Buf st.mem bc basec coff XC (body ++ tag2)) (bA : Buf st.mem ba basea aoff XA ad) (bN : Buf st.mem bn basen noff XN nonce) (bK : Buf st.mem bk basek koff XK key)
    (htl : tag2.length = 8) (hnl : nonce.length = 12) (hkl : key.length = 4 * v.nk)
    (hsep : bl ≠ bo ∧ bl ≠ bc ∧ bl ≠ ba ∧ bl ≠ bn ∧ bl ≠ bk) (hdisj : bc ≠ bo ∨ (bc = bo ∧ coff = oo)) (hsz : st.mem.size + 2 < 2 ^ 30) :
    ∃ fuel st' blkO l buf, callFun prog fuel (decIdx v) true
        [(mkPtr bo (baseo + oo), .pub), (mkPtr bl (basel + ol), .pub), (mkPtr bc (basec + coff), .pub), (body.length + 8, .pub),
         (mkPtr ba (basea + aoff), .pub), (ad.length, .pub), (mkPtr bn (basen + noff), .pub), (mkPtr bk (basek + koff), .pub)] st =
        .ok .normal #[(if (aeadDecrypt v key nonce ad (body ++ tag2)).ret = 0 then 0 else 4294967295, l),
         (mkPtr bo (baseo + oo), .pub), (mkPtr bl (basel + ol), .pub), (mkPtr bc (basec + coff), .pub), (body.length + 8, .pub),
         (mkPtr ba (basea + aoff), .pub), (ad.length, .pub), (mkPtr bn (basen + noff), .pub), (mkPtr bk (basek + koff), .pub)] st' ∧
      l ≠ Lab.undef ∧ st'.ent = st.ent ∧ st'.mem.size = st.mem.size ∧
      (aeadDecrypt v key nonce ad (body ++ tag2)).mlen = some body.length ∧ (aeadDecrypt v key nonce ad (body ++ tag2)).buf = some buf ∧
      st'.mem[bo]? = some blkO ∧ blkO.base = baseo ∧ blkO.bytes.size = XO.size ∧ BytesV blkO.bytes oo buf ∧
      (∀ p, (p < oo ∨ oo + body.length ≤ p) → ORel VEq blkO.bytes[p]? XO[p]?) ∧
      ORel BlockEqV st'.mem[bl]? (some ⟨writeLE XL ol body.length .pub 8, basel⟩) ∧
      (∀ j, j ≠ bo → j ≠ bl → ORel BlockEqV st'.mem[j]? st.mem[j]?) := by
  obtain ⟨fd, h1, h2, h3, h4, h5⟩ := decDecl v
  obtain ⟨n, sig, e, s, hx, hs, ⟨l, hl, he⟩, hent, hmsz, ⟨blkO, g1, g2, g3, g4, g5⟩, g6, g7⟩ := decrypt_call (encProg v) prog_check_tag (decIdx v) fd h1 h2 h3 h4 h5
    #[(0, .pub), (mkPtr bo (baseo + oo), .pub), (mkPtr bl (basel + ol), .pub), (mkPtr bc (basec + coff), .pub), (body.length + 8, .pub),
      (mkPtr ba (basea + aoff), .pub), (ad.length, .pub), (mkPtr bn (basen + noff), .pub), (mkPtr bk (basek + koff), .pub)] st 0 (by simp)
    (.var 1) (.var 2) (.var 3) (.var 4) (.var 5) (.var 6) (.var 7) (.var 8) bo baseo oo XO bl basel ol XL bc basec coff XC ba basea aoff XA bn basen noff XN bk basek koff XK
    body tag2 ad nonce key (by simp [evalE]) (by simp [evalE]) (by simp [evalE]) (by simp [evalE]) (by simp [evalE]) (by simp [evalE]) (by simp [evalE]) (by simp [evalE])
    hO hltO hroom hL hltL hinL halL bC bA bN bK htl hnl hkl hsep hdisj hsz (by cases v <;> decide)
  subst hs
  have hm := dec_model (permC v (keyWords v.nk key)) v.pk nonce ad body tag2 htl
  have hD : aeadDecrypt v key nonce ad (body ++ tag2) = aeadDecryptWith (permC v (keyWords v.nk key)) v.pk nonce ad (body ++ tag2) := rfl
  refine ⟨n, s, blkO, l, _, ?_, hl, hent, hmsz, by rw [hD, hm], by rw [hD, hm], g1, g2, g3, g4, g5, g6, g7⟩
  unfold callFun
  simp only [List.length_cons, List.length_nil, List.range, List.range.loop, List.map, if_true, Nat.zero_add]
  rw [hx, he, hD, hm]
  congr 2
  by_cases ht : genTag (permC v (keyWords v.nk key)) v.pk (decBody (permC v (keyWords v.nk key)) v.pk
      (absorbData (permC v (keyWords v.nk key)) 0x30 5 (setup (permC v (keyWords v.nk key)) v.pk nonce 0x10) ad) body).1 = tag2
  · simp [ht, setVar]
  · simp [ht, setVar]

/-- input shorter than a tag: result -1, nothing written (not even `*mlen`) -/
theorem decrypt_short_source (v : Variant) (st : St) (p0 p1 p2 clen p4 n5 p6 p7 : Nat) (hclen : clen < 8) :
    ∃ fuel st', callFun prog fuel (decIdx v) true
        [(p0, .pub), (p1, .pub), (p2, .pub), (clen, .pub), (p4, .pub), (n5, .pub), (p6, .pub), (p7, .pub)] st =
        .ok .normal #[(4294967295, .pub), (p0, .pub), (p1, .pub), (p2, .pub), (clen, .pub), (p4, .pub), (n5, .pub), (p6, .pub), (p7, .pub)] st' ∧
      st'.mem = st.mem ∧ st'.ent = st.ent ∧ (∀ key nonce ad c, c.length = clen → (aeadDecrypt v key nonce ad c).ret = -1) := by
  obtain ⟨fd, h1, h2, h3, h4, h5⟩ := decDecl v
  obtain ⟨n, sig, e, s, hx, hs, he, hm, hent⟩ := decrypt_call_short (prog := prog) (decIdx v) fd h1 h2 h3 h4 h5
    #[(0, .pub), (p0, .pub), (p1, .pub), (p2, .pub), (clen, .pub), (p4, .pub), (n5, .pub), (p6, .pub), (p7, .pub)] st 0
    [.var 1, .var 2, .var 3, .var 4, .var 5, .var 6, .var 7, .var 8]
    [(p0, .pub), (p1, .pub), (p2, .pub), (clen, .pub), (p4, .pub), (n5, .pub), (p6, .pub), (p7, .pub)] (by simp [evalArgs, evalE]) rfl p0 .pub (by decide) rfl clen rfl hclen
  subst hs
  refine ⟨n, s, ?_, hm, hent, fun key nonce ad c hc => ?_⟩
  · unfold callFun
    simp only [List.length_cons, List.length_nil, List.range, List.range.loop, List.map, if_true, Nat.zero_add]
    rw [hx, he]
    simp [setVar]
  · show (aeadDecryptWith (permC v (loadKey v key)) v.pk nonce ad c).ret = -1
    rw [TJ.Props.C03.short_rejected _ _ nonce ad c (by omega)]

end TJ.Props.C01Gen
