/-
  C17 — PRNG seeding: truthful status, NULL callback = system source, usable on failure.
  NOT provable here: "later output is not constant after a failed seeding" needs properties of the
  hash; the correspondence runs check consecutive blocks differ.
-/
import TJ.Proofs.Prng
namespace TJ.Props.C17
open TJ

/-- initialisation with a user callback: the status is 1 exactly when the callback returned 32, and
    whatever bytes it wrote (a prefix of the zeroed 32-byte buffer) are in the hashed seed material -/
theorem init_status (d : Delivery) (rest : List Delivery) (sys : List OsOutcome) (oc : Nat) (ud : Bool) (custom : Bytes) :
    Prng.initUser .user ud custom ⟨d :: rest, sys, oc⟩ =
      some (if d.ret = 32 then 1 else 0,
        { V := hashDf 0xFF (writeAt (zeros 32) 0 d.written) custom,
          C := hashDf 0x00 (hashDf 0xFF (writeAt (zeros 32) 0 d.written) custom) [],
          rc := 1, rl := 32, cb := .user, ud := ud, tail := zeros 8 },
        ⟨rest, sys, oc⟩) := by
  simp [Prng.initUser, Ent.request]

/-- reseed: status 1 exactly when the callback returned 32; the new V is derived from the OLD V
    together with the delivered bytes (written over a copy of the old V), never from them alone -/
theorem reseed_status (p : Prng) (hcb : p.cb = .user) (d : Delivery) (rest : List Delivery) (sys : List OsOutcome) (oc : Nat) :
    p.reseed ⟨d :: rest, sys, oc⟩ =
      some (if d.ret = 32 then 1 else 0,
        { p with V := hashDf 0x01 p.V (writeAt p.V 0 d.written),
                 C := hashDf 0x00 (hashDf 0x01 p.V (writeAt p.V 0 d.written)) [], rc := 1 },
        ⟨rest, sys, oc⟩) := by
  simp [Prng.reseed, Ent.request, hcb]

/-- passing no callback selects the system source and behaves exactly like plain initialisation
    (the user_data argument is ignored) -/
theorem null_callback_is_system (ud : Bool) (custom : Bytes) (e : Ent) :
    Prng.initUser .null ud custom e = Prng.init custom e := by
  simp [Prng.init, Prng.initUser]

/-- usable on failure: after ANY initialisation outcome (short, zero or full delivery; any source)
    every later history of operations runs to completion (no call through a NULL callback) and
    produces exactly the requested number of bytes -/
theorem usable_after_any_init (cb : CbKind) (ud : Bool) (custom : Bytes) (e : Ent) (ops : List POp) :
    ∃ st p e1, Prng.initUser cb ud custom e = some (st, p, e1) ∧ (p.runOps e1 ops).isSome := by
  obtain ⟨st, p, e1, hinit, hi, _⟩ := initUser_inv cb ud custom e
  obtain ⟨p', e', t, hr, _, _⟩ := runOps_spec ops p e1 0 hi
  exact ⟨st, p, e1, hinit, by rw [hr]; rfl⟩

theorem generate_exact_length (cb : CbKind) (ud : Bool) (custom : Bytes) (e : Ent) (n : Nat) :
    ∃ st p e1, Prng.initUser cb ud custom e = some (st, p, e1) ∧
      ∃ r, p.generate e1 n = some r ∧ r.out.length = n := by
  obtain ⟨st, p, e1, hinit, hi, _⟩ := initUser_inv cb ud custom e
  obtain ⟨r, hr, _, _, _, _, hlen⟩ := genLoop_spec n p e1 0 hi
  exact ⟨st, p, e1, hinit, r, hr, hlen⟩

/-- a short delivery is reported as failure -/
example (w : Bytes) (custom : Bytes) :
    (Prng.initUser .user true custom ⟨[⟨w, 31⟩], [], 0⟩).map (·.1) = some 0 := by
  rw [init_status]; rfl

end TJ.Props.C17
