/-
  C13 — HKDF is RFC 5869 over TinyJAMBU-HMAC, incremental or not, capped at 8160 bytes.
-/
import TJ.Proofs.Kdf
import TJ.Props.C12
namespace TJ.Props.C13
open TJ

/-- T(b) ‖ … ‖ T(b+k) : one more block at the end -/
theorem hkdfBlocks_snoc (H : Bytes → Bytes) (prk info : Bytes) (b k : Nat) :
    Spec.hkdfBlocks H prk info b (k+1) = Spec.hkdfBlocks H prk info b k ++ Spec.hkdfT H prk info (b+k) := by
  induction k generalizing b with
  | zero => simp [Spec.hkdfBlocks]
  | succ k ih =>
    rw [Spec.hkdfBlocks, ih (b+1), Spec.hkdfBlocks, List.append_assoc]
    congr 3; omega

/-- the two ways of writing T(1) ‖ … ‖ T(n) agree -/
theorem hkdfStream_eq_blocks (H : Bytes → Bytes) (prk info : Bytes) (n : Nat) :
    Spec.hkdfStream H prk info n = Spec.hkdfBlocks H prk info 1 n := by
  induction n with
  | zero => rfl
  | succ n ih => rw [Spec.hkdfStream, ih, hkdfBlocks_snoc]; congr 2; omega

/-- PRK: `hmac salt ikm` is RFC 5869's extract step, an empty salt meaning 32 zero bytes -/
theorem extract_rfc5869 (salt ikm : Bytes) : hmac salt ikm = Spec.hkdfExtract hash salt ikm := by
  unfold Spec.hkdfExtract
  cases salt with
  | nil =>
    have := C12.key_zero_padding [] ikm 32 (by simp)
    simp only [List.nil_append] at this
    simp only [List.isEmpty_nil, if_true]
    rw [← hmac_eq_spec, this]
  | cons x xs => simp only [List.isEmpty_cons, Bool.false_eq_true, if_false]; exact hmac_eq_spec _ _

/-- one-shot: up to 8160 bytes the output is RFC 5869's OKM; beyond that -1 and nothing is written -/
theorem oneshot (n : Nat) (key salt info : Bytes) :
    hkdf n key salt info =
      if n ≤ 8160 then (0, some (Spec.hkdf hash key salt info n)) else (-1, none) := by
  unfold hkdf
  by_cases h : n > 32 * 255
  · have : ¬ n ≤ 8160 := by omega
    simp [h, this]
  · have h' : n ≤ 8160 := by omega
    simp only [h, if_false, h', if_true]
    let st : KState := { prk := zeros 32, out := zeros 32, counter := 0, posn := 0, tail := zeros 6 }
    have hlen : st.out.length = 32 := by simp [st, zeros]
    obtain ⟨g', _, ho, _, _⟩ := expand_spec (st.extract key salt) (hmac salt key) info 0 n (extract_inv st key salt info hlen)
    show (0, some ((st.extract key salt).expand info n).2.1) = _
    rw [ho, remaining_extract st key salt info hlen]
    have hl := hkdfOkm_length (hmac salt key) info
    unfold outSpec
    have : n - (Spec.hkdfOkm hash (hmac salt key) info).length = 0 := by omega
    rw [this]
    unfold Spec.hkdf
    rw [hkdfStream_eq_blocks, ← extract_rfc5869]
    simp [zeros, Spec.hkdfOkm]

/-- a sequence of `expand` calls on one state: results in call order, and the final state -/
def runExpands (st : KState) (info : Bytes) : List Nat → List (Int × Bytes) × KState
  | [] => ([], st)
  | n :: ns =>
    let r := st.expand info n
    let rest := runExpands r.2.2 info ns
    ((r.1, r.2.1) :: rest.1, rest.2)

/-- what the sequence must return when `R` are the real bytes still available: call i gets the next
    `nᵢ` of them, zeros beyond, and -1 iff it asked for more than were left -/
def expectExpands (R : Bytes) : List Nat → List (Int × Bytes)
  | [] => []
  | n :: ns => ((if n ≤ R.length then 0 else -1), outSpec R n) :: expectExpands (R.drop n) ns

theorem runExpands_spec (ns : List Nat) (st : KState) (prk info : Bytes) (g : Nat) (hi : KInv st prk info g) :
    (runExpands st info ns).1 = expectExpands (remaining st prk info g) ns := by
  induction ns generalizing st g with
  | nil => rfl
  | cons n ns ih =>
    obtain ⟨g', hi', ho, hr, hret⟩ := expand_spec st prk info g n hi
    simp only [runExpands, expectExpands]
    rw [ih _ g' hi', hr, ho, hret]

/-- extract followed by ANY sequence of expand sizes (same info): consecutive slices of
    T(1) ‖ … ‖ T(255), zero-filled past byte 8160, -1 exactly for the calls that had to zero-fill;
    prior contents of the state object are irrelevant -/
theorem incremental (prior : KState) (hlen : prior.out.length = 32) (key salt info : Bytes) (ns : List Nat) :
    (runExpands (prior.extract key salt) info ns).1 =
      expectExpands (Spec.hkdfOkm hash (Spec.hkdfExtract hash salt key) info) ns := by
  rw [runExpands_spec ns _ (hmac salt key) info 0 (extract_inv prior key salt info hlen),
    remaining_extract prior key salt info hlen, extract_rfc5869]

/-- while the total stays within what is left, the concatenation of the served pieces is the prefix
    of that length (so any partition equals the one-shot output, and shorter outputs are prefixes) -/
theorem expect_concat (R : Bytes) (ns : List Nat) (h : ns.sum ≤ R.length) :
    ((expectExpands R ns).map (·.2)).flatten = R.take ns.sum ∧ ∀ r ∈ expectExpands R ns, r.1 = 0 := by
  induction ns generalizing R with
  | nil => simp [expectExpands]
  | cons n ns ih =>
    simp only [List.sum_cons] at h
    have hn : n ≤ R.length := by omega
    have := ih (R.drop n) (by simp; omega)
    simp only [expectExpands, List.map_cons, List.flatten_cons, List.sum_cons, this.1]
    constructor
    · unfold outSpec
      have : n - R.length = 0 := by omega
      rw [this]
      simp only [zeros, List.replicate_zero, List.append_nil]
      rw [List.take_add]
    · intro r hr
      simp only [List.mem_cons] at hr
      rcases hr with rfl | hr
      · simp [hn]
      · exact this.2 r hr

/-- once the real bytes are exhausted every further request is refused and zero-filled entirely -/
theorem expect_exhausted (ns : List Nat) : ∀ r ∈ expectExpands [] ns, r = (if r.2.length = 0 then 0 else -1, zeros r.2.length) := by
  induction ns with
  | nil => simp [expectExpands]
  | cons n ns ih =>
    intro r hr
    simp only [expectExpands, List.mem_cons, List.drop_nil] at hr
    rcases hr with rfl | hr
    · simp [outSpec_nil, zeros]
    · exact ih r hr

/-- non-vacuity: the invariant's hypothesis is met by any state of the right shape, e.g. all zeros -/
example (key salt info : Bytes) :
    (runExpands (KState.extract ⟨zeros 32, zeros 32, 0, 0, zeros 6⟩ key salt) info [5, 27, 32, 1]).1 =
      expectExpands (Spec.hkdfOkm hash (Spec.hkdfExtract hash salt key) info) [5, 27, 32, 1] :=
  incremental _ (by simp [zeros]) _ _ _ _

end TJ.Props.C13
