/-
  C07 on the REGENERATED source, for ALL shapes: the functional theorems of TJ.Props.C0xGen / C1xGen conclude `callFun … = .ok …` in the INSTRUMENTED semantics
  `TJ.MiniC.exec`, whose secrecy monitor stops with the fault `taint` as soon as a secret-labelled value reaches a branch condition, an address, a length, a
  shift amount or a divisor.  So each of them also says: for EVERY input shape that meets the API contract (every message, AD, key, password, salt and data
  length, every count and round number, every placement of the buffers, every labelling of the data bytes — all of them may be secret), the run COMPLETES,
  i.e. the monitor never fires.  Together with `TJ.Props.C07.noninterference` (equal leakage traces for inputs that agree on everything public) this is the
  constant-time statement without the restriction to the shapes the check executes, for these entry points and all their callees:
    tinyjambu_{128,192,256}_aead_encrypt / _decrypt, tinyjambu_{128,192,256}_siv_encrypt / _decrypt, tinyjambu_hash, tinyjambu_hmac, tinyjambu_hkdf / _hkdf_extract / _hkdf_expand, tinyjambu_pbkdf2,
    tinyjambu_prng_init_user / _reseed / _generate / _feed / _set_reseed_limit / _free (user entropy callback), tinyjambu_prng_init, tinyjambu_prng_init_user with a NULL
    callback and tinyjambu_prng_generate with the system source (`tinyjambu_prng_system`; the OS shim below it is a primitive of the semantics).
  The streaming entry points tinyjambu_hash_init / _reinit / _update / _finalize and tinyjambu_hmac_init / _reinit / _update / _finalize are covered as top-level calls too (TJ.Props.StreamGen).
  (generated once by a script from the statements of those theorems; checked by Lean like everything else)
-/
import TJ.Props.C02Gen
import TJ.Props.C01Gen
import TJ.Props.C09Gen
import TJ.Props.C08Gen
import TJ.Props.C10Gen
import TJ.Props.C12Gen
import TJ.Props.StreamGen
import TJ.Props.C13Gen
import TJ.Props.C14Gen
import TJ.Props.C15Gen
import TJ.Props.C17Gen
namespace TJ.Props.C07Gen
open TJ TJ.MiniC TJ.MiniC.Hoare TJ.Gen.MiniC

open TJ.Props.C15Gen TJ.Props.C02Gen in
/-- every shape completes under the secrecy monitor (corollary of `TJ.Props.C02Gen.encrypt_source_is_spec`) -/
theorem encrypt_source_is_spec_never_taints (v : Variant) (st : St)
    (bo baseo oo : Nat) (XO : Array LByte) (bl basel ol : Nat) (XL : Array LByte) (bm basem moff : Nat) (XM : Array LByte) (ba basea aoff : Nat) (XA : Array LByte)
    (bn basen noff : Nat) (XN : Array LByte) (bk basek koff : Nat) (XK : Array LByte) (msg ad nonce key : Bytes)
    (hO : st.mem[bo]? = some ⟨XO, baseo⟩) (hltO : baseo + XO.size < ptrBase) (hroom : oo + msg.length + 8 ≤ XO.size)
    (hL : st.mem[bl]? = some ⟨XL, basel⟩) (hltL : basel + XL.size < ptrBase) (hinL : ol + 8 ≤ XL.size) (halL : (basel + ol) % 8 = 0)
    (bM : Buf st.mem bm basem moff XM msg) (bA : Buf st.mem ba basea aoff XA ad) (bN : Buf st.mem bn basen noff XN nonce) (bK : Buf st.mem bk basek koff XK key)
    (hnl : nonce.length = 12) (hkl : key.length = 4 * v.nk)
    (hsep : bl ≠ bo ∧ bl ≠ bm ∧ bl ≠ ba ∧ bl ≠ bn ∧ bl ≠ bk) (hdisj : bm ≠ bo ∨ (bm = bo ∧ moff = oo)) (hsz : st.mem.size + 1 < 2 ^ 30) :
    ∃ fuel sig e st', callFun prog fuel (encIdx v) false
        [(mkPtr bo (baseo + oo), .pub), (mkPtr bl (basel + ol), .pub), (mkPtr bm (basem + moff), .pub), (msg.length, .pub),
         (mkPtr ba (basea + aoff), .pub), (ad.length, .pub), (mkPtr bn (basen + noff), .pub), (mkPtr bk (basek + koff), .pub)] st = .ok sig e st' := by
  obtain ⟨fuel, st', blkO, h, _⟩ := encrypt_source_is_spec v st bo baseo oo XO bl basel ol XL bm basem moff XM ba basea aoff XA bn basen noff XN bk basek koff XK msg ad nonce key hO hltO hroom hL hltL hinL halL bM bA bN bK hnl hkl hsep hdisj hsz
  exact ⟨fuel, _, _, _, h⟩

open TJ.Props.C15Gen TJ.Props.C01Gen in
/-- every shape completes under the secrecy monitor (corollary of `TJ.Props.C01Gen.decrypt_source_is_model`) -/
theorem decrypt_source_is_model_never_taints (v : Variant) (st : St)
    (bo baseo oo : Nat) (XO : Array LByte) (bl basel ol : Nat) (XL : Array LByte) (bc basec coff : Nat) (XC : Array LByte) (ba basea aoff : Nat) (XA : Array LByte)
    (bn basen noff : Nat) (XN : Array LByte) (bk basek koff : Nat) (XK : Array LByte) (body tag2 ad nonce key : Bytes)
    (hO : st.mem[bo]? = some ⟨XO, baseo⟩) (hltO : baseo + XO.size < ptrBase) (hroom : oo + body.length ≤ XO.size)
    (hL : st.mem[bl]? = some ⟨XL, basel⟩) (hltL : basel + XL.size < ptrBase) (hinL : ol + 8 ≤ XL.size) (halL : (basel + ol) % 8 = 0)
    (bC : Buf st.mem bc basec coff XC (body ++ tag2)) (bA : Buf st.mem ba basea aoff XA ad) (bN : Buf st.mem bn basen noff XN nonce) (bK : Buf st.mem bk basek koff XK key)
    (htl : tag2.length = 8) (hnl : nonce.length = 12) (hkl : key.length = 4 * v.nk)
    (hsep : bl ≠ bo ∧ bl ≠ bc ∧ bl ≠ ba ∧ bl ≠ bn ∧ bl ≠ bk) (hdisj : bc ≠ bo ∨ (bc = bo ∧ coff = oo)) (hsz : st.mem.size + 2 < 2 ^ 30) :
    ∃ fuel sig e st', callFun prog fuel (decIdx v) true
        [(mkPtr bo (baseo + oo), .pub), (mkPtr bl (basel + ol), .pub), (mkPtr bc (basec + coff), .pub), (body.length + 8, .pub),
         (mkPtr ba (basea + aoff), .pub), (ad.length, .pub), (mkPtr bn (basen + noff), .pub), (mkPtr bk (basek + koff), .pub)] st = .ok sig e st' := by
  obtain ⟨fuel, st', blkO, l, buf, h, _⟩ := decrypt_source_is_model v st bo baseo oo XO bl basel ol XL bc basec coff XC ba basea aoff XA bn basen noff XN bk basek koff XK body tag2 ad nonce key hO hltO hroom hL hltL hinL halL bC bA bN bK htl hnl hkl hsep hdisj hsz
  exact ⟨fuel, _, _, _, h⟩

open TJ.Props.C15Gen TJ.Props.C01Gen in
/-- every shape completes under the secrecy monitor (corollary of `TJ.Props.C01Gen.decrypt_short_source`) -/
theorem decrypt_short_source_never_taints (v : Variant) (st : St) (p0 p1 p2 clen p4 n5 p6 p7 : Nat) (hclen : clen < 8) :
    ∃ fuel sig e st', callFun prog fuel (decIdx v) true
        [(p0, .pub), (p1, .pub), (p2, .pub), (clen, .pub), (p4, .pub), (n5, .pub), (p6, .pub), (p7, .pub)] st = .ok sig e st' := by
  obtain ⟨fuel, st', h, _⟩ := decrypt_short_source v st p0 p1 p2 clen p4 n5 p6 p7 hclen
  exact ⟨fuel, _, _, _, h⟩

open TJ.Props.C15Gen TJ.Props.C09Gen in
/-- every shape completes under the secrecy monitor (corollary of `TJ.Props.C09Gen.siv_encrypt_source_is_spec`) -/
theorem siv_encrypt_source_is_spec_never_taints (v : Variant) (st : St)
    (bo baseo oo : Nat) (XO : Array LByte) (bl basel ol : Nat) (XL : Array LByte) (bm basem moff : Nat) (XM : Array LByte) (ba basea aoff : Nat) (XA : Array LByte)
    (bn basen noff : Nat) (XN : Array LByte) (bk basek koff : Nat) (XK : Array LByte) (msg ad nonce key : Bytes)
    (hO : st.mem[bo]? = some ⟨XO, baseo⟩) (hltO : baseo + XO.size < ptrBase) (hroom : oo + msg.length + 8 ≤ XO.size)
    (hL : st.mem[bl]? = some ⟨XL, basel⟩) (hltL : basel + XL.size < ptrBase) (hinL : ol + 8 ≤ XL.size) (halL : (basel + ol) % 8 = 0)
    (bM : Buf st.mem bm basem moff XM msg) (bA : Buf st.mem ba basea aoff XA ad) (bN : Buf st.mem bn basen noff XN nonce) (bK : Buf st.mem bk basek koff XK key)
    (hnl : nonce.length = 12) (hkl : key.length = 4 * v.nk)
    (hsep : bl ≠ bo ∧ bl ≠ bm ∧ bl ≠ ba ∧ bl ≠ bn ∧ bl ≠ bk) (hbon : bo ≠ bn) (hdisj : bm ≠ bo ∨ (bm = bo ∧ moff = oo)) (hsz : st.mem.size + 2 < 2 ^ 30) :
    ∃ fuel sig e st', callFun prog fuel (sivEncIdx v) false
        [(mkPtr bo (baseo + oo), .pub), (mkPtr bl (basel + ol), .pub), (mkPtr bm (basem + moff), .pub), (msg.length, .pub),
         (mkPtr ba (basea + aoff), .pub), (ad.length, .pub), (mkPtr bn (basen + noff), .pub), (mkPtr bk (basek + koff), .pub)] st = .ok sig e st' := by
  obtain ⟨fuel, st', blkO, h, _⟩ := siv_encrypt_source_is_spec v st bo baseo oo XO bl basel ol XL bm basem moff XM ba basea aoff XA bn basen noff XN bk basek koff XK msg ad nonce key hO hltO hroom hL hltL hinL halL bM bA bN bK hnl hkl hsep hbon hdisj hsz
  exact ⟨fuel, _, _, _, h⟩

open TJ.Props.C15Gen TJ.Props.C08Gen in
/-- every shape completes under the secrecy monitor (corollary of `TJ.Props.C08Gen.siv_decrypt_source_is_model`) -/
theorem siv_decrypt_source_is_model_never_taints (v : Variant) (st : St)
    (bo baseo oo : Nat) (XO : Array LByte) (bl basel ol : Nat) (XL : Array LByte) (bc basec coff : Nat) (XC : Array LByte) (ba basea aoff : Nat) (XA : Array LByte)
    (bn basen noff : Nat) (XN : Array LByte) (bk basek koff : Nat) (XK : Array LByte) (body tag2 ad nonce key : Bytes)
    (hO : st.mem[bo]? = some ⟨XO, baseo⟩) (hltO : baseo + XO.size < ptrBase) (hroom : oo + body.length ≤ XO.size)
    (hL : st.mem[bl]? = some ⟨XL, basel⟩) (hltL : basel + XL.size < ptrBase) (hinL : ol + 8 ≤ XL.size) (halL : (basel + ol) % 8 = 0)
    (bC : Buf st.mem bc basec coff XC (body ++ tag2)) (bA : Buf st.mem ba basea aoff XA ad) (bN : Buf st.mem bn basen noff XN nonce) (bK : Buf st.mem bk basek koff XK key)
    (htl : tag2.length = 8) (hnl : nonce.length = 12) (hkl : key.length = 4 * v.nk)
    (hsep : bl ≠ bo ∧ bl ≠ bc ∧ bl ≠ ba ∧ bl ≠ bn ∧ bl ≠ bk) (hbon : bo ≠ bn) (hboa : bo ≠ ba) (hdisj : bc ≠ bo ∨ (bc = bo ∧ coff = oo)) (hsz : st.mem.size + 2 < 2 ^ 30) :
    ∃ fuel sig e st', callFun prog fuel (sivDecIdx v) true
        [(mkPtr bo (baseo + oo), .pub), (mkPtr bl (basel + ol), .pub), (mkPtr bc (basec + coff), .pub), (body.length + 8, .pub),
         (mkPtr ba (basea + aoff), .pub), (ad.length, .pub), (mkPtr bn (basen + noff), .pub), (mkPtr bk (basek + koff), .pub)] st = .ok sig e st' := by
  obtain ⟨fuel, st', blkO, l, buf, h, _⟩ := siv_decrypt_source_is_model v st bo baseo oo XO bl basel ol XL bc basec coff XC ba basea aoff XA bn basen noff XN bk basek koff XK body tag2 ad nonce key hO hltO hroom hL hltL hinL halL bC bA bN bK htl hnl hkl hsep hbon hboa hdisj hsz
  exact ⟨fuel, _, _, _, h⟩

open TJ.Props.C15Gen TJ.Props.C08Gen in
/-- every shape completes under the secrecy monitor (corollary of `TJ.Props.C08Gen.siv_decrypt_short_source`) -/
theorem siv_decrypt_short_source_never_taints (v : Variant) (st : St) (p0 p1 p2 clen p4 n5 p6 p7 : Nat) (hclen : clen < 8) :
    ∃ fuel sig e st', callFun prog fuel (sivDecIdx v) true
        [(p0, .pub), (p1, .pub), (p2, .pub), (clen, .pub), (p4, .pub), (n5, .pub), (p6, .pub), (p7, .pub)] st = .ok sig e st' := by
  obtain ⟨fuel, st', h, _⟩ := siv_decrypt_short_source v st p0 p1 p2 clen p4 n5 p6 p7 hclen
  exact ⟨fuel, _, _, _, h⟩

open TJ.Props.C15Gen TJ.Props.C10Gen in
/-- every shape completes under the secrecy monitor (corollary of `TJ.Props.C10Gen.hash_source_is_spec`) -/
theorem hash_source_is_spec_never_taints (st : St) (bo bi : Nat) (XO XI : Array LByte) (baseo basei oo off : Nat) (data : Bytes)
    (hO : st.mem[bo]? = some ⟨XO, baseo⟩) (hI : st.mem[bi]? = some ⟨XI, basei⟩)
    (hltO : baseo + XO.size < ptrBase) (hltI : basei + XI.size < ptrBase) (hinO : oo + 32 ≤ XO.size) (hsz : st.mem.size + 3 < 2 ^ 30)
    (hdata : ∀ k b, data[k]? = some b → ∃ l, XI[off + k]? = some (b, l) ∧ l ≠ Lab.undef) (inb : off + data.length ≤ XI.size) :
    ∃ fuel sig e st', callFun prog fuel idx_tinyjambu_hash false
        [(mkPtr bo (baseo + oo), .pub), (mkPtr bi (basei + off), .pub), (data.length, .pub)] st = .ok sig e st' := by
  obtain ⟨fuel, st', blkO, h, _⟩ := hash_source_is_spec st bo bi XO XI baseo basei oo off data hO hI hltO hltI hinO hsz hdata inb
  exact ⟨fuel, _, _, _, h⟩

open TJ.Props.C15Gen TJ.Props.C12Gen in
/-- every shape completes under the secrecy monitor (corollary of `TJ.Props.C12Gen.hmac_source_is_rfc2104`) -/
theorem hmac_source_is_rfc2104_never_taints (st : St) (bo bk bi : Nat) (XO XK XI : Array LByte) (baseo oo basek koff basei ioff : Nat) (key data : Bytes)
    (hO : st.mem[bo]? = some ⟨XO, baseo⟩) (hK : st.mem[bk]? = some ⟨XK, basek⟩) (hI : st.mem[bi]? = some ⟨XI, basei⟩)
    (hltO : baseo + XO.size < ptrBase) (hltK : basek + XK.size < ptrBase) (hltI : basei + XI.size < ptrBase)
    (hkd : BytesV XK koff key) (hid : BytesV XI ioff data) (hin : oo + 32 ≤ XO.size) (hsz : st.mem.size + 8 < 2 ^ 30) :
    ∃ fuel sig e st', callFun prog fuel idx_tinyjambu_hmac false
        [(mkPtr bo (baseo + oo), .pub), (mkPtr bk (basek + koff), .pub), (key.length, .pub), (mkPtr bi (basei + ioff), .pub), (data.length, .pub)] st = .ok sig e st' := by
  obtain ⟨fuel, st', XO', h, _⟩ := hmac_source_is_rfc2104 st bo bk bi XO XK XI baseo oo basek koff basei ioff key data hO hK hI hltO hltK hltI hkd hid hin hsz
  exact ⟨fuel, _, _, _, h⟩

open TJ.Props.C15Gen TJ.Props.StreamGen in
/-- every shape completes under the secrecy monitor (corollary of `TJ.Props.StreamGen.hash_init_source`) -/
theorem hash_init_source_never_taints (st : St) (bs baseS : Nat) (X : Array LByte) (old : HState)
    (hS : st.mem[bs]? = some ⟨X, baseS⟩) (hXs : 52 ≤ X.size) (hal : baseS % 4 = 0) (hlt : baseS + X.size < ptrBase) (hsz : st.mem.size + 2 < 2 ^ 30) :
    ∃ fuel sig e st', callFun prog fuel idx_tinyjambu_hash_init false [(mkPtr bs baseS, .pub)] st = .ok sig e st' := by
  obtain ⟨fuel, st', X', h, _⟩ := hash_init_source st bs baseS X old hS hXs hal hlt hsz
  exact ⟨fuel, _, _, _, h⟩

open TJ.Props.C15Gen TJ.Props.StreamGen in
/-- every shape completes under the secrecy monitor (corollary of `TJ.Props.StreamGen.hash_reinit_source`) -/
theorem hash_reinit_source_never_taints (st : St) (bs baseS : Nat) (X : Array LByte) (old : HState)
    (hS : st.mem[bs]? = some ⟨X, baseS⟩) (hXs : 52 ≤ X.size) (hal : baseS % 4 = 0) (hlt : baseS + X.size < ptrBase) (hsz : st.mem.size + 2 < 2 ^ 30) :
    ∃ fuel sig e st', callFun prog fuel idx_tinyjambu_hash_reinit false [(mkPtr bs baseS, .pub)] st = .ok sig e st' := by
  obtain ⟨fuel, st', X', h, _⟩ := hash_reinit_source st bs baseS X old hS hXs hal hlt hsz
  exact ⟨fuel, _, _, _, h⟩

open TJ.Props.C15Gen TJ.Props.StreamGen in
/-- every shape completes under the secrecy monitor (corollary of `TJ.Props.StreamGen.hash_update_source`) -/
theorem hash_update_source_never_taints (st : St) (bs bi : Nat) (X XI : Array LByte) (baseS basei off : Nat) (h : HState) (data : Bytes)
    (hS : st.mem[bs]? = some ⟨X, baseS⟩) (hI : st.mem[bi]? = some ⟨XI, basei⟩) (hne : bi ≠ bs)
    (hrep : HObjV X h) (halS : baseS % 4 = 0) (hltS : baseS + X.size < ptrBase) (hltI : basei + XI.size < ptrBase) (hsz : st.mem.size + 2 < 2 ^ 30) (hd : BytesV XI off data) :
    ∃ fuel sig e st', callFun prog fuel idx_tinyjambu_hash_update false [(mkPtr bs baseS, .pub), (mkPtr bi (basei + off), .pub), (data.length, .pub)] st = .ok sig e st' := by
  obtain ⟨fuel, st', blk', h, _⟩ := hash_update_source st bs bi X XI baseS basei off h data hS hI hne hrep halS hltS hltI hsz hd
  exact ⟨fuel, _, _, _, h⟩

open TJ.Props.C15Gen TJ.Props.StreamGen in
/-- every shape completes under the secrecy monitor (corollary of `TJ.Props.StreamGen.hash_finalize_source`) -/
theorem hash_finalize_source_never_taints (st : St) (bs bo : Nat) (X XO : Array LByte) (baseS baseo oo : Nat) (h : HState)
    (hS : st.mem[bs]? = some ⟨X, baseS⟩) (hO : st.mem[bo]? = some ⟨XO, baseo⟩) (hne : bo ≠ bs) (o : HObjV X h)
    (hal : baseS % 4 = 0) (hlt : baseS + X.size < ptrBase) (hltO : baseo + XO.size < ptrBase) (hin : oo + 32 ≤ XO.size) (hsz : st.mem.size + 2 < 2 ^ 30) :
    ∃ fuel sig e st', callFun prog fuel idx_tinyjambu_hash_finalize false [(mkPtr bs baseS, .pub), (mkPtr bo (baseo + oo), .pub)] st = .ok sig e st' := by
  obtain ⟨fuel, st', blkS, blkO, h, _⟩ := hash_finalize_source st bs bo X XO baseS baseo oo h hS hO hne o hal hlt hltO hin hsz
  exact ⟨fuel, _, _, _, h⟩

open TJ.Props.C15Gen TJ.Props.StreamGen in
/-- every shape completes under the secrecy monitor (corollary of `TJ.Props.StreamGen.hmac_init_source`) -/
theorem hmac_init_source_never_taints (st : St) (bs bk : Nat) (X XK : Array LByte) (baseS basek koff : Nat) (h : HState) (key : Bytes)
    (hS : st.mem[bs]? = some ⟨X, baseS⟩) (hK : st.mem[bk]? = some ⟨XK, basek⟩) (hne : bk ≠ bs) (hXs : 52 ≤ X.size) (halS : baseS % 4 = 0)
    (hltS : baseS + X.size < ptrBase) (hltK : basek + XK.size < ptrBase) (hkd : BytesV XK koff key) (hsz : st.mem.size + 3 < 2 ^ 30) :
    ∃ fuel sig e st', callFun prog fuel idx_tinyjambu_hmac_init false [(mkPtr bs baseS, .pub), (mkPtr bk (basek + koff), .pub), (key.length, .pub)] st = .ok sig e st' := by
  obtain ⟨fuel, st', X', h, _⟩ := hmac_init_source st bs bk X XK baseS basek koff h key hS hK hne hXs halS hltS hltK hkd hsz
  exact ⟨fuel, _, _, _, h⟩

open TJ.Props.C15Gen TJ.Props.StreamGen in
/-- every shape completes under the secrecy monitor (corollary of `TJ.Props.StreamGen.hmac_reinit_source`) -/
theorem hmac_reinit_source_never_taints (st : St) (bs bk : Nat) (X XK : Array LByte) (baseS basek koff : Nat) (h : HState) (key : Bytes)
    (hS : st.mem[bs]? = some ⟨X, baseS⟩) (hK : st.mem[bk]? = some ⟨XK, basek⟩) (hne : bk ≠ bs) (hXs : 52 ≤ X.size) (halS : baseS % 4 = 0)
    (hltS : baseS + X.size < ptrBase) (hltK : basek + XK.size < ptrBase) (hkd : BytesV XK koff key) (hsz : st.mem.size + 3 < 2 ^ 30) :
    ∃ fuel sig e st', callFun prog fuel idx_tinyjambu_hmac_reinit false [(mkPtr bs baseS, .pub), (mkPtr bk (basek + koff), .pub), (key.length, .pub)] st = .ok sig e st' := by
  obtain ⟨fuel, st', X', h, _⟩ := hmac_reinit_source st bs bk X XK baseS basek koff h key hS hK hne hXs halS hltS hltK hkd hsz
  exact ⟨fuel, _, _, _, h⟩

open TJ.Props.C15Gen TJ.Props.StreamGen in
/-- every shape completes under the secrecy monitor (corollary of `TJ.Props.StreamGen.hmac_update_source`) -/
theorem hmac_update_source_never_taints (st : St) (bs bi : Nat) (X XI : Array LByte) (baseS basei off : Nat) (h : HState) (data : Bytes)
    (hS : st.mem[bs]? = some ⟨X, baseS⟩) (hI : st.mem[bi]? = some ⟨XI, basei⟩) (hne : bi ≠ bs)
    (hrep : HObjV X h) (halS : baseS % 4 = 0) (hltS : baseS + X.size < ptrBase) (hltI : basei + XI.size < ptrBase) (hsz : st.mem.size + 2 < 2 ^ 30) (hd : BytesV XI off data) :
    ∃ fuel sig e st', callFun prog fuel idx_tinyjambu_hmac_update false [(mkPtr bs baseS, .pub), (mkPtr bi (basei + off), .pub), (data.length, .pub)] st = .ok sig e st' := by
  obtain ⟨fuel, st', X', h, _⟩ := hmac_update_source st bs bi X XI baseS basei off h data hS hI hne hrep halS hltS hltI hsz hd
  exact ⟨fuel, _, _, _, h⟩

open TJ.Props.C15Gen TJ.Props.StreamGen in
/-- every shape completes under the secrecy monitor (corollary of `TJ.Props.StreamGen.hmac_finalize_source`) -/
theorem hmac_finalize_source_never_taints (st : St) (bs bk bo : Nat) (X XK XO : Array LByte) (baseS basek koff baseo oo : Nat) (h : HState) (key : Bytes)
    (hS : st.mem[bs]? = some ⟨X, baseS⟩) (hK : st.mem[bk]? = some ⟨XK, basek⟩) (hO : st.mem[bo]? = some ⟨XO, baseo⟩) (hnk : bk ≠ bs) (hno : bo ≠ bs)
    (hrep : HObjV X h) (halS : baseS % 4 = 0) (hltS : baseS + X.size < ptrBase) (hltK : basek + XK.size < ptrBase) (hltO : baseo + XO.size < ptrBase)
    (hkd : BytesV XK koff key) (hin : oo + 32 ≤ XO.size) (hsz : st.mem.size + 5 < 2 ^ 30) :
    ∃ fuel sig e st', callFun prog fuel idx_tinyjambu_hmac_finalize false
        [(mkPtr bs baseS, .pub), (mkPtr bk (basek + koff), .pub), (key.length, .pub), (mkPtr bo (baseo + oo), .pub)] st = .ok sig e st' := by
  obtain ⟨fuel, st', X', XO', h, _⟩ := hmac_finalize_source st bs bk bo X XK XO baseS basek koff baseo oo h key hS hK hO hnk hno hrep halS hltS hltK hltO hkd hin hsz
  exact ⟨fuel, _, _, _, h⟩

open TJ.Props.C15Gen TJ.Props.C13Gen in
/-- every shape completes under the secrecy monitor (corollary of `TJ.Props.C13Gen.hkdf_source_is_rfc5869`) -/
theorem hkdf_source_is_rfc5869_never_taints (st : St) (bo bk bt : Nat) (XO XK XT : Array LByte) (baseo oo basek koff baset toff n : Nat) (key salt info : Bytes) (pinfo bi basei ioff : Nat)
    (XI : Array LByte) (hn : n ≤ 8160)
    (hO : st.mem[bo]? = some ⟨XO, baseo⟩) (hK : st.mem[bk]? = some ⟨XK, basek⟩) (hT : st.mem[bt]? = some ⟨XT, baset⟩)
    (hltO : baseo + XO.size < ptrBase) (hltK : basek + XK.size < ptrBase) (hltT : baset + XT.size < ptrBase)
    (hkd : BytesV XK koff key) (htd : BytesV XT toff salt) (hin : oo + n ≤ XO.size)
    (hI : info = [] ∨ (st.mem[bi]? = some ⟨XI, basei⟩ ∧ BytesV XI ioff info ∧ pinfo = mkPtr bi (basei + ioff) ∧ bi ≠ bo ∧ basei + XI.size < ptrBase))
    (hsz : st.mem.size + 10 < 2 ^ 30) :
    ∃ fuel sig e st', callFun prog fuel idx_tinyjambu_hkdf true
        [(mkPtr bo (baseo + oo), .pub), (n, .pub), (mkPtr bk (basek + koff), .pub), (key.length, .pub), (mkPtr bt (baset + toff), .pub), (salt.length, .pub),
         (pinfo, .pub), (info.length, .pub)] st = .ok sig e st' := by
  obtain ⟨fuel, st', XO', h, _⟩ := hkdf_source_is_rfc5869 st bo bk bt XO XK XT baseo oo basek koff baset toff n key salt info pinfo bi basei ioff XI hn hO hK hT hltO hltK hltT hkd htd hin hI hsz
  exact ⟨fuel, _, _, _, h⟩

open TJ.Props.C15Gen TJ.Props.C13Gen in
/-- every shape completes under the secrecy monitor (corollary of `TJ.Props.C13Gen.hkdf_source_cap`) -/
theorem hkdf_source_cap_never_taints (st : St) (vo n vk vkl vt vtl vi vil : Nat) (hn : n > 8160) :
    ∃ fuel sig e st', callFun prog fuel idx_tinyjambu_hkdf true [(vo, .pub), (n, .pub), (vk, .pub), (vkl, .pub), (vt, .pub), (vtl, .pub), (vi, .pub), (vil, .pub)] st = .ok sig e st' := by
  obtain ⟨fuel, st', h, _⟩ := hkdf_source_cap st vo n vk vkl vt vtl vi vil hn
  exact ⟨fuel, _, _, _, h⟩

open TJ.Props.C15Gen TJ.Props.C13Gen in
/-- every shape completes under the secrecy monitor (corollary of `TJ.Props.C13Gen.expand_source_is_model`) -/
theorem expand_source_is_model_never_taints (st : St) (bK bo : Nat) (X XO : Array LByte) (baseK baseo oo n : Nat) (k : KState) (od : Prop) (info : Bytes) (pinfo bi basei ioff : Nat) (XI : Array LByte)
    (hK : st.mem[bK]? = some ⟨X, baseK⟩) (ho : KObjV X k od) (hp32 : k.posn.toNat ≤ 32) (hod : (k.counter ≠ 1 ∨ k.posn.toNat < 32) → od)
    (hO : st.mem[bo]? = some ⟨XO, baseo⟩) (hKo : bK ≠ bo) (hltK : baseK + X.size < ptrBase) (hltO : baseo + XO.size < ptrBase) (hin : oo + n ≤ XO.size)
    (hI : info = [] ∨ (st.mem[bi]? = some ⟨XI, basei⟩ ∧ BytesV XI ioff info ∧ pinfo = mkPtr bi (basei + ioff) ∧ bi ≠ bK ∧ bi ≠ bo ∧ basei + XI.size < ptrBase))
    (hsz : st.mem.size + 6 < 2 ^ 30) :
    ∃ fuel sig e st', callFun prog fuel idx_tinyjambu_hkdf_expand true
        [(mkPtr bK baseK, .pub), (pinfo, .pub), (info.length, .pub), (mkPtr bo (baseo + oo), .pub), (n, .pub)] st = .ok sig e st' := by
  obtain ⟨fuel, st', rv, h, _⟩ := expand_source_is_model st bK bo X XO baseK baseo oo n k od info pinfo bi basei ioff XI hK ho hp32 hod hO hKo hltK hltO hin hI hsz
  exact ⟨fuel, _, _, _, h⟩

open TJ.Props.C15Gen TJ.Props.C13Gen in
/-- every shape completes under the secrecy monitor (corollary of `TJ.Props.C13Gen.extract_source_is_model`) -/
theorem extract_source_is_model_never_taints (st : St) (bs bk bt : Nat) (X XK XT : Array LByte) (baseS basek koff baset toff : Nat) (k : KState) (od : Prop) (key salt : Bytes)
    (hS : st.mem[bs]? = some ⟨X, baseS⟩) (hK : st.mem[bk]? = some ⟨XK, basek⟩) (hT : st.mem[bt]? = some ⟨XT, baset⟩) (hnk : bk ≠ bs) (hnt : bt ≠ bs)
    (hXs : 66 ≤ X.size) (hout : od → BytesV X 32 k.out) (houtl : k.out.length = 32)
    (hltS : baseS + X.size < ptrBase) (hltK : basek + XK.size < ptrBase) (hltT : baset + XT.size < ptrBase)
    (hkd : BytesV XK koff key) (htd : BytesV XT toff salt) (hsz : st.mem.size + 9 < 2 ^ 30) :
    ∃ fuel sig e st', callFun prog fuel idx_tinyjambu_hkdf_extract false
        [(mkPtr bs baseS, .pub), (mkPtr bk (basek + koff), .pub), (key.length, .pub), (mkPtr bt (baset + toff), .pub), (salt.length, .pub)] st = .ok sig e st' := by
  obtain ⟨fuel, st', X', h, _⟩ := extract_source_is_model st bs bk bt X XK XT baseS basek koff baset toff k od key salt hS hK hT hnk hnt hXs hout houtl hltS hltK hltT hkd htd hsz
  exact ⟨fuel, _, _, _, h⟩

open TJ.Props.C15Gen TJ.Props.C14Gen in
/-- every shape completes under the secrecy monitor (corollary of `TJ.Props.C14Gen.pbkdf2_source_is_rfc8018`) -/
theorem pbkdf2_source_is_rfc8018_never_taints (st : St) (bo bp bsl : Nat) (XO : Array LByte) (baseo oo n basep poff psz basesl sloff slsz : Nat) (pw salt : Bytes) (count : Nat)
    (hO : st.mem[bo]? = some ⟨XO, baseo⟩) (hP : HasBuf st.mem bp basep poff psz pw) (hSl : HasBuf st.mem bsl basesl sloff slsz salt)
    (hop : bo ≠ bp) (hosl : bo ≠ bsl) (hltO : baseo + XO.size < ptrBase) (hltP : basep + psz < ptrBase) (hltSl : basesl + slsz < ptrBase)
    (hin : oo + n ≤ XO.size) (hc64 : count < 18446744073709551616) (hsz : st.mem.size + 9 < 2 ^ 30) :
    ∃ fuel sig e st', callFun prog fuel idx_tinyjambu_pbkdf2 false
        [(mkPtr bo (baseo + oo), .pub), (n, .pub), (mkPtr bp (basep + poff), .pub), (pw.length, .pub), (mkPtr bsl (basesl + sloff), .pub), (salt.length, .pub), (count, .pub)] st = .ok sig e st' := by
  obtain ⟨fuel, st', XO', h, _⟩ := pbkdf2_source_is_rfc8018 st bo bp bsl XO baseo oo n basep poff psz basesl sloff slsz pw salt count hO hP hSl hop hosl hltO hltP hltSl hin hc64 hsz
  exact ⟨fuel, _, _, _, h⟩

open TJ.Props.C15Gen TJ.Props.C15Gen in
/-- every shape completes under the secrecy monitor (corollary of `TJ.Props.C15Gen.feed_source_is_model`) -/
theorem feed_source_is_model_never_taints (st : St) (bp bi : Nat) (X XI : Array LByte) (baseP basei ioff : Nat) (p : Prng) (data : Bytes)
    (hP : st.mem[bp]? = some ⟨X, baseP⟩) (ho : Holds X p) (hal : baseP % 4 = 0) (hltP : baseP + X.size < ptrBase)
    (hI : st.mem[bi]? = some ⟨XI, basei⟩) (hd : BytesV XI ioff data) (hltI : basei + XI.size < ptrBase) (hne : bi ≠ bp) (hsz : st.mem.size + 5 < 2 ^ 30) :
    ∃ fuel sig e st', callFun prog fuel idx_tinyjambu_prng_feed false [(mkPtr bp baseP, .pub), (mkPtr bi (basei + ioff), .pub), (data.length, .pub)] st = .ok sig e st' := by
  obtain ⟨fuel, st', X', h, _⟩ := feed_source_is_model st bp bi X XI baseP basei ioff p data hP ho hal hltP hI hd hltI hne hsz
  exact ⟨fuel, _, _, _, h⟩

open TJ.Props.C15Gen TJ.Props.C15Gen in
/-- every shape completes under the secrecy monitor (corollary of `TJ.Props.C15Gen.set_limit_source_is_model`) -/
theorem set_limit_source_is_model_never_taints (st : St) (bp : Nat) (X : Array LByte) (baseP limit : Nat) (p : Prng) (hlim : limit < 18446744073709551616)
    (hP : st.mem[bp]? = some ⟨X, baseP⟩) (ho : Holds X p) (hal : baseP % 4 = 0) (hltP : baseP + X.size < ptrBase) (hbp30 : bp < 2 ^ 30) :
    ∃ fuel sig e st', callFun prog fuel idx_tinyjambu_prng_set_reseed_limit false [(mkPtr bp baseP, .pub), (limit, .pub)] st = .ok sig e st' := by
  obtain ⟨fuel, st', h, _⟩ := set_limit_source_is_model st bp X baseP limit p hlim hP ho hal hltP hbp30
  exact ⟨fuel, _, _, _, h⟩

open TJ.Props.C15Gen TJ.Props.C15Gen in
/-- every shape completes under the secrecy monitor (corollary of `TJ.Props.C15Gen.free_source_is_model`) -/
theorem free_source_is_model_never_taints (st : St) (bp : Nat) (blk : Block) (hP : st.mem[bp]? = some blk) (hbase : blk.base = 0) (hsz : blk.bytes.size = 96) :
    ∃ fuel sig e st', callFun prog fuel idx_tinyjambu_prng_free false [(mkPtr bp 0, .pub)] st = .ok sig e st' := by
  obtain ⟨fuel, st', h, _⟩ := free_source_is_model st bp blk hP hbase hsz
  exact ⟨fuel, _, _, _, h⟩

open TJ.Props.C15Gen TJ.Props.C15Gen in
/-- every shape completes under the secrecy monitor (corollary of `TJ.Props.C15Gen.reseed_source_is_model`) -/
theorem reseed_source_is_model_never_taints (st : St) (bp : Nat) (X : Array LByte) (baseP ud : Nat) (p : Prng) (e : Ent) (hcb : p.cb = .user) (hs : Small e) (hV : p.V.length = 32)
    (hP : st.mem[bp]? = some ⟨X, baseP⟩) (ho : Holds X p) (hpcb : PCb X ud) (hent : st.ent = script e) (hal : baseP % 8 = 0) (hltP : baseP + X.size < ptrBase)
    (hsz : st.mem.size + 5 < 2 ^ 30) :
    ∃ fuel sig e st', callFun prog fuel idx_tinyjambu_prng_reseed true [(mkPtr bp baseP, .pub)] st = .ok sig e st' := by
  obtain ⟨fuel, st', ret, p', e', X', _, h, _⟩ := reseed_source_is_model st bp X baseP ud p e hcb hs hV hP ho hpcb hent hal hltP hsz
  exact ⟨fuel, _, _, _, h⟩

open TJ.Props.C15Gen TJ.Props.C15Gen in
/-- every shape completes under the secrecy monitor (corollary of `TJ.Props.C15Gen.generate_source_is_model`) -/
theorem generate_source_is_model_never_taints (st : St) (bp bd : Nat) (Xp XD : Array LByte) (baseP based doff n ud : Nat) (p : Prng) (e : Ent)
    (hcb : p.cb = .user) (hs : Small e) (hsh : C15.Shape p)
    (hP : st.mem[bp]? = some ⟨Xp, baseP⟩) (ho : Holds Xp p) (hpcb : PCb Xp ud) (hent : st.ent = script e)
    (hD : st.mem[bd]? = some ⟨XD, based⟩) (hpd : bp ≠ bd) (hal : baseP % 8 = 0) (hltP : baseP + Xp.size < ptrBase) (hltD : based + XD.size < ptrBase)
    (hin : doff + n ≤ XD.size) (hsz : st.mem.size + 7 < 2 ^ 30) :
    ∃ fuel sig e st', callFun prog fuel idx_tinyjambu_prng_generate false [(mkPtr bp baseP, .pub), (mkPtr bd (based + doff), .pub), (n, .pub)] st = .ok sig e st' := by
  obtain ⟨fuel, st', r, Xp', XD', _, h, _⟩ := generate_source_is_model st bp bd Xp XD baseP based doff n ud p e hcb hs hsh hP ho hpcb hent hD hpd hal hltP hltD hin hsz
  exact ⟨fuel, _, _, _, h⟩

open TJ.Props.C15Gen TJ.Props.C15Gen in
/-- every shape completes under the secrecy monitor (corollary of `TJ.Props.C15Gen.generate_source_system`) -/
theorem generate_source_system_never_taints (st : St) (bp bd : Nat) (Xp XD : Array LByte) (baseP based doff n ud : Nat) (g : GS)
    (hP : st.mem[bp]? = some ⟨Xp, baseP⟩) (ho : PObjV Xp g.V g.C g.rc g.rl) (hpcb : PCb Xp ud sysCb) (hent : st.ent = g.ent)
    (hD : st.mem[bd]? = some ⟨XD, based⟩) (hpd : bp ≠ bd) (hal : baseP % 8 = 0) (hltP : baseP + Xp.size < ptrBase) (hltD : based + XD.size < ptrBase)
    (hin : doff + n ≤ XD.size) (hsz : st.mem.size + 7 < 2 ^ 30) :
    ∃ fuel sig e st', callFun prog fuel idx_tinyjambu_prng_generate false [(mkPtr bp baseP, .pub), (mkPtr bd (based + doff), .pub), (n, .pub)] st = .ok sig e st' := by
  obtain ⟨fuel, st', Xp', XD', h, _⟩ := generate_source_system st bp bd Xp XD baseP based doff n ud g hP ho hpcb hent hD hpd hal hltP hltD hin hsz
  exact ⟨fuel, _, _, _, h⟩

open TJ.Props.C15Gen TJ.Props.C17Gen in
/-- every shape completes under the secrecy monitor (corollary of `TJ.Props.C17Gen.init_user_source_is_model`) -/
theorem init_user_source_is_model_never_taints (st : St) (bp bi : Nat) (X XI : Array LByte) (baseP basei ioff ud : Nat) (custom : Bytes) (e : Ent) (udb : Bool)
    (hs : Small e) (hent : st.ent = script e)
    (hP : st.mem[bp]? = some ⟨X, baseP⟩) (hXs : 96 ≤ X.size) (hal : baseP % 8 = 0) (hltP : baseP + X.size < ptrBase) (hud : ud < 18446744073709551616)
    (hI : st.mem[bi]? = some ⟨XI, basei⟩) (hd : BytesV XI ioff custom) (hltI : basei + XI.size < ptrBase) (hne : bi ≠ bp) (hsz : st.mem.size + 5 < 2 ^ 30) :
    ∃ fuel sig e st', callFun prog fuel idx_tinyjambu_prng_init_user true
        [(mkPtr bp baseP, .pub), (userCb, .pub), (ud, .pub), (mkPtr bi (basei + ioff), .pub), (custom.length, .pub)] st = .ok sig e st' := by
  obtain ⟨fuel, st', ret, p', e', X', _, h, _⟩ := init_user_source_is_model st bp bi X XI baseP basei ioff ud custom e udb hs hent hP hXs hal hltP hud hI hd hltI hne hsz
  exact ⟨fuel, _, _, _, h⟩

open TJ.Props.C15Gen TJ.Props.C17Gen in
/-- every shape completes under the secrecy monitor (corollary of `TJ.Props.C17Gen.init_source`) -/
theorem init_source_never_taints (st : St) (bp bi : Nat) (X XI : Array LByte) (baseP basei ioff : Nat) (custom : Bytes)
    (hP : st.mem[bp]? = some ⟨X, baseP⟩) (hXs : 96 ≤ X.size) (hal : baseP % 8 = 0) (hltP : baseP + X.size < ptrBase)
    (hI : st.mem[bi]? = some ⟨XI, basei⟩) (hd : BytesV XI ioff custom) (hltI : basei + XI.size < ptrBase) (hne : bi ≠ bp) (hsz : st.mem.size + 5 < 2 ^ 30) :
    ∃ fuel sig e st', callFun prog fuel idx_tinyjambu_prng_init true [(mkPtr bp baseP, .pub), (mkPtr bi (basei + ioff), .pub), (custom.length, .pub)] st = .ok sig e st' := by
  obtain ⟨fuel, st', h, _⟩ := init_source st bp bi X XI baseP basei ioff custom hP hXs hal hltP hI hd hltI hne hsz
  exact ⟨fuel, _, _, _, h⟩

open TJ.Props.C15Gen TJ.Props.C17Gen in
/-- every shape completes under the secrecy monitor (corollary of `TJ.Props.C17Gen.init_user_null_source`) -/
theorem init_user_null_source_never_taints (st : St) (bp bi : Nat) (X XI : Array LByte) (baseP basei ioff ud : Nat) (custom : Bytes)
    (hP : st.mem[bp]? = some ⟨X, baseP⟩) (hXs : 96 ≤ X.size) (hal : baseP % 8 = 0) (hltP : baseP + X.size < ptrBase) (hud : ud < 18446744073709551616)
    (hI : st.mem[bi]? = some ⟨XI, basei⟩) (hd : BytesV XI ioff custom) (hltI : basei + XI.size < ptrBase) (hne : bi ≠ bp) (hsz : st.mem.size + 5 < 2 ^ 30) :
    ∃ fuel sig e st', callFun prog fuel idx_tinyjambu_prng_init_user true
        [(mkPtr bp baseP, .pub), (0, .pub), (ud, .pub), (mkPtr bi (basei + ioff), .pub), (custom.length, .pub)] st = .ok sig e st' := by
  obtain ⟨fuel, st', h, _⟩ := init_user_null_source st bp bi X XI baseP basei ioff ud custom hP hXs hal hltP hud hI hd hltI hne hsz
  exact ⟨fuel, _, _, _, h⟩

end TJ.Props.C07Gen
