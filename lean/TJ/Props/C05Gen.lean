/-
  C05 / C02 on the REGENERATED source: `tinyjambu_permutation_128`, `_192` and `_256`
  (src/backend/tinyjambu-{128,192,256}-c32.c, translated by tools/c2lean.py into TJ.Gen.MiniC.Prog) compute
  exactly the word-level models `TJ.perm128` / `TJ.perm192` / `TJ.perm256`, which TJ.Props.C05.c_backend_is_spec /
  TJ.Props.C02.permutation_is_nlfsr equate with the specification's bit-serial StateUpdate.

  For every state, every key, every round count below 2^32 (0 and odd counts included), wherever the state object
  lies (any block, any 4-aligned base):
    * the call returns normally to an unchanged caller environment;
    * the four state words of the object hold `perm128 key rounds s` (`perm256 key rounds s`) afterwards;
    * the key words, every other byte of the object, and every other block of memory are unchanged.
  A shift amount, operand rotation, key index, loop bound, early exit or store offset that differs from the model
  makes this file (or TJ.Proofs.PermC / PermCBody / PermC192) stop compiling.
-/
import TJ.Proofs.PermCBody
import TJ.Proofs.PermC192
import TJ.Proofs.SpecTop
namespace TJ.Props.C05Gen
open TJ TJ.MiniC TJ.MiniC.PermC TJ.Gen.MiniC

/-- a TinyJAMBU state object in memory (bytes of its block, base offset of the block): state words `s` at
    offsets 0..12, `nk` pre-inverted key words from offset 16 on -/
structure StateObj (nk : Nat) (bytes : Array LByte) (base : Nat) (s : W4) (key : Key) : Prop where
  al : base % 4 = 0
  lt : base + bytes.size < ptrBase
  sz : 16 + 4 * nk ≤ bytes.size
  s0 : readLE bytes 0 4 = some (s.a.toNat, Lab.sec)
  s1 : readLE bytes 4 4 = some (s.b.toNat, Lab.sec)
  s2 : readLE bytes 8 4 = some (s.c.toNat, Lab.sec)
  s3 : readLE bytes 12 4 = some (s.d.toNat, Lab.sec)
  keys : ∀ i, i < nk → readLE bytes (16 + 4 * i) 4 = some ((kw key i).toNat, Lab.sec)

theorem prog_perm128 : prog[idx_tinyjambu_permutation_128]? = some f_tinyjambu_permutation_128 := by
  simp only [prog, idx_tinyjambu_permutation_128, List.getElem?_cons_succ, List.getElem?_cons_zero]
theorem prog_perm256 : prog[idx_tinyjambu_permutation_256]? = some f_tinyjambu_permutation_256 := by
  simp only [prog, idx_tinyjambu_permutation_256, List.getElem?_cons_succ, List.getElem?_cons_zero]

/-- the shared part: a function with body `bodyG o`, called on a state object whose second-round key words lie at `o` -/
theorem call_generic (fn : Nat) (fd : FunDecl) (o : Nat) (hprog : prog[fn]? = some fd) (hbody : fd.body = bodyG o)
    (hp : fd.nparams = 2) (hv : fd.nvars = 26) (ha : fd.allocs = [])
    (m : Nat) (st : St) (bs : Nat) (blk : Block) (s P : W4) (K0 K1 K2 K3 K4 K5 K6 K7 : UInt32) (r : Nat)
    (hr : r < 4294967296) (km : KM st bs blk o K0.toNat K1.toNat K2.toNat K3.toNat K4.toNat K5.toNat K6.toNat K7.toNat)
    (s0 : readLE blk.bytes 0 4 = some (s.a.toNat, Lab.sec)) (s1 : readLE blk.bytes 4 4 = some (s.b.toNat, Lab.sec))
    (s2 : readLE blk.bytes 8 4 = some (s.c.toNat, Lab.sec)) (s3 : readLE blk.bytes 12 4 = some (s.d.toNat, Lab.sec))
    (hP : permNG K0.toNat K1.toNat K2.toNat K3.toNat K4.toNat K5.toNat K6.toNat K7.toNat r (toN s) = toN P) :
    ∃ leak' bytes',
      callFun prog (m + r + 24) fn false [(mkPtr bs blk.base, .pub), (r, .pub)] st =
        .ok .normal #[(0, .pub), (mkPtr bs blk.base, .pub), (r, .pub)] { st with leak := leak', mem := setBlock st.mem bs bytes' } ∧
      bytes'.size = blk.bytes.size ∧
      readLE bytes' 0 4 = some (P.a.toNat, Lab.sec) ∧ readLE bytes' 4 4 = some (P.b.toNat, Lab.sec) ∧
      readLE bytes' 8 4 = some (P.c.toNat, Lab.sec) ∧ readLE bytes' 12 4 = some (P.d.toNat, Lab.sec) ∧
      (∀ j, 16 ≤ j → bytes'[j]? = blk.bytes[j]?) := by
  obtain ⟨leak', h⟩ := permG_call prog fn fd o hprog hbody hp hv ha (fun i => i) (fun _ => rfl) m
    #[(0, .pub), (mkPtr bs blk.base, .pub), (r, .pub)] st (.var 1) (.var 2) r s.a.toNat s.b.toNat s.c.toNat s.d.toNat
    _ _ _ _ _ _ _ _ bs blk hr km (by simp [evalE]) (by simp [evalE]) s0 s1 s2 s3
  simp only [toN] at hP
  simp only [hP] at h
  have h16 : 16 ≤ blk.bytes.size := Nat.le_trans (by decide) km.sz
  have hcall : callFun prog (m + r + 24) fn false [(mkPtr bs blk.base, .pub), (r, .pub)] st =
      .ok .normal #[(0, .pub), (mkPtr bs blk.base, .pub), (r, .pub)] { st with leak := leak', mem := setBlock st.mem bs (bytesAfter blk.bytes P.a.toNat P.b.toNat P.c.toNat P.d.toNat) } := by
    unfold callFun
    simp only [List.length_cons, List.length_nil, List.range, List.range.loop, List.map, Bool.false_eq_true, if_false, Nat.zero_add]
    exact h
  exact ⟨leak', bytesAfter blk.bytes P.a.toNat P.b.toNat P.c.toNat P.d.toNat, hcall, size_bytesAfter _ _ _ _ _,
    bytesAfter_w0 blk.bytes _ _ _ _ (UInt32.toNat_lt _) h16, bytesAfter_w1 blk.bytes _ _ _ _ (UInt32.toNat_lt _) h16,
    bytesAfter_w2 blk.bytes _ _ _ _ (UInt32.toNat_lt _) h16, bytesAfter_w3 blk.bytes _ _ _ _ (UInt32.toNat_lt _) h16,
    fun j hj => bytesAfter_out _ _ _ _ _ j hj⟩

/-- the object after the call is again a state object, with the same key -/
theorem StateObj.after {nk : Nat} {bytes bytes' : Array LByte} {base : Nat} {s P : W4} {key : Key} (obj : StateObj nk bytes base s key)
    (hsz : bytes'.size = bytes.size)
    (p0 : readLE bytes' 0 4 = some (P.a.toNat, Lab.sec)) (p1 : readLE bytes' 4 4 = some (P.b.toNat, Lab.sec))
    (p2 : readLE bytes' 8 4 = some (P.c.toNat, Lab.sec)) (p3 : readLE bytes' 12 4 = some (P.d.toNat, Lab.sec))
    (hout : ∀ j, 16 ≤ j → bytes'[j]? = bytes[j]?) : StateObj nk bytes' base P key :=
  ⟨obj.al, by rw [hsz]; exact obj.lt, by rw [hsz]; exact obj.sz, p0, p1, p2, p3,
    fun i hi => (readLE_congr _ _ 4 _ (fun j h1 _ => hout j (Nat.le_trans (Nat.le_add_right 16 _) h1))).trans (obj.keys i hi)⟩

theorem permutation_128_source_is_model (m : Nat) (st : St) (bs : Nat) (blk : Block) (s : W4) (key : Key) (r : Nat)
    (hr : r < 4294967296) (hb : st.mem[bs]? = some blk) (hbb : bs < 2 ^ 30) (obj : StateObj 4 blk.bytes blk.base s key) :
    ∃ leak' bytes',
      callFun prog (m + r + 24) idx_tinyjambu_permutation_128 false [(mkPtr bs blk.base, .pub), (r, .pub)] st =
        .ok .normal #[(0, .pub), (mkPtr bs blk.base, .pub), (r, .pub)] { st with leak := leak', mem := setBlock st.mem bs bytes' } ∧
      StateObj 4 bytes' blk.base (perm128 key r s) key ∧
      (∀ j, 16 ≤ j → bytes'[j]? = blk.bytes[j]?) := by
  have hsz := obj.sz
  have km : KM st bs blk 16 (kw key 0).toNat (kw key 1).toNat (kw key 2).toNat (kw key 3).toNat (kw key 0).toNat (kw key 1).toNat (kw key 2).toNat (kw key 3).toNat :=
    ⟨hb, obj.al, obj.lt, hbb, by omega, by decide, by omega, obj.keys 0 (by decide), obj.keys 1 (by decide), obj.keys 2 (by decide), obj.keys 3 (by decide),
      obj.keys 0 (by decide), obj.keys 1 (by decide), obj.keys 2 (by decide), obj.keys 3 (by decide)⟩
  obtain ⟨leak', bytes', hcall, hsz', p0, p1, p2, p3, hout⟩ := call_generic idx_tinyjambu_permutation_128 f_tinyjambu_permutation_128 16 prog_perm128
    body128_eq rfl rfl rfl m st bs blk s (perm128 key r s) _ _ _ _ _ _ _ _ r hr km obj.s0 obj.s1 obj.s2 obj.s3 (permNG_eq128 key r s)
  exact ⟨leak', bytes', hcall, obj.after hsz' p0 p1 p2 p3 hout, hout⟩

theorem permutation_256_source_is_model (m : Nat) (st : St) (bs : Nat) (blk : Block) (s : W4) (key : Key) (r : Nat)
    (hr : r < 4294967296) (hb : st.mem[bs]? = some blk) (hbb : bs < 2 ^ 30) (obj : StateObj 8 blk.bytes blk.base s key) :
    ∃ leak' bytes',
      callFun prog (m + r + 24) idx_tinyjambu_permutation_256 false [(mkPtr bs blk.base, .pub), (r, .pub)] st =
        .ok .normal #[(0, .pub), (mkPtr bs blk.base, .pub), (r, .pub)] { st with leak := leak', mem := setBlock st.mem bs bytes' } ∧
      StateObj 8 bytes' blk.base (perm256 key r s) key ∧
      (∀ j, 16 ≤ j → bytes'[j]? = blk.bytes[j]?) := by
  have hsz := obj.sz
  have km : KM st bs blk 32 (kw key 0).toNat (kw key 1).toNat (kw key 2).toNat (kw key 3).toNat (kw key 4).toNat (kw key 5).toNat (kw key 6).toNat (kw key 7).toNat :=
    ⟨hb, obj.al, obj.lt, hbb, by omega, by decide, by omega, obj.keys 0 (by decide), obj.keys 1 (by decide), obj.keys 2 (by decide), obj.keys 3 (by decide),
      obj.keys 4 (by decide), obj.keys 5 (by decide), obj.keys 6 (by decide), obj.keys 7 (by decide)⟩
  obtain ⟨leak', bytes', hcall, hsz', p0, p1, p2, p3, hout⟩ := call_generic idx_tinyjambu_permutation_256 f_tinyjambu_permutation_256 32 prog_perm256
    body256_eq rfl rfl rfl m st bs blk s (perm256 key r s) _ _ _ _ _ _ _ _ r hr km obj.s0 obj.s1 obj.s2 obj.s3 (permNG_eq256 key r s)
  exact ⟨leak', bytes', hcall, obj.after hsz' p0 p1 p2 p3 hout, hout⟩

theorem prog_perm192 : prog[idx_tinyjambu_permutation_192]? = some f_tinyjambu_permutation_192 := by
  simp only [prog, idx_tinyjambu_permutation_192, List.getElem?_cons_succ, List.getElem?_cons_zero]

theorem permutation_192_source_is_model (m : Nat) (st : St) (bs : Nat) (blk : Block) (s : W4) (key : Key) (r : Nat)
    (hr : r < 4294967296) (hb : st.mem[bs]? = some blk) (hbb : bs < 2 ^ 30) (obj : StateObj 6 blk.bytes blk.base s key) :
    ∃ leak' bytes',
      callFun prog (m + r + 28) idx_tinyjambu_permutation_192 false [(mkPtr bs blk.base, .pub), (r, .pub)] st =
        .ok .normal #[(0, .pub), (mkPtr bs blk.base, .pub), (r, .pub)] { st with leak := leak', mem := setBlock st.mem bs bytes' } ∧
      StateObj 6 bytes' blk.base (perm192 key r s) key ∧
      (∀ j, 16 ≤ j → bytes'[j]? = blk.bytes[j]?) := by
  have hsz := obj.sz
  have km : KM192 st bs blk (kw key 0).toNat (kw key 1).toNat (kw key 2).toNat (kw key 3).toNat (kw key 4).toNat (kw key 5).toNat :=
    ⟨hb, obj.al, obj.lt, hbb, by omega, obj.keys 0 (by decide), obj.keys 1 (by decide), obj.keys 2 (by decide), obj.keys 3 (by decide),
      obj.keys 4 (by decide), obj.keys 5 (by decide)⟩
  obtain ⟨leak', h⟩ := perm192_call prog idx_tinyjambu_permutation_192 prog_perm192 (fun i => i) (fun _ => rfl) m
    #[(0, .pub), (mkPtr bs blk.base, .pub), (r, .pub)] st (.var 1) (.var 2) r s.a.toNat s.b.toNat s.c.toNat s.d.toNat
    _ _ _ _ _ _ bs blk hr km (by simp [evalE]) (by simp [evalE]) obj.s0 obj.s1 obj.s2 obj.s3
  have hP := permN192_eq key r s
  simp only [toN] at hP
  simp only [hP] at h
  have h16 : 16 ≤ blk.bytes.size := Nat.le_trans (by decide) obj.sz
  have hcall : callFun prog (m + r + 28) idx_tinyjambu_permutation_192 false [(mkPtr bs blk.base, .pub), (r, .pub)] st =
      .ok .normal #[(0, .pub), (mkPtr bs blk.base, .pub), (r, .pub)] { st with leak := leak', mem := (setBlock st.mem bs
        (bytesAfter blk.bytes (perm192 key r s).a.toNat (perm192 key r s).b.toNat (perm192 key r s).c.toNat (perm192 key r s).d.toNat)) } := by
    unfold callFun
    simp only [List.length_cons, List.length_nil, List.range, List.range.loop, List.map, Bool.false_eq_true, if_false, Nat.zero_add]
    exact h
  have hout : ∀ j, 16 ≤ j → (bytesAfter blk.bytes (perm192 key r s).a.toNat (perm192 key r s).b.toNat (perm192 key r s).c.toNat (perm192 key r s).d.toNat)[j]? = blk.bytes[j]? :=
    fun j hj => bytesAfter_out _ _ _ _ _ j hj
  exact ⟨leak', _, hcall, obj.after (size_bytesAfter _ _ _ _ _)
    (bytesAfter_w0 blk.bytes _ _ _ _ (UInt32.toNat_lt _) h16) (bytesAfter_w1 blk.bytes _ _ _ _ (UInt32.toNat_lt _) h16)
    (bytesAfter_w2 blk.bytes _ _ _ _ (UInt32.toNat_lt _) h16) (bytesAfter_w3 blk.bytes _ _ _ _ (UInt32.toNat_lt _) h16) hout, hout⟩

/-- with TJ.Props.C05.c_backend_is_spec: the words the regenerated C functions leave are the specification's
    StateUpdate applied 128·rounds times -/
theorem model_is_spec (v : Variant) (key : Bytes) (rounds : Nat) (s : W4) :
    pack (permC v (loadKey v key) rounds s) = Spec.keyed v.params key (pack s) (128 * rounds) :=
  permC_keyed v key rounds s

/-- non-vacuity: a concrete memory holding a state object (at a base that is 4-aligned but not 8-aligned) -/
def demoBlk : Block := { bytes := (List.replicate 48 ((0x5A : UInt8), Lab.sec)).toArray, base := 4 }

example : StateObj 8 demoBlk.bytes demoBlk.base ⟨0x5A5A5A5A, 0x5A5A5A5A, 0x5A5A5A5A, 0x5A5A5A5A⟩
    [0x5A5A5A5A, 0x5A5A5A5A, 0x5A5A5A5A, 0x5A5A5A5A, 0x5A5A5A5A, 0x5A5A5A5A, 0x5A5A5A5A, 0x5A5A5A5A] :=
  ⟨by decide, by decide, by decide, by decide, by decide, by decide, by decide, by decide⟩

end TJ.Props.C05Gen
