/-
  C05 / C02 on the REGENERATED source: `tinyjambu_permutation_128` (src/tinyjambu/backend/tinyjambu-128-c32.c,
  translated by tools/c2lean.py into TJ.Gen.MiniC.Prog) computes exactly the word-level model `TJ.perm128`, which
  TJ.Props.C05.c_backend_is_spec / TJ.Props.C02.permutation_is_nlfsr equate with the specification's bit-serial
  StateUpdate.

  For every state, every key, every round count below 2^32 (0 and odd counts included), wherever the state object
  lies (any block, any 4-aligned base):
    * the call returns normally to an unchanged caller environment;
    * the four state words of the object hold `perm128 key rounds s` afterwards;
    * the key words, every other byte of the object, and every other block of memory are unchanged.
  A shift amount, operand rotation, key index, loop bound, early exit or store offset that differs from the model
  makes this file (or TJ.Proofs.PermC / PermC128) stop compiling.
-/
import TJ.Proofs.PermC128
import TJ.Proofs.SpecTop
namespace TJ.Props.C05Gen
open TJ TJ.MiniC TJ.MiniC.PermC TJ.Gen.MiniC

/-- a TinyJAMBU-128 state object in memory (bytes of its block, base offset of the block): state words `s` at
    offsets 0..12, pre-inverted key words at 16..28 -/
structure StateObj (bytes : Array LByte) (base : Nat) (s : W4) (key : Key) : Prop where
  al : base % 4 = 0
  lt : base + 32 < ptrBase
  sz : 32 ≤ bytes.size
  s0 : readLE bytes 0 4 = some (s.a.toNat, Lab.sec)
  s1 : readLE bytes 4 4 = some (s.b.toNat, Lab.sec)
  s2 : readLE bytes 8 4 = some (s.c.toNat, Lab.sec)
  s3 : readLE bytes 12 4 = some (s.d.toNat, Lab.sec)
  k0 : readLE bytes 16 4 = some ((kw key 0).toNat, Lab.sec)
  k1 : readLE bytes 20 4 = some ((kw key 1).toNat, Lab.sec)
  k2 : readLE bytes 24 4 = some ((kw key 2).toNat, Lab.sec)
  k3 : readLE bytes 28 4 = some ((kw key 3).toNat, Lab.sec)

theorem prog_perm128 : prog[idx_tinyjambu_permutation_128]? = some f_tinyjambu_permutation_128 := by
  simp only [prog, idx_tinyjambu_permutation_128, List.getElem?_cons_succ, List.getElem?_cons_zero]

theorem permutation_128_source_is_model (m : Nat) (st : St) (bs : Nat) (blk : Block) (s : W4) (key : Key) (r : Nat)
    (hr : r < 4294967296) (hb : st.mem[bs]? = some blk) (hbb : bs < 2 ^ 30) (obj : StateObj blk.bytes blk.base s key) :
    ∃ leak' bytes',
      callFun prog (m + r + 24) idx_tinyjambu_permutation_128 false [(mkPtr bs blk.base, .pub), (r, .pub)] st =
        .ok .normal #[(0, .pub), (mkPtr bs blk.base, .pub), (r, .pub)] { st with leak := leak', mem := setBlock st.mem bs bytes' } ∧
      bytes'.size = blk.bytes.size ∧
      StateObj bytes' blk.base (perm128 key r s) key ∧
      (∀ j, 16 ≤ j → bytes'[j]? = blk.bytes[j]?) := by
  have km : KM st bs blk (kw key 0).toNat (kw key 1).toNat (kw key 2).toNat (kw key 3).toNat :=
    ⟨hb, obj.al, obj.lt, hbb, obj.sz, obj.k0, obj.k1, obj.k2, obj.k3⟩
  obtain ⟨leak', h⟩ := perm128_call prog idx_tinyjambu_permutation_128 prog_perm128 (fun i => i) (fun _ => rfl) m
    #[(0, .pub), (mkPtr bs blk.base, .pub), (r, .pub)] st (.var 1) (.var 2) r s.a.toNat s.b.toNat s.c.toNat s.d.toNat
    _ _ _ _ bs blk hr km (by simp [evalE]) (by simp [evalE]) obj.s0 obj.s1 obj.s2 obj.s3
  have hN := permN128_eq key r s
  simp only [toN] at hN
  simp only [hN] at h
  have h16 : 16 ≤ blk.bytes.size := Nat.le_trans (by decide) obj.sz
  have keep : ∀ off, 16 ≤ off → readLE (bytesAfter blk.bytes (perm128 key r s).a.toNat (perm128 key r s).b.toNat (perm128 key r s).c.toNat (perm128 key r s).d.toNat) off 4 = readLE blk.bytes off 4 :=
    fun off ho => readLE_congr _ _ 4 off (fun j h1 _ => bytesAfter_out _ _ _ _ _ j (Nat.le_trans ho h1))
  have hW : (bytesAfter blk.bytes (perm128 key r s).a.toNat (perm128 key r s).b.toNat (perm128 key r s).c.toNat (perm128 key r s).d.toNat).size = blk.bytes.size := size_bytesAfter _ _ _ _ _
  have s0 : readLE (bytesAfter blk.bytes (perm128 key r s).a.toNat (perm128 key r s).b.toNat (perm128 key r s).c.toNat (perm128 key r s).d.toNat) 0 4 = some ((perm128 key r s).a.toNat, Lab.sec) := bytesAfter_w0 blk.bytes _ _ _ _ (UInt32.toNat_lt _) h16
  have s1 : readLE (bytesAfter blk.bytes (perm128 key r s).a.toNat (perm128 key r s).b.toNat (perm128 key r s).c.toNat (perm128 key r s).d.toNat) 4 4 = some ((perm128 key r s).b.toNat, Lab.sec) := bytesAfter_w1 blk.bytes _ _ _ _ (UInt32.toNat_lt _) h16
  have s2 : readLE (bytesAfter blk.bytes (perm128 key r s).a.toNat (perm128 key r s).b.toNat (perm128 key r s).c.toNat (perm128 key r s).d.toNat) 8 4 = some ((perm128 key r s).c.toNat, Lab.sec) := bytesAfter_w2 blk.bytes _ _ _ _ (UInt32.toNat_lt _) h16
  have s3 : readLE (bytesAfter blk.bytes (perm128 key r s).a.toNat (perm128 key r s).b.toNat (perm128 key r s).c.toNat (perm128 key r s).d.toNat) 12 4 = some ((perm128 key r s).d.toNat, Lab.sec) := bytesAfter_w3 blk.bytes _ _ _ _ (UInt32.toNat_lt _) h16
  have hobj : StateObj (bytesAfter blk.bytes (perm128 key r s).a.toNat (perm128 key r s).b.toNat (perm128 key r s).c.toNat (perm128 key r s).d.toNat) blk.base (perm128 key r s) key :=
    ⟨obj.al, obj.lt, Nat.le_trans obj.sz (Nat.le_of_eq hW.symm), s0, s1, s2, s3,
      (keep 16 (by decide)).trans obj.k0, (keep 20 (by decide)).trans obj.k1, (keep 24 (by decide)).trans obj.k2, (keep 28 (by decide)).trans obj.k3⟩
  have hcall : callFun prog (m + r + 24) idx_tinyjambu_permutation_128 false [(mkPtr bs blk.base, .pub), (r, .pub)] st =
      .ok .normal #[(0, .pub), (mkPtr bs blk.base, .pub), (r, .pub)] { st with leak := leak', mem := setBlock st.mem bs (bytesAfter blk.bytes (perm128 key r s).a.toNat (perm128 key r s).b.toNat (perm128 key r s).c.toNat (perm128 key r s).d.toNat) } := by
    unfold callFun
    simp only [List.length_cons, List.length_nil, List.range, List.range.loop, List.map, Bool.false_eq_true, if_false, Nat.zero_add]
    exact h
  exact ⟨leak', (bytesAfter blk.bytes (perm128 key r s).a.toNat (perm128 key r s).b.toNat (perm128 key r s).c.toNat (perm128 key r s).d.toNat), hcall, size_bytesAfter _ _ _ _ _, hobj, fun j hj => bytesAfter_out _ _ _ _ _ j hj⟩

/-- with TJ.Props.C05.c_backend_is_spec: the words the regenerated C function leaves are the specification's
    StateUpdate applied 128·rounds times -/
theorem model_is_spec (key : Bytes) (rounds : Nat) (s : W4) :
    pack (perm128 (loadKey .v128 key) rounds s) = Spec.keyed Variant.v128.params key (pack s) (128 * rounds) :=
  permC_keyed .v128 key rounds s

/-- non-vacuity: a concrete memory holding a state object (at a base that is 4-aligned but not 8-aligned) -/
def demoBlk : Block := { bytes := (List.replicate 40 ((0x5A : UInt8), Lab.sec)).toArray, base := 4 }
def demoSt : St := { mem := #[{ bytes := #[], base := 0 }, demoBlk], ent := [], leak := [] }

example : StateObj demoBlk.bytes demoBlk.base ⟨0x5A5A5A5A, 0x5A5A5A5A, 0x5A5A5A5A, 0x5A5A5A5A⟩ [0x5A5A5A5A, 0x5A5A5A5A, 0x5A5A5A5A, 0x5A5A5A5A] :=
  ⟨by decide, by decide, by decide, by decide, by decide, by decide, by decide, by decide, by decide, by decide, by decide⟩

end TJ.Props.C05Gen
