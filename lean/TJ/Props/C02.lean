/-
  C02 — the AEAD output is bit-exact TinyJAMBU v2: the word-level model of the C code equals the
  specification's own formulation (TJ.Spec: 128-bit state, bit-serial StateUpdate with the keyed NLFSR
  feedback s0 ⊕ s47 ⊕ ¬(s70 ∧ s85) ⊕ s91 ⊕ k, frame bits in s36…s38, data in s96…s127, partial-block
  length in s32…s33, keystream s64…s95, tag after P_K and 640 steps), for EVERY key, nonce, AD and
  plaintext.  TJ.Spec is additionally executed on the repository's KAT files by the check.
-/
import TJ.Proofs.SpecTop
namespace TJ.Props.C02
open TJ

/-- the C permutation (any variant, any state, any key bytes, ANY number of 128-step rounds incl. 0)
    is the specification's StateUpdate -/
theorem permutation_is_nlfsr (v : Variant) (key : Bytes) (rounds : Nat) (s : W4) :
    pack (permC v (loadKey v key) rounds s) = Spec.keyed v.params key (pack s) (128 * rounds) :=
  permC_keyed v key rounds s

/-- ciphertext and tag are those of the specification, bit for bit -/
theorem encrypt_is_spec (v : Variant) (key nonce ad m : Bytes) (hn : nonce.length = 12) :
    aeadEncrypt v key nonce ad m = Spec.AEAD.encrypt v.params key nonce ad m := by
  unfold aeadEncrypt Spec.AEAD.encrypt
  rw [aeadEncrypt_refines _ _ (permC_keyed v key) v.pk nonce ad m hn, params_pk]

/-- decryption: accepted exactly when the specification's verification succeeds, with the same plaintext -/
theorem decrypt_is_spec (v : Variant) (key nonce ad c : Bytes) (hn : nonce.length = 12) (hc : 8 ≤ c.length) :
    Spec.AEAD.decrypt v.params key nonce ad c =
      if (aeadDecrypt v key nonce ad c).ret = 0 then (aeadDecrypt v key nonce ad c).buf else none := by
  have hP := permC_keyed v key
  have hlt : ¬ c.length < 8 := by omega
  unfold Spec.AEAD.decrypt Spec.aeadDecrypt aeadDecrypt aeadDecryptWith
  simp only [hlt, if_false, params_pk]
  have h0 : pack (absorbData (permC v (loadKey v key)) 0x30 5 (setup (permC v (loadKey v key)) v.pk nonce 0x10) ad)
      = Spec.absorb (Spec.keyed v.params key) 0x30 640 (Spec.init (Spec.keyed v.params key) (128 * v.pk) nonce 0x10) ad := by
    rw [absorb_refines _ _ hP _ _ frame30, setup_refines _ _ hP v.pk nonce hn _ _ frame10]
  have hd := decBody_refines _ _ hP v.pk (absorbData (permC v (loadKey v key)) 0x30 5 (setup (permC v (loadKey v key)) v.pk nonce 0x10) ad)
    (c.take (c.length - 8))
  rw [h0] at hd
  rw [← hd.1, ← hd.2, ← genTag_refines _ _ hP]
  have hl : (genTag (permC v (loadKey v key)) v.pk (decBody (permC v (loadKey v key)) v.pk
      (absorbData (permC v (loadKey v key)) 0x30 5 (setup (permC v (loadKey v key)) v.pk nonce 0x10) ad)
      (c.take (c.length - 8))).1).length = (c.drop (c.length - 8)).length := by
    rw [genTag_length]; simp; omega
  rw [checkTag_spec _ _ _ hl]
  split <;> simp

/-- non-vacuity: the hypotheses are those of every API call (12-byte nonce) -/
example (key ad m : Bytes) : aeadEncrypt .v192 key (List.replicate 12 7) ad m
    = Spec.AEAD.encrypt Spec.p192 key (List.replicate 12 7) ad m := encrypt_is_spec _ _ _ _ _ (by simp)

end TJ.Props.C02
