/-
  C04 — no unauthenticated plaintext is released.  For AEAD and SIV, an arbitrary keyed
  permutation, every packet of length ≥ 8: on rejection the plaintext region is all
  zeros (whatever candidate was computed, and whatever the buffer held before — the
  model's buffer is the candidate the C code has just written over the prior contents,
  every byte of the region), on acceptance it is the plaintext.
-/
import TJ.Proofs.Siv
namespace TJ.Props.C04
open TJ

/-- `check_tag`: a mismatch zeroes every byte of the plaintext, a match keeps every byte -/
theorem checkTag_buffer (plain t1 t2 : Bytes) (hl : t1.length = t2.length) :
    (checkTag plain t1 t2).2 = if t1 = t2 then plain else List.replicate plain.length 0 := by
  rw [checkTag_spec plain t1 t2 hl]; split <;> rfl

theorem aead_reject_zero (P : Perm) (pk : Nat) (nonce ad c : Bytes) (h : 8 ≤ c.length)
    (hr : (aeadDecryptWith P pk nonce ad c).ret ≠ 0) :
    (aeadDecryptWith P pk nonce ad c).buf = some (List.replicate (c.length - 8) 0) := by
  rw [aeadDecryptWith_eq _ _ _ _ _ h] at hr ⊢
  simp only at hr ⊢
  have hl : (aeadTag P pk nonce ad (aeadCandidate P pk nonce ad c)).length = (c.drop (c.length - 8)).length := by
    rw [aeadTag, genTag_length]; simp; omega
  rw [checkTag_spec _ _ _ hl] at hr ⊢
  split at hr
  · simp at hr
  · rename_i hne; simp only [hne, if_false]
    simp [aeadCandidate, decBody_length]

theorem aead_accept_plaintext (P : Perm) (pk : Nat) (nonce ad c : Bytes) (h : 8 ≤ c.length)
    (hr : (aeadDecryptWith P pk nonce ad c).ret = 0) :
    (aeadDecryptWith P pk nonce ad c).buf = some (aeadCandidate P pk nonce ad c) := by
  rw [aeadDecryptWith_eq _ _ _ _ _ h] at hr ⊢
  simp only at hr ⊢
  have hl : (aeadTag P pk nonce ad (aeadCandidate P pk nonce ad c)).length = (c.drop (c.length - 8)).length := by
    rw [aeadTag, genTag_length]; simp; omega
  rw [checkTag_spec _ _ _ hl] at hr ⊢
  split at hr
  · rename_i he; simp [he]
  · simp at hr

theorem siv_reject_zero (P : Perm) (pk : Nat) (nonce ad c : Bytes) (h : 8 ≤ c.length)
    (hr : (sivDecryptWith P pk nonce ad c).ret ≠ 0) :
    (sivDecryptWith P pk nonce ad c).buf = some (List.replicate (c.length - 8) 0) := by
  rw [sivDecryptWith_eq _ _ _ _ _ h] at hr ⊢
  simp only at hr ⊢
  have hl : (sivTag P pk nonce ad (sivCandidate P pk nonce c)).length = (c.drop (c.length - 8)).length := by
    rw [sivTag_length]; simp; omega
  rw [checkTag_spec _ _ _ hl] at hr ⊢
  split at hr
  · simp at hr
  · rename_i hne; simp only [hne, if_false]
    simp [sivCandidate, sivBody_length]

theorem siv_accept_plaintext (P : Perm) (pk : Nat) (nonce ad c : Bytes) (h : 8 ≤ c.length)
    (hr : (sivDecryptWith P pk nonce ad c).ret = 0) :
    (sivDecryptWith P pk nonce ad c).buf = some (sivCandidate P pk nonce c) := by
  rw [sivDecryptWith_eq _ _ _ _ _ h] at hr ⊢
  simp only at hr ⊢
  have hl : (sivTag P pk nonce ad (sivCandidate P pk nonce c)).length = (c.drop (c.length - 8)).length := by
    rw [sivTag_length]; simp; omega
  rw [checkTag_spec _ _ _ hl] at hr ⊢
  split at hr
  · rename_i he; simp [he]
  · simp at hr

/-- all six cipher variants are instances -/
theorem aead_reject_zero_lib (v : Variant) (key nonce ad c : Bytes) (h : 8 ≤ c.length)
    (hr : (aeadDecrypt v key nonce ad c).ret ≠ 0) :
    (aeadDecrypt v key nonce ad c).buf = some (List.replicate (c.length - 8) 0) :=
  aead_reject_zero _ _ _ _ _ h hr
theorem siv_reject_zero_lib (v : Variant) (key nonce ad c : Bytes) (h : 8 ≤ c.length)
    (hr : (sivDecrypt v key nonce ad c).ret ≠ 0) :
    (sivDecrypt v key nonce ad c).buf = some (List.replicate (c.length - 8) 0) :=
  siv_reject_zero _ _ _ _ _ h hr

/-- non-vacuity: rejected packets of length ≥ 8 exist for every permutation (a genuine body with a
    tag that differs from the right one) -/
example (P : Perm) (pk : Nat) (nonce ad m t : Bytes) (ht : t.length = 8) (hne : t ≠ aeadTag P pk nonce ad m) :
    (aeadDecryptWith P pk nonce ad ((encBody P pk (aeadPre P pk nonce ad) m).2 ++ t)).buf
      = some (List.replicate m.length 0) := by
  have hl : 8 ≤ ((encBody P pk (aeadPre P pk nonce ad) m).2 ++ t).length := by simp [ht]
  have hc : aeadCandidate P pk nonce ad ((encBody P pk (aeadPre P pk nonce ad) m).2 ++ t) = m := by
    unfold aeadCandidate; rw [take_body _ _ ht, decBody_encBody]
  rw [aead_reject_zero _ _ _ _ _ hl]
  · simp [ht, encBody_length]
  · rw [aeadDecryptWith_eq _ _ _ _ _ hl]; simp only
    rw [hc, drop_body _ _ ht, checkTag_ne _ _ _ (by rw [aeadTag, genTag_length, ht]) (fun e => hne e.symm)]
    simp only; decide

end TJ.Props.C04
