/-
  C12 — HMAC is RFC 2104 over TinyJAMBU-Hash (block 64) for every key length, one-shot or streamed.
  `Spec.hmac` is the RFC's formula; `hash` is the model's TinyJAMBU-Hash (tied to the
  documented construction by C10).
-/
import TJ.Proofs.Hmac
namespace TJ.Props.C12
open TJ

/-- one-shot, every key (empty, < 64, = 64, > 64) and every message -/
theorem hmac_rfc2104 (key m : Bytes) : hmac key m = Spec.hmac hash key m := hmac_eq_spec key m

/-- init (or reinit: the same function) on a state with arbitrary prior contents, any chunking of the
    message (empty chunks included), finalize with the same key -/
theorem hmac_streaming_rfc2104 (prior : HState) (key : Bytes) (cs : List Bytes) :
    (hmacFinalize (cs.foldl hmacUpdate (hmacInit prior key)) key).1 = Spec.hmac hash key cs.flatten :=
  hmac_streaming prior key cs

theorem streaming_eq_oneshot (prior : HState) (key : Bytes) (cs : List Bytes) :
    (hmacFinalize (cs.foldl hmacUpdate (hmacInit prior key)) key).1 = hmac key cs.flatten := by
  rw [hmac_streaming, hmac_eq_spec]

/-- keys are zero-padded: appending zero bytes to a key that stays within the block changes nothing -/
theorem key_zero_padding (key m : Bytes) (n : Nat) (h : key.length + n ≤ 64) :
    hmac (key ++ List.replicate n 0) m = hmac key m := by
  rw [hmac_eq_spec, hmac_eq_spec]
  unfold Spec.hmac
  have h1 : ¬ (key ++ List.replicate n 0).length > 64 := by simp; omega
  have h2 : ¬ key.length > 64 := by omega
  simp only [h1, h2, if_false]
  have : (key ++ List.replicate n 0) ++ List.replicate (64 - (key ++ List.replicate n 0).length) 0
      = key ++ List.replicate (64 - key.length) 0 := by
    rw [List.append_assoc, List.replicate_append_replicate]
    congr 2; simp; omega
  rw [this]

/-- non-vacuity: key lengths 0, 64, 65 are all covered by the unconditional statement -/
example (m : Bytes) : hmac [] m = Spec.hmac hash [] m ∧
    hmac (List.replicate 65 7) m = Spec.hmac hash (List.replicate 65 7) m :=
  ⟨hmac_rfc2104 _ _, hmac_rfc2104 _ _⟩

end TJ.Props.C12
