/-
  TJ.Proofs.HashLabels — from the canonical labelling to every labelling: a hash state object whose bytes carry ANY defined labels
  (`HObjV`) lies below a canonical one (`HObj`), so by TJ.MiniC.exec_lower the theorems proved for `HObj` hold for `HObjV`.
-/
import TJ.Props.C11Gen
import TJ.MiniC.Mono
namespace TJ.MiniC.Hoare
open TJ TJ.MiniC TJ.MiniC.PermC TJ.Gen.MiniC

/-- the first `n` bytes relabelled secret (undefined bytes stay undefined) -/
def raiseTo (n : Nat) (X : Array LByte) : Array LByte :=
  X.mapIdx fun i x => if i < n then (x.1, if x.2 = .undef then .undef else .sec) else x

theorem size_raiseTo (n : Nat) (X : Array LByte) : (raiseTo n X).size = X.size := by simp [raiseTo]

theorem getElem?_raiseTo (n : Nat) (X : Array LByte) (i : Nat) :
    (raiseTo n X)[i]? = (X[i]?).map fun x => if i < n then (x.1, if x.2 = .undef then .undef else .sec) else x := by
  simp [raiseTo]

theorem bytesLe_raiseTo (n : Nat) (X : Array LByte) : BytesLe X (raiseTo n X) := by
  intro i
  rw [getElem?_raiseTo]
  cases h : X[i]? with
  | none => trivial
  | some x =>
    obtain ⟨b, l⟩ := x
    simp only [Option.map]
    by_cases hi : i < n
    · simp only [hi, if_true]
      refine ⟨rfl, ?_⟩
      cases l <;> simp [Lab.le]
    · simp only [hi, if_false]; exact VLe.refl _

/-- the state object represents `h`, whatever (defined) labels its bytes carry; `posn` public -/
structure HObjV (X : Array LByte) (h : HState) : Prop where
  sz : 52 ≤ X.size
  words : ∀ i v, [h.s.a, h.s.b, h.s.c, h.s.d, h.k0, h.k1, h.k2, h.k3][i]? = some v → ∀ j, j < 4 →
    ∃ l, X[4 * i + j]? = some (byteOf v.toNat j, l) ∧ l ≠ .undef
  blen : h.block.length = 16
  blk : ∀ i b, h.block[i]? = some b → ∃ l, X[32 + i]? = some (b, l) ∧ l ≠ .undef
  posn : readLE X 48 4 = some (h.posn, .pub)
  p16 : h.posn < 16

theorem HObj.toV {X : Array LByte} {h : HState} (o : HObj X h) : HObjV X h :=
  ⟨o.sz, fun i v hv j hj => ⟨.sec, o.words i v hv j hj, by decide⟩, o.blen, fun i b hb => ⟨.sec, o.blk i b hb, by decide⟩, o.posn, o.p16⟩

theorem HObjV.raise {X : Array LByte} {h : HState} (o : HObjV X h) : HObj (raiseTo 48 X) h := by
  have hsz := o.sz
  refine ⟨by rw [size_raiseTo]; exact o.sz, fun i v hv j hj => ?_, o.blen, fun i b hb => ?_, ?_, o.p16⟩
  · have hi : i < 8 := by
      by_cases hi : i < 8
      · exact hi
      · rw [List.getElem?_eq_none (by simp; omega)] at hv; cases hv
    obtain ⟨l, hx, hl⟩ := o.words i v hv j hj
    rw [getElem?_raiseTo, hx]
    simp only [Option.map, show 4 * i + j < 48 from by omega, if_true, hl, if_false]
  · have hi : i < 16 := by
      by_cases hi : i < 16
      · exact hi
      · rw [List.getElem?_eq_none (by rw [o.blen]; omega)] at hb; cases hb
    obtain ⟨l, hx, hl⟩ := o.blk i b hb
    rw [getElem?_raiseTo, hx]
    simp only [Option.map, show 32 + i < 48 from by omega, if_true, hl, if_false]
  · rw [← o.posn]
    apply readLE_congr
    intro j h1 _
    rw [getElem?_raiseTo]
    cases X[j]? with
    | none => rfl
    | some x => simp only [Option.map, show ¬ j < 48 from by omega, if_false]

/-- anything below a canonical object represents the same state -/
theorem HObj.lower {X Y : Array LByte} {h : HState} (o : HObj X h) (hle : BytesLe Y X) : HObjV Y h := by
  have hsz := o.sz
  have getY : ∀ (i : Nat) (b : UInt8), X[i]? = some (b, Lab.sec) → ∃ l, Y[i]? = some (b, l) ∧ l ≠ Lab.undef := by
    intro i b hx
    have hi := hle i
    rw [hx] at hi
    cases hy : Y[i]? with
    | none => rw [hy] at hi; exact hi.elim
    | some y =>
      rw [hy] at hi
      obtain ⟨c, l⟩ := y
      have e : c = b := hi.1
      subst e
      refine ⟨l, rfl, fun hu => ?_⟩
      have := hi.2; simp only [hu] at this; exact this.elim
  refine ⟨by rw [hle.size_eq]; exact o.sz, fun i v hv j hj => getY _ _ (o.words i v hv j hj), o.blen, fun i b hb => getY _ _ (o.blk i b hb), ?_, o.p16⟩
  have := readLE_le hle 48 4
  rw [o.posn] at this
  obtain ⟨v1, h1, hv⟩ := this
  rw [h1]
  obtain ⟨a, l⟩ := v1
  have e : a = h.posn := hv.1
  have el : l = .pub := Lab.le_pub hv.2
  rw [e, el]

theorem ARel.refl_of {α} {R : α → α → Prop} (hr : ∀ a, R a a) (a : Array α) : ARel R a a := by
  intro i
  cases a[i]? with
  | none => trivial
  | some x => exact hr x

theorem BlockLe.refl (b : Block) : BlockLe b b := ⟨rfl, ARel.refl_of VLe.refl _⟩

theorem memLe_setBlock {m : Array Block} {b : Nat} {X X' : Array LByte} {base : Nat} (h : m[b]? = some ⟨X, base⟩) (hle : BytesLe X X') :
    MemLe m (setBlock m b X') := by
  have : MemLe (setBlock m b X) (setBlock m b X') := setBlock_le (ARel.refl_of BlockLe.refl m) b hle
  rw [setBlock_self m b ⟨X, base⟩ h] at this
  exact this

theorem Lab.le_trans {a b c : Lab} (h1 : Lab.le a b) (h2 : Lab.le b c) : Lab.le a c := by
  cases a <;> cases b <;> cases c <;> first | trivial | exact h1.elim | exact h2.elim

theorem memLe_trans {a b c : Array Block} (h1 : MemLe a b) (h2 : MemLe b c) : MemLe a c := by
  intro i
  have x := h1 i; have y := h2 i
  cases ha : a[i]? with
  | none => cases hb : b[i]? with
    | none => rw [hb] at y; cases hc : c[i]? with
      | none => trivial
      | some _ => rw [hc] at y; exact y.elim
    | some _ => rw [ha, hb] at x; exact x.elim
  | some u => cases hb : b[i]? with
    | none => rw [ha, hb] at x; exact x.elim
    | some v =>
      rw [ha, hb] at x; rw [hb] at y
      cases hc : c[i]? with
      | none => rw [hc] at y; exact y.elim
      | some w =>
        rw [hc] at y
        refine ⟨x.1.trans y.1, fun j => ?_⟩
        have p := x.2 j; have q := y.2 j
        cases hu : u.bytes[j]? with
        | none => cases hv : v.bytes[j]? with
          | none => rw [hv] at q; cases hw : w.bytes[j]? with
            | none => trivial
            | some _ => rw [hw] at q; exact q.elim
          | some _ => rw [hu, hv] at p; exact p.elim
        | some bu => cases hv : v.bytes[j]? with
          | none => rw [hu, hv] at p; exact p.elim
          | some bv =>
            rw [hu, hv] at p; rw [hv] at q
            cases hw : w.bytes[j]? with
            | none => rw [hw] at q; exact q.elim
            | some bw =>
              rw [hw] at q
              exact ⟨p.1.trans q.1, Lab.le_trans p.2 q.2⟩

open TJ.Props.C11Gen in
/-- **`tinyjambu_hash_update` for every labelling**: state object and input bytes may carry any defined labels (`posn` public). -/
theorem hash_update_any_labels (st : St) (bs bi : Nat) (X XI : Array LByte) (baseS basei off : Nat) (h : HState) (data : Bytes)
    (hS : st.mem[bs]? = some ⟨X, baseS⟩) (hI : st.mem[bi]? = some ⟨XI, basei⟩) (hne : bi ≠ bs)
    (hrep : HObjV X h) (halS : baseS % 4 = 0) (hltS : baseS + X.size < ptrBase) (hltI : basei + XI.size < ptrBase)
    (hsz : st.mem.size + 2 < 2 ^ 30)
    (hdata : ∀ k b, data[k]? = some b → ∃ l, XI[off + k]? = some (b, l) ∧ l ≠ .undef) (inb : off + data.length ≤ XI.size) :
    ∃ fuel e' st' blk', callFun prog fuel idx_tinyjambu_hash_update false
        [(mkPtr bs baseS, .pub), (mkPtr bi (basei + off), .pub), (data.length, .pub)] st = .ok .normal e' st' ∧
      st'.mem[bs]? = some blk' ∧ blk'.base = baseS ∧ blk'.bytes.size = X.size ∧ HObjV blk'.bytes (h.update data) ∧
      st'.ent = st.ent ∧ st'.mem.size = st.mem.size := by
  -- the canonical state above `st`
  let XS' := raiseTo 48 X
  let XI' := raiseTo XI.size XI
  let m1 := setBlock st.mem bs XS'
  let hi : St := { st with mem := setBlock m1 bi XI' }
  have hS1 : m1[bs]? = some ⟨XS', baseS⟩ := by show (setBlock st.mem bs _)[bs]? = _; rw [getElem?_setBlock', if_pos rfl, hS]; rfl
  have hI1 : m1[bi]? = some ⟨XI, basei⟩ := by show (setBlock st.mem bs _)[bi]? = _; rw [getElem?_setBlock', if_neg hne]; exact hI
  have hSh : hi.mem[bs]? = some ⟨XS', baseS⟩ := by
    show (setBlock m1 bi _)[bs]? = _; rw [getElem?_setBlock', if_neg (fun e => hne e.symm)]; exact hS1
  have hIh : hi.mem[bi]? = some ⟨XI', basei⟩ := by show (setBlock m1 bi _)[bi]? = _; rw [getElem?_setBlock', if_pos rfl, hI1]; rfl
  have hle : StLe st hi :=
    ⟨memLe_trans (memLe_setBlock hS (bytesLe_raiseTo 48 X)) (memLe_setBlock hI1 (bytesLe_raiseTo XI.size XI)), rfl, rfl⟩
  have hdata' : ∀ k b, data[k]? = some b → XI'[off + k]? = some (b, Lab.sec) := by
    intro k b hb
    obtain ⟨l, hx, hl⟩ := hdata k b hb
    have hlt : off + k < XI.size := by
      have : k < data.length := by
        by_cases hk : k < data.length
        · exact hk
        · rw [List.getElem?_eq_none (by omega)] at hb; cases hb
      omega
    show (raiseTo XI.size XI)[off + k]? = _
    rw [getElem?_raiseTo, hx]
    simp only [Option.map, hlt, if_true, hl, if_false]
  obtain ⟨fuel, st2, X2, hcall, hm2, hX2s, hrep2, hent2⟩ := hash_update_source_is_model hi bs bi XS' XI' baseS basei off h data hSh hIh hne
    hrep.raise halS (by show baseS + (raiseTo 48 X).size < ptrBase; rw [size_raiseTo]; exact hltS)
    (by show basei + (raiseTo XI.size XI).size < ptrBase; rw [size_raiseTo]; exact hltI)
    (by show (setBlock (setBlock st.mem bs _) bi _).size + 2 < 2 ^ 30; rw [size_setBlock', size_setBlock']; exact hsz)
    hdata' (by show off + data.length ≤ (raiseTo XI.size XI).size; rw [size_raiseTo]; exact inb)
  have hlow := exec_lower prog fuel
    (.call (if false = true then some 0 else none) idx_tinyjambu_hash_update
      ((List.range [(mkPtr bs baseS, Lab.pub), (mkPtr bi (basei + off), Lab.pub), (data.length, Lab.pub)].length).map fun i => .var (i + 1)))
    _ _ st hi (ARel.refl_of VLe.refl ((0, Lab.pub) :: [(mkPtr bs baseS, Lab.pub), (mkPtr bi (basei + off), Lab.pub), (data.length, Lab.pub)]).toArray) hle
  unfold callFun at hcall
  rw [hcall] at hlow
  obtain ⟨g1, e1, s1, h1, hg, _, hs1⟩ := hlow
  have hg1 : g1 = .normal := by cases g1 <;> first | rfl | exact hg.elim
  subst hg1
  have hb2 : st2.mem[bs]? = some ⟨X2, baseS⟩ := by rw [hm2, getElem?_setBlock', if_pos rfl, hSh]; rfl
  have hrel := hs1.mem bs
  rw [hb2] at hrel
  cases hb1 : s1.mem[bs]? with
  | none => rw [hb1] at hrel; exact hrel.elim
  | some blk' =>
    rw [hb1] at hrel
    refine ⟨fuel, e1, s1, blk', by unfold callFun; exact h1, hb1, hrel.1, ?_, hrep2.lower hrel.2, ?_, ?_⟩
    · rw [hrel.2.size_eq, hX2s, size_raiseTo]
    · rw [hs1.ent, hent2]
    · rw [hs1.mem.size_eq, hm2, size_setBlock']
      show (setBlock (setBlock st.mem bs _) bi _).size = _
      rw [size_setBlock', size_setBlock']

end TJ.MiniC.Hoare
