/-
  TJ.Proofs.Siv — the second SIV pass is an involution; packet-level unfolding.
-/
import TJ.Proofs.AeadTop
namespace TJ

theorem sivBody_length (P : Perm) (pk : Nat) (s : W4) (m : Bytes) : (sivBody P pk s m).length = m.length := by
  fun_induction sivBody P pk s m with
  | case1 s b0 b1 b2 b3 rest s1 ih => simp [store32, ih]
  | case2 => simp
  | case3 => simp
  | case4 => simp
  | case5 => simp

/-- XOR with a keystream that does not depend on the data: applying it twice is the identity -/
theorem sivBody_sivBody (P : Perm) (pk : Nat) (s : W4) (m : Bytes) :
    sivBody P pk s (sivBody P pk s m) = m := by
  fun_induction sivBody P pk s m with
  | case1 s b0 b1 b2 b3 rest s1 ih =>
    simp only [store32, List.cons_append, List.nil_append, sivBody]
    rw [load32_bytes, xor_xor_cancel]
    rw [show P pk (addDomain s 0xD0) = s1 from rfl, ih]
    simp [load32_b0, load32_b1, load32_b2, load32_b3]
  | case2 s b0 b1 b2 s1 data =>
    simp only [sivBody, data, s1, siv3_0, siv3_1, siv3_2]
  | case3 s b0 b1 s1 data =>
    simp only [sivBody, data, s1, siv2_0, siv2_1]
  | case4 s b0 s1 =>
    simp only [sivBody, s1, siv1]
  | case5 s => simp [sivBody]

theorem sivTag_length (P : Perm) (pk : Nat) (nonce ad m : Bytes) : (sivTag P pk nonce ad m).length = 8 :=
  genTag_length _ _ _

theorem sivEncryptWith_length (P : Perm) (pk : Nat) (nonce ad m : Bytes) :
    (sivEncryptWith P pk nonce ad m).length = m.length + 8 := by
  simp [sivEncryptWith, sivBody_length, sivTag_length]

/-- the candidate plaintext SIV decryption computes: the body under the keystream of the *received* tag -/
def sivCandidate (P : Perm) (pk : Nat) (nonce c : Bytes) : Bytes :=
  sivBody P pk (setup P pk (sivNonce nonce (c.drop (c.length - 8))) 0xB0) (c.take (c.length - 8))

theorem sivDecryptWith_eq (P : Perm) (pk : Nat) (nonce ad c : Bytes) (h : 8 ≤ c.length) :
    sivDecryptWith P pk nonce ad c =
      let m' := sivCandidate P pk nonce c
      let ct := checkTag m' (sivTag P pk nonce ad m') (c.drop (c.length - 8))
      ⟨ct.1, some (c.length - 8), some ct.2⟩ := by
  have hn : ¬ c.length < 8 := by omega
  simp only [sivDecryptWith, hn, if_false, sivCandidate]

end TJ
