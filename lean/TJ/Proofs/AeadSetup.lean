import TJ.Proofs.AeadAbsorb
namespace TJ.MiniC.Hoare
open TJ TJ.MiniC TJ.MiniC.PermC TJ.Gen.MiniC

def rc (k : Nat) : Expr := .cast .u32 .i32 (.lit k)

def setupBody (pidx pk : Nat) : Stmt :=
  seqs [seqs [.assign 3 (.var 0), .assign 4 (.bin .add .u64 (.var 0) (.lit 4)), .assign 5 (.bin .add .u64 (.var 0) (.lit 8)),
              .assign 6 (.bin .add .u64 (.var 0) (.lit 12)), .store .u32 (.var 6) (rc 0), .store .u32 (.var 5) (rc 0),
              .store .u32 (.var 4) (rc 0), .store .u32 (.var 3) (rc 0)],
        .call none pidx [.var 0, rc pk],
        xorPub 1 7 8 (.cast .u32 .u8 (.var 2)), .call none pidx [.var 0, rc 5], xorData 3 9 14 [(10, 3), (11, 2), (12, 1), (13, 0)] (e32 10 11 12 13),
        xorPub 1 15 16 (.cast .u32 .u8 (.var 2)), .call none pidx [.var 0, rc 5], xorData 3 17 22 [(18, 7), (19, 6), (20, 5), (21, 4)] (e32 18 19 20 21),
        xorPub 1 23 24 (.cast .u32 .u8 (.var 2)), .call none pidx [.var 0, rc 5], xorData 3 25 30 [(26, 11), (27, 10), (28, 9), (29, 8)] (e32 26 27 28 29)]

theorem setup128_eq : f_tinyjambu_setup_128.body = setupBody 42 8 := rfl
theorem setup192_eq : f_tinyjambu_setup_192.body = setupBody 43 9 := rfl
theorem setup256_eq : f_tinyjambu_setup_256.body = setupBody 44 10 := rfl

def tagWord (w wt q : Nat) (t0 t1 t2 t3 : Nat) : Stmt :=
  seqs [seqs [.load wt .u32 (.bin .add .u64 (.var 0) (.lit 8)), .assign w (.var wt)],
        byteStmt t0 q w 0, byteStmt t1 (q + 1) w 1, byteStmt t2 (q + 2) w 2, byteStmt t3 (q + 3) w 3]

def gentagBody (pidx pk : Nat) : Stmt :=
  seqs [xorPub 1 2 3 (rc 112), .call none pidx [.var 0, rc pk], tagWord 4 5 0 6 7 8 9,
        xorPub 1 10 11 (rc 112), .call none pidx [.var 0, rc 5], tagWord 12 13 4 14 15 16 17]

theorem gentag128_eq : f_tinyjambu_generate_tag_128.body = gentagBody 42 8 := rfl
theorem gentag192_eq : f_tinyjambu_generate_tag_192.body = gentagBody 43 9 := rfl
theorem gentag256_eq : f_tinyjambu_generate_tag_256.body = gentagBody 44 10 := rfl

theorem evalE_rc (e : Env) (k : Nat) (hk : k < 2147483648) : evalE e (rc k) = .ok (k, .pub) := by
  simp only [rc, evalE, castVal_u32_i32_small k hk]

/-- the object with its key words only (state words may be anything, undefined included) -/
structure MK (g : AGeo) (M : Array Block) (st : St) (kws : List UInt32) : Prop where
  klen : kws.length = g.nk
  obj : ∃ X, st.mem[g.bs]? = some ⟨X, g.baseS⟩ ∧ X.size = 16 + 4 * g.nk ∧ ∀ i v, kws[i]? = some v → WV X (4 + i) v
  oth : OthLe g.bs st.mem M
  msz : st.mem.size = M.size
  ent : st.ent = g.ent0

theorem MI.toMK {g : AGeo} {M : Array Block} {st : St} {s : W4} {kws : List UInt32} (m : MI g M st s kws) : MK g M st kws := by
  obtain ⟨X, h1, h2, h3⟩ := m.obj
  refine ⟨m.klen, ⟨X, h1, h2, fun i v hv => h3.2 (4 + i) v ?_⟩, m.oth, m.msz, m.ent⟩
  rw [List.getElem?_append_right (by simp [sw])]
  simpa [sw] using hv

def zeroStmt : Stmt :=
  seqs [.assign 3 (.var 0), .assign 4 (.bin .add .u64 (.var 0) (.lit 4)), .assign 5 (.bin .add .u64 (.var 0) (.lit 8)),
        .assign 6 (.bin .add .u64 (.var 0) (.lit 12)), .store .u32 (.var 6) (rc 0), .store .u32 (.var 5) (rc 0),
        .store .u32 (.var 4) (rc 0), .store .u32 (.var 3) (rc 0)]

/-- `tinyjambu_init_state`: the four state words become 0 -/
theorem setup_zero {g : AGeo} {M : Array Block} {nv : Nat} {env : Env} {st : St} {kws : List UInt32} (mk : MK g M st kws) (hes : env.size = nv) (hnv : 7 ≤ nv)
    (h0 : env[0]? = some (mkPtr g.bs g.baseS, .pub)) :
    RunsTo g.prog zeroStmt env st (fun sig e' s' => sig = .normal ∧ AI g M nv e' s' W4.zero kws ∧ (∀ y, y < 3 ∨ 7 ≤ y → e'[y]? = env[y]?)) := by
  obtain ⟨X, hm, hXs, hk⟩ := mk.obj
  have hlt := g.hlt; have hal := g.hal
  have p4 := ptr_off g.bs g.baseS 4 g.hbs30 (by omega)
  have p8 := ptr_off g.bs g.baseS 8 g.hbs30 (by omega)
  have p12 := ptr_off g.bs g.baseS 12 g.hbs30 (by omega)
  let E4 := setVar (setVar (setVar (setVar env 3 (mkPtr g.bs g.baseS, Lab.pub)) 4 (mkPtr g.bs (g.baseS + 4), Lab.pub)) 5 (mkPtr g.bs (g.baseS + 8), Lab.pub)) 6
    (mkPtr g.bs (g.baseS + 12), Lab.pub)
  have e4s : E4.size = nv := by simp only [E4, size_setVar]; exact hes
  have e4_fr : ∀ y, y < 3 ∨ 7 ≤ y → E4[y]? = env[y]? := fun y hy => by
    show (setVar (setVar (setVar (setVar env 3 _) 4 _) 5 _) 6 _)[y]? = _
    rw [get_set_ne _ _ _ _ (by omega), get_set_ne _ _ _ _ (by omega), get_set_ne _ _ _ _ (by omega), get_set_ne _ _ _ _ (by omega)]
  have e4_3 : E4[3]? = some (mkPtr g.bs g.baseS, Lab.pub) := by
    show (setVar (setVar (setVar (setVar env 3 _) 4 _) 5 _) 6 _)[3]? = _
    rw [get_set_ne _ _ _ _ (by omega), get_set_ne _ _ _ _ (by omega), get_set_ne _ _ _ _ (by omega)]; exact get_set_eq _ _ _ (by omega)
  have e4_4 : E4[4]? = some (mkPtr g.bs (g.baseS + 4), Lab.pub) := by
    show (setVar (setVar (setVar (setVar env 3 _) 4 _) 5 _) 6 _)[4]? = _
    rw [get_set_ne _ _ _ _ (by omega), get_set_ne _ _ _ _ (by omega)]; exact get_set_eq _ _ _ (by simp only [size_setVar]; omega)
  have e4_5 : E4[5]? = some (mkPtr g.bs (g.baseS + 8), Lab.pub) := by
    show (setVar (setVar (setVar (setVar env 3 _) 4 _) 5 _) 6 _)[5]? = _
    rw [get_set_ne _ _ _ _ (by omega)]; exact get_set_eq _ _ _ (by simp only [size_setVar]; omega)
  have e4_6 : E4[6]? = some (mkPtr g.bs (g.baseS + 12), Lab.pub) := get_set_eq _ _ _ (by simp only [size_setVar]; omega)
  have e1_0 : (setVar env 3 (mkPtr g.bs g.baseS, Lab.pub))[0]? = some (mkPtr g.bs g.baseS, Lab.pub) := by rw [get_set_ne _ _ _ _ (by omega)]; exact h0
  have e2_0 : (setVar (setVar env 3 (mkPtr g.bs g.baseS, Lab.pub)) 4 (mkPtr g.bs (g.baseS + 4), Lab.pub))[0]? = some (mkPtr g.bs g.baseS, Lab.pub) := by
    rw [get_set_ne _ _ _ _ (by omega)]; exact e1_0
  have e3_0 : (setVar (setVar (setVar env 3 (mkPtr g.bs g.baseS, Lab.pub)) 4 (mkPtr g.bs (g.baseS + 4), Lab.pub)) 5 (mkPtr g.bs (g.baseS + 8), Lab.pub))[0]? =
      some (mkPtr g.bs g.baseS, Lab.pub) := by rw [get_set_ne _ _ _ _ (by omega)]; exact e2_0
  have addp : ∀ (e : Env) (o : Nat), e[0]? = some (mkPtr g.bs g.baseS, Lab.pub) → (mkPtr g.bs g.baseS + o) % 18446744073709551616 = mkPtr g.bs (g.baseS + o) →
      evalE e (.bin .add .u64 (.var 0) (.lit o)) = .ok (mkPtr g.bs (g.baseS + o), .pub) := by
    intro e o h hp
    simp only [evalE, h, reduceCtorEq, if_false, BinOp.needsPub2, BinOp.needsPub1, Bool.false_and, Bool.or_self, Bool.false_eq_true, binVal, Ty.modulus,
      Lab.join_pub_pub, hp]
  unfold zeroStmt
  simp only [seqs]
  refine runs_seq (Q := fun e s => e = setVar env 3 (mkPtr g.bs g.baseS, Lab.pub) ∧ s = st) (runs_assign _ (by simp only [evalE, h0, reduceCtorEq, if_false]) ⟨rfl, rfl, rfl⟩) ?_
  intro e s ⟨he, hs⟩; rw [he, hs]
  refine runs_seq (Q := fun e s => e = setVar (setVar env 3 (mkPtr g.bs g.baseS, Lab.pub)) 4 (mkPtr g.bs (g.baseS + 4), Lab.pub) ∧ s = st)
    (runs_assign _ (addp _ 4 e1_0 p4) ⟨rfl, rfl, rfl⟩) ?_
  intro e s ⟨he, hs⟩; rw [he, hs]
  refine runs_seq (Q := fun e s => e = setVar (setVar (setVar env 3 (mkPtr g.bs g.baseS, Lab.pub)) 4 (mkPtr g.bs (g.baseS + 4), Lab.pub)) 5 (mkPtr g.bs (g.baseS + 8), Lab.pub) ∧ s = st)
    (runs_assign _ (addp _ 8 e2_0 p8) ⟨rfl, rfl, rfl⟩) ?_
  intro e s ⟨he, hs⟩; rw [he, hs]
  refine runs_seq (Q := fun e s => e = E4 ∧ s = st) (runs_assign _ (addp _ 12 e3_0 p12) ⟨rfl, rfl, rfl⟩) ?_
  intro e s ⟨he, hs⟩; rw [he, hs]
  -- the four stores
  let X1 := writeLE X 12 0 .pub 4
  let X2 := writeLE X1 8 0 .pub 4
  let X3 := writeLE X2 4 0 .pub 4
  let X4 := writeLE X3 0 0 .pub 4
  have z1 : X1.size = X.size := size_writeLE _ _ _ _ _
  have z2 : X2.size = X.size := by show (writeLE X1 _ _ _ _).size = _; rw [size_writeLE]; exact z1
  have z3 : X3.size = X.size := by show (writeLE X2 _ _ _ _).size = _; rw [size_writeLE]; exact z2
  have z4 : X4.size = X.size := by show (writeLE X3 _ _ _ _).size = _; rw [size_writeLE]; exact z3
  let s1 : St := { st with leak := Ev.wr (mkPtr g.bs (g.baseS + 12)) 4 :: st.leak, mem := setBlock st.mem g.bs X1 }
  let s2 : St := { s1 with leak := Ev.wr (mkPtr g.bs (g.baseS + 8)) 4 :: s1.leak, mem := setBlock s1.mem g.bs X2 }
  let s3 : St := { s2 with leak := Ev.wr (mkPtr g.bs (g.baseS + 4)) 4 :: s2.leak, mem := setBlock s2.mem g.bs X3 }
  have m1 : s1.mem[g.bs]? = some ⟨X1, g.baseS⟩ := by show (setBlock st.mem g.bs _)[g.bs]? = _; rw [getElem?_setBlock', if_pos rfl, hm]; rfl
  have m2 : s2.mem[g.bs]? = some ⟨X2, g.baseS⟩ := by show (setBlock s1.mem g.bs _)[g.bs]? = _; rw [getElem?_setBlock', if_pos rfl, m1]; rfl
  have m3 : s3.mem[g.bs]? = some ⟨X3, g.baseS⟩ := by show (setBlock s2.mem g.bs _)[g.bs]? = _; rw [getElem?_setBlock', if_pos rfl, m2]; rfl
  refine runs_seq (Q := fun e s => e = E4 ∧ s = s1) ?_ ?_
  · refine runs_store (mkPtr g.bs (g.baseS + 12)) 0 g.bs 12 4 .pub rfl (by simp only [evalE, e4_6, reduceCtorEq, if_false]) (evalE_rc _ 0 (by decide))
      (resolve_word hm 12 (by omega) (by omega) (by omega)) ?_
    rw [blockBytes_of hm]; exact ⟨rfl, rfl, rfl⟩
  · intro e s ⟨he, hs⟩; rw [he, hs]
    refine runs_seq (Q := fun e s => e = E4 ∧ s = s2) ?_ ?_
    · refine runs_store (mkPtr g.bs (g.baseS + 8)) 0 g.bs 8 4 .pub rfl (by simp only [evalE, e4_5, reduceCtorEq, if_false]) (evalE_rc _ 0 (by decide))
        (resolve_word m1 8 (by omega) (by omega) (by omega)) ?_
      rw [blockBytes_of m1]; exact ⟨rfl, rfl, rfl⟩
    · intro e s ⟨he, hs⟩; rw [he, hs]
      refine runs_seq (Q := fun e s => e = E4 ∧ s = s3) ?_ ?_
      · refine runs_store (mkPtr g.bs (g.baseS + 4)) 0 g.bs 4 4 .pub rfl (by simp only [evalE, e4_4, reduceCtorEq, if_false]) (evalE_rc _ 0 (by decide))
          (resolve_word m2 4 (by omega) (by omega) (by omega)) ?_
        rw [blockBytes_of m2]; exact ⟨rfl, rfl, rfl⟩
      · intro e s ⟨he, hs⟩; rw [he, hs]
        refine runs_store (mkPtr g.bs (g.baseS + 0)) 0 g.bs 0 4 .pub rfl (by simp only [evalE, e4_3, reduceCtorEq, if_false, Nat.add_zero]) (evalE_rc _ 0 (by decide))
          (resolve_word m3 0 (by omega) (by omega) (by omega)) ?_
        rw [blockBytes_of m3]
        have w3 : WV X4 3 0 := (((WV.writeLE_same X 3 0 .pub (by decide) (by omega)).writeLE_other 8 0 4 .pub (by omega)).writeLE_other 4 0 4 .pub (by omega)).writeLE_other 0 0 4 .pub (by omega)
        have w2 : WV X4 2 0 := ((WV.writeLE_same X1 2 0 .pub (by decide) (by omega)).writeLE_other 4 0 4 .pub (by omega)).writeLE_other 0 0 4 .pub (by omega)
        have w1 : WV X4 1 0 := (WV.writeLE_same X2 1 0 .pub (by decide) (by omega)).writeLE_other 0 0 4 .pub (by omega)
        have w0 : WV X4 0 0 := WV.writeLE_same X3 0 0 .pub (by decide) (by omega)
        refine ⟨rfl, ⟨e4s, by rw [e4_fr 0 (by omega)]; exact h0, mk.klen, ⟨X4, ?_, by rw [z4]; exact hXs, ⟨?_, fun i v hv => ?_⟩⟩, ?_, ?_, mk.ent⟩, e4_fr⟩
        · show (setBlock s3.mem g.bs _)[g.bs]? = _; rw [getElem?_setBlock', if_pos rfl, m3]; rfl
        · rw [z4, hXs]; simp only [List.length_append, sw, List.length_cons, List.length_nil, mk.klen]; omega
        · by_cases hi4 : i < 4
          · rw [List.getElem?_append_left (by simp [sw]; omega)] at hv
            match i, hi4, hv with
            | 0, _, hv => have e : v = 0 := by simpa [sw, W4.zero] using hv.symm
                          subst e; exact w0
            | 1, _, hv => have e : v = 0 := by simpa [sw, W4.zero] using hv.symm
                          subst e; exact w1
            | 2, _, hv => have e : v = 0 := by simpa [sw, W4.zero] using hv.symm
                          subst e; exact w2
            | 3, _, hv => have e : v = 0 := by simpa [sw, W4.zero] using hv.symm
                          subst e; exact w3
          · rw [List.getElem?_append_right (by simp [sw]; omega)] at hv
            simp only [sw, List.length_cons, List.length_nil] at hv
            have := hk (i - 4) v hv
            rw [show 4 + (i - 4) = i from by omega] at this
            exact (((this.writeLE_other 12 0 4 .pub (by omega)).writeLE_other 8 0 4 .pub (by omega)).writeLE_other 4 0 4 .pub (by omega)).writeLE_other 0 0 4 .pub (by omega)
        · exact (((mk.oth.setBlock _).setBlock _).setBlock _).setBlock _
        · show (setBlock (setBlock (setBlock (setBlock st.mem g.bs _) g.bs _) g.bs _) g.bs _).size = _
          simp only [size_setBlock']; exact mk.msz

/-- some variables hold public values -/
def PubVars (vs : List (Nat × Nat)) (e : Env) : Prop := ∀ xv ∈ vs, e[xv.1]? = some (xv.2, Lab.pub)

theorem PubVars.frame {vs : List (Nat × Nat)} {e e' : Env} (h : PubVars vs e) (hfr : ∀ xv ∈ vs, e'[xv.1]? = e[xv.1]?) : PubVars vs e' :=
  fun xv hxv => by rw [hfr xv hxv]; exact h xv hxv
theorem PubVars.lower {vs : List (Nat × Nat)} {e e' : Env} (h : PubVars vs e) (hle : EnvLe e' e) : PubVars vs e' :=
  fun xv hxv => envLe_pub hle xv.1 xv.2 (h xv hxv)

/-- `s[1] ^= d; P(r)`, keeping the listed public variables -/
theorem xp_step {g : AGeo} {M : Array Block} {nv : Nat} {env : Env} {st : St} {s : W4} {kws : List UInt32} {sv : Nat} (ai : AI g M nv env st s kws sv) (vs : List (Nat × Nat)) (pv : PubVars vs env)
    (t x : Nat) (Ed er : Expr) (d : UInt32) (r : Nat) (ht : t ≠ sv ∧ t < nv) (hx : x ≠ sv ∧ x < nv) (htx : t ≠ x) (hvs : ∀ xv ∈ vs, xv.1 ≠ t ∧ xv.1 ≠ x)
    (hEd : ∀ e' : Env, PubVars vs e' → EvalD e' Ed d.toNat) (her : ∀ e' : Env, evalE e' er = .ok (r, .pub)) (hr : r < 4294967296) (more : Stmt)
    {Q : Sig → Env → St → Prop}
    (hQ : ∀ e' s', AI g M nv e' s' (g.P kws r (addDomain s d)) kws sv → PubVars vs e' → RunsTo g.prog more e' s' Q) :
    RunsTo g.prog (.seq (xorPub 1 t x Ed sv) (.seq (.call none g.pidx [.var sv, er]) more)) env st Q := by
  refine runs_seq (Q := fun e' s' => AI g M nv e' s' (addDomain s d) kws sv ∧ PubVars vs e') ?_ ?_
  · refine ai_xor ai 1 t x _ d (by decide) ht hx htx ?_ ?_
    · intro e' hfr
      exact hEd e' (pv.frame (fun xv hxv => hfr xv.1 (hvs xv hxv).1 (hvs xv hxv).2))
    · intro e' s' _ hfr ai'
      exact ⟨rfl, ai', pv.frame (fun xv hxv => hfr xv.1 (hvs xv hxv).1 (hvs xv hxv).2)⟩
  · intro e1 s1 ⟨ai1, pv1⟩
    refine runs_seq (Q := fun e' s' => AI g M nv e' s' (g.P kws r (addDomain s d)) kws sv ∧ PubVars vs e') ?_ (fun e' s' h => hQ e' s' h.1 h.2)
    refine ai_perm ai1 er r hr (her e1) ?_
    intro e' s' hle ai'
    exact ⟨rfl, ai', pv1.lower hle⟩

/-- `s[3] ^= word(data)`, keeping the listed public variables (variable 1 is the data pointer) -/
theorem xd_step {g : AGeo} {M : Array Block} (dg : DGeo g M) {nv : Nat} {env : Env} {st : St} {s : W4} {kws : List UInt32} {sv : Nat} (ai : AI g M nv env st s kws sv) (vs : List (Nat × Nat)) (pv : PubVars vs env)
    (off : Nat) (dat : Bytes) (hd : BytesV dg.XD off dat) {dv : Nat} (he1 : env[dv]? = some (mkPtr dg.bd (dg.based + off), .pub))
    (t x : Nat) (loads : List (Nat × Nat)) (E : Expr) (c : UInt32) (ht : t ≠ sv ∧ t ≠ dv ∧ t < nv) (hx : x ≠ sv ∧ x ≠ dv ∧ x < nv) (htx : t ≠ x) (hl0 : loads ≠ [])
    (hall : ∀ yo ∈ loads, yo.1 ≠ sv ∧ yo.1 ≠ dv ∧ yo.1 < nv ∧ yo.1 ≠ t ∧ yo.1 ≠ x ∧ yo.2 < dat.length) (hnd : (loads.map Prod.fst).Nodup)
    (hvs : ∀ xv ∈ vs, xv.1 ≠ t ∧ xv.1 ≠ x ∧ xv.1 ∉ loads.map Prod.fst)
    (hE : ∀ e' : Env, (∀ yo ∈ loads, EnvHas e' yo.1 (dat.getD yo.2 0).toNat) → EvalD e' E c.toNat) :
    RunsTo g.prog (xorData 3 t x loads E sv dv) env st (fun sig e' s' => sig = .normal ∧ AI g M nv e' s' (absorbW s c) kws sv ∧ PubVars vs e') := by
  refine ai_xor_data dg ai off dat hd he1 3 t x loads E c (by decide) ht hx htx hl0 hall hnd hE ?_
  intro e' s' _ hfr ai'
  exact ⟨rfl, ai', pv.frame (fun xv hxv => hfr xv.1 (hvs xv hxv).1 (hvs xv hxv).2.1 (hvs xv hxv).2.2)⟩

theorem setupBody_unfold (pidx pk : Nat) : setupBody pidx pk =
    .seq zeroStmt (.seq (.call none pidx [.var 0, rc pk])
      (.seq (xorPub 1 7 8 (.cast .u32 .u8 (.var 2))) (.seq (.call none pidx [.var 0, rc 5]) (.seq (xorData 3 9 14 [(10, 3), (11, 2), (12, 1), (13, 0)] (e32 10 11 12 13))
      (.seq (xorPub 1 15 16 (.cast .u32 .u8 (.var 2))) (.seq (.call none pidx [.var 0, rc 5]) (.seq (xorData 3 17 22 [(18, 7), (19, 6), (20, 5), (21, 4)] (e32 18 19 20 21))
      (.seq (xorPub 1 23 24 (.cast .u32 .u8 (.var 2))) (.seq (.call none pidx [.var 0, rc 5]) (xorData 3 25 30 [(26, 11), (27, 10), (28, 9), (29, 8)] (e32 26 27 28 29))))))))))) := rfl

theorem evalD_dom2 {e : Env} {d8 : UInt8} (h : e[2]? = some (d8.toNat, .pub)) : EvalD e (.cast .u32 .u8 (.var 2)) d8.toUInt32.toNat := by
  have := (EvalD.var (EnvHas.of_pub h)).cast .u32 .u8
  rw [castVal_u32_u8'] at this
  simpa [UInt8.toNat_toUInt32] using this

/-- **the body of `tinyjambu_setup_*`** -/
theorem setup_body (g : AGeo) {M : Array Block} (dg : DGeo g M) (pk : Nat) (hpk : pk < 256) (env : Env) (st : St) (kws : List UInt32) (off : Nat) (nonce : Bytes) (d8 : UInt8)
    (mk : MK g M st kws) (hes : env.size = 31) (h0 : env[0]? = some (mkPtr g.bs g.baseS, .pub))
    (h1 : env[1]? = some (mkPtr dg.bd (dg.based + off), .pub)) (h2 : env[2]? = some (d8.toNat, .pub))
    (hd : BytesV dg.XD off nonce) (hn : nonce.length = 12) :
    RunsTo g.prog (setupBody g.pidx pk) env st (fun sig e' s' => sig = .normal ∧ AI g M 31 e' s' (setup (g.P kws) pk nonce d8.toUInt32) kws) := by
  rw [setupBody_unfold]
  let vs : List (Nat × Nat) := [(1, mkPtr dg.bd (dg.based + off)), (2, d8.toNat)]
  have hdom : ∀ e' : Env, PubVars vs e' → EvalD e' (.cast .u32 .u8 (.var 2)) d8.toUInt32.toNat := fun e' pv => evalD_dom2 (pv (2, d8.toNat) (by simp [vs]))
  have hp1 : ∀ e' : Env, PubVars vs e' → e'[1]? = some (mkPtr dg.bd (dg.based + off), .pub) := fun e' pv => pv (1, mkPtr dg.bd (dg.based + off)) (by simp [vs])
  have nth : ∀ k, k < 12 → ∃ b, nonce[k]? = some b ∧ nonce.getD k 0 = b := fun k hk => ⟨nonce[k]'(by omega), List.getElem?_eq_getElem (by omega), by simp [List.getD_eq_getElem?_getD, List.getElem?_eq_getElem (show k < nonce.length by omega)]⟩
  refine runs_seq (Q := fun e' s' => AI g M 31 e' s' W4.zero kws ∧ PubVars vs e') ((setup_zero mk hes (by decide) h0).weaken ?_) ?_
  · intro sig e' s' ⟨hs, ai, hfr⟩
    refine ⟨hs, ai, fun xv hxv => ?_⟩
    simp only [vs, List.mem_cons, List.mem_nil_iff, or_false] at hxv
    rcases hxv with h | h <;> rw [h]
    · rw [hfr 1 (by omega)]; exact h1
    · rw [hfr 2 (by omega)]; exact h2
  · intro e0 s0 ⟨ai0, pv0⟩
    refine runs_seq (Q := fun e' s' => AI g M 31 e' s' (g.P kws pk W4.zero) kws ∧ PubVars vs e') ?_ ?_
    · exact ai_perm ai0 (rc pk) pk (by omega) (evalE_rc _ pk (by omega)) (fun e' s' hle ai' => ⟨rfl, ai', pv0.lower hle⟩)
    · intro e1 s1 ⟨ai1, pv1⟩
      -- three nonce words
      refine xp_step ai1 vs pv1 7 8 _ (rc 5) d8.toUInt32 5 (by decide) (by decide) (by decide) (by intro xv hxv; simp only [vs, List.mem_cons, List.mem_nil_iff, or_false] at hxv; rcases hxv with h | h <;> rw [h] <;> simp)
        hdom (fun e' => evalE_rc e' 5 (by decide)) (by decide) _ ?_
      intro e2 s2 ai2 pv2
      refine runs_seq (Q := fun e' s' => AI g M 31 e' s' (absorbW (g.P kws 5 (addDomain (g.P kws pk W4.zero) d8.toUInt32)) (loadAt nonce 0)) kws ∧ PubVars vs e') ?_ ?_
      · refine (xd_step dg ai2 vs pv2 off nonce hd (hp1 e2 pv2) 9 14 [(10, 3), (11, 2), (12, 1), (13, 0)] (e32 10 11 12 13) (loadAt nonce 0) (by decide) (by decide) (by decide) (by simp)
          (by intro yo hyo; simp only [List.mem_cons, List.mem_nil_iff, or_false] at hyo; rcases hyo with h | h | h | h <;> rw [h] <;> simp only [hn] <;> omega) (by decide)
          (by intro xv hxv; simp only [vs, List.mem_cons, List.mem_nil_iff, or_false] at hxv; rcases hxv with h | h <;> rw [h] <;> simp)
          (fun e' hh => evalD_e32 (hh (10, 3) (by simp)) (hh (11, 2) (by simp)) (hh (12, 1) (by simp)) (hh (13, 0) (by simp)))).weaken ?_
        intro sig e' s' h; exact h
      · intro e3 s3 ⟨ai3, pv3⟩
        refine xp_step ai3 vs pv3 15 16 _ (rc 5) d8.toUInt32 5 (by decide) (by decide) (by decide) (by intro xv hxv; simp only [vs, List.mem_cons, List.mem_nil_iff, or_false] at hxv; rcases hxv with h | h <;> rw [h] <;> simp)
          hdom (fun e' => evalE_rc e' 5 (by decide)) (by decide) _ ?_
        intro e4 s4 ai4 pv4
        refine runs_seq (Q := fun e' s' => AI g M 31 e' s' (absorbW (g.P kws 5 (addDomain (absorbW (g.P kws 5 (addDomain (g.P kws pk W4.zero) d8.toUInt32)) (loadAt nonce 0)) d8.toUInt32)) (loadAt nonce 4)) kws ∧ PubVars vs e') ?_ ?_
        · refine (xd_step dg ai4 vs pv4 off nonce hd (hp1 e4 pv4) 17 22 [(18, 7), (19, 6), (20, 5), (21, 4)] (e32 18 19 20 21) (loadAt nonce 4) (by decide) (by decide) (by decide) (by simp)
            (by intro yo hyo; simp only [List.mem_cons, List.mem_nil_iff, or_false] at hyo; rcases hyo with h | h | h | h <;> rw [h] <;> simp only [hn] <;> omega) (by decide)
            (by intro xv hxv; simp only [vs, List.mem_cons, List.mem_nil_iff, or_false] at hxv; rcases hxv with h | h <;> rw [h] <;> simp)
            (fun e' hh => evalD_e32 (hh (18, 7) (by simp)) (hh (19, 6) (by simp)) (hh (20, 5) (by simp)) (hh (21, 4) (by simp)))).weaken ?_
          intro sig e' s' h; exact h
        · intro e5 s5 ⟨ai5, pv5⟩
          refine xp_step ai5 vs pv5 23 24 _ (rc 5) d8.toUInt32 5 (by decide) (by decide) (by decide) (by intro xv hxv; simp only [vs, List.mem_cons, List.mem_nil_iff, or_false] at hxv; rcases hxv with h | h <;> rw [h] <;> simp)
            hdom (fun e' => evalE_rc e' 5 (by decide)) (by decide) _ ?_
          intro e6 s6 ai6 pv6
          refine (xd_step dg ai6 vs pv6 off nonce hd (hp1 e6 pv6) 25 30 [(26, 11), (27, 10), (28, 9), (29, 8)] (e32 26 27 28 29) (loadAt nonce 8) (by decide) (by decide) (by decide) (by simp)
            (by intro yo hyo; simp only [List.mem_cons, List.mem_nil_iff, or_false] at hyo; rcases hyo with h | h | h | h <;> rw [h] <;> simp only [hn] <;> omega) (by decide)
            (by intro xv hxv; simp only [vs, List.mem_cons, List.mem_nil_iff, or_false] at hxv; rcases hxv with h | h <;> rw [h] <;> simp)
            (fun e' hh => evalD_e32 (hh (26, 11) (by simp)) (hh (27, 10) (by simp)) (hh (28, 9) (by simp)) (hh (29, 8) (by simp)))).weaken ?_
          intro sig e' s' ⟨hs, ai', _⟩
          exact ⟨hs, ai'⟩

/-- **`tinyjambu_setup_*(state, nonce, domain)` as a call** -/
theorem setup_call (g : AGeo) {M : Array Block} (dg : DGeo g M) (pk : Nat) (hpk : pk < 256) (fn : Nat) (fd : FunDecl) (hprog : g.prog[fn]? = some fd)
    (hbody : fd.body = setupBody g.pidx pk) (hp : fd.nparams = 3) (hv : fd.nvars = 31) (ha : fd.allocs = [])
    (env : Env) (st : St) (es en ed : Expr) (kws : List UInt32) (off : Nat) (nonce : Bytes) (d8 : UInt8)
    (mk : MK g M st kws) (hes : evalE env es = .ok (mkPtr g.bs g.baseS, .pub)) (hen : evalE env en = .ok (mkPtr dg.bd (dg.based + off), .pub))
    (hed : evalE env ed = .ok (d8.toNat, .pub)) (hd : BytesV dg.XD off nonce) (hn : nonce.length = 12) :
    RunsTo g.prog (.call none fn [es, en, ed]) env st (fun sig e s' => sig = .normal ∧ e = env ∧ MI g M s' (setup (g.P kws) pk nonce d8.toUInt32) kws) := by
  let vs : List LVal := [(mkPtr g.bs g.baseS, .pub), (mkPtr dg.bd (dg.based + off), .pub), (d8.toNat, .pub)]
  have hent : (enterFun fd vs st.mem).2 = st.mem := by simp only [enterFun, ha, allocLocals]
  have henv : (enterFun fd vs st.mem).1 = (vs ++ List.replicate 28 (0, Lab.undef)).toArray := by simp only [enterFun, ha, allocLocals, hp, hv]
  refine runs_call_none fd vs hprog (by simp only [evalArgs, hes, hen, hed]; rfl) (by rw [hp]; rfl) ?_
  rw [hbody, hent, henv]
  refine (setup_body g dg pk hpk _ { st with mem := st.mem } kws off nonce d8 ⟨mk.klen, mk.obj, mk.oth, mk.msz, mk.ent⟩ rfl rfl rfl rfl hd hn).weaken ?_
  intro sig e2 s2 ⟨_, ai2⟩
  exact ⟨rfl, rfl, ai2.toMI.extract _ (by rw [ai2.msz]; exact mk.msz)⟩

theorem evalD_byteVal {e : Env} {w : Nat} {v : UInt32} (hw : EnvHas e w v.toNat) (j : Nat) (hj : j < 4) : EvalD e (byteVal w j) (byteOf v.toNat j).toNat := by
  have hv := UInt32.toNat_lt v
  unfold byteVal
  match j, hj with
  | 0, _ =>
    have := (EvalD.var hw).cast .u8 .u32
    rw [castVal_u8_u32] at this
    simpa [byteOf_toNat] using this
  | 1, _ =>
    have := ((EvalD.var hw).shiftLit .shr .u32 8 (v.toNat >>> 8) rfl (by simp [binVal, Ty.bits, Ty.signed])).cast .u8 .u32
    rw [castVal_u8_u32] at this
    simpa [byteOf_toNat, Nat.shiftRight_eq_div_pow] using this
  | 2, _ =>
    have := ((EvalD.var hw).shiftLit .shr .u32 16 (v.toNat >>> 16) rfl (by simp [binVal, Ty.bits, Ty.signed])).cast .u8 .u32
    rw [castVal_u8_u32] at this
    simpa [byteOf_toNat, Nat.shiftRight_eq_div_pow] using this
  | 3, _ =>
    have := ((EvalD.var hw).shiftLit .shr .u32 24 (v.toNat >>> 24) rfl (by simp [binVal, Ty.bits, Ty.signed])).cast .u8 .u32
    rw [castVal_u8_u32] at this
    simpa [byteOf_toNat, Nat.shiftRight_eq_div_pow] using this

/-- one byte written to a block other than the state object: the ghost memory gets the same byte -/
theorem out_store {g : AGeo} {M : Array Block} {nv : Nat} {env : Env} {st : St} {s : W4} {kws : List UInt32} {sv : Nat} (ai : AI g M nv env st s kws sv)
    (bo baseo q : Nat) (XO : Array LByte) (hne : bo ≠ g.bs) (hMo : M[bo]? = some ⟨XO, baseo⟩) (hlt : baseo + XO.size < ptrBase) (hq : q < XO.size)
    (ae ve : Expr) (b : UInt8) (hae : evalE env ae = .ok (mkPtr bo (baseo + q), .pub)) (hve : EvalD env ve b.toNat)
    {Q : Sig → Env → St → Prop}
    (hQ : ∀ s' l, l ≠ Lab.undef → AI g (setBlock M bo (XO.setIfInBounds q (b, l))) nv env s' s kws sv → Q .normal env s') :
    RunsTo g.prog (.store .u8 ae ve) env st Q := by
  have hrel := ai.oth bo hne
  rw [hMo] at hrel
  cases hb : st.mem[bo]? with
  | none => rw [hb] at hrel; exact hrel.elim
  | some blk =>
    rw [hb] at hrel
    have hbase : blk.base = baseo := hrel.1
    have hle : BytesLe blk.bytes XO := hrel.2
    have hm : st.mem[bo]? = some ⟨blk.bytes, baseo⟩ := by rw [hb, ← hbase]
    obtain ⟨l, hev, hl⟩ := hve
    refine runs_store (mkPtr bo (baseo + q)) b.toNat bo q 1 l rfl hae hev (resolve_byte hm q (by rw [hle.size_eq]; omega) (by omega)) ?_
    rw [blockBytes_of hm]
    have hwr : writeLE blk.bytes q b.toNat l 1 = blk.bytes.setIfInBounds q (b, l) := by
      simp only [writeLE, Nat.mod_eq_of_lt (UInt8.toNat_lt b)]
      congr 2
      exact UInt8.toNat_inj.mp (by simp [Nat.toUInt8])
    rw [hwr]
    refine hQ _ l hl ⟨ai.esz, ai.e0, ai.klen, ?_, ?_, ?_, ai.ent⟩
    · obtain ⟨X, h1, h2, h3⟩ := ai.obj
      exact ⟨X, by show (setBlock st.mem bo _)[g.bs]? = _; rw [getElem?_setBlock', if_neg (fun e => hne e.symm)]; exact h1, h2, h3⟩
    · intro j hj
      show ORel BlockLe (setBlock st.mem bo _)[j]? (setBlock M bo _)[j]?
      rw [getElem?_setBlock', getElem?_setBlock']
      by_cases hjo : j = bo
      · simp only [hjo, if_true, hm, hMo, Option.map]
        exact ⟨rfl, ARel.set hle q (VLe.refl _)⟩
      · simp only [hjo, if_false]; exact ai.oth j hj
    · show (setBlock st.mem bo _).size = (setBlock M bo _).size
      rw [size_setBlock', size_setBlock']; exact ai.msz

theorem evalE_addrO {env : Env} (bo base c : Nat) (hbo30 : bo < 2 ^ 30) (hlt : base + c < ptrBase) (h1 : env[1]? = some (mkPtr bo base, .pub)) :
    evalE env (addrO c) = .ok (mkPtr bo (base + c), .pub) := by
  unfold addrO
  by_cases hz : c = 0
  · subst hz; simp only [if_true, evalE, h1, reduceCtorEq, if_false, Nat.add_zero]
  · simp only [hz, if_false, evalE, h1, reduceCtorEq, BinOp.needsPub2, BinOp.needsPub1, Bool.false_and, Bool.or_self, Bool.false_eq_true, binVal,
      Ty.modulus, Lab.join_pub_pub]
    rw [ptr_off bo base c hbo30 hlt]

/-- `byteStmt` with the output pointer in variable `ov` -/
def byteStmtV (ov t q w j : Nat) : Stmt := seqs [.assign t (addrD q ov), .store .u8 (.var t) (byteVal w j)]
theorem byteStmt_eq (t q w j : Nat) : byteStmt t q w j = byteStmtV 1 t q w j := rfl

/-- `p = out + c; *p = (uint8_t)(w >> 8j)` where variable `ov` is the output pointer -/
theorem out_byteStmt {g : AGeo} {M : Array Block} {nv : Nat} {env : Env} {st : St} {s : W4} {kws : List UInt32} {sv : Nat} (ai : AI g M nv env st s kws sv)
    (bo baseo oo c : Nat) (XO : Array LByte) (hne : bo ≠ g.bs) (hbo30 : bo < 2 ^ 30) (hMo : M[bo]? = some ⟨XO, baseo⟩) (hlt : baseo + XO.size < ptrBase)
    (hc : oo + c < XO.size) {ov : Nat} (he1 : env[ov]? = some (mkPtr bo (baseo + oo), .pub))
    (t w j : Nat) (v : UInt32) (ht : t ≠ sv ∧ t ≠ ov ∧ t < nv) (htw : t ≠ w) (hj : j < 4) (hw : EnvHas env w v.toNat)
    {Q : Sig → Env → St → Prop}
    (hQ : ∀ e' s' l, l ≠ Lab.undef → (∀ y, y ≠ t → e'[y]? = env[y]?) → e'.size = nv →
      AI g (setBlock M bo (XO.setIfInBounds (oo + c) (byteOf v.toNat j, l))) nv e' s' s kws sv → Q .normal e' s') :
    RunsTo g.prog (byteStmtV ov t c w j) env st Q := by
  have hes := ai.esz
  unfold byteStmtV
  simp only [seqs]
  have fr : ∀ y, y ≠ t → (setVar env t (mkPtr bo (baseo + oo + c), Lab.pub))[y]? = env[y]? := fun y hy => get_set_ne _ _ _ _ (fun e => hy e.symm)
  have ai1 : AI g M nv (setVar env t (mkPtr bo (baseo + oo + c), Lab.pub)) st s kws sv :=
    ⟨by rw [size_setVar]; exact hes, by rw [fr sv (fun e => ht.1 e.symm)]; exact ai.e0, ai.klen, ai.obj, ai.oth, ai.msz, ai.ent⟩
  refine runs_seq (Q := fun e s' => e = setVar env t (mkPtr bo (baseo + oo + c), Lab.pub) ∧ s' = st)
    (runs_assign _ (evalE_addrD bo (baseo + oo) c hbo30 (by omega) he1) ⟨rfl, rfl, rfl⟩) ?_
  intro e s' ⟨he, hs⟩; rw [he, hs]
  have hw' : EnvHas (setVar env t (mkPtr bo (baseo + oo + c), Lab.pub)) w v.toNat := by
    obtain ⟨l, h1, h2⟩ := hw
    exact ⟨l, by rw [fr w (fun e => htw e.symm)]; exact h1, h2⟩
  refine out_store ai1 bo baseo (oo + c) XO hne hMo hlt hc (.var t) (byteVal w j) (byteOf v.toNat j)
    (by simp only [evalE, get_set_eq _ _ _ (show t < env.size from by omega), reduceCtorEq, if_false, Nat.add_assoc]) (evalD_byteVal hw' j hj) ?_
  intro s'' l hl ai'
  exact hQ _ s'' l hl fr (by rw [size_setVar]; exact hes) ai'

/-- four consecutive output bytes: a little-endian word -/
theorem out_word {g : AGeo} {M : Array Block} {nv : Nat} {env : Env} {st : St} {s : W4} {kws : List UInt32} {sv : Nat} (ai : AI g M nv env st s kws sv)
    (bo baseo oo c : Nat) (XO : Array LByte) (hne : bo ≠ g.bs) (hbo30 : bo < 2 ^ 30) (hMo : M[bo]? = some ⟨XO, baseo⟩) (hlt : baseo + XO.size < ptrBase)
    (hc : oo + c + 4 ≤ XO.size) {ov : Nat} (he1 : env[ov]? = some (mkPtr bo (baseo + oo), .pub))
    (t0 t1 t2 t3 w : Nat) (v : UInt32) (ht : (t0 ≠ sv ∧ t0 ≠ ov ∧ t0 < nv) ∧ (t1 ≠ sv ∧ t1 ≠ ov ∧ t1 < nv) ∧ (t2 ≠ sv ∧ t2 ≠ ov ∧ t2 < nv) ∧ (t3 ≠ sv ∧ t3 ≠ ov ∧ t3 < nv))
    (htw : t0 ≠ w ∧ t1 ≠ w ∧ t2 ≠ w ∧ t3 ≠ w) (hw : EnvHas env w v.toNat) :
    RunsTo g.prog (.seq (byteStmtV ov t0 c w 0) (.seq (byteStmtV ov t1 (c + 1) w 1) (.seq (byteStmtV ov t2 (c + 2) w 2) (byteStmtV ov t3 (c + 3) w 3)))) env st
      (fun sig e' s' => sig = .normal ∧ e'.size = nv ∧ (∀ y, y ≠ t0 → y ≠ t1 → y ≠ t2 → y ≠ t3 → e'[y]? = env[y]?) ∧
        ∃ XO', AI g (setBlock M bo XO') nv e' s' s kws sv ∧ XO'.size = XO.size ∧ (∀ j, j < 4 → BV XO' (oo + c + j) (byteOf v.toNat j)) ∧
          (∀ p, (p < oo + c ∨ oo + c + 4 ≤ p) → XO'[p]? = XO[p]?)) := by
  have keepw : ∀ (e e' : Env) (t : Nat), t ≠ w → (∀ y, y ≠ t → e'[y]? = e[y]?) → EnvHas e w v.toNat → EnvHas e' w v.toNat := by
    intro e e' t htw hfr ⟨l, h1, h2⟩
    exact ⟨l, by rw [hfr w (fun e => htw e.symm)]; exact h1, h2⟩
  refine runs_seq (Q := fun e1 s1 => ∃ l0, l0 ≠ Lab.undef ∧ (∀ y, y ≠ t0 → e1[y]? = env[y]?) ∧ e1.size = nv ∧
      AI g (setBlock M bo (XO.setIfInBounds (oo + c) (byteOf v.toNat 0, l0))) nv e1 s1 s kws sv) ?_ ?_
  · exact out_byteStmt ai bo baseo oo c XO hne hbo30 hMo hlt (by omega) he1 t0 w 0 v ht.1 htw.1 (by decide) hw
      (fun e' s' l hl hfr hsz ai' => ⟨rfl, l, hl, hfr, hsz, ai'⟩)
  · intro e1 s1 ⟨l0, hl0, fr1, sz1, ai1⟩
    let X1 := XO.setIfInBounds (oo + c) (byteOf v.toNat 0, l0)
    have hM1 : (setBlock M bo X1)[bo]? = some ⟨X1, baseo⟩ := by rw [getElem?_setBlock', if_pos rfl, hMo]; rfl
    have z1 : X1.size = XO.size := by simp only [X1, Array.size_setIfInBounds]
    refine runs_seq (Q := fun e2 s2 => ∃ l1, l1 ≠ Lab.undef ∧ (∀ y, y ≠ t1 → e2[y]? = e1[y]?) ∧ e2.size = nv ∧
        AI g (setBlock M bo (X1.setIfInBounds (oo + (c + 1)) (byteOf v.toNat 1, l1))) nv e2 s2 s kws sv) ?_ ?_
    · refine out_byteStmt ai1 bo baseo oo (c + 1) X1 hne hbo30 hM1 (by rw [z1]; exact hlt) (by rw [z1]; omega) (by rw [fr1 ov (fun e => ht.1.2.1 e.symm)]; exact he1) t1 w 1 v ht.2.1 htw.2.1
        (by decide) (keepw env e1 t0 htw.1 fr1 hw) ?_
      intro e' s' l hl hfr hsz ai'
      rw [setBlock_setBlock M bo _ _ ⟨XO, baseo⟩ hMo] at ai'
      exact ⟨rfl, l, hl, hfr, hsz, ai'⟩
    · intro e2 s2 ⟨l1, hl1, fr2, sz2, ai2⟩
      let X2 := X1.setIfInBounds (oo + (c + 1)) (byteOf v.toNat 1, l1)
      have hM2 : (setBlock M bo X2)[bo]? = some ⟨X2, baseo⟩ := by rw [getElem?_setBlock', if_pos rfl, hMo]; rfl
      have z2 : X2.size = XO.size := by simp only [X2, Array.size_setIfInBounds]; exact z1
      refine runs_seq (Q := fun e3 s3 => ∃ l2, l2 ≠ Lab.undef ∧ (∀ y, y ≠ t2 → e3[y]? = e2[y]?) ∧ e3.size = nv ∧
          AI g (setBlock M bo (X2.setIfInBounds (oo + (c + 2)) (byteOf v.toNat 2, l2))) nv e3 s3 s kws sv) ?_ ?_
      · refine out_byteStmt ai2 bo baseo oo (c + 2) X2 hne hbo30 hM2 (by rw [z2]; exact hlt) (by rw [z2]; omega)
          (by rw [fr2 ov (fun e => ht.2.1.2.1 e.symm), fr1 ov (fun e => ht.1.2.1 e.symm)]; exact he1) t2 w 2 v ht.2.2.1 htw.2.2.1 (by decide)
          (keepw e1 e2 t1 htw.2.1 fr2 (keepw env e1 t0 htw.1 fr1 hw)) ?_
        intro e' s' l hl hfr hsz ai'
        rw [setBlock_setBlock M bo _ _ ⟨XO, baseo⟩ hMo] at ai'
        exact ⟨rfl, l, hl, hfr, hsz, ai'⟩
      · intro e3 s3 ⟨l2, hl2, fr3, sz3, ai3⟩
        let X3 := X2.setIfInBounds (oo + (c + 2)) (byteOf v.toNat 2, l2)
        have hM3 : (setBlock M bo X3)[bo]? = some ⟨X3, baseo⟩ := by rw [getElem?_setBlock', if_pos rfl, hMo]; rfl
        have z3 : X3.size = XO.size := by simp only [X3, Array.size_setIfInBounds]; exact z2
        refine out_byteStmt ai3 bo baseo oo (c + 3) X3 hne hbo30 hM3 (by rw [z3]; exact hlt) (by rw [z3]; omega)
          (by rw [fr3 ov (fun e => ht.2.2.1.2.1 e.symm), fr2 ov (fun e => ht.2.1.2.1 e.symm), fr1 ov (fun e => ht.1.2.1 e.symm)]; exact he1) t3 w 3 v ht.2.2.2 htw.2.2.2 (by decide)
          (keepw e2 e3 t2 htw.2.2.1 fr3 (keepw e1 e2 t1 htw.2.1 fr2 (keepw env e1 t0 htw.1 fr1 hw))) ?_
        intro e' s' l3 hl3 hfr hsz ai'
        rw [setBlock_setBlock M bo _ _ ⟨XO, baseo⟩ hMo] at ai'
        refine ⟨rfl, hsz, fun y h0 h1 h2 h3 => by rw [hfr y h3, fr3 y h2, fr2 y h1, fr1 y h0], _, ai', by simp only [Array.size_setIfInBounds]; exact z3, fun j hj => ?_, fun p hp => ?_⟩
        · have hsz0 : oo + c + 3 < XO.size := by omega
          match j, hj with
          | 0, _ => exact ⟨l0, by simp only [X3, X2, X1, Array.getElem?_setIfInBounds, Array.size_setIfInBounds]; simp [show ¬ oo + (c + 3) = oo + c + 0 from by omega, show ¬ oo + (c + 2) = oo + c + 0 from by omega, show ¬ oo + (c + 1) = oo + c + 0 from by omega, show oo + c < XO.size from by omega], hl0⟩
          | 1, _ => exact ⟨l1, by simp only [X3, X2, X1, Array.getElem?_setIfInBounds, Array.size_setIfInBounds]; simp [show ¬ oo + (c + 3) = oo + c + 1 from by omega, show ¬ oo + (c + 2) = oo + c + 1 from by omega, show oo + (c + 1) = oo + c + 1 from by omega, show oo + c + 1 < XO.size from by omega], hl1⟩
          | 2, _ => exact ⟨l2, by simp only [X3, X2, X1, Array.getElem?_setIfInBounds, Array.size_setIfInBounds]; simp [show ¬ oo + (c + 3) = oo + c + 2 from by omega, show oo + (c + 2) = oo + c + 2 from by omega, show oo + c + 2 < XO.size from by omega], hl2⟩
          | 3, _ => exact ⟨l3, by simp only [X3, X2, X1, Array.getElem?_setIfInBounds, Array.size_setIfInBounds]; simp [show oo + (c + 3) = oo + c + 3 from by omega, hsz0], hl3⟩
        · simp only [X3, X2, X1, Array.getElem?_setIfInBounds]
          simp [show ¬ oo + (c + 3) = p from by omega, show ¬ oo + (c + 2) = p from by omega, show ¬ oo + (c + 1) = p from by omega, show ¬ oo + c = p from by omega]

/-- `w = state->s[2]` followed by the four byte stores of `le_store_word32(tag + q, w)` -/
theorem tag_word {g : AGeo} {M : Array Block} {nv : Nat} {env : Env} {st : St} {s : W4} {kws : List UInt32} (ai : AI g M nv env st s kws)
    (bo baseo oo q : Nat) (XO : Array LByte) (hne : bo ≠ g.bs) (hbo30 : bo < 2 ^ 30) (hMo : M[bo]? = some ⟨XO, baseo⟩) (hlt : baseo + XO.size < ptrBase)
    (hq : oo + q + 4 ≤ XO.size) (he1 : env[1]? = some (mkPtr bo (baseo + oo), .pub))
    (w wt t0 t1 t2 t3 : Nat) (hv : 2 ≤ w ∧ w < nv ∧ 2 ≤ wt ∧ wt < nv ∧ 2 ≤ t0 ∧ t0 < nv ∧ 2 ≤ t1 ∧ t1 < nv ∧ 2 ≤ t2 ∧ t2 < nv ∧ 2 ≤ t3 ∧ t3 < nv)
    (hd : t0 ≠ w ∧ t1 ≠ w ∧ t2 ≠ w ∧ t3 ≠ w ∧ w ≠ wt) :
    RunsTo g.prog (tagWord w wt q t0 t1 t2 t3) env st (fun sig e' s' => sig = .normal ∧ e'.size = nv ∧ e'[1]? = env[1]? ∧
      ∃ XO', AI g (setBlock M bo XO') nv e' s' s kws ∧ XO'.size = XO.size ∧ (∀ j, j < 4 → BV XO' (oo + q + j) (byteOf s.c.toNat j)) ∧
        (∀ p, (p < oo + q ∨ oo + q + 4 ≤ p) → XO'[p]? = XO[p]?)) := by
  obtain ⟨X, hm, hXs, hw⟩ := ai.obj
  have hes := ai.esz; have hlt' := g.hlt
  have hwc : WV X 2 s.c := hw.2 2 s.c rfl
  obtain ⟨l, hrd, hl⟩ := hwc.read
  have haddr : evalE env (.bin .add .u64 (.var 0) (.lit 8)) = .ok (mkPtr g.bs (g.baseS + 4 * 2), .pub) := evalE_addrS g 2 (by decide) ai.e0
  unfold tagWord
  simp only [seqs]
  let E2 := setVar (setVar env wt (s.c.toNat, l)) w (s.c.toNat, l)
  have fr : ∀ y, y ≠ wt → y ≠ w → E2[y]? = env[y]? := fun y h1 h2 => by
    show (setVar (setVar env wt _) w _)[y]? = _
    rw [get_set_ne _ _ _ _ (fun e => h2 e.symm), get_set_ne _ _ _ _ (fun e => h1 e.symm)]
  have e2s : E2.size = nv := by simp only [E2, size_setVar]; exact hes
  have e2w : EnvHas E2 w s.c.toNat := ⟨l, get_set_eq _ _ _ (by rw [size_setVar]; omega), hl⟩
  refine runs_seq (Q := fun e s' => e = E2 ∧ s' = { st with leak := Ev.rd (mkPtr g.bs (g.baseS + 4 * 2)) 4 :: st.leak }) ?_ ?_
  · refine runs_seq (Q := fun e s' => e = setVar env wt (s.c.toNat, l) ∧ s' = { st with leak := Ev.rd (mkPtr g.bs (g.baseS + 4 * 2)) 4 :: st.leak }) ?_ ?_
    · exact runs_load (mkPtr g.bs (g.baseS + 4 * 2)) g.bs (4 * 2) 4 (s.c.toNat, l) rfl haddr
        (resolve_word hm (4 * 2) (by have := g.hal; omega) (by omega) (by omega)) (by rw [blockBytes_of hm]; exact hrd) ⟨rfl, rfl, rfl⟩
    · intro e s' ⟨he, hs⟩; rw [he, hs]
      exact runs_assign _ (by simp only [evalE, get_set_eq _ _ _ (show wt < env.size from by omega), hl, if_false]) ⟨rfl, rfl, rfl⟩
  · intro e s' ⟨he, hs⟩; rw [he, hs]
    have ai2 : AI g M nv E2 { st with leak := Ev.rd (mkPtr g.bs (g.baseS + 4 * 2)) 4 :: st.leak } s kws :=
      ⟨e2s, by rw [fr 0 (by omega) (by omega)]; exact ai.e0, ai.klen, ai.obj, ai.oth, ai.msz, ai.ent⟩
    refine (out_word ai2 bo baseo oo q XO hne hbo30 hMo hlt hq (by rw [fr 1 (by omega) (by omega)]; exact he1) t0 t1 t2 t3 w s.c (by omega) ⟨hd.1, hd.2.1, hd.2.2.1, hd.2.2.2.1⟩ e2w).weaken ?_
    intro sig e' s'' ⟨h1, h2, h3, XO', h4, h5, h6, h7⟩
    exact ⟨h1, h2, by rw [h3 1 (by omega) (by omega) (by omega) (by omega), fr 1 (by omega) (by omega)], XO', h4, h5, h6, h7⟩

end TJ.MiniC.Hoare
