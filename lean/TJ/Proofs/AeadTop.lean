/-
  TJ.Proofs.AeadTop — packet-level facts: lengths, split of body and tag.
-/
import TJ.Proofs.CheckTag
namespace TJ

theorem store32_length (w : UInt32) : (store32 w).length = 4 := rfl

theorem genTag_length (P : Perm) (pk : Nat) (s : W4) : (genTag P pk s).length = 8 := by
  simp [genTag, store32]

theorem aeadEncryptWith_length (P : Perm) (pk : Nat) (nonce ad m : Bytes) :
    (aeadEncryptWith P pk nonce ad m).length = m.length + 8 := by
  simp [aeadEncryptWith, encBody_length, genTag_length]

theorem take_body (body tag : Bytes) (h : tag.length = 8) :
    (body ++ tag).take ((body ++ tag).length - 8) = body := by
  simp [h]

theorem drop_body (body tag : Bytes) (h : tag.length = 8) :
    (body ++ tag).drop ((body ++ tag).length - 8) = tag := by
  simp [h]

/-- the state after nonce and associated data, shared by encrypt and decrypt -/
def aeadPre (P : Perm) (pk : Nat) (nonce ad : Bytes) : W4 :=
  absorbData P 0x30 5 (setup P pk nonce 0x10) ad

/-- the candidate plaintext decryption computes before it checks the tag -/
def aeadCandidate (P : Perm) (pk : Nat) (nonce ad c : Bytes) : Bytes :=
  (decBody P pk (aeadPre P pk nonce ad) (c.take (c.length - 8))).2

/-- the tag encryption attaches to message `m` -/
def aeadTag (P : Perm) (pk : Nat) (nonce ad m : Bytes) : Bytes :=
  genTag P pk (encBody P pk (aeadPre P pk nonce ad) m).1

theorem aeadEncryptWith_eq (P : Perm) (pk : Nat) (nonce ad m : Bytes) :
    aeadEncryptWith P pk nonce ad m =
      (encBody P pk (aeadPre P pk nonce ad) m).2 ++ aeadTag P pk nonce ad m := rfl

/-- decryption, unfolded once: verdict and buffer are `checkTag` of the candidate against
    the tag recomputed for that candidate -/
theorem aeadDecryptWith_eq (P : Perm) (pk : Nat) (nonce ad c : Bytes) (h : 8 ≤ c.length) :
    aeadDecryptWith P pk nonce ad c =
      let m' := aeadCandidate P pk nonce ad c
      let ct := checkTag m' (aeadTag P pk nonce ad m') (c.drop (c.length - 8))
      ⟨ct.1, some (c.length - 8), some ct.2⟩ := by
  have hn : ¬ c.length < 8 := by omega
  simp only [aeadDecryptWith, hn, if_false, aeadCandidate, aeadTag, aeadPre]
  rw [encBody_decBody]

end TJ
