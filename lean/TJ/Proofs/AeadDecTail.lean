/-
  TJ.Proofs.AeadDecTail — the 0–3 byte tail of tinyjambu_*_aead_decrypt on the regenerated term.
-/
import TJ.Proofs.AeadDecWords
namespace TJ.MiniC.Hoare
open TJ TJ.MiniC TJ.MiniC.PermC TJ.Gen.MiniC

/-- after the tail of the ciphertext body: the plaintext is complete, the input pointer stands at the tag -/
structure DF (g : AGeo) (eg : EGeo g) (M : Array Block) (nv : Nat) (kp : List (Nat × Nat)) (env : Env) (st : St) (s : W4) (kws : List UInt32) (pt tag2 : Bytes) : Prop where
  ai : AI g M nv env st s kws 9
  e2 : env[2]? = some (mkPtr eg.bm (eg.basem + (eg.moff + pt.length)), .pub)
  keep : PubVars kp env
  hm : ∃ XM, M[eg.bm]? = some ⟨XM, eg.basem⟩ ∧ XM.size = eg.msz ∧ BytesV XM (eg.moff + pt.length) tag2
  ho : ∃ XO, M[eg.bo]? = some ⟨XO, eg.baseo⟩ ∧ XO.size = eg.osz ∧ BytesV XO eg.oo pt ∧ (∀ p, p < eg.oo ∨ eg.oo + pt.length ≤ p → XO[p]? = eg.XO0[p]?)
  oth0 : ∀ j, j ≠ eg.bo → M[j]? = eg.M0[j]?
  room : eg.oo + pt.length ≤ eg.osz

/-- the second half of a tail branch: `s[3] ^= data; s[1] ^= k; <out bytes>; c += k`, from the state after the permutation with the
    plaintext word `pw` in variable 11 -/
theorem dec_tail_finish {g : AGeo} (eg : EGeo g) {M : Array Block} {v : Nat} (hv : 13 ≤ v) {kp : List (Nat × Nat)} (hkp : KeepOk kp)
    {env : Env} {st : St} {s : W4} {kws : List UInt32} {pt rest tag2 : Bytes}
    (di : DI g eg M (v + 49) kp env st s kws pt rest tag2) (hrl : 0 < rest.length ∧ rest.length < 4)
    (t2 x2 t3 x3 : Nat) (pw : UInt32) (k : Nat) (hk : k = rest.length) (ts : List Nat) (tb : Bytes)
    (h2 : v ≤ t2 ∧ t2 < v + 49 ∧ v ≤ x2 ∧ x2 < v + 49 ∧ t2 ≠ x2)
    (h3 : v ≤ t3 ∧ t3 < v + 49 ∧ v ≤ x3 ∧ x3 < v + 49 ∧ t3 ≠ x3) (hts : ∀ t ∈ ts, v ≤ t ∧ t < v + 49) (htsl : ts.length = k)
    (htb : tb.length = k ∧ ∀ i c, tb[i]? = some c → c = byteOf pw.toNat i)
    (s1 : W4) (e2 : Env) (st2 : St) (ai2 : AI g M (v + 49) e2 st2 s1 kws 9)
    (pv2 : PubVars ([(0, mkPtr eg.bo (eg.baseo + (eg.oo + pt.length))), (2, mkPtr eg.bm (eg.basem + (eg.moff + pt.length))), (3, rest.length)] ++ kp) e2)
    (h112 : EnvHas e2 11 pw.toNat) :
    RunsTo g.prog (.seq (xorPub 3 t2 x2 (.var 11) 9) (.seq (xorPub 1 t3 x3 (rc k) 9)
      (seqs (outBytes 0 11 0 ts ++ [.assign 2 (.bin .add .u64 (.var 2) (.lit k))])))) e2 st2
      (fun sig e' s' => sig = .normal ∧ ∃ M', DF g eg M' (v + 49) kp e' s' (addDomain (absorbW s1 pw) (UInt32.ofNat k)) kws (pt ++ tb) tag2) := by
  obtain ⟨XM, hMm, hXMs, hdm⟩ := di.hm
  obtain ⟨XO, hMo, hXOs, hdo, hout⟩ := di.ho
  have room := di.room; have hlto := eg.hlto; have hltm := eg.hltm
  generalize hvs : [(0, mkPtr eg.bo (eg.baseo + (eg.oo + pt.length))), (2, mkPtr eg.bm (eg.basem + (eg.moff + pt.length))), (3, rest.length)] = vs at pv2
  have vs3 : ∀ xv ∈ vs, xv.1 ≤ 3 := by rw [← hvs]; exact pv3_le
  have vsk : ∀ xv ∈ vs ++ kp, xv.1 < 13 ∧ xv.1 ≠ 11 := fun xv hxv => by
    rcases List.mem_append.mp hxv with h | h
    · have := vs3 xv h; omega
    · have := hkp xv h; omega
  have vsn : ∀ t, (13 ≤ t ∨ t = 11) → ∀ xv ∈ vs ++ kp, xv.1 ≠ t := fun t ht xv hxv => by have := vsk xv hxv; omega
  have p3 : ∀ {e : Env}, PubVars (vs ++ kp) e → e[0]? = some (mkPtr eg.bo (eg.baseo + (eg.oo + pt.length)), .pub) ∧
      e[2]? = some (mkPtr eg.bm (eg.basem + (eg.moff + pt.length)), .pub) := fun h => by
    have := (pubVars_append.mp h).1; rw [← hvs] at this; exact ⟨(pv3 this).1, (pv3 this).2.1⟩
  refine runs_seq (Q := fun e' s' => AI g M (v + 49) e' s' (absorbW s1 pw) kws 9 ∧ PubVars (vs ++ kp) e' ∧ EnvHas e' 11 pw.toNat) ?_ ?_
  · refine ai_xor ai2 3 t2 x2 (.var 11) pw (by decide) ⟨by omega, by omega⟩ ⟨by omega, by omega⟩ h2.2.2.2.2 ?_ ?_
    · intro e' hfr
      exact EvalD.var (h112.frame (hfr 11 (by omega) (by omega)))
    · intro e' s' _ hfr ai'
      exact ⟨rfl, ai', pv2.frame (fun xv hxv => hfr xv.1 (vsn _ (by omega) xv hxv) (vsn _ (by omega) xv hxv)), h112.frame (hfr 11 (by omega) (by omega))⟩
  intro e3 st3 ⟨ai3, pv3', h113⟩
  refine runs_seq (Q := fun e' s' => AI g M (v + 49) e' s' (addDomain (absorbW s1 pw) (UInt32.ofNat k)) kws 9 ∧ PubVars (vs ++ kp) e' ∧ EnvHas e' 11 pw.toNat) ?_ ?_
  · refine ai_xor ai3 1 t3 x3 _ (UInt32.ofNat k) (by decide) ⟨by omega, by omega⟩ ⟨by omega, by omega⟩ h3.2.2.2.2 (fun e' _ => evalD_small e' k (by omega)) ?_
    intro e' s' _ hfr ai'
    exact ⟨rfl, ai', pv3'.frame (fun xv hxv => hfr xv.1 (vsn _ (by omega) xv hxv) (vsn _ (by omega) xv hxv)), h113.frame (hfr 11 (by omega) (by omega))⟩
  intro e4 st4 ⟨ai4, pv4, h114⟩
  generalize hsF : addDomain (absorbW s1 pw) (UInt32.ofNat k) = sF at ai4
  have hts0 : ts ≠ [] := by intro h; rw [h] at htsl; simp at htsl; omega
  refine runs_seqs_append (Q := fun e' s' => e'.size = v + 49 ∧ PubVars (vs ++ kp) e' ∧ ∃ XO', AI g (setBlock M eg.bo XO') (v + 49) e' s' sF kws 9 ∧ XO'.size = XO.size ∧
      (∀ i, i < ts.length → BV XO' (eg.oo + pt.length + 0 + i) (byteOf pw.toNat (0 + i))) ∧
      (∀ p, (p < eg.oo + pt.length + 0 ∨ eg.oo + pt.length + 0 + ts.length ≤ p) → XO'[p]? = XO[p]?)) _ (by simp) _
      (by cases ts with | nil => exact absurd rfl hts0 | cons a b => simp [outBytes]) _ _ ?_ ?_
  · refine (out_bytes eg.bo eg.baseo (eg.oo + pt.length) eg.hbo eg.hbo30 pw ts 0 M XO e4 st4 ai4 hMo (by rw [hXOs]; exact hlto)
      (by rw [hXOs, htsl, hk]; omega) (by rw [htsl, hk]; omega) (p3 pv4).1 h114
      (fun t ht => by have := hts t ht; exact ⟨by omega, by omega, by omega, by omega⟩) hts0).weaken ?_
    intro sig e' s' ⟨g1, g2, g3, g4⟩
    refine ⟨g1, g2, pv4.frame (fun xv hxv => g3 xv.1 (fun hm => ?_)), g4⟩
    have := hts xv.1 hm; have := vsk xv hxv; omega
  intro e5 st5 ⟨hsz5, pv5, XO', ai5, hXO's, hbv, hkeep⟩
  have h52 := (p3 pv5).2
  show RunsTo g.prog (.assign 2 (.bin .add .u64 (.var 2) (.lit k))) e5 st5 _
  have hmb : eg.moff + pt.length + rest.length ≤ XM.size := by have := hdm.1; rw [List.length_append] at this; omega
  refine runs_assign (mkPtr eg.bm (eg.basem + (eg.moff + pt.length) + k), .pub) (by
    simp only [evalE, h52, reduceCtorEq, if_false, BinOp.needsPub2, BinOp.needsPub1, Bool.false_and, Bool.or_self, Bool.false_eq_true, binVal, Ty.modulus,
      Lab.join_pub_pub, ptr_off eg.bm (eg.basem + (eg.moff + pt.length)) k eg.hbm30 (by rw [hk]; omega)]) ?_
  have fr6 : ∀ y, y ≠ 2 → (setVar e5 2 (mkPtr eg.bm (eg.basem + (eg.moff + pt.length) + k), Lab.pub))[y]? = e5[y]? := fun y hy => get_set_ne _ _ _ _ (fun e => hy e.symm)
  have hlen : (pt ++ tb).length = pt.length + k := by rw [List.length_append, htb.1]
  refine ⟨rfl, setBlock M eg.bo XO', ai5.frame (by rw [size_setVar]; exact hsz5) (fr6 9 (by decide)) rfl rfl, ?_, ?_, ?_, ?_, ?_, ?_⟩
  · rw [get_set_eq _ _ _ (by omega), hlen, Nat.add_assoc, Nat.add_assoc]
  · exact (pubVars_append.mp pv5).2.frame (fun xv hxv => fr6 xv.1 (by have := hkp xv hxv; omega))
  · obtain ⟨XM', g1, g2, g3⟩ := msg_after eg (q := pt.length) (n := k) hMm hMo hXO's hdm (by rw [List.length_append]; omega)
      (fun p hp => hkeep p (Or.inr (by rw [htsl]; omega)))
    refine ⟨XM', g1, by rw [g2]; exact hXMs, ?_⟩
    rw [hlen]
    have e : (rest ++ tag2).drop k = tag2 := by rw [hk]; simp
    rw [e] at g3; exact g3
  · refine ⟨XO', by rw [getElem?_setBlock', if_pos rfl, hMo]; rfl, by rw [hXO's]; exact hXOs, ?_, fun p hp => ?_⟩
    · refine bytesV_snoc hdo hXO's (by rw [htb.1, hXOs, hk]; omega) (fun p hp => hkeep p (Or.inl (by omega))) (fun i c hc => ?_)
      have hi : i < ts.length := by
        by_cases h : i < tb.length
        · rw [htsl, ← htb.1]; exact h
        · rw [List.getElem?_eq_none (by omega)] at hc; cases hc
      have := hbv i hi
      rw [Nat.add_zero, Nat.zero_add, ← htb.2 i c hc] at this
      exact this
    · rw [hlen] at hp
      rw [hkeep p (by rw [htsl]; omega), hout p (by omega)]
  · intro j hj
    rw [getElem?_setBlock', if_neg hj]; exact di.oth0 j hj
  · rw [hlen, hk]; omega


/-- the public variables of the message phase: output pointer, input pointer, remaining length -/
def dvs {g : AGeo} (eg : EGeo g) (pt : Bytes) (n : Nat) : List (Nat × Nat) :=
  [(0, mkPtr eg.bo (eg.baseo + (eg.oo + pt.length))), (2, mkPtr eg.bm (eg.basem + (eg.moff + pt.length))), (3, n)]

/-- **the 0–3 byte tail of `tinyjambu_*_aead_decrypt`** -/
theorem dec_tail {g : AGeo} (eg : EGeo g) {M : Array Block} {v : Nat} (hv : 13 ≤ v) (pk : Nat) (hpk : pk < 256) {kp : List (Nat × Nat)} (hkp : KeepOk kp)
    {env : Env} {st : St} {s : W4} {kws : List UInt32} {pt rest tag2 : Bytes}
    (di : DI g eg M (v + 49) kp env st s kws pt rest tag2) (hl : rest.length < 4) :
    RunsTo g.prog (decTail g.pidx pk v) env st (fun sig e' s' => sig = .normal ∧ ∃ M',
      DF g eg M' (v + 49) kp e' s' (decBody (g.P kws) pk s rest).1 kws (pt ++ (decBody (g.P kws) pk s rest).2) tag2) := by
  have cond : ∀ c, c < 256 → evalE env (.bin .eq .u64 (.var 3) (.cast .u64 .i32 (.lit c))) = .ok (b2n (rest.length = c), .pub) := by
    intro c hc
    simp only [evalE, di.e3, reduceCtorEq, if_false, castVal_u64_i32_lit c hc, BinOp.needsPub2, BinOp.needsPub1, Bool.false_and, Bool.or_self,
      Bool.false_eq_true, binVal, Lab.join_pub_pub]
  have dil : ∀ l, DI g eg M (v + 49) kp env { st with leak := l } s kws pt rest tag2 := fun l =>
    ⟨di.ai.frame di.ai.esz rfl rfl rfl, di.e0, di.e2, di.e3, di.keep, di.hm, di.ho, di.oth0, di.room⟩
  obtain ⟨XM, hMm, hXMs, hdm⟩ := di.hm
  let dg : DGeo g M := ⟨eg.bm, eg.basem, XM, eg.hbm, eg.hbm30, by rw [hXMs]; exact eg.hltm, hMm⟩
  have hdmb : BytesV XM (eg.moff + pt.length) rest := bytesV_prefix hdm
  have vs3 : ∀ xv ∈ dvs eg pt rest.length, xv.1 ≤ 3 := pv3_le
  have vsk : ∀ xv ∈ dvs eg pt rest.length ++ kp, xv.1 < 13 ∧ xv.1 ≠ 11 := fun xv hxv => by
    rcases List.mem_append.mp hxv with h | h
    · have := vs3 xv h; omega
    · have := hkp xv h; omega
  have vsn : ∀ t, (13 ≤ t ∨ t = 11) → ∀ xv ∈ dvs eg pt rest.length ++ kp, xv.1 ≠ t :=
    fun t ht xv hxv => by have := vsk xv hxv; omega
  have pv0 : PubVars (dvs eg pt rest.length ++ kp) env :=
    pubVars_append.mpr ⟨pv3_mk di.e0 di.e2 di.e3, di.keep⟩
  have p2 : ∀ (e : Env), PubVars (dvs eg pt rest.length ++ kp) e →
      e[2]? = some (mkPtr eg.bm (eg.basem + (eg.moff + pt.length)), .pub) := fun _ h => (pv3 (pubVars_append.mp h).1).2.1
  have nl : ∀ (loads : List (Nat × Nat)), (∀ yo ∈ loads, 13 ≤ yo.1) → ∀ xv ∈ dvs eg pt rest.length ++ kp,
      xv.1 ∉ loads.map Prod.fst := by
    intro loads hl xv hxv hmem
    obtain ⟨yo, hyo, hy0⟩ := List.mem_map.mp hmem
    have := hl yo hyo; have := vsk xv hxv; omega
  generalize hs1 : g.P kws pk (addDomain s 0x50) = s1
  unfold decTail
  match rest, hl, di, cond, dil, hdm, hdmb, vs3, vsk, vsn, pv0, p2, nl with
  | [], _, di, cond, dil, hdm, hdmb, vs3, vsk, vsn, pv0, p2, nl =>
    obtain ⟨XO, hMo, hXOs, hdo, hout⟩ := di.ho
    refine runs_ite_false (by rw [cond 1 (by decide)]; rfl) (runs_ite_false (by rw [cond 2 (by decide)]; rfl) (runs_ite_false (by rw [cond 3 (by decide)]; rfl)
      (runs_skip ⟨rfl, M, (dil _).ai, by simpa [decBody] using di.e2, di.keep, ⟨XM, hMm, hXMs, by simpa [decBody] using hdm⟩,
        ⟨XO, hMo, hXOs, by simpa [decBody] using hdo, by simpa [decBody] using hout⟩, di.oth0, by simpa [decBody] using di.room⟩)))
  | [b0], _, di, cond, dil, hdm, hdmb, vs3, vsk, vsn, pv0, p2, nl =>
    refine runs_ite_true 1 (by rw [cond 1 (by decide)]; rfl) (by decide) ?_
    simp only [seqs]
    refine xp_step (dil _).ai _ pv0 (v + 14) (v + 15) _ (rc pk) 0x50 pk ⟨by omega, by omega⟩ ⟨by omega, by omega⟩ (by omega)
      (fun xv hxv => ⟨vsn _ (by omega) xv hxv, vsn _ (by omega) xv hxv⟩) (fun e' _ => evalD_rc80 e') (fun e' => evalE_rc e' pk (by omega)) (by omega) _ ?_
    intro e1 st1 ai1 pv1
    rw [hs1] at ai1
    refine runs_seq (Q := fun e' s' => AI g M (v + 49) e' s' s1 kws 9 ∧ PubVars (dvs eg pt 1 ++ kp) e' ∧ EnvHas e' 11 ((b0.toUInt32 ^^^ s1.c) &&& 0xFF).toNat) ?_ ?_
    · refine load_data_sq dg ai1 (eg.moff + pt.length) _ hdmb (p2 _ pv1) (v + 17) 11 [(v + 16, 0)] _ ((b0.toUInt32 ^^^ s1.c) &&& 0xFF)
        ⟨by omega, by omega, by omega, by simp only [List.map_cons, List.map_nil, List.mem_cons, List.mem_nil_iff, or_false]; omega⟩ ⟨by omega, by omega⟩ (by simp)
        (by intro yo hyo; simp only [List.mem_singleton] at hyo; rw [hyo]; simp <;> omega) (by simp) ?_ ?_
      · intro e' hh hx
        have hc := evalD_e8 (b0 := b0) (hh (v + 16, 0) (by simp))
        exact (hc.bitop (EvalD.var hx) .bxor .u32 (b0.toUInt32 ^^^ s1.c).toNat ⟨rfl, rfl⟩ (binVal_bxor_u32 _ s1.c)).bitop (EvalD.lit _ 255) .band .u32 _ ⟨rfl, rfl⟩
          (binVal_band_u32 _ 0xFF)
      · intro e' s' _ hfr h11 ai'
        exact ⟨rfl, ai', pv1.frame (fun xv hxv => hfr xv.1 (vsn _ (by omega) xv hxv) (vsn 11 (by omega) xv hxv)
          (nl _ (by intro yo hyo; simp only [List.mem_singleton] at hyo; rw [hyo]; simp <;> omega) xv hxv)), h11⟩
    intro e2 st2 ⟨ai2, pv2, h11⟩
    refine (dec_tail_finish eg hv hkp (dil st.leak) (by simp) (v + 18) (v + 19) (v + 20) (v + 21) ((b0.toUInt32 ^^^ s1.c) &&& 0xFF) 1 rfl [v + 22]
      [((b0.toUInt32 ^^^ s1.c) &&& 0xFF).toUInt8] ⟨by omega, by omega, by omega, by omega, by omega⟩ ⟨by omega, by omega, by omega, by omega, by omega⟩
      (by intro t ht; simp only [List.mem_singleton] at ht; omega) rfl
      ⟨rfl, fun i c hc => by
        cases i with
        | zero => rw [List.getElem?_cons_zero] at hc; rw [← Option.some.inj hc]; exact (byteOf_store _).1.symm
        | succ i => simp at hc⟩ s1 e2 st2 ai2 pv2 h11).weaken ?_
    intro sig e' s' ⟨h1, M', df⟩
    refine ⟨h1, M', ?_⟩
    have e : decBody (g.P kws) pk s [b0] = (addDomain (absorbW s1 ((b0.toUInt32 ^^^ s1.c) &&& 0xFF)) (UInt32.ofNat 1), [((b0.toUInt32 ^^^ s1.c) &&& 0xFF).toUInt8]) := by
      rw [← hs1]; rfl
    rw [e]; exact df
  | [b0, b1], _, di, cond, dil, hdm, hdmb, vs3, vsk, vsn, pv0, p2, nl =>
    refine runs_ite_false (by rw [cond 1 (by decide)]; rfl) (runs_ite_true 1 (by rw [cond 2 (by decide)]; rfl) (by decide) ?_)
    simp only [seqs]
    refine xp_step (dil _).ai _ pv0 (v + 23) (v + 24) _ (rc pk) 0x50 pk ⟨by omega, by omega⟩ ⟨by omega, by omega⟩ (by omega)
      (fun xv hxv => ⟨vsn _ (by omega) xv hxv, vsn _ (by omega) xv hxv⟩) (fun e' _ => evalD_rc80 e') (fun e' => evalE_rc e' pk (by omega)) (by omega) _ ?_
    intro e1 st1 ai1 pv1
    rw [hs1] at ai1
    refine runs_seq (Q := fun e' s' => AI g M (v + 49) e' s' s1 kws 9 ∧ PubVars (dvs eg pt 2 ++ kp) e' ∧ EnvHas e' 11 ((load16 b0 b1 ^^^ s1.c) &&& 0xFFFF).toNat) ?_ ?_
    · refine load_data_sq dg ai1 (eg.moff + pt.length) _ hdmb (p2 _ pv1) (v + 27) 11 [(v + 25, 1), (v + 26, 0)] _ ((load16 b0 b1 ^^^ s1.c) &&& 0xFFFF)
        ⟨by omega, by omega, by omega, by simp only [List.map_cons, List.map_nil, List.mem_cons, List.mem_nil_iff, or_false]; omega⟩ ⟨by omega, by omega⟩ (by simp)
        (by intro yo hyo; simp only [List.mem_cons, List.mem_nil_iff, or_false] at hyo; rcases hyo with h | h <;> rw [h] <;> simp <;> omega)
        (by simp only [List.map_cons, List.map_nil, List.nodup_cons, List.mem_cons, List.mem_nil_iff, or_false, not_false_eq_true, List.nodup_nil, and_true]; omega) ?_ ?_
      · intro e' hh hx
        have hc := evalD_e16 (b0 := b0) (b1 := b1) (hh (v + 25, 1) (by simp)) (hh (v + 26, 0) (by simp))
        exact (hc.bitop (EvalD.var hx) .bxor .u32 (load16 b0 b1 ^^^ s1.c).toNat ⟨rfl, rfl⟩ (binVal_bxor_u32 _ s1.c)).bitop (EvalD.lit _ 65535) .band .u32 _ ⟨rfl, rfl⟩
          (binVal_band_u32 _ 0xFFFF)
      · intro e' s' _ hfr h11 ai'
        exact ⟨rfl, ai', pv1.frame (fun xv hxv => hfr xv.1 (vsn _ (by omega) xv hxv) (vsn 11 (by omega) xv hxv)
          (nl _ (by intro yo hyo; simp only [List.mem_cons, List.mem_nil_iff, or_false] at hyo; rcases hyo with h | h <;> rw [h] <;> simp <;> omega) xv hxv)), h11⟩
    intro e2 st2 ⟨ai2, pv2, h11⟩
    refine (dec_tail_finish eg hv hkp (dil st.leak) (by simp) (v + 28) (v + 29) (v + 30) (v + 31) ((load16 b0 b1 ^^^ s1.c) &&& 0xFFFF) 2 rfl [v + 32, v + 33]
      [((load16 b0 b1 ^^^ s1.c) &&& 0xFFFF).toUInt8, (((load16 b0 b1 ^^^ s1.c) &&& 0xFFFF) >>> 8).toUInt8]
      ⟨by omega, by omega, by omega, by omega, by omega⟩ ⟨by omega, by omega, by omega, by omega, by omega⟩
      (by intro t ht; simp only [List.mem_cons, List.mem_nil_iff, or_false] at ht; omega) rfl
      ⟨rfl, fun i c hc => by
        match i, hc with
        | 0, hc => rw [List.getElem?_cons_zero] at hc; rw [← Option.some.inj hc]; exact (byteOf_store _).1.symm
        | 1, hc => rw [List.getElem?_cons_succ, List.getElem?_cons_zero] at hc; rw [← Option.some.inj hc]; exact (byteOf_store _).2.1.symm
        | i + 2, hc => simp at hc⟩ s1 e2 st2 ai2 pv2 h11).weaken ?_
    intro sig e' s' ⟨h1, M', df⟩
    refine ⟨h1, M', ?_⟩
    have e : decBody (g.P kws) pk s [b0, b1] = (addDomain (absorbW s1 ((load16 b0 b1 ^^^ s1.c) &&& 0xFFFF)) (UInt32.ofNat 2),
        [((load16 b0 b1 ^^^ s1.c) &&& 0xFFFF).toUInt8, (((load16 b0 b1 ^^^ s1.c) &&& 0xFFFF) >>> 8).toUInt8]) := by
      rw [← hs1]; rfl
    rw [e]; exact df
  | [b0, b1, b2], _, di, cond, dil, hdm, hdmb, vs3, vsk, vsn, pv0, p2, nl =>
    refine runs_ite_false (by rw [cond 1 (by decide)]; rfl) (runs_ite_false (by rw [cond 2 (by decide)]; rfl) (runs_ite_true 1 (by rw [cond 3 (by decide)]; rfl) (by decide) ?_))
    simp only [seqs]
    refine xp_step (dil _).ai _ pv0 (v + 34) (v + 35) _ (rc pk) 0x50 pk ⟨by omega, by omega⟩ ⟨by omega, by omega⟩ (by omega)
      (fun xv hxv => ⟨vsn _ (by omega) xv hxv, vsn _ (by omega) xv hxv⟩) (fun e' _ => evalD_rc80 e') (fun e' => evalE_rc e' pk (by omega)) (by omega) _ ?_
    intro e1 st1 ai1 pv1
    rw [hs1] at ai1
    refine runs_seq (Q := fun e' s' => AI g M (v + 49) e' s' s1 kws 9 ∧ PubVars (dvs eg pt 3 ++ kp) e' ∧ EnvHas e' 11 (load24 b0 b1 b2).toNat) ?_ ?_
    · refine load_data dg ai1 (eg.moff + pt.length) _ hdmb (p2 _ pv1) 11 [(v + 36, 1), (v + 37, 0), (v + 38, 2)] _ (load24 b0 b1 b2) ⟨by omega, by omega⟩ (by simp)
        (by intro yo hyo; simp only [List.mem_cons, List.mem_nil_iff, or_false] at hyo; rcases hyo with h | h | h <;> rw [h] <;> simp <;> omega)
        (by simp only [List.map_cons, List.map_nil, List.nodup_cons, List.mem_cons, List.mem_nil_iff, or_false, not_false_eq_true, List.nodup_nil, and_true]; omega)
        (fun e' hh => evalD_e24 (b0 := b0) (b1 := b1) (b2 := b2) (hh (v + 36, 1) (by simp)) (hh (v + 37, 0) (by simp)) (hh (v + 38, 2) (by simp))) ?_
      intro e' s' _ hfr h11 ai'
      exact ⟨rfl, ai', pv1.frame (fun xv hxv => hfr xv.1 (vsn 11 (by omega) xv hxv)
        (nl _ (by intro yo hyo; simp only [List.mem_cons, List.mem_nil_iff, or_false] at hyo; rcases hyo with h | h | h <;> rw [h] <;> simp <;> omega) xv hxv)), h11⟩
    intro e2 st2 ⟨ai2, pv2, h11⟩
    refine runs_seq (Q := fun e' s' => AI g M (v + 49) e' s' s1 kws 9 ∧ PubVars (dvs eg pt 3 ++ kp) e' ∧ EnvHas e' 11 ((load24 b0 b1 b2 ^^^ s1.c) &&& 0xFFFFFF).toNat) ?_ ?_
    · refine squeeze_xor_mask ai2 (v + 39) 11 (load24 b0 b1 b2) 0xFFFFFF ⟨by omega, by omega⟩ ⟨by omega, by omega⟩ (by omega) h11 ?_
      intro e' s' _ hfr h11' ai'
      exact ⟨rfl, ai', pv2.frame (fun xv hxv => hfr xv.1 (vsn _ (by omega) xv hxv) (vsn 11 (by omega) xv hxv)), h11'⟩
    intro e3 st3 ⟨ai3, pv3', h113⟩
    refine (dec_tail_finish eg hv hkp (dil st.leak) (by simp) (v + 40) (v + 41) (v + 42) (v + 43) ((load24 b0 b1 b2 ^^^ s1.c) &&& 0xFFFFFF) 3 rfl [v + 44, v + 45, v + 46]
      [((load24 b0 b1 b2 ^^^ s1.c) &&& 0xFFFFFF).toUInt8, (((load24 b0 b1 b2 ^^^ s1.c) &&& 0xFFFFFF) >>> 8).toUInt8, (((load24 b0 b1 b2 ^^^ s1.c) &&& 0xFFFFFF) >>> 16).toUInt8]
      ⟨by omega, by omega, by omega, by omega, by omega⟩ ⟨by omega, by omega, by omega, by omega, by omega⟩
      (by intro t ht; simp only [List.mem_cons, List.mem_nil_iff, or_false] at ht; omega) rfl
      ⟨rfl, fun i c hc => by
        match i, hc with
        | 0, hc => rw [List.getElem?_cons_zero] at hc; rw [← Option.some.inj hc]; exact (byteOf_store _).1.symm
        | 1, hc => rw [List.getElem?_cons_succ, List.getElem?_cons_zero] at hc; rw [← Option.some.inj hc]; exact (byteOf_store _).2.1.symm
        | 2, hc => rw [List.getElem?_cons_succ, List.getElem?_cons_succ, List.getElem?_cons_zero] at hc; rw [← Option.some.inj hc]; exact (byteOf_store _).2.2.1.symm
        | i + 3, hc => simp at hc⟩ s1 e3 st3 ai3 pv3' h113).weaken ?_
    intro sig e' s' ⟨h1, M', df⟩
    refine ⟨h1, M', ?_⟩
    have e : decBody (g.P kws) pk s [b0, b1, b2] = (addDomain (absorbW s1 ((load24 b0 b1 b2 ^^^ s1.c) &&& 0xFFFFFF)) (UInt32.ofNat 3),
        [((load24 b0 b1 b2 ^^^ s1.c) &&& 0xFFFFFF).toUInt8, (((load24 b0 b1 b2 ^^^ s1.c) &&& 0xFFFFFF) >>> 8).toUInt8,
         (((load24 b0 b1 b2 ^^^ s1.c) &&& 0xFFFFFF) >>> 16).toUInt8]) := by
      rw [← hs1]; rfl
    rw [e]; exact df

end TJ.MiniC.Hoare
