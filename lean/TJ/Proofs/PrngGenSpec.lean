import TJ.Proofs.PrngCarryLoop
namespace TJ.MiniC.Hoare
open TJ TJ.MiniC TJ.MiniC.PermC TJ.Gen.MiniC

def genReseedChk : Stmt := seqs [.load 8 .u32 (.bin .add .u64 (.var 3) (.lit 64)), .load 9 .u32 (.bin .add .u64 (.var 3) (.lit 68)),
  .ite (.bin .gt .u32 (.var 8) (.var 9)) (.call (some 10) idx_tinyjambu_prng_reseed [.var 0]) .skip]
def genLen : Stmt := .ite (.bin .lt .u64 (.var 2) (.cast .u64 .i32 (.lit 32))) (.assign 4 (.var 2)) (.assign 4 (.cast .u64 .i32 (.lit 32)))
def genCopy : Stmt := seqs [.memcpy (.var 1) (.var 5) (.var 4), .assign 11 (.var 1)]
def genCarry0 : Stmt := seqs [.load 12 .u32 (.bin .add .u64 (.var 3) (.lit 64)), .assign 6 (.var 12)]
def genCount : Stmt := seqs [.assign 17 (.bin .add .u64 (.var 3) (.lit 64)), .load 18 .u32 (.var 17), .store .u32 (.var 17) (.bin .add .u32 (.var 18) (.lit 1)), .load 19 .u32 (.var 17)]

def genIter : Stmt := .ite (.bin .gt .u64 (.var 2) (.cast .u64 .i32 (.lit 0)))
  (seqs [genReseedChk, genLen, .call none idx_tinyjambu_hash [.var 5, .var 3, .lit 32], genCopy,
         .call none idx_tinyjambu_hash_prefixed [.var 5, .cast .u8 .i32 (.lit 3), .var 3], genCarry0, carryStmt, genCount,
         .assign 1 (.bin .add .u64 (.var 1) (.var 4)), .assign 2 (.bin .sub .u64 (.var 2) (.var 4))])
  .brk

def genBody : Stmt := seqs [.assign 3 (.var 0), .ite (.un .lnot .u64 (.var 2)) (.ret none) .skip, .loop genIter, .call none idx_tinyjambu_clean [.var 5, .lit 32]]

theorem gen_body_eq : f_tinyjambu_prng_generate.body = genBody := rfl

theorem prog_prng_generate : prog[idx_tinyjambu_prng_generate]? = some f_tinyjambu_prng_generate := by
  simp only [prog, idx_tinyjambu_prng_generate, List.getElem?_cons_succ, List.getElem?_cons_zero]

/-- the generator state as the source sees it: `V`, `C`, counter, limit, and the entropy script still to be delivered -/
structure GS where
  V : Bytes
  C : Bytes
  rc : Nat
  rl : Nat
  ent : List Delivery

def GS.reseed (g : GS) : GS :=
  let V' := hashDf 1 g.V (seedOf (g.ent.headD ([], 0)) g.V)
  { V := V', C := hashDf 0 V' [], rc := 1, rl := g.rl, ent := g.ent.tail }

def GS.auto (g : GS) : GS := if g.rc > g.rl then g.reseed else g

/-- one output block: `Hash(V)`, then `V ← V + Hash(0x03 ‖ V) + C + reseed_counter`, `reseed_counter + 1` (mod 2^32) -/
def GS.block (g : GS) : Bytes × GS :=
  (hash g.V, { g with V := vAdvance g.V (hashPrefixed 3 g.V) g.C g.rc.toUInt32, rc := (g.rc + 1) % 4294967296 })

/-- the block loop of `tinyjambu_prng_generate` -/
def GS.loop (g : GS) (size : Nat) : Bytes × GS :=
  if size = 0 then ([], g) else
  let b := g.auto.block
  let r := GS.loop b.2 (size - min 32 size)
  (b.1.take (min 32 size) ++ r.1, r.2)
termination_by size
decreasing_by omega

end TJ.MiniC.Hoare
