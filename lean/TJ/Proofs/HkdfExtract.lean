/-
  TJ.Proofs.HkdfExtract — tinyjambu_hmac_free and tinyjambu_hkdf_extract as calls on the regenerated program; the HKDF state object.
-/
import TJ.Proofs.HmacOneShot
namespace TJ.MiniC.Hoare
open TJ TJ.MiniC TJ.MiniC.PermC TJ.Gen.MiniC

/-- **`tinyjambu_hmac_free(state)` as a call** (state object local to the caller: base 0, 56 bytes) -/
theorem hmac_free_call (env : Env) (st : St) (ep : Expr) (b : Nat) (blk : Block) (hb30 : b < 2 ^ 30) (hep : evalE env ep = .ok (mkPtr b 0, .pub))
    (hb : st.mem[b]? = some blk) (hbase : blk.base = 0) (hsz : blk.bytes.size = 56) :
    RunsTo prog (.call none idx_tinyjambu_hmac_free [ep]) env st (fun sig e s => sig = .normal ∧ e = env ∧ s.ent = st.ent ∧
      s.mem = setBlock st.mem b (Array.replicate 56 (0, Lab.pub))) := by
  refine runs_call_none f_tinyjambu_hmac_free [(mkPtr b 0, .pub)] prog_hmac_free (by simp only [evalArgs, hep]) rfl ?_
  have hent : enterFun f_tinyjambu_hmac_free [(mkPtr b 0, .pub)] st.mem = (#[(mkPtr b 0, .pub)], st.mem) := rfl
  rw [hent]
  have hbody : f_tinyjambu_hmac_free.body = .ite (.var 0) (.call none idx_tinyjambu_hash_free [.var 0]) .skip := rfl
  rw [hbody]
  have hne : mkPtr b 0 ≠ 0 := by unfold mkPtr ptrBase; omega
  refine runs_ite_true (mkPtr b 0) rfl hne ?_
  refine (free_call #[(mkPtr b 0, .pub)] { st with leak := Ev.br true :: st.leak } (.var 0) b blk rfl hb hbase hsz).weaken ?_
  intro sig e s ⟨_, _, g3, g4⟩
  refine ⟨rfl, rfl, g3, ?_⟩
  show s.mem.extract 0 st.mem.size = _
  rw [g4]
  exact extract_setBlock st.mem b _


/-- the 72-byte HKDF state object represents `k`; `counter` and `posn` are public (the code branches on them); the `out` field is only
    required to be defined when `od` holds (a fresh object has no `out` yet) -/
structure KObjV (X : Array LByte) (k : KState) (od : Prop) : Prop where
  sz : 66 ≤ X.size
  prk : BytesV X 0 k.prk
  prkl : k.prk.length = 32
  out : od → BytesV X 32 k.out
  outl : k.out.length = 32
  cnt : X[64]? = some (k.counter, .pub)
  posn : X[65]? = some (k.posn, .pub)

theorem prog_hkdf_extract : prog[idx_tinyjambu_hkdf_extract]? = some f_tinyjambu_hkdf_extract := by
  simp only [prog, idx_tinyjambu_hkdf_extract, List.getElem?_cons_succ, List.getElem?_cons_zero]

theorem hmac_length (key m : Bytes) : (hmac key m).length = 32 := by
  unfold hmac hmacFinalize
  simp only []
  exact finalize_length _

/-- one byte store of a public constant into a block -/
theorem store_const_byte {env : Env} {st : St} (ea : Expr) (c : Nat) (hc : c < 256) (b base q : Nat) (X : Array LByte)
    (hea : evalE env ea = .ok (mkPtr b (base + q), .pub)) (hm : st.mem[b]? = some ⟨X, base⟩) (hq : q < X.size) (hlt : base + X.size < ptrBase)
    {Q : Sig → Env → St → Prop}
    (hQ : Q .normal env { st with leak := .wr (mkPtr b (base + q)) 1 :: st.leak, mem := setBlock st.mem b (X.setIfInBounds q (c.toUInt8, .pub)) }) :
    RunsTo prog (.store .u8 ea (.cast .u8 .i32 (.lit c))) env st Q := by
  refine runs_store (mkPtr b (base + q)) c b q 1 .pub rfl hea (by simp only [evalE, castVal_u8_i32_small c hc]) (resolve_byte hm q (by omega) (by omega)) ?_
  rw [blockBytes_of hm]
  have hwr : writeLE X q c .pub 1 = X.setIfInBounds q (c.toUInt8, .pub) := by
    simp only [writeLE, Nat.mod_eq_of_lt hc]
  rw [hwr]; exact hQ


/-- **`tinyjambu_hkdf_extract(state, key, keylen, salt, saltlen)` as a call** -/
theorem hkdf_extract_call (env : Env) (st : St) (es ek ekl et etl : Expr) (bs bk bt : Nat) (X XK XT : Array LByte) (baseS basek koff baset toff : Nat)
    (k : KState) (od : Prop) (key salt : Bytes)
    (hes : evalE env es = .ok (mkPtr bs baseS, .pub)) (hek : evalE env ek = .ok (mkPtr bk (basek + koff), .pub)) (hekl : evalE env ekl = .ok (key.length, .pub))
    (het : evalE env et = .ok (mkPtr bt (baset + toff), .pub)) (hetl : evalE env etl = .ok (salt.length, .pub))
    (hS : st.mem[bs]? = some ⟨X, baseS⟩) (hK : st.mem[bk]? = some ⟨XK, basek⟩) (hT : st.mem[bt]? = some ⟨XT, baset⟩) (hnk : bk ≠ bs) (hnt : bt ≠ bs)
    (hXs : 66 ≤ X.size) (hout : od → BytesV X 32 k.out) (houtl : k.out.length = 32)
    (hltS : baseS + X.size < ptrBase) (hltK : basek + XK.size < ptrBase) (hltT : baset + XT.size < ptrBase)
    (hkd : BytesV XK koff key) (htd : BytesV XT toff salt) (hsz : st.mem.size + 9 < 2 ^ 30) :
    RunsTo prog (.call none idx_tinyjambu_hkdf_extract [es, ek, ekl, et, etl]) env st (fun sig e s => sig = .normal ∧ e = env ∧ s.ent = st.ent ∧ s.mem.size = st.mem.size ∧
      (∃ X', s.mem[bs]? = some ⟨X', baseS⟩ ∧ X'.size = X.size ∧ KObjV X' (k.extract key salt) od) ∧
      (∀ j, j ≠ bs → ORel BlockEqV s.mem[j]? st.mem[j]?)) := by
  have hbsN := mem_lt hS; have hbkN := mem_lt hK; have hbtN := mem_lt hT
  let vs : List LVal := [(mkPtr bs baseS, .pub), (mkPtr bk (basek + koff), .pub), (key.length, .pub), (mkPtr bt (baset + toff), .pub), (salt.length, .pub)]
  refine runs_call_none f_tinyjambu_hkdf_extract vs prog_hkdf_extract (by simp only [evalArgs, hes, hek, hekl, het, hetl]; rfl) rfl ?_
  have hent : enterFun f_tinyjambu_hkdf_extract vs st.mem = (#[(mkPtr bs baseS, .pub), (mkPtr bk (basek + koff), .pub), (key.length, .pub), (mkPtr bt (baset + toff), .pub),
      (salt.length, .pub), (0, .undef), (mkPtr st.mem.size 0, .pub), (0, .undef), (0, .undef)], st.mem.push ⟨Array.replicate 56 (0, .undef), 0⟩) := rfl
  rw [hent]
  generalize hm1 : st.mem.push ⟨Array.replicate 56 (0, .undef), 0⟩ = mem1
  have hm1lt : ∀ j, j < st.mem.size → mem1[j]? = st.mem[j]? := by
    intro j hj; rw [← hm1, Array.getElem?_push]; simp only [show ¬ j = st.mem.size from by omega, if_false]
  have hm1n : mem1[st.mem.size]? = some ⟨Array.replicate 56 (0, .undef), 0⟩ := by rw [← hm1, Array.getElem?_push]; simp
  have hm1sz : mem1.size = st.mem.size + 1 := by rw [← hm1, Array.size_push]
  have hbody : f_tinyjambu_hkdf_extract.body = seqs [.assign 5 (.var 0), .call none idx_tinyjambu_hmac_init [.var 6, .var 3, .var 4],
      .call none idx_tinyjambu_hmac_update [.var 6, .var 1, .var 2], .call none idx_tinyjambu_hmac_finalize [.var 6, .var 3, .var 4, .var 5],
      .call none idx_tinyjambu_hmac_free [.var 6],
      seqs [.assign 7 (.bin .add .u64 (.var 5) (.lit 64)), .store .u8 (.var 7) (.cast .u8 .i32 (.lit 1))],
      seqs [.assign 8 (.bin .add .u64 (.var 5) (.lit 65)), .store .u8 (.var 8) (.cast .u8 .i32 (.lit 32))]] := rfl
  rw [hbody]
  simp only [seqs]
  generalize hE : (#[(mkPtr bs baseS, Lab.pub), (mkPtr bk (basek + koff), Lab.pub), (key.length, Lab.pub), (mkPtr bt (baset + toff), Lab.pub), (salt.length, Lab.pub),
    (mkPtr bs baseS, Lab.pub), (mkPtr st.mem.size 0, Lab.pub), (0, Lab.undef), (0, Lab.undef)] : Env) = E
  refine runs_seq (Q := fun e s => e = E ∧ s = { st with mem := mem1 }) (runs_assign (mkPtr bs baseS, .pub) rfl ⟨rfl, by rw [← hE]; rfl, rfl⟩) ?_
  intro e0 s0 ⟨he0, hs0⟩; rw [he0, hs0]
  have e_1 : E[1]? = some (mkPtr bk (basek + koff), .pub) := by rw [← hE]; rfl
  have e_2 : E[2]? = some (key.length, .pub) := by rw [← hE]; rfl
  have e_3 : E[3]? = some (mkPtr bt (baset + toff), .pub) := by rw [← hE]; rfl
  have e_4 : E[4]? = some (salt.length, .pub) := by rw [← hE]; rfl
  have e_5 : E[5]? = some (mkPtr bs (baseS + 0), .pub) := by rw [← hE]; rfl
  have e_6 : E[6]? = some (mkPtr st.mem.size 0, .pub) := by rw [← hE]; rfl
  have hEs : E.size = 9 := by rw [← hE]; rfl
  have ev6 : evalE E (.var 6) = .ok (mkPtr st.mem.size 0, .pub) := by simp only [evalE, e_6, reduceCtorEq, if_false]
  -- HMAC(salt, key) into prk
  refine runs_seq (Q := fun e s => e = E ∧ s.ent = st.ent ∧ s.mem.size = st.mem.size + 1 ∧
      (∃ X1, s.mem[st.mem.size]? = some ⟨X1, 0⟩ ∧ X1.size = 56 ∧ HObjV X1 (hmacInit HState.fresh salt)) ∧ OthV st.mem.size s.mem mem1) ?_ ?_
  · refine (hmac_init_call E { st with mem := mem1 } (.var 6) (.var 3) (.var 4) st.mem.size bt (Array.replicate 56 (0, .undef)) XT 0 baset toff HState.fresh salt
      ev6 (by simp only [evalE, e_3, reduceCtorEq, if_false]) (by simp only [evalE, e_4, reduceCtorEq, if_false]) hm1n (by show mem1[bt]? = _; rw [hm1lt bt hbtN]; exact hT)
      (by omega) (by simp) (by decide) (by simp [ptrBase]) hltT htd (by show mem1.size + 3 < _; omega)).weaken ?_
    intro sig e s ⟨g1, g2, g3, g4, ⟨X1, g5, g6, g7⟩, g8⟩
    exact ⟨g1, g2, g3, by rw [g4]; exact hm1sz, ⟨X1, g5, by rw [g6]; simp, g7⟩, g8⟩
  intro e1 s1 ⟨he1, hent1, hsz1, ⟨X1, hX1, hX1s, ho1⟩, hoth1⟩
  rw [he1]
  have heq1 : ∀ j, j < st.mem.size → ORel BlockEqV s1.mem[j]? st.mem[j]? := fun j hj => by have := hoth1 j (by omega); rw [hm1lt j hj] at this; exact this
  obtain ⟨XK1, hK1, hK1s, hK1v⟩ := eqv_block (by have := heq1 bk hbkN; rw [hK] at this; exact this)
  refine runs_seq (Q := fun e s => e = E ∧ s.ent = st.ent ∧ s.mem.size = st.mem.size + 1 ∧ OthV st.mem.size s.mem s1.mem ∧
      ∃ X2, s.mem[st.mem.size]? = some ⟨X2, 0⟩ ∧ X2.size = 56 ∧ HObjV X2 (hmacUpdate (hmacInit HState.fresh salt) key)) ?_ ?_
  · refine (hmac_update_call E s1 (.var 6) (.var 1) (.var 2) st.mem.size bk X1 XK1 0 basek koff (hmacInit HState.fresh salt) key ev6
      (by simp only [evalE, e_1, reduceCtorEq, if_false]) (by simp only [evalE, e_2, reduceCtorEq, if_false]) hX1 hK1 (by omega) ho1 (by decide) (by rw [hX1s]; simp [ptrBase])
      (by rw [hK1s]; exact hltK) (by omega) (by omega) (by omega) (bytesV_of_veq hK1v hkd)).weaken ?_
    intro sig e s ⟨g1, g2, g3, g4, g5, X2, g6, g7, g8⟩
    exact ⟨g1, g2, by rw [g3]; exact hent1, by rw [g4]; exact hsz1, g5, X2, g6, by rw [g7]; exact hX1s, g8⟩
  intro e2 s2 ⟨he2, hent2, hsz2, hoth2, X2, hX2, hX2s, ho2⟩
  rw [he2]
  have heq2 : ∀ j, j < st.mem.size → ORel BlockEqV s2.mem[j]? st.mem[j]? := fun j hj =>
    orel_trans (R := BlockEqV) (fun _ _ _ p q => BlockEqV.trans p q) (hoth2 j (by omega)) (heq1 j hj)
  obtain ⟨XT2, hT2, hT2s, hT2v⟩ := eqv_block (by have := heq2 bt hbtN; rw [hT] at this; exact this)
  obtain ⟨XS2, hS2, hS2s, hS2v⟩ := eqv_block (by have := heq2 bs hbsN; rw [hS] at this; exact this)
  refine runs_seq (Q := fun e s => e = E ∧ s.ent = st.ent ∧ s.mem.size = st.mem.size + 1 ∧
      (∃ X3, s.mem[st.mem.size]? = some ⟨X3, 0⟩ ∧ X3.size = 56) ∧
      (∃ XS3, s.mem[bs]? = some ⟨XS3, baseS⟩ ∧ XS3.size = X.size ∧ BytesV XS3 0 (hmac salt key) ∧ (∀ q, (q < 0 ∨ 0 + 32 ≤ q) → ORel VEq XS3[q]? XS2[q]?)) ∧
      (∀ j, j ≠ st.mem.size → j ≠ bs → ORel BlockEqV s.mem[j]? s2.mem[j]?)) ?_ ?_
  · refine (hmac_finalize_call E s2 (.var 6) (.var 3) (.var 4) (.var 5) st.mem.size bt bs X2 XT2 XS2 0 baset toff baseS 0 (hmacUpdate (hmacInit HState.fresh salt) key) salt
      ev6 (by simp only [evalE, e_3, reduceCtorEq, if_false]) (by simp only [evalE, e_4, reduceCtorEq, if_false]) (by simp only [evalE, e_5, reduceCtorEq, if_false])
      hX2 hT2 hS2 (by omega) (by omega) ho2 (by decide) (by rw [hX2s]; simp [ptrBase]) (by rw [hT2s]; exact hltT) (by rw [hS2s]; exact hltS) (bytesV_of_veq hT2v htd)
      (by rw [hS2s]; omega) (by omega)).weaken ?_
    intro sig e s ⟨g1, g2, g3, g4, ⟨X3, g5, g6, _⟩, ⟨XO3, g7, g8, g9, g10⟩, g11⟩
    exact ⟨g1, g2, by rw [g3]; exact hent2, by rw [g4]; exact hsz2, ⟨X3, g5, by rw [g6]; exact hX2s⟩, ⟨XO3, g7, by rw [g8]; exact hS2s, g9, g10⟩, g11⟩
  intro e3 s3 ⟨he3, hent3, hsz3, ⟨X3, hX3, hX3s⟩, ⟨XS3, hS3, hS3s, hS3d, hS3o⟩, hoth3⟩
  rw [he3]
  -- free the local HMAC state
  refine runs_seq (Q := fun e s => e = E ∧ s.ent = st.ent ∧ s.mem = setBlock s3.mem st.mem.size (Array.replicate 56 (0, Lab.pub))) ?_ ?_
  · refine (hmac_free_call E s3 (.var 6) st.mem.size ⟨X3, 0⟩ (by omega) ev6 hX3 rfl hX3s).weaken ?_
    intro sig e s ⟨g1, g2, g3, g4⟩
    exact ⟨g1, g2, by rw [g3]; exact hent3, g4⟩
  intro e4 s4 ⟨he4, hent4, hm4⟩
  rw [he4]
  have hS4 : s4.mem[bs]? = some ⟨XS3, baseS⟩ := by rw [hm4, getElem?_setBlock', if_neg (by omega)]; exact hS3
  -- counter = 1; posn = 32
  have hp64 : (mkPtr bs (baseS + 0) + 64) % 18446744073709551616 = mkPtr bs (baseS + 64) := by
    rw [ptr_off bs (baseS + 0) 64 (by omega) (by omega)]
  have hp65 : (mkPtr bs (baseS + 0) + 65) % 18446744073709551616 = mkPtr bs (baseS + 65) := by
    rw [ptr_off bs (baseS + 0) 65 (by omega) (by omega)]
  refine runs_seq (Q := fun e s => e = setVar E 7 (mkPtr bs (baseS + 64), .pub) ∧ s.ent = st.ent ∧
      s.mem = setBlock s4.mem bs (XS3.setIfInBounds 64 ((1 : Nat).toUInt8, .pub))) ?_ ?_
  · refine runs_seq (Q := fun e s => e = setVar E 7 (mkPtr bs (baseS + 64), .pub) ∧ s = s4) (runs_assign _ (by
      simp only [evalE, e_5, reduceCtorEq, if_false, BinOp.needsPub2, BinOp.needsPub1, Bool.false_and, Bool.or_self, Bool.false_eq_true, binVal, Ty.modulus, Lab.join_pub_pub, hp64]) ⟨rfl, rfl, rfl⟩) ?_
    intro e s ⟨he, hs⟩; rw [he, hs]
    exact store_const_byte (.var 7) 1 (by decide) bs baseS 64 XS3 (by simp only [evalE, get_set_eq _ _ _ (show 7 < E.size from by omega), reduceCtorEq, if_false]) hS4
      (by omega) (by rw [hS3s]; exact hltS) ⟨rfl, rfl, hent4, rfl⟩
  intro e5 s5 ⟨he5, hent5, hm5⟩
  rw [he5]
  have hS5 : s5.mem[bs]? = some ⟨XS3.setIfInBounds 64 ((1 : Nat).toUInt8, .pub), baseS⟩ := by rw [hm5, getElem?_setBlock', if_pos rfl, hS4]; rfl
  refine runs_seq (Q := fun e s => e = setVar (setVar E 7 (mkPtr bs (baseS + 64), .pub)) 8 (mkPtr bs (baseS + 65), .pub) ∧ s = s5) (runs_assign _ (by
    simp only [evalE, get_set_ne _ _ _ _ (show ¬ 7 = 5 from by decide), e_5, reduceCtorEq, if_false, BinOp.needsPub2, BinOp.needsPub1, Bool.false_and, Bool.or_self, Bool.false_eq_true, binVal,
      Ty.modulus, Lab.join_pub_pub, hp65]) ⟨rfl, rfl, rfl⟩) ?_
  intro e6 s6 ⟨he6, hs6⟩; rw [he6, hs6]
  refine store_const_byte (.var 8) 32 (by decide) bs baseS 65 _ (by simp only [evalE, get_set_eq (setVar E 7 (mkPtr bs (baseS + 64), Lab.pub)) 8 _ (by rw [size_setVar]; omega), reduceCtorEq, if_false]) hS5
    (by simp only [Array.size_setIfInBounds]; omega) (by simp only [Array.size_setIfInBounds]; rw [hS3s]; exact hltS) ?_
  -- back in the caller
  generalize hXF : (XS3.setIfInBounds 64 ((1 : Nat).toUInt8, Lab.pub)).setIfInBounds 65 ((32 : Nat).toUInt8, Lab.pub) = XF
  have hXFs : XF.size = X.size := by rw [← hXF]; simp only [Array.size_setIfInBounds]; exact hS3s
  have hXFlo : ∀ q, q < 64 → XF[q]? = XS3[q]? := by
    intro q hq; rw [← hXF, Array.getElem?_setIfInBounds, if_neg (by omega), Array.getElem?_setIfInBounds, if_neg (by omega)]
  have hmF : (setBlock s5.mem bs XF)[bs]? = some ⟨XF, baseS⟩ := by rw [getElem?_setBlock', if_pos rfl, hS5]; rfl
  have hszF : (setBlock s5.mem bs XF).size = st.mem.size + 1 := by rw [size_setBlock', hm5, size_setBlock', hm4, size_setBlock']; exact hsz3
  have hlk : ∀ j, j < st.mem.size → ((setBlock s5.mem bs XF).extract 0 st.mem.size)[j]? = (setBlock s5.mem bs XF)[j]? := by
    intro j hj
    rw [Array.getElem?_extract, hszF]
    have : j < min st.mem.size (st.mem.size + 1) - 0 := by omega
    simp only [this, if_true, Nat.zero_add]
  have hexs : ((setBlock s5.mem bs XF).extract 0 st.mem.size).size = st.mem.size := by rw [Array.size_extract, hszF]; omega
  refine ⟨trivial, trivial, hent5, hexs, ⟨XF, by rw [hlk bs hbsN]; exact hmF, hXFs, ?_⟩, fun j hj => ?_⟩
  · show KObjV XF { k with prk := hmac salt key, counter := 1, posn := 32 } od
    refine ⟨by omega, ?_, hmac_length salt key, fun ho => ?_, houtl, ?_, ?_⟩
    · exact ⟨by rw [hXFs, hmac_length]; omega, fun q b hq => by
        have hq32 : q < 32 := by
          by_cases hh : q < 32
          · exact hh
          · rw [List.getElem?_eq_none (by rw [hmac_length]; omega)] at hq; cases hq
        obtain ⟨l, hx, hl⟩ := hS3d.2 q b hq
        exact ⟨l, by rw [hXFlo _ (by omega)]; exact hx, hl⟩⟩
    · refine ⟨by rw [hXFs, houtl]; omega, fun q b hq => ?_⟩
      have hq32 : q < 32 := by
        by_cases hh : q < 32
        · exact hh
        · rw [List.getElem?_eq_none (by rw [houtl]; omega)] at hq; cases hq
      have hv : ORel VEq XS3[32 + q]? X[32 + q]? :=
        orel_trans (R := VEq) (fun _ _ _ p q => VEq.trans p q) (hS3o (32 + q) (Or.inr (by omega))) (hS2v (32 + q))
      obtain ⟨l, hx, hl⟩ := (hout ho).2 q b hq
      rw [hx] at hv
      cases hz : XS3[32 + q]? with
      | none => rw [hz] at hv; exact hv.elim
      | some z =>
        rw [hz] at hv
        obtain ⟨z1, z2⟩ := z
        have e1 : z1 = b := hv.1
        have e2 : (z2 = Lab.undef) = (l = Lab.undef) := hv.2
        exact ⟨z2, by rw [hXFlo _ (by omega), hz, e1], fun hu => hl (e2 ▸ hu)⟩
    · rw [← hXF, Array.getElem?_setIfInBounds, if_neg (by decide), Array.getElem?_setIfInBounds, if_pos rfl, if_pos (by omega)]; rfl
    · rw [← hXF, Array.getElem?_setIfInBounds, if_pos rfl, if_pos (by simp only [Array.size_setIfInBounds]; omega)]; rfl
  · by_cases hjn : j < st.mem.size
    · rw [hlk j hjn, getElem?_setBlock', if_neg hj, hm5, getElem?_setBlock', if_neg hj, hm4, getElem?_setBlock', if_neg (by omega)]
      exact orel_trans (R := BlockEqV) (fun _ _ _ p q => BlockEqV.trans p q) (hoth3 j (by omega) hj) (heq2 j hjn)
    · rw [Array.getElem?_eq_none (by rw [hexs]; omega), Array.getElem?_eq_none (by omega)]; trivial

end TJ.MiniC.Hoare
